import Harper.Lemmas.Rules
import Harper.Lemmas.RulesPattern
import Harper.Props.C02
import Harper.Props.C13
import Harper.Props.C12b
/-!
# C03 / C01 (continued) — concrete rules: spans point into the text, and the rule does not panic

`Props/C03.lean` proves that a span built by `TokenStringExt::span` from tokens of a chunk lies in
the chunk; rules that do their own index arithmetic were left to the oracle. For the rules of
`Model/Rules.lean` (compared lint for lint with the real rules on every run) both halves are proved
here: on tokens that tile the text (`Tiles toks 0 src.length` — what `document_tiles`
proves of every plain-English document) the rule returns `.ok` (no `Span::new`, slice, `unwrap` or
`get_span_content` panic: `…_total`) and every reported span satisfies `start ≤ stop ≤ src.length`
(`…_spans_wf`).

* `longSentences_spans_wf_any_order`: LongSentences needs no order at all — tokens inside the text
  whose words cover a character suffice; that is the repaired rule. The rule as it was
  (`Span::new(sentence[0].span.start, last.span.end)`) panics on the Markdown-shaped witness (a
  zero-width `ParagraphBreak` positioned at the start of the last text event).
* `modalOfMatch_spans_wf`: `ModalOf::match_to_lint` on ANY matched slice; the `unreachable!()`
  version panics on the 6-token match `we might ␣⏎of` that the real pattern produces.
* `currencyPlacement_disjoint`: what CurrencyPlacement returns is pairwise disjoint, from C13's
  `removeOverlaps_disjoint` — the seeded change that dropped its `remove_overlaps` call falsifies it.
-/
namespace Harper.C03
open Harper Harper.Chunks Harper.Rules
open Harper.C12 (docRule document_tokOK env0 noExt)
open Harper.C02 (asciiCls)

/-- tiling tokens are in text order, non-empty and inside the text -/
theorem ord_of_tiles (toks : List Tok) (n : Nat) (h : Tiles toks 0 n) : Ord n toks := by
  obtain ⟨_, hb, hp⟩ := C02.tiles_inbounds_sorted toks 0 n h
  exact ⟨hp, fun t ht => ⟨(hb t ht).2.1, (hb t ht).2.2⟩⟩

/-- the claim about one run of a rule: it returns, and every lint points into the text -/
def RunsWF (r : PieceRule) (src : List Char) (toks : List Tok) : Prop :=
  ∃ ls, r src toks = .ok ls ∧ ∀ l ∈ ls, l.span.start ≤ l.span.stop ∧ l.span.stop ≤ src.length

/-! ## LongSentences -/

/-- **LongSentences, any token order**: tokens well formed and inside the text, word tokens covering
at least one character. Zero-width structural tokens may sit anywhere (the Markdown front-end puts
them at earlier offsets). -/
theorem longSentences_spans_wf_any_order (env : Env) (src : List Char) (toks : List Tok)
    (hin : ∀ t ∈ toks, t.span.start ≤ t.span.stop ∧ t.span.stop ≤ src.length)
    (hw : ∀ t ∈ toks, t.kind.isWord = true → t.span.start < t.span.stop) :
    RunsWF (ruleLongSentences env) src toks :=
  collectE_ok _ _ _ (fun sent hs =>
    longSentences_ok_any_order src.length src sent
      (fun t ht => hin t (split_mem _ _ sent hs t ht))
      (fun t ht => hw t (split_mem _ _ sent hs t ht)))

theorem longSentences_spans_wf (env : Env) (src : List Char) (toks : List Tok) (h : Tiles toks 0 src.length) :
    RunsWF (ruleLongSentences env) src toks := by
  have ho := ord_of_tiles toks _ h
  exact longSentences_spans_wf_any_order env src toks (fun t ht => ⟨by have := ho.2 t ht; omega, (ho.2 t ht).2⟩)
    (fun t ht _ => (ho.2 t ht).1)

theorem longSentences_total (env : Env) (src : List Char) (toks : List Tok) (h : Tiles toks 0 src.length) :
    ∃ ls, ruleLongSentences env src toks = .ok ls :=
  (longSentences_spans_wf env src toks h).imp fun _ h => h.1

/-- the rule before its repair: `Span::new(sentence[0].span.start, sentence.last().span.end)` -/
def longSentencesPieceOld : PieceRule := fun _ sent =>
  let wc := wordCount sent
  if wc > longThreshold then
    match sent.head?, sent.getLast? with
    | some a, some b =>
      match Span.new a.span.start b.span.stop with
      | .error p => .error p
      | .ok sp => .ok [⟨sp, [], 1, wc⟩]
    | _, _ => .error .unwrapNone
  else .ok []

/-- Markdown-shaped witness: 41 one-letter words at `20..102` and the zero-width `ParagraphBreak`
that `End(Paragraph)` positions at the START of the last text event (here `0`): a sentence of the
second paragraph of `First. <41 words>` -/
def mdSentence : List Tok :=
  (List.range 41).map (fun i => (⟨⟨20 + 2 * i, 21 + 2 * i⟩, .word⟩ : Tok)) ++ [⟨⟨7, 7⟩, .paragraphBreak⟩]

/-- the old span arithmetic panics on it (`Span::new(20, 7)`) … -/
example : longSentencesPieceOld [] mdSentence = .error .spanNew := by decide

/-- … the repaired rule reports the span of the tokens that cover characters -/
example : longSentencesPiece [] mdSentence = .ok [⟨⟨20, 101⟩, [], 1, 41⟩] := by decide

/-- the hypotheses of `longSentences_spans_wf_any_order` hold of the witness, which does NOT tile -/
example : (∀ t ∈ mdSentence, t.span.start ≤ t.span.stop ∧ t.span.stop ≤ 101) ∧
    (∀ t ∈ mdSentence, t.kind.isWord = true → t.span.start < t.span.stop) ∧ ¬ Tiles mdSentence 0 101 := by decide

/-! ## Spaces, RepeatedWords, the per-token rules -/

theorem spaces_spans_wf (env : Env) (src : List Char) (toks : List Tok) (h : Tiles toks 0 src.length) :
    RunsWF (ruleSpaces env) src toks :=
  overPieces_ok _ _ _ src toks (ord_of_tiles toks _ h) (fun piece ho => spaces_ok _ src piece ho)

theorem spaces_total (env : Env) (src : List Char) (toks : List Tok) (h : Tiles toks 0 src.length) :
    ∃ ls, ruleSpaces env src toks = .ok ls := (spaces_spans_wf env src toks h).imp fun _ h => h.1

theorem repeatedWords_spans_wf (env : Env) (src : List Char) (toks : List Tok) (h : Tiles toks 0 src.length) :
    RunsWF (ruleRepeatedWords env) src toks :=
  overPieces_ok _ _ _ src toks (ord_of_tiles toks _ h) (fun piece ho => repeatedWords_ok env src piece ho)

theorem repeatedWords_total (env : Env) (src : List Char) (toks : List Tok) (h : Tiles toks 0 src.length) :
    ∃ ls, ruleRepeatedWords env src toks = .ok ls := (repeatedWords_spans_wf env src toks h).imp fun _ h => h.1

theorem ellipsisLength_spans_wf (env : Env) (src : List Char) (toks : List Tok) (h : Tiles toks 0 src.length) :
    RunsWF (ruleEllipsisLength env) src toks :=
  perTok_ok _ _ src toks (fun t ht => ellipsis_ok src t ((ord_of_tiles toks _ h).2 t ht))

theorem ellipsisLength_total (env : Env) (src : List Char) (toks : List Tok) (h : Tiles toks 0 src.length) :
    ∃ ls, ruleEllipsisLength env src toks = .ok ls := (ellipsisLength_spans_wf env src toks h).imp fun _ h => h.1

theorem unclosedQuotes_spans_wf (env : Env) (src : List Char) (toks : List Tok) (h : Tiles toks 0 src.length) :
    RunsWF (ruleUnclosedQuotes env) src toks :=
  perTok_ok _ _ src toks (fun t ht => unclosedQuote_ok _ src t ((ord_of_tiles toks _ h).2 t ht))

theorem unclosedQuotes_total (env : Env) (src : List Char) (toks : List Tok) (h : Tiles toks 0 src.length) :
    ∃ ls, ruleUnclosedQuotes env src toks = .ok ls := (unclosedQuotes_spans_wf env src toks h).imp fun _ h => h.1

/-- CorrectNumberSuffix cannot panic at all (`pulled_by` is checked); its span is the last two
characters of a token inside the text -/
theorem correctNumberSuffix_spans_wf (env : Env) (src : List Char) (toks : List Tok) (h : Tiles toks 0 src.length) :
    RunsWF (ruleCorrectNumberSuffix env) src toks :=
  perTok_ok _ _ src toks (fun t ht => correctNumberSuffix_ok env _ src t ((ord_of_tiles toks _ h).2 t ht).2)

theorem correctNumberSuffix_total (env : Env) (src : List Char) (toks : List Tok) :
    ∃ ls, ruleCorrectNumberSuffix env src toks = .ok ls := by
  obtain ⟨ls, e, _⟩ := perTok_ok (correctNumberSuffixTok env) (toks.foldl (fun m t => max m t.span.stop) 0) src toks
    (fun t ht => correctNumberSuffix_ok env _ src t (by
      have : ∀ (l : List Tok) (m : Nat), (∀ u ∈ l, u.span.stop ≤ l.foldl (fun m t => max m t.span.stop) m) ∧
          m ≤ l.foldl (fun m t => max m t.span.stop) m := by
        intro l
        induction l with
        | nil => intro m; exact ⟨by simp, Nat.le_refl _⟩
        | cons a l ih =>
          intro m
          simp only [List.foldl_cons]
          have := ih (max m a.span.stop)
          refine ⟨?_, by omega⟩
          intro u hu
          rcases List.mem_cons.mp hu with rfl | hu
          · omega
          · exact this.1 u hu
      exact (this toks 0).1 t ht))
  exact ⟨ls, e⟩

/-- NumberSuffixCapitalization `unwrap`s `pulled_by(2)`: a suffixed `Number` token must reach two
characters back — `tokOK`, which every token of a document satisfies (`document_tokOK`, from
`number_suffix_shape`) -/
theorem numberSuffixCapitalization_spans_wf (env : Env) (src : List Char) (toks : List Tok)
    (h : Tiles toks 0 src.length) (hs : ∀ t ∈ toks, tokOK t = true) :
    RunsWF (ruleNumberSuffixCapitalization env) src toks :=
  perTok_ok _ _ src toks (fun t ht => numberSuffixCap_ok env src t (hs t ht) ((ord_of_tiles toks _ h).2 t ht).2)

theorem numberSuffixCapitalization_total (env : Env) (src : List Char) (toks : List Tok)
    (h : Tiles toks 0 src.length) (hs : ∀ t ∈ toks, tokOK t = true) :
    ∃ ls, ruleNumberSuffixCapitalization env src toks = .ok ls :=
  (numberSuffixCapitalization_spans_wf env src toks h hs).imp fun _ h => h.1

/-- the side condition is needed: a suffixed number token ending at offset 1 → `unwrap` on `None` -/
example : ruleNumberSuffixCapitalization env0 ['1'] [⟨⟨0, 1⟩, .number 10 (some .st)⟩] = .error .unwrapNone := by decide

theorem anA_spans_wf (env : Env) (src : List Char) (toks : List Tok) (h : Tiles toks 0 src.length) :
    RunsWF (ruleAnA env) src toks :=
  overPieces_ok _ _ _ src toks (ord_of_tiles toks _ h) (fun piece ho => anA_ok env src piece ho)

theorem anA_total (env : Env) (src : List Char) (toks : List Tok) (h : Tiles toks 0 src.length) :
    ∃ ls, ruleAnA env src toks = .ok ls := (anA_spans_wf env src toks h).imp fun _ h => h.1

theorem sentenceCapitalization_spans_wf (env : Env) (src : List Char) (toks : List Tok) (h : Tiles toks 0 src.length) :
    RunsWF (ruleSentenceCapitalization env) src toks :=
  overPieces_ok _ _ _ src toks (ord_of_tiles toks _ h) (fun piece ho => sentCap_ok env src piece ho)

theorem sentenceCapitalization_total (env : Env) (src : List Char) (toks : List Tok) (h : Tiles toks 0 src.length) :
    ∃ ls, ruleSentenceCapitalization env src toks = .ok ls :=
  (sentenceCapitalization_spans_wf env src toks h).imp fun _ h => h.1

/-! ## CurrencyPlacement -/

theorem currencyPlacement_spans_wf (env : Env) (src : List Char) (toks : List Tok) (h : Tiles toks 0 src.length) :
    RunsWF (ruleCurrencyPlacement env) src toks := by
  obtain ⟨cands, e, hc⟩ := overPieces_ok isChunkTerminator (currencyChunk env) _ src toks (ord_of_tiles toks _ h)
    (fun piece ho => currencyChunk_ok env src piece ho)
  have e' : currencyCandidates env src toks = .ok cands := e
  refine ⟨removeOverlapsRL cands, by simp only [ruleCurrencyPlacement, e', Except.map], ?_⟩
  intro l hl
  exact hc l (removeOverlapsRL_mem cands l hl)

theorem currencyPlacement_total (env : Env) (src : List Char) (toks : List Tok) (h : Tiles toks 0 src.length) :
    ∃ ls, ruleCurrencyPlacement env src toks = .ok ls := (currencyPlacement_spans_wf env src toks h).imp fun _ h => h.1

/-- **what CurrencyPlacement returns is pairwise disjoint** (in output order each lint ends before
the next starts), for any tokens: the candidates are well-formed spans (`Span::new` succeeded) and
`remove_overlaps` does the rest (`C13.removeOverlaps_disjoint`) -/
theorem currencyPlacement_disjoint (env : Env) (src : List Char) (toks : List Tok) (ls : List RuleLint)
    (h : ruleCurrencyPlacement env src toks = .ok ls) :
    ls.Pairwise (fun a b => a.span.stop ≤ b.span.start) := by
  simp only [ruleCurrencyPlacement] at h
  cases hc : currencyCandidates env src toks with
  | error e => rw [hc] at h; cases h
  | ok cands =>
    rw [hc] at h
    simp only [Except.map, Except.ok.injEq] at h
    subst h
    have hwf : ∀ x ∈ tagLints 0 cands, x.s ≤ x.e := by
      intro x hx
      obtain ⟨_, _, c, hcm, h1, h2⟩ := tagLints_mem 0 cands x hx
      obtain ⟨a, _, b, _, hs, hle⟩ := currencyCandidates_span env src toks cands hc c (List.mem_of_getElem? hcm)
      rw [← h1, ← h2, hs]
      exact hle
    have hd := C13.removeOverlaps_disjoint (tagLints 0 cands) hwf
    have hd' : (removeOverlaps (tagLints 0 cands)).Pairwise
        (fun a b => (a ∈ tagLints 0 cands ∧ b ∈ tagLints 0 cands) ∧ a.e ≤ b.s) := by
      refine (List.Pairwise.and_mem.mp hd).imp ?_
      intro a b hab
      exact ⟨⟨removeOverlaps_mem _ a hab.1, removeOverlaps_mem _ b hab.2.1⟩, hab.2.2⟩
    unfold removeOverlapsRL
    refine List.Pairwise.filterMap _ ?_ hd'
    intro a a' haa b hb b' hb'
    obtain ⟨_, _, c, hcm, h1, h2⟩ := tagLints_mem 0 cands a haa.1.1
    obtain ⟨_, _, c', hcm', h1', h2'⟩ := tagLints_mem 0 cands a' haa.1.2
    simp only [Nat.sub_zero] at hcm hcm'
    rw [hcm] at hb
    rw [hcm'] at hb'
    cases hb
    cases hb'
    rw [h2, h1']
    exact haa.2

/-- the seeded change `C13r2-currency-no-overlap-removal`: without `remove_overlaps` the candidates
of `5 $ 3` overlap (`5 $` and `$ 3` both claim the symbol) -/
example : currencyCandidates env0 ['a', ' ', '5', ' ', '$', ' ', '3']
      [⟨⟨0, 1⟩, .word⟩, ⟨⟨1, 2⟩, .space 1⟩, ⟨⟨2, 3⟩, .number 10 none⟩, ⟨⟨3, 4⟩, .space 1⟩, ⟨⟨4, 5⟩, .punct .Currency⟩,
        ⟨⟨5, 6⟩, .space 1⟩, ⟨⟨6, 7⟩, .number 10 none⟩] =
    .ok [⟨⟨2, 5⟩, [.replaceWith ['$', '5']], 2, 0⟩, ⟨⟨4, 7⟩, [.replaceWith ['$', '3']], 2, 0⟩] := by decide

/-! ## ModalOf::match_to_lint -/

/-- **`match_to_lint` on any matched slice** of tokens in text order (3, 5, 7 — and 4, 6, 8 … when
the whitespace between the words is made of several tokens): no panic, span inside the text -/
theorem modalOfMatch_spans_wf (env : Env) (src : List Char) (m : List Tok) (h : Ord src.length m) :
    RunsWF (modalOfMatch env) src m := modalOfMatch_ok env src m h

theorem modalOfMatch_total (env : Env) (src : List Char) (m : List Tok) (h : Ord src.length m) :
    ∃ ls, modalOfMatch env src m = .ok ls := (modalOfMatch_spans_wf env src m h).imp fun _ h => h.1

/-- **the whole ModalOf rule**: the pattern (every combinator returns at most as many tokens as it
was given: `modalOfPat_ok`), `run_on_chunk`'s slices, and `match_to_lint` on whatever matched -/
theorem modalOf_spans_wf (env : Env) (src : List Char) (toks : List Tok) (h : Tiles toks 0 src.length) :
    RunsWF (ruleModalOf env) src toks :=
  overPieces_ok _ _ _ src toks (ord_of_tiles toks _ h) (fun piece ho => modalOf_ok env src piece ho)

theorem modalOf_total (env : Env) (src : List Char) (toks : List Tok) (h : Tiles toks 0 src.length) :
    ∃ ls, ruleModalOf env src toks = .ok ls := (modalOf_spans_wf env src toks h).imp fun _ h => h.1

/-- `match matched_toks.len()` as it was: `_ => unreachable!()` -/
def modalIndexUnreachable (env : Env) (src : List Char) (m : List Tok) : Except Panic (Option Nat) :=
  if m.length = 3 ∨ m.length = 5 then modalIndex env src m
  else if m.length = 7 then .ok none
  else .error .assertFail

/-- the text `we might ␣⏎of`, its real tokens, and the six of them the real pattern matches -/
def mightSrc : List Char := ['w', 'e', ' ', 'm', 'i', 'g', 'h', 't', ' ', '\n', 'o', 'f']
def mightToks : List Tok :=
  [⟨⟨0, 2⟩, .word⟩, ⟨⟨2, 3⟩, .space 1⟩, ⟨⟨3, 8⟩, .word⟩, ⟨⟨8, 9⟩, .space 1⟩, ⟨⟨9, 10⟩, .newline 1⟩, ⟨⟨10, 12⟩, .word⟩]

example : (document asciiCls noExt mightSrc).toOption = some mightToks := by decide

/-- the pattern of `ModalOf` matches all SIX tokens (`<word> ␣ might ␣⏎ of`: whitespace of two tokens) -/
example : modalOfPat mightSrc mightToks = .ok 6 := by decide

/-- the `unreachable!()` version panics on that match; the repaired `match_to_lint` returns no lint -/
example : modalIndexUnreachable env0 mightSrc mightToks = .error .assertFail ∧
    modalOfMatch env0 mightSrc mightToks = .ok [] := by decide

/-! ## on the tokens of real sentences (non-vacuity; kernel-evaluated) -/

/-- the hypothesis `Tiles … 0 src.length` is what `document_tiles` gives; `tokOK` what `document_tokOK` gives -/
theorem on_documents (cls : Cls) (ext : Ext) (src : List Char) (hext : ExtOK ext src.length) :
    ∃ toks, document cls ext src = .ok toks ∧ Tiles toks 0 src.length ∧ ∀ t ∈ toks, tokOK t = true := by
  obtain ⟨toks, e, hT⟩ := C02.document_tiles cls ext src hext
  exact ⟨toks, e, hT, document_tokOK cls ext src hext toks e⟩

/-- `There is a space  at the end .` — Spaces reports the double blank and the blank before the period -/
example : docRule asciiCls noExt (ruleSpaces env0) ['a', ' ', ' ', 'b', ' ', '.'] =
    .ok [⟨⟨1, 3⟩, [.replaceWith [' ']], 3, 2⟩, ⟨⟨4, 5⟩, [.remove], 4, 0⟩] := by decide

/-- `could of` → `could have`; `Could Of` keeps its capitals -/
example : docRule asciiCls noExt (ruleModalOf env0) ['c', 'o', 'u', 'l', 'd', ' ', 'o', 'f'] =
    .ok [⟨⟨0, 8⟩, [.replaceWith ['c', 'o', 'u', 'l', 'd', ' ', 'h', 'a', 'v', 'e']], 10, 0⟩] := by decide

/-- `2ND....` — NumberSuffixCapitalization at 1..3, EllipsisLength at 3..7 -/
example : docRule asciiCls noExt (ruleNumberSuffixCapitalization env0) ['2', 'N', 'D', '.', '.', '.', '.'] =
      .ok [⟨⟨1, 3⟩, [.replaceWith ['n', 'd']], 7, 0⟩] ∧
    docRule asciiCls noExt (ruleEllipsisLength env0) ['2', 'N', 'D', '.', '.', '.', '.'] =
      .ok [⟨⟨3, 7⟩, [.replaceWith ['.', '.', '.']], 6, 0⟩] := by decide

/-- `an cat` / `A hour`: AnA keeps the capital (`replace_with_match_case`) -/
example : docRule asciiCls noExt (ruleAnA env0) ['a', 'n', ' ', 'c', 'a', 't', ' ', 'A', ' ', 'h', 'o', 'u', 'r'] =
    .ok [⟨⟨0, 2⟩, [.replaceWith ['a']], 11, 0⟩, ⟨⟨7, 8⟩, [.replaceWith ['A', 'n']], 11, 0⟩] := by decide

/-- `she ran far far far far.` with `she` a nominal and `ran` a verb (metadata handed over as data):
SentenceCapitalization flags the first character; the five-word version is a "short label" and is not -/
def envSheRan : Env :=
  { env0 with wordFlags := fun w => if w == ['s', 'h', 'e'] then 64 else if w == ['r', 'a', 'n'] then 128 else 0 }

example : docRule asciiCls noExt (ruleSentenceCapitalization envSheRan)
      ['s', 'h', 'e', ' ', 'r', 'a', 'n', ' ', 'f', 'a', 'r', ' ', 'f', 'a', 'r', ' ', 'f', 'a', 'r', ' ', 'f', 'a', 'r', '.'] =
      .ok [⟨⟨0, 1⟩, [.replaceWith ['S']], 12, 0⟩] ∧
    docRule asciiCls noExt (ruleSentenceCapitalization envSheRan)
      ['s', 'h', 'e', ' ', 'r', 'a', 'n', ' ', 'f', 'a', 'r', ' ', 'f', 'a', 'r', ' ', 'f', 'a', 'r', '.'] = .ok [] := by decide

/-- `2st` with the value handed over as data -/
example : docRule asciiCls noExt (ruleCorrectNumberSuffix { env0 with numVal := fun _ => .int 2 }) ['2', 's', 't'] =
    .ok [⟨⟨1, 3⟩, [.replaceWith ['n', 'd']], 9, 0⟩] := by decide

/-! ## Added by the w22 audit: the four rules without a FIRING witness on a document, and all eleven
composed with `on_documents` -/

/-- `the the cat`: RepeatedWords fires on a real document (span of both words, keep one) -/
example : docRule asciiCls noExt (ruleRepeatedWords env0) ['t', 'h', 'e', ' ', 't', 'h', 'e', ' ', 'c', 'a', 't'] =
    .ok [⟨⟨0, 7⟩, [.replaceWith ['t', 'h', 'e']], 5, 0⟩] := by decide

/-- `a "b`: UnclosedQuotes fires on the quote without a twin -/
example : docRule asciiCls noExt (ruleUnclosedQuotes env0) ['a', ' ', '"', 'b'] = .ok [⟨⟨2, 3⟩, [], 8, 0⟩] := by decide

/-- `a 5 $ 3`: CurrencyPlacement (the whole rule, `remove_overlaps` included) keeps `5 $` and drops
the overlapping `$ 3` of the candidates above -/
example : docRule asciiCls noExt (ruleCurrencyPlacement env0) ['a', ' ', '5', ' ', '$', ' ', '3'] =
    .ok [⟨⟨2, 5⟩, [.replaceWith ['$', '5']], 2, 0⟩] := by decide

-- forty times `a ` then `ok. ok.` (87 characters, through the lexer): LongSentences FIRES on a document
-- whose tokens tile the text (41 words), on the first sentence only, terminator included
set_option maxRecDepth 20000 in
example : docRule asciiCls noExt (ruleLongSentences env0)
      ((List.replicate 40 ['a', ' ']).flatten ++ ['o', 'k', '.', ' ', 'o', 'k', '.']) =
    .ok [⟨⟨0, 83⟩, [], 1, 41⟩] := by decide

/-- **All eleven, on documents**: whichever rule the driver's table `ruleByName` dispatches to, run on
the tokens of ANY plain-English document (any class table, any in-bounds url / e-mail / hostname lexer,
any `Env`), returns — no panic — and every lint it reports satisfies `start ≤ end ≤ text length`: the
first clause of C03 for these rules, with the hypotheses `Tiles` / `tokOK` of the per-rule theorems
discharged by `on_documents`. -/
theorem eleven_rules_on_documents (cls : Cls) (ext : Ext) (src : List Char) (hext : ExtOK ext src.length)
    (env : Env) (name : String) (r : Env → PieceRule) (hr : ruleByName name = some r) :
    ∃ ls, docRule cls ext (r env) src = .ok ls ∧
      ∀ l ∈ ls, l.span.start ≤ l.span.stop ∧ l.span.stop ≤ src.length := by
  obtain ⟨toks, e, hT, hok⟩ := on_documents cls ext src hext
  simp only [docRule, e]
  unfold ruleByName at hr
  split at hr <;> cases hr
  · exact longSentences_spans_wf env src toks hT
  · exact currencyPlacement_spans_wf env src toks hT
  · exact spaces_spans_wf env src toks hT
  · exact repeatedWords_spans_wf env src toks hT
  · exact ellipsisLength_spans_wf env src toks hT
  · exact numberSuffixCapitalization_spans_wf env src toks hT hok
  · exact correctNumberSuffix_spans_wf env src toks hT
  · exact unclosedQuotes_spans_wf env src toks hT
  · exact modalOf_spans_wf env src toks hT
  · exact anA_spans_wf env src toks hT
  · exact sentenceCapitalization_spans_wf env src toks hT

/-- non-vacuity of `eleven_rules_on_documents`: a table entry, and the `ExtOK` hypothesis at `the the cat`
(the rule FIRES there: example above) -/
example : ruleByName "RepeatedWords" = some ruleRepeatedWords := rfl
example : ExtOK noExt ['t', 'h', 'e', ' ', 't', 'h', 'e', ' ', 'c', 'a', 't'].length := by intro _ _ _ h; cases h
/-- … applied: the conclusion at that instance -/
example : ∃ ls, docRule asciiCls noExt (ruleRepeatedWords env0) ['t', 'h', 'e', ' ', 't', 'h', 'e', ' ', 'c', 'a', 't'] = .ok ls ∧
    ∀ l ∈ ls, l.span.start ≤ l.span.stop ∧ l.span.stop ≤ 11 :=
  eleven_rules_on_documents asciiCls noExt _ (by intro _ _ _ h; cases h) env0 "RepeatedWords" _ rfl

/-- non-vacuity of `currencyPlacement_disjoint` with TWO surviving lints (`a 5 $ 3 b 7 $`: three
candidates, `$ 3` dropped), and its conclusion at that instance -/
example : docRule asciiCls noExt (ruleCurrencyPlacement env0) ['a', ' ', '5', ' ', '$', ' ', '3', ' ', 'b', ' ', '7', ' ', '$'] =
    .ok [⟨⟨2, 5⟩, [.replaceWith ['$', '5']], 2, 0⟩, ⟨⟨10, 13⟩, [.replaceWith ['$', '7']], 2, 0⟩] := by decide
example : [(⟨⟨2, 5⟩, [.replaceWith ['$', '5']], 2, 0⟩ : RuleLint), ⟨⟨10, 13⟩, [.replaceWith ['$', '7']], 2, 0⟩].Pairwise
    (fun a b => a.span.stop ≤ b.span.start) := by decide

/-- non-vacuity of `modalOfMatch_spans_wf` / `_total`: the three tokens of `could of` satisfy `Ord`, and
`match_to_lint` FIRES on them -/
example : Ord ['c', 'o', 'u', 'l', 'd', ' ', 'o', 'f'].length [⟨⟨0, 5⟩, .word⟩, ⟨⟨5, 6⟩, .space 1⟩, ⟨⟨6, 8⟩, .word⟩] ∧
    modalOfMatch env0 ['c', 'o', 'u', 'l', 'd', ' ', 'o', 'f'] [⟨⟨0, 5⟩, .word⟩, ⟨⟨5, 6⟩, .space 1⟩, ⟨⟨6, 8⟩, .word⟩] =
      .ok [⟨⟨0, 8⟩, [.replaceWith ['c', 'o', 'u', 'l', 'd', ' ', 'h', 'a', 'v', 'e']], 10, 0⟩] := by
  refine ⟨⟨by decide, by decide⟩, by decide⟩

/-- the index look-up `ls[l.id]?` in the model of CurrencyPlacement's `remove_overlaps` never misses:
`removeOverlapsRL` returns exactly one lint per survivor of `removeOverlaps`, with that survivor's span
(so `currencyPlacement_spans_wf` / `_disjoint` are not true because the `filterMap` lost lints) -/
theorem removeOverlapsRL_faithful (ls : List RuleLint) :
    (removeOverlapsRL ls).map (fun l => (l.span.start, l.span.stop))
      = (removeOverlaps (tagLints 0 ls)).map (fun x => (x.s, x.e)) := by
  have key : ∀ L : List Lint, (∀ x ∈ L, x ∈ tagLints 0 ls) →
      (L.filterMap (fun l => ls[l.id]?)).map (fun l => (l.span.start, l.span.stop))
        = L.map (fun x => (x.s, x.e)) := by
    intro L
    induction L with
    | nil => intro _; rfl
    | cons x L ih =>
      intro h
      obtain ⟨_, _, c, hc, h1, h2⟩ := tagLints_mem 0 ls x (h x List.mem_cons_self)
      simp only [Nat.sub_zero] at hc
      simp only [List.filterMap_cons, hc, List.map_cons, h1, h2]
      rw [ih (fun y hy => h y (List.mem_cons_of_mem _ hy))]
  exact key _ (fun x hx => C13.removeOverlaps_subset _ x hx)

end Harper.C03
