import Harper.Lemmas.LexAppend
/-! What lexer tokens are made of (no newline inside a non-`Newline` token), and what that implies
for a text that ends in a paragraph break or contains no quotation mark. -/
namespace Harper

/-! # What a lexer token is made of: no token other than a `Newline` token contains a newline -/

def NoNl (l : List Char) : Prop := ∀ c ∈ l, c ≠ '\n'
def AllNl (l : List Char) : Prop := ∀ c ∈ l, c = '\n'

theorem NoNl.cons {c : Char} {l : List Char} (hc : c ≠ '\n') (hl : NoNl l) : NoNl (c :: l) := by
  intro x hx
  rcases List.mem_cons.mp hx with rfl | hx
  · exact hc
  · exact hl x hx

theorem NoNl.nil : NoNl [] := by intro x hx; cases hx

theorem cw_take_all {α} (q : α → Bool) (l : List α) : ∀ x ∈ l.take (countWhile q l), q x = true := by
  induction l with
  | nil => simp [countWhile]
  | cons a l ih =>
    simp only [countWhile]
    split
    · intro x hx
      simp only [List.take_succ_cons, List.mem_cons] at hx
      rcases hx with rfl | hx
      · assumption
      · exact ih x hx
    · simp

theorem regexishLoop_noNl (cls : Cls) (hnl : cls.alnum '\n' = false) (fuel i : Nat) (rest : List Char) (n : Nat)
    (h : regexishLoop cls fuel i rest = some n) : NoNl (rest.take (n - i)) := by
  induction fuel generalizing i rest with
  | zero => simp [regexishLoop] at h
  | succ fuel ih =>
    have hbound := regexishLoop_bound cls _ _ _ _ h
    unfold regexishLoop at h
    cases rest with
    | nil => simp at h
    | cons c r1 =>
      simp only at h
      split at h
      · cases h
      · rename_i hc
        have hcn : c ≠ '\n' := by
          intro e; subst e; simp [hnl] at hc
        split at h
        · rename_i r2
          split at h
          · cases h
          · rename_i d r3
            split at h
            · cases h
            · rename_i hd
              have hdn : d ≠ '\n' := by intro e; subst e; simp [hnl] at hd
              split at h
              · cases h
                rw [show i + 3 + 1 - i = 4 by omega]
                simp only [List.take_succ_cons, List.take_zero]
                exact NoNl.cons hcn (NoNl.cons (by decide) (NoNl.cons hdn (NoNl.cons (by decide) NoNl.nil)))
              · have hb := regexishLoop_bound cls _ _ _ _ h
                have := ih _ _ h
                rw [show n - i = (n - (i + 3)) + 3 by omega]
                simp only [List.take_succ_cons]
                exact NoNl.cons hcn (NoNl.cons (by decide) (NoNl.cons hdn this))
        · cases h
          rw [show i + 1 + 1 - i = 2 by omega]
          simp only [List.take_succ_cons, List.take_zero]
          exact NoNl.cons hcn (NoNl.cons (by decide) NoNl.nil)
        · have hb := regexishLoop_bound cls _ _ _ _ h
          have := ih _ _ h
          rw [show n - i = (n - (i + 1)) + 1 by omega]
          simp only [List.take_succ_cons]
          exact NoNl.cons hcn this

theorem lexRegexish_noNl (cls : Cls) (hc : ClsOK cls) (src : List Char) (k : Kind) (n : Nat)
    (h : lexRegexish cls src = some (k, n)) : NoNl (src.take n) := by
  unfold lexRegexish at h
  split at h
  · rename_i rest
    split at h
    · rename_i m hm
      cases h
      have hb := regexishLoop_bound cls _ _ _ _ hm
      have := regexishLoop_noNl cls hc.nl_alnum _ _ _ _ hm
      rw [show n = (n - 1) + 1 by omega]
      simp only [List.take_succ_cons]
      exact NoNl.cons (by decide) this
    · cases h
  · cases h

theorem hexScan_hex (cls : Cls) (cs : List Char) (k : Nat) (h : hexScan cls cs = some k) :
    ∀ c ∈ cs.take k, isAsciiHex c = true := by
  induction cs generalizing k with
  | nil => simp [hexScan] at h; subst h; simp
  | cons c cs ih =>
    unfold hexScan at h
    split at h
    · cases hs : hexScan cls cs with
      | none => simp [hs] at h
      | some j =>
        simp only [hs, Option.map_some, Option.some.injEq] at h
        subst h
        intro x hx
        simp only [List.take_succ_cons, List.mem_cons] at hx
        rcases hx with rfl | hx
        · assumption
        · exact ih j hs x hx
    · split at h
      · cases h
      · cases h; simp

theorem numberLoop_accepts (src : List Char) (L n : Nat) (h : numberLoop src L = some n) :
    0 < n ∧ ¬ Skipped (src.take n) := by
  induction L with
  | zero => simp [numberLoop] at h
  | succ L ih =>
    simp only [numberLoop] at h
    split at h
    · exact ih h
    · rename_i hdot
      split at h
      · rename_i hp
        cases h
        refine ⟨by omega, ?_⟩
        intro hs
        rcases hs with hs | hs
        · simp [hs] at hdot
        · rw [hs] at hp; cases hp
      · exact ih h

end Harper

namespace Harper

theorem single_char (c : Char) : NoNl [c] ∨ AllNl [c] := by
  by_cases h : c = '\n'
  · right; intro x hx; simp only [List.mem_singleton] at hx; rw [hx]; exact h
  · left; intro x hx; simp only [List.mem_singleton] at hx; rw [hx]; exact h

theorem take_one_cons (c : Char) (r : List Char) : (c :: r).take 1 = [c] := rfl

/-- no url / e-mail / hostname token of the text contains a newline -/
def ExtNoNl (ext : Ext) (P : List Char) : Prop :=
  ∀ pos k n, ext pos = some (k, n) → NoNl ((P.drop pos).take n)

theorem runLexer_chars (cls : Cls) (hc : ClsOK cls) (ext : Ext) (pos : Nat) (src : List Char)
    (hext : ∀ k n, ext pos = some (k, n) → NoNl (src.take n)) (l : LexerName) (kd : Kind) (n : Nat)
    (h : runLexer cls ext pos src l = some (kd, n)) : NoNl (src.take n) ∨ AllNl (src.take n) := by
  cases l <;> simp only [runLexer] at h
  · exact Or.inl (lexRegexish_noNl cls hc src kd n h)
  · -- punctuation: one character
    unfold lexPunctuation at h
    split at h
    · cases h
    · rename_i c r
      split at h
      · cases h; exact single_char c
      · split at h
        · cases h; exact single_char c
        · cases h
  · simp only [lexTabs] at h
    split at h
    · cases h
      left; intro x hx
      have := cw_take_all _ _ x hx
      simp only [beq_iff_eq] at this
      rw [this]; decide
    · cases h
  · simp only [lexSpaces] at h
    split at h
    · cases h
      left; intro x hx
      have := cw_take_all _ _ x hx
      simp only [beq_iff_eq] at this
      rw [this]; decide
    · cases h
  · simp only [lexNewlines] at h
    split at h
    · cases h
      right; intro x hx
      have := cw_take_all _ _ x hx
      simpa using this
    · cases h
  · -- plural digit: `c s` or `c ' s`
    left
    unfold lexPluralDigit at h
    split at h
    · cases h
    · rename_i c r0
      split at h
      · cases h
      · rename_i hca
        have hcn : c ≠ '\n' := by intro e; subst e; revert hca; decide
        split at h
        · rename_i r
          unfold pluralTail at h
          split at h
          · rename_i r2
            have hn : n = 3 := by
              split at h
              · cases h; rfl
              · split at h <;> cases h; rfl
            subst hn
            simp only [List.take_succ_cons, List.take_zero]
            exact NoNl.cons hcn (NoNl.cons (by decide) (NoNl.cons (by decide) NoNl.nil))
          · cases h
        · unfold pluralTail at h
          split at h
          · rename_i r2
            have hn : n = 2 := by
              split at h
              · cases h; rfl
              · split at h <;> cases h; rfl
            subst hn
            simp only [List.take_succ_cons, List.take_zero]
            exact NoNl.cons hcn (NoNl.cons (by decide) NoNl.nil)
          · cases h
  · -- hex number
    left
    unfold lexHexNumber at h
    split at h
    · rename_i z x c rest
      split at h
      · rename_i hcond
        simp only [Bool.and_eq_true, beq_iff_eq] at hcond
        split at h
        · cases h
        · rename_i k hk
          split at h
          · cases h
            have hh := hexScan_hex cls _ _ hk
            simp only [List.take_succ_cons]
            refine NoNl.cons (by rw [hcond.1.1]; decide) (NoNl.cons (by rw [hcond.1.2]; decide) ?_)
            intro y hy
            have := hh y hy
            intro e; subst e; revert this; decide
          · cases h
      · cases h
    · cases h
  · -- decade
    left
    unfold lexLongDecade at h
    split at h
    · rename_i a b c d e rest
      split at h
      · rename_i hcond
        simp only [Bool.and_eq_true, Bool.or_eq_true, beq_iff_eq] at hcond
        obtain ⟨⟨⟨⟨ha, hb⟩, hc'⟩, hd⟩, he⟩ := hcond
        have hn : n = 5 := by
          split at h
          · split at h <;> cases h; rfl
          · cases h; rfl
        subst hn
        simp only [List.take_succ_cons, List.take_zero]
        refine NoNl.cons ?_ (NoNl.cons ?_ (NoNl.cons ?_ (NoNl.cons (by rw [hd]; decide) (NoNl.cons (by rw [he]; decide) NoNl.nil))))
        · rcases ha with rfl | rfl <;> decide
        · intro e'; subst e'; revert hb; decide
        · intro e'; subst e'; revert hc'; decide
      · cases h
    · cases h
  · -- number
    left
    unfold lexNumber at h
    split at h
    · cases h
    · rename_i c rest
      split at h
      · cases h
      · rename_i hnum
        split at h
        · cases h
        · rename_i e he
          split at h
          · rename_i m hm
            cases h
            obtain ⟨hpos, hacc⟩ := numberLoop_accepts _ _ _ hm
            have hs := accepted_shape cls hc c rest (by simpa using hnum) n hpos hacc
            intro x hx e'
            subst e'
            exact nl_not_numChar (hs.1 '\n' hx)
          · cases h
  · split at h
    · rename_i m hm; cases h; exact Or.inl (hext _ _ hm)
    · cases h
  · split at h
    · rename_i m hm; cases h; exact Or.inl (hext _ _ hm)
    · cases h
  · split at h
    · rename_i m hm; cases h; exact Or.inl (hext _ _ hm)
    · cases h
  · simp only [lexWord] at h
    split at h
    · cases h
    · cases h
      left; intro x hx e
      subst e
      have := cw_take_all _ _ _ hx
      simp [hc.nl_lingual] at this
      revert this; decide
  · -- catch: one character
    cases h
    cases src with
    | nil => left; exact NoNl.nil
    | cons c r => exact single_char c

theorem lexToken_chars (cls : Cls) (hc : ClsOK cls) (ext : Ext) (pos : Nat) (src : List Char)
    (hext : ∀ k n, ext pos = some (k, n) → NoNl (src.take n)) (kd : Kind) (n : Nat)
    (h : lexToken cls ext pos src = some (kd, n)) : NoNl (src.take n) ∨ AllNl (src.take n) := by
  unfold lexToken at h
  generalize Tables.lexerOrder = ls at h
  induction ls with
  | nil => cases h
  | cons l ls ih =>
    simp only [firstFound] at h
    cases hr : runLexer cls ext pos src l with
    | none => rw [hr] at h; exact ih h
    | some f =>
      rw [hr] at h
      simp only [Option.some.injEq] at h
      subst h
      exact runLexer_chars cls hc ext pos src hext l kd n hr

end Harper

namespace Harper

theorem cw_replicate (k : Nat) (more : List Char) (h : more.head? ≠ some '\n') :
    countWhile (· == '\n') (List.replicate k '\n' ++ more) = k := by
  induction k with
  | zero =>
    cases more with
    | nil => rfl
    | cons d m =>
      simp only [List.head?_cons, ne_eq, Option.some.injEq] at h
      simp [countWhile, h]
  | succ k ih => simp [List.replicate_succ, countWhile, ih]

/-- a run of newlines is one `Newline` token -/
theorem lexToken_newline_run (cls : Cls) (ext : Ext) (pos k : Nat) (more : List Char) (hk : 1 ≤ k)
    (h : more.head? ≠ some '\n') :
    lexToken cls ext pos (List.replicate k '\n' ++ more) = some (.newline k, k) := by
  obtain ⟨j, rfl⟩ : ∃ j, k = j + 1 := ⟨k - 1, by omega⟩
  have hcw := cw_replicate (j + 1) more h
  have hsrc : List.replicate (j + 1) '\n' ++ more = '\n' :: (List.replicate j '\n' ++ more) := by
    simp [List.replicate_succ]
  have h1 : lexRegexish cls ('\n' :: (List.replicate j '\n' ++ more)) = none := by simp [lexRegexish]
  have h2 : lexPunctuation ('\n' :: (List.replicate j '\n' ++ more)) = none := by
    have a : Tables.quoteChars.contains ('\n' : Char).toNat = false := by decide
    have b : punctOfChar '\n' = none := by decide
    have a' : ¬ (10 ∈ Tables.quoteChars) := by decide
    simp [lexPunctuation, a', b]
  have h3 : lexTabs ('\n' :: (List.replicate j '\n' ++ more)) = none := by simp [lexTabs, countWhile]
  have h4 : lexSpaces ('\n' :: (List.replicate j '\n' ++ more)) = none := by simp [lexSpaces, countWhile]
  have h5 : lexNewlines (List.replicate (j + 1) '\n' ++ more) = some (.newline (j + 1), j + 1) := by
    simp only [lexNewlines, hcw]; simp
  rw [hsrc] at h5 ⊢
  simp [lexToken, Tables.lexerOrder, firstFound, runLexer, h1, h2, h3, h4, h5]

/-- what is left of the part before the final newline run: empty, or not ending in a newline -/
def NoNlEnd (x : List Char) : Prop := x.getLast? ≠ some '\n'

instance (x : List Char) : Decidable (NoNlEnd x) := inferInstanceAs (Decidable (_ ≠ _))

theorem NoNlEnd.drop {x : List Char} (h : NoNlEnd x) (n : Nat) : NoNlEnd (x.drop n) := by
  unfold NoNlEnd at *
  by_cases hn : n < x.length
  · have hne : x.drop n ≠ [] := by
      intro e; have := congrArg List.length e; simp at this; omega
    rw [List.getLast?_eq_some_getLast hne, List.getLast_drop]
    have hx : x ≠ [] := by intro e; subst e; simp at hn
    rw [List.getLast?_eq_some_getLast hx] at h
    exact h
  · rw [List.drop_eq_nil_of_le (by omega)]; simp

/-- a token starting before the final newline run does not reach into it -/
theorem token_stops_before_run (cls : Cls) (hc : ClsOK cls) (ext : Ext) (pos : Nat) (x : List Char) (k : Nat)
    (hx : x ≠ []) (hend : NoNlEnd x) (hk : 1 ≤ k)
    (hext : ∀ kd n, ext pos = some (kd, n) → NoNl ((x ++ List.replicate k '\n').take n))
    (kd : Kind) (n : Nat) (h : lexToken cls ext pos (x ++ List.replicate k '\n') = some (kd, n)) :
    n ≤ x.length := by
  refine Classical.byContradiction fun hgt => ?_
  have hgt : x.length < n := by omega
  -- the token contains the last character of `x` (not a newline) and the first newline of the run
  have hlast : x.getLast hx ≠ '\n' := by
    intro e; apply hend; rw [List.getLast?_eq_some_getLast hx, e]
  have hm1 : x.getLast hx ∈ (x ++ List.replicate k '\n').take n := by
    have hmem : x.getLast hx ∈ x := List.getLast_mem hx
    have hpre : x <+: (x ++ List.replicate k '\n').take n := by
      refine ⟨(List.replicate k '\n').take (n - x.length), ?_⟩
      rw [List.take_append]
      congr 1
      exact (List.take_of_length_le (by omega)).symm
    exact hpre.subset hmem
  have hm2 : '\n' ∈ (x ++ List.replicate k '\n').take n := by
    have h1 : (x ++ List.replicate k '\n')[x.length]? = some '\n' := by
      rw [List.getElem?_append_right (Nat.le_refl _)]
      simp only [Nat.sub_self]
      cases k with
      | zero => omega
      | succ k => simp [List.replicate_succ]
    have h2 : ((x ++ List.replicate k '\n').take n)[x.length]? = some '\n' := by
      rw [List.getElem?_take_of_lt hgt]; exact h1
    exact List.mem_of_getElem? h2
  rcases lexToken_chars cls hc ext pos _ hext kd n h with hno | hall
  · exact hno '\n' hm2 rfl
  · exact hlast (hall _ hm1)

end Harper

namespace Harper

/-- the lexer's tokens of a text that ends in a maximal run of `k ≥ 1` newlines end in `Newline(k)` -/
theorem parseLoop_ends_break (cls : Cls) (hc : ClsOK cls) (ext : Ext) (P0 : List Char) (k : Nat) (hk : 1 ≤ k)
    (hnl : ExtNoNl ext (P0 ++ List.replicate k '\n')) (hok : ExtOK ext (P0.length + k)) :
    ∀ (fuel cursor : Nat) (x : List Char), NoNlEnd x → cursor + x.length = P0.length →
      (P0 ++ List.replicate k '\n').drop cursor = x ++ List.replicate k '\n' →
      (x ++ List.replicate k '\n').length < fuel →
      ∀ toks, parseLoop cls ext fuel cursor (x ++ List.replicate k '\n') = .ok toks →
        ∃ X, toks = X ++ [⟨⟨P0.length, P0.length + k⟩, .newline k⟩] := by
  intro fuel
  induction fuel with
  | zero => intro cursor x _ _ _ hf; omega
  | succ fuel ih =>
    intro cursor x hend hcur hsrc hf toks hp
    cases x with
    | nil =>
      obtain ⟨j, rfl⟩ : ∃ j, k = j + 1 := ⟨k - 1, by omega⟩
      have hl := lexToken_newline_run cls ext cursor (j + 1) [] (by omega) (by simp)
      simp only [List.append_nil, List.nil_append] at hl hp
      rw [List.replicate_succ] at hp hl
      simp only [parseLoop, hl] at hp
      have hd : ('\n' :: List.replicate j '\n').drop (j + 1) = [] := by simp
      rw [hd] at hp
      cases fuel with
      | zero => simp at hf
      | succ fuel =>
        simp only [parseLoop] at hp
        cases hp
        simp only [List.length_nil, Nat.add_zero] at hcur
        subst hcur
        exact ⟨[], rfl⟩
    | cons c cs =>
      have hlen : cursor + ((c :: cs) ++ List.replicate k '\n').length = P0.length + k := by
        simp only [List.length_append, List.length_replicate]; omega
      obtain ⟨kd, n, hl, hn1, hn2⟩ := lexToken_progress cls ext cursor ((c :: cs) ++ List.replicate k '\n')
        (P0.length + k) hok hlen (by simp)
      have hnx : n ≤ (c :: cs).length :=
        token_stops_before_run cls hc ext cursor (c :: cs) k (by simp) hend hk
          (fun kd' n' he => by have := hnl cursor kd' n' he; rwa [hsrc] at this) kd n hl
      have hdrop : ((c :: cs) ++ List.replicate k '\n').drop n = (c :: cs).drop n ++ List.replicate k '\n' :=
        List.drop_append_of_le_length hnx
      have hcons : (c :: cs) ++ List.replicate k '\n' = c :: (cs ++ List.replicate k '\n') := rfl
      rw [hcons] at hp hl hdrop
      simp only [parseLoop, hl] at hp
      rw [hdrop] at hp
      cases hrec : parseLoop cls ext fuel (cursor + n) ((c :: cs).drop n ++ List.replicate k '\n') with
      | error e => rw [hrec] at hp; cases hp
      | ok ts =>
        rw [hrec] at hp
        cases hp
        have hdl : ((c :: cs).drop n).length = (c :: cs).length - n := List.length_drop
        obtain ⟨X, hX⟩ := ih (cursor + n) ((c :: cs).drop n) (hend.drop n) (by rw [hdl]; omega)
          (by rw [← List.drop_drop, hsrc, hcons, hdrop]) (by
            rw [List.length_append, hdl]; simp only [List.length_append] at hf; omega) ts hrec
        exact ⟨_ :: X, by rw [hX]; rfl⟩

theorem parsePlain_ends_break (cls : Cls) (hc : ClsOK cls) (ext : Ext) (P0 : List Char) (k : Nat) (hk : 1 ≤ k)
    (hend : NoNlEnd P0) (hnl : ExtNoNl ext (P0 ++ List.replicate k '\n'))
    (hok : ExtOK ext (P0 ++ List.replicate k '\n').length) (toks : List Tok)
    (h : parsePlain cls ext (P0 ++ List.replicate k '\n') = .ok toks) :
    ∃ X, toks = X ++ [⟨⟨P0.length, P0.length + k⟩, .newline k⟩] := by
  have hl : (P0 ++ List.replicate k '\n').length = P0.length + k := by simp
  rw [hl] at hok
  exact parseLoop_ends_break cls hc ext P0 k hk hnl hok _ 0 P0 hend (by omega) (by simp) (by omega) toks h

end Harper

namespace Harper

/-- the text contains none of the quotation-mark characters of `lex_quote` -/
def NoQuoteChars (P : List Char) : Prop := ∀ c ∈ P, Tables.quoteChars.contains c.toNat = false

instance (P : List Char) : Decidable (NoQuoteChars P) := inferInstanceAs (Decidable (∀ c ∈ P, _))

theorem runLexer_quote (cls : Cls) (ext : Ext) (pos : Nat) (src : List Char) (l : LexerName) (tw : Option Nat) (n : Nat)
    (h : runLexer cls ext pos src l = some (.quote tw, n)) :
    ∃ c r, src = c :: r ∧ Tables.quoteChars.contains c.toNat = true := by
  cases l <;> simp only [runLexer] at h
  · unfold lexRegexish at h
    split at h
    · split at h <;> cases h
    · cases h
  · unfold lexPunctuation at h
    split at h
    · cases h
    · rename_i c r
      split at h
      · rename_i hq; exact ⟨c, r, rfl, hq⟩
      · split at h <;> cases h
  · simp only [lexTabs] at h; split at h <;> cases h
  · simp only [lexSpaces] at h; split at h <;> cases h
  · simp only [lexNewlines] at h; split at h <;> cases h
  · unfold lexPluralDigit at h
    split at h
    · cases h
    · split at h
      · cases h
      · split at h
        all_goals
          unfold pluralTail at h
          split at h
          · split at h
            · cases h
            · split at h <;> cases h
          · cases h
  · unfold lexHexNumber at h
    split at h
    · split at h
      · split at h
        · cases h
        · split at h <;> cases h
      · cases h
    · cases h
  · unfold lexLongDecade at h
    split at h
    · split at h
      · split at h
        · split at h <;> cases h
        · cases h
      · cases h
    · cases h
  · unfold lexNumber at h
    split at h
    · cases h
    · split at h
      · cases h
      · split at h
        · cases h
        · split at h <;> cases h
  · split at h <;> cases h
  · split at h <;> cases h
  · split at h <;> cases h
  · simp only [lexWord] at h; split at h <;> cases h
  · cases h

theorem lexToken_quote (cls : Cls) (ext : Ext) (pos : Nat) (src : List Char) (tw : Option Nat) (n : Nat)
    (h : lexToken cls ext pos src = some (.quote tw, n)) :
    ∃ c r, src = c :: r ∧ Tables.quoteChars.contains c.toNat = true := by
  unfold lexToken at h
  generalize Tables.lexerOrder = ls at h
  induction ls with
  | nil => cases h
  | cons l ls ih =>
    simp only [firstFound] at h
    cases hr : runLexer cls ext pos src l with
    | none => rw [hr] at h; exact ih h
    | some f =>
      rw [hr] at h
      simp only [Option.some.injEq] at h
      subst h
      exact runLexer_quote cls ext pos src l tw n hr

theorem parseLoop_noQuotes (cls : Cls) (ext : Ext) : ∀ (fuel cursor : Nat) (rest : List Char) (toks : List Tok),
    NoQuoteChars rest → parseLoop cls ext fuel cursor rest = .ok toks → ∀ t ∈ toks, t.kind.isQuote = false := by
  intro fuel
  induction fuel with
  | zero => intro cursor rest toks _ h; cases h
  | succ fuel ih =>
    intro cursor rest toks hq h
    cases rest with
    | nil => simp only [parseLoop] at h; cases h; simp
    | cons c cs =>
      simp only [parseLoop] at h
      cases hl : lexToken cls ext cursor (c :: cs) with
      | none => rw [hl] at h; cases h
      | some kn =>
        obtain ⟨k, n⟩ := kn
        rw [hl] at h
        simp only at h
        cases hp : parseLoop cls ext fuel (cursor + n) ((c :: cs).drop n) with
        | error e => rw [hp] at h; cases h
        | ok ts =>
          rw [hp] at h
          cases h
          intro t ht
          rcases List.mem_cons.mp ht with rfl | ht
          · cases k with
            | quote tw =>
              obtain ⟨c', r', e, hc'⟩ := lexToken_quote cls ext cursor _ tw n hl
              cases e
              have := hq c (by simp)
              rw [this] at hc'; cases hc'
            | _ => rfl
          · exact ih _ _ ts (fun x hx => hq x (List.mem_of_mem_drop hx)) hp t ht

/-- a text without quotation-mark characters has no quote token -/
theorem parsePlain_noQuotes (cls : Cls) (ext : Ext) (P : List Char) (hq : NoQuoteChars P) (toks : List Tok)
    (h : parsePlain cls ext P = .ok toks) : ∀ t ∈ toks, t.kind.isQuote = false :=
  parseLoop_noQuotes cls ext _ _ P toks hq h

end Harper
