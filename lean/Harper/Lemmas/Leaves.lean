import Harper.Model.Leaves
import Harper.Lemmas.Rules
import Harper.Lemmas.RulesPattern
import Harper.Lemmas.EditDistance
import Harper.Lemmas.Title
/-!
The leaf patterns of `Model/Leaves.lean` keep the contract of `Pattern::matches` (a returned length is
at most the length of the slice) and do not panic on tokens inside the text; every combinator
preserves both; hence every pattern tree over the real leaves (`RPat`) does.

The hypothesis on the tokens is a parameter `H src ts` that sub-lists inherit (`SliceHyp`): "every
token is non-empty and inside the text" (any order — what the Markdown front-end delivers) or, stronger,
`Ord` (text order — what `Tiles` gives), possibly with a bound on word lengths. Three leaves need more
than the first, and say so in `Side`:

* `WithinEditDistance` runs the `u8` Wagner–Fischer routine: the lower-cased word of the pattern and
  every lower-cased word token must have at most 254 characters (`u8_checked_ok_iff`);
* `SplitCompoundWord` `unwrap`s the canonical capitalisation of a word the dictionary knows (`DictOK`);
* `IsNotTitleCase` subtracts the first token's start from every later word's (`Ord`), and copies the
  canonical capitalisation of a proper noun over the word (`CanonOK`: it is at least as long).
-/
namespace Harper.Leaves
open Harper Harper.Chunks Harper.Rules

/-- a well-formed token inside the text (zero-width tokens — the Markdown front-end's structural
`ParagraphBreak`s — included) -/
def TokIn (src : List Char) (t : Tok) : Prop := t.span.start ≤ t.span.stop ∧ t.span.stop ≤ src.length

/-- a hypothesis on (source, token slice) that every sub-list inherits and that puts the tokens inside the text -/
structure SliceHyp (H : List Char → List Tok → Prop) : Prop where
  inb : ∀ src ts, H src ts → ∀ t ∈ ts, TokIn src t
  sub : ∀ src ts ts', ts'.Sublist ts → H src ts → H src ts'

/-- the contract of `Pattern::matches`, with totality: under `H` the matcher returns, and at most the
length of its slice -/
def MOKh (H : List Char → List Tok → Prop) (m : Matcher) : Prop :=
  ∀ src ts, H src ts → ∃ n, m src ts = .ok n ∧ n ≤ ts.length

/-- tokens inside the text, in any order -/
def InText (src : List Char) (ts : List Tok) : Prop := ∀ t ∈ ts, TokIn src t

theorem inText_hyp : SliceHyp InText where
  inb := fun _ _ h => h
  sub := fun _ _ _ hs h t ht => h t (hs.subset ht)

/-- tokens in text order -/
def InOrder (src : List Char) (ts : List Tok) : Prop := Ord src.length ts

theorem inOrder_hyp : SliceHyp InOrder where
  inb := fun _ _ h t ht => ⟨Nat.le_of_lt (h.2 t ht).1, (h.2 t ht).2⟩
  sub := fun _ _ _ hs h => h.sublist hs

/-- lower-cased word tokens fit the `u8` rows of `edit_distance_min_alloc` -/
def ShortWords (env : Env) (src : List Char) (ts : List Tok) : Prop :=
  ∀ t ∈ ts, t.kind.isWord = true → (toLowerCow env (textOf src t.span)).length ≤ 254

theorem and_hyp {H : List Char → List Tok → Prop} (h : SliceHyp H) (Q : List Char → List Tok → Prop)
    (hq : ∀ src ts ts', ts'.Sublist ts → Q src ts → Q src ts') : SliceHyp (fun src ts => H src ts ∧ Q src ts) where
  inb := fun src ts hh => h.inb src ts hh.1
  sub := fun src ts ts' hs hh => ⟨h.sub src ts ts' hs hh.1, hq src ts ts' hs hh.2⟩

theorem shortWords_sub (env : Env) (src : List Char) (ts ts' : List Tok) (hs : ts'.Sublist ts)
    (h : ShortWords env src ts) : ShortWords env src ts' := fun t ht => h t (hs.subset ht)

theorem getContent_textOf (src : List Char) (t : Tok) (h : TokIn src t) :
    t.span.getContent src = .ok (textOf src t.span) := by
  unfold Span.getContent textOf
  have h1 := h.1
  have h2 := h.2
  rw [if_neg (by omega)]
  split
  · have : t.span.stop = t.span.start := by omega
    simp [this]
  · rfl

theorem mapM_some_mem {α β} (f : α → Option β) : ∀ (l : List α) (ys : List β), l.mapM f = some ys → ∀ y ∈ ys, ∃ x ∈ l, f x = some y
  | [], ys, h => by
    simp only [List.mapM_nil, Option.pure_def, Option.some.injEq] at h
    subst h
    intro y hy; cases hy
  | a :: l, ys, h => by
    simp only [List.mapM_cons, Option.pure_def, Option.bind_eq_bind] at h
    cases hf : f a with
    | none => rw [hf] at h; cases h
    | some b =>
      rw [hf] at h
      simp only [Option.bind_some] at h
      cases hr : l.mapM f with
      | none => rw [hr] at h; cases h
      | some bs =>
        rw [hr] at h
        simp only [Option.bind_some, Option.some.injEq] at h
        subst h
        intro y hy
        rcases List.mem_cons.mp hy with rfl | hy
        · exact ⟨a, by simp, hf⟩
        · obtain ⟨x, hx, hfx⟩ := mapM_some_mem f l bs hr y hy
          exact ⟨x, List.mem_cons_of_mem _ hx, hfx⟩

/-! ## leaves -/

section leaves
variable {H : List Char → List Tok → Prop}

theorem tokAtom_ok (f : List Char → Tok → Bool) : MOKh H (tokAtom f) := by
  intro src ts _
  cases ts with
  | nil => exact ⟨0, rfl, Nat.le_refl _⟩
  | cons t ts =>
    refine ⟨_, rfl, ?_⟩
    simp only [List.length_cons]
    split <;> omega

theorem exactWord_ok (hH : SliceHyp H) (w : List Char) : MOKh H (tokAtomE (exactWordTest w)) := by
  intro src ts hh
  cases ts with
  | nil => exact ⟨0, rfl, Nat.le_refl _⟩
  | cons t ts =>
    have ht := hH.inb src _ hh t (by simp)
    have hb : ∃ b, exactWordTest w src t = .ok b := by
      simp only [exactWordTest]
      split
      · exact ⟨_, rfl⟩
      · rw [getContent_textOf src t ht]; exact ⟨_, rfl⟩
    obtain ⟨b, eb⟩ := hb
    simp only [tokAtomE, eb]
    refine ⟨_, rfl, ?_⟩
    simp only [List.length_cons]
    split <;> omega

theorem anyAtom_ok : MOKh H anyAtom := by
  intro src ts _
  refine ⟨_, rfl, ?_⟩
  cases ts <;> simp

theorem kindAtom_okh (p : Kind → Bool) : MOKh H (kindAtom p) := by
  intro src ts _
  cases ts with
  | nil => exact ⟨0, rfl, Nat.le_refl _⟩
  | cons t ts =>
    refine ⟨_, rfl, ?_⟩
    simp only [List.length_cons]
    split <;> omega

theorem whitespaceAtom_okh : MOKh H whitespaceAtom := fun _ ts _ => ⟨_, rfl, countWhile_le _ ts⟩

theorem wordSetAtom_okh (hH : SliceHyp H) (ws : List (List Char)) : MOKh H (wordSetAtom ws) := by
  intro src ts hh
  cases ts with
  | nil => exact ⟨0, rfl, Nat.le_refl _⟩
  | cons t ts =>
    have ht := hH.inb src _ hh t (by simp)
    simp only [wordSetAtom]
    split
    · exact ⟨0, rfl, Nat.zero_le _⟩
    · rw [getContent_textOf src t ht]
      refine ⟨_, rfl, ?_⟩
      simp only [List.length_cons]
      split <;> omega

theorem anyCapAtom_okh (hH : SliceHyp H) (w : List Char) : MOKh H (anyCapAtom w) := by
  intro src ts hh
  cases ts with
  | nil => exact ⟨0, rfl, Nat.le_refl _⟩
  | cons t ts =>
    have ht := hH.inb src _ hh t (by simp)
    simp only [anyCapAtom]
    split
    · exact ⟨0, rfl, Nat.zero_le _⟩
    · rw [if_neg (by have := ht.1; omega)]
      split
      · exact ⟨0, rfl, Nat.zero_le _⟩
      · rw [getContent_textOf src t ht]
        refine ⟨_, rfl, ?_⟩
        simp only [List.length_cons]
        split <;> omega

theorem nominalGo_le (env : Env) (src : List Char) : ∀ (ts : List Tok) (c : Nat), nominalGo env src c ts ≤ c + ts.length
  | [], c => by simp [nominalGo]
  | [t], c => by
    simp only [nominalGo]
    split
    · omega
    · split <;> simp
  | t :: n :: rest, c => by
    simp only [nominalGo]
    split
    · split
      · omega
      · have := nominalGo_le env src rest (c + 2)
        simp only [List.length_cons]
        omega
    · split <;> simp only [List.length_cons] <;> omega

theorem nominalPhrase_ok (env : Env) : MOKh H (nominalPhraseAtom env) := by
  intro src ts _
  refine ⟨_, rfl, ?_⟩
  have := nominalGo_le env src ts 0
  omega

theorem impliesQuantity_ok (hH : SliceHyp H) (env : Env) : MOKh H (impliesQuantityAtom env) := by
  intro src ts hh
  cases ts with
  | nil => exact ⟨0, rfl, Nat.le_refl _⟩
  | cons t ts =>
    have ht := hH.inb src _ hh t (by simp)
    simp only [impliesQuantityAtom]
    split
    · split
      · exact ⟨0, rfl, Nat.zero_le _⟩
      · split
        · exact ⟨1, rfl, by simp⟩
        · rw [getContent_textOf src t ht]
          refine ⟨_, rfl, ?_⟩
          simp only [List.length_cons]
          split <;> omega
    · exact ⟨1, rfl, by simp⟩
    · exact ⟨0, rfl, Nat.zero_le _⟩

/-- `WithinEditDistance` under the length bounds -/
theorem withinEdit_ok (hH : SliceHyp H) (env : Env) (w : List Char) (d : Nat) (hw : (toLowerCow env w).length ≤ 254)
    (hs : ∀ src ts, H src ts → ShortWords env src ts) : MOKh H (withinEditAtom env w d) := by
  intro src ts hh
  cases ts with
  | nil => exact ⟨0, rfl, Nat.le_refl _⟩
  | cons t ts =>
    have ht := hH.inb src _ hh t (by simp)
    simp only [withinEditAtom]
    split
    · exact ⟨0, rfl, Nat.zero_le _⟩
    · rename_i hword
      rw [getContent_textOf src t ht]
      have hl := hs src _ hh t (by simp) (by simpa using hword)
      simp only []
      rw [editDistance_eq_lev .checked _ _ (.inr ⟨hl, hw⟩)]
      refine ⟨_, rfl, ?_⟩
      simp only [List.length_cons]
      split <;> omega

theorem closure_ok (hH : SliceHyp H) (env : Env) (c : Closure) : MOKh H (tokAtomE (c.test env)) := by
  intro src ts hh
  cases ts with
  | nil => exact ⟨0, rfl, Nat.le_refl _⟩
  | cons t ts =>
    have ht := hH.inb src _ hh t (by simp)
    have hb : ∃ b, c.test env src t = .ok b := by
      cases c <;> simp only [Closure.test]
      · split
        · exact ⟨_, rfl⟩
        · rw [getContent_textOf src t ht]; exact ⟨_, rfl⟩
      · split
        · exact ⟨_, rfl⟩
        · split
          · exact ⟨_, rfl⟩
          · rw [getContent_textOf src t ht]; exact ⟨_, rfl⟩
      · exact ⟨_, rfl⟩
      · exact ⟨_, rfl⟩
      · split
        · exact ⟨_, rfl⟩
        · rw [if_neg (by have := ht.1; omega)]; exact ⟨_, rfl⟩
      · exact ⟨_, rfl⟩
      · exact ⟨_, rfl⟩
    obtain ⟨b, eb⟩ := hb
    simp only [tokAtomE, eb]
    refine ⟨_, rfl, ?_⟩
    simp only [List.length_cons]
    split <;> omega

end leaves

/-! ## combinators -/

section combinators
variable {H : List Char → List Tok → Prop}

theorem seqGo_okh (hH : SliceHyp H) (ps : List Matcher) (hps : ∀ p ∈ ps, MOKh H p) (src : List Char) :
    ∀ (acc : Nat) (ts : List Tok), H src ts → ∃ n, seqGo src ps acc ts = .ok n ∧ n ≤ acc + ts.length := by
  induction ps with
  | nil => intro acc ts _; exact ⟨acc, rfl, by omega⟩
  | cons p ps ih =>
    intro acc ts h
    obtain ⟨n, en, hn⟩ := hps p (by simp) src ts h
    simp only [seqGo, en]
    split
    · exact ⟨0, rfl, Nat.zero_le _⟩
    · rw [if_neg (by omega)]
      obtain ⟨k, ek, hk⟩ := ih (fun q hq => hps q (List.mem_cons_of_mem _ hq)) (acc + n) (ts.drop n)
        (hH.sub src ts _ (List.drop_sublist n ts) h)
      refine ⟨k, ek, ?_⟩
      simp only [List.length_drop] at hk
      omega

theorem seqPat_okh (hH : SliceHyp H) (ps : List Matcher) (hps : ∀ p ∈ ps, MOKh H p) : MOKh H (seqPat ps) := by
  intro src ts h
  obtain ⟨n, en, hn⟩ := seqGo_okh hH ps hps src 0 ts h
  exact ⟨n, en, by omega⟩

theorem repGo_okh (hH : SliceHyp H) (inner : Matcher) (hi : MOKh H inner) (req : Nat) (src : List Char) :
    ∀ (fuel cursor rep : Nat) (ts : List Tok), H src ts → ts.length < fuel →
      ∃ n, repGo inner req src fuel cursor rep ts = .ok n ∧ n ≤ cursor + ts.length := by
  intro fuel
  induction fuel with
  | zero => intro _ _ ts _ hf; omega
  | succ fuel ih =>
    intro cursor rep ts h hf
    obtain ⟨n, en, hn⟩ := hi src ts h
    simp only [repGo, en]
    split
    · refine ⟨_, rfl, ?_⟩
      split <;> omega
    · rw [if_neg (by omega)]
      obtain ⟨k, ek, hk⟩ := ih (cursor + n) (rep + 1) (ts.drop n) (hH.sub src ts _ (List.drop_sublist n ts) h)
        (by simp only [List.length_drop]; omega)
      refine ⟨k, ek, ?_⟩
      simp only [List.length_drop] at hk
      omega

theorem repPat_okh (hH : SliceHyp H) (inner : Matcher) (hi : MOKh H inner) (req : Nat) : MOKh H (repPat inner req) := by
  intro src ts h
  obtain ⟨n, en, hn⟩ := repGo_okh hH inner hi req src (ts.length + 1) 0 0 ts h (by omega)
  exact ⟨n, en, by omega⟩

theorem eitherGo_okh (ps : List Matcher) (hps : ∀ p ∈ ps, MOKh H p) (src : List Char) (ts : List Tok) (h : H src ts) :
    ∀ longest, longest ≤ ts.length → ∃ n, eitherGo src ts ps longest = .ok n ∧ n ≤ ts.length := by
  induction ps with
  | nil => intro longest hl; exact ⟨longest, rfl, hl⟩
  | cons p ps ih =>
    intro longest hl
    obtain ⟨n, en, hn⟩ := hps p (by simp) src ts h
    simp only [eitherGo, en]
    apply ih (fun q hq => hps q (List.mem_cons_of_mem _ hq))
    split <;> assumption

theorem eitherPat_okh (ps : List Matcher) (hps : ∀ p ∈ ps, MOKh H p) : MOKh H (eitherPat ps) :=
  fun src ts h => eitherGo_okh ps hps src ts h 0 (Nat.zero_le _)

theorem allGo_okh (ps : List Matcher) (hps : ∀ p ∈ ps, MOKh H p) (src : List Char) (ts : List Tok) (h : H src ts) :
    ∀ mx, mx ≤ ts.length → ∃ n, allGo src ts ps mx = .ok n ∧ n ≤ ts.length := by
  induction ps with
  | nil => intro mx hl; exact ⟨mx, rfl, hl⟩
  | cons p ps ih =>
    intro mx hl
    obtain ⟨n, en, hn⟩ := hps p (by simp) src ts h
    simp only [allGo, en]
    split
    · exact ⟨0, rfl, Nat.zero_le _⟩
    · apply ih (fun q hq => hps q (List.mem_cons_of_mem _ hq))
      split <;> assumption

theorem allPat_okh (ps : List Matcher) (hps : ∀ p ∈ ps, MOKh H p) : MOKh H (allPat ps) :=
  fun src ts h => allGo_okh ps hps src ts h 0 (Nat.zero_le _)

theorem invertPat_okh (p : Matcher) (hp : MOKh H p) : MOKh H (invertPat p) := by
  intro src ts h
  simp only [invertPat]
  split
  · exact ⟨0, rfl, Nat.zero_le _⟩
  · rename_i hne
    obtain ⟨n, en, _⟩ := hp src ts h
    rw [en]
    refine ⟨_, rfl, ?_⟩
    cases ts with
    | nil => simp at hne
    | cons t ts => simp only [List.length_cons]; split <;> omega

theorem consumesPat_okh (p : Matcher) (hp : MOKh H p) : MOKh H (consumesPat p) := by
  intro src ts h
  obtain ⟨n, en, hn⟩ := hp src ts h
  simp only [consumesPat, en]
  refine ⟨_, rfl, ?_⟩
  split <;> omega

theorem firstGo_okh (ps : List Matcher) (hps : ∀ p ∈ ps, MOKh H p) (src : List Char) (ts : List Tok) (h : H src ts) :
    ∃ n, firstGo src ts ps = .ok n ∧ n ≤ ts.length := by
  induction ps with
  | nil => exact ⟨0, rfl, Nat.zero_le _⟩
  | cons p ps ih =>
    obtain ⟨n, en, hn⟩ := hps p (by simp) src ts h
    simp only [firstGo, en]
    split
    · exact ⟨n, rfl, hn⟩
    · exact ih (fun q hq => hps q (List.mem_cons_of_mem _ hq))

theorem firstPat_okh (ps : List Matcher) (hps : ∀ p ∈ ps, MOKh H p) : MOKh H (firstPat ps) :=
  fun src ts h => firstGo_okh ps hps src ts h

theorem similarPat_okh (a b : Matcher) (ha : MOKh H a) (hb : MOKh H b) : MOKh H (similarPat a b) := by
  intro src ts h
  obtain ⟨n, en, hn⟩ := ha src ts h
  obtain ⟨k, ek, hk⟩ := hb src ts h
  simp only [similarPat, en, ek]
  refine ⟨_, rfl, ?_⟩
  split
  · omega
  · omega

theorem wordGroupPat_okh (hH : SliceHyp H) (rows : List (List Char × Matcher)) (hr : ∀ r ∈ rows, MOKh H r.2) :
    MOKh H (wordGroupPat rows) := by
  intro src ts hh
  cases ts with
  | nil => exact ⟨0, rfl, Nat.le_refl _⟩
  | cons t ts =>
    have ht := hH.inb src _ hh t (by simp)
    simp only [wordGroupPat]
    split
    · exact ⟨0, rfl, Nat.zero_le _⟩
    · rw [getContent_textOf src t ht]
      simp only []
      have hg : ∀ p ∈ (rows.filter fun r => r.1 == textOf src t.span).map (·.2), MOKh H p := by
        intro p hp
        obtain ⟨r, hrm, rfl⟩ := List.mem_map.mp hp
        exact hr r (List.mem_filter.mp hrm).1
      generalize (rows.filter fun r => r.1 == textOf src t.span).map (·.2) = g at hg
      cases g with
      | nil => exact ⟨0, rfl, Nat.zero_le _⟩
      | cons a g => exact firstGo_okh _ hg src _ hh

theorem kindGroupPat_okh (rows : List (Kind × Matcher)) (hr : ∀ r ∈ rows, MOKh H r.2) : MOKh H (kindGroupPat rows) := by
  intro src ts hh
  cases ts with
  | nil => exact ⟨0, rfl, Nat.le_refl _⟩
  | cons t ts =>
    simp only [kindGroupPat]
    split
    · exact ⟨0, rfl, Nat.zero_le _⟩
    · rename_i r hf
      exact hr r (List.mem_of_find?_eq_some hf) src _ hh

/-- a word the dictionary knows has a canonical capitalisation -/
def DictOK (env : Env) : Prop := ∀ w, flagBit (env.wordFlags w) 15 = true → env.canonical w ≠ none

theorem splitCompound_ok (hH : SliceHyp H) (env : Env) (bit : Nat) (hd : DictOK env) : MOKh H (splitCompoundAtom env bit) := by
  intro src ts hh
  have hin := hH.inb src ts hh
  have hinner : MOKh H (seqPat [kindAtom Kind.isWord, whitespaceAtom, kindAtom Kind.isWord]) :=
    seqPat_okh hH _ (by
      intro p hp
      simp only [List.mem_cons, List.mem_nil_iff, or_false] at hp
      rcases hp with rfl | rfl | rfl
      · exact kindAtom_okh _
      · exact whitespaceAtom_okh
      · exact kindAtom_okh _)
  obtain ⟨n, en, hn⟩ := hinner src ts hh
  simp only [splitCompoundAtom, en]
  split
  · exact ⟨0, rfl, Nat.zero_le _⟩
  · rename_i h3
    have h3' : n = 3 := by simpa using h3
    subst h3'
    match ts, hn, hin with
    | a :: _ :: b :: rest, _, hin =>
      have ha := hin a (by simp)
      have hb := hin b (by simp)
      simp only [List.getElem?_cons_zero, List.getElem?_cons_succ]
      rw [getContent_textOf src a ha, getContent_textOf src b hb]
      simp only []
      split
      · rename_i hf
        simp only [Bool.and_eq_true] at hf
        cases hc : env.canonical (textOf src a.span ++ textOf src b.span) with
        | none => exact absurd hc (hd _ hf.1)
        | some c => exact ⟨3, rfl, by simp⟩
      · exact ⟨0, rfl, Nat.zero_le _⟩

end combinators

/-! ## `IsNotTitleCase` -/

/-- the dictionary's canonical capitalisation of a word is at least as long as the word (it has the
word's length for every dictionary entry — a monitor of C18) -/
def CanonOK (env : Env) : Prop := ∀ w c, env.canonical w = some c → w.length ≤ c.length

theorem titleSpanOf_none (ts : List Title.TTok) (h : Title.spanOf ts = none) : ts = [] := by
  cases ts with
  | nil => rfl
  | cons t ts =>
    simp only [Title.spanOf] at h
    split at h <;> cases h

theorem titleSpanOf_spec : ∀ (ts : List Title.TTok) (lo hi : Nat), Title.spanOf ts = some (lo, hi) →
    (∀ w ∈ ts, lo ≤ w.start ∧ lo ≤ w.stop ∧ w.start ≤ hi ∧ w.stop ≤ hi) ∧
    (∀ n, (∀ w ∈ ts, w.start ≤ n ∧ w.stop ≤ n) → hi ≤ n) ∧ lo ≤ hi
  | [], _, _, h => by cases h
  | t :: ts, lo, hi, h => by
    simp only [Title.spanOf] at h
    cases hs : Title.spanOf ts with
    | none =>
      rw [hs] at h
      have hnil := titleSpanOf_none ts hs
      subst hnil
      simp only [Option.some.injEq, Prod.mk.injEq] at h
      obtain ⟨rfl, rfl⟩ := h
      refine ⟨?_, ?_, by omega⟩
      · intro w hw
        simp only [List.mem_singleton] at hw
        subst hw
        omega
      · intro n hn
        have := hn t (by simp)
        omega
    | some p =>
      obtain ⟨lo', hi'⟩ := p
      rw [hs] at h
      simp only [Option.some.injEq, Prod.mk.injEq] at h
      obtain ⟨rfl, rfl⟩ := h
      obtain ⟨ih1, ih2, ih3⟩ := titleSpanOf_spec ts lo' hi' hs
      refine ⟨?_, ?_, by omega⟩
      · intro w hw
        rcases List.mem_cons.mp hw with rfl | hw
        · omega
        · have := ih1 w hw
          omega
      · intro n hn
        have h1 := hn t (by simp)
        have h2 := ih2 n (fun w hw => hn w (List.mem_cons_of_mem _ hw))
        omega

theorem stepPanics_false' {si hi len : Nat} {w : Title.TTok} (cap : Bool) (h1 : si ≤ w.start)
    (h2 : w.start < w.stop) (h3 : w.stop ≤ hi) (hl : hi - si ≤ len)
    (h4 : ∀ c, w.canon = some c → w.stop - w.start ≤ c.length) :
    Title.stepPanics si len w cap = false := by
  cases hc : w.canon with
  | none => cases cap <;> simp [Title.stepPanics, hc] <;> omega
  | some c =>
    have := h4 c hc
    cases cap <;> simp [Title.stepPanics, hc] <;> omega

theorem loopPanics_false' {si hi len : Nat} (ws : List Title.TTok) (index : Nat) (hl : hi - si ≤ len)
    (h : ∀ w ∈ ws, si ≤ w.start ∧ w.start < w.stop ∧ w.stop ≤ hi ∧
      ∀ c, w.canon = some c → w.stop - w.start ≤ c.length) :
    Title.loopPanics si len index ws = false := by
  induction ws generalizing index with
  | nil => rfl
  | cons w rest ih =>
    unfold Title.loopPanics
    obtain ⟨h1, h2, h3, h4⟩ := h w List.mem_cons_self
    rw [stepPanics_false' _ h1 h2 h3 hl h4, ih (index + 1) (fun v hv => h v (List.mem_cons_of_mem _ hv))]
    rfl

theorem textOf_length (src : List Char) (t : Tok) (h : TokIn src t) : (textOf src t.span).length = t.span.stop - t.span.start := by
  simp only [textOf, List.length_take, List.length_drop]
  have := h.1
  have := h.2
  omega

/-- `make_title_case` on a non-empty slice of tokens in text order does not panic -/
theorem makeTitleCase_total (env : Env) (hc : CanonOK env) (src : List Char) (first : Tok) (rest : List Tok)
    (ho : Ord src.length (first :: rest)) :
    ∃ tc, Title.makeTitleCase ((first :: rest).map (toTTok env src)) (src.map Char.toNat) = .ok tc := by
  have hne : (first :: rest).map (toTTok env src) ≠ [] := by simp
  cases hsp : Title.spanOf ((first :: rest).map (toTTok env src)) with
  | none => exact absurd (titleSpanOf_none _ hsp) hne
  | some p =>
    obtain ⟨lo, hi⟩ := p
    obtain ⟨hb, hmax, hle⟩ := titleSpanOf_spec _ lo hi hsp
    have hhi : hi ≤ src.length := hmax src.length (by
      intro w hw
      obtain ⟨t, ht, rfl⟩ := List.mem_map.mp hw
      have := ho.2 t ht
      simp only [toTTok]
      omega)
    have hg : ∃ out0, Span.getContent ⟨lo, hi⟩ (src.map Char.toNat) = .ok out0 :=
      getContent_ok' _ _ hle (by simpa using hhi)
    obtain ⟨out0, hg⟩ := hg
    have hlen := (Title.getContent_ok hg).2.1
    have hlo : lo ≤ first.span.start := (hb (toTTok env src first) (by simp)).1
    have hp : Title.loopPanics (toTTok env src first).start out0.length 0
        (((first :: rest).map (toTTok env src)).filter (·.wordLike)) = false := by
      apply loopPanics_false' (hi := hi) _ _ (by simp only [toTTok]; omega)
      intro w hw
      obtain ⟨hm, _⟩ := List.mem_filter.mp hw
      obtain ⟨t, ht, rfl⟩ := List.mem_map.mp hm
      have htin := ho.2 t ht
      have hbt := hb _ hm
      refine ⟨?_, htin.1, hbt.2.2.2, ?_⟩
      · simp only [toTTok]
        rcases List.mem_cons.mp ht with rfl | htr
        · exact Nat.le_refl _
        · have := (List.pairwise_cons.mp ho.1).1 t htr
          have := (ho.2 first (by simp)).1
          omega
      · intro c hcc
        simp only [toTTok] at hcc ⊢
        split at hcc
        · cases hcan : env.canonical (textOf src t.span) with
          | none => rw [hcan] at hcc; cases hcc
          | some cc =>
            rw [hcan] at hcc
            simp only [Option.map_some, Option.some.injEq] at hcc
            subst hcc
            have := hc _ _ hcan
            rw [textOf_length src t ⟨Nat.le_of_lt htin.1, htin.2⟩] at this
            simpa using this
        · cases hcc
    exact ⟨_, Title.makeTitleCase_of rfl hsp hg hp⟩

theorem notTitleCasePat_okh {H : List Char → List Tok → Prop} (hH : SliceHyp H) (env : Env) (hc : CanonOK env)
    (ho : ∀ src ts, H src ts → Ord src.length ts) (inner : Matcher) (hi : MOKh H inner) :
    MOKh H (notTitleCasePat env inner) := by
  intro src ts hh
  obtain ⟨n, en, hn⟩ := hi src ts hh
  simp only [notTitleCasePat, en]
  split
  · exact ⟨0, rfl, Nat.zero_le _⟩
  · rename_i hn0
    simp only [sliceE]
    rw [if_neg (by omega)]
    simp only [List.drop_zero, Nat.sub_zero]
    have hsub : (ts.take n).Sublist ts := List.take_sublist n ts
    have hord := (ho src ts hh).sublist hsub
    cases hm : ts.take n with
    | nil =>
      have := congrArg List.length hm
      simp only [List.length_take, List.length_nil] at this
      omega
    | cons first rest =>
      rw [hm] at hord
      cases hsp : spanOf (first :: rest) with
      | none => cases hsp
      | some sp =>
        have hspok := spanOf_ok src.length _ sp hsp (fun t ht => by have := hord.2 t ht; omega)
        obtain ⟨matched, em⟩ := getContent_ok' sp src hspok.1 hspok.2
        obtain ⟨tc, etc⟩ := makeTitleCase_total env hc src first rest hord
        simp only [em, etc]
        refine ⟨_, rfl, ?_⟩
        split <;> omega

/-! ## every pattern tree over the real leaves -/

/-- what the three demanding leaves need of the `Env` tables and of the hypothesis `H` on the tokens -/
def Leaf.Side (env : Env) (H : List Char → List Tok → Prop) : Leaf → Prop
  | .withinEdit w _ => (toLowerCow env w).length ≤ 254 ∧ ∀ src ts, H src ts → ShortWords env src ts
  | .splitCompound _ => DictOK env
  | _ => True

mutual
def RPat.Side (env : Env) (H : List Char → List Tok → Prop) : RPat → Prop
  | .leaf l => l.Side env H
  | .seq ps => RPats.Side env H ps
  | .rep p _ => RPat.Side env H p
  | .either ps => RPats.Side env H ps
  | .all ps => RPats.Side env H ps
  | .invert p => RPat.Side env H p
  | .consumes p => RPat.Side env H p
  | .first ps => RPats.Side env H ps
  | .similar a b => RPat.Side env H a ∧ RPat.Side env H b
  | .notTitleCase p => CanonOK env ∧ (∀ src ts, H src ts → Ord src.length ts) ∧ RPat.Side env H p
  | .wordGroup rows => WRows.Side env H rows
  | .kindGroup rows => KRows.Side env H rows
def RPats.Side (env : Env) (H : List Char → List Tok → Prop) : RPats → Prop
  | .nil => True
  | .cons p ps => RPat.Side env H p ∧ RPats.Side env H ps
def WRows.Side (env : Env) (H : List Char → List Tok → Prop) : WRows → Prop
  | .nil => True
  | .cons _ p rest => RPat.Side env H p ∧ WRows.Side env H rest
def KRows.Side (env : Env) (H : List Char → List Tok → Prop) : KRows → Prop
  | .nil => True
  | .cons _ p rest => RPat.Side env H p ∧ KRows.Side env H rest
end

theorem leaf_okh {H : List Char → List Tok → Prop} (hH : SliceHyp H) (env : Env) :
    (l : Leaf) → l.Side env H → MOKh H (l.matcher env)
  | .kind _ _, _ => tokAtom_ok _
  | .strict _, _ => tokAtom_ok _
  | .punctIs _, _ => tokAtom_ok _
  | .numberIs _ _ _, _ => tokAtom_ok _
  | .exactWord w, _ => exactWord_ok hH w
  | .anyCap w, _ => anyCapAtom_okh hH w
  | .wordSet ws, _ => wordSetAtom_okh hH ws
  | .withinEdit w d, h => withinEdit_ok hH env w d h.1 h.2
  | .whitespace, _ => whitespaceAtom_okh
  | .any, _ => anyAtom_ok
  | .nominalPhrase, _ => nominalPhrase_ok env
  | .impliesQuantity, _ => impliesQuantity_ok hH env
  | .splitCompound bit, h => splitCompound_ok hH env bit h
  | .closure c, _ => closure_ok hH env c

mutual
/-- **the contract is a theorem for every tree over the real leaves** -/
theorem matcher_okh {H : List Char → List Tok → Prop} (hH : SliceHyp H) (env : Env) :
    (p : RPat) → RPat.Side env H p → MOKh H (p.matcher env)
  | .leaf l, h => by rw [RPat.matcher]; exact leaf_okh hH env l (by simpa [RPat.Side] using h)
  | .seq ps, h => by rw [RPat.matcher]; exact seqPat_okh hH _ (matchers_okh hH env ps (by simpa [RPat.Side] using h))
  | .rep p req, h => by rw [RPat.matcher]; exact repPat_okh hH _ (matcher_okh hH env p (by simpa [RPat.Side] using h)) req
  | .either ps, h => by rw [RPat.matcher]; exact eitherPat_okh _ (matchers_okh hH env ps (by simpa [RPat.Side] using h))
  | .all ps, h => by rw [RPat.matcher]; exact allPat_okh _ (matchers_okh hH env ps (by simpa [RPat.Side] using h))
  | .invert p, h => by rw [RPat.matcher]; exact invertPat_okh _ (matcher_okh hH env p (by simpa [RPat.Side] using h))
  | .consumes p, h => by rw [RPat.matcher]; exact consumesPat_okh _ (matcher_okh hH env p (by simpa [RPat.Side] using h))
  | .first ps, h => by rw [RPat.matcher]; exact firstPat_okh _ (matchers_okh hH env ps (by simpa [RPat.Side] using h))
  | .similar a b, h => by
    rw [RPat.matcher]
    have h' : RPat.Side env H a ∧ RPat.Side env H b := by simpa [RPat.Side] using h
    exact similarPat_okh _ _ (matcher_okh hH env a h'.1) (matcher_okh hH env b h'.2)
  | .notTitleCase p, h => by
    rw [RPat.matcher]
    have h' : CanonOK env ∧ (∀ src ts, H src ts → Ord src.length ts) ∧ RPat.Side env H p := by
      simpa [RPat.Side] using h
    exact notTitleCasePat_okh hH env h'.1 h'.2.1 _ (matcher_okh hH env p h'.2.2)
  | .wordGroup rows, h => by
    rw [RPat.matcher]; exact wordGroupPat_okh hH _ (wrows_okh hH env rows (by simpa [RPat.Side] using h))
  | .kindGroup rows, h => by
    rw [RPat.matcher]; exact kindGroupPat_okh _ (krows_okh hH env rows (by simpa [RPat.Side] using h))
theorem matchers_okh {H : List Char → List Tok → Prop} (hH : SliceHyp H) (env : Env) :
    (ps : RPats) → RPats.Side env H ps → ∀ m ∈ RPats.matchers env ps, MOKh H m
  | .nil, _ => by intro m hm; simp [RPats.matchers] at hm
  | .cons p ps, h => by
    intro m hm
    have h' : RPat.Side env H p ∧ RPats.Side env H ps := by simpa [RPats.Side] using h
    simp only [RPats.matchers, List.mem_cons] at hm
    rcases hm with rfl | hm
    · exact matcher_okh hH env p h'.1
    · exact matchers_okh hH env ps h'.2 m hm
theorem wrows_okh {H : List Char → List Tok → Prop} (hH : SliceHyp H) (env : Env) :
    (rows : WRows) → WRows.Side env H rows → ∀ r ∈ WRows.rows env rows, MOKh H r.2
  | .nil, _ => by intro r hr; simp [WRows.rows] at hr
  | .cons w p rest, h => by
    intro r hr
    have h' : RPat.Side env H p ∧ WRows.Side env H rest := by simpa [WRows.Side] using h
    simp only [WRows.rows, List.mem_cons] at hr
    rcases hr with rfl | hr
    · exact matcher_okh hH env p h'.1
    · exact wrows_okh hH env rest h'.2 r hr
theorem krows_okh {H : List Char → List Tok → Prop} (hH : SliceHyp H) (env : Env) :
    (rows : KRows) → KRows.Side env H rows → ∀ r ∈ KRows.rows env rows, MOKh H r.2
  | .nil, _ => by intro r hr; simp [KRows.rows] at hr
  | .cons k p rest, h => by
    intro r hr
    have h' : RPat.Side env H p ∧ KRows.Side env H rest := by simpa [KRows.Side] using h
    simp only [KRows.rows, List.mem_cons] at hr
    rcases hr with rfl | hr
    · exact matcher_okh hH env p h'.1
    · exact krows_okh hH env rest h'.2 r hr
end

/-- trees without `WithinEditDistance`, `SplitCompoundWord` and `IsNotTitleCase` (every tree of the
shipped tables is one) need nothing -/
def Leaf.plain : Leaf → Bool
  | .withinEdit _ _ => false
  | .splitCompound _ => false
  | _ => true

mutual
def RPat.plain : RPat → Bool
  | .leaf l => l.plain
  | .seq ps => RPats.plain ps
  | .rep p _ => RPat.plain p
  | .either ps => RPats.plain ps
  | .all ps => RPats.plain ps
  | .invert p => RPat.plain p
  | .consumes p => RPat.plain p
  | .first ps => RPats.plain ps
  | .similar a b => RPat.plain a && RPat.plain b
  | .notTitleCase _ => false
  | .wordGroup rows => WRows.plain rows
  | .kindGroup rows => KRows.plain rows
def RPats.plain : RPats → Bool
  | .nil => true
  | .cons p ps => RPat.plain p && RPats.plain ps
def WRows.plain : WRows → Bool
  | .nil => true
  | .cons _ p rest => RPat.plain p && WRows.plain rest
def KRows.plain : KRows → Bool
  | .nil => true
  | .cons _ p rest => RPat.plain p && KRows.plain rest
end

mutual
theorem side_of_plain (env : Env) (H : List Char → List Tok → Prop) : (p : RPat) → p.plain = true → RPat.Side env H p
  | .leaf l, h => by
    simp only [RPat.Side]
    cases l <;> simp_all [Leaf.Side, RPat.plain, Leaf.plain]
  | .seq ps, h => by simp only [RPat.Side]; exact sides_of_plain env H ps (by simpa [RPat.plain] using h)
  | .rep p _, h => by simp only [RPat.Side]; exact side_of_plain env H p (by simpa [RPat.plain] using h)
  | .either ps, h => by simp only [RPat.Side]; exact sides_of_plain env H ps (by simpa [RPat.plain] using h)
  | .all ps, h => by simp only [RPat.Side]; exact sides_of_plain env H ps (by simpa [RPat.plain] using h)
  | .invert p, h => by simp only [RPat.Side]; exact side_of_plain env H p (by simpa [RPat.plain] using h)
  | .consumes p, h => by simp only [RPat.Side]; exact side_of_plain env H p (by simpa [RPat.plain] using h)
  | .first ps, h => by simp only [RPat.Side]; exact sides_of_plain env H ps (by simpa [RPat.plain] using h)
  | .similar a b, h => by
    have h' : a.plain = true ∧ b.plain = true := by simpa [RPat.plain] using h
    simp only [RPat.Side]
    exact ⟨side_of_plain env H a h'.1, side_of_plain env H b h'.2⟩
  | .notTitleCase _, h => by simp [RPat.plain] at h
  | .wordGroup rows, h => by simp only [RPat.Side]; exact wside_of_plain env H rows (by simpa [RPat.plain] using h)
  | .kindGroup rows, h => by simp only [RPat.Side]; exact kside_of_plain env H rows (by simpa [RPat.plain] using h)
theorem sides_of_plain (env : Env) (H : List Char → List Tok → Prop) : (ps : RPats) → ps.plain = true → RPats.Side env H ps
  | .nil, _ => by simp [RPats.Side]
  | .cons p ps, h => by
    have h' : p.plain = true ∧ ps.plain = true := by simpa [RPats.plain] using h
    simp only [RPats.Side]
    exact ⟨side_of_plain env H p h'.1, sides_of_plain env H ps h'.2⟩
theorem wside_of_plain (env : Env) (H : List Char → List Tok → Prop) : (rows : WRows) → rows.plain = true → WRows.Side env H rows
  | .nil, _ => by simp [WRows.Side]
  | .cons _ p rest, h => by
    have h' : p.plain = true ∧ rest.plain = true := by simpa [WRows.plain] using h
    simp only [WRows.Side]
    exact ⟨side_of_plain env H p h'.1, wside_of_plain env H rest h'.2⟩
theorem kside_of_plain (env : Env) (H : List Char → List Tok → Prop) : (rows : KRows) → rows.plain = true → KRows.Side env H rows
  | .nil, _ => by simp [KRows.Side]
  | .cons _ p rest, h => by
    have h' : p.plain = true ∧ rest.plain = true := by simpa [KRows.plain] using h
    simp only [KRows.Side]
    exact ⟨side_of_plain env H p h'.1, kside_of_plain env H rest h'.2⟩
end

/-! ## locality: every leaf and every combinator looks only at kinds, spans and the characters under its tokens -/

section locality

theorem tokAtom_local (f : List Char → Tok → Bool)
    (hl : ∀ (P D : List Char) (t : Tok), t.span.stop ≤ P.length → f (P ++ D) t = f P t)
    (hr : ∀ (P D : List Char) (t : Tok) (j : Nat), f (P ++ D) (shTok P.length j t) = f D t) : MLocal (tokAtom f) where
  left := by
    intro P D ts h
    cases ts with
    | nil => rfl
    | cons t ts => simp only [tokAtom, hl P D t (h t (by simp))]
  right := by
    intro P D ts j
    cases ts with
    | nil => rfl
    | cons t ts => simp only [List.map_cons, tokAtom, hr]

theorem tokAtomE_local (f : List Char → Tok → Except Panic Bool)
    (hl : ∀ (P D : List Char) (t : Tok), t.span.stop ≤ P.length → f (P ++ D) t = f P t)
    (hr : ∀ (P D : List Char) (t : Tok) (j : Nat), f (P ++ D) (shTok P.length j t) = f D t) : MLocal (tokAtomE f) where
  left := by
    intro P D ts h
    cases ts with
    | nil => rfl
    | cons t ts => simp only [tokAtomE, hl P D t (h t (by simp))]
  right := by
    intro P D ts j
    cases ts with
    | nil => rfl
    | cons t ts => simp only [List.map_cons, tokAtomE, hr]

@[simp] theorem isComma_shiftTwin (j : Nat) (k : Kind) : isComma (shiftTwin j k) = isComma k := by
  cases k <;> try rfl
  rename_i t; cases t <;> rfl
@[simp] theorem isHyphen_shiftTwin (j : Nat) (k : Kind) : isHyphen (shiftTwin j k) = isHyphen k := by
  cases k <;> try rfl
  rename_i t; cases t <;> rfl
@[simp] theorem isUnderscore_shiftTwin (j : Nat) (k : Kind) : isUnderscore (shiftTwin j k) = isUnderscore k := by
  cases k <;> try rfl
  rename_i t; cases t <;> rfl
@[simp] theorem isPeriod_shiftTwin (j : Nat) (k : Kind) : (shiftTwin j k).isPeriod = k.isPeriod := by
  cases k <;> try rfl
  rename_i t; cases t <;> rfl
@[simp] theorem isApostrophe_shiftTwin (j : Nat) (k : Kind) : (shiftTwin j k).isApostrophe = k.isApostrophe := by
  cases k <;> try rfl
  rename_i t; cases t <;> rfl

theorem kpHolds_shift (env : Env) (P D : List Char) (t : Tok) (j : Nat) (q : KP) :
    q.holds env (P ++ D) (shTok P.length j t) = q.holds env D t := by
  cases q <;> simp only [KP.holds, hasFlag_shift, shTok_kind, isPunctuation_shiftTwin, isComma_shiftTwin, isPeriod_shiftTwin,
    isNumber_shiftTwin, isUnderscore_shiftTwin, isHyphen_shiftTwin, isApostrophe_shiftTwin, isWord_shiftTwin]

theorem kpHolds_left (env : Env) (P D : List Char) (t : Tok) (h : t.span.stop ≤ P.length) (q : KP) :
    q.holds env (P ++ D) t = q.holds env P t := by
  cases q <;> simp only [KP.holds, hasFlag_left env P D t _ h]

/-- a kind whose equality test survives `shiftTwin`: anything but a paired quote (its `twin_loc` is a token index) -/
def stableKind : Kind → Bool
  | .quote (some _) => false
  | _ => true

theorem beq_shiftTwin (j : Nat) (k k' : Kind) (hk : stableKind k = true) : (shiftTwin j k' == k) = (k' == k) := by
  cases k' with
  | quote tw =>
    cases tw with
    | none => rfl
    | some i =>
      have h1 : ∀ a : Nat, (Kind.quote (some a) == k) = false := by
        intro a
        rw [beq_eq_false_iff_ne]
        intro he
        rw [← he] at hk
        simp [stableKind] at hk
      simp only [shiftTwin, h1]
  | _ => rfl

theorem find?_congr' {α} (p q : α → Bool) (l : List α) (h : ∀ x ∈ l, p x = q x) : l.find? p = l.find? q := by
  induction l with
  | nil => rfl
  | cons a l ih =>
    simp only [List.find?, h a (by simp)]
    rw [ih (fun x hx => h x (List.mem_cons_of_mem _ hx))]

theorem punctIsTest_shift (p : Punct) (k j : Nat) (t : Tok) : punctIsTest p (shTok k j t) = punctIsTest p t := by
  simp only [punctIsTest, shTok_kind]
  cases t.kind <;> try rfl
  rename_i tw; cases tw <;> rfl

theorem numberIsTest_shift (env : Env) (r : Nat) (s : Option Suffix) (d : List Char) (P D : List Char) (t : Tok) (j : Nat) :
    numberIsTest env r s d (P ++ D) (shTok P.length j t) = numberIsTest env r s d D t := by
  simp only [numberIsTest, shTok_kind, shTok_span, textOf_shift]
  cases t.kind <;> try rfl
  rename_i tw; cases tw <;> rfl

theorem numberIsTest_left (env : Env) (r : Nat) (s : Option Suffix) (d : List Char) (P D : List Char) (t : Tok)
    (h : t.span.stop ≤ P.length) : numberIsTest env r s d (P ++ D) t = numberIsTest env r s d P t := by
  simp only [numberIsTest, textOf_left P D t.span h]

theorem exactWordTest_shift (w : List Char) (P D : List Char) (t : Tok) (j : Nat) :
    exactWordTest w (P ++ D) (shTok P.length j t) = exactWordTest w D t := by
  simp only [exactWordTest, shTok_kind, isWord_shiftTwin, shTok_span, getContent_shift']

theorem exactWordTest_left (w : List Char) (P D : List Char) (t : Tok) (h : t.span.stop ≤ P.length) :
    exactWordTest w (P ++ D) t = exactWordTest w P t := by
  simp only [exactWordTest, getContent_left' P D t.span h]

theorem closureTest_shift (env : Env) (c : Closure) (P D : List Char) (t : Tok) (j : Nat) :
    c.test env (P ++ D) (shTok P.length j t) = c.test env D t := by
  cases c <;> simp only [Closure.test, hasFlag_shift, shTok_span, getContent_shift', shiftSpan_start, shiftSpan_stop, Span.len,
    Nat.add_lt_add_iff_right, Nat.add_sub_add_right, gt_iff_lt]

theorem closureTest_left (env : Env) (c : Closure) (P D : List Char) (t : Tok) (h : t.span.stop ≤ P.length) :
    c.test env (P ++ D) t = c.test env P t := by
  cases c <;> simp only [Closure.test, hasFlag_left env P D t _ h, getContent_left' P D t.span h]

theorem withinEdit_local (env : Env) (w : List Char) (d : Nat) : MLocal (withinEditAtom env w d) where
  left := by
    intro P D ts h
    cases ts with
    | nil => rfl
    | cons t ts => simp only [withinEditAtom, getContent_left' P D t.span (h t (by simp))]
  right := by
    intro P D ts j
    cases ts with
    | nil => rfl
    | cons t ts => simp only [List.map_cons, withinEditAtom, shTok_kind, isWord_shiftTwin, shTok_span, getContent_shift']

theorem anyAtom_local : MLocal anyAtom where
  left := fun _ _ _ _ => rfl
  right := by
    intro P D ts j
    cases ts <;> rfl

theorem nominalGo_shift (env : Env) (P D : List Char) (j : Nat) : ∀ (ts : List Tok) (c : Nat),
    nominalGo env (P ++ D) c (ts.map (shTok P.length j)) = nominalGo env D c ts
  | [], _ => rfl
  | [t], c => by simp only [List.map_cons, List.map_nil, nominalGo, hasFlag_shift]
  | t :: n :: rest, c => by
    simp only [List.map_cons, nominalGo, hasFlag_shift, shTok_kind, isWhitespace_shiftTwin]
    rw [nominalGo_shift env P D j rest (c + 2)]

theorem nominalGo_left (env : Env) (P D : List Char) : ∀ (ts : List Tok) (c : Nat), (∀ t ∈ ts, t.span.stop ≤ P.length) →
    nominalGo env (P ++ D) c ts = nominalGo env P c ts
  | [], _, _ => rfl
  | [t], c, h => by simp only [nominalGo, hasFlag_left env P D t _ (h t (by simp))]
  | t :: n :: rest, c, h => by
    simp only [nominalGo, hasFlag_left env P D t _ (h t (by simp))]
    rw [nominalGo_left env P D rest (c + 2) (fun u hu => h u (by simp [hu]))]

theorem nominalPhrase_local (env : Env) : MLocal (nominalPhraseAtom env) where
  left := fun P D ts h => by simp only [nominalPhraseAtom, nominalGo_left env P D ts 0 h]
  right := fun P D ts j => by simp only [nominalPhraseAtom, nominalGo_shift]

theorem impliesQuantity_local (env : Env) : MLocal (impliesQuantityAtom env) where
  left := by
    intro P D ts h
    cases ts with
    | nil => rfl
    | cons t ts =>
      have ht := h t (by simp)
      simp only [impliesQuantityAtom, hasFlag_left env P D t _ ht, getContent_left' P D t.span ht]
  right := by
    intro P D ts j
    cases ts with
    | nil => rfl
    | cons t ts =>
      simp only [List.map_cons, impliesQuantityAtom, hasFlag_shift, shTok_span, getContent_shift', shTok_kind]
      cases t.kind <;> try rfl
      rename_i tw; cases tw <;> rfl

theorem splitCompound_local (env : Env) (bit : Nat) : MLocal (splitCompoundAtom env bit) := by
  have hinner : MLocal (seqPat [kindAtom Kind.isWord, whitespaceAtom, kindAtom Kind.isWord]) :=
    seqPat_local _ (by
      intro p hp
      simp only [List.mem_cons, List.mem_nil_iff, or_false] at hp
      rcases hp with rfl | rfl | rfl
      · exact kindAtom_local _ isWord_shiftTwin
      · exact whitespaceAtom_local
      · exact kindAtom_local _ isWord_shiftTwin)
  constructor
  · intro P D ts h
    simp only [splitCompoundAtom, hinner.left P D ts h]
    cases seqPat [kindAtom Kind.isWord, whitespaceAtom, kindAtom Kind.isWord] P ts with
    | error e => rfl
    | ok n =>
      simp only []
      split
      · rfl
      · cases h0 : ts[0]? with
        | none => rfl
        | some a =>
          cases h2 : ts[2]? with
          | none => rfl
          | some b =>
            simp only [getContent_left' P D a.span (h a (List.mem_of_getElem? h0)),
              getContent_left' P D b.span (h b (List.mem_of_getElem? h2))]
  · intro P D ts j
    simp only [splitCompoundAtom, hinner.right P D ts j, List.getElem?_map]
    cases seqPat [kindAtom Kind.isWord, whitespaceAtom, kindAtom Kind.isWord] D ts with
    | error e => rfl
    | ok n =>
      simp only []
      split
      · rfl
      · cases ts[0]? with
        | none => rfl
        | some a =>
          cases ts[2]? with
          | none => rfl
          | some b => simp only [Option.map_some, shTok_span, getContent_shift']

/-- `MLocal` with the left half asked only of well-formed tokens (`start ≤ stop`): what `IsNotTitleCase`,
which takes the text under the SPAN of several tokens, can offer -/
structure MLoc (m : Matcher) : Prop where
  left : ∀ (P D : List Char) (ts : List Tok), (∀ t ∈ ts, t.span.start ≤ t.span.stop ∧ t.span.stop ≤ P.length) →
    m (P ++ D) ts = m P ts
  right : ∀ (P D : List Char) (ts : List Tok) (j : Nat), m (P ++ D) (ts.map (shTok P.length j)) = m D ts

theorem _root_.Harper.Rules.MLocal.toLoc {m : Matcher} (h : MLocal m) : MLoc m where
  left := fun P D ts hh => h.left P D ts (fun t ht => (hh t ht).2)
  right := h.right

theorem seqGo_rightL (ps : List Matcher) (hps : ∀ p ∈ ps, MLoc p) (P D : List Char) (j : Nat) :
    ∀ (acc : Nat) (ts : List Tok), seqGo (P ++ D) ps acc (ts.map (shTok P.length j)) = seqGo D ps acc ts := by
  induction ps with
  | nil => intro _ _; rfl
  | cons p ps ih =>
    intro acc ts
    simp only [seqGo, (hps p (by simp)).right, List.length_map, ← List.map_drop]
    cases p D ts with
    | error e => rfl
    | ok n =>
      simp only []
      split
      · rfl
      · split
        · rfl
        · exact ih (fun q hq => hps q (List.mem_cons_of_mem _ hq)) _ _

theorem seqGo_leftL (ps : List Matcher) (hps : ∀ p ∈ ps, MLoc p) (P D : List Char) :
    ∀ (acc : Nat) (ts : List Tok), (∀ t ∈ ts, t.span.start ≤ t.span.stop ∧ t.span.stop ≤ P.length) →
      seqGo (P ++ D) ps acc ts = seqGo P ps acc ts := by
  induction ps with
  | nil => intro _ _ _; rfl
  | cons p ps ih =>
    intro acc ts h
    simp only [seqGo, (hps p (by simp)).left P D ts h]
    cases p P ts with
    | error e => rfl
    | ok n =>
      simp only []
      split
      · rfl
      · split
        · rfl
        · exact ih (fun q hq => hps q (List.mem_cons_of_mem _ hq)) _ _ (fun t ht => h t (List.mem_of_mem_drop ht))

theorem seqPat_loc (ps : List Matcher) (hps : ∀ p ∈ ps, MLoc p) : MLoc (seqPat ps) where
  left := fun P D ts h => seqGo_leftL ps hps P D 0 ts h
  right := fun P D ts j => seqGo_rightL ps hps P D j 0 ts

theorem eitherGo_rightL (ps : List Matcher) (hps : ∀ p ∈ ps, MLoc p) (P D : List Char) (j : Nat) (ts : List Tok) :
    ∀ longest, eitherGo (P ++ D) (ts.map (shTok P.length j)) ps longest = eitherGo D ts ps longest := by
  induction ps with
  | nil => intro _; rfl
  | cons p ps ih =>
    intro longest
    simp only [eitherGo, (hps p (by simp)).right]
    cases p D ts with
    | error e => rfl
    | ok n => exact ih (fun q hq => hps q (List.mem_cons_of_mem _ hq)) _

theorem eitherGo_leftL (ps : List Matcher) (hps : ∀ p ∈ ps, MLoc p) (P D : List Char) (ts : List Tok)
    (h : ∀ t ∈ ts, t.span.start ≤ t.span.stop ∧ t.span.stop ≤ P.length) :
    ∀ longest, eitherGo (P ++ D) ts ps longest = eitherGo P ts ps longest := by
  induction ps with
  | nil => intro _; rfl
  | cons p ps ih =>
    intro longest
    simp only [eitherGo, (hps p (by simp)).left P D ts h]
    cases p P ts with
    | error e => rfl
    | ok n => exact ih (fun q hq => hps q (List.mem_cons_of_mem _ hq)) _

theorem eitherPat_loc (ps : List Matcher) (hps : ∀ p ∈ ps, MLoc p) : MLoc (eitherPat ps) where
  left := fun P D ts h => eitherGo_leftL ps hps P D ts h 0
  right := fun P D ts j => eitherGo_rightL ps hps P D j ts 0

theorem repGo_right (inner : Matcher) (hi : MLoc inner) (req : Nat) (P D : List Char) (j : Nat) :
    ∀ (fuel cursor rep : Nat) (ts : List Tok),
      repGo inner req (P ++ D) fuel cursor rep (ts.map (shTok P.length j)) = repGo inner req D fuel cursor rep ts := by
  intro fuel
  induction fuel with
  | zero => intro _ _ _; rfl
  | succ fuel ih =>
    intro cursor rep ts
    simp only [repGo, hi.right, List.length_map, ← List.map_drop]
    cases inner D ts with
    | error e => rfl
    | ok n =>
      simp only []
      split
      · rfl
      · split
        · rfl
        · exact ih _ _ _

theorem repGo_left (inner : Matcher) (hi : MLoc inner) (req : Nat) (P D : List Char) :
    ∀ (fuel cursor rep : Nat) (ts : List Tok), (∀ t ∈ ts, t.span.start ≤ t.span.stop ∧ t.span.stop ≤ P.length) →
      repGo inner req (P ++ D) fuel cursor rep ts = repGo inner req P fuel cursor rep ts := by
  intro fuel
  induction fuel with
  | zero => intro _ _ _ _; rfl
  | succ fuel ih =>
    intro cursor rep ts h
    simp only [repGo, hi.left P D ts h]
    cases inner P ts with
    | error e => rfl
    | ok n =>
      simp only []
      split
      · rfl
      · split
        · rfl
        · exact ih _ _ _ (fun t ht => h t (List.mem_of_mem_drop ht))

theorem repPat_local (inner : Matcher) (hi : MLoc inner) (req : Nat) : MLoc (repPat inner req) where
  left := fun P D ts h => repGo_left inner hi req P D _ 0 0 ts h
  right := fun P D ts j => by
    simp only [repPat, List.length_map]
    exact repGo_right inner hi req P D j _ 0 0 ts

theorem allGo_right (ps : List Matcher) (hps : ∀ p ∈ ps, MLoc p) (P D : List Char) (j : Nat) (ts : List Tok) :
    ∀ mx, allGo (P ++ D) (ts.map (shTok P.length j)) ps mx = allGo D ts ps mx := by
  induction ps with
  | nil => intro _; rfl
  | cons p ps ih =>
    intro mx
    simp only [allGo, (hps p (by simp)).right]
    cases p D ts with
    | error e => rfl
    | ok n =>
      simp only []
      split
      · rfl
      · exact ih (fun q hq => hps q (List.mem_cons_of_mem _ hq)) _

theorem allGo_left (ps : List Matcher) (hps : ∀ p ∈ ps, MLoc p) (P D : List Char) (ts : List Tok)
    (h : ∀ t ∈ ts, t.span.start ≤ t.span.stop ∧ t.span.stop ≤ P.length) : ∀ mx, allGo (P ++ D) ts ps mx = allGo P ts ps mx := by
  induction ps with
  | nil => intro _; rfl
  | cons p ps ih =>
    intro mx
    simp only [allGo, (hps p (by simp)).left P D ts h]
    cases p P ts with
    | error e => rfl
    | ok n =>
      simp only []
      split
      · rfl
      · exact ih (fun q hq => hps q (List.mem_cons_of_mem _ hq)) _

theorem allPat_local (ps : List Matcher) (hps : ∀ p ∈ ps, MLoc p) : MLoc (allPat ps) where
  left := fun P D ts h => allGo_left ps hps P D ts h 0
  right := fun P D ts j => allGo_right ps hps P D j ts 0

theorem invertPat_local (p : Matcher) (hp : MLoc p) : MLoc (invertPat p) where
  left := fun P D ts h => by simp only [invertPat, hp.left P D ts h]
  right := fun P D ts j => by
    simp only [invertPat, hp.right, List.isEmpty_map]

theorem consumesPat_local (p : Matcher) (hp : MLoc p) : MLoc (consumesPat p) where
  left := fun P D ts h => by simp only [consumesPat, hp.left P D ts h]
  right := fun P D ts j => by simp only [consumesPat, hp.right, List.length_map]

theorem firstGo_right (ps : List Matcher) (hps : ∀ p ∈ ps, MLoc p) (P D : List Char) (j : Nat) (ts : List Tok) :
    firstGo (P ++ D) (ts.map (shTok P.length j)) ps = firstGo D ts ps := by
  induction ps with
  | nil => rfl
  | cons p ps ih =>
    simp only [firstGo, (hps p (by simp)).right]
    cases p D ts with
    | error e => rfl
    | ok n =>
      simp only []
      split
      · rfl
      · exact ih (fun q hq => hps q (List.mem_cons_of_mem _ hq))

theorem firstGo_left (ps : List Matcher) (hps : ∀ p ∈ ps, MLoc p) (P D : List Char) (ts : List Tok)
    (h : ∀ t ∈ ts, t.span.start ≤ t.span.stop ∧ t.span.stop ≤ P.length) : firstGo (P ++ D) ts ps = firstGo P ts ps := by
  induction ps with
  | nil => rfl
  | cons p ps ih =>
    simp only [firstGo, (hps p (by simp)).left P D ts h]
    cases p P ts with
    | error e => rfl
    | ok n =>
      simp only []
      split
      · rfl
      · exact ih (fun q hq => hps q (List.mem_cons_of_mem _ hq))

theorem firstPat_local (ps : List Matcher) (hps : ∀ p ∈ ps, MLoc p) : MLoc (firstPat ps) where
  left := fun P D ts h => firstGo_left ps hps P D ts h
  right := fun P D ts j => firstGo_right ps hps P D j ts

theorem similarPat_local (a b : Matcher) (ha : MLoc a) (hb : MLoc b) : MLoc (similarPat a b) where
  left := fun P D ts h => by simp only [similarPat, ha.left P D ts h, hb.left P D ts h]
  right := fun P D ts j => by simp only [similarPat, ha.right, hb.right]

theorem wordGroupPat_local (rows : List (List Char × Matcher)) (hr : ∀ r ∈ rows, MLoc r.2) : MLoc (wordGroupPat rows) where
  left := by
    intro P D ts h
    cases ts with
    | nil => rfl
    | cons t ts =>
      simp only [wordGroupPat, getContent_left' P D t.span (h t (by simp)).2]
      split
      · rfl
      · cases t.span.getContent P with
        | error e => rfl
        | ok cs =>
          simp only []
          have hg : ∀ p ∈ (rows.filter fun r => r.1 == cs).map (·.2), MLoc p := by
            intro p hp
            obtain ⟨r, hrm, rfl⟩ := List.mem_map.mp hp
            exact hr r (List.mem_filter.mp hrm).1
          generalize (rows.filter fun r => r.1 == cs).map (·.2) = g at hg
          cases g with
          | nil => rfl
          | cons a g => exact firstGo_left _ hg P D _ h
  right := by
    intro P D ts j
    cases ts with
    | nil => rfl
    | cons t ts =>
      simp only [List.map_cons, wordGroupPat, shTok_kind, isWord_shiftTwin, shTok_span, getContent_shift']
      split
      · rfl
      · cases t.span.getContent D with
        | error e => rfl
        | ok cs =>
          simp only []
          have hg : ∀ p ∈ (rows.filter fun r => r.1 == cs).map (·.2), MLoc p := by
            intro p hp
            obtain ⟨r, hrm, rfl⟩ := List.mem_map.mp hp
            exact hr r (List.mem_filter.mp hrm).1
          generalize (rows.filter fun r => r.1 == cs).map (·.2) = g at hg
          cases g with
          | nil => rfl
          | cons a g =>
            have := firstGo_right _ hg P D j (t :: ts)
            simp only [List.map_cons] at this
            exact this

theorem kindGroupPat_local (rows : List (Kind × Matcher)) (hr : ∀ r ∈ rows, MLoc r.2 ∧ stableKind r.1 = true) :
    MLoc (kindGroupPat rows) where
  left := by
    intro P D ts h
    cases ts with
    | nil => rfl
    | cons t ts =>
      simp only [kindGroupPat]
      cases hf : rows.find? (fun r => r.1 == t.kind) with
      | none => rfl
      | some r => exact (hr r (List.mem_of_find?_eq_some hf)).1.left P D _ h
  right := by
    intro P D ts j
    cases ts with
    | nil => rfl
    | cons t ts =>
      simp only [List.map_cons, kindGroupPat, shTok_kind]
      have hfind : rows.find? (fun r => r.1 == shiftTwin j t.kind) = rows.find? (fun r => r.1 == t.kind) := by
        apply find?_congr'
        intro r hrm
        have := beq_shiftTwin j r.1 t.kind (hr r hrm).2
        rw [Bool.beq_comm (a := r.1), this, Bool.beq_comm]
      rw [hfind]
      cases hf : rows.find? (fun r => r.1 == t.kind) with
      | none => rfl
      | some r =>
        have := (hr r (List.mem_of_find?_eq_some hf)).1.right P D (t :: ts) j
        simpa only [List.map_cons] using this

end locality

/-! ## `IsNotTitleCase` under translation -/

section titleLocality

def shiftTT (k : Nat) (w : Title.TTok) : Title.TTok := { w with start := w.start + k, stop := w.stop + k }

theorem toTTok_shift (env : Env) (P D : List Char) (t : Tok) (j : Nat) :
    toTTok env (P ++ D) (shTok P.length j t) = shiftTT P.length (toTTok env D t) := by
  simp only [toTTok, shiftTT, hasFlag_shift, shTok_span, textOf_shift, shTok_kind, isWordLike_shiftTwin, shiftSpan_start,
    shiftSpan_stop]

theorem toTTok_left (env : Env) (P D : List Char) (t : Tok) (h : t.span.stop ≤ P.length) :
    toTTok env (P ++ D) t = toTTok env P t := by
  simp only [toTTok, hasFlag_left env P D t _ h, textOf_left P D t.span h]

theorem titleSpanOf_shift (k : Nat) : ∀ ts : List Title.TTok,
    Title.spanOf (ts.map (shiftTT k)) = (Title.spanOf ts).map (fun p => (p.1 + k, p.2 + k))
  | [] => rfl
  | t :: ts => by
    simp only [List.map_cons, Title.spanOf, titleSpanOf_shift k ts, shiftTT]
    cases Title.spanOf ts with
    | none =>
      simp only [Option.map_none, Option.map_some, Option.some.injEq, Prod.mk.injEq]
      omega
    | some p =>
      simp only [Option.map_some, Option.some.injEq, Prod.mk.injEq]
      omega

theorem shouldCap_shift (k : Nat) (w : Title.TTok) : Title.shouldCapToken (shiftTT k w) = Title.shouldCapToken w := by
  have e : w.stop + k - (w.start + k) = w.stop - w.start := by omega
  simp only [Title.shouldCapToken, shiftTT, e]

theorem step_shift (k si : Nat) (w : Title.TTok) (cap : Bool) (out : List Nat) :
    Title.step (si + k) (shiftTT k w) cap out = Title.step si w cap out := by
  have e1 : w.start + k - (si + k) = w.start - si := by omega
  have e2 : w.stop + k - (si + k) = w.stop - si := by omega
  have hp : Title.stepPanics (si + k) out.length (shiftTT k w) cap = Title.stepPanics si out.length w cap := by
    simp only [Title.stepPanics, shiftTT, e1, e2, Nat.add_lt_add_iff_right]
  simp only [Title.step, hp]
  simp only [shiftTT, e1, e2]

theorem loop_shift (k si : Nat) : ∀ (ws : List Title.TTok) (index : Nat) (out : List Nat),
    Title.loop (si + k) index (ws.map (shiftTT k)) out = Title.loop si index ws out
  | [], _, _ => rfl
  | w :: rest, index, out => by
    simp only [List.map_cons, Title.loop, shouldCap_shift, step_shift, List.isEmpty_map]
    cases Title.step si w (Title.shouldCapToken w || index == 0 || rest.isEmpty) out with
    | error e => rfl
    | ok out' => exact loop_shift k si rest (index + 1) out'

theorem makeTitleCase_shift (P D : List Nat) (ts : List Title.TTok) :
    Title.makeTitleCase (ts.map (shiftTT P.length)) (P ++ D) = Title.makeTitleCase ts D := by
  cases ts with
  | nil => rfl
  | cons first rest =>
    have hsp := titleSpanOf_shift P.length (first :: rest)
    simp only [List.map_cons] at hsp
    simp only [Title.makeTitleCase, List.map_cons, hsp]
    cases Title.spanOf (first :: rest) with
    | none => rfl
    | some p =>
      simp only [Option.map_some]
      rw [getContent_shift P D ⟨p.1, p.2⟩]
      cases Span.getContent ⟨p.1, p.2⟩ D with
      | error e => rfl
      | ok out0 =>
        simp only []
        rw [← List.map_cons, List.filter_map]
        have hf : ((fun (x : Title.TTok) => x.wordLike) ∘ shiftTT P.length) = (fun x => x.wordLike) := rfl
        rw [hf]
        exact loop_shift P.length first.start _ 0 out0

theorem getContent_leftG {α} (P D : List α) (s : Span) (h : s.stop ≤ P.length) :
    s.getContent (P ++ D) = s.getContent P := by
  unfold Span.getContent
  by_cases h1 : s.start > s.stop
  · rw [if_pos h1, if_pos h1]
  · rw [if_neg h1, if_neg h1]
    by_cases h2 : s.start ≥ P.length ∨ s.stop > P.length
    · have h3 : s.start = s.stop := by omega
      rw [if_pos h2]
      simp only [h3, beq_self_eq_true, if_true, Nat.sub_self, List.take_zero]
      split <;> rfl
    · rw [if_neg h2, if_neg (by simp only [List.length_append]; omega)]
      rw [List.drop_append_of_le_length (by omega), List.take_append_of_le_length (by simp; omega)]

theorem makeTitleCase_left (P D : List Nat) (ts : List Title.TTok) (h : ∀ w ∈ ts, w.start ≤ P.length ∧ w.stop ≤ P.length) :
    Title.makeTitleCase ts (P ++ D) = Title.makeTitleCase ts P := by
  cases ts with
  | nil => rfl
  | cons first rest =>
    simp only [Title.makeTitleCase]
    cases hsp : Title.spanOf (first :: rest) with
    | none => rfl
    | some p =>
      obtain ⟨lo, hi⟩ := p
      have := (titleSpanOf_spec _ lo hi hsp).2.1 P.length h
      simp only []
      rw [getContent_leftG P D ⟨lo, hi⟩ this]

theorem notTitleCasePat_loc (env : Env) (inner : Matcher) (hi : MLoc inner) : MLoc (notTitleCasePat env inner) where
  left := by
    intro P D ts h
    simp only [notTitleCasePat, hi.left P D ts h]
    cases inner P ts with
    | error e => rfl
    | ok n =>
      simp only []
      split
      · rfl
      · cases hs : sliceE ts 0 n with
        | error e => rfl
        | ok m =>
          have hsub : ∀ t ∈ m, t ∈ ts := by
            simp only [sliceE] at hs
            split at hs
            · cases hs
            · cases hs; exact fun t ht => List.mem_of_mem_drop (List.mem_of_mem_take ht)
          simp only []
          cases hsp : spanOf m with
          | none => rfl
          | some sp =>
            simp only []
            have hspok := spanOf_ok P.length m sp hsp (fun t ht => by have := h t (hsub t ht); omega)
            rw [getContent_left' P D sp hspok.2]
            have hm : m.map (toTTok env (P ++ D)) = m.map (toTTok env P) :=
              List.map_congr_left (fun t ht => toTTok_left env P D t (h t (hsub t ht)).2)
            rw [hm, List.map_append, makeTitleCase_left]
            intro w hw
            obtain ⟨t, ht, rfl⟩ := List.mem_map.mp hw
            have := h t (hsub t ht)
            simp only [toTTok, List.length_map]
            omega
  right := by
    intro P D ts j
    simp only [notTitleCasePat, hi.right, sliceE_map]
    cases inner D ts with
    | error e => rfl
    | ok n =>
      simp only []
      split
      · rfl
      · cases sliceE ts 0 n with
        | error e => rfl
        | ok m =>
          simp only [Except.map, spanOf_shTok]
          cases spanOf m with
          | none => rfl
          | some sp =>
            simp only [Option.map_some, getContent_shift']
            cases sp.getContent D with
            | error e => rfl
            | ok matched =>
              simp only [List.map_map]
              have hm : m.map (toTTok env (P ++ D) ∘ shTok P.length j) = (m.map (toTTok env D)).map (shiftTT P.length) := by
                rw [List.map_map]
                exact List.map_congr_left (fun t _ => toTTok_shift env P D t j)
              rw [hm, List.map_append]
              have := makeTitleCase_shift (P.map Char.toNat) (D.map Char.toNat) (m.map (toTTok env D))
              rw [List.length_map] at this
              rw [this]

end titleLocality

/-! ## locality of every tree; `run_on_chunk`; the generic constructions -/

def Leaf.Loc : Leaf → Prop
  | .strict k => stableKind k = true
  | _ => True

theorem leaf_local (env : Env) : (l : Leaf) → l.Loc → MLocal (l.matcher env)
  | .kind q neg, _ => tokAtom_local _
      (fun P D t h => by simp only [kpHolds_left env P D t h])
      (fun P D t j => by simp only [kpHolds_shift])
  | .strict k, h => tokAtom_local _ (fun _ _ _ _ => rfl)
      (fun P D t j => by simp only [shTok_kind]; exact beq_shiftTwin j k t.kind h)
  | .punctIs p, _ => tokAtom_local _ (fun _ _ _ _ => rfl) (fun P D t j => punctIsTest_shift p _ j t)
  | .numberIs r s d, _ => tokAtom_local _ (fun P D t h => numberIsTest_left env r s d P D t h)
      (fun P D t j => numberIsTest_shift env r s d P D t j)
  | .exactWord w, _ => tokAtomE_local _ (fun P D t h => exactWordTest_left w P D t h) (fun P D t j => exactWordTest_shift w P D t j)
  | .anyCap w, _ => anyCapAtom_local w
  | .wordSet ws, _ => wordSetAtom_local ws
  | .withinEdit w d, _ => withinEdit_local env w d
  | .whitespace, _ => whitespaceAtom_local
  | .any, _ => anyAtom_local
  | .nominalPhrase, _ => nominalPhrase_local env
  | .impliesQuantity, _ => impliesQuantity_local env
  | .splitCompound bit, _ => splitCompound_local env bit
  | .closure c, _ => tokAtomE_local _ (fun P D t h => closureTest_left env c P D t h) (fun P D t j => closureTest_shift env c P D t j)

mutual
/-- no `then_strict` / `TokenKindPatternGroup` key is a PAIRED quote (its `twin_loc` is a token index of the
document the pattern was built from; such a pattern is not translation invariant — see `Props/C12c.lean`) -/
def RPat.Loc : RPat → Prop
  | .leaf l => l.Loc
  | .seq ps => RPats.Loc ps
  | .rep p _ => RPat.Loc p
  | .either ps => RPats.Loc ps
  | .all ps => RPats.Loc ps
  | .invert p => RPat.Loc p
  | .consumes p => RPat.Loc p
  | .first ps => RPats.Loc ps
  | .similar a b => RPat.Loc a ∧ RPat.Loc b
  | .notTitleCase p => RPat.Loc p
  | .wordGroup rows => WRows.Loc rows
  | .kindGroup rows => KRows.Loc rows
def RPats.Loc : RPats → Prop
  | .nil => True
  | .cons p ps => RPat.Loc p ∧ RPats.Loc ps
def WRows.Loc : WRows → Prop
  | .nil => True
  | .cons _ p rest => RPat.Loc p ∧ WRows.Loc rest
def KRows.Loc : KRows → Prop
  | .nil => True
  | .cons k p rest => stableKind k = true ∧ RPat.Loc p ∧ KRows.Loc rest
end

mutual
/-- **every tree over the real leaves is translation invariant and blind to text after its tokens** -/
theorem matcher_loc (env : Env) : (p : RPat) → RPat.Loc p → MLoc (p.matcher env)
  | .leaf l, h => by rw [RPat.matcher]; exact MLocal.toLoc (leaf_local env l (by simpa [RPat.Loc] using h))
  | .seq ps, h => by rw [RPat.matcher]; exact seqPat_loc _ (matchers_loc env ps (by simpa [RPat.Loc] using h))
  | .rep p req, h => by rw [RPat.matcher]; exact repPat_local _ (matcher_loc env p (by simpa [RPat.Loc] using h)) req
  | .either ps, h => by rw [RPat.matcher]; exact eitherPat_loc _ (matchers_loc env ps (by simpa [RPat.Loc] using h))
  | .all ps, h => by rw [RPat.matcher]; exact allPat_local _ (matchers_loc env ps (by simpa [RPat.Loc] using h))
  | .invert p, h => by rw [RPat.matcher]; exact invertPat_local _ (matcher_loc env p (by simpa [RPat.Loc] using h))
  | .consumes p, h => by rw [RPat.matcher]; exact consumesPat_local _ (matcher_loc env p (by simpa [RPat.Loc] using h))
  | .first ps, h => by rw [RPat.matcher]; exact firstPat_local _ (matchers_loc env ps (by simpa [RPat.Loc] using h))
  | .similar a b, h => by
    rw [RPat.matcher]
    have h' : RPat.Loc a ∧ RPat.Loc b := by simpa [RPat.Loc] using h
    exact similarPat_local _ _ (matcher_loc env a h'.1) (matcher_loc env b h'.2)
  | .notTitleCase p, h => by
    rw [RPat.matcher]; exact notTitleCasePat_loc env _ (matcher_loc env p (by simpa [RPat.Loc] using h))
  | .wordGroup rows, h => by rw [RPat.matcher]; exact wordGroupPat_local _ (wrows_loc env rows (by simpa [RPat.Loc] using h))
  | .kindGroup rows, h => by rw [RPat.matcher]; exact kindGroupPat_local _ (krows_loc env rows (by simpa [RPat.Loc] using h))
theorem matchers_loc (env : Env) : (ps : RPats) → RPats.Loc ps → ∀ m ∈ RPats.matchers env ps, MLoc m
  | .nil, _ => by intro m hm; simp [RPats.matchers] at hm
  | .cons p ps, h => by
    intro m hm
    have h' : RPat.Loc p ∧ RPats.Loc ps := by simpa [RPats.Loc] using h
    simp only [RPats.matchers, List.mem_cons] at hm
    rcases hm with rfl | hm
    · exact matcher_loc env p h'.1
    · exact matchers_loc env ps h'.2 m hm
theorem wrows_loc (env : Env) : (rows : WRows) → WRows.Loc rows → ∀ r ∈ WRows.rows env rows, MLoc r.2
  | .nil, _ => by intro r hr; simp [WRows.rows] at hr
  | .cons w p rest, h => by
    intro r hr
    have h' : RPat.Loc p ∧ WRows.Loc rest := by simpa [WRows.Loc] using h
    simp only [WRows.rows, List.mem_cons] at hr
    rcases hr with rfl | hr
    · exact matcher_loc env p h'.1
    · exact wrows_loc env rest h'.2 r hr
theorem krows_loc (env : Env) : (rows : KRows) → KRows.Loc rows → ∀ r ∈ KRows.rows env rows, MLoc r.2 ∧ stableKind r.1 = true
  | .nil, _ => by intro r hr; simp [KRows.rows] at hr
  | .cons k p rest, h => by
    intro r hr
    have h' : stableKind k = true ∧ RPat.Loc p ∧ KRows.Loc rest := by simpa [KRows.Loc] using h
    simp only [KRows.rows, List.mem_cons] at hr
    rcases hr with rfl | hr
    · exact ⟨matcher_loc env p h'.2.1, h'.1⟩
    · exact krows_loc env rest h'.2.2 r hr
end

/-! ### `run_on_chunk` -/

theorem runOnChunkGo_rightL (m : Matcher) (hm : MLoc m) (f : List Char → List Tok → Except Panic (List RuleLint))
    (P D : List Char) (j : Nat)
    (hf : ∀ l, f (P ++ D) (l.map (shTok P.length j)) = (f D l).map (shiftRLs P.length)) (ts : List Tok) :
    ∀ skip, runOnChunkGo m f (P ++ D) skip (ts.map (shTok P.length j)) =
      (runOnChunkGo m f D skip ts).map (shiftRLs P.length) := by
  induction ts with
  | nil => intro skip; cases skip <;> rfl
  | cons t ts ih =>
    intro skip
    cases skip with
    | succ s => simp only [List.map_cons, runOnChunkGo]; exact ih s
    | zero =>
      simp only [List.map_cons, runOnChunkGo]
      rw [← List.map_cons, hm.right, List.length_map]
      cases m D (t :: ts) with
      | error e => rfl
      | ok n =>
        simp only []
        split
        · exact ih 0
        · split
          · rfl
          · rw [← List.map_take, hf, ih (n - 1)]
            cases f D (List.take n (t :: ts)) with
            | error e => rfl
            | ok l =>
              cases runOnChunkGo m f D (n - 1) ts with
              | error e => rfl
              | ok r => simp [Except.map, shiftRLs_append]

theorem runOnChunkGo_leftL (m : Matcher) (hm : MLoc m) (f : List Char → List Tok → Except Panic (List RuleLint))
    (P D : List Char) (hf : ∀ l, (∀ t ∈ l, tokOK t = true ∧ t.span.stop ≤ P.length) → f (P ++ D) l = f P l)
    (ts : List Tok) (h : ∀ t ∈ ts, tokOK t = true ∧ t.span.stop ≤ P.length) :
    ∀ skip, runOnChunkGo m f (P ++ D) skip ts = runOnChunkGo m f P skip ts := by
  induction ts with
  | nil => intro skip; cases skip <;> rfl
  | cons t ts ih =>
    have h' : ∀ u ∈ ts, tokOK u = true ∧ u.span.stop ≤ P.length := fun u hu => h u (List.mem_cons_of_mem _ hu)
    intro skip
    cases skip with
    | succ s => simp only [runOnChunkGo]; exact ih h' s
    | zero =>
      simp only [runOnChunkGo]
      rw [hm.left P D (t :: ts) (fun u hu => ⟨Nat.le_of_lt (tokOK_nonempty (h u hu).1), (h u hu).2⟩)]
      cases m P (t :: ts) with
      | error e => rfl
      | ok n =>
        simp only []
        split
        · exact ih h' 0
        · split
          · rfl
          · rw [hf _ (fun u hu => h u (List.mem_of_mem_take hu)), ih h' (n - 1)]

/-- `run_on_chunk` with a contract-keeping, total pattern and a `match_to_lint` that is total on non-empty
slices: no panic, every lint inside the text -/
theorem runOnChunkGo_okh {H : List Char → List Tok → Prop} (hH : SliceHyp H) (m : Matcher) (hm : MOKh H m)
    (f : List Char → List Tok → Except Panic (List RuleLint)) (src : List Char)
    (hf : ∀ l, l ≠ [] → H src l → ∃ ls, f src l = .ok ls ∧ ∀ x ∈ ls, LintOK src.length x)
    (ts : List Tok) (ho : H src ts) :
    ∀ skip, ∃ ls, runOnChunkGo m f src skip ts = .ok ls ∧ ∀ x ∈ ls, LintOK src.length x := by
  induction ts with
  | nil => intro skip; cases skip <;> exact ⟨[], rfl, by simp⟩
  | cons t ts ih =>
    have hot : H src ts := hH.sub src _ _ (List.sublist_cons_self _ _) ho
    intro skip
    cases skip with
    | succ s => simp only [runOnChunkGo]; exact ih hot s
    | zero =>
      obtain ⟨n, en, hn⟩ := hm src (t :: ts) ho
      simp only [runOnChunkGo, en]
      split
      · exact ih hot 0
      · rename_i hn0
        rw [if_neg (by omega)]
        obtain ⟨l, el, hl⟩ := hf ((t :: ts).take n) (by
          intro he
          have := congrArg List.length he
          simp only [List.length_take, List.length_cons, List.length_nil] at this
          simp only [List.length_cons] at hn
          omega) (hH.sub src _ _ (List.take_sublist n (t :: ts)) ho)
        obtain ⟨r, er, hr⟩ := ih hot (n - 1)
        refine ⟨l ++ r, by simp only [el, er], ?_⟩
        intro x hx
        rcases List.mem_append.mp hx with hx | hx
        · exact hl x hx
        · exact hr x hx

/-! ### `MapPhraseLinter::match_to_lint` -/

theorem mapPhraseMatch_shift (env : Env) (forms : List (List Char)) (P D : List Char) (m : List Tok) (j : Nat) :
    mapPhraseMatch env forms (P ++ D) (m.map (shTok P.length j)) = (mapPhraseMatch env forms D m).map (shiftRLs P.length) := by
  simp only [mapPhraseMatch, spanOf_shTok]
  cases spanOf m with
  | none => rfl
  | some sp =>
    simp only [Option.map_some, getContent_shift']
    cases sp.getContent D with
    | error e => rfl
    | ok txt => rfl

theorem mapPhraseMatch_left (env : Env) (forms : List (List Char)) (P D : List Char) (m : List Tok)
    (h : ∀ t ∈ m, tokOK t = true ∧ t.span.stop ≤ P.length) :
    mapPhraseMatch env forms (P ++ D) m = mapPhraseMatch env forms P m := by
  simp only [mapPhraseMatch]
  cases hsp : spanOf m with
  | none => rfl
  | some sp =>
    have hspok := spanOf_ok P.length m sp hsp (fun t ht => by
      have := h t ht
      have := tokOK_nonempty this.1
      omega)
    simp only [getContent_left' P D sp hspok.2]

theorem mapPhraseMatch_ok (env : Env) (forms : List (List Char)) (src : List Char) (m : List Tok) (h : InText src m) :
    ∃ ls, mapPhraseMatch env forms src m = .ok ls ∧ ∀ l ∈ ls, LintOK src.length l := by
  simp only [mapPhraseMatch]
  cases hsp : spanOf m with
  | none => exact ⟨[], rfl, by simp⟩
  | some sp =>
    have hspok := spanOf_ok src.length m sp hsp (fun t ht => by have h1 := (h t ht).1; have h2 := (h t ht).2; omega)
    obtain ⟨txt, et⟩ := getContent_ok' sp src hspok.1 hspok.2
    simp only [et]
    refine ⟨_, rfl, ?_⟩
    intro l hl
    simp only [List.mem_singleton] at hl
    subst hl
    exact hspok

/-- the lint of a `MapPhraseLinter` is the span of the matched tokens, with one suggestion per correct form -/
theorem mapPhraseMatch_shape (env : Env) (forms : List (List Char)) (src : List Char) (m : List Tok) (l : RuleLint)
    (ls : List RuleLint) (h : mapPhraseMatch env forms src m = .ok ls) (hl : l ∈ ls) :
    spanOf m = some l.span ∧ ∃ txt, l.span.getContent src = .ok txt ∧
      l.suggs = forms.map (fun f => .replaceWith (matchCase env f txt)) := by
  simp only [mapPhraseMatch] at h
  cases hsp : spanOf m with
  | none => rw [hsp] at h; cases h; cases hl
  | some sp =>
    rw [hsp] at h
    simp only [] at h
    cases hc : sp.getContent src with
    | error e => rw [hc] at h; cases h
    | ok txt =>
      rw [hc] at h
      cases h
      simp only [List.mem_singleton] at hl
      subst hl
      exact ⟨rfl, txt, hc, rfl⟩

theorem mapPhrase_xlocalE (env : Env) (p : RPat) (hp : p.Loc) (forms : List (List Char)) : XLocalE (mapPhrasePiece env p forms) where
  nil := fun _ => rfl
  left := by
    intro P D piece h
    exact runOnChunkGo_leftL _ (matcher_loc env p hp) _ P D (fun l hl => mapPhraseMatch_left env forms P D l hl) piece h 0
  right := by
    intro P D piece j _
    exact runOnChunkGo_rightL _ (matcher_loc env p hp) _ P D j (fun l => mapPhraseMatch_shift env forms P D l j) piece 0

theorem mapPhrasePiece_ok {H : List Char → List Tok → Prop} (hH : SliceHyp H) (env : Env) (p : RPat) (hs : p.Side env H)
    (forms : List (List Char)) (src : List Char) (chunk : List Tok) (ho : H src chunk) :
    ∃ ls, mapPhrasePiece env p forms src chunk = .ok ls ∧ ∀ l ∈ ls, LintOK src.length l :=
  runOnChunkGo_okh hH _ (matcher_okh hH env p hs) _ src
    (fun l _ hl => mapPhraseMatch_ok env forms src l (hH.inb src l hl)) chunk ho 0

/-- a rule over the pieces of a split, under any slice hypothesis -/
theorem overPieces_okh {H : List Char → List Tok → Prop} (hH : SliceHyp H) (term : Kind → Bool) (r : PieceRule)
    (src : List Char) (toks : List Tok) (ho : H src toks)
    (h : ∀ piece, H src piece → ∃ ls, r src piece = .ok ls ∧ ∀ l ∈ ls, LintOK src.length l) :
    ∃ ls, overPieces (split term) r src toks = .ok ls ∧ ∀ l ∈ ls, LintOK src.length l :=
  collectE_ok _ _ _ (fun piece hp => h piece (hH.sub src _ _ (split_sublist term toks piece hp) ho))

/-! ## the contract alone, for ANY tokens (no hypothesis at all) -/

/-- whenever the matcher returns, it returns at most the length of its slice -/
def MC (m : Matcher) : Prop := ∀ src ts n, m src ts = .ok n → n ≤ ts.length

section contract

theorem tokAtom_mc (f : List Char → Tok → Bool) : MC (tokAtom f) := by
  intro src ts n h
  cases ts with
  | nil => cases h; exact Nat.le_refl _
  | cons t ts =>
    simp only [tokAtom, Except.ok.injEq] at h
    subst h
    simp only [List.length_cons]
    split <;> omega

theorem tokAtomE_mc (f : List Char → Tok → Except Panic Bool) : MC (tokAtomE f) := by
  intro src ts n h
  cases ts with
  | nil => cases h; exact Nat.le_refl _
  | cons t ts =>
    simp only [tokAtomE] at h
    cases hf : f src t with
    | error e => rw [hf] at h; cases h
    | ok b =>
      rw [hf] at h
      simp only [Except.ok.injEq] at h
      subst h
      simp only [List.length_cons]
      split <;> omega

/-- a matcher that answers 0 or 1, and 0 on the empty slice -/
theorem mc_of_le_one (m : Matcher) (h0 : ∀ src, m src [] = .ok 0) (h1 : ∀ src ts n, m src ts = .ok n → n ≤ 1) : MC m := by
  intro src ts n h
  cases ts with
  | nil => rw [h0] at h; cases h; exact Nat.le_refl _
  | cons t ts => have := h1 src _ n h; simp only [List.length_cons]; omega

theorem anyCapAtom_mc (w : List Char) : MC (anyCapAtom w) := by
  apply mc_of_le_one _ (fun _ => rfl)
  intro src ts n h
  cases ts with
  | nil => cases h; omega
  | cons t ts =>
    simp only [anyCapAtom] at h
    split at h
    · cases h; omega
    · split at h
      · cases h
      · split at h
        · cases h; omega
        · cases hc : t.span.getContent src with
          | error e => rw [hc] at h; cases h
          | ok cs => rw [hc] at h; simp only [Except.ok.injEq] at h; subst h; split <;> omega

theorem wordSetAtom_mc (ws : List (List Char)) : MC (wordSetAtom ws) := by
  apply mc_of_le_one _ (fun _ => rfl)
  intro src ts n h
  cases ts with
  | nil => cases h; omega
  | cons t ts =>
    simp only [wordSetAtom] at h
    split at h
    · cases h; omega
    · cases hc : t.span.getContent src with
      | error e => rw [hc] at h; cases h
      | ok cs => rw [hc] at h; simp only [Except.ok.injEq] at h; subst h; split <;> omega

theorem whitespaceAtom_mc : MC whitespaceAtom := by
  intro src ts n h
  simp only [whitespaceAtom, Except.ok.injEq] at h
  subst h
  exact countWhile_le _ ts

theorem withinEdit_mc (env : Env) (w : List Char) (d : Nat) : MC (withinEditAtom env w d) := by
  apply mc_of_le_one _ (fun _ => rfl)
  intro src ts n h
  cases ts with
  | nil => cases h; omega
  | cons t ts =>
    simp only [withinEditAtom] at h
    split at h
    · cases h; omega
    · cases hc : t.span.getContent src with
      | error e => rw [hc] at h; cases h
      | ok cs =>
        rw [hc] at h
        simp only [] at h
        cases he : editDistance .checked (toLowerCow env cs) (toLowerCow env w) with
        | error e => rw [he] at h; cases h
        | ok dist => rw [he] at h; simp only [Except.ok.injEq] at h; subst h; split <;> omega

theorem anyAtom_mc : MC anyAtom := by
  intro src ts n h
  simp only [anyAtom, Except.ok.injEq] at h
  subst h
  cases ts <;> simp

theorem nominalPhrase_mc (env : Env) : MC (nominalPhraseAtom env) := by
  intro src ts n h
  simp only [nominalPhraseAtom, Except.ok.injEq] at h
  subst h
  have := nominalGo_le env src ts 0
  omega

theorem impliesQuantity_mc (env : Env) : MC (impliesQuantityAtom env) := by
  apply mc_of_le_one _ (fun _ => rfl)
  intro src ts n h
  cases ts with
  | nil => cases h; omega
  | cons t ts =>
    simp only [impliesQuantityAtom] at h
    split at h
    · split at h
      · cases h; omega
      · split at h
        · cases h; omega
        · cases hc : t.span.getContent src with
          | error e => rw [hc] at h; cases h
          | ok cs => rw [hc] at h; simp only [Except.ok.injEq] at h; subst h; split <;> omega
    · cases h; omega
    · cases h; omega

theorem seqGo_mc (ps : List Matcher) (hps : ∀ p ∈ ps, MC p) (src : List Char) :
    ∀ (acc : Nat) (ts : List Tok) (n : Nat), seqGo src ps acc ts = .ok n → n ≤ acc + ts.length := by
  induction ps with
  | nil => intro acc ts n h; cases h; omega
  | cons p ps ih =>
    intro acc ts n h
    simp only [seqGo] at h
    cases hp : p src ts with
    | error e => rw [hp] at h; cases h
    | ok k =>
      rw [hp] at h
      simp only [] at h
      split at h
      · cases h; omega
      · split at h
        · cases h
        · have := ih (fun q hq => hps q (List.mem_cons_of_mem _ hq)) _ _ _ h
          simp only [List.length_drop] at this
          omega

theorem seqPat_mc (ps : List Matcher) (hps : ∀ p ∈ ps, MC p) : MC (seqPat ps) := by
  intro src ts n h
  have := seqGo_mc ps hps src 0 ts n h
  omega

theorem repGo_mc (inner : Matcher) (req : Nat) (src : List Char) :
    ∀ (fuel cursor rep : Nat) (ts : List Tok) (n : Nat), repGo inner req src fuel cursor rep ts = .ok n → n ≤ cursor + ts.length := by
  intro fuel
  induction fuel with
  | zero => intro _ _ _ _ h; cases h
  | succ fuel ih =>
    intro cursor rep ts n h
    simp only [repGo] at h
    cases hp : inner src ts with
    | error e => rw [hp] at h; cases h
    | ok k =>
      rw [hp] at h
      simp only [] at h
      split at h
      · simp only [Except.ok.injEq] at h
        subst h
        split <;> omega
      · split at h
        · cases h
        · have := ih _ _ _ _ h
          simp only [List.length_drop] at this
          omega

/-- `RepeatingPattern` keeps the contract whatever its child does: it slices by the child's answers -/
theorem repPat_mc (inner : Matcher) (req : Nat) : MC (repPat inner req) := by
  intro src ts n h
  have := repGo_mc inner req src _ 0 0 ts n h
  omega

theorem eitherGo_mc (ps : List Matcher) (hps : ∀ p ∈ ps, MC p) (src : List Char) (ts : List Tok) :
    ∀ longest n, longest ≤ ts.length → eitherGo src ts ps longest = .ok n → n ≤ ts.length := by
  induction ps with
  | nil => intro longest n hl h; cases h; exact hl
  | cons p ps ih =>
    intro longest n hl h
    simp only [eitherGo] at h
    cases hp : p src ts with
    | error e => rw [hp] at h; cases h
    | ok k =>
      rw [hp] at h
      have hk := hps p (by simp) src ts k hp
      exact ih (fun q hq => hps q (List.mem_cons_of_mem _ hq)) _ n (by split <;> assumption) h

theorem eitherPat_mc (ps : List Matcher) (hps : ∀ p ∈ ps, MC p) : MC (eitherPat ps) :=
  fun src ts n h => eitherGo_mc ps hps src ts 0 n (Nat.zero_le _) h

theorem allGo_mc (ps : List Matcher) (hps : ∀ p ∈ ps, MC p) (src : List Char) (ts : List Tok) :
    ∀ mx n, mx ≤ ts.length → allGo src ts ps mx = .ok n → n ≤ ts.length := by
  induction ps with
  | nil => intro mx n hl h; cases h; exact hl
  | cons p ps ih =>
    intro mx n hl h
    simp only [allGo] at h
    cases hp : p src ts with
    | error e => rw [hp] at h; cases h
    | ok k =>
      rw [hp] at h
      simp only [] at h
      have hk := hps p (by simp) src ts k hp
      split at h
      · cases h; omega
      · exact ih (fun q hq => hps q (List.mem_cons_of_mem _ hq)) _ n (by split <;> assumption) h

theorem allPat_mc (ps : List Matcher) (hps : ∀ p ∈ ps, MC p) : MC (allPat ps) :=
  fun src ts n h => allGo_mc ps hps src ts 0 n (Nat.zero_le _) h

/-- `Invert` (as repaired) keeps the contract whatever its child does -/
theorem invertPat_mc (p : Matcher) : MC (invertPat p) := by
  intro src ts n h
  simp only [invertPat] at h
  split at h
  · cases h; omega
  · rename_i hne
    cases hp : p src ts with
    | error e => rw [hp] at h; cases h
    | ok k =>
      rw [hp] at h
      simp only [Except.ok.injEq] at h
      subst h
      cases ts with
      | nil => simp at hne
      | cons t ts => simp only [List.length_cons]; split <;> omega

theorem consumesPat_mc (p : Matcher) : MC (consumesPat p) := by
  intro src ts n h
  simp only [consumesPat] at h
  cases hp : p src ts with
  | error e => rw [hp] at h; cases h
  | ok k =>
    rw [hp] at h
    simp only [Except.ok.injEq] at h
    subst h
    split <;> omega

theorem firstGo_mc (ps : List Matcher) (hps : ∀ p ∈ ps, MC p) (src : List Char) (ts : List Tok) :
    ∀ n, firstGo src ts ps = .ok n → n ≤ ts.length := by
  induction ps with
  | nil => intro n h; cases h; omega
  | cons p ps ih =>
    intro n h
    simp only [firstGo] at h
    cases hp : p src ts with
    | error e => rw [hp] at h; cases h
    | ok k =>
      rw [hp] at h
      simp only [] at h
      have hk := hps p (by simp) src ts k hp
      split at h
      · cases h; exact hk
      · exact ih (fun q hq => hps q (List.mem_cons_of_mem _ hq)) n h

theorem firstPat_mc (ps : List Matcher) (hps : ∀ p ∈ ps, MC p) : MC (firstPat ps) :=
  fun src ts n h => firstGo_mc ps hps src ts n h

theorem similarPat_mc (a b : Matcher) (hb : MC b) : MC (similarPat a b) := by
  intro src ts n h
  simp only [similarPat] at h
  cases ha : a src ts with
  | error e => rw [ha] at h; cases h
  | ok x =>
    rw [ha] at h
    simp only [] at h
    cases hbb : b src ts with
    | error e => rw [hbb] at h; cases h
    | ok y =>
      rw [hbb] at h
      simp only [Except.ok.injEq] at h
      subst h
      have := hb src ts y hbb
      split
      · rename_i hc; omega
      · omega

theorem notTitleCasePat_mc (env : Env) (inner : Matcher) (hi : MC inner) : MC (notTitleCasePat env inner) := by
  intro src ts n h
  simp only [notTitleCasePat] at h
  cases hp : inner src ts with
  | error e => rw [hp] at h; cases h
  | ok k =>
    rw [hp] at h
    simp only [] at h
    have hk := hi src ts k hp
    split at h
    · cases h; omega
    · cases hs : sliceE ts 0 k with
      | error e => rw [hs] at h; cases h
      | ok m =>
        rw [hs] at h
        simp only [] at h
        cases hsp : spanOf m with
        | none => rw [hsp] at h; cases h
        | some sp =>
          rw [hsp] at h
          simp only [] at h
          cases hc : sp.getContent src with
          | error e => rw [hc] at h; cases h
          | ok matched =>
            rw [hc] at h
            simp only [] at h
            cases ht : Title.makeTitleCase (m.map (toTTok env src)) (src.map Char.toNat) with
            | error e => rw [ht] at h; cases h
            | ok tc =>
              rw [ht] at h
              simp only [Except.ok.injEq] at h
              subst h
              split <;> omega

theorem splitCompound_mc (env : Env) (bit : Nat) : MC (splitCompoundAtom env bit) := by
  intro src ts n h
  have hinner : MC (seqPat [kindAtom Kind.isWord, whitespaceAtom, kindAtom Kind.isWord]) :=
    seqPat_mc _ (by
      intro p hp
      simp only [List.mem_cons, List.mem_nil_iff, or_false] at hp
      rcases hp with rfl | rfl | rfl
      · exact tokAtom_mc (fun _ t => t.kind.isWord)
      · exact whitespaceAtom_mc
      · exact tokAtom_mc (fun _ t => t.kind.isWord))
  simp only [splitCompoundAtom] at h
  cases hp : seqPat [kindAtom Kind.isWord, whitespaceAtom, kindAtom Kind.isWord] src ts with
  | error e => rw [hp] at h; cases h
  | ok k =>
    rw [hp] at h
    simp only [] at h
    have hk := hinner src ts k hp
    split at h
    · cases h; omega
    · rename_i h3
      have h3' : k = 3 := by simpa using h3
      subst h3'
      cases h0 : ts[0]? with
      | none => rw [h0] at h; cases h
      | some a =>
        rw [h0] at h
        cases h2 : ts[2]? with
        | none => rw [h2] at h; cases h
        | some b =>
          rw [h2] at h
          simp only [] at h
          cases hca : a.span.getContent src with
          | error e => rw [hca] at h; cases h
          | ok ca =>
            rw [hca] at h
            simp only [] at h
            cases hcb : b.span.getContent src with
            | error e => rw [hcb] at h; cases h
            | ok cb =>
              rw [hcb] at h
              simp only [] at h
              split at h
              · split at h
                · cases h
                · cases h; exact hk
              · cases h; omega

theorem wordGroupPat_mc (rows : List (List Char × Matcher)) (hr : ∀ r ∈ rows, MC r.2) : MC (wordGroupPat rows) := by
  intro src ts n h
  cases ts with
  | nil => cases h; exact Nat.le_refl _
  | cons t ts =>
    simp only [wordGroupPat] at h
    split at h
    · cases h; omega
    · cases hc : t.span.getContent src with
      | error e => rw [hc] at h; cases h
      | ok cs =>
        rw [hc] at h
        simp only [] at h
        have hg : ∀ p ∈ (rows.filter fun r => r.1 == cs).map (·.2), MC p := by
          intro p hp
          obtain ⟨r, hrm, rfl⟩ := List.mem_map.mp hp
          exact hr r (List.mem_filter.mp hrm).1
        generalize (rows.filter fun r => r.1 == cs).map (·.2) = g at hg h
        cases g with
        | nil => cases h; omega
        | cons a g => exact firstGo_mc _ hg src _ n h

theorem kindGroupPat_mc (rows : List (Kind × Matcher)) (hr : ∀ r ∈ rows, MC r.2) : MC (kindGroupPat rows) := by
  intro src ts n h
  cases ts with
  | nil => cases h; exact Nat.le_refl _
  | cons t ts =>
    simp only [kindGroupPat] at h
    cases hf : rows.find? (fun r => r.1 == t.kind) with
    | none => rw [hf] at h; cases h; omega
    | some r => rw [hf] at h; exact hr r (List.mem_of_find?_eq_some hf) src _ n h

theorem leaf_mc (env : Env) : (l : Leaf) → MC (l.matcher env)
  | .kind _ _ => tokAtom_mc _
  | .strict _ => tokAtom_mc _
  | .punctIs _ => tokAtom_mc _
  | .numberIs _ _ _ => tokAtom_mc _
  | .exactWord _ => tokAtomE_mc _
  | .anyCap w => anyCapAtom_mc w
  | .wordSet ws => wordSetAtom_mc ws
  | .withinEdit w d => withinEdit_mc env w d
  | .whitespace => whitespaceAtom_mc
  | .any => anyAtom_mc
  | .nominalPhrase => nominalPhrase_mc env
  | .impliesQuantity => impliesQuantity_mc env
  | .splitCompound bit => splitCompound_mc env bit
  | .closure _ => tokAtomE_mc _

mutual
/-- **the contract of `Pattern::matches` holds of every tree over the real leaves, on every token list** -/
theorem matcher_mc (env : Env) : (p : RPat) → MC (p.matcher env)
  | .leaf l => by rw [RPat.matcher]; exact leaf_mc env l
  | .seq ps => by rw [RPat.matcher]; exact seqPat_mc _ (matchers_mc env ps)
  | .rep p req => by rw [RPat.matcher]; exact repPat_mc _ req
  | .either ps => by rw [RPat.matcher]; exact eitherPat_mc _ (matchers_mc env ps)
  | .all ps => by rw [RPat.matcher]; exact allPat_mc _ (matchers_mc env ps)
  | .invert p => by rw [RPat.matcher]; exact invertPat_mc _
  | .consumes p => by rw [RPat.matcher]; exact consumesPat_mc _
  | .first ps => by rw [RPat.matcher]; exact firstPat_mc _ (matchers_mc env ps)
  | .similar a b => by rw [RPat.matcher]; exact similarPat_mc _ _ (matcher_mc env b)
  | .notTitleCase p => by rw [RPat.matcher]; exact notTitleCasePat_mc env _ (matcher_mc env p)
  | .wordGroup rows => by rw [RPat.matcher]; exact wordGroupPat_mc _ (wrows_mc env rows)
  | .kindGroup rows => by rw [RPat.matcher]; exact kindGroupPat_mc _ (krows_mc env rows)
theorem matchers_mc (env : Env) : (ps : RPats) → ∀ m ∈ RPats.matchers env ps, MC m
  | .nil => by intro m hm; simp [RPats.matchers] at hm
  | .cons p ps => by
    intro m hm
    simp only [RPats.matchers, List.mem_cons] at hm
    rcases hm with rfl | hm
    · exact matcher_mc env p
    · exact matchers_mc env ps m hm
theorem wrows_mc (env : Env) : (rows : WRows) → ∀ r ∈ WRows.rows env rows, MC r.2
  | .nil => by intro r hr; simp [WRows.rows] at hr
  | .cons w p rest => by
    intro r hr
    simp only [WRows.rows, List.mem_cons] at hr
    rcases hr with rfl | hr
    · exact matcher_mc env p
    · exact wrows_mc env rest r hr
theorem krows_mc (env : Env) : (rows : KRows) → ∀ r ∈ KRows.rows env rows, MC r.2
  | .nil => by intro r hr; simp [KRows.rows] at hr
  | .cons k p rest => by
    intro r hr
    simp only [KRows.rows, List.mem_cons] at hr
    rcases hr with rfl | hr
    · exact matcher_mc env p
    · exact krows_mc env rest r hr
end

end contract

/-! ## `ProperNounCapitalizationLinter`: the second lookup finds a row -/

section properNoun

/-- an answer that does not change when the slice is cut anywhere behind it -/
def PS (a : Matcher) : Prop := ∀ src ts k, a src ts = .ok k → k ≠ 0 → ∀ j, k ≤ j → a src (ts.take j) = .ok k

theorem countWhile_take {α} (p : α → Bool) : ∀ (l : List α) (j : Nat), countWhile p l ≤ j → countWhile p (l.take j) = countWhile p l
  | [], _, _ => by simp [countWhile]
  | a :: l, 0, h => by
    simp only [countWhile] at h ⊢
    split at h
    · omega
    · rename_i hp
      simp [countWhile, hp]
  | a :: l, j + 1, h => by
    simp only [List.take_succ_cons, countWhile] at h ⊢
    split
    · rename_i hp
      rw [if_pos hp] at h
      rw [countWhile_take p l j (by omega)]
    · rfl

theorem whitespaceAtom_ps : PS whitespaceAtom := by
  intro src ts k h _ j hj
  simp only [whitespaceAtom, Except.ok.injEq] at h ⊢
  subst h
  exact countWhile_take _ ts j hj

/-- a matcher that looks at the first token only -/
theorem ps_of_head (m : Matcher) (h0 : ∀ src, m src [] = .ok 0) (hh : ∀ src t r r', m src (t :: r) = m src (t :: r')) : PS m := by
  intro src ts k h hk j hj
  cases ts with
  | nil => rw [h0] at h; cases h; exact absurd rfl hk
  | cons t r =>
    cases j with
    | zero => omega
    | succ j => rw [List.take_succ_cons, hh src t _ r]; exact h

/-- the leaves `ExactPhrase::from_document` uses -/
def Leaf.phrase : Leaf → Bool
  | .anyCap _ => true
  | .whitespace => true
  | .punctIs _ => true
  | .strict _ => true
  | .numberIs _ _ _ => true
  | _ => false

theorem leaf_ps (env : Env) : (l : Leaf) → l.phrase = true → PS (l.matcher env)
  | .anyCap w, _ => ps_of_head _ (fun _ => rfl) (fun _ _ _ _ => rfl)
  | .whitespace, _ => whitespaceAtom_ps
  | .punctIs p, _ => ps_of_head _ (fun _ => rfl) (fun _ _ _ _ => rfl)
  | .strict k, _ => ps_of_head _ (fun _ => rfl) (fun _ _ _ _ => rfl)
  | .numberIs r s d, _ => ps_of_head _ (fun _ => rfl) (fun _ _ _ _ => rfl)
  | .kind _ _, h => by cases h
  | .exactWord _, h => by cases h
  | .wordSet _, h => by cases h
  | .withinEdit _ _, h => by cases h
  | .any, h => by cases h
  | .nominalPhrase, h => by cases h
  | .impliesQuantity, h => by cases h
  | .splitCompound _, h => by cases h
  | .closure _, h => by cases h

theorem seqGo_ge (src : List Char) : ∀ (ps : List Matcher) (acc : Nat) (ts : List Tok) (n : Nat),
    seqGo src ps acc ts = .ok n → n = 0 ∨ acc ≤ n
  | [], acc, ts, n, h => by cases h; exact .inr (Nat.le_refl _)
  | p :: ps, acc, ts, n, h => by
    simp only [seqGo] at h
    cases hp : p src ts with
    | error e => rw [hp] at h; cases h
    | ok k =>
      rw [hp] at h
      simp only [] at h
      split at h
      · cases h; exact .inl rfl
      · split at h
        · cases h
        · rcases seqGo_ge src ps _ _ n h with h0 | h1
          · exact .inl h0
          · exact .inr (by omega)

theorem seqGo_ps (src : List Char) : ∀ (ps : List Matcher), (∀ p ∈ ps, PS p) → ∀ (acc : Nat) (ts : List Tok) (n : Nat),
    seqGo src ps acc ts = .ok n → n ≠ 0 → ∀ j, n ≤ acc + j → seqGo src ps acc (ts.take j) = .ok n
  | [], _, acc, ts, n, h, _, j, _ => by cases h; rfl
  | p :: ps, hps, acc, ts, n, h, hn, j, hj => by
    simp only [seqGo] at h ⊢
    cases hp : p src ts with
    | error e => rw [hp] at h; cases h
    | ok k =>
      rw [hp] at h
      simp only [] at h
      split at h
      · cases h; exact absurd rfl hn
      · rename_i hk0
        split at h
        · cases h
        · rename_i hkl
          have hge : acc + k ≤ n := by
            rcases seqGo_ge src ps _ _ n h with h0 | h1
            · exact absurd h0 hn
            · exact h1
          have hkj : k ≤ j := by omega
          rw [(hps p (by simp)) src ts k hp hk0 j hkj]
          simp only []
          rw [if_neg hk0, if_neg (by simp only [List.length_take]; omega)]
          rw [List.drop_take]
          exact seqGo_ps src ps (fun q hq => hps q (List.mem_cons_of_mem _ hq)) (acc + k) (ts.drop k) n h hn (j - k) (by omega)

/-- the shape `ExactPhrase::from_document` builds -/
def IsPhrasePat (p : RPat) : Prop := ∃ ls : List Leaf, (∀ l ∈ ls, l.phrase = true) ∧ p = .seq (leavesToRPats ls)

theorem matchers_leaves (env : Env) : ∀ ls : List Leaf, RPats.matchers env (leavesToRPats ls) = ls.map (fun l => l.matcher env)
  | [] => rfl
  | l :: ls => by simp only [leavesToRPats, RPats.matchers, RPat.matcher, List.map_cons, matchers_leaves env ls]

/-- **an `ExactPhrase` that matched a slice matches the matched prefix again** -/
theorem phrase_prefix_stable (env : Env) (p : RPat) (hp : IsPhrasePat p) (src : List Char) (ts : List Tok) (n : Nat)
    (h : p.matcher env src ts = .ok n) (hn : n ≠ 0) : p.matcher env src (ts.take n) = .ok n := by
  obtain ⟨ls, hls, rfl⟩ := hp
  rw [RPat.matcher, matchers_leaves] at h ⊢
  apply seqGo_ps src _ _ 0 ts n h hn n (by omega)
  intro q hq
  obtain ⟨l, hl, rfl⟩ := List.mem_map.mp hq
  exact leaf_ps env l (hls l hl)

theorem isPhrasePat_plain (p : RPat) (hp : IsPhrasePat p) : p.plain = true := by
  obtain ⟨ls, hls, rfl⟩ := hp
  simp only [RPat.plain]
  have : ∀ ls : List Leaf, (∀ l ∈ ls, l.phrase = true) → (leavesToRPats ls).plain = true := by
    intro ls
    induction ls with
    | nil => intro _; rfl
    | cons l ls ih =>
      intro h
      simp only [leavesToRPats, RPats.plain, RPat.plain, Bool.and_eq_true]
      refine ⟨?_, ih (fun x hx => h x (List.mem_cons_of_mem _ hx))⟩
      have := h l (by simp)
      cases l <;> simp_all [Leaf.phrase, Leaf.plain]
  exact this ls hls

theorem exactPhrase_isPhrase (env : Env) (psrc : List Char) (ptoks : List Tok) (p : RPat)
    (h : exactPhraseOf env psrc ptoks = some p) : IsPhrasePat p := by
  simp only [exactPhraseOf, Option.map_eq_some_iff] at h
  obtain ⟨ls, hls, rfl⟩ := h
  refine ⟨ls, ?_, rfl⟩
  intro l hl
  obtain ⟨t, _, ht⟩ := mapM_some_mem _ _ _ hls l hl
  simp only [exactPhraseLeaf] at ht
  split at ht <;> first | (cases ht; rfl) | cases ht

theorem matchers_ofList (env : Env) : ∀ ps : List RPat, RPats.matchers env (RPats.ofList ps) = ps.map (fun p => p.matcher env)
  | [] => rfl
  | p :: ps => by simp only [RPats.ofList, RPats.matchers, List.map_cons, matchers_ofList env ps]

/-- when the `PatternMap` matched `n ≠ 0` tokens of `full`, `lookup` on those `n` tokens finds a row -/
theorem lookupRow_some {H : List Char → List Tok → Prop} (hH : SliceHyp H) (env : Env) (src : List Char) (full : List Tok)
    (hfull : H src full) (n : Nat) (hn : n ≠ 0) : ∀ (rows : List PNRow), (∀ r ∈ rows, IsPhrasePat r.pat) →
      firstGo src full (rows.map fun r => r.pat.matcher env) = .ok n →
      ∃ r ∈ rows, lookupRow env src (full.take n) rows = .ok (some r)
  | [], _, h => by cases h; exact absurd rfl hn
  | r :: rows, hrows, h => by
    have hpl := isPhrasePat_plain r.pat (hrows r (by simp))
    simp only [List.map_cons, firstGo] at h
    cases hp : r.pat.matcher env src full with
    | error e => rw [hp] at h; cases h
    | ok k =>
      rw [hp] at h
      simp only [] at h
      split at h
      · rename_i hk
        cases h
        refine ⟨r, by simp, ?_⟩
        simp only [lookupRow, phrase_prefix_stable env r.pat (hrows r (by simp)) src full n hp hn, hk, if_true]
      · obtain ⟨k', ek', _⟩ := matcher_okh hH env r.pat (side_of_plain env _ r.pat hpl) src (full.take n)
          (hH.sub src _ _ (List.take_sublist n full) hfull)
        simp only [lookupRow, ek']
        split
        · exact ⟨r, by simp, rfl⟩
        · obtain ⟨r', hr', e'⟩ := lookupRow_some hH env src full hfull n hn rows (fun x hx => hrows x (List.mem_cons_of_mem _ hx)) h
          exact ⟨r', List.mem_cons_of_mem _ hr', e'⟩

theorem zipBroken_ok (src : List Char) : ∀ (m : List Tok) (cs : List (List Char)), InText src m → ∃ b, zipBroken src m cs = .ok b
  | [], _, _ => ⟨false, by simp [zipBroken]⟩
  | _ :: _, [], _ => ⟨false, by simp [zipBroken]⟩
  | t :: ts, c :: cs, h => by
    simp only [zipBroken, getContent_textOf src t (h t (by simp))]
    split
    · exact ⟨true, rfl⟩
    · exact zipBroken_ok src ts cs (fun u hu => h u (List.mem_cons_of_mem _ hu))

/-- `run_on_chunk`, with `match_to_lint` told what matched: `full` = the rest of the chunk, `n` = the match length -/
theorem runOnChunkGo_okh' {H : List Char → List Tok → Prop} (hH : SliceHyp H) (m : Matcher) (hm : MOKh H m)
    (f : List Char → List Tok → Except Panic (List RuleLint)) (src : List Char)
    (hf : ∀ full n, H src full → m src full = .ok n → n ≠ 0 → n ≤ full.length →
      ∃ ls, f src (full.take n) = .ok ls ∧ ∀ x ∈ ls, LintOK src.length x)
    (ts : List Tok) (ho : H src ts) :
    ∀ skip, ∃ ls, runOnChunkGo m f src skip ts = .ok ls ∧ ∀ x ∈ ls, LintOK src.length x := by
  induction ts with
  | nil => intro skip; cases skip <;> exact ⟨[], rfl, by simp⟩
  | cons t ts ih =>
    have hot : H src ts := hH.sub src _ _ (List.sublist_cons_self _ _) ho
    intro skip
    cases skip with
    | succ s => simp only [runOnChunkGo]; exact ih hot s
    | zero =>
      obtain ⟨n, en, hn⟩ := hm src (t :: ts) ho
      simp only [runOnChunkGo, en]
      split
      · exact ih hot 0
      · rename_i hn0
        rw [if_neg (by omega)]
        obtain ⟨l, el, hl⟩ := hf (t :: ts) n ho en hn0 hn
        obtain ⟨r, er, hr⟩ := ih hot (n - 1)
        refine ⟨l ++ r, by simp only [el, er], ?_⟩
        intro x hx
        rcases List.mem_append.mp hx with hx | hx
        · exact hl x hx
        · exact hr x hx

theorem pnPattern_matcher (env : Env) (rows : List PNRow) :
    (pnPattern rows).matcher env = firstPat (rows.map fun r => r.pat.matcher env) := by
  simp only [pnPattern, RPat.matcher, matchers_ofList, List.map_map]
  rfl

theorem pnPattern_plain (rows : List PNRow) (h : ∀ r ∈ rows, IsPhrasePat r.pat) : (pnPattern rows).plain = true := by
  simp only [pnPattern, RPat.plain]
  induction rows with
  | nil => rfl
  | cons r rows ih =>
    simp only [List.map_cons, RPats.ofList, RPats.plain, Bool.and_eq_true]
    exact ⟨isPhrasePat_plain r.pat (h r (by simp)), ih (fun x hx => h x (List.mem_cons_of_mem _ hx))⟩

theorem properNounPiece_ok {H : List Char → List Tok → Prop} (hH : SliceHyp H) (env : Env) (rows : List PNRow)
    (hrows : ∀ r ∈ rows, IsPhrasePat r.pat) (src : List Char) (chunk : List Tok) (ho : H src chunk) :
    ∃ ls, properNounPiece env rows src chunk = .ok ls ∧ ∀ l ∈ ls, LintOK src.length l := by
  apply runOnChunkGo_okh' hH _ (matcher_okh hH env _ (side_of_plain env _ _ (pnPattern_plain rows hrows))) _ src _ chunk ho 0
  intro full n hfull hm hn hnl
  rw [pnPattern_matcher] at hm
  obtain ⟨r, _, er⟩ := lookupRow_some hH env src full hfull n hn rows hrows hm
  have hin : InText src (full.take n) := hH.inb src _ (hH.sub src _ _ (List.take_sublist n full) hfull)
  obtain ⟨b, eb⟩ := zipBroken_ok src (full.take n) r.contents hin
  simp only [properNounMatch, er, eb]
  cases b with
  | false => exact ⟨[], rfl, by simp⟩
  | true =>
    simp only []
    cases hsp : spanOf (full.take n) with
    | none => exact ⟨[], rfl, by simp⟩
    | some sp =>
      have hspok := spanOf_ok src.length _ sp hsp (fun t ht => by have h1 := (hin t ht).1; have h2 := (hin t ht).2; omega)
      refine ⟨_, rfl, ?_⟩
      intro l hl
      simp only [List.mem_singleton] at hl
      subst hl
      exact hspok

/-! ### locality -/

theorem lookupRow_shift (env : Env) (P D : List Char) (m : List Tok) (j : Nat) : ∀ rows : List PNRow, (∀ r ∈ rows, r.pat.Loc) →
    lookupRow env (P ++ D) (m.map (shTok P.length j)) rows = lookupRow env D m rows
  | [], _ => rfl
  | r :: rows, h => by
    simp only [lookupRow, (matcher_loc env r.pat (h r (by simp))).right]
    cases r.pat.matcher env D m with
    | error e => rfl
    | ok n =>
      simp only []
      split
      · rfl
      · exact lookupRow_shift env P D m j rows (fun x hx => h x (List.mem_cons_of_mem _ hx))

theorem lookupRow_left (env : Env) (P D : List Char) (m : List Tok) (hm : ∀ t ∈ m, t.span.start ≤ t.span.stop ∧ t.span.stop ≤ P.length) :
    ∀ rows : List PNRow, (∀ r ∈ rows, r.pat.Loc) → lookupRow env (P ++ D) m rows = lookupRow env P m rows
  | [], _ => rfl
  | r :: rows, h => by
    simp only [lookupRow, (matcher_loc env r.pat (h r (by simp))).left P D m hm]
    cases r.pat.matcher env P m with
    | error e => rfl
    | ok n =>
      simp only []
      split
      · rfl
      · exact lookupRow_left env P D m hm rows (fun x hx => h x (List.mem_cons_of_mem _ hx))

theorem zipBroken_shift (P D : List Char) (j : Nat) : ∀ (m : List Tok) (cs : List (List Char)),
    zipBroken (P ++ D) (m.map (shTok P.length j)) cs = zipBroken D m cs
  | [], _ => by simp [zipBroken]
  | _ :: _, [] => by simp [zipBroken]
  | t :: ts, c :: cs => by
    simp only [List.map_cons, zipBroken, shTok_span, getContent_shift']
    cases t.span.getContent D with
    | error e => rfl
    | ok txt =>
      simp only []
      split
      · rfl
      · exact zipBroken_shift P D j ts cs

theorem zipBroken_left (P D : List Char) : ∀ (m : List Tok) (cs : List (List Char)), (∀ t ∈ m, t.span.stop ≤ P.length) →
    zipBroken (P ++ D) m cs = zipBroken P m cs
  | [], _, _ => by simp [zipBroken]
  | _ :: _, [], _ => by simp [zipBroken]
  | t :: ts, c :: cs, h => by
    simp only [zipBroken, getContent_left' P D t.span (h t (by simp))]
    cases t.span.getContent P with
    | error e => rfl
    | ok txt =>
      simp only []
      split
      · rfl
      · exact zipBroken_left P D ts cs (fun u hu => h u (List.mem_cons_of_mem _ hu))

theorem properNounMatch_shift (env : Env) (rows : List PNRow) (hrows : ∀ r ∈ rows, r.pat.Loc) (P D : List Char) (m : List Tok) (j : Nat) :
    properNounMatch env rows (P ++ D) (m.map (shTok P.length j)) = (properNounMatch env rows D m).map (shiftRLs P.length) := by
  simp only [properNounMatch, lookupRow_shift env P D m j rows hrows]
  cases lookupRow env D m rows with
  | error e => rfl
  | ok o =>
    cases o with
    | none => rfl
    | some r =>
      simp only [zipBroken_shift]
      cases zipBroken D m r.contents with
      | error e => rfl
      | ok b =>
        cases b with
        | false => rfl
        | true =>
          simp only [spanOf_shTok]
          cases spanOf m with
          | none => rfl
          | some sp => rfl

theorem properNounMatch_left (env : Env) (rows : List PNRow) (hrows : ∀ r ∈ rows, r.pat.Loc) (P D : List Char) (m : List Tok)
    (h : ∀ t ∈ m, tokOK t = true ∧ t.span.stop ≤ P.length) :
    properNounMatch env rows (P ++ D) m = properNounMatch env rows P m := by
  simp only [properNounMatch, lookupRow_left env P D m (fun t ht => ⟨Nat.le_of_lt (tokOK_nonempty (h t ht).1), (h t ht).2⟩) rows hrows]
  cases lookupRow env P m rows with
  | error e => rfl
  | ok o =>
    cases o with
    | none => rfl
    | some r => simp only [zipBroken_left P D m r.contents (fun t ht => (h t ht).2)]

theorem pnPattern_loc (rows : List PNRow) (h : ∀ r ∈ rows, r.pat.Loc) : (pnPattern rows).Loc := by
  simp only [pnPattern, RPat.Loc]
  induction rows with
  | nil => simp [RPats.ofList, RPats.Loc]
  | cons r rows ih =>
    simp only [List.map_cons, RPats.ofList, RPats.Loc]
    exact ⟨h r (by simp), ih (fun x hx => h x (List.mem_cons_of_mem _ hx))⟩

theorem properNoun_xlocalE (env : Env) (rows : List PNRow) (hrows : ∀ r ∈ rows, r.pat.Loc) : XLocalE (properNounPiece env rows) where
  nil := fun _ => rfl
  left := by
    intro P D piece h
    exact runOnChunkGo_leftL _ (matcher_loc env _ (pnPattern_loc rows hrows)) _ P D
      (fun l hl => properNounMatch_left env rows hrows P D l hl) piece h 0
  right := by
    intro P D piece j _
    exact runOnChunkGo_rightL _ (matcher_loc env _ (pnPattern_loc rows hrows)) _ P D j
      (fun l => properNounMatch_shift env rows hrows P D l j) piece 0

end properNoun

/-! ## `merge_linters!` -/

theorem mergeLinters_ok (rs : List PieceRule) (src : List Char) (toks : List Tok) (n : Nat)
    (h : ∀ r ∈ rs, ∃ ls, r src toks = .ok ls ∧ ∀ l ∈ ls, LintOK n l) :
    ∃ ls, mergeLinters rs src toks = .ok ls ∧ ∀ l ∈ ls, LintOK n l := by
  obtain ⟨cands, e, hc⟩ := collectE_ok (LintOK n) (fun (r : PieceRule) => r src toks) rs h
  refine ⟨removeOverlapsRL cands, by simp only [mergeLinters, e, Except.map], ?_⟩
  intro l hl
  exact hc l (removeOverlapsRL_mem cands l hl)

/-! ## helpers of the property files -/

/-- the words inside the tree fit the `u8` rows -/
def Leaf.wordsShort (env : Env) : Leaf → Prop
  | .withinEdit w _ => (toLowerCow env w).length ≤ 254
  | _ => True

mutual
def WordsShort (env : Env) : RPat → Prop
  | .leaf l => Leaf.wordsShort env l
  | .seq ps => WordsShortL env ps
  | .rep p _ => WordsShort env p
  | .either ps => WordsShortL env ps
  | .all ps => WordsShortL env ps
  | .invert p => WordsShort env p
  | .consumes p => WordsShort env p
  | .first ps => WordsShortL env ps
  | .similar a b => WordsShort env a ∧ WordsShort env b
  | .notTitleCase p => WordsShort env p
  | .wordGroup rows => WordsShortW env rows
  | .kindGroup rows => WordsShortK env rows
def WordsShortL (env : Env) : RPats → Prop
  | .nil => True
  | .cons p ps => WordsShort env p ∧ WordsShortL env ps
def WordsShortW (env : Env) : WRows → Prop
  | .nil => True
  | .cons _ p rest => WordsShort env p ∧ WordsShortW env rest
def WordsShortK (env : Env) : KRows → Prop
  | .nil => True
  | .cons _ p rest => WordsShort env p ∧ WordsShortK env rest
end

/-- tokens in text order whose lower-cased words have at most 254 characters -/
def OrderedShort (env : Env) (src : List Char) (ts : List Tok) : Prop := Ord src.length ts ∧ ShortWords env src ts

theorem orderedShort_hyp (env : Env) : SliceHyp (OrderedShort env) :=
  and_hyp inOrder_hyp (ShortWords env) (shortWords_sub env)

mutual
theorem side_full (env : Env) (hd : DictOK env) (hc : CanonOK env) : (p : RPat) → WordsShort env p → p.Side env (OrderedShort env)
  | .leaf l, h => by
    simp only [RPat.Side]
    cases l with
    | withinEdit w d => exact ⟨by simpa [WordsShort, Leaf.wordsShort] using h, fun _ _ hh => hh.2⟩
    | splitCompound b => exact hd
    | _ => trivial
  | .seq ps, h => by simp only [RPat.Side]; exact sides_full env hd hc ps (by simpa [WordsShort] using h)
  | .rep p _, h => by simp only [RPat.Side]; exact side_full env hd hc p (by simpa [WordsShort] using h)
  | .either ps, h => by simp only [RPat.Side]; exact sides_full env hd hc ps (by simpa [WordsShort] using h)
  | .all ps, h => by simp only [RPat.Side]; exact sides_full env hd hc ps (by simpa [WordsShort] using h)
  | .invert p, h => by simp only [RPat.Side]; exact side_full env hd hc p (by simpa [WordsShort] using h)
  | .consumes p, h => by simp only [RPat.Side]; exact side_full env hd hc p (by simpa [WordsShort] using h)
  | .first ps, h => by simp only [RPat.Side]; exact sides_full env hd hc ps (by simpa [WordsShort] using h)
  | .similar a b, h => by
    have h' : WordsShort env a ∧ WordsShort env b := by simpa [WordsShort] using h
    simp only [RPat.Side]
    exact ⟨side_full env hd hc a h'.1, side_full env hd hc b h'.2⟩
  | .notTitleCase p, h => by
    simp only [RPat.Side]
    exact ⟨hc, fun _ _ hh => hh.1, side_full env hd hc p (by simpa [WordsShort] using h)⟩
  | .wordGroup rows, h => by simp only [RPat.Side]; exact wside_full env hd hc rows (by simpa [WordsShort] using h)
  | .kindGroup rows, h => by simp only [RPat.Side]; exact kside_full env hd hc rows (by simpa [WordsShort] using h)
theorem sides_full (env : Env) (hd : DictOK env) (hc : CanonOK env) : (ps : RPats) → WordsShortL env ps → ps.Side env (OrderedShort env)
  | .nil, _ => by simp [RPats.Side]
  | .cons p ps, h => by
    have h' : WordsShort env p ∧ WordsShortL env ps := by simpa [WordsShortL] using h
    simp only [RPats.Side]
    exact ⟨side_full env hd hc p h'.1, sides_full env hd hc ps h'.2⟩
theorem wside_full (env : Env) (hd : DictOK env) (hc : CanonOK env) : (rows : WRows) → WordsShortW env rows → rows.Side env (OrderedShort env)
  | .nil, _ => by simp [WRows.Side]
  | .cons _ p rest, h => by
    have h' : WordsShort env p ∧ WordsShortW env rest := by simpa [WordsShortW] using h
    simp only [WRows.Side]
    exact ⟨side_full env hd hc p h'.1, wside_full env hd hc rest h'.2⟩
theorem kside_full (env : Env) (hd : DictOK env) (hc : CanonOK env) : (rows : KRows) → WordsShortK env rows → rows.Side env (OrderedShort env)
  | .nil, _ => by simp [KRows.Side]
  | .cons _ p rest, h => by
    have h' : WordsShort env p ∧ WordsShortK env rest := by simpa [WordsShortK] using h
    simp only [KRows.Side]
    exact ⟨side_full env hd hc p h'.1, kside_full env hd hc rest h'.2⟩
end


theorem leavesToRPats_plain : ∀ ls : List Leaf, (∀ l ∈ ls, l.plain = true) → (leavesToRPats ls).plain = true
  | [], _ => rfl
  | l :: ls, h => by
    simp only [leavesToRPats, RPats.plain, RPat.plain, Bool.and_eq_true]
    exact ⟨h l (by simp), leavesToRPats_plain ls (fun x hx => h x (List.mem_cons_of_mem _ hx))⟩


theorem ofList_plain : ∀ ps : List RPat, (∀ p ∈ ps, p.plain = true) → (RPats.ofList ps).plain = true
  | [], _ => rfl
  | p :: ps, h => by
    simp only [RPats.ofList, RPats.plain, Bool.and_eq_true]
    exact ⟨h p (by simp), ofList_plain ps (fun x hx => h x (List.mem_cons_of_mem _ hx))⟩


theorem leavesToRPats_loc : ∀ ls : List Leaf, (∀ l ∈ ls, l.Loc) → (leavesToRPats ls).Loc
  | [], _ => by simp [leavesToRPats, RPats.Loc]
  | l :: ls, h => by
    simp only [leavesToRPats, RPats.Loc, RPat.Loc]
    exact ⟨h l (by simp), leavesToRPats_loc ls (fun x hx => h x (List.mem_cons_of_mem _ hx))⟩


theorem ofList_loc : ∀ ps : List RPat, (∀ p ∈ ps, p.Loc) → (RPats.ofList ps).Loc
  | [], _ => by simp [RPats.ofList, RPats.Loc]
  | p :: ps, h => by
    simp only [RPats.ofList, RPats.Loc]
    exact ⟨h p (by simp), ofList_loc ps (fun x hx => h x (List.mem_cons_of_mem _ hx))⟩


end Harper.Leaves

namespace Harper.Leaves
open Harper Harper.Chunks Harper.Rules

/-! ## never out of fuel: no hypothesis on the source, the tokens or the tree -/

/-- the matcher never reports a hang (`Panic.outOfFuel`), on any source and any tokens -/
def NF (m : Matcher) : Prop := ∀ src ts, m src ts ≠ .error .outOfFuel

section noFuel

theorem getContent_nf {α} (s : Span) (src : List α) : s.getContent src ≠ .error .outOfFuel := by
  unfold Span.getContent
  intro h
  split at h
  · cases h
  · split at h
    · split at h <;> cases h
    · cases h

theorem sliceE_nf {α} (l : List α) (a b : Nat) : sliceE l a b ≠ .error .outOfFuel := by
  unfold sliceE
  intro h
  split at h <;> cases h

theorem arithAdd_nf (m : Arith) (a b : Nat) : m.add a b ≠ .error .outOfFuel := by
  intro h
  cases m <;> simp only [Arith.add] at h
  · cases h
  · split at h <;> cases h
  · cases h

theorem nextRowAux_nf {α} [DecidableEq α] (m : Arith) (b : α) :
    ∀ (s : List α) (left diag : Nat) (ps : List Nat), nextRowAux m b left diag s ps ≠ .error .outOfFuel := by
  intro s
  induction s with
  | nil => intro left diag ps h; simp only [nextRowAux] at h; cases h
  | cons a s ih =>
    intro left diag ps h
    cases ps with
    | nil => simp only [nextRowAux] at h; cases h
    | cons p ps =>
      simp only [nextRowAux] at h
      cases hx : m.add p 1 with
      | error e => rw [hx] at h; simp only [] at h; cases h; exact arithAdd_nf _ _ _ hx
      | ok x =>
        rw [hx] at h
        simp only [] at h
        cases hy : m.add left 1 with
        | error e => rw [hy] at h; simp only [] at h; cases h; exact arithAdd_nf _ _ _ hy
        | ok y =>
          rw [hy] at h
          simp only [] at h
          cases hz : m.add diag (edCost a b) with
          | error e => rw [hz] at h; simp only [] at h; cases h; exact arithAdd_nf _ _ _ hz
          | ok z =>
            rw [hz] at h
            simp only [] at h
            cases hr : nextRowAux m b (min (min x y) z) p s ps with
            | error e => rw [hr] at h; simp only [] at h; cases h; exact ih _ _ _ hr
            | ok rest => rw [hr] at h; cases h

theorem edRows_nf {α} [DecidableEq α] (m : Arith) (source : List α) :
    ∀ (t : List α) (j : Nat) (prev : List Nat), edRows m source j t prev ≠ .error .outOfFuel := by
  intro t
  induction t with
  | nil =>
    intro j prev h
    simp only [edRows] at h
    split at h <;> cases h
  | cons b t ih =>
    intro j prev h
    simp only [edRows] at h
    cases hr : nextRowAux m b (m.cast j) (prev.headD 0) source prev.tail with
    | error e => rw [hr] at h; simp only [] at h; cases h; exact nextRowAux_nf _ _ _ _ _ _ hr
    | ok rest => rw [hr] at h; exact ih _ _ h

theorem editDistance_nf {α} [DecidableEq α] (m : Arith) (s t : List α) : editDistance m s t ≠ .error .outOfFuel := by
  unfold editDistance
  intro h
  split at h
  · exact edRows_nf _ _ _ _ _ h
  · cases h

theorem titleLoop_nf (si : Nat) : ∀ (ws : List Title.TTok) (index : Nat) (out : List Nat),
    Title.loop si index ws out ≠ .error .outOfFuel := by
  intro ws
  induction ws with
  | nil => intro index out h; simp only [Title.loop] at h; cases h
  | cons w rest ih =>
    intro index out h
    simp only [Title.loop] at h
    cases hs : Title.step si w (Title.shouldCapToken w || index == 0 || rest.isEmpty) out with
    | error e =>
      rw [hs] at h; simp only [] at h; cases h
      unfold Title.step at hs
      split at hs <;> cases hs
    | ok out' => rw [hs] at h; exact ih _ _ h

theorem makeTitleCase_nf (toks : List Title.TTok) (src : List Nat) : Title.makeTitleCase toks src ≠ .error .outOfFuel := by
  intro h
  unfold Title.makeTitleCase at h
  split at h
  · cases h
  · split at h
    · cases h
    · split at h
      · rename_i e hc
        cases h
        exact getContent_nf _ _ hc
      · exact titleLoop_nf _ _ _ _ h

theorem tokAtom_nf (f : List Char → Tok → Bool) : NF (tokAtom f) := by
  intro src ts h
  cases ts <;> cases h

theorem tokAtomE_nf (f : List Char → Tok → Except Panic Bool) (hf : ∀ src t, f src t ≠ .error .outOfFuel) : NF (tokAtomE f) := by
  intro src ts h
  cases ts with
  | nil => cases h
  | cons t ts =>
    simp only [tokAtomE] at h
    cases hh : f src t with
    | error e => rw [hh] at h; cases h; exact hf _ _ hh
    | ok b => rw [hh] at h; cases h

theorem kindAtom_nf (p : Kind → Bool) : NF (kindAtom p) := by
  intro src ts h
  cases ts <;> cases h

theorem whitespaceAtom_nf : NF whitespaceAtom := by
  intro src ts h; cases h

theorem anyAtom_nf : NF anyAtom := by
  intro src ts h; cases h

theorem nominalPhrase_nf (env : Env) : NF (nominalPhraseAtom env) := by
  intro src ts h; cases h

theorem exactWordTest_nf (w : List Char) (src : List Char) (t : Tok) : exactWordTest w src t ≠ .error .outOfFuel := by
  intro h
  unfold exactWordTest at h
  split at h
  · cases h
  · split at h
    · rename_i e hc; cases h; exact getContent_nf _ _ hc
    · cases h

theorem closureTest_nf (env : Env) (c : Closure) (src : List Char) (t : Tok) : c.test env src t ≠ .error .outOfFuel := by
  intro h
  cases c <;> simp only [Closure.test] at h
  · split at h
    · cases h
    · split at h
      · rename_i e hc; cases h; exact getContent_nf _ _ hc
      · cases h
  · split at h
    · cases h
    · split at h
      · cases h
      · split at h
        · rename_i e hc; cases h; exact getContent_nf _ _ hc
        · cases h
  · cases h
  · cases h
  · split at h
    · cases h
    · split at h <;> cases h
  · cases h
  · cases h

theorem wordSetAtom_nf (ws : List (List Char)) : NF (wordSetAtom ws) := by
  intro src ts h
  cases ts with
  | nil => cases h
  | cons t ts =>
    simp only [wordSetAtom] at h
    split at h
    · cases h
    · split at h
      · rename_i e hc; cases h; exact getContent_nf _ _ hc
      · cases h

theorem anyCapAtom_nf (w : List Char) : NF (anyCapAtom w) := by
  intro src ts h
  cases ts with
  | nil => cases h
  | cons t ts =>
    simp only [anyCapAtom] at h
    split at h
    · cases h
    · split at h
      · cases h
      · split at h
        · cases h
        · split at h
          · rename_i e hc; cases h; exact getContent_nf _ _ hc
          · cases h

theorem withinEdit_nf (env : Env) (w : List Char) (d : Nat) : NF (withinEditAtom env w d) := by
  intro src ts h
  cases ts with
  | nil => cases h
  | cons t ts =>
    simp only [withinEditAtom] at h
    split at h
    · cases h
    · split at h
      · rename_i e hc; cases h; exact getContent_nf _ _ hc
      · split at h
        · rename_i e hc; cases h; exact editDistance_nf _ _ _ hc
        · cases h

theorem impliesQuantity_nf (env : Env) : NF (impliesQuantityAtom env) := by
  intro src ts h
  cases ts with
  | nil => cases h
  | cons t ts =>
    simp only [impliesQuantityAtom] at h
    split at h
    · split at h
      · cases h
      · split at h
        · cases h
        · split at h
          · rename_i e hc; cases h; exact getContent_nf _ _ hc
          · cases h
    · cases h
    · cases h

/-! combinators: each preserves `NF`; `repPat` is the one with a loop -/

theorem seqGo_nf (ps : List Matcher) (hps : ∀ p ∈ ps, NF p) (src : List Char) :
    ∀ (acc : Nat) (ts : List Tok), seqGo src ps acc ts ≠ .error .outOfFuel := by
  induction ps with
  | nil => intro acc ts h; cases h
  | cons p ps ih =>
    intro acc ts h
    simp only [seqGo] at h
    cases hp : p src ts with
    | error e => rw [hp] at h; cases h; exact hps p (by simp) _ _ hp
    | ok k =>
      rw [hp] at h
      simp only [] at h
      split at h
      · cases h
      · split at h
        · cases h
        · exact ih (fun q hq => hps q (List.mem_cons_of_mem _ hq)) _ _ h

theorem seqPat_nf (ps : List Matcher) (hps : ∀ p ∈ ps, NF p) : NF (seqPat ps) :=
  fun src ts => seqGo_nf ps hps src 0 ts

/-- **the `loop` of `RepeatingPattern::matches` cannot spin**: an iteration that does not return — because the child matched
nothing, or panicked, or answered more than the slice holds (`&tokens[cursor..]` panics) — shortens the slice by at least one
token, so `fuel > ts.length` iterations are never used up. The child's answer is NOT assumed to keep the contract. -/
theorem repGo_nf (inner : Matcher) (hi : NF inner) (req : Nat) (src : List Char) :
    ∀ (fuel cursor rep : Nat) (ts : List Tok), ts.length < fuel → repGo inner req src fuel cursor rep ts ≠ .error .outOfFuel := by
  intro fuel
  induction fuel with
  | zero => intro _ _ ts hf; omega
  | succ fuel ih =>
    intro cursor rep ts hf h
    simp only [repGo] at h
    cases hp : inner src ts with
    | error e => rw [hp] at h; cases h; exact hi _ _ hp
    | ok k =>
      rw [hp] at h
      simp only [] at h
      split at h
      · cases h
      · split at h
        · cases h
        · refine ih _ _ _ ?_ h
          simp only [List.length_drop]
          omega

theorem repPat_nf (inner : Matcher) (hi : NF inner) (req : Nat) : NF (repPat inner req) :=
  fun src ts => repGo_nf inner hi req src _ 0 0 ts (Nat.lt_succ_self _)

theorem eitherGo_nf (ps : List Matcher) (hps : ∀ p ∈ ps, NF p) (src : List Char) (ts : List Tok) :
    ∀ longest, eitherGo src ts ps longest ≠ .error .outOfFuel := by
  induction ps with
  | nil => intro longest h; cases h
  | cons p ps ih =>
    intro longest h
    simp only [eitherGo] at h
    cases hp : p src ts with
    | error e => rw [hp] at h; cases h; exact hps p (by simp) _ _ hp
    | ok k =>
      rw [hp] at h
      exact ih (fun q hq => hps q (List.mem_cons_of_mem _ hq)) _ h

theorem eitherPat_nf (ps : List Matcher) (hps : ∀ p ∈ ps, NF p) : NF (eitherPat ps) :=
  fun src ts => eitherGo_nf ps hps src ts 0

theorem allGo_nf (ps : List Matcher) (hps : ∀ p ∈ ps, NF p) (src : List Char) (ts : List Tok) :
    ∀ mx, allGo src ts ps mx ≠ .error .outOfFuel := by
  induction ps with
  | nil => intro mx h; cases h
  | cons p ps ih =>
    intro mx h
    simp only [allGo] at h
    cases hp : p src ts with
    | error e => rw [hp] at h; cases h; exact hps p (by simp) _ _ hp
    | ok k =>
      rw [hp] at h
      simp only [] at h
      split at h
      · cases h
      · exact ih (fun q hq => hps q (List.mem_cons_of_mem _ hq)) _ h

theorem allPat_nf (ps : List Matcher) (hps : ∀ p ∈ ps, NF p) : NF (allPat ps) :=
  fun src ts => allGo_nf ps hps src ts 0

theorem invertPat_nf (p : Matcher) (hp : NF p) : NF (invertPat p) := by
  intro src ts h
  simp only [invertPat] at h
  split at h
  · cases h
  · cases hh : p src ts with
    | error e => rw [hh] at h; cases h; exact hp _ _ hh
    | ok k => rw [hh] at h; cases h

theorem consumesPat_nf (p : Matcher) (hp : NF p) : NF (consumesPat p) := by
  intro src ts h
  simp only [consumesPat] at h
  cases hh : p src ts with
  | error e => rw [hh] at h; cases h; exact hp _ _ hh
  | ok k => rw [hh] at h; cases h

theorem firstGo_nf (ps : List Matcher) (hps : ∀ p ∈ ps, NF p) (src : List Char) (ts : List Tok) :
    firstGo src ts ps ≠ .error .outOfFuel := by
  induction ps with
  | nil => intro h; cases h
  | cons p ps ih =>
    intro h
    simp only [firstGo] at h
    cases hp : p src ts with
    | error e => rw [hp] at h; cases h; exact hps p (by simp) _ _ hp
    | ok k =>
      rw [hp] at h
      simp only [] at h
      split at h
      · cases h
      · exact ih (fun q hq => hps q (List.mem_cons_of_mem _ hq)) h

theorem firstPat_nf (ps : List Matcher) (hps : ∀ p ∈ ps, NF p) : NF (firstPat ps) :=
  fun src ts => firstGo_nf ps hps src ts

theorem similarPat_nf (a b : Matcher) (ha : NF a) (hb : NF b) : NF (similarPat a b) := by
  intro src ts h
  simp only [similarPat] at h
  cases hx : a src ts with
  | error e => rw [hx] at h; cases h; exact ha _ _ hx
  | ok x =>
    rw [hx] at h
    simp only [] at h
    cases hy : b src ts with
    | error e => rw [hy] at h; cases h; exact hb _ _ hy
    | ok y => rw [hy] at h; cases h

theorem notTitleCasePat_nf (env : Env) (inner : Matcher) (hi : NF inner) : NF (notTitleCasePat env inner) := by
  intro src ts h
  simp only [notTitleCasePat] at h
  cases hp : inner src ts with
  | error e => rw [hp] at h; cases h; exact hi _ _ hp
  | ok k =>
    rw [hp] at h
    simp only [] at h
    split at h
    · cases h
    · cases hs : sliceE ts 0 k with
      | error e => rw [hs] at h; cases h; exact sliceE_nf _ _ _ hs
      | ok m =>
        rw [hs] at h
        simp only [] at h
        cases hsp : spanOf m with
        | none => rw [hsp] at h; cases h
        | some sp =>
          rw [hsp] at h
          simp only [] at h
          cases hc : sp.getContent src with
          | error e => rw [hc] at h; cases h; exact getContent_nf _ _ hc
          | ok matched =>
            rw [hc] at h
            simp only [] at h
            cases ht : Title.makeTitleCase (m.map (toTTok env src)) (src.map Char.toNat) with
            | error e => rw [ht] at h; cases h; exact makeTitleCase_nf _ _ ht
            | ok tc => rw [ht] at h; cases h

theorem splitCompound_nf (env : Env) (bit : Nat) : NF (splitCompoundAtom env bit) := by
  intro src ts h
  have hinner : NF (seqPat [kindAtom Kind.isWord, whitespaceAtom, kindAtom Kind.isWord]) :=
    seqPat_nf _ (by
      intro p hp
      simp only [List.mem_cons, List.mem_nil_iff, or_false] at hp
      rcases hp with rfl | rfl | rfl
      · exact kindAtom_nf _
      · exact whitespaceAtom_nf
      · exact kindAtom_nf _)
  simp only [splitCompoundAtom] at h
  cases hp : seqPat [kindAtom Kind.isWord, whitespaceAtom, kindAtom Kind.isWord] src ts with
  | error e => rw [hp] at h; cases h; exact hinner _ _ hp
  | ok k =>
    rw [hp] at h
    simp only [] at h
    split at h
    · cases h
    · cases h0 : ts[0]? with
      | none => rw [h0] at h; cases h
      | some a =>
        rw [h0] at h
        cases h2 : ts[2]? with
        | none => rw [h2] at h; cases h
        | some b =>
          rw [h2] at h
          simp only [] at h
          cases hca : a.span.getContent src with
          | error e => rw [hca] at h; cases h; exact getContent_nf _ _ hca
          | ok ca =>
            rw [hca] at h
            simp only [] at h
            cases hcb : b.span.getContent src with
            | error e => rw [hcb] at h; cases h; exact getContent_nf _ _ hcb
            | ok cb =>
              rw [hcb] at h
              simp only [] at h
              split at h
              · split at h <;> cases h
              · cases h

theorem wordGroupPat_nf (rows : List (List Char × Matcher)) (hr : ∀ r ∈ rows, NF r.2) : NF (wordGroupPat rows) := by
  intro src ts h
  cases ts with
  | nil => cases h
  | cons t ts =>
    simp only [wordGroupPat] at h
    split at h
    · cases h
    · cases hc : t.span.getContent src with
      | error e => rw [hc] at h; cases h; exact getContent_nf _ _ hc
      | ok cs =>
        rw [hc] at h
        simp only [] at h
        have hg : ∀ p ∈ (rows.filter fun r => r.1 == cs).map (·.2), NF p := by
          intro p hp
          obtain ⟨r, hrm, rfl⟩ := List.mem_map.mp hp
          exact hr r (List.mem_filter.mp hrm).1
        generalize (rows.filter fun r => r.1 == cs).map (·.2) = g at hg h
        cases g with
        | nil => cases h
        | cons a g => exact firstGo_nf _ hg src _ h

theorem kindGroupPat_nf (rows : List (Kind × Matcher)) (hr : ∀ r ∈ rows, NF r.2) : NF (kindGroupPat rows) := by
  intro src ts h
  cases ts with
  | nil => cases h
  | cons t ts =>
    simp only [kindGroupPat] at h
    cases hf : rows.find? (fun r => r.1 == t.kind) with
    | none => rw [hf] at h; cases h
    | some r => rw [hf] at h; exact hr r (List.mem_of_find?_eq_some hf) src _ h

/-- every real leaf: none of them has a loop that could run out of fuel (`WhitespacePattern`, `NominalPhrase` are structural
recursions over the slice; `WithinEditDistance` runs the two `for` loops of `edit_distance_min_alloc`, `SplitCompoundWord` a
three-element `SequencePattern`) -/
theorem leaf_nf (env : Env) : (l : Leaf) → NF (l.matcher env)
  | .kind _ _ => tokAtom_nf _
  | .strict _ => tokAtom_nf _
  | .punctIs _ => tokAtom_nf _
  | .numberIs _ _ _ => tokAtom_nf _
  | .exactWord w => tokAtomE_nf _ (exactWordTest_nf w)
  | .anyCap w => anyCapAtom_nf w
  | .wordSet ws => wordSetAtom_nf ws
  | .withinEdit w d => withinEdit_nf env w d
  | .whitespace => whitespaceAtom_nf
  | .any => anyAtom_nf
  | .nominalPhrase => nominalPhrase_nf env
  | .impliesQuantity => impliesQuantity_nf env
  | .splitCompound bit => splitCompound_nf env bit
  | .closure c => tokAtomE_nf _ (closureTest_nf env c)

mutual
/-- **no tree over the real leaves can hang**, on any source and any token list -/
theorem matcher_nf (env : Env) : (p : RPat) → NF (p.matcher env)
  | .leaf l => by rw [RPat.matcher]; exact leaf_nf env l
  | .seq ps => by rw [RPat.matcher]; exact seqPat_nf _ (matchers_nf env ps)
  | .rep p req => by rw [RPat.matcher]; exact repPat_nf _ (matcher_nf env p) req
  | .either ps => by rw [RPat.matcher]; exact eitherPat_nf _ (matchers_nf env ps)
  | .all ps => by rw [RPat.matcher]; exact allPat_nf _ (matchers_nf env ps)
  | .invert p => by rw [RPat.matcher]; exact invertPat_nf _ (matcher_nf env p)
  | .consumes p => by rw [RPat.matcher]; exact consumesPat_nf _ (matcher_nf env p)
  | .first ps => by rw [RPat.matcher]; exact firstPat_nf _ (matchers_nf env ps)
  | .similar a b => by rw [RPat.matcher]; exact similarPat_nf _ _ (matcher_nf env a) (matcher_nf env b)
  | .notTitleCase p => by rw [RPat.matcher]; exact notTitleCasePat_nf env _ (matcher_nf env p)
  | .wordGroup rows => by rw [RPat.matcher]; exact wordGroupPat_nf _ (wrows_nf env rows)
  | .kindGroup rows => by rw [RPat.matcher]; exact kindGroupPat_nf _ (krows_nf env rows)
theorem matchers_nf (env : Env) : (ps : RPats) → ∀ m ∈ RPats.matchers env ps, NF m
  | .nil => by intro m hm; simp [RPats.matchers] at hm
  | .cons p ps => by
    intro m hm
    simp only [RPats.matchers, List.mem_cons] at hm
    rcases hm with rfl | hm
    · exact matcher_nf env p
    · exact matchers_nf env ps m hm
theorem wrows_nf (env : Env) : (rows : WRows) → ∀ r ∈ WRows.rows env rows, NF r.2
  | .nil => by intro r hr; simp [WRows.rows] at hr
  | .cons w p rest => by
    intro r hr
    simp only [WRows.rows, List.mem_cons] at hr
    rcases hr with rfl | hr
    · exact matcher_nf env p
    · exact wrows_nf env rest r hr
theorem krows_nf (env : Env) : (rows : KRows) → ∀ r ∈ KRows.rows env rows, NF r.2
  | .nil => by intro r hr; simp [KRows.rows] at hr
  | .cons k p rest => by
    intro r hr
    simp only [KRows.rows, List.mem_cons] at hr
    rcases hr with rfl | hr
    · exact matcher_nf env p
    · exact krows_nf env rest r hr
end

/-! ### the iteration bound of `RepeatingPattern` -/

/-- **fuel beyond `ts.length + 1` is never touched**: two runs of the loop with any two fuels above the slice length agree —
for ANY child (the loop itself refuses an answer longer than the slice) -/
theorem repGo_fuel_irrelevant (inner : Matcher) (req : Nat) (src : List Char) :
    ∀ (fuel fuel' cursor rep : Nat) (ts : List Tok), ts.length < fuel → ts.length < fuel' →
      repGo inner req src fuel cursor rep ts = repGo inner req src fuel' cursor rep ts := by
  intro fuel
  induction fuel with
  | zero => intro _ _ _ ts hf; omega
  | succ fuel ih =>
    intro fuel' cursor rep ts hf hf'
    cases fuel' with
    | zero => omega
    | succ fuel' =>
      simp only [repGo]
      cases hp : inner src ts with
      | error e => rfl
      | ok k =>
        simp only []
        split
        · rfl
        · split
          · rfl
          · apply ih <;> simp only [List.length_drop] <;> omega

/-- a result other than "out of fuel" is not changed by more fuel -/
theorem repGo_fuel_mono (inner : Matcher) (req : Nat) (src : List Char) :
    ∀ (fuel extra cursor rep : Nat) (ts : List Tok), repGo inner req src fuel cursor rep ts ≠ .error .outOfFuel →
      repGo inner req src (fuel + extra) cursor rep ts = repGo inner req src fuel cursor rep ts := by
  intro fuel
  induction fuel with
  | zero => intro _ _ _ ts h; exact absurd rfl h
  | succ fuel ih =>
    intro extra cursor rep ts h
    rw [show fuel + 1 + extra = (fuel + extra) + 1 by omega]
    simp only [repGo] at h ⊢
    cases hp : inner src ts with
    | error e => rfl
    | ok k =>
      rw [hp] at h
      simp only [] at h ⊢
      split
      · rfl
      · rename_i h0
        rw [if_neg h0] at h
        split
        · rfl
        · rename_i h1
          rw [if_neg h1] at h
          exact ih _ _ _ _ h

/-- **what the loop can end with, under the contract of the child** (`MC`, which `matcher_mc` proves of every tree): with fuel
above the slice length it returns a count inside the slice, or the very panic the child raised on some suffix of the slice —
nothing of its own (no slice panic, no hang) -/
theorem repGo_outcome (inner : Matcher) (hc : MC inner) (req : Nat) (src : List Char) :
    ∀ (fuel cursor rep : Nat) (ts : List Tok), ts.length < fuel →
      (∃ n, repGo inner req src fuel cursor rep ts = .ok n ∧ n ≤ cursor + ts.length) ∨
      (∃ e k, repGo inner req src fuel cursor rep ts = .error e ∧ k ≤ ts.length ∧ inner src (ts.drop k) = .error e) := by
  intro fuel
  induction fuel with
  | zero => intro _ _ ts hf; omega
  | succ fuel ih =>
    intro cursor rep ts hf
    simp only [repGo]
    cases hp : inner src ts with
    | error e => exact .inr ⟨e, 0, rfl, Nat.zero_le _, by simpa using hp⟩
    | ok k =>
      simp only []
      have hk := hc src ts k hp
      split
      · refine .inl ⟨_, rfl, ?_⟩
        split <;> omega
      · rw [if_neg (by omega)]
        rcases ih (cursor + k) (rep + 1) (ts.drop k) (by simp only [List.length_drop]; omega) with ⟨n, h1, h2⟩ | ⟨e, j, h1, h2, h3⟩
        · refine .inl ⟨n, h1, ?_⟩
          simp only [List.length_drop] at h2
          omega
        · refine .inr ⟨e, k + j, h1, ?_, ?_⟩
          · simp only [List.length_drop] at h2
            omega
          · rw [List.drop_drop] at h3
            exact h3

theorem repGo_ge (inner : Matcher) (req : Nat) (src : List Char) :
    ∀ (fuel cursor rep : Nat) (ts : List Tok) (n : Nat), repGo inner req src fuel cursor rep ts = .ok n → n ≠ 0 → cursor ≤ n := by
  intro fuel
  induction fuel with
  | zero => intro _ _ _ _ h; cases h
  | succ fuel ih =>
    intro cursor rep ts n h hn
    simp only [repGo] at h
    cases hp : inner src ts with
    | error e => rw [hp] at h; cases h
    | ok k =>
      rw [hp] at h
      simp only [] at h
      split at h
      · simp only [Except.ok.injEq] at h
        subst h
        split at hn <;> simp_all
      · split at h
        · cases h
        · have := ih _ _ _ _ h hn
          omega

/-- **an output-sensitive bound**: a non-zero answer `n` is reached within `n - cursor + 1` iterations (every iteration but the
last consumes a token of the `n - cursor` it adds) — for ANY child -/
theorem repGo_fuel_by_result (inner : Matcher) (req : Nat) (src : List Char) :
    ∀ (fuel cursor rep : Nat) (ts : List Tok) (n : Nat), repGo inner req src fuel cursor rep ts = .ok n → n ≠ 0 →
      repGo inner req src (n - cursor + 1) cursor rep ts = .ok n := by
  intro fuel
  induction fuel with
  | zero => intro _ _ _ _ h; cases h
  | succ fuel ih =>
    intro cursor rep ts n h hn
    have hge := repGo_ge inner req src _ _ _ _ n h hn
    simp only [repGo] at h ⊢
    cases hp : inner src ts with
    | error e => rw [hp] at h; cases h
    | ok k =>
      rw [hp] at h
      simp only [] at h ⊢
      split
      · rename_i h0; rw [if_pos h0] at h; exact h
      · rename_i h0
        rw [if_neg h0] at h
        split
        · rename_i h1; rw [if_pos h1] at h; exact h
        · rename_i h1
          rw [if_neg h1] at h
          have h2 := ih _ _ _ _ h hn
          have hge' := repGo_ge inner req src _ _ _ _ n h hn
          have := repGo_fuel_mono inner req src (n - (cursor + k) + 1) (k - 1) (cursor + k) (rep + 1) (ts.drop k) (by rw [h2]; intro hh; cases hh)
          rw [h2] at this
          rw [show n - cursor = n - (cursor + k) + 1 + (k - 1) by omega]
          exact this

/-! ### `run_on_chunk`, `find_all_matches`, `condense_pattern` -/

/-- `run_on_chunk` has no fuel of its own (the cursor is the recursion): it reports a hang only if the pattern or
`match_to_lint` does -/
theorem runOnChunkGo_nf (m : Matcher) (hm : NF m) (f : List Char → List Tok → Except Panic (List RuleLint)) (src : List Char)
    (hf : ∀ l, f src l ≠ .error .outOfFuel) :
    ∀ (ts : List Tok) (skip : Nat), runOnChunkGo m f src skip ts ≠ .error .outOfFuel := by
  intro ts
  induction ts with
  | nil => intro skip h; cases skip <;> cases h
  | cons t ts ih =>
    intro skip h
    cases skip with
    | succ s => simp only [runOnChunkGo] at h; exact ih s h
    | zero =>
      simp only [runOnChunkGo] at h
      cases hp : m src (t :: ts) with
      | error e => rw [hp] at h; cases h; exact hm _ _ hp
      | ok n =>
        rw [hp] at h
        simp only [] at h
        split at h
        · exact ih 0 h
        · split at h
          · cases h
          · cases hl : f src ((t :: ts).take n) with
            | error e => rw [hl] at h; cases h; exact hf _ hl
            | ok l =>
              rw [hl] at h
              simp only [] at h
              cases hr : runOnChunkGo m f src (n - 1) ts with
              | error e => rw [hr] at h; cases h; exact ih _ hr
              | ok r => rw [hr] at h; cases h

theorem collectE_nf {α} (f : α → Except Panic (List RuleLint)) : ∀ (xs : List α), (∀ x ∈ xs, f x ≠ .error .outOfFuel) →
    collectE f xs ≠ .error .outOfFuel := by
  intro xs
  induction xs with
  | nil => intro _ h; cases h
  | cons x xs ih =>
    intro hx h
    simp only [collectE] at h
    cases h1 : f x with
    | error e => rw [h1] at h; cases h; exact hx x (by simp) h1
    | ok a =>
      rw [h1] at h
      simp only [] at h
      cases h2 : collectE f xs with
      | error e => rw [h2] at h; cases h; exact ih (fun y hy => hx y (List.mem_cons_of_mem _ hy)) h2
      | ok b => rw [h2] at h; cases h

theorem mapPhraseMatch_nf (env : Env) (forms : List (List Char)) (src : List Char) (m : List Tok) :
    mapPhraseMatch env forms src m ≠ .error .outOfFuel := by
  intro h
  simp only [mapPhraseMatch] at h
  split at h
  · cases h
  · split at h
    · rename_i e hc; cases h; exact getContent_nf _ _ hc
    · cases h

theorem lookupRow_nf (env : Env) (src : List Char) (m : List Tok) : ∀ rows : List PNRow,
    lookupRow env src m rows ≠ .error .outOfFuel := by
  intro rows
  induction rows with
  | nil => intro h; cases h
  | cons r rest ih =>
    intro h
    simp only [lookupRow] at h
    cases hp : r.pat.matcher env src m with
    | error e => rw [hp] at h; cases h; exact matcher_nf env _ _ _ hp
    | ok n =>
      rw [hp] at h
      simp only [] at h
      split at h
      · cases h
      · exact ih h

theorem zipBroken_nf (src : List Char) : ∀ (m : List Tok) (cs : List (List Char)), zipBroken src m cs ≠ .error .outOfFuel := by
  intro m
  induction m with
  | nil => intro cs h; simp only [zipBroken] at h; cases h
  | cons t ts ih =>
    intro cs h
    cases cs with
    | nil => simp only [zipBroken] at h; cases h
    | cons c cs =>
      simp only [zipBroken] at h
      cases hc : t.span.getContent src with
      | error e => rw [hc] at h; cases h; exact getContent_nf _ _ hc
      | ok txt =>
        rw [hc] at h
        simp only [] at h
        split at h
        · cases h
        · exact ih _ h

theorem properNounMatch_nf (env : Env) (rows : List PNRow) (src : List Char) (m : List Tok) :
    properNounMatch env rows src m ≠ .error .outOfFuel := by
  intro h
  simp only [properNounMatch] at h
  cases hl : lookupRow env src m rows with
  | error e => rw [hl] at h; cases h; exact lookupRow_nf _ _ _ _ hl
  | ok o =>
    rw [hl] at h
    cases o with
    | none => cases h
    | some r =>
      simp only [] at h
      cases hz : zipBroken src m r.contents with
      | error e => rw [hz] at h; cases h; exact zipBroken_nf _ _ _ hz
      | ok b =>
        rw [hz] at h
        cases b with
        | false => cases h
        | true =>
          simp only [] at h
          split at h <;> cases h

theorem foundFrom_nf (m : Matcher) (hm : NF m) (src : List Char) : ∀ (ts : List Tok) (i : Nat),
    foundFrom m src i ts ≠ .error .outOfFuel := by
  intro ts
  induction ts with
  | nil => intro i h; cases h
  | cons t ts ih =>
    intro i h
    simp only [foundFrom] at h
    cases hp : m src (t :: ts) with
    | error e => rw [hp] at h; cases h; exact hm _ _ hp
    | ok n =>
      rw [hp] at h
      simp only [] at h
      cases hr : foundFrom m src (i + 1) ts with
      | error e => rw [hr] at h; cases h; exact ih _ hr
      | ok rest => rw [hr] at h; cases h

theorem findAllMatches_nf (m : Matcher) (hm : NF m) (src : List Char) (ts : List Tok) :
    findAllMatches m src ts ≠ .error .outOfFuel := by
  intro h
  simp only [findAllMatches] at h
  cases hr : foundFrom m src 0 ts with
  | error e => rw [hr] at h; cases h; exact foundFrom_nf m hm src _ _ hr
  | ok found =>
    rw [hr] at h
    simp only [] at h
    split at h <;> cases h

theorem condLoop_nf (edit : Kind → Kind) : ∀ (ms : List Span) (ts : List Tok) (rem : List Nat),
    condLoop edit ms ts rem ≠ .error .outOfFuel := by
  intro ms
  induction ms with
  | nil => intro ts rem h; cases h
  | cons m ms ih =>
    intro ts rem h
    simp only [condLoop] at h
    cases hs : sliceE ts m.start m.stop with
    | error e => rw [hs] at h; cases h; exact sliceE_nf _ _ _ hs
    | ok slice =>
      rw [hs] at h
      simp only [] at h
      split at h
      · exact ih _ _ h
      · split at h
        · cases h
        · split at h
          · cases h
          · exact ih _ _ h

theorem condensePattern_nf (m : Matcher) (hm : NF m) (edit : Kind → Kind) (src : List Char) (ts : List Tok) :
    condensePattern m edit src ts ≠ .error .outOfFuel := by
  intro h
  simp only [condensePattern] at h
  cases hf : findAllMatches m src ts with
  | error e => rw [hf] at h; cases h; exact findAllMatches_nf m hm src _ hf
  | ok ms =>
    rw [hf] at h
    simp only [] at h
    cases hc : condLoop edit ms ts [] with
    | error e => rw [hc] at h; cases h; exact condLoop_nf _ _ _ _ hc
    | ok r => rw [hc] at h; cases h

/-! ### the patterns of `condense_contractions`, `condense_ellipsis`, `condense_latin` -/

theorem contractionPat_nf : NF contractionPat :=
  seqPat_nf _ (by
    intro p hp
    simp only [List.mem_cons, List.mem_nil_iff, or_false] at hp
    rcases hp with rfl | rfl | rfl <;> exact kindAtom_nf _)

theorem ellipsisPat_nf : NF ellipsisPat :=
  repPat_nf _ (seqPat_nf _ (by
    intro p hp
    simp only [List.mem_cons, List.mem_nil_iff, or_false] at hp
    subst hp
    exact kindAtom_nf _)) 2

theorem latinPat_nf : NF latinPat :=
  eitherPat_nf _ (by
    intro p hp
    simp only [List.mem_cons, List.mem_nil_iff, or_false] at hp
    rcases hp with rfl | rfl
    · apply seqPat_nf
      intro q hq
      simp only [List.mem_cons, List.mem_nil_iff, or_false] at hq
      rcases hq with rfl | rfl
      · exact wordSetAtom_nf _
      · exact kindAtom_nf _
    · apply seqPat_nf
      intro q hq
      simp only [List.mem_cons, List.mem_nil_iff, or_false] at hq
      rcases hq with rfl | rfl | rfl | rfl
      · exact anyCapAtom_nf _
      · exact whitespaceAtom_nf
      · exact anyCapAtom_nf _
      · exact kindAtom_nf _)

end noFuel
end Harper.Leaves
