import Harper.Model.NumberSuffix
/-!
# Helper lemmas for C17 (ordinal suffixes)

Specification-side definitions (the English rule on written digits, the sixteen spellings) and the
lemmas that connect the regenerated tables to them. Every `decide` here is over a complete finite
table (the extracted arms / rows) or a bounded range of digits.
-/
namespace Harper
open Harper.Tables.NumberSuffix

/-! ### Specification side: the English rule, on the digits as written -/

/-- big-endian decimal value of a digit string (leading zeros allowed) -/
def ofDigits (ds : List Nat) : Nat := ds.foldl (fun a d => 10 * a + d) 0

/-- the English ordinal suffix, from the tens digit `t` and the last digit `o` -/
def ordinalOfLast (t o : Nat) : Suffix :=
  if t = 1 then .th
  else match o with
    | 1 => .st
    | 2 => .nd
    | 3 => .rd
    | _ => .th

/-- the English ordinal suffix of a written decimal number: tens digit 1 ⇒ `th`, otherwise by the
last digit; a single digit has no tens digit. Leading zeros are digits like any other. -/
def ordinalOfDigits (ds : List Nat) : Suffix :=
  match ds.reverse with
  | [] => .th
  | [o] => ordinalOfLast 0 o
  | o :: t :: _ => ordinalOfLast t o

/-- the letters of a suffix, written down independently of `to_chars` -/
def suffixLetters : Suffix → List Char
  | .th => ['t', 'h']
  | .st => ['s', 't']
  | .nd => ['n', 'd']
  | .rd => ['r', 'd']

/-- the four case variants of a two-letter word -/
def caseVariants (w : List Char) : List (List Char) :=
  match w with
  | [a, b] => [[a, b], [a.toUpper, b], [a, b.toUpper], [a.toUpper, b.toUpper]]
  | _ => []

/-- "one of st/nd/rd/th in any letter case": the sixteen spellings with the suffix they spell -/
def suffixSpellings : List (List Char × Suffix) :=
  [Suffix.th, .st, .nd, .rd].flatMap fun s => (caseVariants (suffixLetters s)).map fun w => (w, s)

/-- The span of a written ordinal: digits `ds` starting at character `p`, directly followed by two
letters. (`ruleOnWritten` takes the value, the letters and this span.) -/
def writtenSpan (p : Nat) (ds : List Nat) : Span := ⟨p, p + ds.length + 2⟩

/-! ### `ofDigits` -/

theorem ofDigits_append_two (pre : List Nat) (t o : Nat) :
    ofDigits (pre ++ [t, o]) = 100 * ofDigits pre + 10 * t + o := by
  simp only [ofDigits, List.foldl_append, List.foldl_cons, List.foldl_nil]
  omega

theorem ofDigits_single (o : Nat) : ofDigits [o] = o := by simp [ofDigits]

theorem ordinalOfDigits_append_two (pre : List Nat) (t o : Nat) :
    ordinalOfDigits (pre ++ [t, o]) = ordinalOfLast t o := by
  simp [ordinalOfDigits]

/-- a digit string of length ≥ 2 is `pre ++ [t, o]` -/
theorem eq_append_two_of_reverse {α} {ds : List α} {o t : α} {r : List α}
    (h : ds.reverse = o :: t :: r) : ds = r.reverse ++ [t, o] := by
  have := congrArg List.reverse h
  simpa using this

/-! ### The regenerated tables against the English rule -/

/-- the moduli the code uses are 100 and 10 -/
theorem mods_eq : teensMod = 100 ∧ lastDigitMod = 10 := by decide

/-- `correct_suffix_for` only looks at `n % 100` and `n % 10` -/
theorem correctSuffixFor_of_mods (n r d : Nat) (hr : n % teensMod = r) (hd : n % lastDigitMod = d) :
    correctSuffixFor n =
      (if teensLo ≤ r ∧ r ≤ teensHi then teensResult else lastDigitLookup d) := by
  simp only [correctSuffixFor, hr, hd]

/-- THE TABLE CHECK: for every tens digit and last digit, the extracted arms give the English
suffix. (100 closed instances; breaks when an arm of `correct_suffix_for` changes meaning.) -/
theorem arms_spec : ∀ t, t < 10 → ∀ o, o < 10 →
    (if teensLo ≤ 10 * t + o ∧ 10 * t + o ≤ teensHi then teensResult else lastDigitLookup o)
      = some (ordinalOfLast t o) := by
  decide

/-- the core step: the code's `% 100` / `% 10` arithmetic on `100·m + 10·t + o` -/
theorem correctSuffixFor_core (m t o : Nat) (ht : t < 10) (ho : o < 10) :
    correctSuffixFor (100 * m + 10 * t + o) = some (ordinalOfLast t o) := by
  have h100 : (100 * m + 10 * t + o) % teensMod = 10 * t + o := by
    rw [mods_eq.1]; omega
  have h10 : (100 * m + 10 * t + o) % lastDigitMod = o := by
    rw [mods_eq.2]; omega
  rw [correctSuffixFor_of_mods _ _ _ h100 h10]
  exact arms_spec t ht o ho

/-- `to_chars` gives the letters of the suffix (in whatever letter case the code chooses) -/
theorem toChars_eq_letters (s : Suffix) : (toChars s).map Char.toLower = suffixLetters s := by
  cases s <;> decide

/-- `from_chars (to_chars s) = Some(s)` and it is two letters long -/
theorem condense_toChars (s : Suffix) : condenseSuffix (toChars s) = .ok (some s) := by
  cases s <;> rfl

theorem toChars_length (s : Suffix) : (toChars s).length = 2 := by
  cases s <;> decide

/-- `r = .ok (some s)` as a Boolean (there is no `DecidableEq (Except ..)` in core) -/
def isOkSome (r : Except Panic (Option Suffix)) (s : Suffix) : Bool :=
  match r with
  | .ok (some s') => s' == s
  | _ => false

theorem isOkSome_iff {r : Except Panic (Option Suffix)} {s : Suffix} :
    isOkSome r s = true ↔ r = .ok (some s) := by
  unfold isOkSome
  split <;> simp_all

/-- all sixteen spellings are read as the suffix they spell -/
theorem condense_spellings : ∀ p ∈ suffixSpellings, condenseSuffix p.1 = .ok (some p.2) := by
  have h : ∀ p ∈ suffixSpellings, isOkSome (condenseSuffix p.1) p.2 = true := by decide
  exact fun p hp => isOkSome_iff.mp (h p hp)

/-- every row of `from_chars` is one of the sixteen spellings -/
theorem rows_are_spellings :
    ∀ r ∈ fromCharsRows, ([r.1, r.2.1], r.2.2) ∈ suffixSpellings := by
  decide

theorem fromCharsMinLen_eq : fromCharsMinLen = 2 := by decide

/-- `from_chars` on exactly two characters: never panics, and is the row lookup -/
theorem fromChars_two (a b : Char) : fromChars [a, b] = .ok (fromCharsRow a b) := by
  simp [fromChars, fromCharsMinLen_eq]

/-- a successful row lookup returns a row -/
theorem fromCharsRow_mem {a b : Char} {s : Suffix} (h : fromCharsRow a b = some s) :
    (a, b, s) ∈ fromCharsRows := by
  unfold fromCharsRow at h
  cases hf : fromCharsRows.find? (fun r => r.1 == a && r.2.1 == b) with
  | none => simp [hf] at h
  | some r =>
    simp [hf] at h
    have hm := List.mem_of_find?_eq_some hf
    have hp := List.find?_some hf
    simp at hp
    obtain ⟨r1, r2, r3⟩ := r
    simp at hp h
    obtain ⟨rfl, rfl⟩ := hp
    subst h
    exact hm

/-- `condense_number_suffixes` never panics -/
theorem condenseSuffix_ok (w : List Char) : ∃ r, condenseSuffix w = .ok r := by
  unfold condenseSuffix
  split
  · exact ⟨_, rfl⟩
  · rename_i h
    match w, h with
    | [a, b], _ => exact ⟨_, fromChars_two a b⟩
    | [], h => simp at h
    | [_], h => simp at h
    | _ :: _ :: _ :: _, h => simp at h

/-! ### The rule on a token -/

theorem suffixSpan_of_le (sp : Span) (h : 2 ≤ sp.stop) :
    suffixSpan sp = some ⟨sp.stop - 2, sp.stop⟩ := by
  have : ¬ (2 > sp.stop) := by omega
  simp [suffixSpan, Span.withLen, Span.pulledBy, this]

/-- what `lintNumber` does once the token has a suffix, an integer value whose correct suffix is
`c`, and at least two characters before its end -/
theorem lintNumber_int (n : Nat) (s c : Suffix) (sp : Span) (h2 : 2 ≤ sp.stop)
    (hc : correctSuffixFor n = some c) :
    lintNumber ⟨.int n, some s, sp⟩ =
      if s ≠ c then some ⟨⟨sp.stop - 2, sp.stop⟩, toChars c⟩ else none := by
  simp only [lintNumber, suffixSpan_of_le sp h2, correctSuffixForVal, hc]

end Harper
