import Harper.Lemmas.CondensePats
import Harper.Lemmas.LexAppend
import Harper.Lemmas.LexShape
import Harper.Lemmas.Chunks
/-! `document_append`: no condensing pass of `Document::parse` merges across a paragraph break;
every pass commutes with moving the tokens (and the text under them). -/
namespace Harper

/-! # `document_append`: no condensing pass merges across a paragraph break -/

/-! ## shifting -/

def shiftTok (k : Nat) (t : Tok) : Tok := ⟨⟨t.span.start + k, t.span.stop + k⟩, t.kind⟩

theorem shiftToks_eq_map (k : Nat) (ts : List Tok) : shiftToks k ts = ts.map (shiftTok k) := rfl

def shiftFlagged (k : Nat) (l : List (Tok × Bool)) : List (Tok × Bool) := l.map fun p => (shiftTok k p.1, p.2)

def shiftMode (k : Nat) : RunMode → RunMode
  | .scan => .scan
  | .absorb s n held => .absorb ⟨s.start + k, s.stop + k⟩ n (shiftFlagged k held)

theorem unflag_shiftFlagged (k : Nat) (l : List (Tok × Bool)) :
    unflag (shiftFlagged k l) = shiftToks k (unflag l) := by
  induction l with
  | nil => rfl
  | cons p l ih =>
    obtain ⟨t, b⟩ := p
    cases b
    · simp only [shiftFlagged, List.map_cons, unflag_cons_false] at ih ⊢
      rw [ih]; rfl
    · simp only [shiftFlagged, List.map_cons, unflag_cons_true] at ih ⊢
      exact ih

theorem runGo_shift (cfg : RunCfg) (k : Nat) (toks : List Tok) (mode : RunMode) :
    runGo cfg (shiftMode k mode) (shiftToks k toks) = shiftFlagged k (runGo cfg mode toks) := by
  induction toks generalizing mode with
  | nil =>
    cases mode <;> simp [runGo, shiftMode, shiftToks, shiftFlagged, shiftTok]
  | cons c r ih =>
    cases mode with
    | scan =>
      simp only [shiftMode, shiftToks, List.map_cons, runGo]
      cases hs : cfg.sel c.kind with
      | none =>
        have := ih .scan
        simp only [shiftMode, shiftToks] at this
        simp [this, shiftFlagged, shiftTok]
      | some n =>
        have := ih (.absorb c.span n [])
        simp only [shiftMode, shiftToks, shiftFlagged, List.map_nil] at this
        simp only [this]; rfl
    | absorb s n held =>
      simp only [shiftMode, shiftToks, List.map_cons, runGo]
      have hadj : (s.stop + k != c.span.start + k) = (s.stop != c.span.start) := by
        by_cases h : s.stop = c.span.start
        · rw [h]; simp
        · have h2 : s.stop + k ≠ c.span.start + k := by omega
          rw [bne_iff_ne.mpr h, bne_iff_ne.mpr h2]
      rw [hadj]
      have hemit : ((⟨⟨s.start + k, s.stop + k⟩, cfg.mkKind n⟩, false) ::
          ((shiftFlagged k held).reverse ++ ((⟨⟨c.span.start + k, c.span.stop + k⟩, c.kind⟩, false) ::
            runGo cfg .scan (List.map (fun t => ⟨⟨t.span.start + k, t.span.stop + k⟩, t.kind⟩) r)))) =
          shiftFlagged k ((⟨s, cfg.mkKind n⟩, false) :: (held.reverse ++ (c, false) :: runGo cfg .scan r)) := by
        have := ih .scan
        simp only [shiftMode, shiftToks] at this
        simp [this, shiftFlagged, shiftTok]
      split
      · exact hemit
      · cases hs : cfg.sel c.kind with
        | none => exact hemit
        | some m =>
          simp only
          have := ih (.absorb ⟨s.start, c.span.stop⟩ (n + m) ((c, true) :: held))
          simp only [shiftMode, shiftToks, shiftFlagged, List.map_cons, shiftTok] at this
          exact this

theorem condenseSpaces_shift (k : Nat) (toks : List Tok) :
    condenseSpaces (shiftToks k toks) = shiftToks k (condenseSpaces toks) := by
  unfold condenseSpaces
  rw [dropFlagged_eq, dropFlagged_eq, ← unflag_shiftFlagged, ← runGo_shift]; rfl

theorem condenseNewlines_shift (k : Nat) (toks : List Tok) :
    condenseNewlines (shiftToks k toks) = shiftToks k (condenseNewlines toks) := by
  unfold condenseNewlines
  rw [dropFlagged_eq, dropFlagged_eq, ← unflag_shiftFlagged, ← runGo_shift]; rfl

theorem newlinesToBreaks_shift (k : Nat) (toks : List Tok) :
    newlinesToBreaks (shiftToks k toks) = shiftToks k (newlinesToBreaks toks) := by
  simp [newlinesToBreaks, shiftToks]

end Harper

namespace Harper

/-! ## `condense_spaces` / `condense_newlines` at a barrier -/

/-- the next token does not continue a run -/
def HeadNotSel (cfg : RunCfg) (Y : List Tok) : Prop := ∀ c r, Y = c :: r → cfg.sel c.kind = none

theorem runGo_scan_head (cfg : RunCfg) (c : Tok) (r : List Tok) (h : cfg.sel c.kind = none) :
    runGo cfg .scan (c :: r) = (c, false) :: runGo cfg .scan r := by
  simp [runGo, h]

theorem runGo_absorb_stop (cfg : RunCfg) (s : Span) (n : Nat) (held : List (Tok × Bool)) (c : Tok)
    (r : List Tok) (h : cfg.sel c.kind = none) :
    runGo cfg (.absorb s n held) (c :: r) =
      (⟨s, cfg.mkKind n⟩, false) :: (held.reverse ++ (c, false) :: runGo cfg .scan r) := by
  simp only [runGo, h]
  split <;> rfl

/-- a barrier token that is not part of any run: whatever follows it -/
theorem runGo_barrier (cfg : RunCfg) (brk : Tok) (hb : cfg.sel brk.kind = none) (Y : List Tok)
    (X : List Tok) (mode : RunMode) :
    runGo cfg mode (X ++ brk :: Y) = runGo cfg mode X ++ (brk, false) :: runGo cfg .scan Y := by
  induction X generalizing mode with
  | nil =>
    cases mode with
    | scan => simp [runGo, hb]
    | absorb s n held => rw [List.nil_append, runGo_absorb_stop cfg s n held brk Y hb]; simp [runGo]
  | cons a X ih =>
    cases mode with
    | scan =>
      simp only [List.cons_append, runGo]
      split
      · exact ih _
      · rw [ih]; rfl
    | absorb s n held =>
      simp only [List.cons_append, runGo]
      split
      · rw [ih]; simp
      · split
        · exact ih _
        · rw [ih]; simp

/-- a run simply ends where the next token does not continue it -/
theorem runGo_split (cfg : RunCfg) (Y : List Tok) (hY : HeadNotSel cfg Y)
    (A : List Tok) :
    (runGo cfg .scan (A ++ Y) = runGo cfg .scan A ++ runGo cfg .scan Y) ∧
    (∀ s n held, runGo cfg (.absorb s n held) (A ++ Y) = runGo cfg (.absorb s n held) A ++ runGo cfg .scan Y) := by
  induction A with
  | nil =>
    refine ⟨by simp [runGo], ?_⟩
    intro s n held
    cases Y with
    | nil => simp [runGo]
    | cons c r =>
      rw [List.nil_append, runGo_absorb_stop cfg s n held c r (hY c r rfl), runGo_scan_head cfg c r (hY c r rfl)]
      simp [runGo]
  | cons a A ih =>
    obtain ⟨ih1, ih2⟩ := ih
    refine ⟨?_, ?_⟩
    · simp only [List.cons_append, runGo]
      split
      · exact ih2 _ _ _
      · rw [ih1]; rfl
    · intro s n held
      simp only [List.cons_append, runGo]
      split
      · rw [ih1]; simp
      · split
        · exact ih2 _ _ _
        · rw [ih1]; simp

theorem spaces_sel_none {k : Kind} (h : k.isSpace = false) : spacesCfg.sel k = none := by
  cases k <;> simp_all [spacesCfg, Kind.isSpace]

/-- `condense_spaces` never merges across a token that is not a blank -/
theorem condenseSpaces_barrier (X Y : List Tok) (brk : Tok) (hb : brk.kind.isSpace = false) :
    condenseSpaces (X ++ brk :: Y) = condenseSpaces X ++ brk :: condenseSpaces Y := by
  unfold condenseSpaces
  simp only [dropFlagged_eq]
  rw [runGo_barrier spacesCfg brk (spaces_sel_none hb) Y X .scan]
  simp

theorem condenseNewlines_split (A Y : List Tok) (hY : ∀ c r, Y = c :: r → c.kind.isNewline = false) :
    condenseNewlines (A ++ Y) = condenseNewlines A ++ condenseNewlines Y := by
  unfold condenseNewlines
  simp only [dropFlagged_eq]
  have : HeadNotSel newlinesCfg Y := by
    intro c r h
    have := hY c r h
    cases hk : c.kind <;> simp_all [newlinesCfg, Kind.isNewline]
  rw [(runGo_split newlinesCfg Y this A).1]
  simp

end Harper

namespace Harper

theorem unflag_allFlagged {α} (l : List (α × Bool)) (h : ∀ p ∈ l, p.2 = true) : unflag l = [] := by
  induction l with
  | nil => rfl
  | cons p l ih =>
    obtain ⟨x, b⟩ := p
    have hb : b = true := h (x, b) (by simp)
    subst hb
    rw [unflag_cons_true]
    exact ih (fun q hq => h q (List.mem_cons_of_mem _ hq))

/-- ends in a `Newline(k)` token with `k ≥ 2` -/
def EndsBreak (l : List Tok) : Prop := ∃ Y b k, l = Y ++ [b] ∧ b.kind = .newline k ∧ k ≥ 2

theorem runGo_newlines_last (brk : Tok) (k : Nat) (hk : brk.kind = .newline k) (h2 : k ≥ 2) (X : List Tok) :
    EndsBreak (unflag (runGo newlinesCfg .scan (X ++ [brk]))) ∧
    (∀ s n held, (∀ p ∈ held, p.2 = true) →
      EndsBreak (unflag (runGo newlinesCfg (.absorb s n held) (X ++ [brk])))) := by
  have hsel : newlinesCfg.sel brk.kind = some k := by rw [hk]; rfl
  induction X with
  | nil =>
    refine ⟨?_, ?_⟩
    · simp only [List.nil_append, runGo, hsel]
      exact ⟨[], ⟨brk.span, .newline k⟩, k, by simp [newlinesCfg], rfl, h2⟩
    · intro s n held hh
      simp only [List.nil_append, runGo, hsel]
      have hadj : newlinesCfg.adj = false := rfl
      simp only [hadj, Bool.false_and, Bool.false_eq_true, if_false]
      refine ⟨[], ⟨⟨s.start, brk.span.stop⟩, .newline (n + k)⟩, n + k, ?_, rfl, by omega⟩
      rw [unflag_cons_false, unflag_allFlagged]
      · rfl
      · intro p hp
        simp only [List.mem_reverse, List.mem_cons] at hp
        rcases hp with rfl | hp
        · rfl
        · exact hh p hp
  | cons a X ih =>
    obtain ⟨ih1, ih2⟩ := ih
    have hadj : newlinesCfg.adj = false := rfl
    refine ⟨?_, ?_⟩
    · simp only [List.cons_append, runGo]
      split
      · exact ih2 _ _ [] (by simp)
      · obtain ⟨Y, b, k', e, hb, hk'⟩ := ih1
        exact ⟨a :: Y, b, k', by rw [unflag_cons_false, e]; rfl, hb, hk'⟩
    · intro s n held hh
      simp only [List.cons_append, runGo, hadj, Bool.false_and, Bool.false_eq_true, if_false]
      split
      · exact ih2 _ _ _ (by
          intro p hp
          rcases List.mem_cons.mp hp with rfl | hp
          · rfl
          · exact hh p hp)
      · obtain ⟨Y, b, k', e, hb, hk'⟩ := ih1
        refine ⟨⟨s, newlinesCfg.mkKind n⟩ :: a :: Y, b, k', ?_, hb, hk'⟩
        rw [unflag_cons_false, unflag_append, unflag_allFlagged _ (by simpa using hh), unflag_cons_false, e]
        rfl

theorem condenseNewlines_last (X : List Tok) (brk : Tok) (k : Nat) (hk : brk.kind = .newline k) (h2 : k ≥ 2) :
    EndsBreak (condenseNewlines (X ++ [brk])) := by
  unfold condenseNewlines
  rw [dropFlagged_eq]
  exact (runGo_newlines_last brk k hk h2 X).1

theorem newlinesToBreaks_append (A B : List Tok) :
    newlinesToBreaks (A ++ B) = newlinesToBreaks A ++ newlinesToBreaks B := by
  simp [newlinesToBreaks]

/-- after `newlines_to_breaks` the vector ends in a `ParagraphBreak` token -/
theorem newlinesToBreaks_endsBreak (l : List Tok) (h : EndsBreak l) :
    ∃ Y pb, newlinesToBreaks l = Y ++ [pb] ∧ pb.kind = .paragraphBreak := by
  obtain ⟨Y, b, k, rfl, hb, hk⟩ := h
  refine ⟨newlinesToBreaks Y, ⟨b.span, .paragraphBreak⟩, ?_, rfl⟩
  rw [newlinesToBreaks_append]
  congr 1
  simp [newlinesToBreaks, hb, breakKind, hk]

end Harper

namespace Harper

/-! ## `condense_dotted_initialisms` at a barrier -/

theorem chunk_barrier_right (a pb : Tok) (hp : pb.kind.isPeriod = false) : isInitialismChunk a pb = false := by
  simp [isInitialismChunk, hp]

theorem chunk_barrier_left (pb b : Tok) (hw : pb.kind.isWord = false) : isInitialismChunk pb b = false := by
  simp [isInitialismChunk, hw]

theorem initGo_barrier (pb : Tok) (hw : pb.kind.isWord = false) (hp : pb.kind.isPeriod = false) (Y : List Tok) :
    ∀ (n : Nat) (X : List Tok), X.length ≤ n → ∀ mode,
      initGo mode (X ++ pb :: Y) = initGo mode X ++ (pb, false) :: initGo .idle Y := by
  intro n
  induction n with
  | zero =>
    intro X hX mode
    have : X = [] := by cases X <;> simp_all
    subst this
    cases mode with
    | idle =>
      cases Y with
      | nil => simp [initGo]
      | cons y r => simp [initGo, chunk_barrier_left pb y hw]
    | inside st e held =>
      cases Y with
      | nil => simp [initGo]
      | cons y r => simp [initGo, chunk_barrier_left pb y hw]
  | succ n ih =>
    intro X hX mode
    match X, hX with
    | [], _ => exact ih [] (by simp) mode
    | [a], _ =>
      have h0 := ih [] (by simp)
      simp only [List.nil_append] at h0
      cases mode with
      | idle => simp [initGo, chunk_barrier_right a pb hp, h0]
      | inside st e held => simp [initGo, chunk_barrier_right a pb hp, h0]
    | a :: b :: X', hX =>
      have ih1 := ih X' (by simp at hX ⊢; omega)
      have ih2 := ih (b :: X') (by simp at hX ⊢; omega)
      simp only [List.cons_append] at ih2
      cases mode with
      | idle =>
        simp only [List.cons_append, initGo]
        split
        · exact ih1 _
        · rw [ih2]; rfl
      | inside st e held =>
        simp only [List.cons_append, initGo]
        split
        · exact ih1 _
        · rw [ih2]; simp

theorem dottedInitialisms_barrier (X Y : List Tok) (pb : Tok) (hw : pb.kind.isWord = false)
    (hp : pb.kind.isPeriod = false) :
    dottedInitialisms (X ++ pb :: Y) = dottedInitialisms X ++ pb :: dottedInitialisms Y := by
  unfold dottedInitialisms
  simp only [dropFlagged_eq]
  rw [initGo_barrier pb hw hp Y X.length X (Nat.le_refl _) .idle]
  simp

def shiftInitMode (k : Nat) : InitMode → InitMode
  | .idle => .idle
  | .inside st e held => .inside (shiftTok k st) (e + k) (shiftFlagged k held)

theorem chunk_shift (k : Nat) (a b : Tok) :
    isInitialismChunk (shiftTok k a) (shiftTok k b) = isInitialismChunk a b := by
  simp only [isInitialismChunk, shiftTok, Span.len]
  congr 2
  have : a.span.stop + k - (a.span.start + k) = a.span.stop - a.span.start := by omega
  rw [this]

theorem initGo_shift (k : Nat) : ∀ (n : Nat) (toks : List Tok), toks.length ≤ n → ∀ mode,
    initGo (shiftInitMode k mode) (shiftToks k toks) = shiftFlagged k (initGo mode toks) := by
  intro n
  induction n with
  | zero =>
    intro toks h mode
    have : toks = [] := by cases toks <;> simp_all
    subst this
    cases mode <;> simp [initGo, shiftInitMode, shiftToks, shiftFlagged, shiftTok]
  | succ n ih =>
    intro toks h mode
    match toks, h with
    | [], _ => exact ih [] (by simp) mode
    | [a], _ =>
      cases mode <;> simp [initGo, shiftInitMode, shiftToks, shiftFlagged, shiftTok]
    | a :: b :: rest, h =>
      have ih1 := ih rest (by simp at h ⊢; omega)
      have ih2 := ih (b :: rest) (by simp at h ⊢; omega)
      have hc := chunk_shift k a b
      simp only [shiftTok] at hc
      cases mode with
      | idle =>
        simp only [shiftInitMode, shiftToks, List.map_cons, initGo, hc]
        split
        · have := ih1 (.inside a b.span.stop [(b, true)])
          simp only [shiftInitMode, shiftToks, shiftFlagged, List.map_cons, List.map_nil, shiftTok] at this
          exact this
        · have := ih2 .idle
          simp only [shiftInitMode, shiftToks, List.map_cons] at this
          rw [this]
          simp [shiftFlagged, shiftTok]
      | inside st e held =>
        simp only [shiftInitMode, shiftToks, List.map_cons, initGo, hc]
        split
        · have := ih1 (.inside st b.span.stop ((b, true) :: (a, true) :: held))
          simp only [shiftInitMode, shiftToks, shiftFlagged, List.map_cons, shiftTok] at this
          exact this
        · have := ih2 .idle
          simp only [shiftInitMode, shiftToks, List.map_cons] at this
          rw [this]
          simp [shiftFlagged, shiftTok]

theorem dottedInitialisms_shift (k : Nat) (toks : List Tok) :
    dottedInitialisms (shiftToks k toks) = shiftToks k (dottedInitialisms toks) := by
  unfold dottedInitialisms
  rw [dropFlagged_eq, dropFlagged_eq, ← unflag_shiftFlagged]
  have := initGo_shift k toks.length toks (Nat.le_refl _) .idle
  simp only [shiftInitMode] at this
  rw [this]

end Harper

namespace Harper

/-! ## `condense_number_suffixes`, structurally -/

/-- `condense_number_suffixes` without its (redundant) length guard -/
def NS (src : List Char) (l : List Tok) : Except Panic (List Tok) :=
  match suffixScan src 0 l with
  | .error e => .error e
  | .ok (ts, idx) => condenseIndices idx 2 ts

theorem numberSuffixes_eq_NS (src : List Char) (l : List Tok) : numberSuffixes src l = NS src l := by
  unfold numberSuffixes NS
  split
  · match l with
    | [] => simp [suffixScan, condenseIndices_nil]
    | [a] => simp [suffixScan, condenseIndices_nil]
    | _ :: _ :: _ => rename_i h; simp only [List.length_cons] at h; omega
  · rfl

theorem NS_nil (src : List Char) : NS src [] = .ok [] := by simp [NS, suffixScan, condenseIndices_nil]
theorem NS_single (src : List Char) (a : Tok) : NS src [a] = .ok [a] := by
  simp [NS, suffixScan, condenseIndices_nil]

theorem NS_cons_err (src : List Char) (a b : Tok) (rest : List Tok) (e : Panic)
    (h : suffixHit src a b = .error e) : NS src (a :: b :: rest) = .error e := by
  simp [NS, suffixScan, h]

theorem NS_cons_none (src : List Char) (a b : Tok) (rest : List Tok) (h : suffixHit src a b = .ok none) :
    NS src (a :: b :: rest) = (NS src (b :: rest)).map (a :: ·) := by
  unfold NS
  rw [suffixScan, h, suffixScan_shift]
  cases suffixScan src 0 (b :: rest) with
  | error e => rfl
  | ok r =>
    obtain ⟨ts, idx⟩ := r
    simp only [Except.map]
    exact condenseIndices_cons a idx ts

theorem NS_cons_some (src : List Char) (a b : Tok) (rest : List Tok) (s : Suffix)
    (h : suffixHit src a b = .ok (some s)) :
    NS src (a :: b :: rest) =
      (NS src rest).map (⟨⟨a.span.start, b.span.stop⟩, setSuffix s a.kind⟩ :: ·) := by
  have hw := suffixHit_some src a b s h
  unfold NS
  rw [suffixScan, h, suffixScan_shift, suffixScan_word _ _ _ hw]
  cases suffixScan src 0 rest with
  | error e => rfl
  | ok r =>
    obtain ⟨ts, idx⟩ := r
    simp only [Except.map]
    have := condenseIndices_hit ⟨a.span, setSuffix s a.kind⟩ b idx ts
    rw [map_add_one_add, this]
    rfl

theorem suffixHit_barrier_right (src : List Char) (a pb : Tok) (hw : pb.kind.isWord = false) :
    suffixHit src a pb = .ok none := by simp [suffixHit, hw]

theorem suffixHit_barrier_left (src : List Char) (pb b : Tok) (hn : pb.kind.isNumber = false) :
    suffixHit src pb b = .ok none := by simp [suffixHit, hn]

theorem NS_barrier (src : List Char) (pb : Tok) (hw : pb.kind.isWord = false) (hn : pb.kind.isNumber = false)
    (Y y : List Tok) (hy : NS src Y = .ok y) :
    ∀ (n : Nat) (X x : List Tok), X.length ≤ n → NS src X = .ok x → NS src (X ++ pb :: Y) = .ok (x ++ pb :: y) := by
  have hpbY : NS src (pb :: Y) = .ok (pb :: y) := by
    cases Y with
    | nil => rw [NS_nil] at hy; cases hy; exact NS_single src pb
    | cons y0 r => rw [NS_cons_none src pb y0 r (suffixHit_barrier_left src pb y0 hn), hy]; rfl
  intro n
  induction n with
  | zero =>
    intro X x hX hx
    have : X = [] := by cases X <;> simp_all
    subst this
    rw [NS_nil] at hx; cases hx
    exact hpbY
  | succ n ih =>
    intro X x hX hx
    match X, hX with
    | [], _ => exact ih [] x (by simp) hx
    | [a], _ =>
      rw [NS_single] at hx; cases hx
      simp only [List.cons_append, List.nil_append]
      rw [NS_cons_none src a pb Y (suffixHit_barrier_right src a pb hw), hpbY]; rfl
    | a :: b :: X', hX =>
      simp only [List.cons_append]
      cases hh : suffixHit src a b with
      | error e => rw [NS_cons_err src a b X' e hh] at hx; cases hx
      | ok hit =>
        cases hit with
        | none =>
          rw [NS_cons_none src a b X' hh] at hx
          rw [NS_cons_none src a b _ hh]
          cases hx' : NS src (b :: X') with
          | error e => rw [hx'] at hx; cases hx
          | ok x' =>
            rw [hx'] at hx
            cases hx
            have := ih (b :: X') x' (by simp at hX ⊢; omega) hx'
            simp only [List.cons_append] at this
            rw [this]; rfl
        | some s =>
          rw [NS_cons_some src a b X' s hh] at hx
          rw [NS_cons_some src a b _ s hh]
          cases hx' : NS src X' with
          | error e => rw [hx'] at hx; cases hx
          | ok x' =>
            rw [hx'] at hx
            cases hx
            rw [ih X' x' (by simp at hX ⊢; omega) hx']; rfl

theorem getContent_shift {α} (P D : List α) (s : Span) :
    (⟨s.start + P.length, s.stop + P.length⟩ : Span).getContent (P ++ D) = s.getContent D := by
  unfold Span.getContent
  simp only [List.length_append]
  by_cases h1 : s.start > s.stop
  · rw [if_pos (by omega), if_pos h1]
  · rw [if_neg (by omega), if_neg h1]
    by_cases h2 : s.start ≥ D.length ∨ s.stop > D.length
    · rw [if_pos (by omega), if_pos h2]
      by_cases h3 : s.stop = s.start
      · simp [h3]
      · have : ¬ (s.stop + P.length = s.start + P.length) := by omega
        simp [h3, this]
    · rw [if_neg (by omega), if_neg h2]
      have hd : (P ++ D).drop (s.start + P.length) = D.drop s.start := by
        rw [show s.start + P.length = P.length + s.start by omega]
        induction P with
        | nil => simp
        | cons p P ih => simpa [Nat.succ_add] using ih
      rw [hd, show s.stop + P.length - (s.start + P.length) = s.stop - s.start by omega]

theorem suffixHit_shift (P D : List Char) (a b : Tok) :
    suffixHit (P ++ D) (shiftTok P.length a) (shiftTok P.length b) = suffixHit D a b := by
  obtain ⟨⟨as, ae⟩, ak⟩ := a
  obtain ⟨⟨bs, be⟩, bk⟩ := b
  have hg := getContent_shift P D (⟨bs, be⟩ : Span)
  simp only at hg
  show (if (ak.isNumber && bk.isWord) = true then
      if bs + P.length > be + P.length then Except.error Panic.underflow
      else if ((be + P.length - (bs + P.length)) != 2) = true then Except.ok none
      else match (⟨bs + P.length, be + P.length⟩ : Span).getContent (P ++ D) with
        | .error e => .error e
        | .ok cs => fromChars cs
    else Except.ok none) =
    (if (ak.isNumber && bk.isWord) = true then
      if bs > be then Except.error Panic.underflow
      else if ((be - bs) != 2) = true then Except.ok none
      else match (⟨bs, be⟩ : Span).getContent D with
        | .error e => .error e
        | .ok cs => fromChars cs
    else Except.ok none)
  rw [hg, show be + P.length - (bs + P.length) = be - bs by omega]
  by_cases h : bs > be
  · rw [if_pos (show bs + P.length > be + P.length by omega), if_pos h]
  · rw [if_neg (show ¬ bs + P.length > be + P.length by omega), if_neg h]

theorem NS_shift (P D : List Char) : ∀ (n : Nat) (toks : List Tok), toks.length ≤ n →
    NS (P ++ D) (shiftToks P.length toks) = (NS D toks).map (shiftToks P.length) := by
  intro n
  induction n with
  | zero =>
    intro toks h
    have : toks = [] := by cases toks <;> simp_all
    subst this
    simp [shiftToks, NS_nil, Except.map]
  | succ n ih =>
    intro toks h
    match toks, h with
    | [], _ => exact ih [] (by simp)
    | [a], _ => simp [shiftToks, NS_single, Except.map]
    | a :: b :: rest, h =>
      have hs := suffixHit_shift P D a b
      have ihb := ih (b :: rest) (by simp at h ⊢; omega)
      have ihr := ih rest (by simp at h ⊢; omega)
      rw [shiftToks_eq_map] at ihb ihr ⊢
      simp only [List.map_cons] at ihb ⊢
      cases hh : suffixHit D a b with
      | error e =>
        rw [hh] at hs
        rw [NS_cons_err _ _ _ _ e hs, NS_cons_err _ _ _ _ e hh]; rfl
      | ok hit =>
        rw [hh] at hs
        cases hit with
        | none =>
          rw [NS_cons_none _ _ _ _ hs, NS_cons_none _ _ _ _ hh, ihb]
          cases NS D (b :: rest) <;> simp [Except.map, shiftToks_eq_map]
        | some s =>
          rw [NS_cons_some _ _ _ _ s hs, NS_cons_some _ _ _ _ s hh, ihr]
          cases NS D rest <;> simp [Except.map, shiftToks_eq_map, shiftTok]

end Harper

namespace Harper
open Harper.Chunks

/-! ## `match_quotes` -/

def NoQuotes (A : List Tok) : Prop := ∀ t ∈ A, t.kind.isQuote = false

/-- quote tokens carry no twin yet (as the lexer produces them) -/
def Fresh (B : List Tok) : Prop := ∀ t ∈ B, ∀ x, t.kind ≠ .quote (some x)

theorem quoteIdx_noQuotes (A B : List Tok) (i : Nat) (h : NoQuotes A) :
    quoteIdx i (A ++ B) = quoteIdx (i + A.length) B := by
  induction A generalizing i with
  | nil => simp
  | cons a A ih =>
    have ha : a.kind.isQuote = false := h a (by simp)
    simp only [List.cons_append, quoteIdx, ha, Bool.false_eq_true, if_false, List.length_cons]
    rw [ih (i + 1) (fun t ht => h t (List.mem_cons_of_mem _ ht))]
    congr 1; omega

theorem quoteIdx_shiftToks (k i : Nat) (B : List Tok) : quoteIdx i (shiftToks k B) = quoteIdx i B := by
  induction B generalizing i with
  | nil => rfl
  | cons b B ih => simp only [shiftToks, List.map_cons, quoteIdx] at ih ⊢; rw [ih]

theorem quoteIdx_add (i j : Nat) (B : List Tok) : quoteIdx (i + j) B = (quoteIdx i B).map (· + j) := by
  induction B generalizing i with
  | nil => rfl
  | cons b B ih =>
    simp only [quoteIdx]
    rw [show i + j + 1 = (i + 1) + j by omega, ih]
    split <;> simp

def shiftPair (j : Nat) (p : Nat × Nat) : Nat × Nat := (p.1 + j, p.2 + j)

theorem twinTable_map (j : Nat) (l : List Nat) : twinTable (l.map (· + j)) = (twinTable l).map (shiftPair j) := by
  match l with
  | [] => rfl
  | [a] => rfl
  | a :: b :: r =>
    simp only [List.map_cons, twinTable]
    rw [twinTable_map j r]
    rfl

theorem lookup_shift (j i : Nat) (tab : List (Nat × Nat)) :
    (tab.map (shiftPair j)).lookup (i + j) = (tab.lookup i).map (· + j) := by
  induction tab with
  | nil => rfl
  | cons p tab ih =>
    obtain ⟨a, b⟩ := p
    simp only [List.map_cons, shiftPair, List.lookup_cons]
    by_cases h : i = a
    · subst h; simp
    · have h1 : (i + j == a + j) = false := by simp; omega
      have h2 : (i == a) = false := by simp [h]
      rw [h1, h2]
      exact ih

theorem setTwins_append (tab : List (Nat × Nat)) (i : Nat) (A B : List Tok) :
    setTwins tab i (A ++ B) = setTwins tab i A ++ setTwins tab (i + A.length) B := by
  induction A generalizing i with
  | nil => simp [setTwins]
  | cons a A ih =>
    simp only [List.cons_append, setTwins, List.length_cons]
    rw [ih, show i + 1 + A.length = i + (A.length + 1) by omega]

theorem setTwins_noQuotes (tab : List (Nat × Nat)) (i : Nat) (A : List Tok) (h : NoQuotes A) :
    setTwins tab i A = A := by
  induction A generalizing i with
  | nil => rfl
  | cons a A ih =>
    have ha : a.kind.isQuote = false := h a (by simp)
    simp only [setTwins]
    rw [ih (i + 1) (fun t ht => h t (List.mem_cons_of_mem _ ht))]
    congr 1
    cases hk : a.kind <;> simp_all [Kind.isQuote]

theorem setTwins_shift (k j : Nat) (tab : List (Nat × Nat)) (i : Nat) (B : List Tok) (hB : Fresh B) :
    setTwins (tab.map (shiftPair j)) (i + j) (shiftToks k B) = shiftDoc k j (setTwins tab i B) := by
  induction B generalizing i with
  | nil => rfl
  | cons b B ih =>
    simp only [shiftToks, List.map_cons, setTwins, shiftDoc] at ih ⊢
    rw [show i + j + 1 = (i + 1) + j by omega, ih (i + 1) (fun t ht => hB t (List.mem_cons_of_mem _ ht)),
      lookup_shift]
    congr 1
    have hb := hB b (by simp)
    cases hk : b.kind with
    | quote tw =>
      cases tw with
      | some x => exact absurd hk (hb x)
      | none => cases tab.lookup i <;> simp [shiftTwin, hk]
    | _ => cases tab.lookup i <;> simp [shiftTwin, hk]

theorem matchQuotes_append (k : Nat) (A B : List Tok) (hA : NoQuotes A) (hB : Fresh B) :
    matchQuotes (A ++ shiftToks k B) = A ++ shiftDoc k A.length (matchQuotes B) := by
  unfold matchQuotes
  rw [quoteIdx_noQuotes _ _ _ hA, quoteIdx_shiftToks, quoteIdx_add 0 A.length, twinTable_map, setTwins_append,
    setTwins_noQuotes _ _ _ hA]
  have := setTwins_shift k A.length (twinTable (quoteIdx 0 B)) 0 B hB
  rw [Nat.zero_add] at this
  rw [Nat.zero_add, this]

end Harper

namespace Harper

/-! ## `condense_pattern` at a barrier token -/

/-- what `find_all_matches` keeps -/
def filt (found : List Span) : List Span :=
  if found.length < 2 then found else removeIndices 0 (overlapNext 1 found) found

theorem filt_eq (found : List Span) : filt found = match found with
    | [] => []
    | a :: rest => a :: keepNon a rest := by
  unfold filt
  match found with
  | [] => rfl
  | [a] => simp [keepNon]
  | a :: b :: r => rw [if_neg (by simp)]; exact filter_eq_keepNon a (b :: r) 0

theorem findAllMatches_eq (m : Matcher) (src : List Char) (toks : List Tok) :
    findAllMatches m src toks = (foundFrom m src 0 toks).map filt := by
  unfold findAllMatches filt
  cases foundFrom m src 0 toks with
  | error e => rfl
  | ok found => simp only [Except.map]; split <;> rfl

theorem foundFrom_shift (m : Matcher) (src : List Char) (j : Nat) (Y : List Tok) :
    foundFrom m src j Y = (foundFrom m src 0 Y).map (List.map (shSpan j)) := by
  induction Y generalizing j with
  | nil => rfl
  | cons t ts ih =>
    simp only [foundFrom]
    cases m src (t :: ts) with
    | error e => rfl
    | ok n =>
      simp only
      rw [ih (j + 1), ih (0 + 1)]
      cases foundFrom m src 0 ts with
      | error e => rfl
      | ok rest =>
        simp only [Except.map]
        split
        · simp [shSpan, List.map_map, Function.comp]
          constructor
          · omega
          · intro a _; constructor <;> omega
        · simp [shSpan, List.map_map, Function.comp]
          intro a _; constructor <;> omega

/-- the barrier stops every match of `m` and starts none -/
structure Barrier (m : Matcher) (src : List Char) (Q : List Tok → Prop) (pb : Tok) (Y : List Tok) : Prop where
  tail : ∀ t ts, Q (t :: ts) → Q ts
  stop : ∀ xs : List Tok, Q xs → m src (xs ++ pb :: Y) = m src xs
  none : m src (pb :: Y) = .ok 0

theorem foundFrom_barrier (m : Matcher) (src : List Char) (Q : List Tok → Prop) (pb : Tok) (Y : List Tok)
    (hb : Barrier m src Q pb Y)
    (X : List Tok) (hQ : Q X) (i : Nat) (fx fy : List Span) (hx : foundFrom m src i X = .ok fx)
    (hy : foundFrom m src (i + X.length + 1) Y = .ok fy) :
    foundFrom m src i (X ++ pb :: Y) = .ok (fx ++ fy) := by
  induction X generalizing i fx with
  | nil =>
    simp only [foundFrom] at hx
    cases hx
    simp only [List.nil_append, foundFrom, hb.none]
    simp only [List.length_nil, Nat.add_zero] at hy
    rw [hy]
    simp
  | cons a X ih =>
    simp only [List.cons_append, foundFrom]
    have hst := hb.stop (a :: X) hQ
    simp only [List.cons_append] at hst
    rw [hst]
    simp only [foundFrom] at hx
    cases hm : m src (a :: X) with
    | error e => rw [hm] at hx; cases hx
    | ok n =>
      rw [hm] at hx
      simp only at hx ⊢
      cases hr : foundFrom m src (i + 1) X with
      | error e => rw [hr] at hx; cases hx
      | ok rest =>
        rw [hr] at hx
        simp only at hx
        rw [ih (hb.tail _ _ hQ) (i + 1) rest hr (by simpa [Nat.add_assoc, Nat.add_comm 1] using hy)]
        simp only
        cases hx
        split <;> simp

end Harper

namespace Harper

theorem overlaps_shift (j : Nat) (a b : Span) : (shSpan j a).overlapsWith (shSpan j b) = a.overlapsWith b := by
  simp only [Span.overlapsWith, shSpan]
  by_cases h1 : a.start < b.stop <;> by_cases h2 : b.start < a.stop <;> simp [h1, h2] <;> omega

theorem keepNon_shift (j : Nat) (a : Span) (l : List Span) :
    keepNon (shSpan j a) (l.map (shSpan j)) = (keepNon a l).map (shSpan j) := by
  induction l generalizing a with
  | nil => rfl
  | cons b l ih =>
    simp only [List.map_cons, keepNon, overlaps_shift, ih]
    split <;> simp

theorem filt_shift (j : Nat) (l : List Span) : filt (l.map (shSpan j)) = (filt l).map (shSpan j) := by
  rw [filt_eq, filt_eq]
  cases l with
  | nil => rfl
  | cons a l => simp only [List.map_cons]; rw [keepNon_shift]

/-- the filter over two runs of matches when no match of the first run reaches the second -/
theorem keepNon_append (bound : Nat) (a : Span) (l1 l2 : List Span) (ha : a.stop ≤ bound)
    (h1 : ∀ x ∈ l1, x.stop ≤ bound) (h2 : ∀ y ∈ l2, bound ≤ y.start) :
    keepNon a (l1 ++ l2) = keepNon a l1 ++ (match l2 with
      | [] => []
      | b :: r => b :: keepNon b r) := by
  induction l1 generalizing a with
  | nil =>
    cases l2 with
    | nil => rfl
    | cons b r =>
      have hb := h2 b (by simp)
      have : a.overlapsWith b = false := by
        simp only [Span.overlapsWith, Bool.and_eq_false_imp, decide_eq_true_eq, decide_eq_false_iff_not]
        intro _; omega
      simp [keepNon, this]
  | cons x l1 ih =>
    have hx := h1 x (by simp)
    have := ih x hx (fun y hy => h1 y (List.mem_cons_of_mem _ hy))
    simp only [List.cons_append, keepNon, this]
    split <;> simp

theorem filt_append (bound : Nat) (l1 l2 : List Span) (h1 : ∀ x ∈ l1, x.stop ≤ bound)
    (h2 : ∀ y ∈ l2, bound ≤ y.start) : filt (l1 ++ l2) = filt l1 ++ filt l2 := by
  rw [filt_eq, filt_eq, filt_eq]
  cases l1 with
  | nil => simp
  | cons a l1 =>
    simp only [List.cons_append]
    rw [keepNon_append bound a l1 l2 (h1 a (by simp)) (fun x hx => h1 x (List.mem_cons_of_mem _ hx)) h2]
    cases l2 <;> simp

theorem condLoop_app (edit : Kind → Kind) (m1 m2 : List Span) (toks : List Tok) (rem : List Nat) :
    condLoop edit (m1 ++ m2) toks rem = match condLoop edit m1 toks rem with
      | .error e => .error e
      | .ok (ts, r) => condLoop edit m2 ts r := by
  induction m1 generalizing toks rem with
  | nil => simp [condLoop]
  | cons m m1 ih =>
    simp only [List.cons_append, condLoop]
    cases sliceE toks m.start m.stop with
    | error e => rfl
    | ok slice =>
      simp only
      split
      · exact ih _ _
      · cases spanOf slice with
        | none => rfl
        | some sp =>
          simp only
          cases toks[m.start]? with
          | none => rfl
          | some t => exact ih _ _

theorem sliceE_append_left {α} (X Z : List α) (a b : Nat) (hb : b ≤ X.length) :
    sliceE (X ++ Z) a b = sliceE X a b := by
  unfold sliceE
  by_cases h : a > b
  · rw [if_pos (Or.inl h), if_pos (Or.inl h)]
  · rw [if_neg (by simp; omega), if_neg (by omega)]
    congr 1
    rw [List.drop_append_of_le_length (by omega), List.take_append_of_le_length (by simp; omega)]

/-- matches inside `X` do not see what follows `X` -/
theorem condLoop_suffix (edit : Kind → Kind) (Z : List Tok) (ms : List Span) : ∀ (X : List Tok) (rem : List Nat),
    (∀ m ∈ ms, m.start < m.stop ∧ m.stop ≤ X.length) →
    condLoop edit ms (X ++ Z) rem = (condLoop edit ms X rem).map (fun r => (r.1 ++ Z, r.2)) := by
  induction ms with
  | nil => intro X rem _; rfl
  | cons m ms ih =>
    intro X rem h
    have hm := h m (by simp)
    simp only [condLoop]
    rw [sliceE_append_left X Z _ _ hm.2]
    cases sliceE X m.start m.stop with
    | error e => rfl
    | ok slice =>
      simp only
      split
      · exact ih X rem (fun x hx => h x (List.mem_cons_of_mem _ hx))
      · cases spanOf slice with
        | none => rfl
        | some sp =>
          simp only
          rw [List.getElem?_append_left (by omega)]
          cases hg : X[m.start]? with
          | none => rfl
          | some t =>
            simp only
            rw [List.set_append_left _ _ (by omega)]
            exact ih _ _ (fun x hx => by
              rw [List.length_set]; exact h x (List.mem_cons_of_mem _ hx))


theorem GoodMs.mem {off : Nat} {ms : List Span} {n : Nat} (h : GoodMs off ms n) :
    ∀ m ∈ ms, m.start < m.stop ∧ m.stop ≤ n := by
  induction ms generalizing off with
  | nil => simp
  | cons a ms ih =>
    obtain ⟨_, h2, h3, h4⟩ := h
    intro m hm
    rcases List.mem_cons.mp hm with rfl | hm
    · exact ⟨h2, h3⟩
    · exact ih h4 m hm

theorem IncMs.mem {n : Nat} {l : List Span} (h : IncMs n l) : ∀ x ∈ l, x.start < x.stop ∧ x.stop ≤ n := by
  induction l with
  | nil => simp
  | cons a l ih =>
    intro x hx
    cases l with
    | nil => simp at hx; subst hx; exact h
    | cons b r =>
      obtain ⟨h1, h2, _, _, h5⟩ := h
      rcases List.mem_cons.mp hx with rfl | hx
      · exact ⟨h1, h2⟩
      · exact ih h5 x hx

theorem condensePattern_barrier (m : Matcher) (edit : Kind → Kind) (src : List Char) (P : List Tok → Prop)
    (hp : PatOK m src P) (X Y : List Tok) (pb : Tok) (hb : Barrier m src P pb Y) (hPX : P X)
    (p q : Nat) (hTX : Tiles X p q) (x y : List Tok) (hx : condensePattern m edit src X = .ok x)
    (hy : condensePattern m edit src Y = .ok y) :
    condensePattern m edit src (X ++ pb :: Y) = .ok (x ++ pb :: y) := by
  obtain ⟨fx, hfx, hinc, _⟩ := foundFrom_inc hp X 0 hPX
  rw [Nat.zero_add] at hinc
  -- the second part: what `condense_pattern` computed on `Y`
  unfold condensePattern at hy hx ⊢
  rw [findAllMatches_eq] at hy hx ⊢
  cases hfy : foundFrom m src 0 Y with
  | error e => rw [hfy] at hy; cases hy
  | ok fy =>
    rw [hfy] at hy
    simp only [Except.map] at hy
    cases hcy : condLoop edit (filt fy) Y [] with
    | error e => rw [hcy] at hy; cases hy
    | ok ry =>
      obtain ⟨tsY, rY⟩ := ry
      rw [hcy] at hy
      simp only [Except.ok.injEq] at hy
      -- the first part
      rw [hfx] at hx
      simp only [Except.map] at hx
      have hg : GoodMs 0 (filt fx) X.length := filter_good _ fx hinc
      obtain ⟨tsX, rX, hcx, hlen, hcons⟩ := condLoop_consume edit _ _ rfl X p q hTX hg
      rw [hcx] at hx
      simp only [Except.ok.injEq] at hx
      -- the whole
      have hfy' : foundFrom m src (0 + X.length + 1) Y = .ok (fy.map (shSpan (0 + X.length + 1))) := by
        rw [foundFrom_shift, hfy]; rfl
      rw [foundFrom_barrier m src P pb Y hb X hPX 0 fx _ hfx hfy']
      simp only [Except.map, Nat.zero_add]
      rw [filt_append X.length fx _ (fun a ha => (hinc.mem a ha).2) (by
        intro b hb'
        simp only [List.mem_map] at hb'
        obtain ⟨c, _, rfl⟩ := hb'
        simp [shSpan]; omega), filt_shift, condLoop_app]
      rw [condLoop_suffix edit (pb :: Y) (filt fx) X [] (fun a ha => hg.mem a ha), hcx]
      simp only [Except.map]
      have hpre := condLoop_prefix edit (tsX ++ [pb]) (filt fy) Y rX []
      rw [List.length_append, hlen, List.length_singleton, List.map_nil, List.append_nil,
        List.append_assoc, List.singleton_append, hcy] at hpre
      rw [hpre]
      simp only [Except.map, Except.ok.injEq]
      have hmm : rY.map (· + (X.length + 1)) = (rY.map (· + 1)).map (· + X.length) := by
        simp only [List.map_map]
        apply List.map_congr_left
        intro a _; simp; omega
      rw [List.append_assoc, List.singleton_append, hmm, hcons (pb :: tsY) (rY.map (· + 1)), hx]
      congr 1
      have hk := removeIndices_prefix_keep [pb] tsY 0 (rY.map (· + 1)) (by
        intro j hj; simp only [List.mem_map] at hj; obtain ⟨a, _, rfl⟩ := hj; simp)
      simp only [List.cons_append, List.nil_append, List.length_singleton] at hk
      rw [hk, removeIndices_shift, hy]

end Harper

namespace Harper

/-! ## `condense_pattern` commutes with moving the tokens -/

theorem sliceE_map {α β} (f : α → β) (l : List α) (a b : Nat) :
    sliceE (l.map f) a b = (sliceE l a b).map (List.map f) := by
  unfold sliceE
  simp only [List.length_map]
  split
  · rfl
  · simp [Except.map, List.map_take, List.map_drop]

theorem contiguous_shift (k : Nat) (l : List Tok) : contiguous (l.map (shiftTok k)) = contiguous l := by
  induction l with
  | nil => rfl
  | cons a t ih =>
    cases t with
    | nil => rfl
    | cons b r =>
      simp only [List.map_cons, contiguous] at ih ⊢
      rw [ih]
      congr 1
      simp only [shiftTok]
      by_cases h : a.span.stop = b.span.start
      · rw [h]; simp
      · have h2 : ¬ (a.span.stop + k = b.span.start + k) := by omega
        rw [beq_false_of_ne h, beq_false_of_ne h2]

theorem foldl_min_shift (k : Nat) (ts : List Tok) (m : Nat) :
    (ts.map (shiftTok k)).foldl (fun m x => min (min m x.span.start) x.span.stop) (m + k) =
      ts.foldl (fun m x => min (min m x.span.start) x.span.stop) m + k := by
  induction ts generalizing m with
  | nil => rfl
  | cons t ts ih =>
    simp only [List.map_cons, List.foldl_cons, shiftTok]
    rw [show min (min (m + k) (t.span.start + k)) (t.span.stop + k) = min (min m t.span.start) t.span.stop + k by omega]
    exact ih _

theorem foldl_max_shift (k : Nat) (ts : List Tok) (m : Nat) :
    (ts.map (shiftTok k)).foldl (fun m x => max (max m x.span.start) x.span.stop) (m + k) =
      ts.foldl (fun m x => max (max m x.span.start) x.span.stop) m + k := by
  induction ts generalizing m with
  | nil => rfl
  | cons t ts ih =>
    simp only [List.map_cons, List.foldl_cons, shiftTok]
    rw [show max (max (m + k) (t.span.start + k)) (t.span.stop + k) = max (max m t.span.start) t.span.stop + k by omega]
    exact ih _

theorem spanOf_shift (k : Nat) (l : List Tok) : spanOf (l.map (shiftTok k)) = (spanOf l).map (shSpan k) := by
  cases l with
  | nil => rfl
  | cons t ts =>
    simp only [List.map_cons, spanOf, Option.map_some, shSpan, shiftTok]
    rw [show min (t.span.start + k) (t.span.stop + k) = min t.span.start t.span.stop + k by omega,
      show max (t.span.start + k) (t.span.stop + k) = max t.span.start t.span.stop + k by omega,
      foldl_min_shift, foldl_max_shift]

theorem condLoop_shiftToks (edit : Kind → Kind) (k : Nat) (ms : List Span) : ∀ (toks : List Tok) (rem : List Nat),
    condLoop edit ms (toks.map (shiftTok k)) rem =
      (condLoop edit ms toks rem).map (fun r => (r.1.map (shiftTok k), r.2)) := by
  induction ms with
  | nil => intro toks rem; rfl
  | cons m ms ih =>
    intro toks rem
    simp only [condLoop]
    rw [sliceE_map]
    cases sliceE toks m.start m.stop with
    | error e => rfl
    | ok slice =>
      simp only [Except.map]
      rw [contiguous_shift, spanOf_shift]
      split
      · exact ih toks rem
      · cases spanOf slice with
        | none => rfl
        | some sp =>
          simp only [Option.map_some]
          rw [List.getElem?_map]
          cases hg : toks[m.start]? with
          | none => rfl
          | some t =>
            simp only [Option.map_some]
            have : (toks.map (shiftTok k)).set m.start ⟨shSpan k sp, edit (shiftTok k t).kind⟩ =
                (toks.set m.start ⟨sp, edit t.kind⟩).map (shiftTok k) := by
              rw [List.map_set]; rfl
            rw [this]
            exact ih _ _

theorem removeIndices_map {α β} (f : α → β) (i : Nat) (q : List Nat) (l : List α) :
    removeIndices i q (l.map f) = (removeIndices i q l).map f := by
  induction l generalizing i q with
  | nil => cases q <;> rfl
  | cons x l ih =>
    cases q with
    | nil => simp only [List.map_cons, removeIndices, ih]
    | cons r q =>
      simp only [List.map_cons, removeIndices]
      split
      · exact ih _ _
      · simp only [List.map_cons, ih]

/-- a pattern whose matches do not depend on where the tokens (and the text under them) are -/
def ShiftInv (m : Matcher) (srcPD srcD : List Char) (k : Nat) (Q : List Tok → Prop) : Prop :=
  ∀ v, Q v → m srcPD (v.map (shiftTok k)) = m srcD v

theorem foundFrom_shiftToks (m : Matcher) (srcPD srcD : List Char) (k : Nat) (Q : List Tok → Prop)
    (hQ : ∀ t ts, Q (t :: ts) → Q ts) (hm : ShiftInv m srcPD srcD k Q) (v : List Tok) (hv : Q v) (i : Nat) :
    foundFrom m srcPD i (v.map (shiftTok k)) = foundFrom m srcD i v := by
  induction v generalizing i with
  | nil => rfl
  | cons t ts ih =>
    have h1 := hm (t :: ts) hv
    simp only [List.map_cons] at h1
    simp only [List.map_cons, foundFrom, h1, ih (hQ _ _ hv)]

theorem condensePattern_shiftToks (m : Matcher) (edit : Kind → Kind) (srcPD srcD : List Char) (k : Nat)
    (Q : List Tok → Prop) (hQ : ∀ t ts, Q (t :: ts) → Q ts) (hm : ShiftInv m srcPD srcD k Q)
    (B : List Tok) (hB : Q B) :
    condensePattern m edit srcPD (shiftToks k B) = (condensePattern m edit srcD B).map (shiftToks k) := by
  rw [shiftToks_eq_map]
  unfold condensePattern
  rw [findAllMatches_eq, findAllMatches_eq, foundFrom_shiftToks m srcPD srcD k Q hQ hm B hB]
  cases foundFrom m srcD 0 B with
  | error e => rfl
  | ok found =>
    simp only [Except.map]
    rw [condLoop_shiftToks]
    cases condLoop edit (filt found) B [] with
    | error e => rfl
    | ok r =>
      obtain ⟨ts, rem⟩ := r
      simp only [Except.map]
      rw [removeIndices_map]; rfl

end Harper

namespace Harper

/-! ## the three patterns: a paragraph break is a barrier; matches do not depend on position -/

theorem cw_barrier {α} (q : α → Bool) (s : α) (hs : q s = false) (xs D : List α) :
    countWhile q (xs ++ s :: D) = countWhile q xs := by
  induction xs with
  | nil => simp [countWhile, hs]
  | cons c xs ih => simp only [List.cons_append, countWhile, ih]

theorem countWhile_map {α β} (f : α → β) (q : β → Bool) (l : List α) :
    countWhile q (l.map f) = countWhile (fun x => q (f x)) l := by
  induction l with
  | nil => rfl
  | cons a l ih => simp only [List.map_cons, countWhile, ih]

theorem contraction_barrier (src : List Char) (pb : Tok) (hpb : pb.kind = .paragraphBreak) (Y : List Tok) :
    Barrier contractionPat src (fun _ => True) pb Y where
  tail := fun _ _ _ => trivial
  stop := by
    intro xs _
    rw [contractionPat_eq, contractionPat_eq]
    rcases xs with _ | ⟨a, _ | ⟨b, _ | ⟨c, r⟩⟩⟩
    · rcases Y with _ | ⟨y, _ | ⟨z, r⟩⟩ <;> simp [hpb, Kind.isWord]
    · rcases Y with _ | ⟨y, r⟩ <;> simp [hpb, Kind.isApostrophe]
    · simp [hpb, Kind.isWord]
    · simp
  none := by
    rw [contractionPat_eq]
    rcases Y with _ | ⟨y, _ | ⟨z, r⟩⟩ <;> simp [hpb, Kind.isWord]

theorem ellipsis_barrier (src : List Char) (pb : Tok) (hpb : pb.kind = .paragraphBreak) (Y : List Tok) :
    Barrier ellipsisPat src (fun _ => True) pb Y where
  tail := fun _ _ _ => trivial
  stop := by
    intro xs _
    rw [ellipsisPat_eq, ellipsisPat_eq]
    unfold periods
    rw [cw_barrier _ pb (by simp [hpb, Kind.isPeriod])]
  none := by
    rw [ellipsisPat_eq]
    simp [periods, countWhile, hpb, Kind.isPeriod]

theorem InB.append {src : List Char} {a b : List Tok} (ha : InB src a) (hb : InB src b) : InB src (a ++ b) := by
  intro t ht
  rcases List.mem_append.mp ht with h | h
  · exact ha t h
  · exact hb t h

theorem alPeriod_barrier (src : List Char) (pb : Tok) (hpb : pb.kind = .paragraphBreak) (d Y : List Tok) :
    alPeriod src (d ++ pb :: Y) = alPeriod src d := by
  rcases d with _ | ⟨a, _ | ⟨p, r⟩⟩
  · rcases Y with _ | ⟨y, r⟩ <;> simp [alPeriod, isCap, hpb, Kind.isWord]
  · simp [alPeriod, hpb, Kind.isPeriod]
  · simp [alPeriod]

theorem latinLen_barrier (src : List Char) (pb : Tok) (hpb : pb.kind = .paragraphBreak) (xs Y : List Tok) :
    latinLen src (xs ++ pb :: Y) = latinLen src xs := by
  cases xs with
  | nil => simp [latinLen, isEtc, isCap, hpb, Kind.isWord]
  | cons t r =>
    simp only [List.cons_append, latinLen]
    have h1 : headPeriod (r ++ pb :: Y) = headPeriod r := by
      cases r <;> simp [headPeriod, hpb, Kind.isPeriod]
    have h2 : wsCount (r ++ pb :: Y) = wsCount r := cw_barrier _ pb (by simp [hpb, Kind.isWhitespace]) r Y
    have h3 : (r ++ pb :: Y).drop (wsCount r) = r.drop (wsCount r) ++ pb :: Y :=
      List.drop_append_of_le_length (countWhile_le _ r)
    rw [h1, h2, h3, alPeriod_barrier src pb hpb]

theorem latin_barrier (src : List Char) (pb : Tok) (hpb : pb.kind = .paragraphBreak) (Y : List Tok)
    (hY : InB src (pb :: Y)) : Barrier latinPat src (InB src) pb Y where
  tail := fun _ _ h => h.tail
  stop := by
    intro xs hxs
    rw [latinPat_eq src _ (hxs.append hY), latinPat_eq src _ hxs, latinLen_barrier src pb hpb]
  none := by
    rw [latinPat_eq src _ hY]
    have := latinLen_barrier src pb hpb [] Y
    simp only [List.nil_append] at this
    rw [this]; rfl

/-! ### position independence -/

theorem contraction_shiftInv (srcPD srcD : List Char) (k : Nat) :
    ShiftInv contractionPat srcPD srcD k (fun _ => True) := by
  intro v _
  rw [contractionPat_eq, contractionPat_eq]
  rcases v with _ | ⟨a, _ | ⟨b, _ | ⟨c, r⟩⟩⟩ <;> simp [shiftTok]

theorem ellipsis_shiftInv (srcPD srcD : List Char) (k : Nat) :
    ShiftInv ellipsisPat srcPD srcD k (fun _ => True) := by
  intro v _
  rw [ellipsisPat_eq, ellipsisPat_eq]
  have : periods (v.map (shiftTok k)) = periods v := by
    unfold periods; rw [countWhile_map]; rfl
  rw [this]

theorem txt_shift (P D : List Char) (t : Tok) : txt (P ++ D) (shiftTok P.length t) = txt D t := by
  unfold txt
  simp only [shiftTok]
  have hd : (P ++ D).drop (t.span.start + P.length) = D.drop t.span.start := by
    rw [show t.span.start + P.length = P.length + t.span.start by omega]
    induction P with
    | nil => simp
    | cons p P ih => simpa [Nat.succ_add] using ih
  rw [hd, show t.span.stop + P.length - (t.span.start + P.length) = t.span.stop - t.span.start by omega]

theorem isEtc_shift (P D : List Char) (t : Tok) : isEtc (P ++ D) (shiftTok P.length t) = isEtc D t := by
  unfold isEtc
  rw [txt_shift]; rfl

theorem isCap_shift (P D : List Char) (w : List Char) (t : Tok) :
    isCap (P ++ D) w (shiftTok P.length t) = isCap D w t := by
  unfold isCap
  rw [txt_shift]
  have : (shiftTok P.length t).span.len = t.span.len := by simp only [shiftTok, Span.len]; omega
  rw [this]; rfl

theorem alPeriod_shift (P D : List Char) (d : List Tok) :
    alPeriod (P ++ D) (d.map (shiftTok P.length)) = alPeriod D d := by
  rcases d with _ | ⟨a, _ | ⟨p, r⟩⟩
  · rfl
  · rfl
  · simp only [List.map_cons, alPeriod, isCap_shift]; rfl

theorem latinLen_shift (P D : List Char) (v : List Tok) :
    latinLen (P ++ D) (v.map (shiftTok P.length)) = latinLen D v := by
  cases v with
  | nil => rfl
  | cons t r =>
    simp only [List.map_cons, latinLen, isEtc_shift, isCap_shift]
    have h1 : headPeriod (r.map (shiftTok P.length)) = headPeriod r := by cases r <;> rfl
    have h2 : wsCount (r.map (shiftTok P.length)) = wsCount r := by
      unfold wsCount; rw [countWhile_map]; rfl
    rw [h1, h2, ← List.map_drop, alPeriod_shift]

theorem InB.shift {P D : List Char} {v : List Tok} (h : InB D v) : InB (P ++ D) (v.map (shiftTok P.length)) := by
  intro t ht
  simp only [List.mem_map] at ht
  obtain ⟨u, hu, rfl⟩ := ht
  have := h u hu
  simp only [shiftTok, List.length_append]
  omega

theorem latin_shiftInv (P D : List Char) : ShiftInv latinPat (P ++ D) D P.length (InB D) := by
  intro v hv
  rw [latinPat_eq _ _ hv.shift, latinPat_eq _ _ hv, latinLen_shift]

end Harper

namespace Harper

/-! ## text after the tokens does not matter -/

theorem foundFrom_congr (m m' : Matcher) (src src' : List Char) (Q : List Tok → Prop)
    (hQ : ∀ t ts, Q (t :: ts) → Q ts) (hm : ∀ v, Q v → m src v = m' src' v) (v : List Tok) (hv : Q v) (i : Nat) :
    foundFrom m src i v = foundFrom m' src' i v := by
  induction v generalizing i with
  | nil => rfl
  | cons t ts ih => simp only [foundFrom, hm _ hv, ih (hQ _ _ hv)]

theorem condensePattern_congr (m m' : Matcher) (edit : Kind → Kind) (src src' : List Char) (Q : List Tok → Prop)
    (hQ : ∀ t ts, Q (t :: ts) → Q ts) (hm : ∀ v, Q v → m src v = m' src' v) (B : List Tok) (hB : Q B) :
    condensePattern m edit src B = condensePattern m' edit src' B := by
  unfold condensePattern
  rw [findAllMatches_eq, findAllMatches_eq, foundFrom_congr m m' src src' Q hQ hm B hB]

theorem txt_left (P D : List Char) (t : Tok) (h : t.span.stop ≤ P.length) : txt (P ++ D) t = txt P t := by
  unfold txt
  by_cases hs : t.span.start ≤ t.span.stop
  · rw [List.drop_append_of_le_length (by omega), List.take_append_of_le_length (by simp; omega)]
  · rw [show t.span.stop - t.span.start = 0 by omega]; simp

theorem isEtc_left (P D : List Char) (t : Tok) (h : t.span.stop ≤ P.length) : isEtc (P ++ D) t = isEtc P t := by
  unfold isEtc; rw [txt_left P D t h]

theorem isCap_left (P D : List Char) (w : List Char) (t : Tok) (h : t.span.stop ≤ P.length) :
    isCap (P ++ D) w t = isCap P w t := by
  unfold isCap; rw [txt_left P D t h]

theorem alPeriod_left (P D : List Char) (d : List Tok) (hd : InB P d) : alPeriod (P ++ D) d = alPeriod P d := by
  rcases d with _ | ⟨a, _ | ⟨p, r'⟩⟩
  · rfl
  · rfl
  · simp only [alPeriod, isCap_left P D _ a (hd a (by simp)).2]

theorem latinLen_left (P D : List Char) (v : List Tok) (hv : InB P v) : latinLen (P ++ D) v = latinLen P v := by
  cases v with
  | nil => rfl
  | cons t r =>
    have ht := hv t (by simp)
    have hd : InB P (r.drop (wsCount r)) := fun x hx => hv x (List.mem_cons_of_mem _ (List.mem_of_mem_drop hx))
    simp only [latinLen, isEtc_left P D t ht.2, isCap_left P D _ t ht.2, alPeriod_left P D _ hd]

theorem InB.left {P D : List Char} {v : List Tok} (h : InB P v) : InB (P ++ D) v := by
  intro t ht
  have := h t ht
  simp only [List.length_append]
  omega

theorem latin_left (P D : List Char) (v : List Tok) (hv : InB P v) : latinPat (P ++ D) v = latinPat P v := by
  rw [latinPat_eq _ _ hv.left, latinPat_eq _ _ hv, latinLen_left P D v hv]

theorem getContent_left {α} (P D : List α) (s : Span) (h1 : s.start < s.stop) (h2 : s.stop ≤ P.length) :
    s.getContent (P ++ D) = s.getContent P := by
  rw [getContent_ok _ _ h1 (by simp; omega), getContent_ok _ _ h1 h2,
    List.drop_append_of_le_length (by omega), List.take_append_of_le_length (by simp; omega)]

theorem suffixHit_left (P D : List Char) (a b : Tok) (hb : b.span.start < b.span.stop ∧ b.span.stop ≤ P.length) :
    suffixHit (P ++ D) a b = suffixHit P a b := by
  unfold suffixHit
  rw [getContent_left P D b.span hb.1 hb.2]

theorem NS_left (P D : List Char) : ∀ (n : Nat) (l : List Tok), l.length ≤ n → InB P l → NS (P ++ D) l = NS P l := by
  intro n
  induction n with
  | zero =>
    intro l h _
    have : l = [] := by cases l <;> simp_all
    subst this; rw [NS_nil, NS_nil]
  | succ n ih =>
    intro l h hin
    match l, h with
    | [], _ => rw [NS_nil, NS_nil]
    | [a], _ => rw [NS_single, NS_single]
    | a :: b :: rest, h =>
      have hs := suffixHit_left P D a b (hin b (by simp))
      have ihb := ih (b :: rest) (by simp at h ⊢; omega) hin.tail
      have ihr := ih rest (by simp at h ⊢; omega) hin.tail.tail
      cases hh : suffixHit P a b with
      | error e => rw [hh] at hs; rw [NS_cons_err _ _ _ _ e hs, NS_cons_err _ _ _ _ e hh]
      | ok hit =>
        rw [hh] at hs
        cases hit with
        | none => rw [NS_cons_none _ _ _ _ hs, NS_cons_none _ _ _ _ hh, ihb]
        | some s => rw [NS_cons_some _ _ _ _ s hs, NS_cons_some _ _ _ _ s hh, ihr]

end Harper

namespace Harper

/-! ## one pattern stage -/

theorem condensePattern_nil (m : Matcher) (edit : Kind → Kind) (src : List Char) :
    condensePattern m edit src [] = .ok [] := by
  simp [condensePattern, findAllMatches, foundFrom, condLoop, removeIndices]

/-- a `condense_pattern` pass on `X ++ pb :: shift(Y0)` over the text `P ++ D`, and on `X ++ [pb]` over `P` -/
theorem pat_stage (m : Matcher) (edit : Kind → Kind) (P D : List Char) (Q QD : List Tok → Prop)
    (hp : PatOK m (P ++ D) Q) (hQD : ∀ t ts, QD (t :: ts) → QD ts)
    (X Y0 : List Tok) (pb : Tok) (hQX : Q X) (hQXp : Q (X ++ [pb])) (hQDY : QD Y0)
    (hb : ∀ Y, Q (pb :: Y) → Barrier m (P ++ D) Q pb Y) (hQpb : Q [pb]) (hQpbY : Q (pb :: shiftToks P.length Y0))
    (hleft : ∀ v, Q v → (∀ t ∈ v, t.span.stop ≤ P.length) → m (P ++ D) v = m P v)
    (hXin : ∀ t ∈ X ++ [pb], t.span.stop ≤ P.length)
    (hshift : ShiftInv m (P ++ D) D P.length QD)
    (p q : Nat) (hT : Tiles X p q) (x y0 : List Tok)
    (hx : condensePattern m edit (P ++ D) X = .ok x) (hy0 : condensePattern m edit D Y0 = .ok y0) :
    condensePattern m edit (P ++ D) (X ++ pb :: shiftToks P.length Y0) = .ok (x ++ pb :: shiftToks P.length y0) ∧
    condensePattern m edit P (X ++ [pb]) = .ok (x ++ [pb]) := by
  constructor
  · have hy : condensePattern m edit (P ++ D) (shiftToks P.length Y0) = .ok (shiftToks P.length y0) := by
      rw [condensePattern_shiftToks m edit (P ++ D) D P.length QD hQD hshift Y0 hQDY, hy0]; rfl
    exact condensePattern_barrier m edit (P ++ D) Q hp X _ pb (hb _ hQpbY) hQX p q hT x _ hx hy
  · -- over `P` alone: the same matches as over `P ++ D`
    let Q' : List Tok → Prop := fun v => Q v ∧ ∀ t ∈ v, t.span.stop ≤ P.length
    have hQ' : ∀ t ts, Q' (t :: ts) → Q' ts := fun t ts h =>
      ⟨hp.tail t ts h.1, fun u hu => h.2 u (List.mem_cons_of_mem _ hu)⟩
    have := condensePattern_congr m m edit (P ++ D) P Q' hQ' (fun v hv => hleft v hv.1 hv.2) (X ++ [pb])
      ⟨hQXp, hXin⟩
    rw [← this]
    have := condensePattern_barrier m edit (P ++ D) Q hp X [] pb (hb _ hQpb) hQX p q hT x [] hx
      (condensePattern_nil _ _ _)
    exact this

end Harper

namespace Harper

theorem runGo_run_head (cfg : RunCfg) (rest : List Tok) :
    ∀ s n held, ∃ s' n' tl, runGo cfg (.absorb s n held) rest = (⟨s', cfg.mkKind n'⟩, false) :: tl := by
  induction rest with
  | nil => exact fun s n held => ⟨s, n, _, rfl⟩
  | cons c r ih =>
    intro s n held
    simp only [runGo]
    split
    · exact ⟨s, n, _, rfl⟩
    · split
      · exact ih _ _ _
      · exact ⟨s, n, _, rfl⟩

theorem condenseSpaces_head (B : List Tok) (h : ∀ c r, B = c :: r → c.kind.isNewline = false) :
    ∀ c r, condenseSpaces B = c :: r → c.kind.isNewline = false := by
  intro c r hc
  unfold condenseSpaces at hc
  rw [dropFlagged_eq] at hc
  cases B with
  | nil => simp [runGo] at hc
  | cons b rest =>
    simp only [runGo] at hc
    cases hs : spacesCfg.sel b.kind with
    | none =>
      rw [hs] at hc
      simp only [unflag_cons_false, List.cons.injEq] at hc
      rw [← hc.1]; exact h b rest rfl
    | some n =>
      rw [hs] at hc
      simp only at hc
      obtain ⟨s', n', tl, e⟩ := runGo_run_head spacesCfg rest b.span n []
      rw [e, unflag_cons_false] at hc
      simp only [List.cons.injEq] at hc
      rw [← hc.1]; rfl

theorem shiftToks_head_kind (k : Nat) (B : List Tok) (p : Kind → Bool) (h : ∀ c r, B = c :: r → p c.kind = false) :
    ∀ c r, shiftToks k B = c :: r → p c.kind = false := by
  intro c r hc
  cases B with
  | nil => simp [shiftToks] at hc
  | cons b rest =>
    simp only [shiftToks, List.map_cons, List.cons.injEq] at hc
    rw [← hc.1]; exact h b rest rfl

theorem tiles_stop_le {toks : List Tok} {p q : Nat} (h : Tiles toks p q) : ∀ t ∈ toks, t.span.stop ≤ q := by
  induction toks generalizing p with
  | nil => simp
  | cons a ts ih =>
    obtain ⟨_, _, hr⟩ := h
    intro t ht
    rcases List.mem_cons.mp ht with rfl | ht
    · exact hr.le
    · exact ih hr t ht

theorem tiles_shift {toks : List Tok} {p q : Nat} (k : Nat) (h : Tiles toks p q) :
    Tiles (shiftToks k toks) (p + k) (q + k) := by
  induction toks generalizing p with
  | nil => simp only [Tiles] at h; subst h; rfl
  | cons a ts ih =>
    obtain ⟨h1, h2, hr⟩ := h
    refine ⟨by simp [h1], by simp; omega, ?_⟩
    exact ih hr

end Harper

namespace Harper
open Harper.Chunks

/-! ## all passes before `match_quotes` -/

def passes123 (t0 : List Tok) : List Tok := newlinesToBreaks (condenseNewlines (condenseSpaces t0))

/-- `Document::parse` up to (not including) `match_quotes` -/
def prePasses (src : List Char) (t0 : List Tok) : Except Panic (List Tok) :=
  match condenseContractions src (passes123 t0) with
  | .error e => .error e
  | .ok t4 =>
    match numberSuffixes src (dottedInitialisms t4) with
    | .error e => .error e
    | .ok t6 =>
      match condenseEllipsis src t6 with
      | .error e => .error e
      | .ok t7 => condenseLatin src t7

theorem condenseAll_eq (src : List Char) (t0 : List Tok) :
    condenseAll src t0 = (prePasses src t0).map matchQuotes := by
  unfold condenseAll prePasses passes123
  dsimp only
  cases condenseContractions src (newlinesToBreaks (condenseNewlines (condenseSpaces t0))) with
  | error e => rfl
  | ok t4 =>
    simp only
    cases numberSuffixes src (dottedInitialisms t4) with
    | error e => rfl
    | ok t6 =>
      simp only
      cases condenseEllipsis src t6 with
      | error e => rfl
      | ok t7 =>
        simp only
        cases condenseLatin src t7 <;> rfl

theorem passes123_tiles (t0 : List Tok) (a b : Nat) (h : Tiles t0 a b) : Tiles (passes123 t0) a b :=
  newlinesToBreaks_tiles' _ _ _ (condenseNewlines_tiles' _ _ _ (condenseSpaces_tiles' _ _ _ h))

theorem passes123_shift (k : Nat) (B : List Tok) : passes123 (shiftToks k B) = shiftToks k (passes123 B) := by
  unfold passes123
  rw [condenseSpaces_shift, condenseNewlines_shift, newlinesToBreaks_shift]

/-- passes 1–3 at the boundary -/
theorem passes123_append (X B : List Tok) (brk : Tok) (k n : Nat) (hbrk : brk.kind = .newline k) (hk : k ≥ 2)
    (hB : ∀ c r, B = c :: r → c.kind.isNewline = false) :
    ∃ Y3 pb, pb.kind = .paragraphBreak ∧ passes123 (X ++ [brk]) = Y3 ++ [pb] ∧
      passes123 ((X ++ [brk]) ++ shiftToks n B) = (Y3 ++ [pb]) ++ shiftToks n (passes123 B) := by
  have hbs : brk.kind.isSpace = false := by rw [hbrk]; rfl
  have e1 : condenseSpaces (X ++ [brk]) = condenseSpaces X ++ [brk] := by
    have := condenseSpaces_barrier X [] brk hbs
    simpa [condenseSpaces, dropFlagged_eq, runGo] using this
  have e2 : condenseSpaces ((X ++ [brk]) ++ shiftToks n B) =
      (condenseSpaces X ++ [brk]) ++ shiftToks n (condenseSpaces B) := by
    rw [List.append_assoc, List.singleton_append, condenseSpaces_barrier X _ brk hbs, condenseSpaces_shift]
    simp
  obtain ⟨Y2, b2, k2, e3, hb2, hk2⟩ := condenseNewlines_last (condenseSpaces X) brk k hbrk hk
  have hhead : ∀ c r, shiftToks n (condenseSpaces B) = c :: r → c.kind.isNewline = false :=
    shiftToks_head_kind n _ Kind.isNewline (condenseSpaces_head B hB)
  refine ⟨newlinesToBreaks Y2, ⟨b2.span, .paragraphBreak⟩, rfl, ?_, ?_⟩
  · unfold passes123
    rw [e1, e3, newlinesToBreaks_append]
    congr 1
    simp [newlinesToBreaks, hb2, breakKind, hk2]
  · unfold passes123
    rw [e2, condenseNewlines_split _ _ hhead, e3, newlinesToBreaks_append, newlinesToBreaks_append,
      condenseNewlines_shift, newlinesToBreaks_shift]
    congr 2
    simp [newlinesToBreaks, hb2, breakKind, hk2]

end Harper

namespace Harper
open Harper.Chunks

theorem pbreak_facts {pb : Tok} (h : pb.kind = .paragraphBreak) :
    pb.kind.isWord = false ∧ pb.kind.isPeriod = false ∧ pb.kind.isNumber = false := by
  rw [h]; exact ⟨rfl, rfl, rfl⟩

theorem inB_of_tiles {src : List Char} {toks : List Tok} {p q : Nat} (h : Tiles toks p q) (hq : q ≤ src.length) :
    InB src toks := h.inB hq

/-- passes 4–8 -/
def passes48 (src : List Char) (t3 : List Tok) : Except Panic (List Tok) :=
  match condenseContractions src t3 with
  | .error e => .error e
  | .ok t4 =>
    match numberSuffixes src (dottedInitialisms t4) with
    | .error e => .error e
    | .ok t6 =>
      match condenseEllipsis src t6 with
      | .error e => .error e
      | .ok t7 => condenseLatin src t7

theorem prePasses_eq (src : List Char) (t0 : List Tok) : prePasses src t0 = passes48 src (passes123 t0) := rfl

/-- passes 4–8 at a paragraph break -/
theorem passes48_append (P D : List Char) (X3 Y3 : List Tok) (pb : Tok) (hpb : pb.kind = .paragraphBreak)
    (m : Nat) (hTX : Tiles X3 0 m) (hTpb : Tiles [pb] m P.length) (hTY : Tiles Y3 0 D.length) :
    ∃ x8 y8,
      passes48 P (X3 ++ [pb]) = .ok (x8 ++ [pb]) ∧ passes48 D Y3 = .ok y8 ∧
      passes48 (P ++ D) (X3 ++ pb :: shiftToks P.length Y3) = .ok (x8 ++ pb :: shiftToks P.length y8) ∧
      Tiles x8 0 m ∧ Tiles y8 0 D.length := by
  obtain ⟨hpw, hpp, hpn⟩ := pbreak_facts hpb
  have hpbspan : pb.span.start = m ∧ m < pb.span.stop ∧ pb.span.stop = P.length := by
    obtain ⟨h1, h2, h3⟩ := hTpb; simp only [Tiles] at h3; exact ⟨h1, h2, h3⟩
  have hm : m ≤ P.length := by omega
  have hPD : (P ++ D).length = P.length + D.length := List.length_append
  -- every intermediate vector of the first part lies inside `P`
  have hin : ∀ {x : List Tok}, Tiles x 0 m → ∀ t ∈ x ++ [pb], t.span.stop ≤ P.length := by
    intro x hx t ht
    rcases List.mem_append.mp ht with h | h
    · have := tiles_stop_le hx t h; omega
    · simp only [List.mem_singleton] at h; subst h; omega
  -- stage 4: contractions
  obtain ⟨x4, ex4, tx4⟩ := condenseContractions_tiles' (P ++ D) X3 0 m hTX
  obtain ⟨y4, ey4, ty4⟩ := condenseContractions_tiles' D Y3 0 D.length hTY
  obtain ⟨s4, s4P⟩ := pat_stage contractionPat id P D (fun _ => True) (fun _ => True)
    (contraction_patOK _) (fun _ _ _ => trivial) X3 Y3 pb trivial trivial trivial
    (fun Y _ => contraction_barrier _ pb hpb Y) trivial trivial
    (fun v _ _ => by rw [contractionPat_eq, contractionPat_eq]) (hin hTX)
    (contraction_shiftInv _ _ _) 0 m hTX x4 y4 ex4 ey4
  -- stage 5: initialisms
  have s5 : dottedInitialisms (x4 ++ pb :: shiftToks P.length y4) =
      dottedInitialisms x4 ++ pb :: shiftToks P.length (dottedInitialisms y4) := by
    rw [dottedInitialisms_barrier _ _ pb hpw hpp, dottedInitialisms_shift]
  have s5P : dottedInitialisms (x4 ++ [pb]) = dottedInitialisms x4 ++ [pb] := by
    have := dottedInitialisms_barrier x4 [] pb hpw hpp
    simpa [dottedInitialisms, dropFlagged_eq, initGo] using this
  have tx5 := dottedInitialisms_tiles' _ _ _ tx4
  have ty5 := dottedInitialisms_tiles' _ _ _ ty4
  -- stage 6: number suffixes
  obtain ⟨x6, ex6, tx6⟩ := numberSuffixes_tiles' P _ 0 m tx5 hm
  obtain ⟨y6, ey6, ty6⟩ := numberSuffixes_tiles' D _ 0 D.length ty5 (Nat.le_refl _)
  rw [numberSuffixes_eq_NS] at ex6 ey6
  have ex6' : NS (P ++ D) (dottedInitialisms x4) = .ok x6 := by
    rw [NS_left P D _ _ (Nat.le_refl _) (tx5.inB hm), ex6]
  have ey6' : NS (P ++ D) (shiftToks P.length (dottedInitialisms y4)) = .ok (shiftToks P.length y6) := by
    rw [NS_shift P D _ _ (Nat.le_refl _), ey6]; rfl
  have s6 := NS_barrier (P ++ D) pb hpw hpn _ _ ey6' _ _ _ (Nat.le_refl _) ex6'
  have s6P := NS_barrier P pb hpw hpn [] [] (NS_nil P) _ _ _ (Nat.le_refl _) ex6
  -- stage 7: ellipsis
  obtain ⟨x7, ex7, tx7⟩ := condenseEllipsis_tiles' (P ++ D) x6 0 m tx6
  obtain ⟨y7, ey7, ty7⟩ := condenseEllipsis_tiles' D y6 0 D.length ty6
  obtain ⟨s7, s7P⟩ := pat_stage ellipsisPat (fun _ => .punct .Ellipsis) P D (fun _ => True) (fun _ => True)
    (ellipsis_patOK _) (fun _ _ _ => trivial) x6 y6 pb trivial trivial trivial
    (fun Y _ => ellipsis_barrier _ pb hpb Y) trivial trivial
    (fun v _ _ => by rw [ellipsisPat_eq, ellipsisPat_eq]) (hin tx6)
    (ellipsis_shiftInv _ _ _) 0 m tx6 x7 y7 ex7 ey7
  -- stage 8: latin
  have hmPD : m ≤ (P ++ D).length := by omega
  obtain ⟨x8, ex8, tx8⟩ := condenseLatin_tiles' (P ++ D) x7 0 m tx7 hmPD
  obtain ⟨y8, ey8, ty8⟩ := condenseLatin_tiles' D y7 0 D.length ty7 (Nat.le_refl _)
  have hpbIn : InB (P ++ D) [pb] := by
    intro t ht; simp only [List.mem_singleton] at ht; subst ht
    omega
  have hYsh : InB (P ++ D) (shiftToks P.length y7) := by
    have := tiles_shift P.length ty7
    rw [Nat.zero_add] at this
    exact this.inB (by omega)
  obtain ⟨s8, s8P⟩ := pat_stage latinPat id P D (InB (P ++ D)) (InB D)
    (latin_patOK _) (fun _ _ h => h.tail) x7 y7 pb (tx7.inB hmPD) ((tx7.inB hmPD).append hpbIn)
    (ty7.inB (Nat.le_refl _))
    (fun Y hY => latin_barrier _ pb hpb Y hY) hpbIn (by
      have : pb :: shiftToks P.length y7 = [pb] ++ shiftToks P.length y7 := rfl
      rw [this]; exact hpbIn.append hYsh)
    (fun v hv hvin => latin_left P D v (fun t ht => ⟨(hv t ht).1, hvin t ht⟩)) (hin tx7)
    (latin_shiftInv P D) 0 m tx7 x8 y8 ex8 ey8
  refine ⟨x8, y8, ?_, ?_, ?_, tx8, ty8⟩
  · have h4 : condenseContractions P (X3 ++ [pb]) = .ok (x4 ++ [pb]) := s4P
    have h6 : numberSuffixes P (dottedInitialisms x4 ++ [pb]) = .ok (x6 ++ [pb]) := by
      rw [numberSuffixes_eq_NS]; exact s6P
    have h7 : condenseEllipsis P (x6 ++ [pb]) = .ok (x7 ++ [pb]) := s7P
    have h8 : condenseLatin P (x7 ++ [pb]) = .ok (x8 ++ [pb]) := s8P
    simp only [passes48, h4, s5P, h6, h7, h8]
  · have h4 : condenseContractions D Y3 = .ok y4 := ey4
    have h6 : numberSuffixes D (dottedInitialisms y4) = .ok y6 := by rw [numberSuffixes_eq_NS]; exact ey6
    have h7 : condenseEllipsis D y6 = .ok y7 := ey7
    have h8 : condenseLatin D y7 = .ok y8 := ey8
    simp only [passes48, h4, h6, h7, h8]
  · have h4 : condenseContractions (P ++ D) (X3 ++ pb :: shiftToks P.length Y3) =
        .ok (x4 ++ pb :: shiftToks P.length y4) := s4
    have h6 : numberSuffixes (P ++ D) (dottedInitialisms x4 ++ pb :: shiftToks P.length (dottedInitialisms y4)) =
        .ok (x6 ++ pb :: shiftToks P.length y6) := by rw [numberSuffixes_eq_NS]; exact s6
    have h7 : condenseEllipsis (P ++ D) (x6 ++ pb :: shiftToks P.length y6) =
        .ok (x7 ++ pb :: shiftToks P.length y7) := s7
    have h8 : condenseLatin (P ++ D) (x7 ++ pb :: shiftToks P.length y7) =
        .ok (x8 ++ pb :: shiftToks P.length y8) := s8
    simp only [passes48, h4, s5, h6, h7, h8]

end Harper

namespace Harper

/-! ## the passes create no quote tokens and touch no quote token -/

/-- kinds the passes put on the tokens they rewrite -/
def Created (k : Kind) : Prop :=
  (∃ n, k = .space n) ∨ (∃ n, k = .newline n) ∨ k = .paragraphBreak ∨ (∃ r s, k = .number r (some s)) ∨
    k = .punct .Ellipsis

/-- every token of `out` has the kind of a token of `inp`, or a created kind -/
def KindsFrom (out inp : List Tok) : Prop := ∀ t ∈ out, (∃ u ∈ inp, t.kind = u.kind) ∨ Created t.kind

theorem KindsFrom.refl (l : List Tok) : KindsFrom l l := fun t ht => Or.inl ⟨t, ht, rfl⟩

theorem KindsFrom.trans {a b c : List Tok} (h1 : KindsFrom a b) (h2 : KindsFrom b c) : KindsFrom a c := by
  intro t ht
  rcases h1 t ht with ⟨u, hu, e⟩ | h
  · rcases h2 u hu with ⟨v, hv, e'⟩ | h'
    · exact Or.inl ⟨v, hv, e.trans e'⟩
    · right; rw [e]; exact h'
  · exact Or.inr h

theorem mem_unflag {α} (l : List (α × Bool)) (x : α) (h : x ∈ unflag l) : (x, false) ∈ l := by
  induction l with
  | nil => cases h
  | cons p l ih =>
    obtain ⟨y, b⟩ := p
    cases b
    · rw [unflag_cons_false] at h
      rcases List.mem_cons.mp h with rfl | h
      · simp
      · exact List.mem_cons_of_mem _ (ih h)
    · rw [unflag_cons_true] at h
      exact List.mem_cons_of_mem _ (ih h)

def modeHeld : RunMode → List (Tok × Bool)
  | .scan => []
  | .absorb _ _ held => held

theorem runGo_mem (cfg : RunCfg) (toks : List Tok) : ∀ mode, ∀ p ∈ runGo cfg mode toks,
    p.1 ∈ toks ∨ p ∈ modeHeld mode ∨ ∃ n, p.1.kind = cfg.mkKind n := by
  induction toks with
  | nil =>
    intro mode p hp
    cases mode with
    | scan => simp [runGo] at hp
    | absorb s n held =>
      simp only [runGo, List.mem_cons, List.mem_reverse] at hp
      rcases hp with rfl | hp
      · exact Or.inr (Or.inr ⟨n, rfl⟩)
      · exact Or.inr (Or.inl hp)
  | cons c r ih =>
    intro mode p hp
    have lift : ∀ {mode'}, (p.1 ∈ r ∨ p ∈ modeHeld mode' ∨ ∃ n, p.1.kind = cfg.mkKind n) →
        (∀ q ∈ modeHeld mode', q = (c, true) ∨ q = (c, false) ∨ q ∈ modeHeld mode) →
        p.1 ∈ c :: r ∨ p ∈ modeHeld mode ∨ ∃ n, p.1.kind = cfg.mkKind n := by
      intro mode' h hh
      rcases h with h | h | h
      · exact Or.inl (List.mem_cons_of_mem _ h)
      · rcases hh p h with rfl | rfl | h'
        · exact Or.inl (by simp)
        · exact Or.inl (by simp)
        · exact Or.inr (Or.inl h')
      · exact Or.inr (Or.inr h)
    have emit : ∀ s n held, modeHeld mode = held →
        p ∈ (⟨s, cfg.mkKind n⟩, false) :: (held.reverse ++ (c, false) :: runGo cfg .scan r) →
        p.1 ∈ c :: r ∨ p ∈ modeHeld mode ∨ ∃ n, p.1.kind = cfg.mkKind n := by
      intro s n held hm hp
      simp only [List.mem_cons, List.mem_append, List.mem_reverse] at hp
      rcases hp with rfl | hp | rfl | hp
      · exact Or.inr (Or.inr ⟨n, rfl⟩)
      · exact Or.inr (Or.inl (hm ▸ hp))
      · exact Or.inl (by simp)
      · exact lift (ih .scan p hp) (by intro q hq; cases hq)
    cases mode with
    | scan =>
      simp only [runGo] at hp
      split at hp
      · exact lift (ih _ p hp) (by intro q hq; cases hq)
      · rcases List.mem_cons.mp hp with rfl | hp
        · exact Or.inl (by simp)
        · exact lift (ih .scan p hp) (by intro q hq; cases hq)
    | absorb s n held =>
      simp only [runGo] at hp
      split at hp
      · exact emit s n held rfl hp
      · split at hp
        · exact lift (ih _ p hp) (by
            intro q hq
            simp only [modeHeld, List.mem_cons] at hq
            rcases hq with rfl | hq
            · exact Or.inl rfl
            · exact Or.inr (Or.inr hq))
        · exact emit s n held rfl hp

theorem condenseSpaces_kinds (l : List Tok) : KindsFrom (condenseSpaces l) l := by
  intro t ht
  unfold condenseSpaces at ht
  rw [dropFlagged_eq] at ht
  rcases runGo_mem spacesCfg l .scan _ (mem_unflag _ _ ht) with h | h | ⟨n, h⟩
  · exact Or.inl ⟨t, h, rfl⟩
  · cases h
  · exact Or.inr (Or.inl ⟨n, h⟩)

theorem condenseNewlines_kinds (l : List Tok) : KindsFrom (condenseNewlines l) l := by
  intro t ht
  unfold condenseNewlines at ht
  rw [dropFlagged_eq] at ht
  rcases runGo_mem newlinesCfg l .scan _ (mem_unflag _ _ ht) with h | h | ⟨n, h⟩
  · exact Or.inl ⟨t, h, rfl⟩
  · cases h
  · exact Or.inr (Or.inr (Or.inl ⟨n, h⟩))

theorem newlinesToBreaks_kinds (l : List Tok) : KindsFrom (newlinesToBreaks l) l := by
  intro t ht
  simp only [newlinesToBreaks, List.mem_map] at ht
  obtain ⟨u, hu, rfl⟩ := ht
  cases hk : u.kind with
  | newline n =>
    simp only [breakKind, hk]
    split
    · exact Or.inr (Or.inr (Or.inr (Or.inl rfl)))
    · exact Or.inl ⟨u, hu, by simp [hk]⟩
  | _ => exact Or.inl ⟨u, hu, by simp [breakKind, hk]⟩

end Harper

namespace Harper

theorem removeIndices_mem {α} (i : Nat) (q : List Nat) (l : List α) : ∀ x ∈ removeIndices i q l, x ∈ l := by
  induction l generalizing i q with
  | nil => cases q <;> simp [removeIndices]
  | cons y l ih =>
    intro x hx
    cases q with
    | nil =>
      simp only [removeIndices, List.mem_cons] at hx
      rcases hx with rfl | hx
      · simp
      · exact List.mem_cons_of_mem _ (ih _ _ x hx)
    | cons r q =>
      simp only [removeIndices] at hx
      split at hx
      · exact List.mem_cons_of_mem _ (ih _ _ x hx)
      · rcases List.mem_cons.mp hx with rfl | hx
        · simp
        · exact List.mem_cons_of_mem _ (ih _ _ x hx)

theorem condLoop_allK (Φ : Kind → Prop) (edit : Kind → Kind) (hedit : ∀ k, Φ k → Φ (edit k)) (ms : List Span) :
    ∀ (toks : List Tok) (rem : List Nat) (ts : List Tok) (r : List Nat), (∀ t ∈ toks, Φ t.kind) →
      condLoop edit ms toks rem = .ok (ts, r) → ∀ t ∈ ts, Φ t.kind := by
  induction ms with
  | nil =>
    intro toks rem ts r h hc
    simp only [condLoop, Except.ok.injEq, Prod.mk.injEq] at hc
    rw [← hc.1]; exact h
  | cons m ms ih =>
    intro toks rem ts r h hc
    simp only [condLoop] at hc
    cases hs : sliceE toks m.start m.stop with
    | error e => rw [hs] at hc; cases hc
    | ok slice =>
      rw [hs] at hc
      simp only at hc
      split at hc
      · exact ih toks rem ts r h hc
      · cases hsp : spanOf slice with
        | none => rw [hsp] at hc; cases hc
        | some sp =>
          rw [hsp] at hc
          simp only at hc
          cases hg : toks[m.start]? with
          | none => rw [hg] at hc; cases hc
          | some t0 =>
            rw [hg] at hc
            simp only at hc
            refine ih _ _ ts r ?_ hc
            intro t ht
            rcases List.mem_or_eq_of_mem_set ht with h' | rfl
            · exact h t h'
            · exact hedit _ (h t0 (List.mem_of_getElem? hg))

theorem condensePattern_allK (Φ : Kind → Prop) (m : Matcher) (edit : Kind → Kind) (hedit : ∀ k, Φ k → Φ (edit k))
    (src : List Char) (toks out : List Tok) (h : ∀ t ∈ toks, Φ t.kind)
    (hc : condensePattern m edit src toks = .ok out) : ∀ t ∈ out, Φ t.kind := by
  unfold condensePattern at hc
  cases hf : findAllMatches m src toks with
  | error e => rw [hf] at hc; cases hc
  | ok ms =>
    rw [hf] at hc
    simp only at hc
    cases hl : condLoop edit ms toks [] with
    | error e => rw [hl] at hc; cases hc
    | ok r =>
      obtain ⟨ts, rem⟩ := r
      rw [hl] at hc
      simp only [Except.ok.injEq] at hc
      intro t ht
      rw [← hc] at ht
      exact condLoop_allK Φ edit hedit ms toks [] ts rem h hl t (removeIndices_mem _ _ _ t ht)

/-- the predicate "has the kind of a token of `inp`, or a created kind" -/
def FromK (inp : List Tok) (k : Kind) : Prop := (∃ u ∈ inp, k = u.kind) ∨ Created k

theorem condensePattern_kinds (m : Matcher) (edit : Kind → Kind) (hedit : edit = id ∨ edit = fun _ => .punct .Ellipsis)
    (src : List Char) (toks out : List Tok) (hc : condensePattern m edit src toks = .ok out) :
    KindsFrom out toks := by
  have := condensePattern_allK (FromK toks) m edit (by
    intro k hk
    rcases hedit with rfl | rfl
    · exact hk
    · exact Or.inr (Or.inr (Or.inr (Or.inr (Or.inr rfl))))) src toks out (fun t ht => Or.inl ⟨t, ht, rfl⟩) hc
  exact this

def initModeToks : InitMode → List Tok
  | .idle => []
  | .inside st _ held => st :: held.map (·.1)

theorem initGo_kinds : ∀ (n : Nat) (toks : List Tok), toks.length ≤ n → ∀ mode, ∀ p ∈ initGo mode toks,
    ∃ u, (u ∈ toks ∨ u ∈ initModeToks mode) ∧ p.1.kind = u.kind := by
  intro n
  induction n with
  | zero =>
    intro toks h mode p hp
    have : toks = [] := by cases toks <;> simp_all
    subst this
    cases mode with
    | idle => simp [initGo] at hp
    | inside st e held =>
      simp only [initGo, List.map_nil, List.append_nil, List.mem_cons, List.mem_reverse] at hp
      rcases hp with rfl | hp
      · exact ⟨st, Or.inr (by simp [initModeToks]), rfl⟩
      · exact ⟨p.1, Or.inr (by simp only [initModeToks, List.mem_cons, List.mem_map]; exact Or.inr ⟨p, hp, rfl⟩), rfl⟩
  | succ n ih =>
    intro toks h mode p hp
    match toks, h with
    | [], _ => exact ih [] (by simp) mode p hp
    | [a], _ =>
      cases mode with
      | idle =>
        simp only [initGo, List.map_cons, List.map_nil, List.mem_singleton] at hp
        subst hp
        exact ⟨a, Or.inl (by simp), rfl⟩
      | inside st e held =>
        simp only [initGo, List.map_cons, List.map_nil, List.mem_cons, List.mem_append, List.mem_reverse,
          List.mem_singleton] at hp
        rcases hp with rfl | hp | rfl | hp
        · exact ⟨st, Or.inr (by simp [initModeToks]), rfl⟩
        · exact ⟨p.1, Or.inr (by simp only [initModeToks, List.mem_cons, List.mem_map]; exact Or.inr ⟨p, hp, rfl⟩), rfl⟩
        · exact ⟨a, Or.inl (by simp), rfl⟩
        · cases hp
    | a :: b :: rest, h =>
      have ih1 := ih rest (by simp at h ⊢; omega)
      have ih2 := ih (b :: rest) (by simp at h ⊢; omega)
      cases mode with
      | idle =>
        simp only [initGo] at hp
        split at hp
        · obtain ⟨u, hu, e⟩ := ih1 _ p hp
          refine ⟨u, Or.inl ?_, e⟩
          rcases hu with hu | hu
          · exact List.mem_cons_of_mem _ (List.mem_cons_of_mem _ hu)
          · simp only [initModeToks, List.map_cons, List.map_nil, List.mem_cons, List.mem_nil_iff, or_false] at hu
            rcases hu with rfl | rfl <;> simp
        · rcases List.mem_cons.mp hp with rfl | hp
          · exact ⟨a, Or.inl (by simp), rfl⟩
          · obtain ⟨u, hu, e⟩ := ih2 _ p hp
            refine ⟨u, Or.inl ?_, e⟩
            rcases hu with hu | hu
            · exact List.mem_cons_of_mem _ hu
            · cases hu
      | inside st e held =>
        simp only [initGo] at hp
        split at hp
        · obtain ⟨u, hu, e'⟩ := ih1 _ p hp
          refine ⟨u, ?_, e'⟩
          rcases hu with hu | hu
          · exact Or.inl (List.mem_cons_of_mem _ (List.mem_cons_of_mem _ hu))
          · simp only [initModeToks, List.map_cons, List.mem_cons] at hu
            rcases hu with rfl | rfl | rfl | hu
            · exact Or.inr (by simp [initModeToks])
            · exact Or.inl (by simp)
            · exact Or.inl (by simp)
            · exact Or.inr (by simp only [initModeToks, List.mem_cons]; exact Or.inr hu)
        · simp only [List.mem_cons, List.mem_append, List.mem_reverse] at hp
          rcases hp with rfl | hp | rfl | hp
          · exact ⟨st, Or.inr (by simp [initModeToks]), rfl⟩
          · exact ⟨p.1, Or.inr (by simp only [initModeToks, List.mem_cons, List.mem_map]; exact Or.inr ⟨p, hp, rfl⟩), rfl⟩
          · exact ⟨a, Or.inl (by simp), rfl⟩
          · obtain ⟨u, hu, e'⟩ := ih2 _ p hp
            refine ⟨u, Or.inl ?_, e'⟩
            rcases hu with hu | hu
            · exact List.mem_cons_of_mem _ hu
            · cases hu

theorem dottedInitialisms_kinds (l : List Tok) : KindsFrom (dottedInitialisms l) l := by
  intro t ht
  unfold dottedInitialisms at ht
  rw [dropFlagged_eq] at ht
  obtain ⟨u, hu, e⟩ := initGo_kinds l.length l (Nat.le_refl _) .idle _ (mem_unflag _ _ ht)
  rcases hu with hu | hu
  · exact Or.inl ⟨u, hu, e⟩
  · cases hu

theorem setSuffix_kind (s : Suffix) (k : Kind) : setSuffix s k = k ∨ ∃ r, setSuffix s k = .number r (some s) := by
  cases k <;> simp [setSuffix]

theorem NS_kinds (src : List Char) : ∀ (n : Nat) (l out : List Tok), l.length ≤ n → NS src l = .ok out →
    KindsFrom out l := by
  intro n
  induction n with
  | zero =>
    intro l out h hns
    have : l = [] := by cases l <;> simp_all
    subst this
    rw [NS_nil] at hns; cases hns
    exact KindsFrom.refl _
  | succ n ih =>
    intro l out h hns
    match l, h with
    | [], _ => rw [NS_nil] at hns; cases hns; exact KindsFrom.refl _
    | [a], _ => rw [NS_single] at hns; cases hns; exact KindsFrom.refl _
    | a :: b :: rest, h =>
      cases hh : suffixHit src a b with
      | error e => rw [NS_cons_err _ _ _ _ e hh] at hns; cases hns
      | ok hit =>
        cases hit with
        | none =>
          rw [NS_cons_none _ _ _ _ hh] at hns
          cases ho : NS src (b :: rest) with
          | error e => rw [ho] at hns; cases hns
          | ok out' =>
            rw [ho] at hns; cases hns
            have := ih (b :: rest) out' (by simp at h ⊢; omega) ho
            intro t ht
            rcases List.mem_cons.mp ht with rfl | ht
            · exact Or.inl ⟨t, by simp, rfl⟩
            · rcases this t ht with ⟨u, hu, e⟩ | hc
              · exact Or.inl ⟨u, List.mem_cons_of_mem _ hu, e⟩
              · exact Or.inr hc
        | some s =>
          rw [NS_cons_some _ _ _ _ s hh] at hns
          cases ho : NS src rest with
          | error e => rw [ho] at hns; cases hns
          | ok out' =>
            rw [ho] at hns; cases hns
            have := ih rest out' (by simp at h ⊢; omega) ho
            intro t ht
            rcases List.mem_cons.mp ht with rfl | ht
            · rcases setSuffix_kind s a.kind with e | ⟨r, e⟩
              · exact Or.inl ⟨a, by simp, e⟩
              · exact Or.inr (Or.inr (Or.inr (Or.inr (Or.inl ⟨r, s, e⟩))))
            · rcases this t ht with ⟨u, hu, e⟩ | hc
              · exact Or.inl ⟨u, List.mem_cons_of_mem _ (List.mem_cons_of_mem _ hu), e⟩
              · exact Or.inr hc

end Harper

namespace Harper
open Harper.Chunks

def FreshK (k : Kind) : Prop := ∀ x, k ≠ .quote (some x)

theorem runLexer_fresh (cls : Cls) (ext : Ext) (pos : Nat) (src : List Char) (l : LexerName) (k : Kind) (n : Nat)
    (h : runLexer cls ext pos src l = some (k, n)) : FreshK k := by
  intro x hx
  subst hx
  cases l <;> simp only [runLexer] at h
  · -- regexish
    unfold lexRegexish at h
    split at h
    · split at h <;> cases h
    · cases h
  · unfold lexPunctuation at h
    split at h
    · cases h
    · split at h
      · cases h
      · split at h <;> cases h
  · simp only [lexTabs] at h; split at h <;> cases h
  · simp only [lexSpaces] at h; split at h <;> cases h
  · simp only [lexNewlines] at h; split at h <;> cases h
  · unfold lexPluralDigit at h
    split at h
    · cases h
    · split at h
      · cases h
      · split at h
        all_goals
          unfold pluralTail at h
          split at h
          · split at h
            · cases h
            · split at h <;> cases h
          · cases h
  · unfold lexHexNumber at h
    split at h
    · split at h
      · split at h
        · cases h
        · split at h <;> cases h
      · cases h
    · cases h
  · unfold lexLongDecade at h
    split at h
    · split at h
      · split at h
        · split at h <;> cases h
        · cases h
      · cases h
    · cases h
  · unfold lexNumber at h
    split at h
    · cases h
    · split at h
      · cases h
      · split at h
        · cases h
        · split at h <;> cases h
  · split at h <;> cases h
  · split at h <;> cases h
  · split at h <;> cases h
  · simp only [lexWord] at h; split at h <;> cases h
  · cases h

theorem lexToken_fresh (cls : Cls) (ext : Ext) (pos : Nat) (src : List Char) (k : Kind) (n : Nat)
    (h : lexToken cls ext pos src = some (k, n)) : FreshK k := by
  unfold lexToken at h
  generalize Tables.lexerOrder = ls at h
  induction ls with
  | nil => cases h
  | cons l ls ih =>
    simp only [firstFound] at h
    cases hr : runLexer cls ext pos src l with
    | none => rw [hr] at h; exact ih h
    | some f =>
      rw [hr] at h
      simp only [Option.some.injEq] at h
      subst h
      exact runLexer_fresh cls ext pos src l k n hr

theorem parseLoop_fresh (cls : Cls) (ext : Ext) : ∀ (fuel cursor : Nat) (rest : List Char) (toks : List Tok),
    parseLoop cls ext fuel cursor rest = .ok toks → ∀ t ∈ toks, FreshK t.kind := by
  intro fuel
  induction fuel with
  | zero => intro cursor rest toks h; cases h
  | succ fuel ih =>
    intro cursor rest toks h
    cases rest with
    | nil => simp only [parseLoop] at h; cases h; simp
    | cons c cs =>
      simp only [parseLoop] at h
      cases hl : lexToken cls ext cursor (c :: cs) with
      | none => rw [hl] at h; cases h
      | some kn =>
        obtain ⟨k, n⟩ := kn
        rw [hl] at h
        simp only at h
        cases hp : parseLoop cls ext fuel (cursor + n) ((c :: cs).drop n) with
        | error e => rw [hp] at h; cases h
        | ok ts =>
          rw [hp] at h
          cases h
          intro t ht
          rcases List.mem_cons.mp ht with rfl | ht
          · exact lexToken_fresh cls ext cursor _ k n hl
          · exact ih _ _ ts hp t ht

theorem parsePlain_fresh (cls : Cls) (ext : Ext) (src : List Char) (toks : List Tok)
    (h : parsePlain cls ext src = .ok toks) : Fresh toks := by
  intro t ht x
  exact parseLoop_fresh cls ext _ _ _ toks h t ht x

end Harper

namespace Harper
open Harper.Chunks

theorem prePasses_kinds (src : List Char) (t0 out : List Tok) (h : prePasses src t0 = .ok out) :
    KindsFrom out t0 := by
  rw [prePasses_eq] at h
  unfold passes48 at h
  have k3 : KindsFrom (passes123 t0) t0 :=
    ((newlinesToBreaks_kinds _).trans (condenseNewlines_kinds _)).trans (condenseSpaces_kinds _)
  cases h4 : condenseContractions src (passes123 t0) with
  | error e => rw [h4] at h; cases h
  | ok t4 =>
    rw [h4] at h
    simp only at h
    have k4 := condensePattern_kinds contractionPat id (Or.inl rfl) src _ t4 h4
    cases h6 : numberSuffixes src (dottedInitialisms t4) with
    | error e => rw [h6] at h; cases h
    | ok t6 =>
      rw [h6] at h
      simp only at h
      rw [numberSuffixes_eq_NS] at h6
      have k6 := (NS_kinds src _ _ t6 (Nat.le_refl _) h6).trans (dottedInitialisms_kinds t4)
      cases h7 : condenseEllipsis src t6 with
      | error e => rw [h7] at h; cases h
      | ok t7 =>
        rw [h7] at h
        simp only at h
        have k7 := condensePattern_kinds ellipsisPat _ (Or.inr rfl) src _ t7 h7
        have k8 := condensePattern_kinds latinPat id (Or.inl rfl) src _ out h
        exact (((k8.trans k7).trans k6).trans k4).trans k3

theorem created_not_quote {k : Kind} (h : Created k) : k.isQuote = false := by
  rcases h with ⟨n, rfl⟩ | ⟨n, rfl⟩ | rfl | ⟨r, s, rfl⟩ | rfl <;> rfl

theorem NoQuotes.of_kinds {out inp : List Tok} (hk : KindsFrom out inp) (h : NoQuotes inp) : NoQuotes out := by
  intro t ht
  rcases hk t ht with ⟨u, hu, e⟩ | hc
  · rw [e]; exact h u hu
  · exact created_not_quote hc

theorem Fresh.of_kinds {out inp : List Tok} (hk : KindsFrom out inp) (h : Fresh inp) : Fresh out := by
  intro t ht x hx
  rcases hk t ht with ⟨u, hu, e⟩ | hc
  · exact h u hu x (e ▸ hx)
  · have := created_not_quote hc
    rw [hx] at this
    cases this

theorem document_eq (cls : Cls) (ext : Ext) (src : List Char) (t0 : List Tok) (h : parsePlain cls ext src = .ok t0) :
    document cls ext src = (prePasses src t0).map matchQuotes := by
  unfold document
  rw [h]
  exact condenseAll_eq src t0

/-- the whole of `Document::new` at a paragraph break -/
theorem document_append' (cls : Cls) (hc : ClsOK cls) (P D : List Char) (hb : BoundaryOK P D)
    (extP extD extPD : Ext) (hloc : ExtLocal extP extD extPD P.length)
    (hokP : ExtOK extP P.length) (hokD : ExtOK extD D.length)
    (X : List Tok) (brk : Tok) (k : Nat) (td0 : List Tok)
    (hP0 : parsePlain cls extP P = .ok (X ++ [brk])) (hD0 : parsePlain cls extD D = .ok td0)
    (hbrk : brk.kind = .newline k) (hk : k ≥ 2)
    (hhead : ∀ c r, td0 = c :: r → c.kind.isNewline = false)
    (hnq : NoQuotes (X ++ [brk])) :
    ∃ A0 pb td, pb.kind = .paragraphBreak ∧ document cls extP P = .ok (A0 ++ [pb]) ∧
      document cls extD D = .ok td ∧
      document cls extPD (P ++ D) = .ok ((A0 ++ [pb]) ++ shiftDoc P.length (A0 ++ [pb]).length td) ∧
      (∀ t ∈ A0 ++ [pb], t.span.stop ≤ P.length) := by
  obtain ⟨tp0', td0', e1, e2, e3⟩ := lex_append' cls hc P D hb extP extD extPD hloc hokP hokD
  rw [hP0] at e1; cases e1
  rw [hD0] at e2; cases e2
  obtain ⟨_, eP, hTP, _⟩ := parseLoop_tiles cls extP P.length hokP (P.length + 1) 0 P (by omega) (by omega)
  obtain ⟨_, eD, hTD, _⟩ := parseLoop_tiles cls extD D.length hokD (D.length + 1) 0 D (by omega) (by omega)
  have eP' : parsePlain cls extP P = _ := eP
  have eD' : parsePlain cls extD D = _ := eD
  rw [hP0] at eP'; cases eP'
  rw [hD0] at eD'; cases eD'
  obtain ⟨Y3, pb, hpb, e123P, e123PD⟩ := passes123_append X td0 brk k P.length hbrk hk hhead
  have hT3 := passes123_tiles _ _ _ hTP
  rw [e123P] at hT3
  obtain ⟨m, hTY3, hTpb⟩ := hT3.of_append
  have hT3D := passes123_tiles _ _ _ hTD
  obtain ⟨x8, y8, s8P, s8D, s8PD, tx8, ty8⟩ := passes48_append P D Y3 (passes123 td0) pb hpb m hTY3 hTpb hT3D
  have pP : prePasses P (X ++ [brk]) = .ok (x8 ++ [pb]) := by rw [prePasses_eq, e123P]; exact s8P
  have pD : prePasses D td0 = .ok y8 := by rw [prePasses_eq]; exact s8D
  have pPD : prePasses (P ++ D) ((X ++ [brk]) ++ shiftToks P.length td0) =
      .ok ((x8 ++ [pb]) ++ shiftToks P.length y8) := by
    rw [prePasses_eq, e123PD, List.append_assoc, List.singleton_append, s8PD]; simp
  have nq : NoQuotes (x8 ++ [pb]) := NoQuotes.of_kinds (prePasses_kinds _ _ _ pP) hnq
  have fr : Fresh y8 := Fresh.of_kinds (prePasses_kinds _ _ _ pD) (parsePlain_fresh cls extD D td0 hD0)
  have hmq : matchQuotes (x8 ++ [pb]) = x8 ++ [pb] := setTwins_noQuotes _ _ _ nq
  refine ⟨x8, pb, matchQuotes y8, hpb, ?_, ?_, ?_, ?_⟩
  · rw [document_eq cls extP P _ hP0, pP]; simp only [Except.map, hmq]
  · rw [document_eq cls extD D _ hD0, pD]; rfl
  · rw [document_eq cls extPD (P ++ D) _ e3, pPD]
    simp only [Except.map]
    rw [matchQuotes_append P.length _ _ nq fr]
  · intro t ht
    have hpbs : pb.span.start = m ∧ m < pb.span.stop ∧ pb.span.stop = P.length := by
      obtain ⟨h1, h2, h3⟩ := hTpb; simp only [Tiles] at h3; exact ⟨h1, h2, h3⟩
    rcases List.mem_append.mp ht with h | h
    · have := tiles_stop_le tx8 t h; omega
    · simp only [List.mem_singleton] at h; subst h; omega

end Harper

namespace Harper
open Harper.Chunks

theorem cw_pos_head {α} (q : α → Bool) (l : List α) (h : countWhile q l > 0) : ∃ c r, l = c :: r ∧ q c = true := by
  cases l with
  | nil => simp [countWhile] at h
  | cons c r =>
    simp only [countWhile] at h
    split at h
    · exact ⟨c, r, rfl, by assumption⟩
    · omega

theorem runLexer_newline (cls : Cls) (ext : Ext) (pos : Nat) (src : List Char) (l : LexerName) (m n : Nat)
    (h : runLexer cls ext pos src l = some (.newline m, n)) : src.head? = some '\n' := by
  cases l <;> simp only [runLexer] at h
  · unfold lexRegexish at h
    split at h
    · split at h <;> cases h
    · cases h
  · unfold lexPunctuation at h
    split at h
    · cases h
    · split at h
      · cases h
      · split at h <;> cases h
  · simp only [lexTabs] at h; split at h <;> cases h
  · simp only [lexSpaces] at h; split at h <;> cases h
  · simp only [lexNewlines] at h
    split at h
    · rename_i hpos
      obtain ⟨c, r, rfl, hc⟩ := cw_pos_head _ _ hpos
      simp only [beq_iff_eq] at hc
      subst hc; rfl
    · cases h
  · unfold lexPluralDigit at h
    split at h
    · cases h
    · split at h
      · cases h
      · split at h
        all_goals
          unfold pluralTail at h
          split at h
          · split at h
            · cases h
            · split at h <;> cases h
          · cases h
  · unfold lexHexNumber at h
    split at h
    · split at h
      · split at h
        · cases h
        · split at h <;> cases h
      · cases h
    · cases h
  · unfold lexLongDecade at h
    split at h
    · split at h
      · split at h
        · split at h <;> cases h
        · cases h
      · cases h
    · cases h
  · unfold lexNumber at h
    split at h
    · cases h
    · split at h
      · cases h
      · split at h
        · cases h
        · split at h <;> cases h
  · split at h <;> cases h
  · split at h <;> cases h
  · split at h <;> cases h
  · simp only [lexWord] at h; split at h <;> cases h
  · cases h

theorem lexToken_newline (cls : Cls) (ext : Ext) (pos : Nat) (src : List Char) (m n : Nat)
    (h : lexToken cls ext pos src = some (.newline m, n)) : src.head? = some '\n' := by
  unfold lexToken at h
  generalize Tables.lexerOrder = ls at h
  induction ls with
  | nil => cases h
  | cons l ls ih =>
    simp only [firstFound] at h
    cases hr : runLexer cls ext pos src l with
    | none => rw [hr] at h; exact ih h
    | some f =>
      rw [hr] at h
      simp only [Option.some.injEq] at h
      subst h
      exact runLexer_newline cls ext pos src l m n hr

/-- a text that does not start with a newline does not start with a `Newline` token -/
theorem parsePlain_head (cls : Cls) (ext : Ext) (D : List Char) (hD : D.head? ≠ some '\n') (td0 : List Tok)
    (h : parsePlain cls ext D = .ok td0) : ∀ c r, td0 = c :: r → c.kind.isNewline = false := by
  intro c r hc
  subst hc
  unfold parsePlain at h
  cases D with
  | nil => simp [parseLoop] at h
  | cons d ds =>
    rw [List.length_cons, parseLoop] at h
    cases hl : lexToken cls ext 0 (d :: ds) with
    | none => rw [hl] at h; cases h
    | some kn =>
      obtain ⟨k, n⟩ := kn
      rw [hl] at h
      simp only at h
      split at h
      · rename_i ts _
        simp only [Except.ok.injEq, List.cons.injEq] at h
        rw [← h.1]
        cases k with
        | newline m => exact absurd (lexToken_newline cls ext 0 _ m n hl) hD
        | _ => rfl
      · cases h

/-- the lints of one rule on a document -/
def lintDoc (cls : Cls) (ext : Ext) (pieces : List Tok → List (List Tok)) (r : Rule) (src : List Char) :
    Except Panic (List PLint) :=
  (document cls ext src).map (lintBy pieces r src)

/-- the lints of a group of rules on a document -/
def lintGroupDoc (cls : Cls) (ext : Ext) (pieces : List Tok → List (List Tok)) (rs : List Rule) (src : List Char) :
    Except Panic (List PLint) :=
  (document cls ext src).map (lintGroup pieces rs src)

theorem getLast?_append_replicate (P0 : List Char) (k : Nat) (hk : 1 ≤ k) :
    (P0 ++ List.replicate k '\n').getLast? = some '\n' := by
  obtain ⟨j, rfl⟩ : ∃ j, k = j + 1 := ⟨k - 1, by omega⟩
  rw [List.replicate_succ', ← List.append_assoc, List.getLast?_append]
  simp

end Harper
