import Harper.Model.Condense
import Harper.Lemmas.Parse
/-! Tiling is preserved by every condensing pass of `Document::parse`. -/
namespace Harper

/-! ## `Tiles` -/

theorem Tiles.le {ts : List Tok} {a b : Nat} (h : Tiles ts a b) : a ≤ b := by
  induction ts generalizing a with
  | nil => simp [Tiles] at h; omega
  | cons t ts ih => obtain ⟨h1, h2, h3⟩ := h; have := ih h3; omega

theorem Tiles.eq_nil {ts : List Tok} {a : Nat} (h : Tiles ts a a) : ts = [] := by
  cases ts with
  | nil => rfl
  | cons t ts => obtain ⟨h1, h2, h3⟩ := h; have := h3.le; omega

theorem Tiles.append {l1 l2 : List Tok} {a m b : Nat} (h1 : Tiles l1 a m) (h2 : Tiles l2 m b) :
    Tiles (l1 ++ l2) a b := by
  induction l1 generalizing a with
  | nil => simp [Tiles] at h1; subst h1; simpa using h2
  | cons t ts ih => obtain ⟨x, y, z⟩ := h1; exact ⟨x, y, ih z⟩

theorem Tiles.of_append {l1 l2 : List Tok} {a b : Nat} (h : Tiles (l1 ++ l2) a b) :
    ∃ m, Tiles l1 a m ∧ Tiles l2 m b := by
  induction l1 generalizing a with
  | nil => exact ⟨a, rfl, by simpa using h⟩
  | cons t ts ih =>
    obtain ⟨x, y, z⟩ := h
    obtain ⟨m, h1, h2⟩ := ih z
    exact ⟨m, ⟨x, y, h1⟩, h2⟩

/-! ## flagged vectors -/

/-- what `remove_indices` leaves of a flagged vector -/
def unflag {α} (l : List (α × Bool)) : List α := (l.filter (fun p => !p.2)).map (·.1)

@[simp] theorem unflag_nil {α} : unflag ([] : List (α × Bool)) = [] := rfl
@[simp] theorem unflag_cons_true {α} (x : α) (l : List (α × Bool)) : unflag ((x, true) :: l) = unflag l := by
  simp [unflag]
@[simp] theorem unflag_cons_false {α} (x : α) (l : List (α × Bool)) :
    unflag ((x, false) :: l) = x :: unflag l := by
  simp [unflag]
@[simp] theorem unflag_append {α} (l1 l2 : List (α × Bool)) : unflag (l1 ++ l2) = unflag l1 ++ unflag l2 := by
  simp [unflag]
@[simp] theorem unflag_map_false {α} (l : List α) : unflag (l.map (·, false)) = l := by
  induction l with
  | nil => rfl
  | cons x xs ih => simp [ih]

theorem flaggedIdx_ge {α} (i : Nat) (l : List (α × Bool)) : ∀ j ∈ flaggedIdx i l, i ≤ j := by
  induction l generalizing i with
  | nil => simp [flaggedIdx]
  | cons p r ih =>
    obtain ⟨x, b⟩ := p
    cases b
    · intro j hj; simp only [flaggedIdx] at hj; have := ih (i + 1) j hj; omega
    · intro j hj
      simp only [flaggedIdx, List.mem_cons] at hj
      rcases hj with rfl | hj
      · omega
      · have := ih (i + 1) j hj; omega

theorem removeIndices_flagged {α} (i : Nat) (l : List (α × Bool)) :
    removeIndices i (flaggedIdx i l) (l.map (·.1)) = unflag l := by
  induction l generalizing i with
  | nil => cases h : flaggedIdx i ([] : List (α × Bool)) <;> simp [removeIndices]
  | cons p r ih =>
    obtain ⟨x, b⟩ := p
    cases b
    · simp only [flaggedIdx, List.map_cons, unflag_cons_false]
      have hge := flaggedIdx_ge (i + 1) r
      cases hq : flaggedIdx (i + 1) r with
      | nil => simp only [removeIndices]; rw [← hq, ih]
      | cons r0 q =>
        have : i + 1 ≤ r0 := hge r0 (by simp [hq])
        simp only [removeIndices]
        rw [if_neg (by omega), ← hq, ih]
    · simp only [flaggedIdx, List.map_cons, unflag_cons_true, removeIndices, if_true]
      exact ih (i + 1)

theorem dropFlagged_eq {α} (l : List (α × Bool)) : dropFlagged l = unflag l :=
  removeIndices_flagged 0 l

end Harper

namespace Harper

/-! ## `condense_spaces` / `condense_newlines` -/

theorem Tiles.single {t : Tok} {p : Nat} (h1 : t.span.start = p) (h2 : p < t.span.stop) :
    Tiles [t] p t.span.stop := ⟨h1, h2, rfl⟩

/-- `held` = the tokens merged into the run so far: all flagged -/
theorem runGo_tiles_aux (cfg : RunCfg) (toks : List Tok) :
    (∀ p b, Tiles toks p b → Tiles (unflag (runGo cfg .scan toks)) p b) ∧
    (∀ s n held p b, Tiles toks p b → s.start < s.stop → unflag held.reverse = [] → s.stop = p →
      Tiles (unflag (runGo cfg (.absorb s n held) toks)) s.start b) := by
  induction toks with
  | nil =>
    refine ⟨?_, ?_⟩
    · intro p b h; simpa [runGo] using h
    · intro s n held p b h hlt hh hs
      simp only [Tiles] at h; subst h; subst hs
      simp only [runGo, unflag_cons_false, hh]
      exact ⟨rfl, hlt, rfl⟩
  | cons c r ih =>
    obtain ⟨ih1, ih2⟩ := ih
    have emit : ∀ (s : Span) (n : Nat) (held : List (Tok × Bool)) (p b : Nat), Tiles (c :: r) p b →
        s.start < s.stop → unflag held.reverse = [] → s.stop = p →
        Tiles (unflag ((⟨s, cfg.mkKind n⟩, false) :: (held.reverse ++ (c, false) :: runGo cfg .scan r)))
          s.start b := by
      intro s n held p b h hlt hh hs
      obtain ⟨c1, c2, c3⟩ := h
      subst hs
      simp only [unflag_cons_false, unflag_append, hh, List.nil_append]
      exact ⟨rfl, hlt, c1, c2, ih1 _ _ c3⟩
    refine ⟨?_, ?_⟩
    · intro p b h
      obtain ⟨c1, c2, c3⟩ := h
      simp only [runGo]
      split
      · rename_i n _
        have := ih2 c.span n [] c.span.stop b c3 (by omega) (by simp) rfl
        rw [c1] at this; exact this
      · simp only [unflag_cons_false]
        exact ⟨c1, c2, ih1 _ _ c3⟩
    · intro s n held p b h hlt hh hs
      simp only [runGo]
      split
      · exact emit s n held p b h hlt hh hs
      · split
        · rename_i m hm
          obtain ⟨c1, c2, c3⟩ := h
          exact ih2 ⟨s.start, c.span.stop⟩ (n + m) ((c, true) :: held) c.span.stop b c3
            (by simp; omega) (by simp [hh]) rfl
        · exact emit s n held p b h hlt hh hs

theorem condenseSpaces_tiles' (toks : List Tok) (a b : Nat) (h : Tiles toks a b) :
    Tiles (condenseSpaces toks) a b := by
  unfold condenseSpaces
  rw [dropFlagged_eq]
  exact (runGo_tiles_aux spacesCfg toks).1 a b h

theorem condenseNewlines_tiles' (toks : List Tok) (a b : Nat) (h : Tiles toks a b) :
    Tiles (condenseNewlines toks) a b := by
  unfold condenseNewlines
  rw [dropFlagged_eq]
  exact (runGo_tiles_aux newlinesCfg toks).1 a b h

theorem map_kind_tiles (f : Tok → Tok) (hf : ∀ t, (f t).span = t.span) (toks : List Tok) (a b : Nat)
    (h : Tiles toks a b) : Tiles (toks.map f) a b := by
  induction toks generalizing a with
  | nil => simpa using h
  | cons t ts ih =>
    obtain ⟨x, y, z⟩ := h
    simp only [List.map_cons]
    refine ⟨by rw [hf]; exact x, by rw [hf]; exact y, ?_⟩
    rw [hf]; exact ih _ z

theorem newlinesToBreaks_tiles' (toks : List Tok) (a b : Nat) (h : Tiles toks a b) :
    Tiles (newlinesToBreaks toks) a b := by
  unfold newlinesToBreaks
  exact map_kind_tiles (fun t => { t with kind := breakKind t.kind }) (fun _ => rfl) toks a b h

end Harper

namespace Harper

/-! ## `condense_dotted_initialisms` -/

theorem initGo_tiles_aux : ∀ (n : Nat) (toks : List Tok), toks.length ≤ n →
    (∀ p b, Tiles toks p b → Tiles (unflag (initGo .idle toks)) p b) ∧
    (∀ st e held p b, Tiles toks p b → st.span.start < e → e = p → unflag held.reverse = [] →
      Tiles (unflag (initGo (.inside st e held) toks)) st.span.start b) := by
  intro n
  induction n with
  | zero =>
    intro toks hlen
    have : toks = [] := by cases toks <;> simp_all
    subst this
    refine ⟨fun p b h => by simpa [initGo] using h, ?_⟩
    intro st e held p b h hlt he hnil
    simp only [Tiles] at h
    subst he; subst h
    simp [initGo, hnil, Tiles, hlt]
  | succ n ih =>
    intro toks hlen
    match toks, hlen with
    | [], _ => exact ih [] (by simp)
    | [a], _ =>
      refine ⟨fun p b h => by simpa [initGo] using h, ?_⟩
      intro st e held p b h hlt he hnil
      subst he
      simp only [initGo, List.map_cons, List.map_nil, unflag_cons_false, unflag_append, hnil,
        List.nil_append, unflag_nil]
      exact ⟨rfl, hlt, h⟩
    | a :: b :: rest, hlen =>
      have ihr := ih rest (by simp at hlen ⊢; omega)
      have ihb := ih (b :: rest) (by simp at hlen ⊢; omega)
      refine ⟨?_, ?_⟩
      · intro p bb h
        obtain ⟨a1, a2, b1, b2, hr⟩ := h
        simp only [initGo]
        split
        · have := ihr.2 a b.span.stop [(b, true)] b.span.stop bb hr (by omega) rfl (by simp)
          rw [a1] at this; exact this
        · simp only [unflag_cons_false]
          exact ⟨a1, a2, ihb.1 _ _ ⟨b1, b2, hr⟩⟩
      · intro st e held p bb h hlt he hnil
        subst he
        obtain ⟨a1, a2, b1, b2, hr⟩ := h
        simp only [initGo]
        split
        · exact ihr.2 st b.span.stop _ b.span.stop bb hr (by omega) rfl (by simp [hnil])
        · simp only [unflag_cons_false, unflag_append, hnil, List.nil_append]
          exact ⟨rfl, hlt, a1, a2, ihb.1 _ _ ⟨b1, b2, hr⟩⟩

theorem dottedInitialisms_tiles' (toks : List Tok) (a b : Nat) (h : Tiles toks a b) :
    Tiles (dottedInitialisms toks) a b := by
  unfold dottedInitialisms
  rw [dropFlagged_eq]
  exact (initGo_tiles_aux toks.length toks (Nat.le_refl _)).1 a b h

end Harper

namespace Harper

/-! ## `condense_indices`, `condense_number_suffixes` -/

theorem sliceE_cons {α} (a : α) (l : List α) (x y : Nat) :
    sliceE (a :: l) (x + 1) (y + 1) = sliceE l x y := by
  unfold sliceE
  simp only [List.length_cons, List.drop_succ_cons]
  have : (y + 1) - (x + 1) = y - x := by omega
  rw [this]
  by_cases h : x > y ∨ y > l.length
  · rw [if_pos h, if_pos (by omega)]
  · rw [if_neg h, if_neg (by omega)]

theorem sliceE_zero_cons {α} (a : α) (l : List α) (y : Nat) :
    sliceE (a :: l) 0 (y + 1) = (sliceE l 0 y).map (a :: ·) := by
  unfold sliceE
  simp only [List.length_cons, List.drop_zero]
  by_cases h : y > l.length
  · rw [if_pos (by omega), if_pos (by omega)]; rfl
  · rw [if_neg (by omega), if_neg (by omega)]; simp [Except.map]

theorem stretchSpans_cons (a : Tok) (idx : List Nat) (l : List Tok) :
    stretchSpans 2 (idx.map (· + 1)) (a :: l) = (stretchSpans 2 idx l).map (a :: ·) := by
  induction idx generalizing l with
  | nil => simp [stretchSpans, Except.map]
  | cons i r ih =>
    simp only [List.map_cons, stretchSpans]
    have e1 : i + 1 + 2 - 1 = (i + 2 - 1) + 1 := by omega
    rw [if_neg (by omega), if_neg (by omega), e1, List.getElem?_cons_succ, List.getElem?_cons_succ]
    cases h1 : l[i + 2 - 1]? <;> cases h2 : l[i]? <;> simp [Except.map, List.set_cons_succ, ih]

theorem keepPieces_cons (a : Tok) (old : List Tok) (idx : List Nat) :
    keepPieces 2 (a :: old) (idx.map (· + 1)) = keepPieces 2 old idx := by
  match idx with
  | [] => simp [keepPieces]
  | [x] => simp [keepPieces]
  | x :: y :: r =>
    have ih := keepPieces_cons a old (y :: r)
    simp only [List.map_cons] at ih ⊢
    simp only [keepPieces]
    have e : x + 1 + 2 = (x + 2) + 1 := by omega
    rw [List.getElem?_cons_succ, e, sliceE_cons, ih]

end Harper

namespace Harper

theorem condenseIndices_nil (l : List Tok) : condenseIndices [] 2 l = .ok l := by
  simp [condenseIndices, stretchSpans, keepPieces, sliceE]

theorem getLast?_map_add {l : List Nat} (k : Nat) :
    (l.map (· + k)).getLast? = l.getLast?.map (· + k) := by
  simp [List.getLast?_map]

theorem condenseIndices_cons (a : Tok) (idx : List Nat) (l : List Tok) :
    condenseIndices (idx.map (· + 1)) 2 (a :: l) = (condenseIndices idx 2 l).map (a :: ·) := by
  cases idx with
  | nil => simp [condenseIndices_nil, Except.map]
  | cons i r =>
    unfold condenseIndices
    rw [stretchSpans_cons]
    cases hs : stretchSpans 2 (i :: r) l with
    | error e => simp [Except.map]
    | ok old =>
      simp only [Except.map]
      rw [keepPieces_cons, getLast?_map_add]
      simp only [List.map_cons, List.head?_cons, Option.getD_some, List.length_cons]
      rw [sliceE_zero_cons]
      obtain ⟨x, hx⟩ : ∃ x, (i :: r).getLast? = some x := by
        cases h : (i :: r).getLast? with
        | none => simp at h
        | some x => exact ⟨x, rfl⟩
      rw [hx]
      simp only [Option.map_some, Option.getD_some]
      have e : x + 1 + 2 = (x + 2) + 1 := by omega
      rw [e, sliceE_cons]
      cases sliceE old 0 i <;> cases keepPieces 2 old (i :: r) <;> cases sliceE old (x + 2) old.length <;>
        simp [Except.map]

end Harper

namespace Harper

theorem map_add_two (idx : List Nat) : idx.map (· + 2) = (idx.map (· + 1)).map (· + 1) := by
  induction idx with
  | nil => rfl
  | cons x r ih => simp [ih]

theorem sliceE_cons2 {α} (a b : α) (l : List α) (x y : Nat) :
    sliceE (a :: b :: l) (x + 2) (y + 2) = sliceE l x y := by
  rw [show x + 2 = (x + 1) + 1 from rfl, show y + 2 = (y + 1) + 1 from rfl, sliceE_cons, sliceE_cons]

theorem stretchSpans_zero (a b : Tok) (idx : List Nat) (l : List Tok) :
    stretchSpans 2 (0 :: idx) (a :: b :: l) =
      stretchSpans 2 idx (⟨⟨a.span.start, b.span.stop⟩, a.kind⟩ :: b :: l) := by
  simp [stretchSpans]

theorem condenseIndices_hit (a b : Tok) (idx : List Nat) (l : List Tok) :
    condenseIndices (0 :: idx.map (· + 2)) 2 (a :: b :: l) =
      (condenseIndices idx 2 l).map (⟨⟨a.span.start, b.span.stop⟩, a.kind⟩ :: ·) := by
  cases idx with
  | nil =>
    rw [condenseIndices_nil]
    unfold condenseIndices
    rw [List.map_nil, stretchSpans_zero]
    have h0 : ∀ X : List Tok, stretchSpans 2 [] X = .ok X := fun X => by simp [stretchSpans]
    rw [h0]
    have h2 : ¬ (l.length + 1 + 1 < 2) := by omega
    simp [keepPieces, sliceE, Except.map, h2]
  | cons c r =>
    unfold condenseIndices
    rw [stretchSpans_zero, map_add_two, stretchSpans_cons, stretchSpans_cons]
    cases hs : stretchSpans 2 (c :: r) l with
    | error e => simp [Except.map]
    | ok old =>
      simp only [Except.map, List.head?_cons, Option.getD_some]
      obtain ⟨x, hx⟩ : ∃ x, (c :: r).getLast? = some x := by
        cases h : (c :: r).getLast? with
        | none => simp at h
        | some x => exact ⟨x, rfl⟩
      have hl : (0 :: List.map (· + 1) (List.map (· + 1) (c :: r))).getLast? = some (x + 1 + 1) := by
        simp only [List.map_cons, List.getLast?_cons_cons]
        have := congrArg (Option.map (· + 1)) (congrArg (Option.map (· + 1)) hx)
        rw [← List.getLast?_map, ← List.getLast?_map] at this
        simpa using this
      rw [hl, hx]
      simp only [Option.map_some, Option.getD_some, List.length_cons, List.map_cons, keepPieces,
        List.getElem?_cons_zero]
      have e1 : c + 1 + 1 = c + 2 := rfl
      have e2 : x + 1 + 1 + 2 = (x + 2) + 2 := by omega
      have e3 : old.length + 1 + 1 = old.length + 2 := rfl
      have hk := (keepPieces_cons ⟨⟨a.span.start, b.span.stop⟩, a.kind⟩ (b :: old) ((c :: r).map (· + 1))).trans
        (keepPieces_cons b old (c :: r))
      simp only [List.map_cons] at hk
      rw [hk, e1, e2, e3, sliceE_cons2, sliceE_cons2]
      have h0 : sliceE (⟨⟨a.span.start, b.span.stop⟩, a.kind⟩ :: b :: old) 0 0 = .ok [] := by
        simp [sliceE]
      rw [h0]
      cases sliceE old 0 c <;> cases keepPieces 2 old (c :: r) <;> cases sliceE old (x + 2) old.length <;>
        simp

end Harper

namespace Harper

theorem map_add_one_add (l : List Nat) (i : Nat) : (l.map (· + 1)).map (· + i) = l.map (· + (i + 1)) := by
  induction l with
  | nil => rfl
  | cons x r ih => simp only [List.map_cons, ih]; congr 1; omega

/-- shifting the start index of the scan shifts the indices found -/
theorem suffixScan_shift (src : List Char) (toks : List Tok) (i : Nat) :
    suffixScan src i toks = (suffixScan src 0 toks).map (fun r => (r.1, r.2.map (· + i))) := by
  induction toks generalizing i with
  | nil => simp [suffixScan, Except.map]
  | cons a t ih =>
    cases t with
    | nil => simp [suffixScan, Except.map]
    | cons b rest =>
      unfold suffixScan
      cases suffixHit src a b with
      | error e => simp [Except.map]
      | ok hit =>
        simp only
        rw [ih (i + 1), ih (0 + 1)]
        cases suffixScan src 0 (b :: rest) with
        | error e => simp [Except.map]
        | ok r =>
          obtain ⟨ts, idx⟩ := r
          cases hit <;> simp [Except.map] <;> intros <;> omega

theorem isWord_not_isNumber {k : Kind} (h : k.isWord = true) : k.isNumber = false := by
  cases k <;> simp_all [Kind.isWord, Kind.isNumber]

theorem suffixScan_word (src : List Char) (b : Tok) (rest : List Tok) (hb : b.kind.isWord = true) :
    suffixScan src 0 (b :: rest) =
      (suffixScan src 0 rest).map (fun r => (b :: r.1, r.2.map (· + 1))) := by
  cases rest with
  | nil => simp [suffixScan, Except.map]
  | cons c rest' =>
    rw [suffixScan]
    have : suffixHit src b c = .ok none := by simp [suffixHit, isWord_not_isNumber hb]
    rw [this, suffixScan_shift]
    cases suffixScan src 0 (c :: rest') with
    | error e => simp [Except.map]
    | ok r => simp [Except.map]

theorem fromChars_ok_of_len2 (cs : List Char) (h : cs.length = 2) : ∃ r, fromChars cs = .ok r := by
  unfold fromChars
  split
  · exact ⟨_, rfl⟩
  · match cs, h with
    | [a, b], _ => exact ⟨_, rfl⟩

theorem getContent_ok {α} (s : Span) (src : List α) (h1 : s.start < s.stop) (h2 : s.stop ≤ src.length) :
    s.getContent src = .ok ((src.drop s.start).take (s.stop - s.start)) := by
  unfold Span.getContent
  rw [if_neg (by omega), if_neg (by omega)]

theorem suffixHit_ok (src : List Char) (a b : Tok) (h1 : b.span.start < b.span.stop)
    (h2 : b.span.stop ≤ src.length) : ∃ r, suffixHit src a b = .ok r := by
  unfold suffixHit
  split
  · rw [if_neg (by omega)]
    split
    · exact ⟨_, rfl⟩
    · rename_i hlen
      rw [getContent_ok _ _ h1 h2]
      simp only
      apply fromChars_ok_of_len2
      simp only [Span.len, bne_iff_ne, ne_eq, Decidable.not_not] at hlen
      simp; omega
  · exact ⟨_, rfl⟩

theorem suffixHit_some (src : List Char) (a b : Tok) (s : Suffix) (h : suffixHit src a b = .ok (some s)) :
    b.kind.isWord = true := by
  unfold suffixHit at h
  split at h
  · rename_i hc; simp at hc; exact hc.2
  · cases h

theorem suffixes_tiles_aux (src : List Char) : ∀ (n : Nat) (toks : List Tok), toks.length ≤ n →
    ∀ p q, Tiles toks p q → q ≤ src.length →
    ∃ ts idx out, suffixScan src 0 toks = .ok (ts, idx) ∧ condenseIndices idx 2 ts = .ok out ∧
      Tiles out p q := by
  intro n
  induction n with
  | zero =>
    intro toks hlen p q h _
    have : toks = [] := by cases toks <;> simp_all
    subst this
    exact ⟨[], [], [], by simp [suffixScan], condenseIndices_nil _, h⟩
  | succ n ih =>
    intro toks hlen p q h hq
    match toks, hlen with
    | [], _ => exact ⟨[], [], [], by simp [suffixScan], condenseIndices_nil _, h⟩
    | [a], _ => exact ⟨[a], [], [a], by simp [suffixScan], condenseIndices_nil _, h⟩
    | a :: b :: rest, hlen =>
      obtain ⟨a1, a2, b1, b2, hr⟩ := h
      have hbq : b.span.stop ≤ q := hr.le
      obtain ⟨hit, hhit⟩ := suffixHit_ok src a b (by omega) (by omega)
      cases hit with
      | none =>
        obtain ⟨ts1, idx0, out1, e1, e2, e3⟩ := ih (b :: rest) (by simp at hlen ⊢; omega) a.span.stop q
          ⟨b1, b2, hr⟩ hq
        refine ⟨a :: ts1, idx0.map (· + 1), a :: out1, ?_, ?_, ⟨a1, a2, e3⟩⟩
        · rw [suffixScan, hhit, suffixScan_shift, e1]; simp [Except.map]
        · rw [condenseIndices_cons, e2]; rfl
      | some s =>
        have hw := suffixHit_some src a b s hhit
        obtain ⟨ts2, idx2, out2, e1, e2, e3⟩ := ih rest (by simp at hlen ⊢; omega) b.span.stop q hr hq
        refine ⟨⟨a.span, setSuffix s a.kind⟩ :: b :: ts2, 0 :: idx2.map (· + 2),
          ⟨⟨a.span.start, b.span.stop⟩, setSuffix s a.kind⟩ :: out2, ?_, ?_, ⟨a1, by simp; omega, e3⟩⟩
        · rw [suffixScan, hhit, suffixScan_shift, suffixScan_word _ _ _ hw, e1]
          simp [Except.map]
        · rw [condenseIndices_hit, e2]; rfl

theorem numberSuffixes_tiles' (src : List Char) (toks : List Tok) (p q : Nat) (h : Tiles toks p q)
    (hq : q ≤ src.length) : ∃ out, numberSuffixes src toks = .ok out ∧ Tiles out p q := by
  unfold numberSuffixes
  split
  · exact ⟨toks, rfl, h⟩
  · obtain ⟨ts, idx, out, e1, e2, e3⟩ := suffixes_tiles_aux src toks.length toks (Nat.le_refl _) p q h hq
    rw [e1]
    exact ⟨out, e2, e3⟩

end Harper
