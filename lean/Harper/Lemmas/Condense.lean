import Harper.Model.Condense
import Harper.Lemmas.Parse
/-! Tiling is preserved by every condensing pass of `Document::parse`. -/
namespace Harper

/-! ## `Tiles` -/

theorem Tiles.le {ts : List Tok} {a b : Nat} (h : Tiles ts a b) : a ≤ b := by
  induction ts generalizing a with
  | nil => simp [Tiles] at h; omega
  | cons t ts ih => obtain ⟨h1, h2, h3⟩ := h; have := ih h3; omega

theorem Tiles.eq_nil {ts : List Tok} {a : Nat} (h : Tiles ts a a) : ts = [] := by
  cases ts with
  | nil => rfl
  | cons t ts => obtain ⟨h1, h2, h3⟩ := h; have := h3.le; omega

theorem Tiles.append {l1 l2 : List Tok} {a m b : Nat} (h1 : Tiles l1 a m) (h2 : Tiles l2 m b) :
    Tiles (l1 ++ l2) a b := by
  induction l1 generalizing a with
  | nil => simp [Tiles] at h1; subst h1; simpa using h2
  | cons t ts ih => obtain ⟨x, y, z⟩ := h1; exact ⟨x, y, ih z⟩

theorem Tiles.of_append {l1 l2 : List Tok} {a b : Nat} (h : Tiles (l1 ++ l2) a b) :
    ∃ m, Tiles l1 a m ∧ Tiles l2 m b := by
  induction l1 generalizing a with
  | nil => exact ⟨a, rfl, by simpa using h⟩
  | cons t ts ih =>
    obtain ⟨x, y, z⟩ := h
    obtain ⟨m, h1, h2⟩ := ih z
    exact ⟨m, ⟨x, y, h1⟩, h2⟩

/-! ## flagged vectors -/

/-- what `remove_indices` leaves of a flagged vector -/
def unflag {α} (l : List (α × Bool)) : List α := (l.filter (fun p => !p.2)).map (·.1)

@[simp] theorem unflag_nil {α} : unflag ([] : List (α × Bool)) = [] := rfl
@[simp] theorem unflag_cons_true {α} (x : α) (l : List (α × Bool)) : unflag ((x, true) :: l) = unflag l := by
  simp [unflag]
@[simp] theorem unflag_cons_false {α} (x : α) (l : List (α × Bool)) :
    unflag ((x, false) :: l) = x :: unflag l := by
  simp [unflag]
@[simp] theorem unflag_append {α} (l1 l2 : List (α × Bool)) : unflag (l1 ++ l2) = unflag l1 ++ unflag l2 := by
  simp [unflag]
@[simp] theorem unflag_map_false {α} (l : List α) : unflag (l.map (·, false)) = l := by
  induction l with
  | nil => rfl
  | cons x xs ih => simp [ih]

theorem flaggedIdx_ge {α} (i : Nat) (l : List (α × Bool)) : ∀ j ∈ flaggedIdx i l, i ≤ j := by
  induction l generalizing i with
  | nil => simp [flaggedIdx]
  | cons p r ih =>
    obtain ⟨x, b⟩ := p
    cases b
    · intro j hj; simp only [flaggedIdx] at hj; have := ih (i + 1) j hj; omega
    · intro j hj
      simp only [flaggedIdx, List.mem_cons] at hj
      rcases hj with rfl | hj
      · omega
      · have := ih (i + 1) j hj; omega

theorem removeIndices_flagged {α} (i : Nat) (l : List (α × Bool)) :
    removeIndices i (flaggedIdx i l) (l.map (·.1)) = unflag l := by
  induction l generalizing i with
  | nil => cases h : flaggedIdx i ([] : List (α × Bool)) <;> simp [removeIndices]
  | cons p r ih =>
    obtain ⟨x, b⟩ := p
    cases b
    · simp only [flaggedIdx, List.map_cons, unflag_cons_false]
      have hge := flaggedIdx_ge (i + 1) r
      cases hq : flaggedIdx (i + 1) r with
      | nil => simp only [removeIndices]; rw [← hq, ih]
      | cons r0 q =>
        have : i + 1 ≤ r0 := hge r0 (by simp [hq])
        simp only [removeIndices]
        rw [if_neg (by omega), ← hq, ih]
    · simp only [flaggedIdx, List.map_cons, unflag_cons_true, removeIndices, if_true]
      exact ih (i + 1)

theorem dropFlagged_eq {α} (l : List (α × Bool)) : dropFlagged l = unflag l :=
  removeIndices_flagged 0 l

end Harper

namespace Harper

/-! ## `condense_spaces` / `condense_newlines` -/

theorem Tiles.single {t : Tok} {p : Nat} (h1 : t.span.start = p) (h2 : p < t.span.stop) :
    Tiles [t] p t.span.stop := ⟨h1, h2, rfl⟩

/-- `held` = the tokens merged into the run so far: all flagged -/
theorem runGo_tiles_aux (cfg : RunCfg) (toks : List Tok) :
    (∀ p b, Tiles toks p b → Tiles (unflag (runGo cfg .scan toks)) p b) ∧
    (∀ s n held p b, Tiles toks p b → s.start < s.stop → unflag held.reverse = [] → s.stop = p →
      Tiles (unflag (runGo cfg (.absorb s n held) toks)) s.start b) := by
  induction toks with
  | nil =>
    refine ⟨?_, ?_⟩
    · intro p b h; simpa [runGo] using h
    · intro s n held p b h hlt hh hs
      simp only [Tiles] at h; subst h; subst hs
      simp only [runGo, unflag_cons_false, hh]
      exact ⟨rfl, hlt, rfl⟩
  | cons c r ih =>
    obtain ⟨ih1, ih2⟩ := ih
    have emit : ∀ (s : Span) (n : Nat) (held : List (Tok × Bool)) (p b : Nat), Tiles (c :: r) p b →
        s.start < s.stop → unflag held.reverse = [] → s.stop = p →
        Tiles (unflag ((⟨s, cfg.mkKind n⟩, false) :: (held.reverse ++ (c, false) :: runGo cfg .scan r)))
          s.start b := by
      intro s n held p b h hlt hh hs
      obtain ⟨c1, c2, c3⟩ := h
      subst hs
      simp only [unflag_cons_false, unflag_append, hh, List.nil_append]
      exact ⟨rfl, hlt, c1, c2, ih1 _ _ c3⟩
    refine ⟨?_, ?_⟩
    · intro p b h
      obtain ⟨c1, c2, c3⟩ := h
      simp only [runGo]
      split
      · rename_i n _
        have := ih2 c.span n [] c.span.stop b c3 (by omega) (by simp) rfl
        rw [c1] at this; exact this
      · simp only [unflag_cons_false]
        exact ⟨c1, c2, ih1 _ _ c3⟩
    · intro s n held p b h hlt hh hs
      simp only [runGo]
      split
      · exact emit s n held p b h hlt hh hs
      · split
        · rename_i m hm
          obtain ⟨c1, c2, c3⟩ := h
          exact ih2 ⟨s.start, c.span.stop⟩ (n + m) ((c, true) :: held) c.span.stop b c3
            (by simp; omega) (by simp [hh]) rfl
        · exact emit s n held p b h hlt hh hs

theorem condenseSpaces_tiles' (toks : List Tok) (a b : Nat) (h : Tiles toks a b) :
    Tiles (condenseSpaces toks) a b := by
  unfold condenseSpaces
  rw [dropFlagged_eq]
  exact (runGo_tiles_aux spacesCfg toks).1 a b h

theorem condenseNewlines_tiles' (toks : List Tok) (a b : Nat) (h : Tiles toks a b) :
    Tiles (condenseNewlines toks) a b := by
  unfold condenseNewlines
  rw [dropFlagged_eq]
  exact (runGo_tiles_aux newlinesCfg toks).1 a b h

theorem map_kind_tiles (f : Tok → Tok) (hf : ∀ t, (f t).span = t.span) (toks : List Tok) (a b : Nat)
    (h : Tiles toks a b) : Tiles (toks.map f) a b := by
  induction toks generalizing a with
  | nil => simpa using h
  | cons t ts ih =>
    obtain ⟨x, y, z⟩ := h
    simp only [List.map_cons]
    refine ⟨by rw [hf]; exact x, by rw [hf]; exact y, ?_⟩
    rw [hf]; exact ih _ z

theorem newlinesToBreaks_tiles' (toks : List Tok) (a b : Nat) (h : Tiles toks a b) :
    Tiles (newlinesToBreaks toks) a b := by
  unfold newlinesToBreaks
  exact map_kind_tiles (fun t => { t with kind := breakKind t.kind }) (fun _ => rfl) toks a b h

end Harper

namespace Harper

/-! ## `condense_dotted_initialisms` -/

theorem initGo_tiles_aux : ∀ (n : Nat) (toks : List Tok), toks.length ≤ n →
    (∀ p b, Tiles toks p b → Tiles (unflag (initGo .idle toks)) p b) ∧
    (∀ st e held p b, Tiles toks p b → st.span.start < e → e = p → unflag held.reverse = [] →
      Tiles (unflag (initGo (.inside st e held) toks)) st.span.start b) := by
  intro n
  induction n with
  | zero =>
    intro toks hlen
    have : toks = [] := by cases toks <;> simp_all
    subst this
    refine ⟨fun p b h => by simpa [initGo] using h, ?_⟩
    intro st e held p b h hlt he hnil
    simp only [Tiles] at h
    subst he; subst h
    simp [initGo, hnil, Tiles, hlt]
  | succ n ih =>
    intro toks hlen
    match toks, hlen with
    | [], _ => exact ih [] (by simp)
    | [a], _ =>
      refine ⟨fun p b h => by simpa [initGo] using h, ?_⟩
      intro st e held p b h hlt he hnil
      subst he
      simp only [initGo, List.map_cons, List.map_nil, unflag_cons_false, unflag_append, hnil,
        List.nil_append, unflag_nil]
      exact ⟨rfl, hlt, h⟩
    | a :: b :: rest, hlen =>
      have ihr := ih rest (by simp at hlen ⊢; omega)
      have ihb := ih (b :: rest) (by simp at hlen ⊢; omega)
      refine ⟨?_, ?_⟩
      · intro p bb h
        obtain ⟨a1, a2, b1, b2, hr⟩ := h
        simp only [initGo]
        split
        · have := ihr.2 a b.span.stop [(b, true)] b.span.stop bb hr (by omega) rfl (by simp)
          rw [a1] at this; exact this
        · simp only [unflag_cons_false]
          exact ⟨a1, a2, ihb.1 _ _ ⟨b1, b2, hr⟩⟩
      · intro st e held p bb h hlt he hnil
        subst he
        obtain ⟨a1, a2, b1, b2, hr⟩ := h
        simp only [initGo]
        split
        · exact ihr.2 st b.span.stop _ b.span.stop bb hr (by omega) rfl (by simp [hnil])
        · simp only [unflag_cons_false, unflag_append, hnil, List.nil_append]
          exact ⟨rfl, hlt, a1, a2, ihb.1 _ _ ⟨b1, b2, hr⟩⟩

theorem dottedInitialisms_tiles' (toks : List Tok) (a b : Nat) (h : Tiles toks a b) :
    Tiles (dottedInitialisms toks) a b := by
  unfold dottedInitialisms
  rw [dropFlagged_eq]
  exact (initGo_tiles_aux toks.length toks (Nat.le_refl _)).1 a b h

end Harper

namespace Harper

/-! ## `condense_indices`, `condense_number_suffixes` -/

theorem sliceE_cons {α} (a : α) (l : List α) (x y : Nat) :
    sliceE (a :: l) (x + 1) (y + 1) = sliceE l x y := by
  unfold sliceE
  simp only [List.length_cons, List.drop_succ_cons]
  have : (y + 1) - (x + 1) = y - x := by omega
  rw [this]
  by_cases h : x > y ∨ y > l.length
  · rw [if_pos h, if_pos (by omega)]
  · rw [if_neg h, if_neg (by omega)]

theorem sliceE_zero_cons {α} (a : α) (l : List α) (y : Nat) :
    sliceE (a :: l) 0 (y + 1) = (sliceE l 0 y).map (a :: ·) := by
  unfold sliceE
  simp only [List.length_cons, List.drop_zero]
  by_cases h : y > l.length
  · rw [if_pos (by omega), if_pos (by omega)]; rfl
  · rw [if_neg (by omega), if_neg (by omega)]; simp [Except.map]

theorem stretchSpans_cons (a : Tok) (idx : List Nat) (l : List Tok) :
    stretchSpans 2 (idx.map (· + 1)) (a :: l) = (stretchSpans 2 idx l).map (a :: ·) := by
  induction idx generalizing l with
  | nil => simp [stretchSpans, Except.map]
  | cons i r ih =>
    simp only [List.map_cons, stretchSpans]
    have e1 : i + 1 + 2 - 1 = (i + 2 - 1) + 1 := by omega
    rw [if_neg (by omega), if_neg (by omega), e1, List.getElem?_cons_succ, List.getElem?_cons_succ]
    cases h1 : l[i + 2 - 1]? <;> cases h2 : l[i]? <;> simp [Except.map, List.set_cons_succ, ih]

theorem keepPieces_cons (a : Tok) (old : List Tok) (idx : List Nat) :
    keepPieces 2 (a :: old) (idx.map (· + 1)) = keepPieces 2 old idx := by
  match idx with
  | [] => simp [keepPieces]
  | [x] => simp [keepPieces]
  | x :: y :: r =>
    have ih := keepPieces_cons a old (y :: r)
    simp only [List.map_cons] at ih ⊢
    simp only [keepPieces]
    have e : x + 1 + 2 = (x + 2) + 1 := by omega
    rw [List.getElem?_cons_succ, e, sliceE_cons, ih]

end Harper

namespace Harper

theorem condenseIndices_nil (l : List Tok) : condenseIndices [] 2 l = .ok l := by
  simp [condenseIndices, stretchSpans, keepPieces, sliceE]

theorem getLast?_map_add {l : List Nat} (k : Nat) :
    (l.map (· + k)).getLast? = l.getLast?.map (· + k) := by
  simp [List.getLast?_map]

theorem condenseIndices_cons (a : Tok) (idx : List Nat) (l : List Tok) :
    condenseIndices (idx.map (· + 1)) 2 (a :: l) = (condenseIndices idx 2 l).map (a :: ·) := by
  cases idx with
  | nil => simp [condenseIndices_nil, Except.map]
  | cons i r =>
    unfold condenseIndices
    rw [stretchSpans_cons]
    cases hs : stretchSpans 2 (i :: r) l with
    | error e => simp [Except.map]
    | ok old =>
      simp only [Except.map]
      rw [keepPieces_cons, getLast?_map_add]
      simp only [List.map_cons, List.head?_cons, Option.getD_some, List.length_cons]
      rw [sliceE_zero_cons]
      obtain ⟨x, hx⟩ : ∃ x, (i :: r).getLast? = some x := by
        cases h : (i :: r).getLast? with
        | none => simp at h
        | some x => exact ⟨x, rfl⟩
      rw [hx]
      simp only [Option.map_some, Option.getD_some]
      have e : x + 1 + 2 = (x + 2) + 1 := by omega
      rw [e, sliceE_cons]
      cases sliceE old 0 i <;> cases keepPieces 2 old (i :: r) <;> cases sliceE old (x + 2) old.length <;>
        simp [Except.map]

end Harper

namespace Harper

theorem map_add_two (idx : List Nat) : idx.map (· + 2) = (idx.map (· + 1)).map (· + 1) := by
  induction idx with
  | nil => rfl
  | cons x r ih => simp [ih]

theorem sliceE_cons2 {α} (a b : α) (l : List α) (x y : Nat) :
    sliceE (a :: b :: l) (x + 2) (y + 2) = sliceE l x y := by
  rw [show x + 2 = (x + 1) + 1 from rfl, show y + 2 = (y + 1) + 1 from rfl, sliceE_cons, sliceE_cons]

theorem stretchSpans_zero (a b : Tok) (idx : List Nat) (l : List Tok) :
    stretchSpans 2 (0 :: idx) (a :: b :: l) =
      stretchSpans 2 idx (⟨⟨a.span.start, b.span.stop⟩, a.kind⟩ :: b :: l) := by
  simp [stretchSpans]

theorem condenseIndices_hit (a b : Tok) (idx : List Nat) (l : List Tok) :
    condenseIndices (0 :: idx.map (· + 2)) 2 (a :: b :: l) =
      (condenseIndices idx 2 l).map (⟨⟨a.span.start, b.span.stop⟩, a.kind⟩ :: ·) := by
  cases idx with
  | nil =>
    rw [condenseIndices_nil]
    unfold condenseIndices
    rw [List.map_nil, stretchSpans_zero]
    have h0 : ∀ X : List Tok, stretchSpans 2 [] X = .ok X := fun X => by simp [stretchSpans]
    rw [h0]
    have h2 : ¬ (l.length + 1 + 1 < 2) := by omega
    simp [keepPieces, sliceE, Except.map, h2]
  | cons c r =>
    unfold condenseIndices
    rw [stretchSpans_zero, map_add_two, stretchSpans_cons, stretchSpans_cons]
    cases hs : stretchSpans 2 (c :: r) l with
    | error e => simp [Except.map]
    | ok old =>
      simp only [Except.map, List.head?_cons, Option.getD_some]
      obtain ⟨x, hx⟩ : ∃ x, (c :: r).getLast? = some x := by
        cases h : (c :: r).getLast? with
        | none => simp at h
        | some x => exact ⟨x, rfl⟩
      have hl : (0 :: List.map (· + 1) (List.map (· + 1) (c :: r))).getLast? = some (x + 1 + 1) := by
        simp only [List.map_cons, List.getLast?_cons_cons]
        have := congrArg (Option.map (· + 1)) (congrArg (Option.map (· + 1)) hx)
        rw [← List.getLast?_map, ← List.getLast?_map] at this
        simpa using this
      rw [hl, hx]
      simp only [Option.map_some, Option.getD_some, List.length_cons, List.map_cons, keepPieces,
        List.getElem?_cons_zero]
      have e1 : c + 1 + 1 = c + 2 := rfl
      have e2 : x + 1 + 1 + 2 = (x + 2) + 2 := by omega
      have e3 : old.length + 1 + 1 = old.length + 2 := rfl
      have hk := (keepPieces_cons ⟨⟨a.span.start, b.span.stop⟩, a.kind⟩ (b :: old) ((c :: r).map (· + 1))).trans
        (keepPieces_cons b old (c :: r))
      simp only [List.map_cons] at hk
      rw [hk, e1, e2, e3, sliceE_cons2, sliceE_cons2]
      have h0 : sliceE (⟨⟨a.span.start, b.span.stop⟩, a.kind⟩ :: b :: old) 0 0 = .ok [] := by
        simp [sliceE]
      rw [h0]
      cases sliceE old 0 c <;> cases keepPieces 2 old (c :: r) <;> cases sliceE old (x + 2) old.length <;>
        simp

end Harper

namespace Harper

theorem map_add_one_add (l : List Nat) (i : Nat) : (l.map (· + 1)).map (· + i) = l.map (· + (i + 1)) := by
  induction l with
  | nil => rfl
  | cons x r ih => simp only [List.map_cons, ih]; congr 1; omega

/-- shifting the start index of the scan shifts the indices found -/
theorem suffixScan_shift (src : List Char) (toks : List Tok) (i : Nat) :
    suffixScan src i toks = (suffixScan src 0 toks).map (fun r => (r.1, r.2.map (· + i))) := by
  induction toks generalizing i with
  | nil => simp [suffixScan, Except.map]
  | cons a t ih =>
    cases t with
    | nil => simp [suffixScan, Except.map]
    | cons b rest =>
      unfold suffixScan
      cases suffixHit src a b with
      | error e => simp [Except.map]
      | ok hit =>
        simp only
        rw [ih (i + 1), ih (0 + 1)]
        cases suffixScan src 0 (b :: rest) with
        | error e => simp [Except.map]
        | ok r =>
          obtain ⟨ts, idx⟩ := r
          cases hit <;> simp [Except.map] <;> intros <;> omega

theorem isWord_not_isNumber {k : Kind} (h : k.isWord = true) : k.isNumber = false := by
  cases k <;> simp_all [Kind.isWord, Kind.isNumber]

theorem suffixScan_word (src : List Char) (b : Tok) (rest : List Tok) (hb : b.kind.isWord = true) :
    suffixScan src 0 (b :: rest) =
      (suffixScan src 0 rest).map (fun r => (b :: r.1, r.2.map (· + 1))) := by
  cases rest with
  | nil => simp [suffixScan, Except.map]
  | cons c rest' =>
    rw [suffixScan]
    have : suffixHit src b c = .ok none := by simp [suffixHit, isWord_not_isNumber hb]
    rw [this, suffixScan_shift]
    cases suffixScan src 0 (c :: rest') with
    | error e => simp [Except.map]
    | ok r => simp [Except.map]

theorem fromChars_ok_of_len2 (cs : List Char) (h : cs.length = 2) : ∃ r, fromChars cs = .ok r := by
  unfold fromChars
  split
  · exact ⟨_, rfl⟩
  · match cs, h with
    | [a, b], _ => exact ⟨_, rfl⟩

theorem getContent_ok {α} (s : Span) (src : List α) (h1 : s.start < s.stop) (h2 : s.stop ≤ src.length) :
    s.getContent src = .ok ((src.drop s.start).take (s.stop - s.start)) := by
  unfold Span.getContent
  rw [if_neg (by omega), if_neg (by omega)]

theorem suffixHit_ok (src : List Char) (a b : Tok) (h1 : b.span.start < b.span.stop)
    (h2 : b.span.stop ≤ src.length) : ∃ r, suffixHit src a b = .ok r := by
  unfold suffixHit
  split
  · rw [if_neg (by omega)]
    split
    · exact ⟨_, rfl⟩
    · rename_i hlen
      rw [getContent_ok _ _ h1 h2]
      simp only
      apply fromChars_ok_of_len2
      simp only [Span.len, bne_iff_ne, ne_eq, Decidable.not_not] at hlen
      simp; omega
  · exact ⟨_, rfl⟩

theorem suffixHit_some (src : List Char) (a b : Tok) (s : Suffix) (h : suffixHit src a b = .ok (some s)) :
    b.kind.isWord = true := by
  unfold suffixHit at h
  split at h
  · rename_i hc; simp at hc; exact hc.2
  · cases h

theorem suffixes_tiles_aux (src : List Char) : ∀ (n : Nat) (toks : List Tok), toks.length ≤ n →
    ∀ p q, Tiles toks p q → q ≤ src.length →
    ∃ ts idx out, suffixScan src 0 toks = .ok (ts, idx) ∧ condenseIndices idx 2 ts = .ok out ∧
      Tiles out p q := by
  intro n
  induction n with
  | zero =>
    intro toks hlen p q h _
    have : toks = [] := by cases toks <;> simp_all
    subst this
    exact ⟨[], [], [], by simp [suffixScan], condenseIndices_nil _, h⟩
  | succ n ih =>
    intro toks hlen p q h hq
    match toks, hlen with
    | [], _ => exact ⟨[], [], [], by simp [suffixScan], condenseIndices_nil _, h⟩
    | [a], _ => exact ⟨[a], [], [a], by simp [suffixScan], condenseIndices_nil _, h⟩
    | a :: b :: rest, hlen =>
      obtain ⟨a1, a2, b1, b2, hr⟩ := h
      have hbq : b.span.stop ≤ q := hr.le
      obtain ⟨hit, hhit⟩ := suffixHit_ok src a b (by omega) (by omega)
      cases hit with
      | none =>
        obtain ⟨ts1, idx0, out1, e1, e2, e3⟩ := ih (b :: rest) (by simp at hlen ⊢; omega) a.span.stop q
          ⟨b1, b2, hr⟩ hq
        refine ⟨a :: ts1, idx0.map (· + 1), a :: out1, ?_, ?_, ⟨a1, a2, e3⟩⟩
        · rw [suffixScan, hhit, suffixScan_shift, e1]; simp [Except.map]
        · rw [condenseIndices_cons, e2]; rfl
      | some s =>
        have hw := suffixHit_some src a b s hhit
        obtain ⟨ts2, idx2, out2, e1, e2, e3⟩ := ih rest (by simp at hlen ⊢; omega) b.span.stop q hr hq
        refine ⟨⟨a.span, setSuffix s a.kind⟩ :: b :: ts2, 0 :: idx2.map (· + 2),
          ⟨⟨a.span.start, b.span.stop⟩, setSuffix s a.kind⟩ :: out2, ?_, ?_, ⟨a1, by simp; omega, e3⟩⟩
        · rw [suffixScan, hhit, suffixScan_shift, suffixScan_word _ _ _ hw, e1]
          simp [Except.map]
        · rw [condenseIndices_hit, e2]; rfl

theorem numberSuffixes_tiles' (src : List Char) (toks : List Tok) (p q : Nat) (h : Tiles toks p q)
    (hq : q ≤ src.length) : ∃ out, numberSuffixes src toks = .ok out ∧ Tiles out p q := by
  unfold numberSuffixes
  split
  · exact ⟨toks, rfl, h⟩
  · obtain ⟨ts, idx, out, e1, e2, e3⟩ := suffixes_tiles_aux src toks.length toks (Nat.le_refl _) p q h hq
    rw [e1]
    exact ⟨out, e2, e3⟩

end Harper

namespace Harper

/-! ## non-tiling input (Markdown / masked / Typst front-ends): in bounds, possibly with gaps, unordered, zero-width -/

/-- every token is a well-formed span inside a text of `n` characters (any order, gaps, zero width allowed) -/
def InBounds (n : Nat) (toks : List Tok) : Prop := ∀ t ∈ toks, t.span.start ≤ t.span.stop ∧ t.span.stop ≤ n

/-- both endpoints of every token are inside a text of `n` characters (the span may be reversed) -/
def EndsInBounds (n : Nat) (toks : List Tok) : Prop := ∀ t ∈ toks, t.span.start ≤ n ∧ t.span.stop ≤ n

instance (n : Nat) (toks : List Tok) : Decidable (InBounds n toks) :=
  inferInstanceAs (Decidable (∀ t ∈ toks, _))
instance (n : Nat) (toks : List Tok) : Decidable (EndsInBounds n toks) :=
  inferInstanceAs (Decidable (∀ t ∈ toks, _))

theorem InBounds.ends {n : Nat} {toks : List Tok} (h : InBounds n toks) : EndsInBounds n toks :=
  fun t ht => ⟨Nat.le_trans (h t ht).1 (h t ht).2, (h t ht).2⟩

/-- tokens in text order inside `[a, b]`: gaps and zero-width tokens allowed (`Tiles` with `≤` for `=` and `<`) -/
def Gap : List Tok → Nat → Nat → Prop
  | [], a, b => a ≤ b
  | t :: ts, a, b => a ≤ t.span.start ∧ t.span.start ≤ t.span.stop ∧ Gap ts t.span.stop b

instance : (ts : List Tok) → (a b : Nat) → Decidable (Gap ts a b)
  | [], a, b => inferInstanceAs (Decidable (a ≤ b))
  | t :: ts, _, b =>
    have := instDecidableGap ts t.span.stop b
    inferInstanceAs (Decidable (_ ∧ _ ∧ _))

/-- ordered (pairwise `stop ≤ start`), well-formed, in bounds -/
def SortedIn (n : Nat) (toks : List Tok) : Prop :=
  toks.Pairwise (fun x y => x.span.stop ≤ y.span.start) ∧ InBounds n toks

theorem Gap.le {ts : List Tok} {a b : Nat} (h : Gap ts a b) : a ≤ b := by
  induction ts generalizing a with
  | nil => exact h
  | cons t ts ih => obtain ⟨h1, h2, h3⟩ := h; have := ih h3; omega

theorem Gap.mono {ts : List Tok} {a a' b b' : Nat} (h : Gap ts a b) (ha : a' ≤ a) (hb : b ≤ b') : Gap ts a' b' := by
  induction ts generalizing a a' with
  | nil => simp only [Gap] at h ⊢; omega
  | cons t ts ih => obtain ⟨h1, h2, h3⟩ := h; exact ⟨by omega, h2, ih h3 (Nat.le_refl _)⟩

theorem Gap.append {l1 l2 : List Tok} {a m b : Nat} (h1 : Gap l1 a m) (h2 : Gap l2 m b) :
    Gap (l1 ++ l2) a b := by
  induction l1 generalizing a with
  | nil => simp only [Gap] at h1; simpa using h2.mono h1 (Nat.le_refl _)
  | cons t ts ih => obtain ⟨x, y, z⟩ := h1; exact ⟨x, y, ih z⟩

theorem Gap.of_append {l1 l2 : List Tok} {a b : Nat} (h : Gap (l1 ++ l2) a b) :
    ∃ m, Gap l1 a m ∧ Gap l2 m b := by
  induction l1 generalizing a with
  | nil => exact ⟨a, Nat.le_refl _, by simpa using h⟩
  | cons t ts ih =>
    obtain ⟨x, y, z⟩ := h
    obtain ⟨m, h1, h2⟩ := ih z
    exact ⟨m, ⟨x, y, h1⟩, h2⟩

theorem Gap.mem {ts : List Tok} {a b : Nat} (h : Gap ts a b) :
    ∀ t ∈ ts, a ≤ t.span.start ∧ t.span.start ≤ t.span.stop ∧ t.span.stop ≤ b := by
  induction ts generalizing a with
  | nil => intro t ht; cases ht
  | cons x ts ih =>
    obtain ⟨h1, h2, h3⟩ := h
    intro t ht
    rcases List.mem_cons.mp ht with rfl | ht
    · exact ⟨h1, h2, h3.le⟩
    · have := ih h3 t ht; omega

theorem Gap.sortedIn {ts : List Tok} {a b : Nat} (h : Gap ts a b) : SortedIn b ts := by
  refine ⟨?_, fun t ht => ⟨(h.mem t ht).2.1, (h.mem t ht).2.2⟩⟩
  induction ts generalizing a with
  | nil => exact List.Pairwise.nil
  | cons x ts ih =>
    obtain ⟨h1, h2, h3⟩ := h
    exact List.pairwise_cons.mpr ⟨fun y hy => (h3.mem y hy).1, ih h3⟩

theorem SortedIn.gap {n : Nat} {ts : List Tok} (h : SortedIn n ts) : Gap ts 0 n := by
  suffices ∀ a, (∀ t ∈ ts, a ≤ t.span.start) → a ≤ n → Gap ts a n from this 0 (fun _ _ => Nat.zero_le _) (Nat.zero_le _)
  obtain ⟨hp, hb⟩ := h
  induction ts with
  | nil => intro a _ ha; exact ha
  | cons x ts ih =>
    intro a ha _
    obtain ⟨hx, hp'⟩ := List.pairwise_cons.mp hp
    have hbx := hb x (by simp)
    exact ⟨ha x (by simp), hbx.1, ih hp' (fun t ht => hb t (List.mem_cons_of_mem _ ht)) _ hx hbx.2⟩

theorem gap_iff_sortedIn (n : Nat) (ts : List Tok) : Gap ts 0 n ↔ SortedIn n ts := ⟨Gap.sortedIn, SortedIn.gap⟩


/-! ### a property of spans that survives merging: the flagged-vector passes -/

theorem mem_of_mem_unflag {α} {l : List (α × Bool)} {x : α} (h : x ∈ unflag l) : (x, false) ∈ l := by
  induction l with
  | nil => simp at h
  | cons p r ih =>
    obtain ⟨y, b⟩ := p
    cases b
    · simp only [unflag_cons_false, List.mem_cons] at h
      rcases h with rfl | h
      · simp
      · exact List.mem_cons_of_mem _ (ih h)
    · simp only [unflag_cons_true] at h
      exact List.mem_cons_of_mem _ (ih h)

/-- `condense_spaces` / `condense_newlines`: a property of spans that survives merging a run start with a child
(adjacent, when the pass checks adjacency) holds of everything the loop writes -/
theorem runGo_all (cfg : RunCfg) (P : Span → Prop)
    (hmerge : ∀ s c : Span, P s → P c → (cfg.adj = true → s.stop = c.start) → P ⟨s.start, c.stop⟩)
    (toks : List Tok) (hin : ∀ t ∈ toks, P t.span) :
    (∀ p ∈ runGo cfg .scan toks, P p.1.span) ∧
    (∀ s n held, P s → (∀ p ∈ held, P p.1.span) → ∀ p ∈ runGo cfg (.absorb s n held) toks, P p.1.span) := by
  induction toks with
  | nil =>
    refine ⟨by simp [runGo], ?_⟩
    intro s n held hs hh p hp
    simp only [runGo, List.mem_cons, List.mem_reverse] at hp
    rcases hp with rfl | hp
    · exact hs
    · exact hh p hp
  | cons c r ih =>
    obtain ⟨ih1, ih2⟩ := ih (fun t ht => hin t (List.mem_cons_of_mem _ ht))
    have hc := hin c (by simp)
    have emit : ∀ (s : Span) (n : Nat) (held : List (Tok × Bool)), P s → (∀ p ∈ held, P p.1.span) →
        ∀ p ∈ ((⟨s, cfg.mkKind n⟩, false) :: (held.reverse ++ (c, false) :: runGo cfg .scan r) : List (Tok × Bool)),
          P p.1.span := by
      intro s n held hs hh p hp
      simp only [List.mem_cons, List.mem_append, List.mem_reverse] at hp
      rcases hp with rfl | hp | rfl | hp
      · exact hs
      · exact hh p hp
      · exact hc
      · exact ih1 p hp
    refine ⟨?_, ?_⟩
    · intro p hp
      simp only [runGo] at hp
      split at hp
      · exact ih2 _ _ [] hc (by simp) p hp
      · rcases List.mem_cons.mp hp with rfl | hp
        · exact hc
        · exact ih1 p hp
    · intro s n held hs hh p hp
      simp only [runGo] at hp
      split at hp
      · exact emit s n held hs hh p hp
      · rename_i hadj
        split at hp
        · refine ih2 _ _ _ (hmerge s c.span hs hc ?_) ?_ p hp
          · intro ha
            simpa [ha] using hadj
          · intro q hq
            rcases List.mem_cons.mp hq with rfl | hq
            · exact hc
            · exact hh q hq
        · exact emit s n held hs hh p hp

theorem condenseRun_all (cfg : RunCfg) (P : Span → Prop)
    (hmerge : ∀ s c : Span, P s → P c → (cfg.adj = true → s.stop = c.start) → P ⟨s.start, c.stop⟩)
    (toks : List Tok) (hin : ∀ t ∈ toks, P t.span) : ∀ t ∈ dropFlagged (runGo cfg .scan toks), P t.span := by
  intro t ht
  rw [dropFlagged_eq] at ht
  exact (runGo_all cfg P hmerge toks hin).1 _ (mem_of_mem_unflag ht)

/-- `condense_dotted_initialisms` -/
theorem initGo_all (P : Span → Prop) (hmerge : ∀ s c : Span, P s → P c → P ⟨s.start, c.stop⟩) :
    ∀ (n : Nat) (toks : List Tok), toks.length ≤ n → (∀ t ∈ toks, P t.span) →
    (∀ p ∈ initGo .idle toks, P p.1.span) ∧
    (∀ st e held, P st.span → P ⟨st.span.start, e⟩ → (∀ p ∈ held, P p.1.span) →
      ∀ p ∈ initGo (.inside st e held) toks, P p.1.span) := by
  intro n
  induction n with
  | zero =>
    intro toks hlen hin
    have : toks = [] := by cases toks <;> simp_all
    subst this
    refine ⟨by simp [initGo], ?_⟩
    intro st e held hst he hh p hp
    simp only [initGo, List.map_nil, List.append_nil, List.mem_cons, List.mem_reverse] at hp
    rcases hp with rfl | hp
    · exact he
    · exact hh p hp
  | succ n ih =>
    intro toks hlen hin
    match toks, hlen, hin with
    | [], _, hin => exact ih [] (by simp) hin
    | [a], _, hin =>
      have ha := hin a (by simp)
      refine ⟨by simpa [initGo] using ha, ?_⟩
      intro st e held hst he hh p hp
      simp only [initGo, List.map_cons, List.map_nil, List.mem_cons, List.mem_append, List.mem_reverse,
        List.not_mem_nil, or_false] at hp
      rcases hp with rfl | hp | rfl
      · exact he
      · exact hh p hp
      · exact ha
    | a :: b :: rest, hlen, hin =>
      have ha := hin a (by simp)
      have hb := hin b (by simp)
      have hinb : ∀ t ∈ b :: rest, P t.span := fun t ht => hin t (List.mem_cons_of_mem _ ht)
      have hinr : ∀ t ∈ rest, P t.span := fun t ht => hinb t (List.mem_cons_of_mem _ ht)
      have ihr := ih rest (by simp at hlen ⊢; omega) hinr
      have ihb := ih (b :: rest) (by simp at hlen ⊢; omega) hinb
      refine ⟨?_, ?_⟩
      · intro p hp
        simp only [initGo] at hp
        split at hp
        · exact ihr.2 a b.span.stop [(b, true)] ha (hmerge _ _ ha hb) (by simpa using hb) p hp
        · rcases List.mem_cons.mp hp with rfl | hp
          · exact ha
          · exact ihb.1 p hp
      · intro st e held hst he hh p hp
        simp only [initGo] at hp
        split at hp
        · refine ihr.2 st b.span.stop _ hst (hmerge _ _ hst hb) ?_ p hp
          intro q hq
          simp only [List.mem_cons] at hq
          rcases hq with rfl | rfl | hq
          · exact hb
          · exact ha
          · exact hh q hq
        · simp only [List.mem_cons, List.mem_append, List.mem_reverse] at hp
          rcases hp with rfl | hp | rfl | hp
          · exact he
          · exact hh p hp
          · exact ha
          · exact ihb.1 p hp

theorem dottedInitialisms_all (P : Span → Prop) (hmerge : ∀ s c : Span, P s → P c → P ⟨s.start, c.stop⟩)
    (toks : List Tok) (hin : ∀ t ∈ toks, P t.span) : ∀ t ∈ dottedInitialisms toks, P t.span := by
  intro t ht
  unfold dottedInitialisms at ht
  rw [dropFlagged_eq] at ht
  exact (initGo_all P hmerge toks.length toks (Nat.le_refl _) hin).1 _ (mem_of_mem_unflag ht)


/-! ### ordered input with gaps and zero-width tokens (`Gap`): the flagged-vector passes -/

theorem runGo_gap_aux (cfg : RunCfg) (toks : List Tok) :
    (∀ p b, Gap toks p b → Gap (unflag (runGo cfg .scan toks)) p b) ∧
    (∀ s n held p b, Gap toks p b → s.start ≤ s.stop → unflag held.reverse = [] → s.stop ≤ p →
      Gap (unflag (runGo cfg (.absorb s n held) toks)) s.start b) := by
  induction toks with
  | nil =>
    refine ⟨?_, ?_⟩
    · intro p b h; simpa [runGo] using h
    · intro s n held p b h hlt hh hs
      simp only [Gap] at h
      simp only [runGo, unflag_cons_false, hh]
      exact ⟨Nat.le_refl _, hlt, by simp only [Gap]; omega⟩
  | cons c r ih =>
    obtain ⟨ih1, ih2⟩ := ih
    have emit : ∀ (s : Span) (n : Nat) (held : List (Tok × Bool)) (p b : Nat), Gap (c :: r) p b →
        s.start ≤ s.stop → unflag held.reverse = [] → s.stop ≤ p →
        Gap (unflag ((⟨s, cfg.mkKind n⟩, false) :: (held.reverse ++ (c, false) :: runGo cfg .scan r)))
          s.start b := by
      intro s n held p b h hlt hh hs
      obtain ⟨c1, c2, c3⟩ := h
      simp only [unflag_cons_false, unflag_append, hh, List.nil_append]
      exact ⟨Nat.le_refl _, hlt, by simp only; omega, c2, ih1 _ _ c3⟩
    refine ⟨?_, ?_⟩
    · intro p b h
      obtain ⟨c1, c2, c3⟩ := h
      simp only [runGo]
      split
      · rename_i n _
        exact (ih2 c.span n [] c.span.stop b c3 c2 (by simp) (Nat.le_refl _)).mono c1 (Nat.le_refl _)
      · simp only [unflag_cons_false]
        exact ⟨c1, c2, ih1 _ _ c3⟩
    · intro s n held p b h hlt hh hs
      simp only [runGo]
      split
      · exact emit s n held p b h hlt hh hs
      · split
        · rename_i m hm
          obtain ⟨c1, c2, c3⟩ := h
          exact ih2 ⟨s.start, c.span.stop⟩ (n + m) ((c, true) :: held) c.span.stop b c3
            (by simp only; omega) (by simp [hh]) (Nat.le_refl _)
        · exact emit s n held p b h hlt hh hs

theorem condenseSpaces_gap' (toks : List Tok) (a b : Nat) (h : Gap toks a b) : Gap (condenseSpaces toks) a b := by
  unfold condenseSpaces
  rw [dropFlagged_eq]
  exact (runGo_gap_aux spacesCfg toks).1 a b h

theorem condenseNewlines_gap' (toks : List Tok) (a b : Nat) (h : Gap toks a b) : Gap (condenseNewlines toks) a b := by
  unfold condenseNewlines
  rw [dropFlagged_eq]
  exact (runGo_gap_aux newlinesCfg toks).1 a b h

theorem gap_of_spans {l1 l2 : List Tok} (h : l1.map (·.span) = l2.map (·.span)) {p q : Nat}
    (ht : Gap l2 p q) : Gap l1 p q := by
  induction l1 generalizing l2 p with
  | nil => cases l2 <;> simp_all
  | cons a l1 ih =>
    cases l2 with
    | nil => simp at h
    | cons b l2 =>
      simp only [List.map_cons, List.cons.injEq] at h
      obtain ⟨b1, b2, hr⟩ := ht
      rw [← h.1] at b1 b2 hr
      exact ⟨b1, b2, ih h.2 hr⟩

theorem all_of_spans {l1 l2 : List Tok} (h : l1.map (·.span) = l2.map (·.span)) (P : Span → Prop)
    (ht : ∀ t ∈ l2, P t.span) : ∀ t ∈ l1, P t.span := by
  intro t hm
  have : t.span ∈ l1.map (·.span) := List.mem_map_of_mem hm
  rw [h] at this
  obtain ⟨u, hu, e⟩ := List.mem_map.mp this
  rw [← e]; exact ht u hu

theorem newlinesToBreaks_span (toks : List Tok) : (newlinesToBreaks toks).map (·.span) = toks.map (·.span) := by
  unfold newlinesToBreaks
  simp [List.map_map, Function.comp_def]

theorem initGo_gap_aux : ∀ (n : Nat) (toks : List Tok), toks.length ≤ n →
    (∀ p b, Gap toks p b → Gap (unflag (initGo .idle toks)) p b) ∧
    (∀ st e held p b, Gap toks p b → st.span.start ≤ e → e ≤ p → unflag held.reverse = [] →
      Gap (unflag (initGo (.inside st e held) toks)) st.span.start b) := by
  intro n
  induction n with
  | zero =>
    intro toks hlen
    have : toks = [] := by cases toks <;> simp_all
    subst this
    refine ⟨fun p b h => by simpa [initGo] using h, ?_⟩
    intro st e held p b h hlt he hnil
    simp only [Gap] at h
    simp only [initGo, List.map_nil, List.append_nil, unflag_cons_false, hnil, Gap]
    omega
  | succ n ih =>
    intro toks hlen
    match toks, hlen with
    | [], _ => exact ih [] (by simp)
    | [a], _ =>
      refine ⟨fun p b h => by simpa [initGo] using h, ?_⟩
      intro st e held p b h hlt he hnil
      simp only [initGo, List.map_cons, List.map_nil, unflag_cons_false, unflag_append, hnil,
        List.nil_append, unflag_nil]
      exact ⟨Nat.le_refl _, hlt, h.mono he (Nat.le_refl _)⟩
    | a :: b :: rest, hlen =>
      have ihr := ih rest (by simp at hlen ⊢; omega)
      have ihb := ih (b :: rest) (by simp at hlen ⊢; omega)
      refine ⟨?_, ?_⟩
      · intro p bb h
        obtain ⟨a1, a2, b1, b2, hr⟩ := h
        simp only [initGo]
        split
        · exact (ihr.2 a b.span.stop [(b, true)] b.span.stop bb hr (by omega) (Nat.le_refl _) (by simp)).mono a1
            (Nat.le_refl _)
        · simp only [unflag_cons_false]
          exact ⟨a1, a2, ihb.1 _ _ ⟨b1, b2, hr⟩⟩
      · intro st e held p bb h hlt he hnil
        obtain ⟨a1, a2, b1, b2, hr⟩ := h
        simp only [initGo]
        split
        · exact ihr.2 st b.span.stop _ b.span.stop bb hr (by omega) (Nat.le_refl _) (by simp [hnil])
        · simp only [unflag_cons_false, unflag_append, hnil, List.nil_append]
          exact ⟨Nat.le_refl _, hlt, by simp only; omega, a2, ihb.1 _ _ ⟨b1, b2, hr⟩⟩

theorem dottedInitialisms_gap' (toks : List Tok) (a b : Nat) (h : Gap toks a b) :
    Gap (dottedInitialisms toks) a b := by
  unfold dottedInitialisms
  rw [dropFlagged_eq]
  exact (initGo_gap_aux toks.length toks (Nat.le_refl _)).1 a b h


/-! ### `condense_indices` / `condense_number_suffixes`: whatever comes out -/

theorem sliceE_mem {α} {l s : List α} {a b : Nat} (h : sliceE l a b = .ok s) : ∀ x ∈ s, x ∈ l := by
  unfold sliceE at h
  split at h
  · cases h
  · cases h
    intro x hx
    exact List.mem_of_mem_drop (List.mem_of_mem_take hx)

theorem stretchSpans_all (P : Span → Prop) (hmerge : ∀ s c : Span, P s → P c → P ⟨s.start, c.stop⟩) (k : Nat) :
    ∀ (idx : List Nat) (toks old : List Tok), stretchSpans k idx toks = .ok old → (∀ t ∈ toks, P t.span) →
      ∀ t ∈ old, P t.span := by
  intro idx
  induction idx with
  | nil => intro toks old h hin; simp only [stretchSpans] at h; cases h; exact hin
  | cons i r ih =>
    intro toks old h hin
    simp only [stretchSpans] at h
    split at h
    · cases h
    · split at h
      · rename_i e s he hs
        refine ih _ _ h ?_
        intro t ht
        rcases List.mem_or_eq_of_mem_set ht with ht | rfl
        · exact hin t ht
        · exact hmerge _ _ (hin s (List.mem_of_getElem? hs)) (hin e (List.mem_of_getElem? he))
      · cases h

theorem keepPieces_mem (k : Nat) (old : List Tok) : ∀ (idx : List Nat) (out : List Tok),
    keepPieces k old idx = .ok out → ∀ x ∈ out, x ∈ old := by
  intro idx
  induction idx with
  | nil => intro out h; simp only [keepPieces] at h; cases h; simp
  | cons a r ih =>
    cases r with
    | nil =>
      intro out h x hx
      simp only [keepPieces] at h
      split at h
      · rename_i t ht; cases h; simp only [List.mem_singleton] at hx; subst hx; exact List.mem_of_getElem? ht
      · cases h
    | cons b r =>
      intro out h x hx
      simp only [keepPieces] at h
      split at h
      · rename_i t mid rest ht hmid hrest
        cases h
        simp only [List.mem_cons, List.mem_append] at hx
        rcases hx with (rfl | hx) | hx
        · exact List.mem_of_getElem? ht
        · exact sliceE_mem hmid x hx
        · exact ih rest hrest x hx
      · cases h
      · cases h
      · cases h

theorem condenseIndices_all (P : Span → Prop) (hmerge : ∀ s c : Span, P s → P c → P ⟨s.start, c.stop⟩)
    (idx : List Nat) (k : Nat) (toks out : List Tok) (h : condenseIndices idx k toks = .ok out)
    (hin : ∀ t ∈ toks, P t.span) : ∀ t ∈ out, P t.span := by
  unfold condenseIndices at h
  split at h
  · cases h
  · rename_i old hold
    have hold' := stretchSpans_all P hmerge k idx toks old hold hin
    split at h
    · rename_i first mid last h1 h2 h3
      cases h
      intro t ht
      simp only [List.mem_append] at ht
      rcases ht with (ht | ht) | ht
      · exact hold' t (sliceE_mem h1 t ht)
      · exact hold' t (keepPieces_mem k old idx mid h2 t ht)
      · exact hold' t (sliceE_mem h3 t ht)
    · cases h
    · cases h
    · cases h

theorem suffixScan_span (src : List Char) : ∀ (toks : List Tok) (i : Nat) (ts : List Tok) (idx : List Nat),
    suffixScan src i toks = .ok (ts, idx) → ts.map (·.span) = toks.map (·.span) := by
  intro toks
  induction toks with
  | nil => intro i ts idx h; simp only [suffixScan] at h; cases h; rfl
  | cons a t ih =>
    cases t with
    | nil => intro i ts idx h; simp only [suffixScan] at h; cases h; rfl
    | cons b rest =>
      intro i ts idx h
      unfold suffixScan at h
      split at h
      · cases h
      · split at h
        · cases h
        · rename_i hit _ ts' idx' hrec
          have := ih (i + 1) ts' idx' hrec
          split at h <;> cases h <;> simp [this]

theorem numberSuffixes_all (P : Span → Prop) (hmerge : ∀ s c : Span, P s → P c → P ⟨s.start, c.stop⟩)
    (src : List Char) (toks out : List Tok) (h : numberSuffixes src toks = .ok out)
    (hin : ∀ t ∈ toks, P t.span) : ∀ t ∈ out, P t.span := by
  unfold numberSuffixes at h
  split at h
  · cases h; exact hin
  · split at h
    · cases h
    · rename_i ts idx hs
      exact condenseIndices_all P hmerge idx 2 ts out h
        (all_of_spans (suffixScan_span src toks 0 ts idx hs) P hin)


/-! ### `condense_number_suffixes` on in-bounds input: never panics; ordered input stays ordered -/

theorem getContent_ok_le {α} (s : Span) (src : List α) (h1 : s.start ≤ s.stop) (h2 : s.stop ≤ src.length) :
    s.getContent src = .ok ((src.drop s.start).take (s.stop - s.start)) := by
  unfold Span.getContent
  rw [if_neg (by omega)]
  split
  · have : s.stop = s.start := by omega
    simp [this]
  · rfl

theorem suffixHit_ok_le (src : List Char) (a b : Tok) (h1 : b.span.start ≤ b.span.stop)
    (h2 : b.span.stop ≤ src.length) : ∃ r, suffixHit src a b = .ok r := by
  unfold suffixHit
  split
  · rw [if_neg (by omega)]
    split
    · exact ⟨_, rfl⟩
    · rename_i hlen
      rw [getContent_ok_le _ _ h1 h2]
      simp only
      apply fromChars_ok_of_len2
      simp only [Span.len, bne_iff_ne, ne_eq, Decidable.not_not] at hlen
      simp; omega
  · exact ⟨_, rfl⟩

theorem suffixes_gap_aux (src : List Char) : ∀ (n : Nat) (toks : List Tok), toks.length ≤ n →
    InBounds src.length toks →
    ∃ ts idx out, suffixScan src 0 toks = .ok (ts, idx) ∧ condenseIndices idx 2 ts = .ok out ∧
      ∀ p q, Gap toks p q → Gap out p q := by
  intro n
  induction n with
  | zero =>
    intro toks hlen _
    have : toks = [] := by cases toks <;> simp_all
    subst this
    exact ⟨[], [], [], by simp [suffixScan], condenseIndices_nil _, fun _ _ h => h⟩
  | succ n ih =>
    intro toks hlen hin
    match toks, hlen, hin with
    | [], _, _ => exact ⟨[], [], [], by simp [suffixScan], condenseIndices_nil _, fun _ _ h => h⟩
    | [a], _, _ => exact ⟨[a], [], [a], by simp [suffixScan], condenseIndices_nil _, fun _ _ h => h⟩
    | a :: b :: rest, hlen, hin =>
      have hb := hin b (by simp)
      have hinb : InBounds src.length (b :: rest) := fun t ht => hin t (List.mem_cons_of_mem _ ht)
      have hinr : InBounds src.length rest := fun t ht => hinb t (List.mem_cons_of_mem _ ht)
      obtain ⟨hit, hhit⟩ := suffixHit_ok_le src a b hb.1 hb.2
      cases hit with
      | none =>
        obtain ⟨ts1, idx0, out1, e1, e2, e3⟩ := ih (b :: rest) (by simp at hlen ⊢; omega) hinb
        refine ⟨a :: ts1, idx0.map (· + 1), a :: out1, ?_, ?_, ?_⟩
        · rw [suffixScan, hhit, suffixScan_shift, e1]; simp [Except.map]
        · rw [condenseIndices_cons, e2]; rfl
        · intro p q h
          obtain ⟨a1, a2, h3⟩ := h
          exact ⟨a1, a2, e3 _ _ h3⟩
      | some s =>
        have hw := suffixHit_some src a b s hhit
        obtain ⟨ts2, idx2, out2, e1, e2, e3⟩ := ih rest (by simp at hlen ⊢; omega) hinr
        refine ⟨⟨a.span, setSuffix s a.kind⟩ :: b :: ts2, 0 :: idx2.map (· + 2),
          ⟨⟨a.span.start, b.span.stop⟩, setSuffix s a.kind⟩ :: out2, ?_, ?_, ?_⟩
        · rw [suffixScan, hhit, suffixScan_shift, suffixScan_word _ _ _ hw, e1]
          simp [Except.map]
        · rw [condenseIndices_hit, e2]; rfl
        · intro p q h
          obtain ⟨a1, a2, b1, b2, hr⟩ := h
          exact ⟨a1, by simp only; omega, e3 _ _ hr⟩

theorem numberSuffixes_gap' (src : List Char) (toks : List Tok) (hin : InBounds src.length toks) :
    ∃ out, numberSuffixes src toks = .ok out ∧ ∀ p q, Gap toks p q → Gap out p q := by
  unfold numberSuffixes
  split
  · exact ⟨toks, rfl, fun _ _ h => h⟩
  · obtain ⟨ts, idx, out, e1, e2, e3⟩ := suffixes_gap_aux src toks.length toks (Nat.le_refl _) hin
    rw [e1]
    exact ⟨out, e2, e3⟩

end Harper
