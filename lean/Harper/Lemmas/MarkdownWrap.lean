import Harper.Lemmas.Markdown
import Harper.Lemmas.CondensePats
/-!
Lemmas about `collapseIdentifiers` (`Harper.Model.Markdown`): the `WORD_OR_NUMBER` pattern in closed
form, its matches are disjoint and increasing (`PatOK` of `Lemmas/CondensePattern.lean`), and the
loop + `remove_indices` replace disjoint runs by one token each (`Merged`).
-/
namespace Harper.Md
open Harper

/-! ## the pattern in closed form -/

/-- number of leading `separator word` pairs -/
def sepWordPairs : List Tok → Nat
  | a :: b :: r => if isCaseSeparator a.kind && b.kind.isWord then sepWordPairs r + 1 else 0
  | _ => 0

theorem sepWordPairs_le : ∀ (l : List Tok), 2 * sepWordPairs l ≤ l.length
  | [] => by simp [sepWordPairs]
  | [_] => by simp [sepWordPairs]
  | a :: b :: r => by
    have := sepWordPairs_le r
    simp only [sepWordPairs, List.length_cons]
    split <;> omega

/-- `then_case_separator().then_any_word()` -/
def sepWord : Matcher := seqPat [kindAtom isCaseSeparator, kindAtom Kind.isWord]

theorem sepWord_eq (src : List Char) (toks : List Tok) :
    sepWord src toks = .ok (match toks with
      | a :: b :: _ => if isCaseSeparator a.kind && b.kind.isWord then 2 else 0
      | _ => 0) := by
  unfold sepWord seqPat
  match toks with
  | [] => simp [seqGo, kindAtom]
  | [a] => cases h : isCaseSeparator a.kind <;> simp [seqGo, kindAtom, h]
  | a :: b :: r =>
    cases h : isCaseSeparator a.kind <;> cases h2 : b.kind.isWord <;> simp [seqGo, kindAtom, h, h2]

theorem repGo_pairs (src : List Char) : ∀ (toks : List Tok) (fuel cursor rep : Nat), toks.length < fuel →
    repGo sepWord 0 src fuel cursor rep toks = .ok (cursor + 2 * sepWordPairs toks)
  | [], fuel, cursor, rep, hf => by
    cases fuel with
    | zero => simp at hf
    | succ f => simp [repGo, sepWord_eq, sepWordPairs]
  | [a], fuel, cursor, rep, hf => by
    cases fuel with
    | zero => simp at hf
    | succ f => simp [repGo, sepWord_eq, sepWordPairs]
  | a :: b :: r, fuel, cursor, rep, hf => by
    cases fuel with
    | zero => simp at hf
    | succ f =>
      simp only [repGo, sepWord_eq]
      cases h : (isCaseSeparator a.kind && b.kind.isWord)
      · simp [sepWordPairs, h]
      · simp only [if_true, List.length_cons]
        rw [if_neg (by omega), if_neg (by omega)]
        simp only [List.drop_succ_cons, List.drop_zero]
        rw [repGo_pairs src r f (cursor + 2) (rep + 1) (by simp at hf; omega)]
        simp only [sepWordPairs, h, if_true]
        congr 1
        omega

/-- the length of the match of `WORD_OR_NUMBER` at the head of a token list -/
def runLen : List Tok → Nat
  | t :: r => if t.kind.isWord && decide (1 ≤ sepWordPairs r) then 1 + 2 * sepWordPairs r else 0
  | [] => 0

theorem wordOrNumberPat_eq (src : List Char) (toks : List Tok) :
    wordOrNumberPat src toks = .ok (runLen toks) := by
  have hrep : ∀ r : List Tok, repPat sepWord 0 src r = .ok (2 * sepWordPairs r) := by
    intro r
    unfold repPat
    rw [repGo_pairs src r _ 0 0 (by omega)]
    simp
  unfold wordOrNumberPat seqPat
  change seqGo src [kindAtom Kind.isWord, repPat sepWord 0] 0 toks = _
  match toks with
  | [] => simp [seqGo, kindAtom, runLen]
  | t :: r =>
    have hle := sepWordPairs_le r
    cases hw : t.kind.isWord
    · simp [seqGo, kindAtom, runLen, hw]
    · simp only [seqGo, kindAtom, hw, if_true, List.length_cons, runLen, Bool.true_and]
      rw [if_neg (by omega), if_neg (by omega)]
      simp only [List.drop_succ_cons, List.drop_zero, hrep]
      by_cases hp : 1 ≤ sepWordPairs r
      · rw [if_neg (by omega), if_neg (by omega)]
        simp [hp] <;> omega
      · rw [if_pos (by omega)]
        simp [hp]

theorem word_not_sep (k : Kind) (h : k.isWord = true) : isCaseSeparator k = false := by
  cases k <;> simp_all [Kind.isWord, isCaseSeparator]

/-- a run that starts before a word token either stops before it or runs through it -/
theorem pairs_through : ∀ (u : List Tok) (w : Tok) (v' : List Tok), w.kind.isWord = true → u ≠ [] →
    1 + 2 * sepWordPairs (u ++ w :: v').tail ≤ u.length + (1 + 2 * sepWordPairs v')
  | [], _, _, _, hne => absurd rfl hne
  | [a], w, v', hw, _ => by
    have hs := word_not_sep _ hw
    cases v' with
    | nil => simp [sepWordPairs]
    | cons x xs => simp [sepWordPairs, hs]
  | [a, b], w, v', hw, _ => by
    simp only [List.cons_append, List.nil_append, List.tail_cons, sepWordPairs, List.length_cons,
      List.length_nil]
    split <;> omega
  | a :: b :: c :: u'', w, v', hw, _ => by
    have ih := pairs_through (c :: u'') w v' hw (by simp)
    simp only [List.cons_append, List.tail_cons, List.length_cons] at ih ⊢
    simp only [sepWordPairs]
    split <;> omega

theorem runLen_pos {l : List Tok} (h : runLen l > 0) :
    ∃ t r, l = t :: r ∧ t.kind.isWord = true ∧ 1 ≤ sepWordPairs r ∧ runLen l = 1 + 2 * sepWordPairs r := by
  match l with
  | [] => simp [runLen] at h
  | t :: r =>
    simp only [runLen] at h ⊢
    split at h
    · rename_i hc
      simp only [Bool.and_eq_true, decide_eq_true_eq] at hc
      exact ⟨t, r, rfl, hc.1, hc.2, by simp [hc.1, hc.2]⟩
    · omega

theorem wordOrNumber_patOK (src : List Char) : PatOK wordOrNumberPat src (fun _ => True) where
  tail := fun _ _ _ => trivial
  ok := by
    intro v _
    refine ⟨_, wordOrNumberPat_eq src v, ?_⟩
    match v with
    | [] => simp [runLen]
    | t :: r =>
      have := sepWordPairs_le r
      simp only [runLen, List.length_cons]
      split <;> omega
  mono := by
    intro u v n n' hu _ hn hpos hn' hpos'
    rw [wordOrNumberPat_eq] at hn hn'
    injection hn with hn
    injection hn' with hn'
    subst hn hn'
    obtain ⟨w, v', rfl, hw, _, e2⟩ := runLen_pos hpos'
    obtain ⟨t, r, e0, _, _, e1⟩ := runLen_pos hpos
    have := pairs_through u w v' hw hu
    rw [e0] at this
    simp only [List.tail_cons] at this
    omega

/-- the last token of a match is a word -/
theorem pairs_last : ∀ (r : List Tok), 1 ≤ sepWordPairs r →
    ∃ t, r[2 * sepWordPairs r - 1]? = some t ∧ t.kind.isWord = true
  | [], h => by simp [sepWordPairs] at h
  | [_], h => by simp [sepWordPairs] at h
  | a :: b :: r', h => by
    simp only [sepWordPairs] at h ⊢
    split at h
    · rename_i hc
      simp only [Bool.and_eq_true] at hc
      rw [if_pos (by simp [hc.1, hc.2])]
      by_cases h0 : sepWordPairs r' = 0
      · refine ⟨b, ?_, hc.2⟩
        simp [h0]
      · obtain ⟨t, ht, hw⟩ := pairs_last r' (by omega)
        refine ⟨t, ?_, hw⟩
        have : 2 * (sepWordPairs r' + 1) - 1 = (2 * sepWordPairs r' - 1) + 2 := by omega
        rw [this]
        simpa using ht
    · omega

/-! ## the matches of `find_all_matches` -/

/-- the first and the last token of the match are words -/
def EndsWord (toks : List Tok) (m : Span) : Prop :=
  ∃ s e, toks[m.start]? = some s ∧ toks[m.stop - 1]? = some e ∧
    s.kind.isWord = true ∧ e.kind.isWord = true

theorem findAllMatches_good (src : List Char) (toks : List Tok) :
    ∃ ms, findAllMatches wordOrNumberPat src toks = .ok ms ∧ GoodMs 0 ms toks.length ∧
      ∀ m ∈ ms, EndsWord toks m := by
  obtain ⟨found, hf, hinc, hmem⟩ := foundFrom_inc (wordOrNumber_patOK src) toks 0 trivial
  rw [Nat.zero_add] at hinc
  have hg := filter_good _ found hinc
  have hends : ∀ b ∈ found, EndsWord toks b := by
    intro b hb
    obtain ⟨u, v, n', e, hm, hpos, rfl⟩ := hmem b hb
    rw [wordOrNumberPat_eq] at hm
    injection hm with hm
    subst hm
    obtain ⟨w, r, rfl, hw, hp, e1⟩ := runLen_pos hpos
    obtain ⟨t, ht, htw⟩ := pairs_last r hp
    refine ⟨w, t, ?_, ?_, hw, htw⟩
    · rw [e]; simp
    · rw [e, e1]
      simp only [Nat.zero_add]
      rw [List.getElem?_append_right (by omega)]
      have : u.length + (1 + 2 * sepWordPairs r) - 1 - u.length = (2 * sepWordPairs r - 1) + 1 := by omega
      rw [this]
      simpa using ht
  unfold findAllMatches
  rw [hf]
  simp only
  by_cases hlt : found.length < 2
  · rw [if_pos hlt] at hg ⊢
    exact ⟨found, rfl, hg, hends⟩
  · rw [if_neg hlt] at hg ⊢
    refine ⟨_, rfl, hg, ?_⟩
    intro m hm
    exact hends m ((ri_sublist found 0 _).subset hm)

/-! ## the loop -/

/-- `out` is `inp` with some disjoint runs replaced by ONE `Word` token each, spanning from the
start of the run's first token to the end of its last token; first and last are words -/
inductive Merged : List Tok → List Tok → Prop
  | nil : Merged [] []
  | keep (t : Tok) {a b : List Tok} : Merged a b → Merged (t :: a) (t :: b)
  | merge (first last : Tok) (tl : List Tok) {a b : List Tok}
      (hl : (first :: tl).getLast? = some last)
      (hw : first.kind.isWord = true ∧ last.kind.isWord = true) :
      Merged a b →
      Merged (first :: tl ++ a) (⟨⟨first.span.start, last.span.stop⟩, .word⟩ :: b)

theorem Merged.refl : ∀ (l : List Tok), Merged l l
  | [] => .nil
  | t :: l => .keep t (Merged.refl l)

theorem Merged.prefix (pre : List Tok) {a b : List Tok} (h : Merged a b) : Merged (pre ++ a) (pre ++ b) := by
  induction pre with
  | nil => exact h
  | cons t pre ih => exact .keep t ih

theorem collapseLoop_prefix (dict : List Char → Bool) (src : List Char) (pre : List Tok)
    (ms : List Span) (hpos : ∀ m ∈ ms, 0 < m.stop) (l : List Tok) (rem0 rem : List Nat) :
    collapseLoop dict src (ms.map (shSpan pre.length)) (pre ++ l) (rem0 ++ rem.map (· + pre.length)) =
      (collapseLoop dict src ms l rem).map (fun r => (pre ++ r.1, rem0 ++ r.2.map (· + pre.length))) := by
  induction ms generalizing l rem with
  | nil => simp [collapseLoop, Except.map]
  | cons m ms ih =>
    have hm := hpos m List.mem_cons_self
    have hpos' : ∀ m ∈ ms, 0 < m.stop := fun x hx => hpos x (List.mem_cons_of_mem _ hx)
    simp only [List.map_cons, collapseLoop, shSpan]
    rw [if_neg (by omega), if_neg (by omega)]
    rw [List.getElem?_append_right (by omega), show m.start + pre.length - pre.length = m.start by omega,
      List.getElem?_append_right (by omega),
      show m.stop + pre.length - 1 - pre.length = m.stop - 1 by omega]
    cases hs : l[m.start]? with
    | none => simp [Except.map]
    | some s =>
      cases he : l[m.stop - 1]? with
      | none => simp [Except.map]
      | some e =>
        simp only [bind, Except.bind]
        cases hcs : Span.new s.span.start e.span.stop with
        | error x => simp [Except.map]
        | ok cs =>
          simp only
          cases hc : cs.getContent src with
          | error x => simp [Except.map]
          | ok content =>
            simp only
            split
            · rw [List.set_append_right _ _ (by omega),
                show m.start + pre.length - pre.length = m.start by omega]
              have := ih hpos' (l.set m.start ⟨cs, .word⟩)
                (rem ++ rangeFrom (m.start + 1) (m.stop - (m.start + 1)))
              rw [← this]
              congr 1
              rw [List.map_append, ← List.append_assoc]
              congr 1
              rw [show m.start + pre.length + 1 = (m.start + 1) + pre.length by omega, rangeFrom_shift]
              congr 2
              omega
            · exact ih hpos' l rem

theorem goodMs_pos {off n : Nat} : ∀ {ms : List Span}, GoodMs off ms n → ∀ m ∈ ms, 0 < m.stop
  | [], _, _, hm => by cases hm
  | m :: ms, h, x, hx => by
    obtain ⟨_, h2, _, h4⟩ := h
    rcases List.mem_cons.mp hx with rfl | hx
    · omega
    · exact goodMs_pos h4 x hx

theorem rangeFrom_lt (a n j : Nat) (h : j ∈ rangeFrom a n) : a ≤ j ∧ j < a + n := by
  induction n generalizing a with
  | zero => simp [rangeFrom] at h
  | succ n ih =>
    simp only [rangeFrom, List.mem_cons] at h
    rcases h with rfl | h
    · omega
    · have := ih _ h; omega

theorem rangeFrom_pairwise (a n : Nat) : (rangeFrom a n).Pairwise (· < ·) := by
  induction n generalizing a with
  | zero => simp [rangeFrom]
  | succ n ih =>
    simp only [rangeFrom]
    refine List.pairwise_cons.mpr ⟨?_, ih _⟩
    intro b hb
    have := rangeFrom_lt _ _ _ hb
    omega

/-- the loop and the removal, for matches that are disjoint and increasing: every accepted match
is replaced by one token, nothing else changes; the removal queue is already sorted and unique -/
theorem collapseLoop_merged (dict : List Char → Bool) (src : List Char) :
    ∀ (len : Nat) (ms : List Span), ms.length = len → ∀ (toks : List Tok),
      GoodMs 0 ms toks.length → (∀ m ∈ ms, EndsWord toks m) →
      ∀ ts r, collapseLoop dict src ms toks [] = .ok (ts, r) →
        Merged toks (removeIndices 0 r ts) ∧ r.Pairwise (· < ·) ∧ ∀ j ∈ r, j < toks.length := by
  intro len
  induction len with
  | zero =>
    intro ms hl toks _ _ ts r h
    have : ms = [] := by cases ms <;> simp_all
    subst this
    simp only [collapseLoop] at h
    cases h
    exact ⟨by rw [ri_nil]; exact Merged.refl _, by simp, by simp⟩
  | succ len ih =>
    intro ms hl toks hg hends ts r h
    match ms, hl with
    | m :: ms', hl =>
      obtain ⟨_, g2, g3, g4⟩ := hg
      obtain ⟨pre, seg, l, rfl, hpre, hseg⟩ := split3 toks m.start m.stop (by omega) g3
      obtain ⟨e2, gg2⟩ := g4.unshift m.stop (Nat.le_refl _)
      generalize hms2 : ms'.map (unshSpan m.stop) = ms2 at e2 gg2
      have hl2 : ms2.length = len := by rw [← hms2]; simpa using hl
      have hlen : (pre ++ (seg ++ l)).length = pre.length + seg.length + l.length := by simp; omega
      rw [hlen] at gg2 g3
      rw [show pre.length + seg.length + l.length - m.stop = l.length by omega, Nat.sub_self] at gg2
      have hends2 : ∀ m2 ∈ ms2, EndsWord l m2 := by
        intro m2 hm2
        have hm2' : shSpan m.stop m2 ∈ ms' := by rw [e2]; exact List.mem_map_of_mem hm2
        obtain ⟨s, e, h1, h2, h3, h4⟩ := hends _ (List.mem_cons_of_mem _ hm2')
        have hp2 := goodMs_pos gg2 m2 hm2
        refine ⟨s, e, ?_, ?_, h3, h4⟩
        · simp only [shSpan] at h1
          rw [← List.append_assoc, List.getElem?_append_right (by simp; omega)] at h1
          rw [← h1]; congr 1; simp; omega
        · simp only [shSpan] at h2
          rw [← List.append_assoc, List.getElem?_append_right (by simp; omega)] at h2
          rw [← h2]; congr 1; simp; omega
      -- `seg` is not empty; its first and last token
      obtain ⟨first, tl, rfl⟩ : ∃ first tl, seg = first :: tl := by
        cases seg with
        | nil => simp at hseg; omega
        | cons a b => exact ⟨a, b, rfl⟩
      obtain ⟨s, e, hs, he, hsw, hew⟩ := hends m List.mem_cons_self
      have hs' : (pre ++ (first :: tl ++ l))[m.start]? = some first := by
        rw [List.getElem?_append_right (by omega), hpre]; simp
      have hfirst : s = first := by rw [hs'] at hs; cases hs; rfl
      subst hfirst
      have he' : (pre ++ (s :: tl ++ l))[m.stop - 1]? = (s :: tl).getLast? := by
        rw [List.getElem?_append_right (by omega), List.getElem?_append_left (by simp at hseg ⊢; omega)]
        rw [List.getLast?_eq_getElem?]
        congr 1
        simp at hseg ⊢; omega
      have hlast : (s :: tl).getLast? = some e := by rw [← he', he]
      -- one step of the loop
      simp only [collapseLoop] at h
      rw [if_neg (by omega), hs, he] at h
      simp only [bind, Except.bind] at h
      cases hcs : Span.new s.span.start e.span.stop with
      | error x => rw [hcs] at h; cases h
      | ok cs =>
        rw [hcs] at h
        simp only at h
        have hcs' : cs = ⟨s.span.start, e.span.stop⟩ := by
          unfold Span.new at hcs
          split at hcs
          · cases hcs
          · cases hcs; rfl
        subst hcs'
        cases hc : Span.getContent (⟨s.span.start, e.span.stop⟩ : Span) src with
        | error x => rw [hc] at h; cases h
        | ok content =>
          rw [hc] at h
          simp only at h
          by_cases hd : dict content = true
          · -- accepted: the run becomes one token
            rw [if_pos hd] at h
            let merged : Tok := ⟨⟨s.span.start, e.span.stop⟩, .word⟩
            have hset : (pre ++ (s :: tl ++ l)).set m.start merged = (pre ++ merged :: tl) ++ l := by
              rw [List.set_append_right _ _ (by omega), hpre]; simp
            have hk : (pre ++ merged :: tl).length = m.stop := by simp at hseg ⊢; omega
            have step := collapseLoop_prefix dict src (pre ++ merged :: tl) ms2 (goodMs_pos gg2) l
              (rangeFrom (m.start + 1) (m.stop - (m.start + 1))) []
            rw [hk, ← e2, List.map_nil, List.append_nil] at step
            rw [hset, List.nil_append, step] at h
            cases h2 : collapseLoop dict src ms2 l [] with
            | error x => rw [h2] at h; simp [Except.map] at h
            | ok p =>
              obtain ⟨ts2, r2⟩ := p
              rw [h2] at h
              simp only [Except.map] at h
              cases h
              obtain ⟨hm2, hp2, hb2⟩ := ih ms2 hl2 l gg2 hends2 ts2 r2 h2
              have hrl : m.stop - (m.start + 1) = tl.length := by simp at hseg; omega
              refine ⟨?_, ?_, ?_⟩
              · rw [List.append_assoc]
                rw [removeIndices_prefix_keep pre _ 0 _ (by
                  intro j hj
                  rcases List.mem_append.mp hj with hj | hj
                  · have := rangeFrom_lt _ _ _ hj; omega
                  · obtain ⟨x, _, rfl⟩ := List.mem_map.mp hj; omega)]
                have hkeep := removeIndices_prefix_keep [merged] (tl ++ ts2) (0 + pre.length)
                  (rangeFrom (m.start + 1) (m.stop - (m.start + 1)) ++ r2.map (· + m.stop)) (by
                    intro j hj
                    rcases List.mem_append.mp hj with hj | hj
                    · have := rangeFrom_lt _ _ _ hj; simp; omega
                    · obtain ⟨x, _, rfl⟩ := List.mem_map.mp hj; simp; omega)
                simp only [List.cons_append, List.nil_append, List.length_singleton] at hkeep ⊢
                rw [hkeep, hrl]
                rw [show m.start + 1 = 0 + pre.length + 1 by omega, removeIndices_range]
                rw [show 0 + pre.length + 1 + tl.length = 0 + m.stop by simp at hseg; omega,
                  removeIndices_shift]
                apply Merged.prefix
                have := Merged.merge s e tl hlast ⟨hsw, hew⟩ hm2
                simp only [List.cons_append] at this
                exact this
              · refine List.pairwise_append.mpr ⟨rangeFrom_pairwise _ _, ?_, ?_⟩
                · exact List.Pairwise.map _ (fun a b hab => by omega) hp2
                · intro a ha b hb
                  have := rangeFrom_lt _ _ _ ha
                  obtain ⟨x, _, rfl⟩ := List.mem_map.mp hb
                  omega
              · intro j hj
                rw [hlen]
                rcases List.mem_append.mp hj with hj | hj
                · have := rangeFrom_lt _ _ _ hj; omega
                · obtain ⟨x, hx, rfl⟩ := List.mem_map.mp hj
                  have := hb2 x hx; omega
          · -- rejected: nothing changes here
            rw [if_neg hd] at h
            have hk : (pre ++ (s :: tl)).length = m.stop := by simp at hseg ⊢; omega
            have step := collapseLoop_prefix dict src (pre ++ (s :: tl)) ms2 (goodMs_pos gg2) l [] []
            rw [hk, ← e2, List.map_nil, List.append_nil] at step
            rw [← List.append_assoc, step] at h
            cases h2 : collapseLoop dict src ms2 l [] with
            | error x => rw [h2] at h; simp [Except.map] at h
            | ok p =>
              obtain ⟨ts2, r2⟩ := p
              rw [h2] at h
              simp only [Except.map, List.nil_append] at h
              cases h
              obtain ⟨hm2, hp2, hb2⟩ := ih ms2 hl2 l gg2 hends2 ts2 r2 h2
              refine ⟨?_, ?_, ?_⟩
              · rw [removeIndices_prefix_keep (pre ++ s :: tl) _ 0 _ (by
                  intro j hj
                  obtain ⟨x, _, rfl⟩ := List.mem_map.mp hj; omega)]
                rw [hk, removeIndices_shift, ← List.append_assoc]
                exact Merged.prefix _ hm2
              · exact List.Pairwise.map _ (fun a b hab => by omega) hp2
              · intro j hj
                rw [hlen]
                obtain ⟨x, hx, rfl⟩ := List.mem_map.mp hj
                have := hb2 x hx; omega

theorem insertUniq_lt (x : Nat) (l : List Nat) (h : ∀ y ∈ l, x < y) : insertUniq x l = x :: l := by
  cases l with
  | nil => rfl
  | cons y ys => simp [insertUniq, h y List.mem_cons_self]

/-- `sorted().unique()` does nothing to a strictly increasing queue -/
theorem sortUniq_of_sorted (l : List Nat) (h : l.Pairwise (· < ·)) : sortUniq l = l := by
  induction l with
  | nil => rfl
  | cons x xs ih =>
    have ⟨h1, h2⟩ := List.pairwise_cons.mp h
    simp only [sortUniq, List.foldr_cons] at ih ⊢
    rw [ih h2, insertUniq_lt x xs h1]

/-- `CollapseIdentifiers::parse` after the inner parser: if it returns, the result is the input
with disjoint runs merged -/
theorem collapseIdentifiers_merged (dict : List Char → Bool) (src : List Char) (toks out : List Tok)
    (h : collapseIdentifiers dict src toks = .ok out) : Merged toks out := by
  obtain ⟨ms, hf, hg, hends⟩ := findAllMatches_good src toks
  simp only [collapseIdentifiers, hf, bind, Except.bind] at h
  cases hc : collapseLoop dict src ms toks [] with
  | error x => rw [hc] at h; cases h
  | ok p =>
    obtain ⟨ts, r⟩ := p
    rw [hc] at h
    simp only [pure, Except.pure] at h
    cases h
    obtain ⟨hm, hp, _⟩ := collapseLoop_merged dict src ms.length ms rfl toks hg hends ts r hc
    rw [sortUniq_of_sorted r hp]
    exact hm

/-! ## what merging preserves -/

theorem Merged.length_le {a b : List Tok} (h : Merged a b) : b.length ≤ a.length := by
  induction h with
  | nil => simp
  | keep t _ ih => simp; omega
  | merge first last tl hl hw _ ih => simp; omega

/-- every output token is an input token, or spans from the start of one input token to the end
of a later one -/
theorem Merged.mem {a b : List Tok} (h : Merged a b) :
    ∀ t ∈ b, t ∈ a ∨ ∃ f l, f ∈ a ∧ l ∈ a ∧ t = ⟨⟨f.span.start, l.span.stop⟩, .word⟩ := by
  induction h with
  | nil => intro t ht; cases ht
  | keep x _ ih =>
    intro t ht
    rcases List.mem_cons.mp ht with rfl | ht
    · left; simp
    · rcases ih t ht with h | ⟨f, l, hf, hl, e⟩
      · left; exact List.mem_cons_of_mem _ h
      · right; exact ⟨f, l, List.mem_cons_of_mem _ hf, List.mem_cons_of_mem _ hl, e⟩
  | merge first last tl hl hw _ ih =>
    intro t ht
    have hlast : last ∈ first :: tl := List.mem_of_getLast? hl
    rcases List.mem_cons.mp ht with rfl | ht
    · right
      exact ⟨first, last, by simp, List.mem_append_left _ hlast, rfl⟩
    · rcases ih t ht with h | ⟨f, l, hf, hl', e⟩
      · left; exact List.mem_append_right _ h
      · right; exact ⟨f, l, List.mem_append_right _ hf, List.mem_append_right _ hl', e⟩

/-- ordered, disjoint, well-formed, in-bounds token lists stay so (plain English, HTML, comments:
every token covers characters) -/
theorem Merged.sorted {n : Nat} {a b : List Tok} (h : Merged a b)
    (hwf : ∀ t ∈ a, t.span.start ≤ t.span.stop ∧ t.span.stop ≤ n)
    (hs : a.Pairwise (fun x y => x.span.stop ≤ y.span.start)) :
    (∀ t ∈ b, t.span.start ≤ t.span.stop ∧ t.span.stop ≤ n) ∧
    b.Pairwise (fun x y => x.span.stop ≤ y.span.start) := by
  induction h with
  | nil => simp
  | keep x hm ih =>
    have ⟨h1, h2⟩ := List.pairwise_cons.mp hs
    obtain ⟨i1, i2⟩ := ih (fun t ht => hwf t (List.mem_cons_of_mem _ ht)) h2
    refine ⟨?_, ?_⟩
    · intro t ht
      rcases List.mem_cons.mp ht with rfl | ht
      · exact hwf _ List.mem_cons_self
      · exact i1 t ht
    · refine List.pairwise_cons.mpr ⟨?_, i2⟩
      intro y hy
      rcases hm.mem y hy with hy' | ⟨f, l, hf, _, rfl⟩
      · exact h1 y hy'
      · exact h1 f hf
  | merge first last tl hl hw hm ih =>
    rename_i a' b'
    have hsplit : (first :: tl ++ a') = (first :: tl) ++ a' := rfl
    rw [hsplit] at hs hwf
    obtain ⟨hs1, hs2, hs3⟩ := List.pairwise_append.mp hs
    obtain ⟨i1, i2⟩ := ih (fun t ht => hwf t (List.mem_append_right _ ht)) hs2
    have hlast : last ∈ first :: tl := List.mem_of_getLast? hl
    have hfl : first.span.start ≤ last.span.stop := by
      have hf := hwf first (by simp)
      rcases List.mem_cons.mp hlast with rfl | hlt
      · exact hf.1
      · have := (List.pairwise_cons.mp hs1).1 last hlt
        have := hwf last (List.mem_append_left _ hlast)
        omega
    refine ⟨?_, ?_⟩
    · intro t ht
      rcases List.mem_cons.mp ht with rfl | ht
      · exact ⟨hfl, (hwf last (List.mem_append_left _ hlast)).2⟩
      · exact i1 t ht
    · refine List.pairwise_cons.mpr ⟨?_, i2⟩
      intro y hy
      rcases hm.mem y hy with hy' | ⟨f, l, hf, _, rfl⟩
      · exact hs3 last hlast y hy'
      · exact hs3 last hlast f hf


/-- as `Merged.mem`, with the fact that the two ends of a merged run are words -/
theorem Merged.mem_word {a b : List Tok} (h : Merged a b) :
    ∀ t ∈ b, t ∈ a ∨ ∃ f l, f ∈ a ∧ l ∈ a ∧ f.kind.isWord = true ∧ l.kind.isWord = true ∧
      t = ⟨⟨f.span.start, l.span.stop⟩, .word⟩ := by
  induction h with
  | nil => intro t ht; cases ht
  | keep x _ ih =>
    intro t ht
    rcases List.mem_cons.mp ht with rfl | ht
    · left; simp
    · rcases ih t ht with h | ⟨f, l, hf, hl, w1, w2, e⟩
      · left; exact List.mem_cons_of_mem _ h
      · right; exact ⟨f, l, List.mem_cons_of_mem _ hf, List.mem_cons_of_mem _ hl, w1, w2, e⟩
  | merge first last tl hl hw _ ih =>
    intro t ht
    have hlast : last ∈ first :: tl := List.mem_of_getLast? hl
    rcases List.mem_cons.mp ht with rfl | ht
    · right
      exact ⟨first, last, by simp, List.mem_append_left _ hlast, hw.1, hw.2, rfl⟩
    · rcases ih t ht with h | ⟨f, l, hf, hl', w1, w2, e⟩
      · left; exact List.mem_append_right _ h
      · right; exact ⟨f, l, List.mem_append_right _ hf, List.mem_append_right _ hl', w1, w2, e⟩

/-- the Markdown shape — zero-width structural tokens anywhere, the tokens that cover characters
increasing and disjoint — is preserved as well, provided word tokens cover characters -/
theorem Merged.good {n : Nat} {a b : List Tok} (h : Merged a b)
    (hw : ∀ t ∈ a, t.kind.isWord = true → t.span.start < t.span.stop) (hg : Good n 0 a) :
    Good n 0 b := by
  induction h with
  | nil => exact hg
  | keep x hm ih =>
    have hga : Good n 0 _ := hg.sublist (List.sublist_cons_self x _)
    have hwa := fun t ht => hw t (List.mem_cons_of_mem _ ht)
    have i := ih hwa hga
    refine ⟨?_, fun _ _ _ => Nat.zero_le _, ?_⟩
    · intro t ht
      rcases List.mem_cons.mp ht with rfl | ht
      · exact hg.inb _ List.mem_cons_self
      · exact i.inb t ht
    · have hs := hg.sorted
      simp only [List.filter_cons] at hs ⊢
      split
      · rename_i hc
        rw [if_pos hc] at hs
        have ⟨h1, _⟩ := List.pairwise_cons.mp hs
        refine List.pairwise_cons.mpr ⟨?_, i.sorted⟩
        intro y hy
        obtain ⟨hyb, hyc⟩ := List.mem_filter.mp hy
        rcases hm.mem_word y hyb with hy' | ⟨f, l, hf, _, w1, _, rfl⟩
        · exact h1 y (List.mem_filter.mpr ⟨hy', hyc⟩)
        · exact h1 f (List.mem_filter.mpr ⟨hf, (cov_iff f).mpr (hwa f hf w1)⟩)
      · exact i.sorted
  | merge first last tl hl hww hm ih =>
    rename_i a' b'
    have hsplit : (first :: tl ++ a') = (first :: tl) ++ a' := rfl
    rw [hsplit] at hg hw
    have hga : Good n 0 a' := hg.sublist (List.sublist_append_right _ _)
    have hwa := fun t ht => hw t (List.mem_append_right _ ht)
    have i := ih hwa hga
    have hlast : last ∈ first :: tl := List.mem_of_getLast? hl
    have hcf : first.span.start < first.span.stop := hw first (by simp) hww.1
    have hcl : last.span.start < last.span.stop := hw last (List.mem_append_left _ hlast) hww.2
    have hs := hg.sorted
    rw [List.filter_append] at hs
    obtain ⟨hs1, _, hs3⟩ := List.pairwise_append.mp hs
    have hfl : first.span.start < last.span.stop := by
      rcases List.mem_cons.mp hlast with rfl | hlt
      · exact hcf
      · have hf1 : (first :: tl).filter cov = first :: tl.filter cov := by
          simp [List.filter_cons, (cov_iff first).mpr hcf]
        rw [hf1] at hs1
        have := (List.pairwise_cons.mp hs1).1 last (List.mem_filter.mpr ⟨hlt, (cov_iff last).mpr hcl⟩)
        omega
    have hlc : last ∈ (first :: tl).filter cov := List.mem_filter.mpr ⟨hlast, (cov_iff last).mpr hcl⟩
    refine ⟨?_, fun _ _ _ => Nat.zero_le _, ?_⟩
    · intro t ht
      rcases List.mem_cons.mp ht with rfl | ht
      · exact ⟨by simp only; omega, (hg.inb last (List.mem_append_left _ hlast)).2⟩
      · exact i.inb t ht
    · have hcm : cov (⟨⟨first.span.start, last.span.stop⟩, .word⟩ : Tok) = true := (cov_iff _).mpr hfl
      simp only [List.filter_cons, hcm, if_true]
      refine List.pairwise_cons.mpr ⟨?_, i.sorted⟩
      intro y hy
      obtain ⟨hyb, hyc⟩ := List.mem_filter.mp hy
      rcases hm.mem_word y hyb with hy' | ⟨f, l, hf, _, w1, _, rfl⟩
      · exact hs3 last hlc y (List.mem_filter.mpr ⟨hy', hyc⟩)
      · exact hs3 last hlc f (List.mem_filter.mpr ⟨hf, (cov_iff f).mpr (hwa f hf w1)⟩)

end Harper.Md
