import Harper.Model.Title
/-! Helper lemmas for C18 (`Harper/Props/C18.lean`): the loop as a per-character function. -/
namespace Harper.Title

/-- results of the model are decidable-comparable (for the concrete examples) -/
instance instDecEqResult : DecidableEq (Except Panic (List Nat)) := fun a b =>
  match a, b with
  | .ok x, .ok y => if h : x = y then isTrue (by rw [h]) else isFalse (fun h' => h (by injection h'))
  | .error x, .error y => if h : x = y then isTrue (by rw [h]) else isFalse (fun h' => h (by injection h'))
  | .ok _, .error _ => isFalse (fun h => by cases h)
  | .error _, .ok _ => isFalse (fun h => by cases h)

theorem up_up (x : Nat) : up (up x) = up x := by unfold up; (repeat' split) <;> omega
theorem up_low (x : Nat) : up (low x) = up x := by unfold up low; (repeat' split) <;> omega
theorem low_up (x : Nat) : low (up x) = low x := by unfold up low; (repeat' split) <;> omega
theorem low_low (x : Nat) : low (low x) = low x := by unfold low; (repeat' split) <;> omega

theorem up_not_lower (x : Nat) : isAsciiLower (up x) = false := by
  unfold isAsciiLower up; split <;> simp <;> omega

theorem CaseOf.refl (x : Nat) : CaseOf x x := Or.inl rfl
theorem CaseOf.up {x y : Nat} (h : CaseOf x y) : CaseOf x (up y) := by
  rcases h with rfl | rfl | rfl
  · exact Or.inr (Or.inl rfl)
  · exact Or.inr (Or.inl (up_up _))
  · exact Or.inr (Or.inl (up_low _))
theorem CaseOf.low {x y : Nat} (h : CaseOf x y) : CaseOf x (low y) := by
  rcases h with rfl | rfl | rfl
  · exact Or.inr (Or.inr rfl)
  · exact Or.inr (Or.inr (low_up _))
  · exact Or.inr (Or.inr (low_low _))

/-- the functions a character can undergo: identity, ASCII upper, ASCII lower, a constant -/
def Cls (f : Nat → Nat) : Prop := f = id ∨ f = up ∨ f = low ∨ ∃ k, f = fun _ => k

theorem Cls.comp {f g : Nat → Nat} (hf : Cls f) (hg : Cls g) : Cls (g ∘ f) := by
  rcases hg with rfl | rfl | rfl | ⟨k, rfl⟩
  · exact hf
  · rcases hf with rfl | rfl | rfl | ⟨k, rfl⟩
    · exact Or.inr (Or.inl rfl)
    · exact Or.inr (Or.inl (funext up_up))
    · exact Or.inr (Or.inl (funext up_low))
    · exact Or.inr (Or.inr (Or.inr ⟨up k, rfl⟩))
  · rcases hf with rfl | rfl | rfl | ⟨k, rfl⟩
    · exact Or.inr (Or.inr (Or.inl rfl))
    · exact Or.inr (Or.inr (Or.inl (funext low_up)))
    · exact Or.inr (Or.inr (Or.inl (funext low_low)))
    · exact Or.inr (Or.inr (Or.inr ⟨low k, rfl⟩))
  · exact Or.inr (Or.inr (Or.inr ⟨k, rfl⟩))

theorem Cls.idem {f : Nat → Nat} (hf : Cls f) (x : Nat) : f (f x) = f x := by
  rcases hf with rfl | rfl | rfl | ⟨k, rfl⟩
  · rfl
  · exact up_up x
  · exact low_low x
  · rfl

theorem eff_cls (a b : Nat) (canon : Option (List Nat)) (cap : Bool) (i : Nat) :
    Cls (eff a b canon cap i) := by
  let pre : Nat → Nat := fun x => match canon with
    | some c => if a ≤ i ∧ i < b then c.getD (i - a) x else x
    | none => x
  let post : Nat → Nat := fun y =>
    if cap then (if i = a then up y else y) else (if a ≤ i ∧ i < b then low y else y)
  have hfac : eff a b canon cap i = post ∘ pre := rfl
  have hpost : Cls post := by
    cases cap
    · by_cases h : a ≤ i ∧ i < b
      · refine Or.inr (Or.inr (Or.inl ?_)); funext y; simp [post, h]
      · refine Or.inl ?_; funext y; simp [post, h]
    · by_cases h : i = a
      · refine Or.inr (Or.inl ?_); funext y; simp [post, h]
      · refine Or.inl ?_; funext y; simp [post, h]
  have hpre : Cls pre := by
    cases canon with
    | none => exact Or.inl rfl
    | some c =>
      by_cases h : a ≤ i ∧ i < b
      · cases hc : c[i - a]? with
        | none => refine Or.inl ?_; funext x; simp [pre, h, List.getD, hc]
        | some k => refine Or.inr (Or.inr (Or.inr ⟨k, ?_⟩)); funext x; simp [pre, h, List.getD, hc]
      · refine Or.inl ?_; funext x; simp [pre, h]
  rw [hfac]
  exact hpre.comp hpost

theorem mapIdx_id' (l : List Nat) : l.mapIdx (fun _ x => x) = l := by
  apply List.ext_getElem?
  intro i
  simp [List.getElem?_mapIdx]

/-- the loop's effect on the character at buffer index `i` -/
def effAll (si : Nat) : Nat → List TTok → Nat → Nat → Nat
  | _, [], _, x => x
  | index, w :: rest, i, x =>
    effAll si (index + 1) rest i
      (eff (w.start - si) (w.stop - si) w.canon (shouldCapToken w || index == 0 || rest.isEmpty) i x)

theorem effAll_cls (si : Nat) (ws : List TTok) (index i : Nat) : Cls (effAll si index ws i) := by
  induction ws generalizing index with
  | nil => exact Or.inl rfl
  | cons w rest ih =>
    exact (eff_cls _ _ _ _ i).comp (ih (index + 1))

theorem step_ok {si : Nat} {w : TTok} {cap : Bool} {out out' : List Nat}
    (h : step si w cap out = .ok out') :
    stepPanics si out.length w cap = false ∧
    out' = out.mapIdx (fun i x => eff (w.start - si) (w.stop - si) w.canon cap i x) := by
  unfold step at h
  split at h
  · cases h
  · rename_i hp
    injection h with h
    exact ⟨by simpa using hp, h.symm⟩

/-- would any iteration of the loop panic on a buffer of length `len`? -/
def loopPanics (si len : Nat) : Nat → List TTok → Bool
  | _, [] => false
  | index, w :: rest =>
    stepPanics si len w (shouldCapToken w || index == 0 || rest.isEmpty) || loopPanics si len (index + 1) rest

theorem loop_eq (si : Nat) (ws : List TTok) (index : Nat) (out : List Nat) :
    loop si index ws out =
      if loopPanics si out.length index ws then .error .sliceOOB
      else .ok (out.mapIdx (fun i x => effAll si index ws i x)) := by
  induction ws generalizing index out with
  | nil => simp [loop, loopPanics, effAll, mapIdx_id']
  | cons w rest ih =>
    by_cases hp : stepPanics si out.length w (shouldCapToken w || index == 0 || rest.isEmpty) = true
    · have hs : step si w (shouldCapToken w || index == 0 || rest.isEmpty) out = .error .sliceOOB := by
        unfold step; rw [if_pos hp]
      simp only [loop, hs, loopPanics, hp, Bool.true_or, if_true]
    · have hs : step si w (shouldCapToken w || index == 0 || rest.isEmpty) out =
          .ok (out.mapIdx (fun i x => eff (w.start - si) (w.stop - si) w.canon
            (shouldCapToken w || index == 0 || rest.isEmpty) i x)) := by
        unfold step; rw [if_neg hp]
      have hp' : stepPanics si out.length w (shouldCapToken w || index == 0 || rest.isEmpty) = false := by
        simpa using hp
      simp only [loop, hs, loopPanics, hp', Bool.false_or]
      rw [ih]
      simp only [List.length_mapIdx, List.mapIdx_mapIdx]
      rfl

theorem getContent_ok {lo hi : Nat} {src out0 : List Nat}
    (h : Span.getContent ⟨lo, hi⟩ src = .ok out0) :
    lo ≤ hi ∧ out0.length = hi - lo ∧ ∀ i, i < hi - lo → out0[i]? = src[lo + i]? := by
  unfold Span.getContent at h
  simp only [] at h
  split at h
  · cases h
  · rename_i h1
    split at h
    · split at h
      · rename_i h3
        injection h with h
        subst h
        have : hi = lo := by simpa using h3
        subst this
        exact ⟨Nat.le_refl _, by simp, fun i hi => by omega⟩
      · cases h
    · rename_i h2
      injection h with h
      subst h
      refine ⟨by omega, ?_, ?_⟩
      · simp only [List.length_take, List.length_drop]; omega
      · intro i hi'
        simp only [List.getElem?_take, hi', if_true, List.getElem?_drop]

theorem getContent_full (l : List Nat) : Span.getContent ⟨0, l.length⟩ l = .ok l := by
  unfold Span.getContent
  cases l with
  | nil => simp
  | cons x xs => simp

/-- what a successful run is -/
theorem makeTitleCase_ok {toks : List TTok} {src out : List Nat} {first : TTok} {rest : List TTok}
    (ht : toks = first :: rest) (h : makeTitleCase toks src = .ok out) :
    ∃ lo hi out0, spanOf toks = some (lo, hi) ∧ Span.getContent ⟨lo, hi⟩ src = .ok out0 ∧
      loopPanics first.start out0.length 0 (toks.filter (·.wordLike)) = false ∧
      out = out0.mapIdx (fun i x => effAll first.start 0 (toks.filter (·.wordLike)) i x) := by
  subst ht
  unfold makeTitleCase at h
  simp only [] at h
  split at h
  · cases h
  · rename_i lo hi hsp
    split at h
    · cases h
    · rename_i out0 hg
      rw [loop_eq] at h
      split at h
      · cases h
      · rename_i hp
        injection h with h
        exact ⟨lo, hi, out0, hsp, hg, by simpa using hp, h.symm⟩

theorem makeTitleCase_of {toks : List TTok} {src out0 : List Nat} {first : TTok} {rest : List TTok}
    {lo hi : Nat} (ht : toks = first :: rest) (hsp : spanOf toks = some (lo, hi))
    (hg : Span.getContent ⟨lo, hi⟩ src = .ok out0)
    (hp : loopPanics first.start out0.length 0 (toks.filter (·.wordLike)) = false) :
    makeTitleCase toks src =
      .ok (out0.mapIdx (fun i x => effAll first.start 0 (toks.filter (·.wordLike)) i x)) := by
  subst ht
  unfold makeTitleCase
  simp only [hsp, hg]
  rw [loop_eq, hp]
  rfl

/-! ### only case changes -/

/-- `y` descends from `x0` (the source character at buffer index `i`) by case changes, or from a
character of the canonical spelling of a proper-noun token covering `i` -/
def Inv (si : Nat) (allWs : List TTok) (i x0 y : Nat) : Prop :=
  CaseOf x0 y ∨ ∃ w ∈ allWs, ∃ c, w.canon = some c ∧ w.start - si ≤ i ∧ i < w.stop - si ∧
    ∃ y0, c[i - (w.start - si)]? = some y0 ∧ CaseOf y0 y

theorem Inv.up {si allWs i x0 y} (h : Inv si allWs i x0 y) : Inv si allWs i x0 (up y) := by
  rcases h with h | ⟨w, hw, c, hc, h1, h2, y0, hy, h3⟩
  · exact Or.inl h.up
  · exact Or.inr ⟨w, hw, c, hc, h1, h2, y0, hy, h3.up⟩

theorem Inv.low {si allWs i x0 y} (h : Inv si allWs i x0 y) : Inv si allWs i x0 (low y) := by
  rcases h with h | ⟨w, hw, c, hc, h1, h2, y0, hy, h3⟩
  · exact Or.inl h.low
  · exact Or.inr ⟨w, hw, c, hc, h1, h2, y0, hy, h3.low⟩

theorem eff_inv {si : Nat} {allWs : List TTok} {w : TTok} (hw : w ∈ allWs) (cap : Bool)
    {i x0 y : Nat} (h : Inv si allWs i x0 y) :
    Inv si allWs i x0 (eff (w.start - si) (w.stop - si) w.canon cap i y) := by
  have hpre : Inv si allWs i x0 (match w.canon with
      | some c => if w.start - si ≤ i ∧ i < w.stop - si then c.getD (i - (w.start - si)) y else y
      | none => y) := by
    cases hc : w.canon with
    | none => exact h
    | some c =>
      simp only []
      by_cases hr : w.start - si ≤ i ∧ i < w.stop - si
      · rw [if_pos hr]
        cases hk : c[i - (w.start - si)]? with
        | none => simpa [List.getD, hk] using h
        | some k =>
          have : c.getD (i - (w.start - si)) y = k := by simp [List.getD, hk]
          rw [this]
          exact Or.inr ⟨w, hw, c, hc, hr.1, hr.2, k, hk, CaseOf.refl k⟩
      · rw [if_neg hr]; exact h
  have hpost : ∀ z, Inv si allWs i x0 z → Inv si allWs i x0
      (if cap then (if i = w.start - si then up z else z)
       else (if w.start - si ≤ i ∧ i < w.stop - si then low z else z)) := by
    intro z hz
    cases cap
    · simp only [Bool.false_eq_true, if_false]
      split
      · exact hz.low
      · exact hz
    · simp only [if_true]
      split
      · exact hz.up
      · exact hz
  exact hpost _ hpre

theorem effAll_inv {si : Nat} {allWs : List TTok} (ws : List TTok) (hws : ∀ w ∈ ws, w ∈ allWs)
    (index : Nat) {i x0 y : Nat} (h : Inv si allWs i x0 y) :
    Inv si allWs i x0 (effAll si index ws i y) := by
  induction ws generalizing index y with
  | nil => exact h
  | cons w rest ih =>
    unfold effAll
    exact ih (fun v hv => hws v (List.mem_cons_of_mem _ hv)) (index + 1)
      (eff_inv (hws w List.mem_cons_self) _ h)

/-! ### first word -/

theorem eff_outside (a b : Nat) (canon : Option (List Nat)) (cap : Bool) (i y : Nat)
    (h1 : ¬ (a ≤ i ∧ i < b)) (h2 : i ≠ a) : eff a b canon cap i y = y := by
  unfold eff
  cases canon <;> cases cap <;> simp [h1, h2]

theorem effAll_id_before (si : Nat) (ws : List TTok) (index i y : Nat)
    (h : ∀ w ∈ ws, i < w.start - si) : effAll si index ws i y = y := by
  induction ws generalizing index with
  | nil => rfl
  | cons w rest ih =>
    unfold effAll
    have hw := h w List.mem_cons_self
    have : eff (w.start - si) (w.stop - si) w.canon
        (shouldCapToken w || index == 0 || rest.isEmpty) i y = y :=
      eff_outside _ _ _ _ _ _ (by omega) (by omega)
    rw [this]
    exact ih (index + 1) (fun v hv => h v (List.mem_cons_of_mem _ hv))

/-! ### no panic -/

theorem stepPanics_false {si hi : Nat} {w : TTok} (cap : Bool) (h1 : si ≤ w.start)
    (h2 : w.start < w.stop) (h3 : w.stop ≤ hi) (h4 : ∀ c, w.canon = some c → w.stop - w.start ≤ c.length) :
    stepPanics si (hi - si) w cap = false := by
  cases hc : w.canon with
  | none => cases cap <;> simp [stepPanics, hc] <;> omega
  | some c =>
    have := h4 c hc
    cases cap <;> simp [stepPanics, hc] <;> omega

theorem loopPanics_false {si hi : Nat} (ws : List TTok) (index : Nat)
    (h : ∀ w ∈ ws, si ≤ w.start ∧ w.start < w.stop ∧ w.stop ≤ hi ∧
      ∀ c, w.canon = some c → w.stop - w.start ≤ c.length) :
    loopPanics si (hi - si) index ws = false := by
  induction ws generalizing index with
  | nil => rfl
  | cons w rest ih =>
    unfold loopPanics
    obtain ⟨h1, h2, h3, h4⟩ := h w List.mem_cons_self
    rw [stepPanics_false _ h1 h2 h3 h4, ih (index + 1) (fun v hv => h v (List.mem_cons_of_mem _ hv))]
    rfl

/-! ### `CaseStable`: the result depends on the consulted data only -/

theorem spanOf_congr {a b : List TTok} (h : a.map TTok.consulted = b.map TTok.consulted) :
    spanOf a = spanOf b := by
  induction a generalizing b with
  | nil => cases b with
    | nil => rfl
    | cons y ys => simp at h
  | cons x xs ih =>
    cases b with
    | nil => simp at h
    | cons y ys =>
      simp only [List.map_cons, List.cons.injEq] at h
      obtain ⟨hxy, hrest⟩ := h
      have h1 : x.start = y.start := by simpa [TTok.consulted] using congrArg (·.1) hxy
      have h2 : x.stop = y.stop := by simpa [TTok.consulted] using congrArg (·.2.1) hxy
      unfold spanOf
      rw [ih hrest, h1, h2]

theorem filter_congr {a b : List TTok} (h : a.map TTok.consulted = b.map TTok.consulted) :
    (a.filter (·.wordLike)).map TTok.consulted = (b.filter (·.wordLike)).map TTok.consulted := by
  induction a generalizing b with
  | nil => cases b with
    | nil => rfl
    | cons y ys => simp at h
  | cons x xs ih =>
    cases b with
    | nil => simp at h
    | cons y ys =>
      simp only [List.map_cons, List.cons.injEq] at h
      obtain ⟨hxy, hrest⟩ := h
      have h3 : x.wordLike = y.wordLike := by simpa [TTok.consulted] using congrArg (·.2.2.1) hxy
      simp only [List.filter_cons, h3]
      split
      · simp only [List.map_cons, hxy, ih hrest]
      · exact ih hrest

theorem loop_congr (si : Nat) {a b : List TTok} (h : a.map TTok.consulted = b.map TTok.consulted)
    (index : Nat) (out : List Nat) : loop si index a out = loop si index b out := by
  induction a generalizing b index out with
  | nil => cases b with
    | nil => rfl
    | cons y ys => simp at h
  | cons x xs ih =>
    cases b with
    | nil => simp at h
    | cons y ys =>
      simp only [List.map_cons, List.cons.injEq] at h
      obtain ⟨hxy, hrest⟩ := h
      have h1 : x.start = y.start := by simpa [TTok.consulted] using congrArg (·.1) hxy
      have h2 : x.stop = y.stop := by simpa [TTok.consulted] using congrArg (·.2.1) hxy
      have h4 : x.canon = y.canon := by simpa [TTok.consulted] using congrArg (·.2.2.2.1) hxy
      have h5 : shouldCapToken x = shouldCapToken y := by
        simpa [TTok.consulted] using congrArg (·.2.2.2.2) hxy
      have h6 : xs.isEmpty = ys.isEmpty := by
        have := congrArg List.length hrest
        simp only [List.length_map] at this
        cases xs <;> cases ys <;> simp_all
      have hstep : ∀ cap, step si x cap out = step si y cap out := by
        intro cap; unfold step stepPanics; rw [h1, h2, h4]
      rw [loop, loop]
      simp only [hstep, h5, h6]
      cases step si y (shouldCapToken y || index == 0 || ys.isEmpty) out with
      | error e => rfl
      | ok o => exact ih hrest _ _

theorem makeTitleCase_congr {a b : List TTok} (h : a.map TTok.consulted = b.map TTok.consulted)
    (src : List Nat) : makeTitleCase a src = makeTitleCase b src := by
  cases a with
  | nil => cases b with
    | nil => rfl
    | cons y ys => simp at h
  | cons x xs =>
    cases b with
    | nil => simp at h
    | cons y ys =>
      have hsp := spanOf_congr h
      have hf := filter_congr h
      have h1 : x.start = y.start := by
        simp only [List.map_cons, List.cons.injEq] at h
        simpa [TTok.consulted] using congrArg (·.1) h.1
      unfold makeTitleCase
      simp only [hsp, h1]
      split
      · rfl
      · split
        · rfl
        · exact loop_congr _ hf _ _

/-! ### concrete data for the examples of `Props/C18.lean` -/

/-- `this is a test` → `This Is a Test` -/
def toksEx : List TTok := [
  ⟨0,4,true,true,false,true,[116,104,105,115],none⟩, ⟨4,5,false,false,false,false,[],none⟩,
  ⟨5,7,true,true,false,false,[105,115],none⟩, ⟨7,8,false,false,false,false,[],none⟩,
  ⟨8,9,true,true,false,true,[97],none⟩, ⟨9,10,false,false,false,false,[],none⟩,
  ⟨10,14,true,true,false,false,[116,101,115,116],none⟩]
def srcEx : List Nat := [116,104,105,115,32,105,115,32,97,32,116,101,115,116]
def outEx : List Nat := [84,104,105,115,32,73,115,32,97,32,84,101,115,116]

end Harper.Title
