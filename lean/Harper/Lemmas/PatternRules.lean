import Harper.Model.PatternRules
import Harper.Lemmas.Leaves
/-!
Lemmas for `Model/PatternRules.lean`.

* how many tokens a pattern tree can match: `RPat.minLen` (a non-zero answer is at least that: what makes the index
  expressions `matched_tokens[i]` of a `match_to_lint` safe) and `RPat.maxLen` (for sequences / alternatives of
  single-token closures: Dashes' `match matched_tokens.len() { 2 .. 3 .. _ => panic!() }`);
* the interpreter `Spec.run` of a `match_to_lint`: it moves with its match (`Spec.run_shift`), does not look at
  text after its tokens (`Spec.run_left`), and on in-text tokens of a length that fits its index expressions it
  returns, with a span inside the text (`Spec.run_ok`);
* `Fits` also counts the texts bound so far (`Txt.Fits n v`, `StepsFit`, `CustomYields`): every `.var i` of a fitting spec is
  bound where it is evaluated, so the default of `vars.getD i []` is dead — `Spec.run` equals the interpreter without the
  default (`Spec.run?_eq`);
* hence for a rule = (pattern tree, spec): `PRule.piece_ok`, `PRule.xlocalE`.
-/
namespace Harper.PatternRules
open Harper Harper.Chunks Harper.Rules Harper.Leaves

/-! ## lower bounds on a non-zero answer -/

def listMin : List Nat → Nat
  | [] => 0
  | [a] => a
  | a :: b :: l => min a (listMin (b :: l))

def listMax : List Nat → Nat
  | [] => 0
  | a :: l => max a (listMax l)

theorem listMin_le : ∀ (l : List Nat) (x : Nat), x ∈ l → listMin l ≤ x
  | [a], x, h => by simp only [List.mem_singleton] at h; subst h; exact Nat.le_refl _
  | a :: b :: l, x, h => by
    simp only [listMin]
    rcases List.mem_cons.mp h with rfl | h
    · exact Nat.min_le_left _ _
    · exact Nat.le_trans (Nat.min_le_right _ _) (listMin_le (b :: l) x h)

theorem le_listMax : ∀ (l : List Nat) (x : Nat), x ∈ l → x ≤ listMax l
  | a :: l, x, h => by
    simp only [listMax]
    rcases List.mem_cons.mp h with rfl | h
    · exact Nat.le_max_left _ _
    · exact Nat.le_trans (le_listMax l x h) (Nat.le_max_right _ _)

theorem listMax_le : ∀ (l : List Nat) (n : Nat), (∀ x ∈ l, x ≤ n) → listMax l ≤ n
  | [], _, _ => Nat.zero_le _
  | a :: l, n, h => by
    simp only [listMax]
    exact Nat.max_le.mpr ⟨h a (by simp), listMax_le l n (fun x hx => h x (List.mem_cons_of_mem _ hx))⟩

end Harper.PatternRules
namespace Harper.Leaves
open Harper.PatternRules (listMin listMax)
/-- a lower bound on every NON-ZERO answer of a leaf: `SplitCompoundWord` answers 0 or 3 -/
def Leaf.minLen : Leaf → Nat
  | .splitCompound _ => 3
  | _ => 1

mutual
/-- a lower bound on every NON-ZERO answer of the tree -/
def RPat.minLen : RPat → Nat
  | .leaf l => l.minLen
  | .seq ps => (RPats.minLens ps).sum
  | .rep p _ => RPat.minLen p
  | .either ps => listMin (RPats.minLens ps)
  | .all ps => listMax (RPats.minLens ps)
  | .invert _ => 1
  | .consumes p => RPat.minLen p
  | .first ps => listMin (RPats.minLens ps)
  | .similar _ b => RPat.minLen b
  | .notTitleCase p => RPat.minLen p
  | .wordGroup rows => listMin (WRows.minLens rows)
  | .kindGroup rows => listMin (KRows.minLens rows)
def RPats.minLens : RPats → List Nat
  | .nil => []
  | .cons p ps => RPat.minLen p :: RPats.minLens ps
def WRows.minLens : WRows → List Nat
  | .nil => []
  | .cons _ p rest => RPat.minLen p :: WRows.minLens rest
def KRows.minLens : KRows → List Nat
  | .nil => []
  | .cons _ p rest => RPat.minLen p :: KRows.minLens rest
end

end Harper.Leaves
namespace Harper.PatternRules
open Harper Harper.Chunks Harper.Rules Harper.Leaves

/-- two lists related element by element -/
inductive Pairs {α β} (R : α → β → Prop) : List α → List β → Prop
  | nil : Pairs R [] []
  | cons {a b l₁ l₂} : R a b → Pairs R l₁ l₂ → Pairs R (a :: l₁) (b :: l₂)

/-- every non-zero answer of `m` is at least `k` -/
def LB (m : Matcher) (k : Nat) : Prop := ∀ src ts n, m src ts = .ok n → n ≠ 0 → k ≤ n

theorem lb_one (m : Matcher) : LB m 1 := fun _ _ n _ hn => by omega

theorem forall₂_mem {α β} {R : α → β → Prop} : ∀ {l : List α} {k : List β}, Pairs R l k → ∀ a ∈ l, ∃ b ∈ k, R a b
  | _, _, .nil, a, h => by cases h
  | _, _, .cons hr ht, a, h => by
    rcases List.mem_cons.mp h with rfl | h
    · exact ⟨_, by simp, hr⟩
    · obtain ⟨b, hb, hab⟩ := forall₂_mem ht a h
      exact ⟨b, List.mem_cons_of_mem _ hb, hab⟩

theorem forall₂_mem_right {α β} {R : α → β → Prop} : ∀ {l : List α} {k : List β}, Pairs R l k → ∀ b ∈ k, ∃ a ∈ l, R a b
  | _, _, .nil, b, h => by cases h
  | _, _, .cons hr ht, b, h => by
    rcases List.mem_cons.mp h with rfl | h
    · exact ⟨_, by simp, hr⟩
    · obtain ⟨a, ha, hab⟩ := forall₂_mem_right ht b h
      exact ⟨a, List.mem_cons_of_mem _ ha, hab⟩

theorem seqGo_lb (src : List Char) : ∀ (ps : List Matcher) (ks : List Nat), Pairs LB ps ks → ∀ (acc : Nat) (ts : List Tok) (n : Nat),
    seqGo src ps acc ts = .ok n → n ≠ 0 → acc + ks.sum ≤ n
  | _, _, .nil, acc, ts, n, h, _ => by
    simp only [seqGo, Except.ok.injEq] at h
    subst h
    simp
  | _, _, .cons (a := p) (b := k) (l₁ := ps) (l₂ := ks) hp hps, acc, ts, n, h, hn => by
    simp only [seqGo] at h
    cases hm : p src ts with
    | error e => rw [hm] at h; cases h
    | ok j =>
      rw [hm] at h
      simp only [] at h
      split at h
      · cases h; exact absurd rfl hn
      · rename_i hj
        split at h
        · cases h
        · have := seqGo_lb src ps ks hps (acc + j) (ts.drop j) n h hn
          have hk := hp src ts j hm hj
          simp only [List.sum_cons]
          omega

theorem eitherGo_mem (src : List Char) (ts : List Tok) : ∀ (ps : List Matcher) (longest n : Nat),
    eitherGo src ts ps longest = .ok n → n = longest ∨ ∃ m ∈ ps, m src ts = .ok n
  | [], longest, n, h => by
    simp only [eitherGo, Except.ok.injEq] at h
    exact .inl h.symm
  | p :: ps, longest, n, h => by
    simp only [eitherGo] at h
    cases hm : p src ts with
    | error e => rw [hm] at h; cases h
    | ok j =>
      rw [hm] at h
      simp only [] at h
      rcases eitherGo_mem src ts ps _ n h with h1 | ⟨m, hmm, he⟩
      · split at h1
        · exact .inr ⟨p, by simp, by rw [hm, h1]⟩
        · exact .inl h1
      · exact .inr ⟨m, List.mem_cons_of_mem _ hmm, he⟩

theorem firstGo_mem (src : List Char) (ts : List Tok) : ∀ (ps : List Matcher) (n : Nat),
    firstGo src ts ps = .ok n → n ≠ 0 → ∃ m ∈ ps, m src ts = .ok n
  | [], n, h, hn => by
    simp only [firstGo, Except.ok.injEq] at h
    exact absurd h.symm hn
  | p :: ps, n, h, hn => by
    simp only [firstGo] at h
    cases hm : p src ts with
    | error e => rw [hm] at h; cases h
    | ok j =>
      rw [hm] at h
      simp only [] at h
      split at h
      · cases h; exact ⟨p, by simp, hm⟩
      · obtain ⟨m, hmm, he⟩ := firstGo_mem src ts ps n h hn
        exact ⟨m, List.mem_cons_of_mem _ hmm, he⟩

/-- a non-zero answer of `All` is at least every child's answer, and every child answered non-zero -/
theorem allGo_lb (src : List Char) (ts : List Tok) : ∀ (ps : List Matcher) (mx n : Nat),
    allGo src ts ps mx = .ok n → n ≠ 0 → mx ≤ n ∧ ∀ m ∈ ps, ∃ j, m src ts = .ok j ∧ j ≠ 0 ∧ j ≤ n
  | [], mx, n, h, _ => by
    simp only [allGo, Except.ok.injEq] at h
    subst h
    exact ⟨Nat.le_refl _, by simp⟩
  | p :: ps, mx, n, h, hn => by
    simp only [allGo] at h
    cases hm : p src ts with
    | error e => rw [hm] at h; cases h
    | ok j =>
      rw [hm] at h
      simp only [] at h
      split at h
      · cases h; exact absurd rfl hn
      · rename_i hj
        obtain ⟨h1, h2⟩ := allGo_lb src ts ps _ n h hn
        refine ⟨by split at h1 <;> omega, ?_⟩
        intro m hmm
        rcases List.mem_cons.mp hmm with rfl | hmm
        · exact ⟨j, hm, hj, by split at h1 <;> omega⟩
        · exact h2 m hmm

theorem repGo_lb (inner : Matcher) (k : Nat) (hk : LB inner k) (req : Nat) (src : List Char) :
    ∀ (fuel cursor rep : Nat) (ts : List Tok) (n : Nat), repGo inner req src fuel cursor rep ts = .ok n → n ≠ 0 →
      n = cursor ∨ cursor + k ≤ n := by
  intro fuel
  induction fuel with
  | zero => intro _ _ _ _ h; cases h
  | succ fuel ih =>
    intro cursor rep ts n h hn
    simp only [repGo] at h
    cases hm : inner src ts with
    | error e => rw [hm] at h; cases h
    | ok j =>
      rw [hm] at h
      simp only [] at h
      split at h
      · simp only [Except.ok.injEq] at h
        split at h
        · exact .inl h.symm
        · exact absurd h.symm hn
      · rename_i hj
        split at h
        · cases h
        · have hkj := hk src ts j hm hj
          rcases ih _ _ _ _ h hn with h1 | h1
          · exact .inr (by omega)
          · exact .inr (by omega)

theorem lb_of_mem {ms : List Matcher} {ks : List Nat} (h : Pairs LB ms ks) (m : Matcher) (hm : m ∈ ms)
    (src : List Char) (ts : List Tok) (n : Nat) (e : m src ts = .ok n) (hn : n ≠ 0) : listMin ks ≤ n := by
  obtain ⟨k, hk, hlb⟩ := forall₂_mem h m hm
  exact Nat.le_trans (listMin_le ks k hk) (hlb src ts n e hn)

theorem splitCompound_lb (env : Env) (bit : Nat) : LB (splitCompoundAtom env bit) 3 := by
  intro src ts n h hn
  simp only [splitCompoundAtom] at h
  repeat' split at h
  all_goals first | (simp only [Except.ok.injEq] at h; omega) | cases h

theorem leaf_lb (env : Env) (l : Leaf) : LB (l.matcher env) l.minLen := by
  cases l with
  | splitCompound bit => exact splitCompound_lb env bit
  | _ => exact lb_one _

mutual
/-- **a non-zero answer of a tree is at least its `minLen`** (on any tokens: no hypothesis) -/
theorem matcher_lb (env : Env) : (p : RPat) → LB (p.matcher env) p.minLen
  | .leaf l => by rw [RPat.minLen, RPat.matcher]; exact leaf_lb env l
  | .seq ps => by
    rw [RPat.matcher, RPat.minLen]
    intro src ts n h hn
    have := seqGo_lb src _ _ (matchers_lb env ps) 0 ts n h hn
    omega
  | .rep p req => by
    rw [RPat.matcher, RPat.minLen]
    intro src ts n h hn
    rcases repGo_lb _ _ (matcher_lb env p) req src _ 0 0 ts n h hn with h1 | h1
    · exact absurd h1 hn
    · omega
  | .either ps => by
    rw [RPat.matcher, RPat.minLen]
    intro src ts n h hn
    rcases eitherGo_mem src ts _ 0 n h with h1 | ⟨m, hm, e⟩
    · exact absurd h1 hn
    · exact lb_of_mem (matchers_lb env ps) m hm src ts n e hn
  | .all ps => by
    rw [RPat.matcher, RPat.minLen]
    intro src ts n h hn
    obtain ⟨_, h2⟩ := allGo_lb src ts _ 0 n h hn
    apply listMax_le
    intro k hk
    obtain ⟨m, hm, hlb⟩ := forall₂_mem_right (matchers_lb env ps) k hk
    obtain ⟨j, ej, hj0, hjn⟩ := h2 m hm
    exact Nat.le_trans (hlb src ts j ej hj0) hjn
  | .invert p => by rw [RPat.minLen]; exact lb_one _
  | .consumes p => by
    rw [RPat.matcher, RPat.minLen]
    intro src ts n h hn
    simp only [consumesPat] at h
    cases hm : p.matcher env src ts with
    | error e => rw [hm] at h; cases h
    | ok j =>
      rw [hm] at h
      simp only [Except.ok.injEq] at h
      split at h
      · subst h; exact matcher_lb env p src ts j hm hn
      · exact absurd h.symm hn
  | .first ps => by
    rw [RPat.matcher, RPat.minLen]
    intro src ts n h hn
    obtain ⟨m, hm, e⟩ := firstGo_mem src ts _ n h hn
    exact lb_of_mem (matchers_lb env ps) m hm src ts n e hn
  | .similar a b => by
    rw [RPat.matcher, RPat.minLen]
    intro src ts n h hn
    simp only [similarPat] at h
    cases ha : a.matcher env src ts with
    | error e => rw [ha] at h; cases h
    | ok x =>
      rw [ha] at h
      simp only [] at h
      cases hb : b.matcher env src ts with
      | error e => rw [hb] at h; cases h
      | ok y =>
        rw [hb] at h
        simp only [Except.ok.injEq] at h
        split at h
        · rename_i hc
          have := matcher_lb env b src ts y hb (by omega)
          omega
        · exact absurd h.symm hn
  | .notTitleCase p => by
    rw [RPat.matcher, RPat.minLen]
    intro src ts n h hn
    simp only [notTitleCasePat] at h
    cases hm : p.matcher env src ts with
    | error e => rw [hm] at h; cases h
    | ok j =>
      rw [hm] at h
      simp only [] at h
      have hj := matcher_lb env p src ts j hm
      split at h
      · cases h; exact absurd rfl hn
      · cases hs : sliceE ts 0 j with
        | error e => rw [hs] at h; cases h
        | ok m =>
          rw [hs] at h
          simp only [] at h
          cases hsp : spanOf m with
          | none => rw [hsp] at h; cases h
          | some sp =>
            rw [hsp] at h
            simp only [] at h
            cases hc : sp.getContent src with
            | error e => rw [hc] at h; cases h
            | ok matched =>
              rw [hc] at h
              simp only [] at h
              cases ht : Title.makeTitleCase (m.map (toTTok env src)) (src.map Char.toNat) with
              | error e => rw [ht] at h; cases h
              | ok tc =>
                rw [ht] at h
                simp only [Except.ok.injEq] at h
                split at h
                · subst h; exact hj hn
                · exact absurd h.symm hn
  | .wordGroup rows => by
    rw [RPat.matcher, RPat.minLen]
    intro src ts n h hn
    cases ts with
    | nil => cases h; exact absurd rfl hn
    | cons t ts =>
      simp only [wordGroupPat] at h
      split at h
      · cases h; exact absurd rfl hn
      · cases hc : t.span.getContent src with
        | error e => rw [hc] at h; cases h
        | ok cs =>
          rw [hc] at h
          simp only [] at h
          have hsub : ∀ m ∈ (List.filter (fun r => r.1 == cs) (WRows.rows env rows)).map (·.2), m ∈ (WRows.rows env rows).map (·.2) := by
            intro m hm
            obtain ⟨r, hr, rfl⟩ := List.mem_map.mp hm
            exact List.mem_map.mpr ⟨r, (List.mem_filter.mp hr).1, rfl⟩
          generalize (List.filter (fun r => r.1 == cs) (WRows.rows env rows)).map (·.2) = g at hsub h
          cases g with
          | nil => cases h; exact absurd rfl hn
          | cons a g =>
            obtain ⟨m, hm, e⟩ := firstGo_mem src _ _ n h hn
            exact lb_of_mem (wrows_lb env rows) m (hsub m hm) src _ n e hn
  | .kindGroup rows => by
    rw [RPat.matcher, RPat.minLen]
    intro src ts n h hn
    cases ts with
    | nil => cases h; exact absurd rfl hn
    | cons t ts =>
      simp only [kindGroupPat] at h
      cases hf : (KRows.rows env rows).find? (fun r => r.1 == t.kind) with
      | none => rw [hf] at h; cases h; exact absurd rfl hn
      | some r =>
        rw [hf] at h
        exact lb_of_mem (krows_lb env rows) r.2 (List.mem_map.mpr ⟨r, List.mem_of_find?_eq_some hf, rfl⟩) src _ n h hn
theorem matchers_lb (env : Env) : (ps : RPats) → Pairs LB (RPats.matchers env ps) (RPats.minLens ps)
  | .nil => by simp only [RPats.matchers, RPats.minLens]; exact .nil
  | .cons p ps => by simp only [RPats.matchers, RPats.minLens]; exact .cons (matcher_lb env p) (matchers_lb env ps)
theorem wrows_lb (env : Env) : (rows : WRows) → Pairs LB ((WRows.rows env rows).map (·.2)) (WRows.minLens rows)
  | .nil => by simp only [WRows.rows, WRows.minLens, List.map_cons, List.map_nil]; exact .nil
  | .cons w p rest => by simp only [WRows.rows, WRows.minLens, List.map_cons, List.map_nil]; exact .cons (matcher_lb env p) (wrows_lb env rest)
theorem krows_lb (env : Env) : (rows : KRows) → Pairs LB ((KRows.rows env rows).map (·.2)) (KRows.minLens rows)
  | .nil => by simp only [KRows.rows, KRows.minLens, List.map_cons, List.map_nil]; exact .nil
  | .cons k p rest => by simp only [KRows.rows, KRows.minLens, List.map_cons, List.map_nil]; exact .cons (matcher_lb env p) (krows_lb env rest)
end

/-! ## upper bounds (sequences and alternatives of single-token closures) -/

def optSum : List (Option Nat) → Option Nat
  | [] => some 0
  | a :: l =>
    match a, optSum l with
    | some x, some y => some (x + y)
    | _, _ => none

def optMax : List (Option Nat) → Option Nat
  | [] => some 0
  | a :: l =>
    match a, optMax l with
    | some x, some y => some (max x y)
    | _, _ => none

end Harper.PatternRules
namespace Harper.Leaves
open Harper.PatternRules (optSum optMax)

/-- an upper bound on the answer, where the model knows one -/
def Leaf.maxLen : Leaf → Option Nat
  | .kind _ _ => some 1
  | _ => none

mutual
def RPat.maxLen : RPat → Option Nat
  | .leaf l => l.maxLen
  | .seq ps => optSum (RPats.maxLens ps)
  | .either ps => optMax (RPats.maxLens ps)
  | _ => none
def RPats.maxLens : RPats → List (Option Nat)
  | .nil => []
  | .cons p ps => RPat.maxLen p :: RPats.maxLens ps
end

end Harper.Leaves
namespace Harper.PatternRules
open Harper Harper.Chunks Harper.Rules Harper.Leaves

/-- every answer of `m` is at most `k`, if `o` names a `k` -/
def UB (m : Matcher) (o : Option Nat) : Prop := ∀ k, o = some k → ∀ src ts n, m src ts = .ok n → n ≤ k

theorem seqGo_ub (src : List Char) : ∀ (ps : List Matcher) (os : List (Option Nat)), Pairs UB ps os → ∀ (K acc : Nat) (ts : List Tok) (n : Nat),
    optSum os = some K → seqGo src ps acc ts = .ok n → n ≤ acc + K
  | _, _, .nil, K, acc, ts, n, hK, h => by
    simp only [seqGo, Except.ok.injEq] at h
    omega
  | _, _, .cons (a := p) (b := o) (l₁ := ps) (l₂ := os) hp hps, K, acc, ts, n, hK, h => by
    simp only [optSum] at hK
    cases o with
    | none => simp at hK
    | some x =>
      cases hy : optSum os with
      | none => rw [hy] at hK; simp at hK
      | some y =>
        rw [hy] at hK
        simp only [Option.some.injEq] at hK
        simp only [seqGo] at h
        cases hm : p src ts with
        | error e => rw [hm] at h; cases h
        | ok j =>
          rw [hm] at h
          simp only [] at h
          have hj := hp x rfl src ts j hm
          split at h
          · cases h; omega
          · split at h
            · cases h
            · have := seqGo_ub src ps os hps y (acc + j) (ts.drop j) n hy h
              omega

theorem eitherGo_ub (src : List Char) (ts : List Tok) : ∀ (ps : List Matcher) (os : List (Option Nat)), Pairs UB ps os → ∀ (K longest n : Nat),
    optMax os = some K → eitherGo src ts ps longest = .ok n → n ≤ max longest K
  | _, _, .nil, K, longest, n, hK, h => by
    simp only [eitherGo, Except.ok.injEq] at h
    omega
  | _, _, .cons (a := p) (b := o) (l₁ := ps) (l₂ := os) hp hps, K, longest, n, hK, h => by
    simp only [optMax] at hK
    cases o with
    | none => simp at hK
    | some x =>
      cases hy : optMax os with
      | none => rw [hy] at hK; simp at hK
      | some y =>
        rw [hy] at hK
        simp only [Option.some.injEq] at hK
        simp only [eitherGo] at h
        cases hm : p src ts with
        | error e => rw [hm] at h; cases h
        | ok j =>
          rw [hm] at h
          simp only [] at h
          have hj := hp x rfl src ts j hm
          have := eitherGo_ub src ts ps os hps y _ n hy h
          split at this <;> omega

theorem leaf_ub (env : Env) : (l : Leaf) → UB (l.matcher env) l.maxLen
  | .kind q neg => by
    intro k hk src ts n h
    simp only [Leaf.maxLen, Option.some.injEq] at hk
    subst hk
    cases ts with
    | nil => cases h; omega
    | cons t ts =>
      simp only [Leaf.matcher, tokAtom, Except.ok.injEq] at h
      subst h
      split <;> split <;> omega
  | .strict _ | .punctIs _ | .numberIs _ _ _ | .exactWord _ | .anyCap _ | .wordSet _ | .withinEdit _ _ | .whitespace | .any
  | .nominalPhrase | .impliesQuantity | .splitCompound _ | .closure _ => by
    intro k hk
    simp [Leaf.maxLen] at hk

mutual
/-- **an answer of a tree is at most its `maxLen`**, where that is defined -/
theorem matcher_ub (env : Env) : (p : RPat) → UB (p.matcher env) p.maxLen
  | .leaf l => by rw [RPat.matcher, RPat.maxLen]; exact leaf_ub env l
  | .seq ps => by
    rw [RPat.matcher, RPat.maxLen]
    intro K hK src ts n h
    have := seqGo_ub src _ _ (matchers_ub env ps) K 0 ts n hK h
    omega
  | .either ps => by
    rw [RPat.matcher, RPat.maxLen]
    intro K hK src ts n h
    have := eitherGo_ub src ts _ _ (matchers_ub env ps) K 0 n hK h
    omega
  | .rep _ _ | .all _ | .invert _ | .consumes _ | .first _ | .similar _ _ | .notTitleCase _ | .wordGroup _ | .kindGroup _ => by
    intro k hk
    simp [RPat.maxLen] at hk
theorem matchers_ub (env : Env) : (ps : RPats) → Pairs UB (RPats.matchers env ps) (RPats.maxLens ps)
  | .nil => by simp only [RPats.matchers, RPats.maxLens]; exact .nil
  | .cons p ps => by simp only [RPats.matchers, RPats.maxLens]; exact .cons (matcher_ub env p) (matchers_ub env ps)
end

/-! ## the interpreter of `match_to_lint` moves with its match -/

theorem Sel.eval_shift (s : Sel) (k j : Nat) (l : List Tok) :
    s.eval (l.map (shTok k j)) = (s.eval l).map (Option.map (shiftSpan k)) := by
  cases s with
  | whole => simp only [Sel.eval, spanOf_shTok]; rfl
  | tok i =>
    simp only [Sel.eval, List.getElem?_map]
    cases l[i]? <;> rfl
  | first =>
    simp only [Sel.eval, List.head?_map]
    cases l.head? <;> rfl
  | last =>
    simp only [Sel.eval, List.getLast?_map]
    cases l.getLast? <;> rfl
  | slice a b =>
    simp only [Sel.eval, sliceE_map]
    cases sliceE l a b with
    | error e => rfl
    | ok sub => simp only [Except.map, spanOf_shTok]
  | fromEnd n =>
    simp only [Sel.eval, List.length_map, List.getElem?_map]
    split
    · rfl
    · cases l[l.length - n]? <;> rfl
  | drop a =>
    simp only [Sel.eval, List.length_map, sliceE_map]
    cases sliceE l a l.length with
    | error e => rfl
    | ok sub => simp only [Except.map, spanOf_shTok]

theorem Txt.eval_shift (P D : List Char) (l : List Tok) (j : Nat) (vars : List (List Char)) : ∀ t : Txt,
    t.eval (P ++ D) (l.map (shTok P.length j)) vars = t.eval D l vars
  | .lit _ => rfl
  | .sel s => by
    simp only [Txt.eval, Sel.eval_shift]
    cases s.eval l with
    | error e => rfl
    | ok o =>
      cases o with
      | none => rfl
      | some sp => simp only [Except.map, Option.map_some, getContent_shift']
  | .var _ => rfl
  | .cat a b => by simp only [Txt.eval, Txt.eval_shift P D l j vars a, Txt.eval_shift P D l j vars b]

theorem SuggSpec.eval_shift (env : Env) (P D : List Char) (l : List Tok) (j : Nat) (vars : List (List Char)) (s : SuggSpec) :
    s.eval env (P ++ D) (l.map (shTok P.length j)) vars = s.eval env D l vars := by
  cases s <;> simp only [SuggSpec.eval, Txt.eval_shift]

theorem evalSuggs_shift (env : Env) (P D : List Char) (l : List Tok) (j : Nat) (vars : List (List Char)) : ∀ ss : List SuggSpec,
    evalSuggs env (P ++ D) (l.map (shTok P.length j)) vars ss = evalSuggs env D l vars ss
  | [] => rfl
  | s :: ss => by simp only [evalSuggs, SuggSpec.eval_shift, evalSuggs_shift env P D l j vars ss]

/-- tokens inside the first `n` characters -/
def InP (n : Nat) (l : List Tok) : Prop := ∀ t ∈ l, t.span.start ≤ t.span.stop ∧ t.span.stop ≤ n

/-- what a rule's own computation must satisfy: it moves with the match, does not read behind its tokens, and is
total on in-text slices of at least `need` tokens -/
structure CustomGood (need : Nat) (f : CustomFn) : Prop where
  shift : ∀ env (P D : List Char) (l : List Tok) (j : Nat), f env (P ++ D) (l.map (shTok P.length j)) = f env D l
  left : ∀ env (P D : List Char) (l : List Tok), InP P.length l → f env (P ++ D) l = f env P l
  ok : ∀ env (src : List Char) (l : List Tok), InText src l → need ≤ l.length → ∃ o, f env src l = .ok o

def Step.Good : Step → Prop
  | .custom need f => CustomGood need f
  | _ => True

theorem Step.run_shift (env : Env) (P D : List Char) (l : List Tok) (j : Nat) (vars : List (List Char)) (s : Step) (hg : s.Good) :
    s.run env (P ++ D) (l.map (shTok P.length j)) vars = s.run env D l vars := by
  cases s with
  | get i => simp only [Step.run, List.length_map]
  | numberAt i =>
    simp only [Step.run, List.getElem?_map]
    cases l[i]? with
    | none => rfl
    | some t => simp only [Option.map_some, shTok_kind, isNumber_shiftTwin]
  | bind t => simp only [Step.run, Txt.eval_shift]
  | custom need f => simp only [Step.run, (show CustomGood need f from hg).shift]

theorem runSteps_shift (env : Env) (P D : List Char) (l : List Tok) (j : Nat) : ∀ (ss : List Step), (∀ s ∈ ss, s.Good) →
    ∀ vars, runSteps env (P ++ D) (l.map (shTok P.length j)) ss vars = runSteps env D l ss vars
  | [], _, _ => rfl
  | s :: ss, hg, vars => by
    simp only [runSteps, Step.run_shift env P D l j vars s (hg s (by simp))]
    cases s.run env D l vars with
    | error e => rfl
    | ok o =>
      cases o with
      | none => rfl
      | some v => exact runSteps_shift env P D l j ss (fun x hx => hg x (List.mem_cons_of_mem _ hx)) v

theorem ArgSpec.eval_shift (k j : Nat) (l : List Tok) (a : ArgSpec) : a.eval (l.map (shTok k j)) = a.eval l := by
  cases a with
  | const n => rfl
  | wsAt i =>
    simp only [ArgSpec.eval, List.getElem?_map]
    cases l[i]? with
    | none => rfl
    | some t => simp only [Option.map_some, shTok_kind, isWhitespace_shiftTwin]
  | dash => simp only [ArgSpec.eval, List.length_map]

/-- every custom step of the spec is well behaved -/
def Spec.Good (s : Spec) : Prop := (∀ x ∈ s.before, x.Good) ∧ (∀ x ∈ s.after, x.Good)

/-- **`match_to_lint` moves with its match** -/
theorem Spec.run_shift (env : Env) (s : Spec) (hg : s.Good) (P D : List Char) (l : List Tok) (j : Nat) :
    s.run env (P ++ D) (l.map (shTok P.length j)) = (s.run env D l).map (shiftRLs P.length) := by
  simp only [Spec.run, runSteps_shift env P D l j s.before hg.1, Sel.eval_shift, List.length_map, evalSuggs_shift,
    ArgSpec.eval_shift]
  cases runSteps env D l s.before [] with
  | error e => rfl
  | ok o =>
    cases o with
    | none => rfl
    | some vars =>
      simp only []
      cases s.span.eval l with
      | error e => rfl
      | ok o2 =>
        cases o2 with
        | none => rfl
        | some sp =>
          simp only [Except.map, Option.map_some, runSteps_shift env P D l j s.after hg.2]
          cases runSteps env D l s.after vars with
          | error e => rfl
          | ok o3 =>
            cases o3 with
            | none => rfl
            | some vars' =>
              simp only []
              cases evalSuggs env D l vars' (s.suggs l.length) with
              | error e => rfl
              | ok o4 =>
                cases o4 with
                | none => rfl
                | some sg =>
                  simp only []
                  cases s.arg.eval l with
                  | error e => rfl
                  | ok a => rfl

/-! ## … and does not look at text after its tokens -/

theorem mem_of_head? {α} {l : List α} {a : α} (h : l.head? = some a) : a ∈ l := by
  cases l with
  | nil => cases h
  | cons b l => simp only [List.head?_cons, Option.some.injEq] at h; subst h; simp

/-- a selection of in-text tokens is a well-formed span inside the text -/
theorem Sel.eval_in (s : Sel) (n : Nat) (l : List Tok) (h : InP n l) (sp : Span) (e : s.eval l = .ok (some sp)) :
    sp.start ≤ sp.stop ∧ sp.stop ≤ n := by
  have hin : ∀ l' : List Tok, (∀ t ∈ l', t ∈ l) → ∀ t ∈ l', t.span.start ≤ n ∧ t.span.stop ≤ n := by
    intro l' hsub t ht
    have := h t (hsub t ht)
    omega
  cases s with
  | whole =>
    simp only [Sel.eval, Except.ok.injEq] at e
    exact spanOf_ok n l sp e (hin l (fun _ ht => ht))
  | tok i =>
    simp only [Sel.eval] at e
    cases hi : l[i]? with
    | none => rw [hi] at e; cases e
    | some t =>
      rw [hi] at e
      simp only [Except.ok.injEq, Option.some.injEq] at e
      subst e
      exact h t (List.mem_of_getElem? hi)
  | first =>
    simp only [Sel.eval, Except.ok.injEq] at e
    cases hh : l.head? with
    | none => rw [hh] at e; cases e
    | some t =>
      rw [hh] at e
      simp only [Option.map_some, Option.some.injEq] at e
      subst e
      exact h t (mem_of_head? hh)
  | last =>
    simp only [Sel.eval, Except.ok.injEq] at e
    cases hh : l.getLast? with
    | none => rw [hh] at e; cases e
    | some t =>
      rw [hh] at e
      simp only [Option.map_some, Option.some.injEq] at e
      subst e
      exact h t (List.mem_of_getLast? hh)
  | slice a b =>
    simp only [Sel.eval] at e
    cases hs : sliceE l a b with
    | error e' => rw [hs] at e; cases e
    | ok sub =>
      rw [hs] at e
      simp only [Except.ok.injEq] at e
      have hsub : ∀ t ∈ sub, t ∈ l := by
        simp only [sliceE] at hs
        split at hs
        · cases hs
        · cases hs; exact fun t ht => List.mem_of_mem_drop (List.mem_of_mem_take ht)
      exact spanOf_ok n sub sp e (hin sub hsub)
  | fromEnd k =>
    simp only [Sel.eval] at e
    split at e
    · cases e
    · cases hi : l[l.length - k]? with
      | none => rw [hi] at e; cases e
      | some t =>
        rw [hi] at e
        simp only [Except.ok.injEq, Option.some.injEq] at e
        subst e
        exact h t (List.mem_of_getElem? hi)
  | drop a =>
    simp only [Sel.eval] at e
    cases hs : sliceE l a l.length with
    | error e' => rw [hs] at e; cases e
    | ok sub =>
      rw [hs] at e
      simp only [Except.ok.injEq] at e
      have hsub : ∀ t ∈ sub, t ∈ l := by
        simp only [sliceE] at hs
        split at hs
        · cases hs
        · cases hs; exact fun t ht => List.mem_of_mem_drop (List.mem_of_mem_take ht)
      exact spanOf_ok n sub sp e (hin sub hsub)

theorem Txt.eval_left (P D : List Char) (l : List Tok) (h : InP P.length l) (vars : List (List Char)) : ∀ t : Txt,
    t.eval (P ++ D) l vars = t.eval P l vars
  | .lit _ => rfl
  | .sel s => by
    simp only [Txt.eval]
    cases hs : s.eval l with
    | error e => rfl
    | ok o =>
      cases o with
      | none => rfl
      | some sp => simp only [getContent_left' P D sp (Sel.eval_in s _ l h sp hs).2]
  | .var _ => rfl
  | .cat a b => by simp only [Txt.eval, Txt.eval_left P D l h vars a, Txt.eval_left P D l h vars b]

theorem SuggSpec.eval_left (env : Env) (P D : List Char) (l : List Tok) (h : InP P.length l) (vars : List (List Char)) (s : SuggSpec) :
    s.eval env (P ++ D) l vars = s.eval env P l vars := by
  cases s <;> simp only [SuggSpec.eval, Txt.eval_left P D l h]

theorem evalSuggs_left (env : Env) (P D : List Char) (l : List Tok) (h : InP P.length l) (vars : List (List Char)) : ∀ ss : List SuggSpec,
    evalSuggs env (P ++ D) l vars ss = evalSuggs env P l vars ss
  | [] => rfl
  | s :: ss => by simp only [evalSuggs, SuggSpec.eval_left env P D l h, evalSuggs_left env P D l h vars ss]

theorem Step.run_left (env : Env) (P D : List Char) (l : List Tok) (h : InP P.length l) (vars : List (List Char)) (s : Step) (hg : s.Good) :
    s.run env (P ++ D) l vars = s.run env P l vars := by
  cases s with
  | get i => rfl
  | numberAt i => rfl
  | bind t => simp only [Step.run, Txt.eval_left P D l h]
  | custom need f => simp only [Step.run, (show CustomGood need f from hg).left env P D l h]

theorem runSteps_left (env : Env) (P D : List Char) (l : List Tok) (h : InP P.length l) : ∀ (ss : List Step), (∀ s ∈ ss, s.Good) →
    ∀ vars, runSteps env (P ++ D) l ss vars = runSteps env P l ss vars
  | [], _, _ => rfl
  | s :: ss, hg, vars => by
    simp only [runSteps, Step.run_left env P D l h vars s (hg s (by simp))]
    cases s.run env P l vars with
    | error e => rfl
    | ok o =>
      cases o with
      | none => rfl
      | some v => exact runSteps_left env P D l h ss (fun x hx => hg x (List.mem_cons_of_mem _ hx)) v

/-- **`match_to_lint` does not read text after its tokens** -/
theorem Spec.run_left (env : Env) (s : Spec) (hg : s.Good) (P D : List Char) (l : List Tok)
    (h : ∀ t ∈ l, tokOK t = true ∧ t.span.stop ≤ P.length) : s.run env (P ++ D) l = s.run env P l := by
  have hp : InP P.length l := fun t ht => ⟨Nat.le_of_lt (tokOK_nonempty (h t ht).1), (h t ht).2⟩
  simp only [Spec.run, runSteps_left env P D l hp s.before hg.1]
  cases runSteps env P l s.before [] with
  | error e => rfl
  | ok o =>
    cases o with
    | none => rfl
    | some vars =>
      simp only []
      cases s.span.eval l with
      | error e => rfl
      | ok o2 =>
        cases o2 with
        | none => rfl
        | some sp => simp only [runSteps_left env P D l hp s.after hg.2, evalSuggs_left env P D l hp]

/-! ## … and returns, with a span inside the text, when the match is long enough for its index expressions -/

def Sel.Fits (n : Nat) : Sel → Prop
  | .tok i => i < n
  | .slice a b => a ≤ b ∧ b ≤ n
  | .fromEnd k => 1 ≤ k ∧ k ≤ n
  | .drop a => a ≤ n
  | _ => True

/-- the index expressions of the text are in range for a match of `n` tokens, and every variable it refers to is one of
the `v` texts bound where it is evaluated (`vars.getD i []` never takes its default: `Txt.eval?_eq`) -/
def Txt.Fits (n v : Nat) : Txt → Prop
  | .lit _ => True
  | .sel s => s.Fits n
  | .var i => i < v
  | .cat a b => a.Fits n v ∧ b.Fits n v

def SuggSpec.Fits (n v : Nat) : SuggSpec → Prop
  | .replace t => t.Fits n v
  | .matchCase a t => a.Fits n v ∧ t.Fits n v
  | .remove => True

/-- the step on a match of `n` tokens, with `v` texts bound before it -/
def Step.Fits (n v : Nat) : Step → Prop
  | .get _ => True
  | .numberAt i => i < n
  | .bind t => t.Fits n v
  | .custom need _ => need ≤ n

/-- the rule's own computation, when it goes on, hands on exactly `k` texts on a match of `n` tokens -/
def CustomYields (n k : Nat) (f : CustomFn) : Prop :=
  ∀ env (src : List Char) (l : List Tok) vs, l.length = n → f env src l = .ok (some vs) → vs.length = k

/-- how many texts the step binds for what follows it (on a match of `n` tokens) -/
def Step.Binds (n : Nat) : Step → Nat → Prop
  | .get _, k => k = 0
  | .numberAt _, k => k = 0
  | .bind _, k => k = 1
  | .custom _ f, k => CustomYields n k f

/-- the steps in order, `v` texts bound before the first: every step fits where it stands, and `K` holds of the number of
texts bound after the last -/
def StepsFit (n : Nat) : List Step → Nat → (Nat → Prop) → Prop
  | [], v, K => K v
  | s :: ss, v, K => s.Fits n v ∧ ∃ k, s.Binds n k ∧ StepsFit n ss (v + k) K

def ArgSpec.Fits (n : Nat) : ArgSpec → Prop
  | .const _ => True
  | .wsAt i => i < n
  | .dash => n = 2 ∨ n = 3

/-- the index expressions of the spec are in range for a match of `n` tokens, and every `.var i` refers to a text bound
before it: `Spec.run` starts with no text bound (`runSteps … s.before []`), the steps `before` bind theirs, the steps `after`
go on from there, and the suggestions see all of them -/
structure Spec.Fits (s : Spec) (n : Nat) : Prop where
  span : s.span.Fits n
  arg : s.arg.Fits n
  steps : StepsFit n s.before 0 fun v => StepsFit n s.after v fun v' => ∀ x ∈ s.suggs n, x.Fits n v'

theorem StepsFit.mono (n : Nat) {K K' : Nat → Prop} (hK : ∀ v, K v → K' v) : ∀ (ss : List Step) (v : Nat),
    StepsFit n ss v K → StepsFit n ss v K'
  | [], v, h => hK v h
  | _ :: ss, v, ⟨hf, k, hb, h⟩ => ⟨hf, k, hb, StepsFit.mono n hK ss (v + k) h⟩

theorem stepsFit_get (n i : Nat) (ss : List Step) (v : Nat) (K : Nat → Prop) (h : StepsFit n ss v K) :
    StepsFit n (.get i :: ss) v K := ⟨trivial, 0, rfl, h⟩

theorem stepsFit_numberAt (n i : Nat) (hi : i < n) (ss : List Step) (v : Nat) (K : Nat → Prop) (h : StepsFit n ss v K) :
    StepsFit n (.numberAt i :: ss) v K := ⟨hi, 0, rfl, h⟩

theorem stepsFit_bind (n : Nat) (t : Txt) (ss : List Step) (v : Nat) (K : Nat → Prop) (ht : t.Fits n v)
    (h : StepsFit n ss (v + 1) K) : StepsFit n (.bind t :: ss) v K := ⟨ht, 1, rfl, h⟩

theorem stepsFit_custom (n k need : Nat) (f : CustomFn) (ss : List Step) (v : Nat) (K : Nat → Prop) (hn : need ≤ n)
    (hy : CustomYields n k f) (h : StepsFit n ss (v + k) K) : StepsFit n (.custom need f :: ss) v K := ⟨hn, k, hy, h⟩

/-! ### the default of `vars.getD i []` is never taken

`Txt.eval` reads a variable with `vars.getD i []`. The evaluators below are the same ones without the default: a reference
to a text that is not bound is `none`. Under `Fits` they agree (`Spec.run?_eq`): no `.var` of a fitting spec is unbound
where it is evaluated. -/

/-- `Txt.eval` with `vars[i]?` for `vars.getD i []`: `none` = the text refers to a variable that is not bound -/
def Txt.eval? (src : List Char) (l : List Tok) (vars : List (List Char)) : Txt → Option (Except Panic (Option (List Char)))
  | .lit cs => some (.ok (some cs))
  | .sel s => some (Txt.eval src l vars (.sel s))
  | .var i => vars[i]?.map fun cs => .ok (some cs)
  | .cat a b =>
    match a.eval? src l vars with
    | none => none
    | some (.error e) => some (.error e)
    | some (.ok none) => some (.ok none)
    | some (.ok (some x)) =>
      match b.eval? src l vars with
      | none => none
      | some (.error e) => some (.error e)
      | some (.ok none) => some (.ok none)
      | some (.ok (some y)) => some (.ok (some (x ++ y)))

def SuggSpec.eval? (env : Env) (src : List Char) (l : List Tok) (vars : List (List Char)) : SuggSpec → Option (Except Panic (Option Sugg))
  | .replace t =>
    match t.eval? src l vars with
    | none => none
    | some (.error e) => some (.error e)
    | some (.ok none) => some (.ok none)
    | some (.ok (some cs)) => some (.ok (some (.replaceWith cs)))
  | .matchCase v t =>
    match v.eval? src l vars with
    | none => none
    | some (.error e) => some (.error e)
    | some (.ok none) => some (.ok none)
    | some (.ok (some vs)) =>
      match t.eval? src l vars with
      | none => none
      | some (.error e) => some (.error e)
      | some (.ok none) => some (.ok none)
      | some (.ok (some ts)) => some (.ok (some (.replaceWith (Rules.matchCase env vs ts))))
  | .remove => some (.ok (some .remove))

def evalSuggs? (env : Env) (src : List Char) (l : List Tok) (vars : List (List Char)) : List SuggSpec → Option (Except Panic (Option (List Sugg)))
  | [] => some (.ok (some []))
  | s :: ss =>
    match s.eval? env src l vars with
    | none => none
    | some (.error e) => some (.error e)
    | some (.ok none) => some (.ok none)
    | some (.ok (some x)) =>
      match evalSuggs? env src l vars ss with
      | none => none
      | some (.error e) => some (.error e)
      | some (.ok none) => some (.ok none)
      | some (.ok (some xs)) => some (.ok (some (x :: xs)))

def Step.run? (env : Env) (src : List Char) (l : List Tok) (vars : List (List Char)) : Step → Option (Except Panic (Option (List (List Char))))
  | .bind t =>
    match t.eval? src l vars with
    | none => none
    | some (.error e) => some (.error e)
    | some (.ok none) => some (.ok none)
    | some (.ok (some cs)) => some (.ok (some (vars ++ [cs])))
  | s => some (s.run env src l vars)

def runSteps? (env : Env) (src : List Char) (l : List Tok) : List Step → List (List Char) → Option (Except Panic (Option (List (List Char))))
  | [], vars => some (.ok (some vars))
  | s :: ss, vars =>
    match s.run? env src l vars with
    | none => none
    | some (.error e) => some (.error e)
    | some (.ok none) => some (.ok none)
    | some (.ok (some vars')) => runSteps? env src l ss vars'

/-- `Spec.run` without the default for an unbound variable -/
def Spec.run? (env : Env) (s : Spec) (src : List Char) (l : List Tok) : Option (Except Panic (List RuleLint)) :=
  match runSteps? env src l s.before [] with
  | none => none
  | some (.error e) => some (.error e)
  | some (.ok none) => some (.ok [])
  | some (.ok (some vars)) =>
    match s.span.eval l with
    | .error e => some (.error e)
    | .ok none => some (.ok [])
    | .ok (some sp) =>
      match runSteps? env src l s.after vars with
      | none => none
      | some (.error e) => some (.error e)
      | some (.ok none) => some (.ok [])
      | some (.ok (some vars')) =>
        match evalSuggs? env src l vars' (s.suggs l.length) with
        | none => none
        | some (.error e) => some (.error e)
        | some (.ok none) => some (.ok [])
        | some (.ok (some sg)) =>
          match s.arg.eval l with
          | .error e => some (.error e)
          | .ok a => some (.ok [⟨sp, sg, s.msg, a⟩])

/-- a variable a fitting text refers to is bound: the default of `getD` is not taken -/
theorem getD_of_fits (n : Nat) (vars : List (List Char)) (i : Nat) (hf : (Txt.var i).Fits n vars.length) :
    vars[i]? = some (vars.getD i []) ∧ ∃ h : i < vars.length, vars.getD i [] = vars[i] := by
  have h : i < vars.length := hf
  simp only [List.getD_eq_getElem?_getD, List.getElem?_eq_getElem h, Option.getD_some, exists_prop, and_true, true_and]
  exact h

/-- **a fitting text never reads an unbound variable**: `Txt.eval` (with `vars.getD i []`) is `Txt.eval?` (with `vars[i]?`) -/
theorem Txt.eval?_eq (n : Nat) (src : List Char) (l : List Tok) (vars : List (List Char)) : ∀ t : Txt, t.Fits n vars.length →
    t.eval? src l vars = some (t.eval src l vars)
  | .lit _, _ => rfl
  | .sel _, _ => rfl
  | .var i, hf => by
    simp only [Txt.eval?, Txt.eval, (getD_of_fits n vars i hf).1, Option.map_some]
  | .cat a b, hf => by
    simp only [Txt.eval?, Txt.eval, Txt.eval?_eq n src l vars a hf.1, Txt.eval?_eq n src l vars b hf.2]
    cases a.eval src l vars with
    | error e => rfl
    | ok oa =>
      cases oa with
      | none => rfl
      | some x =>
        simp only []
        cases b.eval src l vars with
        | error e => rfl
        | ok ob => cases ob <;> rfl

theorem SuggSpec.eval?_eq (n : Nat) (env : Env) (src : List Char) (l : List Tok) (vars : List (List Char)) (s : SuggSpec)
    (hf : s.Fits n vars.length) : s.eval? env src l vars = some (s.eval env src l vars) := by
  cases s with
  | replace t =>
    simp only [SuggSpec.eval?, SuggSpec.eval, Txt.eval?_eq n src l vars t hf]
    cases t.eval src l vars with
    | error e => rfl
    | ok o => cases o <;> rfl
  | matchCase v t =>
    simp only [SuggSpec.eval?, SuggSpec.eval, Txt.eval?_eq n src l vars v hf.1, Txt.eval?_eq n src l vars t hf.2]
    cases v.eval src l vars with
    | error e => rfl
    | ok o =>
      cases o with
      | none => rfl
      | some x =>
        simp only []
        cases t.eval src l vars with
        | error e => rfl
        | ok o2 => cases o2 <;> rfl
  | remove => rfl

theorem evalSuggs?_eq (n : Nat) (env : Env) (src : List Char) (l : List Tok) (vars : List (List Char)) : ∀ ss : List SuggSpec,
    (∀ s ∈ ss, s.Fits n vars.length) → evalSuggs? env src l vars ss = some (evalSuggs env src l vars ss)
  | [], _ => rfl
  | s :: ss, hf => by
    simp only [evalSuggs?, evalSuggs, SuggSpec.eval?_eq n env src l vars s (hf s (by simp)),
      evalSuggs?_eq n env src l vars ss (fun x hx => hf x (List.mem_cons_of_mem _ hx))]
    cases s.eval env src l vars with
    | error e => rfl
    | ok o =>
      cases o with
      | none => rfl
      | some x =>
        simp only []
        cases evalSuggs env src l vars ss with
        | error e => rfl
        | ok o2 => cases o2 <;> rfl

theorem Step.run?_eq (env : Env) (src : List Char) (l : List Tok) (vars : List (List Char)) (s : Step)
    (hf : s.Fits l.length vars.length) : s.run? env src l vars = some (s.run env src l vars) := by
  cases s with
  | bind t =>
    simp only [Step.run?, Step.run, Txt.eval?_eq l.length src l vars t hf]
    cases t.eval src l vars with
    | error e => rfl
    | ok o => cases o <;> rfl
  | get i => rfl
  | numberAt i => rfl
  | custom need f => rfl

/-- a step that goes on binds as many texts as `Binds` says -/
theorem Step.run_length (env : Env) (src : List Char) (l : List Tok) (vars vars' : List (List Char)) (s : Step) (k : Nat)
    (hb : s.Binds l.length k) (h : s.run env src l vars = .ok (some vars')) : vars'.length = vars.length + k := by
  cases s with
  | get i =>
    simp only [Step.run, Except.ok.injEq] at h
    split at h
    · cases h; cases hb; rfl
    · cases h
  | numberAt i =>
    simp only [Step.run] at h
    split at h
    · cases h
    · simp only [Except.ok.injEq] at h
      split at h
      · cases h; cases hb; rfl
      · cases h
  | bind t =>
    simp only [Step.run] at h
    split at h
    · cases h
    · cases h
    · cases h; cases hb; simp
  | custom need f =>
    simp only [Step.run] at h
    split at h
    · cases h
    · cases h
    · rename_i vs e
      cases h
      rw [List.length_append, (show CustomYields l.length k f from hb) env src l vs rfl e]

/-- **fitting steps never read an unbound variable, and bind the number of texts `StepsFit` counts** -/
theorem runSteps?_eq (env : Env) (src : List Char) (l : List Tok) : ∀ (ss : List Step) (vars : List (List Char)) (K : Nat → Prop),
    StepsFit l.length ss vars.length K →
      runSteps? env src l ss vars = some (runSteps env src l ss vars) ∧
        ∀ vars', runSteps env src l ss vars = .ok (some vars') → K vars'.length
  | [], vars, K, h => ⟨rfl, fun vars' e => by simp only [runSteps, Except.ok.injEq, Option.some.injEq] at e; subst e; exact h⟩
  | s :: ss, vars, K, ⟨hf, k, hb, h⟩ => by
    simp only [runSteps?, runSteps, Step.run?_eq env src l vars s hf]
    cases hs : s.run env src l vars with
    | error e => exact ⟨rfl, fun _ e => by cases e⟩
    | ok o =>
      cases o with
      | none => exact ⟨rfl, fun _ e => by cases e⟩
      | some v =>
        have hl := Step.run_length env src l vars v s k hb hs
        exact runSteps?_eq env src l ss v K (hl ▸ h)

/-- **a fitting spec never reads an unbound variable**: `match_to_lint` as interpreted with the default `[]` for an unbound
`.var` is `match_to_lint` as interpreted without it — whatever the tokens are (no hypothesis on them) -/
theorem Spec.run?_eq (env : Env) (s : Spec) (src : List Char) (l : List Tok) (hf : s.Fits l.length) :
    s.run? env src l = some (s.run env src l) := by
  obtain ⟨e1, k1⟩ := runSteps?_eq env src l s.before [] _ hf.steps
  simp only [Spec.run?, Spec.run, e1]
  cases h1 : runSteps env src l s.before [] with
  | error e => rfl
  | ok o1 =>
    cases o1 with
    | none => rfl
    | some vars =>
      simp only []
      cases s.span.eval l with
      | error e => rfl
      | ok o2 =>
        cases o2 with
        | none => rfl
        | some sp =>
          obtain ⟨e3, k3⟩ := runSteps?_eq env src l s.after vars _ (k1 vars h1)
          simp only [e3]
          cases h3 : runSteps env src l s.after vars with
          | error e => rfl
          | ok o3 =>
            cases o3 with
            | none => rfl
            | some vars' =>
              simp only [evalSuggs?_eq l.length env src l vars' _ (k3 vars' h3)]
              cases evalSuggs env src l vars' (s.suggs l.length) with
              | error e => rfl
              | ok o4 =>
                cases o4 with
                | none => rfl
                | some sg =>
                  simp only []
                  cases s.arg.eval l with
                  | error e => rfl
                  | ok a => rfl

theorem Sel.eval_ok (s : Sel) (l : List Tok) (hf : s.Fits l.length) : ∃ o, s.eval l = .ok o := by
  cases s with
  | whole => exact ⟨_, rfl⟩
  | tok i =>
    simp only [Sel.Fits] at hf
    simp only [Sel.eval, List.getElem?_eq_getElem hf]
    exact ⟨_, rfl⟩
  | first => exact ⟨_, rfl⟩
  | last => exact ⟨_, rfl⟩
  | slice a b =>
    simp only [Sel.Fits] at hf
    simp only [Sel.eval, sliceE]
    rw [if_neg (by omega)]
    exact ⟨_, rfl⟩
  | fromEnd k =>
    simp only [Sel.Fits] at hf
    simp only [Sel.eval]
    rw [if_neg (by omega), List.getElem?_eq_getElem (by omega)]
    exact ⟨_, rfl⟩
  | drop a =>
    simp only [Sel.Fits] at hf
    simp only [Sel.eval, sliceE]
    rw [if_neg (by omega)]
    exact ⟨_, rfl⟩

theorem Txt.eval_ok (src : List Char) (l : List Tok) (h : InText src l) (vars : List (List Char)) (v : Nat) : ∀ t : Txt, t.Fits l.length v →
    ∃ o, t.eval src l vars = .ok o
  | .lit _, _ => ⟨_, rfl⟩
  | .sel s, hf => by
    obtain ⟨o, eo⟩ := Sel.eval_ok s l hf
    simp only [Txt.eval, eo]
    cases o with
    | none => exact ⟨_, rfl⟩
    | some sp =>
      have := Sel.eval_in s src.length l h sp eo
      obtain ⟨cs, ec⟩ := getContent_ok' sp src this.1 this.2
      simp only [ec]
      exact ⟨_, rfl⟩
  | .var _, _ => ⟨_, rfl⟩
  | .cat a b, hf => by
    obtain ⟨oa, ea⟩ := Txt.eval_ok src l h vars v a hf.1
    obtain ⟨ob, eb⟩ := Txt.eval_ok src l h vars v b hf.2
    simp only [Txt.eval, ea, eb]
    cases oa with
    | none => exact ⟨_, rfl⟩
    | some x =>
      cases ob with
      | none => exact ⟨_, rfl⟩
      | some y => exact ⟨_, rfl⟩

theorem SuggSpec.eval_ok (env : Env) (src : List Char) (l : List Tok) (h : InText src l) (vars : List (List Char)) (v : Nat) (s : SuggSpec)
    (hf : s.Fits l.length v) : ∃ o, s.eval env src l vars = .ok o := by
  cases s with
  | replace t =>
    obtain ⟨o, eo⟩ := Txt.eval_ok src l h vars v t hf
    simp only [SuggSpec.eval, eo]
    cases o <;> exact ⟨_, rfl⟩
  | matchCase a t =>
    obtain ⟨ov, ev⟩ := Txt.eval_ok src l h vars v a hf.1
    obtain ⟨ot, et⟩ := Txt.eval_ok src l h vars v t hf.2
    simp only [SuggSpec.eval, ev, et]
    cases ov with
    | none => exact ⟨_, rfl⟩
    | some x => cases ot <;> exact ⟨_, rfl⟩
  | remove => exact ⟨_, rfl⟩

theorem evalSuggs_ok (env : Env) (src : List Char) (l : List Tok) (h : InText src l) (vars : List (List Char)) (v : Nat) : ∀ ss : List SuggSpec,
    (∀ s ∈ ss, s.Fits l.length v) → ∃ o, evalSuggs env src l vars ss = .ok o
  | [], _ => ⟨_, rfl⟩
  | s :: ss, hf => by
    obtain ⟨o, eo⟩ := SuggSpec.eval_ok env src l h vars v s (hf s (by simp))
    obtain ⟨os, eos⟩ := evalSuggs_ok env src l h vars v ss (fun x hx => hf x (List.mem_cons_of_mem _ hx))
    simp only [evalSuggs, eo, eos]
    cases o with
    | none => exact ⟨_, rfl⟩
    | some x => cases os <;> exact ⟨_, rfl⟩

theorem Step.run_ok (env : Env) (src : List Char) (l : List Tok) (h : InText src l) (vars : List (List Char)) (v : Nat) (s : Step) (hg : s.Good)
    (hf : s.Fits l.length v) : ∃ o, s.run env src l vars = .ok o := by
  cases s with
  | get i => exact ⟨_, rfl⟩
  | numberAt i =>
    simp only [Step.Fits] at hf
    simp only [Step.run, List.getElem?_eq_getElem hf]
    exact ⟨_, rfl⟩
  | bind t =>
    obtain ⟨o, eo⟩ := Txt.eval_ok src l h vars v t hf
    simp only [Step.run, eo]
    cases o <;> exact ⟨_, rfl⟩
  | custom need f =>
    obtain ⟨o, eo⟩ := (show CustomGood need f from hg).ok env src l h hf
    simp only [Step.run, eo]
    cases o <;> exact ⟨_, rfl⟩

/-- fitting steps return, and bind the number of texts `StepsFit` counts -/
theorem runSteps_ok (env : Env) (src : List Char) (l : List Tok) (h : InText src l) : ∀ (ss : List Step), (∀ s ∈ ss, s.Good) →
    ∀ (vars : List (List Char)) (K : Nat → Prop), StepsFit l.length ss vars.length K →
      ∃ o, runSteps env src l ss vars = .ok o ∧ ∀ vars', o = some vars' → K vars'.length
  | [], _, vars, K, hf => ⟨_, rfl, fun vars' e => by cases e; exact hf⟩
  | s :: ss, hg, vars, K, ⟨hf, k, hb, hr⟩ => by
    obtain ⟨o, eo⟩ := Step.run_ok env src l h vars vars.length s (hg s (by simp)) hf
    simp only [runSteps, eo]
    cases o with
    | none => exact ⟨_, rfl, fun _ e => by cases e⟩
    | some v =>
      have hl := Step.run_length env src l vars v s k hb eo
      exact runSteps_ok env src l h ss (fun x hx => hg x (List.mem_cons_of_mem _ hx)) v K (hl ▸ hr)

theorem ArgSpec.eval_ok (l : List Tok) (a : ArgSpec) (hf : a.Fits l.length) : ∃ n, a.eval l = .ok n := by
  cases a with
  | const n => exact ⟨_, rfl⟩
  | wsAt i =>
    simp only [ArgSpec.Fits] at hf
    simp only [ArgSpec.eval, List.getElem?_eq_getElem hf]
    exact ⟨_, rfl⟩
  | dash =>
    simp only [ArgSpec.Fits] at hf
    simp only [ArgSpec.eval]
    rcases hf with hf | hf
    · rw [if_pos hf]; exact ⟨_, rfl⟩
    · rw [if_neg (by omega), if_pos hf]; exact ⟨_, rfl⟩

/-- **`match_to_lint` on in-text tokens (any order) of a fitting length**: no panic, at most one lint, and its span is the
selection the spec names: well formed and inside the text -/
theorem Spec.run_ok (env : Env) (s : Spec) (hg : s.Good) (src : List Char) (l : List Tok) (h : InText src l) (hf : s.Fits l.length) :
    ∃ ls, s.run env src l = .ok ls ∧ ∀ x ∈ ls, LintOK src.length x ∧ s.span.eval l = .ok (some x.span) := by
  obtain ⟨o1, e1, k1⟩ := runSteps_ok env src l h s.before hg.1 [] _ hf.steps
  simp only [Spec.run, e1]
  cases o1 with
  | none => exact ⟨[], rfl, by simp⟩
  | some vars =>
    obtain ⟨o2, e2⟩ := Sel.eval_ok s.span l hf.span
    simp only [e2]
    cases o2 with
    | none => exact ⟨[], rfl, by simp⟩
    | some sp =>
      obtain ⟨o3, e3, k3⟩ := runSteps_ok env src l h s.after hg.2 vars _ (k1 vars rfl)
      simp only [e3]
      cases o3 with
      | none => exact ⟨[], rfl, by simp⟩
      | some vars' =>
        obtain ⟨o4, e4⟩ := evalSuggs_ok env src l h vars' vars'.length (s.suggs l.length) (k3 vars' rfl)
        simp only [e4]
        cases o4 with
        | none => exact ⟨[], rfl, by simp⟩
        | some sg =>
          obtain ⟨a, ea⟩ := ArgSpec.eval_ok l s.arg hf.arg
          simp only [ea]
          refine ⟨_, rfl, ?_⟩
          intro x hx
          simp only [List.mem_singleton] at hx
          subst hx
          exact ⟨Sel.eval_in s.span src.length l h sp e2, rfl⟩

/-! ## the selection lies inside the span of the matched tokens -/

theorem foldl_min_le_mem (ts : List Tok) : ∀ (m : Nat), ∀ t ∈ ts,
    ts.foldl (fun m x => min (min m x.span.start) x.span.stop) m ≤ t.span.start ∧
      ts.foldl (fun m x => min (min m x.span.start) x.span.stop) m ≤ t.span.stop := by
  induction ts with
  | nil => intro _ t ht; cases ht
  | cons a ts ih =>
    intro m t ht
    simp only [List.foldl_cons]
    rcases List.mem_cons.mp ht with rfl | ht
    · have := foldl_min_le ts (min (min m t.span.start) t.span.stop)
      omega
    · exact ih _ t ht

theorem foldl_max_ge_mem (ts : List Tok) : ∀ (m : Nat), ∀ t ∈ ts,
    t.span.start ≤ ts.foldl (fun m x => max (max m x.span.start) x.span.stop) m ∧
      t.span.stop ≤ ts.foldl (fun m x => max (max m x.span.start) x.span.stop) m := by
  induction ts with
  | nil => intro _ t ht; cases ht
  | cons a ts ih =>
    intro m t ht
    simp only [List.foldl_cons]
    rcases List.mem_cons.mp ht with rfl | ht
    · have := foldl_max_ge ts (max (max m t.span.start) t.span.stop)
      omega
    · exact ih _ t ht

theorem le_foldl_min (b : Nat) (ts : List Tok) : ∀ (m : Nat), b ≤ m → (∀ t ∈ ts, b ≤ t.span.start ∧ b ≤ t.span.stop) →
    b ≤ ts.foldl (fun m x => min (min m x.span.start) x.span.stop) m := by
  induction ts with
  | nil => intro m hm _; exact hm
  | cons a ts ih =>
    intro m hm h
    have := h a (by simp)
    simp only [List.foldl_cons]
    exact ih _ (by omega) (fun t ht => h t (List.mem_cons_of_mem _ ht))

/-- `TokenStringExt::span` covers every token -/
theorem spanOf_covers (l : List Tok) (sp : Span) (h : spanOf l = some sp) : ∀ t ∈ l,
    sp.start ≤ t.span.start ∧ sp.start ≤ t.span.stop ∧ t.span.start ≤ sp.stop ∧ t.span.stop ≤ sp.stop := by
  cases l with
  | nil => cases h
  | cons a ts =>
    simp only [spanOf, Option.some.injEq] at h
    subst h
    intro t ht
    simp only []
    rcases List.mem_cons.mp ht with rfl | ht
    · have h1 := foldl_min_le ts (min t.span.start t.span.stop)
      have h2 := foldl_max_ge ts (max t.span.start t.span.stop)
      omega
    · have h1 := foldl_min_le_mem ts (min a.span.start a.span.stop) t ht
      have h2 := foldl_max_ge_mem ts (max a.span.start a.span.stop) t ht
      omega

/-- … and the span of some of the tokens lies inside the span of all of them -/
theorem spanOf_sub (l sub : List Tok) (hsub : ∀ t ∈ sub, t ∈ l) (sp sp' : Span) (h : spanOf l = some sp) (h' : spanOf sub = some sp') :
    sp.start ≤ sp'.start ∧ sp'.stop ≤ sp.stop := by
  have hc := spanOf_covers l sp h
  cases sub with
  | nil => cases h'
  | cons a ts =>
    simp only [spanOf, Option.some.injEq] at h'
    subst h'
    simp only []
    have ha := hc a (hsub a (by simp))
    refine ⟨le_foldl_min _ ts _ (by omega) (fun t ht => ?_), foldl_max_le _ ts _ (by omega) (fun t ht => ?_)⟩
    · have := hc t (hsub t (List.mem_cons_of_mem _ ht)); omega
    · have := hc t (hsub t (List.mem_cons_of_mem _ ht)); omega

/-- **whatever a spec selects lies inside `matched_tokens.span()`** -/
theorem Sel.eval_within (s : Sel) (l : List Tok) (sp sp' : Span) (h : spanOf l = some sp) (e : s.eval l = .ok (some sp')) :
    sp.start ≤ sp'.start ∧ sp'.stop ≤ sp.stop := by
  have hc := spanOf_covers l sp h
  cases s with
  | whole =>
    simp only [Sel.eval, Except.ok.injEq] at e
    rw [h] at e
    cases e
    exact ⟨Nat.le_refl _, Nat.le_refl _⟩
  | tok i =>
    simp only [Sel.eval] at e
    cases hi : l[i]? with
    | none => rw [hi] at e; cases e
    | some t =>
      rw [hi] at e
      simp only [Except.ok.injEq, Option.some.injEq] at e
      subst e
      have := hc t (List.mem_of_getElem? hi)
      omega
  | first =>
    simp only [Sel.eval, Except.ok.injEq] at e
    cases hh : l.head? with
    | none => rw [hh] at e; cases e
    | some t =>
      rw [hh] at e
      simp only [Option.map_some, Option.some.injEq] at e
      subst e
      have := hc t (mem_of_head? hh)
      omega
  | last =>
    simp only [Sel.eval, Except.ok.injEq] at e
    cases hh : l.getLast? with
    | none => rw [hh] at e; cases e
    | some t =>
      rw [hh] at e
      simp only [Option.map_some, Option.some.injEq] at e
      subst e
      have := hc t (List.mem_of_getLast? hh)
      omega
  | slice a b =>
    simp only [Sel.eval] at e
    cases hs : sliceE l a b with
    | error e' => rw [hs] at e; cases e
    | ok sub =>
      rw [hs] at e
      simp only [Except.ok.injEq] at e
      have hsub : ∀ t ∈ sub, t ∈ l := by
        simp only [sliceE] at hs
        split at hs
        · cases hs
        · cases hs; exact fun t ht => List.mem_of_mem_drop (List.mem_of_mem_take ht)
      exact spanOf_sub l sub hsub sp sp' h e
  | fromEnd k =>
    simp only [Sel.eval] at e
    split at e
    · cases e
    · cases hi : l[l.length - k]? with
      | none => rw [hi] at e; cases e
      | some t =>
        rw [hi] at e
        simp only [Except.ok.injEq, Option.some.injEq] at e
        subst e
        have := hc t (List.mem_of_getElem? hi)
        omega
  | drop a =>
    simp only [Sel.eval] at e
    cases hs : sliceE l a l.length with
    | error e' => rw [hs] at e; cases e
    | ok sub =>
      rw [hs] at e
      simp only [Except.ok.injEq] at e
      have hsub : ∀ t ∈ sub, t ∈ l := by
        simp only [sliceE] at hs
        split at hs
        · cases hs
        · cases hs; exact fun t ht => List.mem_of_mem_drop (List.mem_of_mem_take ht)
      exact spanOf_sub l sub hsub sp sp' h e

/-- every lint a spec produces has the span its `Sel` names (whatever the tokens are) -/
theorem Spec.run_span (env : Env) (s : Spec) (src : List Char) (l : List Tok) (ls : List RuleLint) (h : s.run env src l = .ok ls) :
    ∀ x ∈ ls, s.span.eval l = .ok (some x.span) := by
  simp only [Spec.run] at h
  cases h1 : runSteps env src l s.before [] with
  | error e => rw [h1] at h; cases h
  | ok o1 =>
    rw [h1] at h
    cases o1 with
    | none => cases h; intro x hx; cases hx
    | some vars =>
      simp only [] at h
      cases h2 : s.span.eval l with
      | error e => rw [h2] at h; cases h
      | ok o2 =>
        rw [h2] at h
        cases o2 with
        | none => cases h; intro x hx; cases hx
        | some sp =>
          simp only [] at h
          cases h3 : runSteps env src l s.after vars with
          | error e => rw [h3] at h; cases h
          | ok o3 =>
            rw [h3] at h
            cases o3 with
            | none => cases h; intro x hx; cases hx
            | some vars' =>
              simp only [] at h
              cases h4 : evalSuggs env src l vars' (s.suggs l.length) with
              | error e => rw [h4] at h; cases h
              | ok o4 =>
                rw [h4] at h
                cases o4 with
                | none => cases h; intro x hx; cases hx
                | some sg =>
                  simp only [] at h
                  cases h5 : s.arg.eval l with
                  | error e => rw [h5] at h; cases h
                  | ok a =>
                    rw [h5] at h
                    cases h
                    intro x hx
                    simp only [List.mem_singleton] at hx
                    subst hx
                    rfl

/-! ## the five rules that compute something of their own -/

theorem backGuard_good : CustomGood 0 backGuard where
  shift := by
    intro env P D l j
    simp only [backGuard, List.length_map, ← List.map_drop, (wordSetAtom_local backExceptions).right]
  left := by
    intro env P D l h
    simp only [backGuard, (wordSetAtom_local backExceptions).left P D (l.drop 8) (fun t ht => (h t (List.mem_of_mem_drop ht)).2)]
  ok := by
    intro env src l h _
    simp only [backGuard]
    split
    · exact ⟨_, rfl⟩
    · obtain ⟨n, en, _⟩ := wordSetAtom_okh inText_hyp backExceptions src (l.drop 8) (fun t ht => h t (List.mem_of_mem_drop ht))
      rw [en]
      exact ⟨_, rfl⟩

theorem piqueCorrect_good : CustomGood 1 piqueCorrect where
  shift := by
    intro env P D l j
    simp only [piqueCorrect, List.getElem?_map]
    cases l[0]? with
    | none => rfl
    | some t => simp only [Option.map_some, shTok_span, getContent_shift']
  left := by
    intro env P D l h
    simp only [piqueCorrect]
    cases h0 : l[0]? with
    | none => rfl
    | some t => simp only [getContent_left' P D t.span (h t (List.mem_of_getElem? h0)).2]
  ok := by
    intro env src l h hn
    have h0 : 0 < l.length := by omega
    simp only [piqueCorrect, List.getElem?_eq_getElem h0, getContent_textOf src _ (h _ (List.getElem_mem h0))]
    split <;> exact ⟨_, rfl⟩

theorem pronounGuard_good : CustomGood 0 pronounGuard where
  shift := by
    intro env P D l j
    simp only [pronounGuard, List.length_map, List.getElem?_map]
    split
    · cases l[0]? with
      | none => rfl
      | some a =>
        cases l[2]? with
        | none => rfl
        | some b => simp only [Option.map_some, shTok_span, getContent_shift']
    · rfl
  left := by
    intro env P D l h
    simp only [pronounGuard]
    split
    · cases h0 : l[0]? with
      | none => rfl
      | some a =>
        cases h2 : l[2]? with
        | none => rfl
        | some b =>
          simp only [getContent_left' P D a.span (h a (List.mem_of_getElem? h0)).2,
            getContent_left' P D b.span (h b (List.mem_of_getElem? h2)).2]
    · rfl
  ok := by
    intro env src l h _
    simp only [pronounGuard]
    split
    · rename_i h3
      have h0 : 0 < l.length := by omega
      have h2 : 2 < l.length := by omega
      simp only [List.getElem?_eq_getElem h0, List.getElem?_eq_getElem h2, getContent_textOf src _ (h _ (List.getElem_mem h0)),
        getContent_textOf src _ (h _ (List.getElem_mem h2))]
      repeat' split
      all_goals exact ⟨_, rfl⟩
    · exact ⟨_, rfl⟩

theorem initialismCorrection_good : CustomGood 0 initialismCorrection where
  shift := by
    intro env P D l j
    simp only [initialismCorrection, List.head?_map]
    cases l.head? with
    | none => rfl
    | some t => simp only [Option.map_some, shTok_span, getContent_shift']
  left := by
    intro env P D l h
    simp only [initialismCorrection]
    cases h0 : l.head? with
    | none => rfl
    | some t => simp only [getContent_left' P D t.span (h t (mem_of_head? h0)).2]
  ok := by
    intro env src l h _
    simp only [initialismCorrection]
    cases h0 : l.head? with
    | none => exact ⟨_, rfl⟩
    | some t =>
      simp only [getContent_textOf src t (h t (mem_of_head? h0))]
      split <;> exact ⟨_, rfl⟩

theorem impliesPlurality_shift (env : Env) (P D : List Char) (l : List Tok) (j : Nat) :
    impliesPlurality env (P ++ D) (l.map (shTok P.length j)) = impliesPlurality env D l := by
  cases l with
  | nil => rfl
  | cons t ts =>
    simp only [List.map_cons, impliesPlurality, hasFlag_shift, shTok_span, getContent_shift', textOf_shift, shTok_kind]
    cases t.kind <;> try rfl
    rename_i tw; cases tw <;> rfl

theorem impliesPlurality_left (env : Env) (P D : List Char) (l : List Tok) (h : InP P.length l) :
    impliesPlurality env (P ++ D) l = impliesPlurality env P l := by
  cases l with
  | nil => rfl
  | cons t ts =>
    have ht := (h t (by simp)).2
    simp only [impliesPlurality, hasFlag_left env P D t _ ht, getContent_left' P D t.span ht, textOf_left P D t.span ht]

theorem impliesPlurality_ok (env : Env) (src : List Char) (l : List Tok) (h : InText src l) : ∃ o, impliesPlurality env src l = .ok o := by
  cases l with
  | nil => exact ⟨_, rfl⟩
  | cons t ts =>
    simp only [impliesPlurality]
    split
    · split
      · exact ⟨_, rfl⟩
      · split
        · exact ⟨_, rfl⟩
        · rw [getContent_textOf src t (h t (by simp))]
          exact ⟨_, rfl⟩
    · exact ⟨_, rfl⟩
    · exact ⟨_, rfl⟩

theorem timeExpansion_good : CustomGood 0 timeExpansion where
  shift := by
    intro env P D l j
    simp only [timeExpansion, List.getLast?_map, impliesPlurality_shift, List.length_map]
    cases l.getLast? with
    | none => rfl
    | some t => simp only [Option.map_some, shTok_span, getContent_shift']
  left := by
    intro env P D l h
    simp only [timeExpansion, impliesPlurality_left env P D l h]
    cases h0 : l.getLast? with
    | none => rfl
    | some t => simp only [getContent_left' P D t.span (h t (List.mem_of_getLast? h0)).2]
  ok := by
    intro env src l h _
    simp only [timeExpansion]
    cases h0 : l.getLast? with
    | none => exact ⟨_, rfl⟩
    | some t =>
      obtain ⟨o, eo⟩ := impliesPlurality_ok env src l h
      simp only [eo, getContent_textOf src t (h t (List.mem_of_getLast? h0))]
      split
      · exact ⟨_, rfl⟩
      · exact ⟨_, rfl⟩

/-! ### how many texts they hand on -/

theorem backGuard_yields (n : Nat) : CustomYields n 0 backGuard := by
  intro env src l vs _ h
  simp only [backGuard] at h
  split at h
  · cases h; rfl
  · split at h
    · cases h
    · simp only [Except.ok.injEq] at h
      split at h
      · cases h
      · cases h; rfl

theorem piqueCorrect_yields (n : Nat) : CustomYields n 1 piqueCorrect := by
  intro env src l vs _ h
  simp only [piqueCorrect] at h
  repeat' split at h
  all_goals first | (cases h; rfl) | cases h

/-- `[raw, second]` on a match of three tokens, nothing otherwise -/
theorem pronounGuard_yields (n : Nat) : CustomYields n (if n = 3 then 2 else 0) pronounGuard := by
  intro env src l vs hl h
  subst hl
  simp only [pronounGuard] at h
  split at h
  · rename_i h3
    rw [if_pos h3]
    repeat' split at h
    all_goals first | (cases h; rfl) | cases h
  · rename_i h3
    rw [if_neg h3]
    cases h; rfl

theorem initialismCorrection_yields (n : Nat) : CustomYields n 1 initialismCorrection := by
  intro env src l vs _ h
  simp only [initialismCorrection] at h
  repeat' split at h
  all_goals first | (cases h; rfl) | cases h

theorem timeExpansion_yields (n : Nat) : CustomYields n 1 timeExpansion := by
  intro env src l vs _ h
  simp only [timeExpansion] at h
  repeat' split at h
  all_goals first | (cases h; rfl) | cases h | (simp only [Except.ok.injEq] at h; split at h <;> cases h; rfl)

/-! ## a rule = (pattern tree, spec) -/

/-- what the generic theorems ask of a rule: the tree has none of the three demanding patterns and no paired-quote
key; the spec's own computations are well behaved; and every length the tree can match fits the spec's index
expressions -/
structure Fine (r : PRule) : Prop where
  plain : r.pat.plain = true
  loc : r.pat.Loc
  good : r.spec.Good
  fits : ∀ n, r.pat.minLen ≤ n → (∀ k, r.pat.maxLen = some k → n ≤ k) → r.spec.Fits n

/-- `run_on_chunk` of a fine rule on in-text tokens (any order, zero-width ones included): no panic, every lint in the text -/
theorem PRule.piece_ok (env : Env) (r : PRule) (hr : Fine r) (src : List Char) (chunk : List Tok) (h : InText src chunk) :
    ∃ ls, r.piece env src chunk = .ok ls ∧ ∀ l ∈ ls, LintOK src.length l := by
  apply runOnChunkGo_okh' inText_hyp _ (matcher_okh inText_hyp env _ (side_of_plain env _ _ hr.plain)) _ src _ chunk h 0
  intro full n hfull hm hn hnl
  have hin : InText src (full.take n) := inText_hyp.sub src _ _ (List.take_sublist n full) hfull
  have hlen : (full.take n).length = n := by simp only [List.length_take]; omega
  have hfit : r.spec.Fits (full.take n).length := by
    rw [hlen]
    exact hr.fits n (matcher_lb env r.pat src full n hm hn) (fun k hk => matcher_ub env r.pat k hk src full n hm)
  obtain ⟨ls, e, hls⟩ := Spec.run_ok env r.spec hr.good src _ hin hfit
  exact ⟨ls, e, fun x hx => (hls x hx).1⟩

/-- `run_on_chunk` of a fine rule is chunk-local -/
theorem PRule.xlocalE (env : Env) (r : PRule) (hr : Fine r) : XLocalE (r.piece env) where
  nil := fun _ => rfl
  left := by
    intro P D piece h
    exact runOnChunkGo_leftL _ (matcher_loc env _ hr.loc) _ P D (fun l hl => Spec.run_left env r.spec hr.good P D l hl) piece h 0
  right := by
    intro P D piece j _
    exact runOnChunkGo_rightL _ (matcher_loc env _ hr.loc) _ P D j (fun l => Spec.run_shift env r.spec hr.good P D l j) piece 0

/-! ## every shipped rule is fine -/

def Step.isCustom : Step → Bool
  | .custom _ _ => true
  | _ => false

theorem good_of_noCustom (ss : List Step) (h : ss.all (fun s => !Step.isCustom s) = true) : ∀ x ∈ ss, x.Good := by
  intro x hx
  have := List.all_eq_true.mp h x hx
  cases x <;> first | trivial | simp [Step.isCustom] at this

theorem good_single (need : Nat) (f : CustomFn) (h : CustomGood need f) : ∀ x ∈ [Step.custom need f], x.Good := by
  intro x hx
  simp only [List.mem_singleton] at hx
  subst hx
  exact h

/-- no `then_strict` / `TokenKindPatternGroup` anywhere in the tree -/
macro "loc_tac" : tactic =>
  `(tactic| simp [seqOf, eitherOf, allOf, ws, aco, wset, xw, kp, phrase, phraseOf, wordLeaves, leavesToRPats, RPats.ofList, WRows.ofList,
      addWordRow, initialisms, List.map, RPat.Loc, RPats.Loc, WRows.Loc, Leaf.Loc])

/-- one index / variable condition of a spec -/
macro "fits_simp" : tactic =>
  `(tactic| (first
    | trivial
    | (simp [StepsFit, Step.Fits, Step.Binds, Sel.Fits, Txt.Fits, SuggSpec.Fits, ArgSpec.Fits] <;> omega)
    | omega))

/-- the index expressions and the variables of a spec with no computation of its own, whose suggestions do not depend on the
match length (`∃ k, k = 1 ∧ …` of a `.bind` is `simp`'s `exists_eq_left`) -/
macro "fits_tac" : tactic => `(tactic| (constructor <;> fits_simp))

/-- … of a spec whose `before` is one computation of its own that hands on `k` texts (`h : CustomYields n k f`) and whose
`after` is empty -/
macro "fits_custom" k:term:max h:term:max : tactic =>
  `(tactic| (refine ⟨?_, ?_, stepsFit_custom _ $k _ _ _ _ _ ?_ $h ?_⟩ <;> fits_simp))

theorem fineBackInTheDay : Fine ⟨patBackInTheDay, specBackInTheDay⟩ where
  plain := by decide
  loc := by unfold patBackInTheDay; loc_tac
  good := ⟨good_single _ _ backGuard_good, good_of_noCustom _ rfl⟩
  fits := by
    intro n hmin _
    have e : patBackInTheDay.minLen = 7 := by decide
    rw [e] at hmin
    unfold specBackInTheDay
    fits_custom 0 (backGuard_yields n)

theorem fineDashes : Fine ⟨patDashes, specDashes⟩ where
  plain := by decide
  loc := by unfold patDashes; loc_tac
  good := ⟨good_of_noCustom _ rfl, good_of_noCustom _ rfl⟩
  fits := by
    intro n hmin hmax
    have e : patDashes.minLen = 2 := by decide
    rw [e] at hmin
    have h3 := hmax 3 (by decide)
    refine { span := trivial, arg := ?_, steps := ?_ }
    · show n = 2 ∨ n = 3
      omega
    · intro x hx
      simp only [specDashes] at hx
      split at hx <;> simp only [List.mem_singleton] at hx <;> subst hx <;> trivial

theorem fineOutOfDate : Fine ⟨patOutOfDate, specOutOfDate⟩ where
  plain := by decide
  loc := by unfold patOutOfDate; loc_tac
  good := ⟨good_of_noCustom _ rfl, good_of_noCustom _ rfl⟩
  fits := by
    intro n hmin _
    have e : patOutOfDate.minLen = 5 := by decide
    rw [e] at hmin
    unfold specOutOfDate
    fits_tac

theorem fineThenThan : Fine ⟨patThenThan, specThenThan⟩ where
  plain := by decide
  loc := by unfold patThenThan; loc_tac
  good := ⟨good_of_noCustom _ rfl, good_of_noCustom _ rfl⟩
  fits := by
    intro n hmin _
    have e : patThenThan.minLen = 5 := by decide
    rw [e] at hmin
    unfold specThenThan
    fits_tac

theorem finePiqueInterest : Fine ⟨patPiqueInterest, specPiqueInterest⟩ where
  plain := by decide
  loc := by unfold patPiqueInterest; loc_tac
  good := ⟨good_single _ _ piqueCorrect_good, good_of_noCustom _ rfl⟩
  fits := by
    intro n hmin _
    have e : patPiqueInterest.minLen = 5 := by decide
    rw [e] at hmin
    unfold specPiqueInterest
    fits_custom 1 (piqueCorrect_yields n)

theorem fineWasAloud : Fine ⟨patWasAloud, specWasAloud⟩ where
  plain := by decide
  loc := by unfold patWasAloud; loc_tac
  good := ⟨good_of_noCustom _ rfl, good_of_noCustom _ rfl⟩
  fits := by
    intro n hmin _
    have e : patWasAloud.minLen = 3 := by decide
    rw [e] at hmin
    unfold specWasAloud
    fits_tac

theorem fineHyphenateNumberDay : Fine ⟨patHyphenateNumberDay, specHyphenateNumberDay⟩ where
  plain := by decide
  loc := by unfold patHyphenateNumberDay; loc_tac
  good := ⟨good_of_noCustom _ rfl, good_of_noCustom _ rfl⟩
  fits := by
    intro n hmin _
    have e : patHyphenateNumberDay.minLen = 5 := by decide
    rw [e] at hmin
    unfold specHyphenateNumberDay
    fits_tac

theorem fineLeftRightHand : Fine ⟨patLeftRightHand, specLeftRightHand⟩ where
  plain := by decide
  loc := by unfold patLeftRightHand; loc_tac
  good := ⟨good_of_noCustom _ rfl, good_of_noCustom _ rfl⟩
  fits := by
    intro n hmin _
    have e : patLeftRightHand.minLen = 5 := by decide
    rw [e] at hmin
    unfold specLeftRightHand
    fits_tac

theorem fineHereby : Fine ⟨patHereby, specHereby⟩ where
  plain := by decide
  loc := by unfold patHereby; loc_tac
  good := ⟨good_of_noCustom _ rfl, good_of_noCustom _ rfl⟩
  fits := by
    intro n hmin _
    have e : patHereby.minLen = 5 := by decide
    rw [e] at hmin
    unfold specHereby
    fits_tac

theorem fineLikewise : Fine ⟨patLikewise, specLikewise⟩ where
  plain := by decide
  loc := by unfold patLikewise; loc_tac
  good := ⟨good_of_noCustom _ rfl, good_of_noCustom _ rfl⟩
  fits := by
    intro n hmin _
    have e : patLikewise.minLen = 3 := by decide
    rw [e] at hmin
    unfold specLikewise
    fits_tac

theorem fineNobody : Fine ⟨patNobody, specNobody⟩ where
  plain := by decide
  loc := by unfold patNobody; loc_tac
  good := ⟨good_of_noCustom _ rfl, good_of_noCustom _ rfl⟩
  fits := by
    intro n hmin _
    have e : patNobody.minLen = 5 := by decide
    rw [e] at hmin
    unfold specNobody
    fits_tac

theorem fineWhereas : Fine ⟨patWhereas, specWhereas⟩ where
  plain := by decide
  loc := by unfold patWhereas; loc_tac
  good := ⟨good_of_noCustom _ rfl, good_of_noCustom _ rfl⟩
  fits := by
    intro n hmin _
    have e : patWhereas.minLen = 3 := by decide
    rw [e] at hmin
    unfold specWhereas
    fits_tac

theorem finePossessiveYour : Fine ⟨patPossessiveYour, specPossessiveYour⟩ where
  plain := by decide
  loc := by unfold patPossessiveYour; loc_tac
  good := ⟨good_of_noCustom _ rfl, good_of_noCustom _ rfl⟩
  fits := by
    intro n hmin _
    have e : patPossessiveYour.minLen = 3 := by decide
    rw [e] at hmin
    unfold specPossessiveYour
    fits_tac

theorem fineMultipleSequentialPronouns : Fine ⟨patMultipleSequentialPronouns, specMultipleSequentialPronouns⟩ where
  plain := by decide
  loc := by unfold patMultipleSequentialPronouns; loc_tac
  good := ⟨good_single _ _ pronounGuard_good, good_of_noCustom _ rfl⟩
  fits := by
    intro n _ _
    refine { span := trivial, arg := trivial, steps := stepsFit_custom _ _ _ _ _ _ _ (Nat.zero_le _) (pronounGuard_yields n) ?_ }
    -- three tokens: `[raw, second]` are bound and the two suggestions are `.var 0`, `.var 1`; otherwise nothing is bound and
    -- there is no suggestion
    intro x hx
    simp only [specMultipleSequentialPronouns] at hx
    split at hx
    · rename_i h3
      simp only [List.mem_cons, List.mem_nil_iff, or_false] at hx
      rcases hx with rfl | rfl <;> simp [h3, SuggSpec.Fits, Txt.Fits]
    · cases hx

theorem fineDotInitialisms : Fine ⟨patDotInitialisms, specDotInitialisms⟩ where
  plain := by decide
  loc := by unfold patDotInitialisms; loc_tac
  good := ⟨good_single _ _ initialismCorrection_good, good_of_noCustom _ rfl⟩
  fits := by
    intro n hmin _
    have e : patDotInitialisms.minLen = 2 := by decide
    rw [e] at hmin
    unfold specDotInitialisms
    fits_custom 1 (initialismCorrection_yields n)

theorem fineBoringWords : Fine ⟨patBoringWords, specBoringWords⟩ where
  plain := by decide
  loc := by unfold patBoringWords; loc_tac
  good := ⟨good_of_noCustom _ rfl, good_of_noCustom _ rfl⟩
  fits := by
    intro n hmin _
    have e : patBoringWords.minLen = 1 := by decide
    rw [e] at hmin
    unfold specBoringWords
    fits_tac

theorem fineUseGenitive : Fine ⟨patUseGenitive, specUseGenitive⟩ where
  plain := by decide
  loc := by unfold patUseGenitive; loc_tac
  good := ⟨good_of_noCustom _ rfl, good_of_noCustom _ rfl⟩
  fits := by
    intro n hmin _
    have e : patUseGenitive.minLen = 5 := by decide
    rw [e] at hmin
    unfold specUseGenitive
    fits_tac

theorem fineThatWhich : Fine ⟨patThatWhich, specThatWhich⟩ where
  plain := by decide
  loc := by unfold patThatWhich; loc_tac
  good := ⟨good_of_noCustom _ rfl, good_of_noCustom _ rfl⟩
  fits := by
    intro n hmin _
    have e : patThatWhich.minLen = 3 := by decide
    rw [e] at hmin
    unfold specThatWhich
    fits_tac

theorem fineSomewhatSomething : Fine ⟨patSomewhatSomething, specSomewhatSomething⟩ where
  plain := by decide
  loc := by unfold patSomewhatSomething; loc_tac
  good := ⟨good_of_noCustom _ rfl, good_of_noCustom _ rfl⟩
  fits := by
    intro n hmin _
    have e : patSomewhatSomething.minLen = 5 := by decide
    rw [e] at hmin
    unfold specSomewhatSomething
    fits_tac

theorem fineDespiteOf : Fine ⟨patDespiteOf, specDespiteOf⟩ where
  plain := by decide
  loc := by unfold patDespiteOf; loc_tac
  good := ⟨good_of_noCustom _ rfl, good_of_noCustom _ rfl⟩
  fits := by
    intro n hmin _
    have e : patDespiteOf.minLen = 3 := by decide
    rw [e] at hmin
    unfold specDespiteOf
    fits_tac

theorem fineChockFull : Fine ⟨patChockFull, specChockFull⟩ where
  plain := by decide
  loc := by unfold patChockFull; loc_tac
  good := ⟨good_of_noCustom _ rfl, good_of_noCustom _ rfl⟩
  fits := by
    intro n hmin _
    have e : patChockFull.minLen = 3 := by decide
    rw [e] at hmin
    unfold specChockFull
    fits_tac

theorem fineConfident : Fine ⟨patConfident, specConfident⟩ where
  plain := by decide
  loc := by unfold patConfident; loc_tac
  good := ⟨good_of_noCustom _ rfl, good_of_noCustom _ rfl⟩
  fits := by
    intro n hmin _
    have e : patConfident.minLen = 3 := by decide
    rw [e] at hmin
    unfold specConfident
    fits_tac

theorem fineOxymorons : Fine ⟨patOxymorons, specOxymorons⟩ where
  plain := by decide
  loc := by unfold patOxymorons; loc_tac
  good := ⟨good_of_noCustom _ rfl, good_of_noCustom _ rfl⟩
  fits := by
    intro n hmin _
    have e : patOxymorons.minLen = 3 := by decide
    rw [e] at hmin
    unfold specOxymorons
    fits_tac

theorem fineHedging : Fine ⟨patHedging, specHedging⟩ where
  plain := by decide
  loc := by unfold patHedging; loc_tac
  good := ⟨good_of_noCustom _ rfl, good_of_noCustom _ rfl⟩
  fits := by
    intro n hmin _
    have e : patHedging.minLen = 7 := by decide
    rw [e] at hmin
    unfold specHedging
    fits_tac

theorem fineExpandTimeShorthands : Fine ⟨patExpandTimeShorthands, specExpandTimeShorthands⟩ where
  plain := by decide
  loc := by unfold patExpandTimeShorthands; loc_tac
  good := ⟨good_single _ _ timeExpansion_good, good_of_noCustom _ rfl⟩
  fits := by
    intro n hmin _
    have e : patExpandTimeShorthands.minLen = 2 := by decide
    rw [e] at hmin
    unfold specExpandTimeShorthands
    fits_custom 1 (timeExpansion_yields n)

theorem fineForNoun : Fine ⟨patForNoun, specForNoun⟩ where
  plain := by decide
  loc := by unfold patForNoun; loc_tac
  good := ⟨good_of_noCustom _ rfl, good_of_noCustom _ rfl⟩
  fits := by
    intro n hmin _
    have e : patForNoun.minLen = 3 := by decide
    rw [e] at hmin
    unfold specForNoun
    fits_tac

theorem fineTheHowWhy : Fine ⟨patTheHowWhy, specTheHowWhy⟩ where
  plain := by decide
  loc := by unfold patTheHowWhy; loc_tac
  good := ⟨good_of_noCustom _ rfl, good_of_noCustom _ rfl⟩
  fits := by
    intro n hmin _
    have e : patTheHowWhy.minLen = 3 := by decide
    rw [e] at hmin
    unfold specTheHowWhy
    fits_tac

theorem fineWidelyAccepted : Fine ⟨patWidelyAccepted, specWidelyAccepted⟩ where
  plain := by decide
  loc := by unfold patWidelyAccepted; loc_tac
  good := ⟨good_of_noCustom _ rfl, good_of_noCustom _ rfl⟩
  fits := by
    intro n hmin _
    have e : patWidelyAccepted.minLen = 3 := by decide
    rw [e] at hmin
    unfold specWidelyAccepted
    fits_tac

/-- **every rule of the table is fine** -/
theorem allPatternRules_fine : ∀ x ∈ allPatternRules, Fine x.2 := by
  intro x hx
  simp only [allPatternRules, List.mem_cons, List.mem_nil_iff, or_false] at hx
  rcases hx with rfl | rfl | rfl | rfl | rfl | rfl | rfl | rfl | rfl | rfl | rfl | rfl | rfl | rfl | rfl | rfl | rfl | rfl | rfl | rfl | rfl | rfl | rfl | rfl | rfl | rfl | rfl | rfl
  · exact fineBackInTheDay
  · exact fineDashes
  · exact fineOutOfDate
  · exact fineThenThan
  · exact finePiqueInterest
  · exact fineWasAloud
  · exact fineHyphenateNumberDay
  · exact fineLeftRightHand
  · exact fineHereby
  · exact fineLikewise
  · exact fineNobody
  · exact fineWhereas
  · exact finePossessiveYour
  · exact fineMultipleSequentialPronouns
  · exact fineDotInitialisms
  · exact fineBoringWords
  · exact fineUseGenitive
  · exact fineThatWhich
  · exact fineSomewhatSomething
  · exact fineDespiteOf
  · exact fineChockFull
  · exact fineConfident
  · exact fineOxymorons
  · exact fineHedging
  · exact fineExpandTimeShorthands
  · exact fineForNoun
  · exact fineTheHowWhy
  · exact fineWidelyAccepted

theorem fine_of_name (name : String) (r : PRule) (h : patternRuleByName name = some r) : Fine r := by
  have hm : (name, r) ∈ allPatternRules := by
    simp only [patternRuleByName] at h
    generalize allPatternRules = tbl at h
    induction tbl with
    | nil => cases h
    | cons a tbl ih =>
      simp only [List.lookup] at h
      split at h
      · rename_i heq
        simp only [Option.some.injEq] at h
        subst h
        have : name = a.1 := by simpa using heq
        subst this
        exact List.mem_cons_self
      · exact List.mem_cons_of_mem _ (ih h)
  exact allPatternRules_fine _ hm

end Harper.PatternRules

namespace Harper.PatternRules
open Harper Harper.Chunks Harper.Rules Harper.Leaves

/-! ## never out of fuel: `match_to_lint` as data, and `run_on_chunk` around it (w26) -/

/-- a rule's own computation never reports a hang -/
def CustomNF (f : CustomFn) : Prop := ∀ env src l, f env src l ≠ .error .outOfFuel

/-- the only step that is not interpreted is `Step.custom`: an arbitrary function -/
def Step.NoFuel : Step → Prop
  | .custom _ f => CustomNF f
  | _ => True

/-- every custom step of the spec never reports a hang (nothing is asked of the other steps, the selections, the
suggestions or the message argument) -/
def Spec.NoFuel (s : Spec) : Prop := (∀ x ∈ s.before, x.NoFuel) ∧ (∀ x ∈ s.after, x.NoFuel)

theorem Sel.eval_nf (s : Sel) (l : List Tok) : s.eval l ≠ .error .outOfFuel := by
  intro h
  cases s <;> simp only [Sel.eval] at h
  · cases h
  · split at h <;> cases h
  · cases h
  · cases h
  · split at h
    · rename_i e hc; cases h; exact sliceE_nf _ _ _ hc
    · cases h
  · split at h
    · cases h
    · split at h <;> cases h
  · split at h
    · rename_i e hc; cases h; exact sliceE_nf _ _ _ hc
    · cases h

theorem Txt.eval_nf (src : List Char) (l : List Tok) (vars : List (List Char)) : ∀ t : Txt, t.eval src l vars ≠ .error .outOfFuel
  | .lit _ => by intro h; cases h
  | .sel s => by
    intro h
    simp only [Txt.eval] at h
    split at h
    · rename_i e hc; cases h; exact Sel.eval_nf _ _ hc
    · cases h
    · split at h
      · rename_i e hc; cases h; exact getContent_nf _ _ hc
      · cases h
  | .var _ => by intro h; cases h
  | .cat a b => by
    intro h
    simp only [Txt.eval] at h
    split at h
    · rename_i e hc; cases h; exact Txt.eval_nf src l vars a hc
    · cases h
    · split at h
      · rename_i e hc; cases h; exact Txt.eval_nf src l vars b hc
      · cases h
      · cases h

theorem SuggSpec.eval_nf (env : Env) (src : List Char) (l : List Tok) (vars : List (List Char)) (s : SuggSpec) :
    s.eval env src l vars ≠ .error .outOfFuel := by
  intro h
  cases s <;> simp only [SuggSpec.eval] at h
  · split at h
    · rename_i e hc; cases h; exact Txt.eval_nf _ _ _ _ hc
    · cases h
    · cases h
  · split at h
    · rename_i e hc; cases h; exact Txt.eval_nf _ _ _ _ hc
    · cases h
    · split at h
      · rename_i e hc; cases h; exact Txt.eval_nf _ _ _ _ hc
      · cases h
      · cases h
  · cases h

theorem evalSuggs_nf (env : Env) (src : List Char) (l : List Tok) (vars : List (List Char)) : ∀ ss : List SuggSpec,
    evalSuggs env src l vars ss ≠ .error .outOfFuel
  | [] => by intro h; cases h
  | s :: ss => by
    intro h
    simp only [evalSuggs] at h
    split at h
    · rename_i e hc; cases h; exact SuggSpec.eval_nf _ _ _ _ _ hc
    · cases h
    · split at h
      · rename_i e hc; cases h; exact evalSuggs_nf env src l vars ss hc
      · cases h
      · cases h

theorem Step.run_nf (env : Env) (src : List Char) (l : List Tok) (vars : List (List Char)) (s : Step) (hs : s.NoFuel) :
    s.run env src l vars ≠ .error .outOfFuel := by
  intro h
  cases s with
  | get i => cases h
  | numberAt i => simp only [Step.run] at h; split at h <;> cases h
  | bind t =>
    simp only [Step.run] at h
    split at h
    · rename_i e hc; cases h; exact Txt.eval_nf _ _ _ _ hc
    · cases h
    · cases h
  | custom need f =>
    simp only [Step.run] at h
    split at h
    · rename_i e hc; cases h; exact (show CustomNF f from hs) _ _ _ hc
    · cases h
    · cases h

theorem runSteps_nf (env : Env) (src : List Char) (l : List Tok) : ∀ (ss : List Step), (∀ s ∈ ss, s.NoFuel) →
    ∀ vars, runSteps env src l ss vars ≠ .error .outOfFuel
  | [], _, _ => by intro h; cases h
  | s :: ss, hg, vars => by
    intro h
    simp only [runSteps] at h
    split at h
    · rename_i e hc; cases h; exact Step.run_nf env src l vars s (hg s (by simp)) hc
    · cases h
    · exact runSteps_nf env src l ss (fun x hx => hg x (List.mem_cons_of_mem _ hx)) _ h

theorem ArgSpec.eval_nf (l : List Tok) (a : ArgSpec) : a.eval l ≠ .error .outOfFuel := by
  intro h
  cases a <;> simp only [ArgSpec.eval] at h
  · cases h
  · split at h <;> cases h
  · split at h
    · cases h
    · split at h <;> cases h

/-- **`match_to_lint` of any spec never reports a hang, unless one of its own computations does** -/
theorem Spec.run_nf (env : Env) (s : Spec) (hs : s.NoFuel) (src : List Char) (l : List Tok) : s.run env src l ≠ .error .outOfFuel := by
  intro h
  simp only [Spec.run] at h
  split at h
  · rename_i e hc; cases h; exact runSteps_nf env src l _ hs.1 _ hc
  · cases h
  · split at h
    · rename_i e hc; cases h; exact Sel.eval_nf _ _ hc
    · cases h
    · split at h
      · rename_i e hc; cases h; exact runSteps_nf env src l _ hs.2 _ hc
      · cases h
      · split at h
        · rename_i e hc; cases h; exact evalSuggs_nf _ _ _ _ _ hc
        · cases h
        · split at h
          · rename_i e hc; cases h; exact ArgSpec.eval_nf _ _ hc
          · cases h

theorem PRule.piece_nf (env : Env) (r : PRule) (hs : r.spec.NoFuel) (src : List Char) (chunk : List Tok) :
    r.piece env src chunk ≠ .error .outOfFuel :=
  runOnChunkGo_nf _ (matcher_nf env r.pat) _ src (Spec.run_nf env r.spec hs src) chunk 0

theorem PRule.rule_nf (env : Env) (r : PRule) (hs : r.spec.NoFuel) (src : List Char) (toks : List Tok) :
    r.rule env src toks ≠ .error .outOfFuel :=
  collectE_nf _ _ fun chunk _ => PRule.piece_nf env r hs src chunk

/-! the five computations of the shipped rules -/

theorem backGuard_nf : CustomNF backGuard := by
  intro env src l h
  simp only [backGuard] at h
  split at h
  · cases h
  · split at h
    · rename_i e hc; cases h; exact wordSetAtom_nf _ _ _ hc
    · cases h

theorem piqueCorrect_nf : CustomNF piqueCorrect := by
  intro env src l h
  simp only [piqueCorrect] at h
  split at h
  · cases h
  · split at h
    · rename_i e hc; cases h; exact getContent_nf _ _ hc
    · split at h <;> cases h

theorem pronounGuard_nf : CustomNF pronounGuard := by
  intro env src l h
  simp only [pronounGuard] at h
  split at h
  · split at h
    · split at h
      · rename_i e hc; cases h; exact getContent_nf _ _ hc
      · split at h
        · rename_i e hc; cases h; exact getContent_nf _ _ hc
        · repeat' split at h
          all_goals cases h
    · cases h
  · cases h

theorem initialismCorrection_nf : CustomNF initialismCorrection := by
  intro env src l h
  simp only [initialismCorrection] at h
  split at h
  · cases h
  · split at h
    · rename_i e hc; cases h; exact getContent_nf _ _ hc
    · split at h <;> cases h

theorem impliesPlurality_nf (env : Env) (src : List Char) (l : List Tok) : impliesPlurality env src l ≠ .error .outOfFuel := by
  intro h
  unfold impliesPlurality at h
  split at h
  · cases h
  · split at h
    · split at h
      · cases h
      · split at h
        · cases h
        · split at h
          · rename_i e hc; cases h; exact getContent_nf _ _ hc
          · cases h
    · cases h
    · cases h

theorem timeExpansion_nf : CustomNF timeExpansion := by
  intro env src l h
  simp only [timeExpansion] at h
  split at h
  · cases h
  · split at h
    · rename_i e hc; cases h; exact impliesPlurality_nf _ _ _ hc
    · split at h
      · rename_i e hc; cases h; exact getContent_nf _ _ hc
      · split at h <;> cases h

theorem noFuel_of_noCustom (ss : List Step) (h : ss.all (fun s => !Step.isCustom s) = true) : ∀ x ∈ ss, x.NoFuel := by
  intro x hx
  have := List.all_eq_true.mp h x hx
  cases x <;> first | trivial | simp [Step.isCustom] at this

theorem noFuel_single (need : Nat) (f : CustomFn) (h : CustomNF f) : ∀ x ∈ [Step.custom need f], x.NoFuel := by
  intro x hx
  simp only [List.mem_singleton] at hx
  subst hx
  exact h

/-- **every spec of the table is `NoFuel`** -/
theorem allPatternRules_noFuel : ∀ x ∈ allPatternRules, x.2.spec.NoFuel := by
  intro x hx
  simp only [allPatternRules, List.mem_cons, List.mem_nil_iff, or_false] at hx
  rcases hx with rfl | rfl | rfl | rfl | rfl | rfl | rfl | rfl | rfl | rfl | rfl | rfl | rfl | rfl | rfl | rfl | rfl | rfl | rfl | rfl | rfl | rfl | rfl | rfl | rfl | rfl | rfl | rfl
  · exact ⟨noFuel_single _ _ backGuard_nf, noFuel_of_noCustom _ rfl⟩
  · exact ⟨noFuel_of_noCustom _ rfl, noFuel_of_noCustom _ rfl⟩
  · exact ⟨noFuel_of_noCustom _ rfl, noFuel_of_noCustom _ rfl⟩
  · exact ⟨noFuel_of_noCustom _ rfl, noFuel_of_noCustom _ rfl⟩
  · exact ⟨noFuel_single _ _ piqueCorrect_nf, noFuel_of_noCustom _ rfl⟩
  · exact ⟨noFuel_of_noCustom _ rfl, noFuel_of_noCustom _ rfl⟩
  · exact ⟨noFuel_of_noCustom _ rfl, noFuel_of_noCustom _ rfl⟩
  · exact ⟨noFuel_of_noCustom _ rfl, noFuel_of_noCustom _ rfl⟩
  · exact ⟨noFuel_of_noCustom _ rfl, noFuel_of_noCustom _ rfl⟩
  · exact ⟨noFuel_of_noCustom _ rfl, noFuel_of_noCustom _ rfl⟩
  · exact ⟨noFuel_of_noCustom _ rfl, noFuel_of_noCustom _ rfl⟩
  · exact ⟨noFuel_of_noCustom _ rfl, noFuel_of_noCustom _ rfl⟩
  · exact ⟨noFuel_of_noCustom _ rfl, noFuel_of_noCustom _ rfl⟩
  · exact ⟨noFuel_single _ _ pronounGuard_nf, noFuel_of_noCustom _ rfl⟩
  · exact ⟨noFuel_single _ _ initialismCorrection_nf, noFuel_of_noCustom _ rfl⟩
  · exact ⟨noFuel_of_noCustom _ rfl, noFuel_of_noCustom _ rfl⟩
  · exact ⟨noFuel_of_noCustom _ rfl, noFuel_of_noCustom _ rfl⟩
  · exact ⟨noFuel_of_noCustom _ rfl, noFuel_of_noCustom _ rfl⟩
  · exact ⟨noFuel_of_noCustom _ rfl, noFuel_of_noCustom _ rfl⟩
  · exact ⟨noFuel_of_noCustom _ rfl, noFuel_of_noCustom _ rfl⟩
  · exact ⟨noFuel_of_noCustom _ rfl, noFuel_of_noCustom _ rfl⟩
  · exact ⟨noFuel_of_noCustom _ rfl, noFuel_of_noCustom _ rfl⟩
  · exact ⟨noFuel_of_noCustom _ rfl, noFuel_of_noCustom _ rfl⟩
  · exact ⟨noFuel_of_noCustom _ rfl, noFuel_of_noCustom _ rfl⟩
  · exact ⟨noFuel_single _ _ timeExpansion_nf, noFuel_of_noCustom _ rfl⟩
  · exact ⟨noFuel_of_noCustom _ rfl, noFuel_of_noCustom _ rfl⟩
  · exact ⟨noFuel_of_noCustom _ rfl, noFuel_of_noCustom _ rfl⟩
  · exact ⟨noFuel_of_noCustom _ rfl, noFuel_of_noCustom _ rfl⟩

theorem mem_of_name (name : String) (r : PRule) (h : patternRuleByName name = some r) : (name, r) ∈ allPatternRules := by
  simp only [patternRuleByName] at h
  generalize allPatternRules = tbl at h
  induction tbl with
  | nil => cases h
  | cons a tbl ih =>
    simp only [List.lookup] at h
    split at h
    · rename_i heq
      simp only [Option.some.injEq] at h
      subst h
      have : name = a.1 := by simpa using heq
      subst this
      exact List.mem_cons_self
    · exact List.mem_cons_of_mem _ (ih h)

theorem noFuel_of_name (name : String) (r : PRule) (h : patternRuleByName name = some r) : r.spec.NoFuel :=
  allPatternRules_noFuel _ (mem_of_name name r h)

end Harper.PatternRules

namespace Harper.PatternRules
open Harper Harper.Chunks Harper.Rules Harper.Leaves

/-! ## never out of fuel: the eleven hand-written rules of `Model/Rules.lean` (w26)

(here and not in `Lemmas/Rules.lean` because `getContent_nf`, `collectE_nf`, `runOnChunkGo_nf` live in `Lemmas/Leaves.lean`,
which imports `Lemmas/Rules.lean`) -/

theorem spanNew_nf (s e : Nat) : Span.new s e ≠ .error .outOfFuel := by
  intro h; unfold Span.new at h; split at h <;> cases h

theorem coveringE_nf : ∀ ts : List Tok, coveringE ts ≠ .error .outOfFuel
  | [] => by intro h; cases h
  | t :: ts => by
    intro h
    simp only [coveringE] at h
    split at h
    · cases h
    · split at h
      · rename_i e hc; cases h; exact coveringE_nf ts hc
      · cases h

theorem longSentencesPiece_nf (src : List Char) (sent : List Tok) : longSentencesPiece src sent ≠ .error .outOfFuel := by
  intro h
  simp only [longSentencesPiece] at h
  split at h
  · split at h
    · rename_i e hc; cases h; exact coveringE_nf _ hc
    · split at h
      · split at h
        · rename_i e hc; cases h; exact spanNew_nf _ _ hc
        · cases h
      · cases h
  · cases h

theorem ruleLongSentences_nf (env : Env) (src : List Char) (toks : List Tok) : ruleLongSentences env src toks ≠ .error .outOfFuel :=
  collectE_nf _ _ fun p _ => longSentencesPiece_nf src p

theorem currencyPair_nf (env : Env) (src : List Char) (a b : Tok) : currencyPair env src a b ≠ .error .outOfFuel := by
  intro h
  simp only [currencyPair] at h
  split at h
  · cases h
  · split at h
    · cases h
    · split at h
      · cases h
      · split at h
        · cases h
        · split at h
          · cases h
          · split at h
            · rename_i e hc; cases h; exact spanNew_nf _ _ hc
            · split at h
              · rename_i e hc; cases h; exact getContent_nf _ _ hc
              · split at h <;> cases h

theorem currencyQuad_nf (env : Env) (src : List Char) (q : Tok × Tok × Tok × Tok) : currencyQuad env src q ≠ .error .outOfFuel := by
  intro h
  simp only [currencyQuad] at h
  split at h
  · cases h
  · exact currencyPair_nf _ _ _ _ h

theorem currencyChunk_nf (env : Env) (src : List Char) (chunk : List Tok) : currencyChunk env src chunk ≠ .error .outOfFuel := by
  intro h
  simp only [currencyChunk] at h
  split at h
  · rename_i e hc; cases h; exact collectE_nf _ _ (fun ab _ => currencyPair_nf env src ab.1 ab.2) hc
  · split at h
    · rename_i e hc; cases h; exact collectE_nf _ _ (fun q _ => currencyQuad_nf env src q) hc
    · cases h

theorem map_nf {α β : Type} (f : α → β) (x : Except Panic α) (hx : x ≠ .error .outOfFuel) : x.map f ≠ .error .outOfFuel := by
  cases x with
  | error e => intro h; simp only [Except.map] at h; cases h; exact hx rfl
  | ok a => intro h; simp only [Except.map] at h; cases h

theorem ruleCurrencyPlacement_nf (env : Env) (src : List Char) (toks : List Tok) :
    ruleCurrencyPlacement env src toks ≠ .error .outOfFuel :=
  map_nf _ _ (collectE_nf _ _ fun p _ => currencyChunk_nf env src p)

theorem spacesPiece_nf (src : List Char) (sent : List Tok) : spacesPiece src sent ≠ .error .outOfFuel := by
  intro h
  simp only [spacesPiece] at h
  split at h
  · rename_i e hc
    cases h
    simp only [spacesTrailing] at hc
    repeat' split at hc
    all_goals cases hc
  · cases h

theorem ruleSpaces_nf (env : Env) (src : List Char) (toks : List Tok) : ruleSpaces env src toks ≠ .error .outOfFuel :=
  collectE_nf _ _ fun p _ => spacesPiece_nf src p

theorem repeatedPair_nf (env : Env) (src : List Char) (a : Tok) (w : Bool) (t : Tok) : repeatedPair env src a w t ≠ .error .outOfFuel := by
  intro h
  simp only [repeatedPair] at h
  split at h
  · rename_i e hc; cases h; exact getContent_nf _ _ hc
  · split at h
    · rename_i e hc; cases h; exact getContent_nf _ _ hc
    · split at h
      · split at h
        · cases h
        · split at h
          · rename_i e hc; cases h; exact spanNew_nf _ _ hc
          · cases h
      · cases h

theorem repeatedGo_nf (env : Env) (src : List Char) : ∀ (ts : List Tok) (prev : Option (Tok × Bool)),
    repeatedGo env src prev ts ≠ .error .outOfFuel
  | [], _ => by intro h; simp only [repeatedGo] at h; cases h
  | t :: ts, prev => by
    intro h
    simp only [repeatedGo] at h
    split at h
    · split at h
      · exact repeatedGo_nf env src ts _ h
      · split at h
        · rename_i e hc; cases h; exact repeatedPair_nf _ _ _ _ _ hc
        · split at h
          · rename_i e hc; cases h; exact repeatedGo_nf env src ts _ hc
          · cases h
    · exact repeatedGo_nf env src ts _ h

theorem ruleRepeatedWords_nf (env : Env) (src : List Char) (toks : List Tok) : ruleRepeatedWords env src toks ≠ .error .outOfFuel :=
  collectE_nf _ _ fun p _ => repeatedGo_nf env src p none

theorem ellipsisTok_nf (src : List Char) (t : Tok) : ellipsisTok src t ≠ .error .outOfFuel := by
  intro h
  simp only [ellipsisTok] at h
  split at h
  · cases h
  · split at h
    · rename_i e hc; cases h; exact getContent_nf _ _ hc
    · repeat' split at h
      all_goals cases h

theorem ruleEllipsisLength_nf (env : Env) (src : List Char) (toks : List Tok) : ruleEllipsisLength env src toks ≠ .error .outOfFuel :=
  collectE_nf _ _ fun t _ => ellipsisTok_nf src t

theorem numberSuffixCapTok_nf (env : Env) (src : List Char) (t : Tok) : numberSuffixCapTok env src t ≠ .error .outOfFuel := by
  intro h
  simp only [numberSuffixCapTok] at h
  split at h
  · cases h
  · cases h
  · split at h
    · cases h
    · split at h
      · rename_i e hc; cases h; exact getContent_nf _ _ hc
      · split at h <;> cases h

theorem ruleNumberSuffixCapitalization_nf (env : Env) (src : List Char) (toks : List Tok) :
    ruleNumberSuffixCapitalization env src toks ≠ .error .outOfFuel :=
  collectE_nf _ _ fun t _ => numberSuffixCapTok_nf env src t

theorem correctNumberSuffixTok_nf (env : Env) (src : List Char) (t : Tok) : correctNumberSuffixTok env src t ≠ .error .outOfFuel := by
  intro h
  simp only [correctNumberSuffixTok] at h
  split at h
  · cases h
  · split at h <;> cases h

theorem ruleCorrectNumberSuffix_nf (env : Env) (src : List Char) (toks : List Tok) :
    ruleCorrectNumberSuffix env src toks ≠ .error .outOfFuel :=
  collectE_nf _ _ fun t _ => correctNumberSuffixTok_nf env src t

theorem ruleUnclosedQuotes_nf (env : Env) (src : List Char) (toks : List Tok) : ruleUnclosedQuotes env src toks ≠ .error .outOfFuel :=
  collectE_nf _ _ fun t _ => by
    intro h
    simp only [unclosedQuoteTok] at h
    split at h <;> cases h

theorem modalIndex_nf (env : Env) (src : List Char) (m : List Tok) : modalIndex env src m ≠ .error .outOfFuel := by
  intro h
  simp only [modalIndex] at h
  split at h
  · cases h
  · split at h
    · split at h
      · split at h
        · rename_i e hc; cases h; exact getContent_nf _ _ hc
        · repeat' split at h
          all_goals cases h
      · cases h
    · cases h

theorem modalOfMatch_nf (env : Env) (src : List Char) (m : List Tok) : modalOfMatch env src m ≠ .error .outOfFuel := by
  intro h
  simp only [modalOfMatch] at h
  split at h
  · rename_i e hc; cases h; exact modalIndex_nf _ _ _ hc
  · cases h
  · split at h
    · rename_i e hc; cases h; exact sliceE_nf _ _ _ hc
    · split at h
      · cases h
      · split at h
        · cases h
        · split at h
          · rename_i e hc; cases h; exact getContent_nf _ _ hc
          · split at h
            · rename_i e hc; cases h; exact getContent_nf _ _ hc
            · cases h

theorem modalOfPat_nf : NF modalOfPat := by
  have hModalOf : NF (seqPat [wordSetAtom modalWords, whitespaceAtom, anyCapAtom ['o', 'f']]) := by
    apply seqPat_nf
    intro q hq; simp only [List.mem_cons, List.mem_nil_iff, or_false] at hq
    rcases hq with rfl | rfl | rfl
    · exact wordSetAtom_nf _
    · exact whitespaceAtom_nf
    · exact anyCapAtom_nf _
  have hCourse : NF (seqPat [whitespaceAtom, anyCapAtom ['c', 'o', 'u', 'r', 's', 'e']]) := by
    apply seqPat_nf
    intro q hq; simp only [List.mem_cons, List.mem_nil_iff, or_false] at hq
    rcases hq with rfl | rfl
    · exact whitespaceAtom_nf
    · exact anyCapAtom_nf _
  have hMight : NF (seqPat [kindAtom Kind.isWord, whitespaceAtom, anyCapAtom ['m', 'i', 'g', 'h', 't'],
      whitespaceAtom, anyCapAtom ['o', 'f']]) := by
    apply seqPat_nf
    intro q hq; simp only [List.mem_cons, List.mem_nil_iff, or_false] at hq
    rcases hq with rfl | rfl | rfl | rfl | rfl
    · exact kindAtom_nf _
    · exact whitespaceAtom_nf
    · exact anyCapAtom_nf _
    · exact whitespaceAtom_nf
    · exact anyCapAtom_nf _
  unfold modalOfPat
  apply eitherPat_nf
  intro q hq; simp only [List.mem_cons, List.mem_nil_iff, or_false] at hq
  rcases hq with rfl | rfl | rfl | rfl
  · apply seqPat_nf
    intro q hq; simp only [List.mem_cons, List.mem_nil_iff, or_false] at hq
    rcases hq with rfl | rfl
    · exact hMight
    · exact hCourse
  · apply seqPat_nf
    intro q hq; simp only [List.mem_cons, List.mem_nil_iff, or_false] at hq
    rcases hq with rfl | rfl
    · exact hModalOf
    · exact hCourse
  · exact hMight
  · exact hModalOf

theorem ruleModalOf_nf (env : Env) (src : List Char) (toks : List Tok) : ruleModalOf env src toks ≠ .error .outOfFuel :=
  collectE_nf _ _ fun chunk _ => runOnChunkGo_nf _ modalOfPat_nf _ src (modalOfMatch_nf env src) chunk 0

theorem anaPair_nf (env : Env) (src : List Char) (a b : Tok) : anaPair env src a b ≠ .error .outOfFuel := by
  intro h
  simp only [anaPair] at h
  split at h
  · rename_i e hc; cases h; exact getContent_nf _ _ hc
  · split at h
    · rename_i e hc; cases h; exact getContent_nf _ _ hc
    · split at h
      · cases h
      · split at h <;> cases h

theorem anaGo_nf (env : Env) (src : List Char) : ∀ (ts : List Tok) (prev : Option (Tok × Bool)),
    anaGo env src prev ts ≠ .error .outOfFuel
  | [], _ => by intro h; simp only [anaGo] at h; cases h
  | t :: ts, prev => by
    intro h
    simp only [anaGo] at h
    split at h
    · split at h
      · exact anaGo_nf env src ts _ h
      · split at h
        · rename_i e hc
          cases h
          split at hc
          · cases hc
          · exact anaPair_nf _ _ _ _ hc
        · split at h
          · rename_i e hc; cases h; exact anaGo_nf env src ts _ hc
          · cases h
    · exact anaGo_nf env src ts _ h

theorem ruleAnA_nf (env : Env) (src : List Char) (toks : List Tok) : ruleAnA env src toks ≠ .error .outOfFuel :=
  collectE_nf _ _ fun p _ => anaGo_nf env src p none

theorem sentCapSentence_nf (env : Env) (src : List Char) (sent : List Tok) : sentCapSentence env src sent ≠ .error .outOfFuel := by
  intro h
  simp only [sentCapSentence] at h
  split at h
  · cases h
  · split at h
    · cases h
    · split at h
      · cases h
      · split at h
        · rename_i e hc; cases h; exact getContent_nf _ _ hc
        · split at h
          · cases h
          · split at h <;> cases h

theorem ruleSentenceCapitalization_nf (env : Env) (src : List Char) (toks : List Tok) :
    ruleSentenceCapitalization env src toks ≠ .error .outOfFuel :=
  collectE_nf _ _ fun par _ => by
    intro h
    simp only [sentCapParagraph] at h
    split at h
    · cases h
    · exact collectE_nf _ _ (fun s _ => sentCapSentence_nf env src s) h

end Harper.PatternRules
