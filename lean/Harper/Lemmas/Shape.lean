import Harper.Lemmas.DocAppend
/-! Shape facts about the tokens of a `Document`: quote twins, `Space` tokens, number suffixes. -/
namespace Harper

/-! # `match_quotes`: twins point at each other -/

/-- what `match_quotes` does to the token at index `i` -/
def twinOf (tab : List (Nat × Nat)) (i : Nat) (t : Tok) : Tok :=
  match t.kind, tab.lookup i with
  | .quote _, some j => ⟨t.span, .quote (some j)⟩
  | _, _ => t

theorem setTwins_cons (tab : List (Nat × Nat)) (i : Nat) (t : Tok) (ts : List Tok) :
    setTwins tab i (t :: ts) = twinOf tab i t :: setTwins tab (i + 1) ts := by
  obtain ⟨sp, kd⟩ := t
  cases kd <;> cases h : tab.lookup i <;> simp [setTwins, twinOf, h]

theorem setTwins_getElem (tab : List (Nat × Nat)) : ∀ (toks : List Tok) (s i : Nat) (t : Tok),
    toks[i]? = some t → (setTwins tab s toks)[i]? = some (twinOf tab (s + i) t) := by
  intro toks
  induction toks with
  | nil => intro s i t h; simp at h
  | cons a r ih =>
    intro s i t h
    rw [setTwins_cons]
    cases i with
    | zero =>
      simp only [List.getElem?_cons_zero, Option.some.injEq] at h
      subst h
      simp
    | succ i =>
      simp only [List.getElem?_cons_succ] at h
      have := ih (s + 1) i t h
      simp only [List.getElem?_cons_succ]
      rw [this, show s + 1 + i = s + (i + 1) by omega]

theorem setTwins_length (tab : List (Nat × Nat)) (toks : List Tok) (s : Nat) :
    (setTwins tab s toks).length = toks.length := by
  induction toks generalizing s with
  | nil => rfl
  | cons a r ih => rw [setTwins_cons]; simp [ih]

theorem mem_quoteIdx (toks : List Tok) (s j : Nat) :
    j ∈ quoteIdx s toks ↔ ∃ i t, j = s + i ∧ toks[i]? = some t ∧ t.kind.isQuote = true := by
  induction toks generalizing s with
  | nil => simp [quoteIdx]
  | cons a r ih =>
    simp only [quoteIdx]
    constructor
    · intro h
      split at h
      · rcases List.mem_cons.mp h with rfl | h
        · exact ⟨0, a, rfl, rfl, by assumption⟩
        · obtain ⟨i, t, rfl, h1, h2⟩ := (ih (s + 1)).mp h
          exact ⟨i + 1, t, by omega, h1, h2⟩
      · obtain ⟨i, t, rfl, h1, h2⟩ := (ih (s + 1)).mp h
        exact ⟨i + 1, t, by omega, h1, h2⟩
    · rintro ⟨i, t, rfl, h1, h2⟩
      cases i with
      | zero =>
        simp only [List.getElem?_cons_zero, Option.some.injEq] at h1
        subst h1
        simp [h2]
      | succ i =>
        simp only [List.getElem?_cons_succ] at h1
        have : s + (i + 1) ∈ quoteIdx (s + 1) r := (ih (s + 1)).mpr ⟨i, t, by omega, h1, h2⟩
        split
        · exact List.mem_cons_of_mem _ this
        · exact this

theorem quoteIdx_sorted (toks : List Tok) (s : Nat) :
    (quoteIdx s toks).Pairwise (· < ·) ∧ ∀ j ∈ quoteIdx s toks, s ≤ j := by
  induction toks generalizing s with
  | nil => simp [quoteIdx]
  | cons a r ih =>
    obtain ⟨h1, h2⟩ := ih (s + 1)
    simp only [quoteIdx]
    split
    · refine ⟨List.pairwise_cons.mpr ⟨fun j hj => by have := h2 j hj; omega, h1⟩, ?_⟩
      intro j hj
      rcases List.mem_cons.mp hj with rfl | hj
      · omega
      · have := h2 j hj; omega
    · exact ⟨h1, fun j hj => by have := h2 j hj; omega⟩

/-- the pairing table of a strictly increasing list of indices is symmetric -/
theorem twinTable_symm : ∀ (qs : List Nat), qs.Pairwise (· < ·) → ∀ i j, (twinTable qs).lookup i = some j →
    (twinTable qs).lookup j = some i ∧ i ∈ qs ∧ j ∈ qs ∧ i ≠ j
  | [], _, i, j, h => by simp [twinTable] at h
  | [a], _, i, j, h => by simp [twinTable] at h
  | a :: b :: r, hs, i, j, h => by
    have hab : a < b := (List.pairwise_cons.mp hs).1 b (by simp)
    have hr : r.Pairwise (· < ·) := (List.pairwise_cons.mp (List.pairwise_cons.mp hs).2).2
    have hbr : ∀ x ∈ r, b < x := (List.pairwise_cons.mp (List.pairwise_cons.mp hs).2).1
    simp only [twinTable, List.lookup_cons] at h ⊢
    by_cases hia : i = a
    · subst hia
      simp only [beq_self_eq_true, Option.some.injEq] at h
      subst h
      have : (b == i) = false := by simp; omega
      simp [this]; omega
    · have h1 : (i == a) = false := by simp [hia]
      rw [h1] at h
      by_cases hib : i = b
      · subst hib
        simp only [beq_self_eq_true, Option.some.injEq] at h
        subst h
        simp; omega
      · have h2 : (i == b) = false := by simp [hib]
        rw [h2] at h
        obtain ⟨e1, e2, e3, e4⟩ := twinTable_symm r hr i j h
        have hja : (j == a) = false := by have := hbr j e3; simp; omega
        have hjb : (j == b) = false := by have := hbr j e3; simp; omega
        rw [hja, hjb]
        exact ⟨e1, by simp [e2], by simp [e3], e4⟩

/-- the last quotation mark of an odd number of them has no partner -/
theorem twinTable_odd_last : ∀ (qs : List Nat), qs.Pairwise (· < ·) → qs.length % 2 = 1 →
    ∀ q, qs.getLast? = some q → (twinTable qs).lookup q = none
  | [], _, h, _, _ => by simp at h
  | [a], _, _, q, _ => by simp [twinTable]
  | a :: b :: r, hs, hodd, q, hq => by
    have hr : r.Pairwise (· < ·) := (List.pairwise_cons.mp (List.pairwise_cons.mp hs).2).2
    have hbr : ∀ x ∈ r, b < x := (List.pairwise_cons.mp (List.pairwise_cons.mp hs).2).1
    have hab : a < b := (List.pairwise_cons.mp hs).1 b (by simp)
    have hne : r ≠ [] := by intro e; subst e; simp at hodd
    have hq' : r.getLast? = some q := by
      rw [List.getLast?_cons_cons, List.getLast?_cons_of_ne_nil hne] at hq
      · exact hq
    have hqr : q ∈ r := List.mem_of_getLast? hq'
    have := hbr q hqr
    simp only [twinTable, List.lookup_cons]
    have h1 : (q == a) = false := by simp; omega
    have h2 : (q == b) = false := by simp; omega
    rw [h1, h2]
    exact twinTable_odd_last r hr (by simp at hodd; omega) q hq'

end Harper

namespace Harper

theorem fresh_quote {toks : List Tok} (hf : Fresh toks) {t : Tok} (ht : t ∈ toks) (hq : t.kind.isQuote = true) :
    t.kind = .quote none := by
  cases hk : t.kind with
  | quote tw =>
    cases tw with
    | none => rfl
    | some x => exact absurd hk (hf t ht x)
  | _ => rw [hk] at hq; cases hq

/-- a quote token's twin is a quote token whose twin is the first one -/
theorem matchQuotes_twin (toks : List Tok) (hf : Fresh toks) (i j : Nat) (t : Tok)
    (h : (matchQuotes toks)[i]? = some t) (hk : t.kind = .quote (some j)) :
    ∃ u, (matchQuotes toks)[j]? = some u ∧ u.kind = .quote (some i) ∧ i ≠ j := by
  unfold matchQuotes at h ⊢
  have hi : i < toks.length := by
    have := (List.getElem?_eq_some_iff.mp h).1
    rwa [setTwins_length] at this
  have h0 : toks[i]? = some toks[i] := List.getElem?_eq_getElem hi
  rw [setTwins_getElem _ _ 0 i _ h0, Nat.zero_add] at h
  simp only [Option.some.injEq] at h
  have hmem : toks[i] ∈ toks := List.getElem_mem hi
  -- the token at `i` is a quote that was given the twin `j`
  have hl : (twinTable (quoteIdx 0 toks)).lookup i = some j := by
    unfold twinOf at h
    split at h
    · rename_i j' _ hl
      rw [← h] at hk
      simp only [Kind.quote.injEq, Option.some.injEq] at hk
      rw [← hk]; exact hl
    · rw [h] at hmem
      exact absurd hk (hf t hmem j)
  obtain ⟨hs, _, hjq, hne⟩ := twinTable_symm _ (quoteIdx_sorted toks 0).1 i j hl
  obtain ⟨jj, u0, rfl, hu0, huq⟩ := (mem_quoteIdx toks 0 j).mp hjq
  rw [Nat.zero_add] at hs hne ⊢
  refine ⟨twinOf _ jj u0, by rw [setTwins_getElem _ _ 0 jj _ hu0, Nat.zero_add], ?_, hne⟩
  have hu0k := fresh_quote hf (List.mem_of_getElem? hu0) huq
  simp [twinOf, hu0k, hs]

/-- of an odd number of quotation marks the last one has no twin -/
theorem matchQuotes_unpaired (toks : List Tok) (hf : Fresh toks) (q : Nat)
    (hodd : (quoteIdx 0 toks).length % 2 = 1) (hq : (quoteIdx 0 toks).getLast? = some q) :
    ∃ t, (matchQuotes toks)[q]? = some t ∧ t.kind = .quote none := by
  have hmem : q ∈ quoteIdx 0 toks := List.mem_of_getLast? hq
  obtain ⟨qq, t0, rfl, ht0, htq⟩ := (mem_quoteIdx toks 0 q).mp hmem
  have hnone := twinTable_odd_last _ (quoteIdx_sorted toks 0).1 hodd _ hq
  have hk := fresh_quote hf (List.mem_of_getElem? ht0) htq
  unfold matchQuotes
  rw [Nat.zero_add] at hnone ⊢
  refine ⟨twinOf _ qq t0, by rw [setTwins_getElem _ _ 0 qq _ ht0, Nat.zero_add], ?_⟩
  simp [twinOf, hk, hnone]

/-- `match_quotes` touches nothing but the twin of quote tokens -/
theorem matchQuotes_other (toks : List Tok) (i : Nat) (t : Tok) (h : toks[i]? = some t) (hq : t.kind.isQuote = false) :
    (matchQuotes toks)[i]? = some t := by
  unfold matchQuotes
  rw [setTwins_getElem _ _ 0 i _ h]
  congr 1
  unfold twinOf
  split
  · rename_i hk _; rw [hk] at hq; cases hq
  · rfl

/-- the tokens `Document::parse` hands to `match_quotes` carry no twin yet -/
theorem document_prequotes (cls : Cls) (ext : Ext) (src : List Char) (out : List Tok)
    (h : document cls ext src = .ok out) : ∃ t8, Fresh t8 ∧ out = matchQuotes t8 := by
  cases hp : parsePlain cls ext src with
  | error e => simp [document, hp] at h
  | ok t0 =>
    rw [document_eq cls ext src t0 hp] at h
    cases h8 : prePasses src t0 with
    | error e => rw [h8] at h; cases h
    | ok t8 =>
      rw [h8] at h
      simp only [Except.map, Except.ok.injEq] at h
      exact ⟨t8, Fresh.of_kinds (prePasses_kinds _ _ _ h8) (parsePlain_fresh cls ext src t0 hp), h.symm⟩

end Harper

namespace Harper

/-! # tokens that survive a pass unchanged -/

/-- every token of `out` is a token of `inp`, or is of a kind `p` rejects -/
def KeptOr (p : Kind → Bool) (out inp : List Tok) : Prop := ∀ t ∈ out, t ∈ inp ∨ p t.kind = false

theorem KeptOr.refl (p : Kind → Bool) (l : List Tok) : KeptOr p l l := fun t ht => Or.inl ht

theorem KeptOr.trans {p : Kind → Bool} {a b c : List Tok} (h1 : KeptOr p a b) (h2 : KeptOr p b c) : KeptOr p a c := by
  intro t ht
  rcases h1 t ht with h | h
  · exact h2 t h
  · exact Or.inr h

theorem runGo_keptOr (p : Kind → Bool) (cfg : RunCfg) (hp : ∀ n, p (cfg.mkKind n) = false) (toks : List Tok) :
    KeptOr p (unflag (runGo cfg .scan toks)) toks := by
  intro t ht
  rcases runGo_mem cfg toks .scan _ (mem_unflag _ _ ht) with h | h | ⟨n, h⟩
  · exact Or.inl h
  · cases h
  · right; rw [h]; exact hp n

theorem condenseNewlines_keptOr (p : Kind → Bool) (hp : ∀ n, p (.newline n) = false) (l : List Tok) :
    KeptOr p (condenseNewlines l) l := by
  unfold condenseNewlines; rw [dropFlagged_eq]; exact runGo_keptOr p newlinesCfg hp l

theorem condenseSpaces_keptOr (p : Kind → Bool) (hp : ∀ n, p (.space n) = false) (l : List Tok) :
    KeptOr p (condenseSpaces l) l := by
  unfold condenseSpaces; rw [dropFlagged_eq]; exact runGo_keptOr p spacesCfg hp l

theorem newlinesToBreaks_keptOr (p : Kind → Bool) (hp : p .paragraphBreak = false) (l : List Tok) :
    KeptOr p (newlinesToBreaks l) l := by
  intro t ht
  simp only [newlinesToBreaks, List.mem_map] at ht
  obtain ⟨u, hu, rfl⟩ := ht
  obtain ⟨sp, kd⟩ := u
  cases kd with
  | newline n =>
    simp only [breakKind]
    split
    · exact Or.inr hp
    · exact Or.inl hu
  | _ => exact Or.inl hu

theorem matchQuotes_keptOr (p : Kind → Bool) (hp : ∀ tw, p (.quote tw) = false) (l : List Tok) :
    KeptOr p (matchQuotes l) l := by
  intro t ht
  obtain ⟨i, hi, rfl⟩ := List.getElem_of_mem ht
  have hi' : i < l.length := by unfold matchQuotes at hi; rwa [setTwins_length] at hi
  have h0 : l[i]? = some l[i] := List.getElem?_eq_getElem hi'
  have : (matchQuotes l)[i]? = some (twinOf (twinTable (quoteIdx 0 l)) (0 + i) l[i]) := by
    unfold matchQuotes; exact setTwins_getElem _ _ 0 i _ h0
  rw [List.getElem?_eq_getElem hi] at this
  simp only [Option.some.injEq] at this
  rw [this]
  unfold twinOf
  split
  · exact Or.inr (hp _)
  · exact Or.inl (List.getElem_mem hi')

/-! ## the pattern passes rewrite only the first token of a match -/

theorem foundFrom_heads (m : Matcher) (src : List Char) (toks : List Tok) (i : Nat) (found : List Span)
    (h : foundFrom m src i toks = .ok found) :
    ∀ b ∈ found, i ≤ b.start ∧ ∃ n, 0 < n ∧ m src (toks.drop (b.start - i)) = .ok n := by
  induction toks generalizing i found with
  | nil => simp only [foundFrom] at h; cases h; simp
  | cons t ts ih =>
    simp only [foundFrom] at h
    cases hm : m src (t :: ts) with
    | error e => rw [hm] at h; cases h
    | ok n =>
      rw [hm] at h
      simp only at h
      cases hr : foundFrom m src (i + 1) ts with
      | error e => rw [hr] at h; cases h
      | ok rest =>
        rw [hr] at h
        simp only [Except.ok.injEq] at h
        have hrest : ∀ b ∈ rest, i ≤ b.start ∧ ∃ n, 0 < n ∧ m src ((t :: ts).drop (b.start - i)) = .ok n := by
          intro b hb
          obtain ⟨h1, n', h2, h3⟩ := ih (i + 1) rest hr b hb
          refine ⟨by omega, n', h2, ?_⟩
          rw [show b.start - i = (b.start - (i + 1)) + 1 by omega]
          exact h3
        split at h
        · rw [← h]
          intro b hb
          rcases List.mem_cons.mp hb with rfl | hb
          · exact ⟨Nat.le_refl _, n, by assumption, by simpa using hm⟩
          · exact hrest b hb
        · rw [← h]; exact hrest

/-- the loop of `condense_pattern` when every match starts on a token of a kind `p` rejects -/
theorem condLoop_keptOr (p : Kind → Bool) (edit : Kind → Kind) (hedit : ∀ k, p k = false → p (edit k) = false)
    (orig : List Tok) (ms : List Span) : ∀ (cur : List Tok) (rem : List Nat) (ts : List Tok) (r : List Nat),
    (∀ t ∈ cur, t ∈ orig ∨ p t.kind = false) →
    (∀ m ∈ ms, ∀ t, cur[m.start]? = some t → p t.kind = false) →
    condLoop edit ms cur rem = .ok (ts, r) → ∀ t ∈ ts, t ∈ orig ∨ p t.kind = false := by
  induction ms with
  | nil =>
    intro cur rem ts r hJ _ hc
    simp only [condLoop, Except.ok.injEq, Prod.mk.injEq] at hc
    rw [← hc.1]; exact hJ
  | cons m ms ih =>
    intro cur rem ts r hJ hI hc
    simp only [condLoop] at hc
    have hI' : ∀ m' ∈ ms, ∀ t, cur[m'.start]? = some t → p t.kind = false :=
      fun m' hm' => hI m' (List.mem_cons_of_mem _ hm')
    cases hs : sliceE cur m.start m.stop with
    | error e => rw [hs] at hc; cases hc
    | ok slice =>
      rw [hs] at hc
      simp only at hc
      split at hc
      · exact ih cur rem ts r hJ hI' hc
      · cases hsp : spanOf slice with
        | none => rw [hsp] at hc; cases hc
        | some sp =>
          rw [hsp] at hc
          simp only at hc
          cases hg : cur[m.start]? with
          | none => rw [hg] at hc; cases hc
          | some t0 =>
            rw [hg] at hc
            simp only at hc
            have hp0 : p (edit t0.kind) = false := hedit _ (hI m (by simp) t0 hg)
            refine ih _ _ ts r ?_ ?_ hc
            · intro t ht
              rcases List.mem_or_eq_of_mem_set ht with h' | rfl
              · exact hJ t h'
              · exact Or.inr hp0
            · intro m' hm' t ht
              by_cases he : m'.start = m.start
              · rw [he, List.getElem?_set_self (by
                  have := (List.getElem?_eq_some_iff.mp hg).1; exact this)] at ht
                simp only [Option.some.injEq] at ht
                rw [← ht]; exact hp0
              · rw [List.getElem?_set_ne (by omega)] at ht
                exact hI' m' hm' t ht

theorem condensePattern_keptOr (p : Kind → Bool) (m : Matcher) (edit : Kind → Kind)
    (hedit : ∀ k, p k = false → p (edit k) = false) (src : List Char)
    (toks out : List Tok)
    (hhead : ∀ k n, m src (toks.drop k) = .ok n → 0 < n → ∃ t r, toks.drop k = t :: r ∧ p t.kind = false)
    (hc : condensePattern m edit src toks = .ok out) : KeptOr p out toks := by
  unfold condensePattern at hc
  rw [findAllMatches_eq] at hc
  cases hf : foundFrom m src 0 toks with
  | error e => rw [hf] at hc; cases hc
  | ok found =>
    rw [hf] at hc
    simp only [Except.map] at hc
    cases hl : condLoop edit (filt found) toks [] with
    | error e => rw [hl] at hc; cases hc
    | ok r =>
      obtain ⟨ts, rem⟩ := r
      rw [hl] at hc
      simp only [Except.ok.injEq] at hc
      have hfm : ∀ b ∈ filt found, b ∈ found := by
        intro b hb
        unfold filt at hb
        split at hb
        · exact hb
        · exact removeIndices_mem _ _ _ b hb
      have := condLoop_keptOr p edit hedit toks (filt found) toks [] ts rem (fun t ht => Or.inl ht) (by
        intro b hb t ht
        obtain ⟨_, n, hn, hm⟩ := foundFrom_heads m src toks 0 found hf b (hfm b hb)
        rw [Nat.sub_zero] at hm
        obtain ⟨t', r', hv, hpt⟩ := hhead _ n hm hn
        have : toks[b.start]? = some t' := by
          have := congrArg List.head? hv
          rw [List.head?_drop] at this
          simpa using this
        rw [this] at ht
        simp only [Option.some.injEq] at ht
        rw [← ht]; exact hpt) hl
      intro t ht
      rw [← hc] at ht
      exact this t (removeIndices_mem _ _ _ t ht)

end Harper

namespace Harper

def initHeld : InitMode → List (Tok × Bool)
  | .idle => []
  | .inside _ _ held => held

def initWordInv : InitMode → Prop
  | .idle => True
  | .inside st _ _ => st.kind.isWord = true

theorem chunk_word {a b : Tok} (h : isInitialismChunk a b = true) : a.kind.isWord = true := by
  simp only [isInitialismChunk, Bool.and_eq_true] at h; exact h.1.1

theorem initGo_keptOr (p : Kind → Bool) (hp : ∀ k, k.isWord = true → p k = false) :
    ∀ (n : Nat) (toks : List Tok), toks.length ≤ n → ∀ mode, initWordInv mode → ∀ q ∈ initGo mode toks,
      q.1 ∈ toks ∨ q ∈ initHeld mode ∨ p q.1.kind = false := by
  intro n
  induction n with
  | zero =>
    intro toks h mode hinv q hq
    have : toks = [] := by cases toks <;> simp_all
    subst this
    cases mode with
    | idle => simp [initGo] at hq
    | inside st e held =>
      simp only [initGo, List.map_nil, List.append_nil, List.mem_cons, List.mem_reverse] at hq
      rcases hq with rfl | hq
      · exact Or.inr (Or.inr (hp _ hinv))
      · exact Or.inr (Or.inl hq)
  | succ n ih =>
    intro toks h mode hinv q hq
    match toks, h with
    | [], _ => exact ih [] (by simp) mode hinv q hq
    | [a], _ =>
      cases mode with
      | idle =>
        simp only [initGo, List.map_cons, List.map_nil, List.mem_singleton] at hq
        subst hq; exact Or.inl (by simp)
      | inside st e held =>
        simp only [initGo, List.map_cons, List.map_nil, List.mem_cons, List.mem_append, List.mem_reverse,
          List.mem_singleton] at hq
        rcases hq with rfl | hq | rfl | hq
        · exact Or.inr (Or.inr (hp _ hinv))
        · exact Or.inr (Or.inl hq)
        · exact Or.inl (by simp)
        · cases hq
    | a :: b :: rest, h =>
      have ih1 := ih rest (by simp at h ⊢; omega)
      have ih2 := ih (b :: rest) (by simp at h ⊢; omega)
      cases mode with
      | idle =>
        simp only [initGo] at hq
        split at hq
        · rename_i hch
          rcases ih1 (.inside a b.span.stop [(b, true)]) (chunk_word hch) q hq with h' | h' | h'
          · exact Or.inl (List.mem_cons_of_mem _ (List.mem_cons_of_mem _ h'))
          · simp only [initHeld, List.mem_singleton] at h'; subst h'; exact Or.inl (by simp)
          · exact Or.inr (Or.inr h')
        · rcases List.mem_cons.mp hq with rfl | hq
          · exact Or.inl (by simp)
          · rcases ih2 .idle trivial q hq with h' | h' | h'
            · exact Or.inl (List.mem_cons_of_mem _ h')
            · cases h'
            · exact Or.inr (Or.inr h')
      | inside st e held =>
        simp only [initGo] at hq
        split at hq
        · rcases ih1 (.inside st b.span.stop ((b, true) :: (a, true) :: held)) hinv q hq with h' | h' | h'
          · exact Or.inl (List.mem_cons_of_mem _ (List.mem_cons_of_mem _ h'))
          · simp only [initHeld, List.mem_cons] at h'
            rcases h' with rfl | rfl | h'
            · exact Or.inl (by simp)
            · exact Or.inl (by simp)
            · exact Or.inr (Or.inl h')
          · exact Or.inr (Or.inr h')
        · simp only [List.mem_cons, List.mem_append, List.mem_reverse] at hq
          rcases hq with rfl | hq | rfl | hq
          · exact Or.inr (Or.inr (hp _ hinv))
          · exact Or.inr (Or.inl hq)
          · exact Or.inl (by simp)
          · rcases ih2 .idle trivial q hq with h' | h' | h'
            · exact Or.inl (List.mem_cons_of_mem _ h')
            · cases h'
            · exact Or.inr (Or.inr h')

theorem dottedInitialisms_keptOr (p : Kind → Bool) (hp : ∀ k, k.isWord = true → p k = false) (l : List Tok) :
    KeptOr p (dottedInitialisms l) l := by
  intro t ht
  unfold dottedInitialisms at ht
  rw [dropFlagged_eq] at ht
  rcases initGo_keptOr p hp l.length l (Nat.le_refl _) .idle trivial _ (mem_unflag _ _ ht) with h | h | h
  · exact Or.inl h
  · cases h
  · exact Or.inr h

/-- head of a match of each condense pattern -/
theorem contraction_head (src : List Char) (v : List Tok) (n : Nat) (h : contractionPat src v = .ok n) (hn : 0 < n) :
    ∃ t r, v = t :: r ∧ t.kind.isWord = true := by
  rw [contractionPat_eq] at h
  match v, h with
  | a :: b :: c :: r, h =>
    simp only [Except.ok.injEq] at h
    split at h
    · rename_i hc; simp only [Bool.and_eq_true] at hc; exact ⟨a, _, rfl, hc.1.1⟩
    · omega
  | [], h => simp at h; omega
  | [_], h => simp at h; omega
  | [_, _], h => simp at h; omega

theorem ellipsis_head (src : List Char) (v : List Tok) (n : Nat) (h : ellipsisPat src v = .ok n) (hn : 0 < n) :
    ∃ t r, v = t :: r ∧ t.kind.isPeriod = true := by
  rw [ellipsisPat_eq] at h
  simp only [Except.ok.injEq] at h
  cases v with
  | nil => simp [periods, countWhile] at h; omega
  | cons t r =>
    refine ⟨t, r, rfl, ?_⟩
    rw [periods_cons] at h
    cases hp : t.kind.isPeriod with
    | true => rfl
    | false => simp [hp] at h; omega

theorem latin_head (src : List Char) (v : List Tok) (hv : InB src v) (n : Nat) (h : latinPat src v = .ok n)
    (hn : 0 < n) : ∃ t r, v = t :: r ∧ t.kind.isWord = true := by
  rw [latinPat_eq src v hv] at h
  simp only [Except.ok.injEq] at h
  subst h
  obtain ⟨t, r, e, hw, _, _⟩ := latinLen_pos hn
  exact ⟨t, r, e, hw⟩

end Harper

namespace Harper

/-! # what the lexer says about `Space` and `Number` tokens -/

/-- the characters of a `Space(m)` token: `n` blanks, or `n` tabs counted twice -/
def BlankRun (cs : List Char) (m : Nat) : Prop :=
  ((∀ c ∈ cs, c = ' ') ∧ m = cs.length) ∨ ((∀ c ∈ cs, c = '\t') ∧ m = 2 * cs.length)

theorem other_kind {cs : List Char} {kd : Kind} (hs : kd.isSpace = false) (hn : kd.isNumber = false) :
    (∀ m, kd = .space m → BlankRun cs m) ∧ (∀ r s, kd = .number r s → s = none) :=
  ⟨fun m e => (by rw [e] at hs; cases hs), fun r s e => (by rw [e] at hn; cases hn)⟩

theorem runLexer_space_number (cls : Cls) (ext : Ext) (pos : Nat) (src : List Char) (l : LexerName) (kd : Kind) (n : Nat)
    (h : runLexer cls ext pos src l = some (kd, n)) :
    (∀ m, kd = .space m → BlankRun (src.take n) m) ∧ (∀ r s, kd = .number r s → s = none) := by
  cases l <;> simp only [runLexer] at h
  · unfold lexRegexish at h
    split at h
    · split at h
      · cases h; exact other_kind rfl rfl
      · cases h
    · cases h
  · unfold lexPunctuation at h
    split at h
    · cases h
    · split at h
      · cases h; exact other_kind rfl rfl
      · split at h
        · cases h; exact other_kind rfl rfl
        · cases h
  · simp only [lexTabs] at h
    split at h
    · cases h
      refine ⟨fun m e => ?_, fun r s e => (by cases e)⟩
      cases e
      right
      refine ⟨fun c hc => by simpa using cw_take_all _ _ c hc, ?_⟩
      have := countWhile_le (· == '\t') src
      simp [List.length_take, Nat.min_eq_left this]; omega
    · cases h
  · simp only [lexSpaces] at h
    split at h
    · cases h
      refine ⟨fun m e => ?_, fun r s e => (by cases e)⟩
      cases e
      left
      refine ⟨fun c hc => by simpa using cw_take_all _ _ c hc, ?_⟩
      have := countWhile_le (· == ' ') src
      simp [List.length_take, Nat.min_eq_left this]
    · cases h
  · simp only [lexNewlines] at h
    split at h
    · cases h; exact other_kind rfl rfl
    · cases h
  · refine ⟨fun m e => ?_, fun r s e => ?_⟩ <;> subst e <;>
    · unfold lexPluralDigit at h
      split at h
      · cases h
      · split at h
        · cases h
        · split at h
          all_goals
            unfold pluralTail at h
            split at h
            · split at h
              · cases h
              · split at h <;> cases h
            · cases h
  · unfold lexHexNumber at h
    split at h
    · split at h
      · split at h
        · cases h
        · split at h
          · cases h; exact ⟨fun m e => (by cases e), fun r s e => (by cases e; rfl)⟩
          · cases h
      · cases h
    · cases h
  · refine ⟨fun m e => ?_, fun r s e => ?_⟩ <;> subst e <;>
    · unfold lexLongDecade at h
      split at h
      · split at h
        · split at h
          · split at h <;> cases h
          · cases h
        · cases h
      · cases h
  · unfold lexNumber at h
    split at h
    · cases h
    · split at h
      · cases h
      · split at h
        · cases h
        · split at h
          · cases h; exact ⟨fun m e => (by cases e), fun r s e => (by cases e; rfl)⟩
          · cases h
  · split at h
    · cases h; exact other_kind rfl rfl
    · cases h
  · split at h
    · cases h; exact other_kind rfl rfl
    · cases h
  · split at h
    · cases h; exact other_kind rfl rfl
    · cases h
  · simp only [lexWord] at h
    split at h
    · cases h
    · cases h; exact other_kind rfl rfl
  · cases h; exact other_kind rfl rfl

theorem lexToken_space_number (cls : Cls) (ext : Ext) (pos : Nat) (src : List Char) (kd : Kind) (n : Nat)
    (h : lexToken cls ext pos src = some (kd, n)) :
    (∀ m, kd = .space m → BlankRun (src.take n) m) ∧ (∀ r s, kd = .number r s → s = none) := by
  unfold lexToken at h
  generalize Tables.lexerOrder = ls at h
  induction ls with
  | nil => cases h
  | cons l ls ih =>
    simp only [firstFound] at h
    cases hr : runLexer cls ext pos src l with
    | none => rw [hr] at h; exact ih h
    | some f =>
      rw [hr] at h
      simp only [Option.some.injEq] at h
      subst h
      exact runLexer_space_number cls ext pos src l kd n hr

end Harper

namespace Harper

/-! # `Space` tokens -/

/-- a `Space(m)` token covers only blanks and tabs, and `m` = blanks + 2·tabs -/
def SpanShape (src : List Char) (s : Span) (m : Nat) : Prop :=
  (∀ c ∈ (src.drop s.start).take (s.stop - s.start), c = ' ' ∨ c = '\t') ∧
    m = ((src.drop s.start).take (s.stop - s.start)).count ' ' +
      2 * ((src.drop s.start).take (s.stop - s.start)).count '\t'

def SpOK (src : List Char) (t : Tok) : Prop := ∀ m, t.kind = .space m → SpanShape src t.span m

theorem blankRun_shape (cs : List Char) (m : Nat) (h : BlankRun cs m) :
    (∀ c ∈ cs, c = ' ' ∨ c = '\t') ∧ m = cs.count ' ' + 2 * cs.count '\t' := by
  rcases h with ⟨h1, h2⟩ | ⟨h1, h2⟩
  · refine ⟨fun c hc => Or.inl (h1 c hc), ?_⟩
    have e1 : cs.count ' ' = cs.length := List.count_eq_length.mpr (fun c hc => (h1 c hc).symm)
    have e2 : cs.count '\t' = 0 := List.count_eq_zero.mpr (fun hc => by have := h1 _ hc; revert this; decide)
    omega
  · refine ⟨fun c hc => Or.inr (h1 c hc), ?_⟩
    have e1 : cs.count '\t' = cs.length := List.count_eq_length.mpr (fun c hc => (h1 c hc).symm)
    have e2 : cs.count ' ' = 0 := List.count_eq_zero.mpr (fun hc => by have := h1 _ hc; revert this; decide)
    omega

theorem span_concat (src : List Char) (a b c : Nat) (hab : a ≤ b) (hbc : b ≤ c) :
    (src.drop a).take (c - a) = (src.drop a).take (b - a) ++ (src.drop b).take (c - b) := by
  rw [show c - a = (b - a) + (c - b) by omega, List.take_add, List.drop_drop,
    show a + (b - a) = b by omega]

theorem spanShape_merge (src : List Char) (s c : Span) (n m : Nat) (hs : s.start ≤ s.stop) (hc : c.start ≤ c.stop)
    (hadj : s.stop = c.start) (h1 : SpanShape src s n) (h2 : SpanShape src c m) :
    SpanShape src ⟨s.start, c.stop⟩ (n + m) := by
  unfold SpanShape at *
  simp only
  rw [span_concat src s.start s.stop c.stop hs (by omega), hadj]
  rw [hadj] at h1
  refine ⟨?_, ?_⟩
  · intro x hx
    rcases List.mem_append.mp hx with h | h
    · exact h1.1 x h
    · exact h2.1 x h
  · rw [List.count_append, List.count_append]
    have := h1.2; have := h2.2
    omega

theorem spaces_sel_some {k : Kind} {n : Nat} (h : spacesCfg.sel k = some n) : k = .space n := by
  cases k <;> simp [spacesCfg] at h
  rw [h]

theorem runGo_spaces_shape (src : List Char) (toks : List Tok) :
    (∀ t ∈ toks, t.span.start ≤ t.span.stop ∧ SpOK src t) →
    (∀ q ∈ runGo spacesCfg .scan toks, q.2 = false → SpOK src q.1) ∧
    (∀ s n held, s.start ≤ s.stop → SpanShape src s n → (∀ q ∈ held, q.2 = true) →
      ∀ q ∈ runGo spacesCfg (.absorb s n held) toks, q.2 = false → SpOK src q.1) := by
  induction toks with
  | nil =>
    intro _
    refine ⟨by simp [runGo], ?_⟩
    intro s n held hs hsh hh q hq hf
    simp only [runGo, List.mem_cons, List.mem_reverse] at hq
    rcases hq with rfl | hq
    · intro m hm
      simp only [spacesCfg, Kind.space.injEq] at hm
      subst hm; exact hsh
    · rw [hh q hq] at hf; cases hf
  | cons c r ih =>
    intro hall
    obtain ⟨ih1, ih2⟩ := ih (fun t ht => hall t (List.mem_cons_of_mem _ ht))
    have hc := hall c (by simp)
    have emit : ∀ (s : Span) (n : Nat) (held : List (Tok × Bool)), SpanShape src s n → (∀ q ∈ held, q.2 = true) →
        ∀ q ∈ (⟨s, spacesCfg.mkKind n⟩, false) :: (held.reverse ++ (c, false) :: runGo spacesCfg .scan r),
          q.2 = false → SpOK src q.1 := by
      intro s n held hsh hh q hq hf
      simp only [List.mem_cons, List.mem_append, List.mem_reverse] at hq
      rcases hq with rfl | hq | rfl | hq
      · intro m hm
        simp only [spacesCfg, Kind.space.injEq] at hm
        subst hm; exact hsh
      · rw [hh q hq] at hf; cases hf
      · exact hc.2
      · exact ih1 q hq hf
    refine ⟨?_, ?_⟩
    · intro q hq hf
      simp only [runGo] at hq
      split at hq
      · rename_i n hn
        have hk : c.kind = .space n := spaces_sel_some hn
        exact ih2 c.span n [] hc.1 (hc.2 n hk) (by simp) q hq hf
      · rcases List.mem_cons.mp hq with rfl | hq
        · exact hc.2
        · exact ih1 q hq hf
    · intro s n held hs hsh hh q hq hf
      simp only [runGo] at hq
      split at hq
      · exact emit s n held hsh hh q hq hf
      · rename_i hcond
        split at hq
        · rename_i m hm
          have hk : c.kind = .space m := spaces_sel_some hm
          have hadj : s.stop = c.span.start := by
            simp only [spacesCfg, Bool.true_and, bne_iff_ne, ne_eq, Decidable.not_not] at hcond
            exact hcond
          exact ih2 ⟨s.start, c.span.stop⟩ (n + m) ((c, true) :: held) (by simp; omega)
            (spanShape_merge src s c.span n m hs hc.1 hadj hsh (hc.2 m hk))
            (by
              intro q' hq'
              rcases List.mem_cons.mp hq' with rfl | hq'
              · rfl
              · exact hh q' hq') q hq hf
        · exact emit s n held hsh hh q hq hf

theorem condenseSpaces_shape (src : List Char) (toks : List Tok)
    (h : ∀ t ∈ toks, t.span.start ≤ t.span.stop ∧ SpOK src t) : ∀ t ∈ condenseSpaces toks, SpOK src t := by
  intro t ht
  unfold condenseSpaces at ht
  rw [dropFlagged_eq] at ht
  exact (runGo_spaces_shape src toks h).1 _ (mem_unflag _ _ ht) rfl

/-- the lexer's `Space` tokens have the shape, and its `Number` tokens carry no suffix -/
theorem parseLoop_shape (cls : Cls) (ext : Ext) (P : List Char) : ∀ (fuel cursor : Nat) (rest : List Char) (toks : List Tok),
    P.drop cursor = rest → parseLoop cls ext fuel cursor rest = .ok toks →
    ∀ t ∈ toks, SpOK P t ∧ (∀ r s, t.kind = .number r s → s = none) := by
  intro fuel
  induction fuel with
  | zero => intro cursor rest toks _ h; cases h
  | succ fuel ih =>
    intro cursor rest toks hsrc h
    cases rest with
    | nil => simp only [parseLoop] at h; cases h; simp
    | cons c cs =>
      simp only [parseLoop] at h
      cases hl : lexToken cls ext cursor (c :: cs) with
      | none => rw [hl] at h; cases h
      | some kn =>
        obtain ⟨k, n⟩ := kn
        rw [hl] at h
        simp only at h
        cases hp : parseLoop cls ext fuel (cursor + n) ((c :: cs).drop n) with
        | error e => rw [hp] at h; cases h
        | ok ts =>
          rw [hp] at h
          cases h
          intro t ht
          rcases List.mem_cons.mp ht with rfl | ht
          · obtain ⟨h1, h2⟩ := lexToken_space_number cls ext cursor _ k n hl
            refine ⟨?_, h2⟩
            intro m hm
            have := blankRun_shape _ m (h1 m hm)
            unfold SpanShape
            simp only [hsrc, show cursor + n - cursor = n by omega]
            exact this
          · exact ih (cursor + n) _ ts (by rw [← hsrc, List.drop_drop]) hp t ht

end Harper

namespace Harper

/-! # `condense_number_suffixes`: where its tokens come from -/

/-- `t` is `a` with the suffix found in the word `b` directly after it -/
def MergedAt (src : List Char) (l : List Tok) (t : Tok) : Prop :=
  ∃ pre a b post s, l = pre ++ a :: b :: post ∧ suffixHit src a b = .ok (some s) ∧
    t = ⟨⟨a.span.start, b.span.stop⟩, setSuffix s a.kind⟩

theorem MergedAt.cons {src : List Char} {l : List Tok} {t : Tok} (x : Tok) (h : MergedAt src l t) :
    MergedAt src (x :: l) t := by
  obtain ⟨pre, a, b, post, s, e, hh, ht⟩ := h
  exact ⟨x :: pre, a, b, post, s, by rw [e]; rfl, hh, ht⟩

theorem NS_mem (src : List Char) : ∀ (n : Nat) (l out : List Tok), l.length ≤ n → NS src l = .ok out →
    ∀ t ∈ out, t ∈ l ∨ MergedAt src l t := by
  intro n
  induction n with
  | zero =>
    intro l out h hns t ht
    have : l = [] := by cases l <;> simp_all
    subst this
    rw [NS_nil] at hns; cases hns; cases ht
  | succ n ih =>
    intro l out h hns t ht
    match l, h with
    | [], _ => rw [NS_nil] at hns; cases hns; cases ht
    | [a], _ => rw [NS_single] at hns; cases hns; exact Or.inl ht
    | a :: b :: rest, h =>
      cases hh : suffixHit src a b with
      | error e => rw [NS_cons_err _ _ _ _ e hh] at hns; cases hns
      | ok hit =>
        cases hit with
        | none =>
          rw [NS_cons_none _ _ _ _ hh] at hns
          cases ho : NS src (b :: rest) with
          | error e => rw [ho] at hns; cases hns
          | ok out' =>
            rw [ho] at hns; cases hns
            rcases List.mem_cons.mp ht with rfl | ht
            · exact Or.inl (by simp)
            · rcases ih (b :: rest) out' (by simp at h ⊢; omega) ho t ht with h' | h'
              · exact Or.inl (List.mem_cons_of_mem _ h')
              · exact Or.inr (h'.cons a)
        | some s =>
          rw [NS_cons_some _ _ _ _ s hh] at hns
          cases ho : NS src rest with
          | error e => rw [ho] at hns; cases hns
          | ok out' =>
            rw [ho] at hns; cases hns
            rcases List.mem_cons.mp ht with rfl | ht
            · exact Or.inr ⟨[], a, b, rest, s, rfl, hh, rfl⟩
            · rcases ih rest out' (by simp at h ⊢; omega) ho t ht with h' | h'
              · exact Or.inl (List.mem_cons_of_mem _ (List.mem_cons_of_mem _ h'))
              · exact Or.inr ((h'.cons b).cons a)

theorem suffixHit_number {src : List Char} {a b : Tok} {s : Suffix} (h : suffixHit src a b = .ok (some s)) :
    a.kind.isNumber = true := by
  unfold suffixHit at h
  split at h
  · rename_i hc; simp at hc; exact hc.1
  · cases h

theorem setSuffix_number {k : Kind} (h : k.isNumber = true) (s : Suffix) : ∃ r, setSuffix s k = .number r (some s) := by
  cases k <;> simp_all [Kind.isNumber, setSuffix]

theorem NS_keptOr (p : Kind → Bool) (hp : ∀ r s, p (.number r s) = false) (src : List Char) (l out : List Tok)
    (h : numberSuffixes src l = .ok out) : KeptOr p out l := by
  rw [numberSuffixes_eq_NS] at h
  intro t ht
  rcases NS_mem src l.length l out (Nat.le_refl _) h t ht with h' | ⟨pre, a, b, post, s, _, hh, rfl⟩
  · exact Or.inl h'
  · obtain ⟨r, e⟩ := setSuffix_number (suffixHit_number hh) s
    right; simp only [e]; exact hp r (some s)

/-! ## the suffix letters -/

/-- the last two characters under the token spell the suffix (one of the rows of `from_chars`) -/
def SuffixSpelled (src : List Char) (sp : Span) (s : Suffix) : Prop :=
  ∃ pre c1 c2, (src.drop sp.start).take (sp.stop - sp.start) = pre ++ [c1, c2] ∧ fromCharsRow c1 c2 = some s

def NumOK (src : List Char) (t : Tok) : Prop := ∀ r s, t.kind = .number r (some s) → SuffixSpelled src t.span s

theorem suffixHit_spelled (src : List Char) (a b : Tok) (s : Suffix) (h : suffixHit src a b = .ok (some s)) :
    b.span.start ≤ b.span.stop ∧ SuffixSpelled src b.span s := by
  unfold suffixHit at h
  split at h
  · split at h
    · cases h
    · rename_i hle
      split at h
      · cases h
      · rename_i hlen
        simp only [Span.len, bne_iff_ne, ne_eq, Decidable.not_not] at hlen
        cases hg : b.span.getContent src with
        | error e => rw [hg] at h; cases h
        | ok cs =>
          rw [hg] at h
          simp only at h
          refine ⟨by omega, ?_⟩
          have hcs : (src.drop b.span.start).take (b.span.stop - b.span.start) = cs := by
            unfold Span.getContent at hg
            rw [if_neg (by omega)] at hg
            split at hg
            · split at hg
              · rename_i he; simp only [beq_iff_eq] at he; omega
              · cases hg
            · cases hg; rfl
          unfold SuffixSpelled
          rw [hcs]
          have hlen2 : cs.length ≤ 2 := by rw [← hcs]; simp; omega
          unfold fromChars at h
          split at h
          · cases h
          · match cs, h, hlen2 with
            | [c1, c2], h, _ =>
              simp only [Except.ok.injEq] at h
              exact ⟨[], c1, c2, by simp, h⟩
            | c1 :: c2 :: c3 :: rest, _, hl => simp at hl
            | [], h, _ => cases h
            | [_], h, _ => cases h
  · cases h

theorem NS_numOK (src : List Char) (l out : List Tok) (p q : Nat) (hT : Tiles l p q)
    (hl : ∀ t ∈ l, NumOK src t) (h : numberSuffixes src l = .ok out) : ∀ t ∈ out, NumOK src t := by
  rw [numberSuffixes_eq_NS] at h
  intro t ht
  rcases NS_mem src l.length l out (Nat.le_refl _) h t ht with h' | ⟨pre, a, b, post, s, e, hh, rfl⟩
  · exact hl t h'
  · intro r s' hk
    obtain ⟨r', er⟩ := setSuffix_number (suffixHit_number hh) s
    simp only [er, Kind.number.injEq, Option.some.injEq] at hk
    obtain ⟨_, rfl⟩ := hk
    obtain ⟨hb, pre', c1, c2, hc, hrow⟩ := suffixHit_spelled src a b s hh
    -- `a` and `b` are adjacent in the text
    rw [e] at hT
    obtain ⟨m, _, hT2⟩ := hT.of_append
    obtain ⟨a1, a2, b1, _, _⟩ := hT2
    refine ⟨(src.drop a.span.start).take (a.span.stop - a.span.start) ++ pre', c1, c2, ?_, hrow⟩
    simp only
    rw [span_concat src a.span.start a.span.stop b.span.stop (by omega) (by omega), ← b1, hc]
    simp

end Harper

namespace Harper

/-! # the shape facts for a whole `Document` -/

theorem spOK_of_not_space {src : List Char} {t : Tok} (h : t.kind.isSpace = false) : SpOK src t := by
  intro m hm; rw [hm] at h; cases h

theorem numOK_of_not_number {src : List Char} {t : Tok} (h : t.kind.isNumber = false) : NumOK src t := by
  intro r s hk; rw [hk] at h; cases h

/-- both shape invariants -/
def ShapeOK (src : List Char) (l : List Tok) : Prop := ∀ t ∈ l, SpOK src t ∧ NumOK src t

theorem ShapeOK.of_keptOr {src : List Char} {out inp : List Tok} (h : ShapeOK src inp)
    (h1 : KeptOr Kind.isSpace out inp) (h2 : KeptOr Kind.isNumber out inp) : ShapeOK src out := by
  intro t ht
  constructor
  · rcases h1 t ht with h' | h'
    · exact (h t h').1
    · exact spOK_of_not_space h'
  · rcases h2 t ht with h' | h'
    · exact (h t h').2
    · exact numOK_of_not_number h'

theorem word_not_space {k : Kind} (h : k.isWord = true) : k.isSpace = false := by
  cases k <;> simp_all [Kind.isWord, Kind.isSpace]
theorem word_not_number {k : Kind} (h : k.isWord = true) : k.isNumber = false := by
  cases k <;> simp_all [Kind.isWord, Kind.isNumber]
theorem period_not_space {k : Kind} (h : k.isPeriod = true) : k.isSpace = false := by
  cases k <;> simp_all [Kind.isPeriod, Kind.isSpace]
theorem period_not_number {k : Kind} (h : k.isPeriod = true) : k.isNumber = false := by
  cases k <;> simp_all [Kind.isPeriod, Kind.isNumber]

theorem tiles_lt {toks : List Tok} {p q : Nat} (h : Tiles toks p q) : ∀ t ∈ toks, t.span.start < t.span.stop := by
  induction toks generalizing p with
  | nil => simp
  | cons a ts ih =>
    obtain ⟨h1, h2, hr⟩ := h
    intro t ht
    rcases List.mem_cons.mp ht with rfl | ht
    · omega
    · exact ih hr t ht

theorem document_shape (cls : Cls) (ext : Ext) (src : List Char) (hext : ExtOK ext src.length) (out : List Tok)
    (h : document cls ext src = .ok out) : ShapeOK src out := by
  obtain ⟨t0, e0, hT0, _⟩ := parseLoop_tiles cls ext src.length hext (src.length + 1) 0 src (by omega) (by omega)
  have e0' : parsePlain cls ext src = .ok t0 := e0
  have hs0 : ShapeOK src t0 := by
    intro t ht
    obtain ⟨h1, h2⟩ := parseLoop_shape cls ext src _ 0 src t0 rfl e0 t ht
    exact ⟨h1, fun r s hk => by have := h2 r (some s) hk; cases this⟩
  rw [document_eq cls ext src t0 e0', prePasses_eq] at h
  -- passes 1–3
  have hT1 := condenseSpaces_tiles' _ _ _ hT0
  have hs1 : ShapeOK src (condenseSpaces t0) := by
    intro t ht
    refine ⟨condenseSpaces_shape src t0 (fun u hu => ?_) t ht, ?_⟩
    · have := tiles_lt hT0 u hu
      exact ⟨by omega, (hs0 u hu).1⟩
    · rcases condenseSpaces_keptOr Kind.isNumber (fun _ => rfl) t0 t ht with h' | h'
      · exact (hs0 t h').2
      · exact numOK_of_not_number h'
  have hT2 := condenseNewlines_tiles' _ _ _ hT1
  have hs2 := hs1.of_keptOr (condenseNewlines_keptOr _ (fun _ => rfl) _) (condenseNewlines_keptOr _ (fun _ => rfl) _)
  have hT3 := newlinesToBreaks_tiles' _ _ _ hT2
  have hs3 := hs2.of_keptOr (newlinesToBreaks_keptOr _ rfl _) (newlinesToBreaks_keptOr _ rfl _)
  change Except.map matchQuotes (passes48 src (newlinesToBreaks (condenseNewlines (condenseSpaces t0)))) = _ at h
  generalize newlinesToBreaks (condenseNewlines (condenseSpaces t0)) = t3 at h hT3 hs3
  unfold passes48 at h
  -- contractions
  obtain ⟨t4, e4, hT4⟩ := condenseContractions_tiles' src t3 0 src.length hT3
  rw [e4] at h
  simp only at h
  have hs4 := hs3.of_keptOr
    (condensePattern_keptOr Kind.isSpace contractionPat id (fun _ hk => hk) src t3 t4
      (fun k n hm hn => by obtain ⟨t, r, e, hw⟩ := contraction_head src _ n hm hn; exact ⟨t, r, e, word_not_space hw⟩) e4)
    (condensePattern_keptOr Kind.isNumber contractionPat id (fun _ hk => hk) src t3 t4
      (fun k n hm hn => by obtain ⟨t, r, e, hw⟩ := contraction_head src _ n hm hn; exact ⟨t, r, e, word_not_number hw⟩) e4)
  -- initialisms
  have hT5 := dottedInitialisms_tiles' _ _ _ hT4
  have hs5 := hs4.of_keptOr (dottedInitialisms_keptOr _ (fun _ hk => word_not_space hk) _)
    (dottedInitialisms_keptOr _ (fun _ hk => word_not_number hk) _)
  -- number suffixes
  obtain ⟨t6, e6, hT6⟩ := numberSuffixes_tiles' src _ 0 src.length hT5 (Nat.le_refl _)
  rw [e6] at h
  simp only at h
  have hs6 : ShapeOK src t6 := by
    intro t ht
    constructor
    · rcases NS_keptOr Kind.isSpace (fun _ _ => rfl) src _ t6 e6 t ht with h' | h'
      · exact (hs5 t h').1
      · exact spOK_of_not_space h'
    · exact NS_numOK src _ t6 0 src.length hT5 (fun u hu => (hs5 u hu).2) e6 t ht
  -- ellipsis
  obtain ⟨t7, e7, hT7⟩ := condenseEllipsis_tiles' src t6 0 src.length hT6
  rw [e7] at h
  simp only at h
  have hs7 := hs6.of_keptOr
    (condensePattern_keptOr Kind.isSpace ellipsisPat _ (fun _ _ => rfl) src t6 t7
      (fun k n hm hn => by obtain ⟨t, r, e, hw⟩ := ellipsis_head src _ n hm hn; exact ⟨t, r, e, period_not_space hw⟩) e7)
    (condensePattern_keptOr Kind.isNumber ellipsisPat _ (fun _ _ => rfl) src t6 t7
      (fun k n hm hn => by obtain ⟨t, r, e, hw⟩ := ellipsis_head src _ n hm hn; exact ⟨t, r, e, period_not_number hw⟩) e7)
  -- latin
  obtain ⟨t8, e8, hT8⟩ := condenseLatin_tiles' src t7 0 src.length hT7 (Nat.le_refl _)
  have hin7 : InB src t7 := hT7.inB (Nat.le_refl _)
  have hdrop : ∀ k, InB src (t7.drop k) := fun k x hx => hin7 x (List.mem_of_mem_drop hx)
  have e8' : condenseLatin src t7 = .ok t8 := e8
  rw [e8'] at h
  simp only [Except.map, Except.ok.injEq] at h
  have hs8 := hs7.of_keptOr
    (condensePattern_keptOr Kind.isSpace latinPat id (fun _ hk => hk) src t7 t8
      (fun k n hm hn => by obtain ⟨t, r, e, hw⟩ := latin_head src _ (hdrop k) n hm hn; exact ⟨t, r, e, word_not_space hw⟩) e8)
    (condensePattern_keptOr Kind.isNumber latinPat id (fun _ hk => hk) src t7 t8
      (fun k n hm hn => by obtain ⟨t, r, e, hw⟩ := latin_head src _ (hdrop k) n hm hn; exact ⟨t, r, e, word_not_number hw⟩) e8)
  rw [← h]
  exact hs8.of_keptOr (matchQuotes_keptOr _ (fun _ => rfl) _) (matchQuotes_keptOr _ (fun _ => rfl) _)

end Harper
