import Harper.Lemmas.Lex
/-! The parse loop: totality and tiling. -/
namespace Harper

theorem catch_in_order : LexerName.lex_catch ∈ Tables.lexerOrder := by decide

theorem lexToken_progress (cls : Cls) (ext : Ext) (pos : Nat) (src : List Char) (len : Nat)
    (hext : ExtOK ext len) (hlen : pos + src.length = len) (hne : src ≠ []) :
    ∃ k n, lexToken cls ext pos src = some (k, n) ∧ 1 ≤ n ∧ n ≤ src.length := by
  obtain ⟨⟨k, n⟩, hf⟩ := firstFound_some_of_catch cls ext pos src _ catch_in_order
  refine ⟨k, n, hf, ?_⟩
  exact firstFound_ok cls ext pos src len hext hlen hne _ k n hf

theorem parseLoop_tiles (cls : Cls) (ext : Ext) (len : Nat) (hext : ExtOK ext len)
    (fuel cursor : Nat) (rest : List Char)
    (hf : rest.length < fuel) (hlen : cursor + rest.length = len) :
    ∃ toks, parseLoop cls ext fuel cursor rest = .ok toks ∧ Tiles toks cursor len ∧
      toks.length ≤ rest.length := by
  induction fuel generalizing cursor rest with
  | zero => omega
  | succ fuel ih =>
    unfold parseLoop
    cases rest with
    | nil => exact ⟨[], rfl, by simpa [Tiles] using hlen, by simp⟩
    | cons c cs =>
      obtain ⟨k, n, hl, h1, h2⟩ :=
        lexToken_progress cls ext cursor (c :: cs) len hext hlen (by simp)
      simp only [hl]
      have hdl : ((c :: cs).drop n).length = (c :: cs).length - n := List.length_drop
      obtain ⟨ts, hts, htile, hcount⟩ := ih (cursor + n) ((c :: cs).drop n)
        (by rw [hdl]; simp at hf h2 ⊢; omega) (by rw [hdl]; simp at h2 hlen ⊢; omega)
      rw [hts]
      refine ⟨_, rfl, ?_, ?_⟩
      · exact ⟨rfl, by simp; omega, htile⟩
      · rw [hdl] at hcount; simp at hcount h2 ⊢; omega

end Harper
