import Harper.Model.SpellRule
import Harper.Lemmas.Rules
import Harper.Lemmas.LintGroup
import Harper.Lemmas.Leaves
/-!
Lemmas for `Model/SpellRule.lean`: the rule per token (total, local, where its lint lies), the word cache (invariant, transparency
for any key the suggestions factor through), the composition with `Model/Spell.lean`.
-/
namespace Harper.SpellRule
open Harper Harper.Rules Harper.Leaves Harper.LG

/-! ## the rule without a cache -/

/-- the uncached search never panics on a word the rule flags (C15's subject: every fuzzy result is a dictionary word) -/
def SuggestOK (senv : SpellEnv) : Prop := ∀ w, accepted (senv.data w) = false → (senv.data w).suggest ≠ none

theorem postProcess_length (senv : SpellEnv) (w : List Char) (sg : List (List Char)) : (postProcess senv w sg).length ≤ 3 := by
  unfold postProcess
  cases w with
  | nil => simp only [List.length_take]; omega
  | cons c cs =>
    simp only []
    split
    · simp only [List.length_map, List.length_take]; omega
    · simp only [List.length_take]; omega

/-- what one token yields: nothing, or one lint on exactly its span with at most three `ReplaceWith` suggestions -/
theorem spellTok_shape (senv : SpellEnv) (src : List Char) (t : Tok) (ls : List RuleLint) (h : spellTok senv src t = .ok ls) :
    ∀ l ∈ ls, t.kind.isWord = true ∧ l.span = t.span ∧ l.suggs.length ≤ 3 ∧ (∀ s ∈ l.suggs, ∃ cs, s = .replaceWith cs) ∧ l.msg = 60 := by
  simp only [spellTok] at h
  split at h
  · cases h; intro l hl; cases hl
  · rename_i hw
    cases hc : t.span.getContent src with
    | error e => rw [hc] at h; cases h
    | ok w =>
      rw [hc] at h
      simp only [] at h
      split at h
      · cases h; intro l hl; cases hl
      · cases hs : (senv.data w).suggest with
        | none => rw [hs] at h; cases h
        | some sg =>
          rw [hs] at h
          cases h
          intro l hl
          simp only [List.mem_singleton] at hl
          subst hl
          refine ⟨by simpa using hw, rfl, ?_, ?_, rfl⟩
          · simp only [spellLintOf, List.length_map]; exact postProcess_length senv w sg
          · intro s hs'
            simp only [spellLintOf, List.mem_map] at hs'
            obtain ⟨cs, _, rfl⟩ := hs'
            exact ⟨cs, rfl⟩

theorem spellTok_ok (senv : SpellEnv) (hs : SuggestOK senv) (src : List Char) (t : Tok) (ht : TokIn src t) :
    ∃ ls, spellTok senv src t = .ok ls ∧ ∀ l ∈ ls, LintOK src.length l := by
  simp only [spellTok, getContent_textOf src t ht]
  split
  · exact ⟨[], rfl, by simp⟩
  · split
    · exact ⟨[], rfl, by simp⟩
    · rename_i hacc
      cases hsg : (senv.data (textOf src t.span)).suggest with
      | none => exact absurd hsg (hs _ (by simpa using hacc))
      | some sg =>
        refine ⟨_, rfl, ?_⟩
        intro l hl
        simp only [List.mem_singleton] at hl
        subst hl
        exact ht

theorem spellTok_tokLocal (senv : SpellEnv) : TokLocal (spellTok senv) where
  left := by
    intro P D t _ h
    simp only [spellTok, getContent_left' P D t.span h]
  right := by
    intro P D t j _
    simp only [spellTok, shTok_kind, isWord_shiftTwin, shTok_span, getContent_shift']
    split
    · rfl
    · cases t.span.getContent D with
      | error e => rfl
      | ok w =>
        simp only []
        split
        · rfl
        · cases (senv.data w).suggest with
          | none => rfl
          | some sg => rfl

/-! ## the word cache -/

/-- the suggestions are a function of the cache key -/
def KeySound (senv : SpellEnv) (key : List Char → List Char) : Prop :=
  ∀ w w', key w = key w' → (senv.data w).suggest = (senv.data w').suggest

/-- **the cache invariant**: every entry holds what the uncached search returns for every word with that key — i.e. the cache
only holds entries produced by this rule for this dictionary -/
def KeyInv (senv : SpellEnv) (key : List Char → List Char) (st : WordCache) : Prop :=
  ∀ e ∈ st, ∀ w, key w = e.1 → (senv.data w).suggest = some e.2

/-- the code's cache (keyed by the word itself) -/
def CacheInv (senv : SpellEnv) (st : WordCache) : Prop := ∀ e ∈ st, (senv.data e.1).suggest = some e.2

theorem keyInv_id (senv : SpellEnv) (st : WordCache) : KeyInv senv id st ↔ CacheInv senv st :=
  ⟨fun h e he => h e he e.1 rfl, fun h e he w hw => by simp only [id] at hw; subst hw; exact h e he⟩

theorem keySound_id (senv : SpellEnv) : KeySound senv id := fun w w' h => by simp only [id] at h; rw [h]

theorem keyInv_nil (senv : SpellEnv) (key : List Char → List Char) : KeyInv senv key [] := fun e he => by cases he

theorem find_mem {K V} [DecidableEq K] : ∀ (l : Lru K V) (k : K) (v : V), Lru.find k l = some v → (k, v) ∈ l
  | [], _, _, h => by cases h
  | (k', v') :: r, k, v, h => by
    unfold Lru.find at h
    by_cases hk : k = k'
    · subst hk
      simp only [if_true, Option.some.injEq] at h
      subst h
      simp
    · simp only [hk, if_false] at h
      exact List.mem_cons_of_mem _ (find_mem r k v h)

theorem keyInv_sublist {senv : SpellEnv} {key : List Char → List Char} {st st' : WordCache} (hs : st'.Sublist st)
    (h : KeyInv senv key st) : KeyInv senv key st' := fun e he => h e (hs.subset he)

/-- **one memoised call**: the answer is the uncached one, the invariant is kept — for any capacity -/
theorem cachedSuggest_spec (senv : SpellEnv) (key : List Char → List Char) (hk : KeySound senv key) (cap : Nat) (w : List Char)
    (st : WordCache) (hi : KeyInv senv key st) :
    (cachedSuggest senv key cap w st).1 = (match (senv.data w).suggest with | none => .error .unwrapNone | some v => .ok v) ∧
      KeyInv senv key (cachedSuggest senv key cap w st).2 := by
  unfold cachedSuggest Lru.get
  cases hf : Lru.find (key w) st with
  | some v =>
    have hv : (senv.data w).suggest = some v := hi (key w, v) (find_mem st _ v hf) w rfl
    refine ⟨by simp only [hv], ?_⟩
    intro e he w' hw'
    rcases List.mem_cons.mp he with rfl | he
    · rw [← hv]; exact hk w' w hw'
    · exact keyInv_sublist (List.filter_sublist) hi e he w' hw'
  | none =>
    simp only []
    cases hs : (senv.data w).suggest with
    | none => exact ⟨rfl, hi⟩
    | some v =>
      refine ⟨rfl, ?_⟩
      intro e he w' hw'
      rcases List.mem_cons.mp he with rfl | he
      · rw [← hs]; exact hk w' w hw'
      · exact keyInv_sublist ((List.take_sublist _ _).trans List.filter_sublist) hi e he w' hw'

/-- **the word cache is transparent**: whatever state (satisfying the invariant) and capacity the instance has, `lint` returns what
the cache-less rule returns — lints and panics — and leaves a cache that satisfies the invariant -/
theorem spellGo_spec (senv : SpellEnv) (key : List Char → List Char) (hk : KeySound senv key) (cap : Nat) (src : List Char) :
    ∀ (toks : List Tok) (st : WordCache), KeyInv senv key st →
      (spellGo senv key cap src st toks).1 = ruleSpellCheck senv src toks ∧ KeyInv senv key (spellGo senv key cap src st toks).2
  | [], st, hi => ⟨rfl, hi⟩
  | t :: ts, st, hi => by
    simp only [spellGo, ruleSpellCheck, perTok, collectE, spellTok]
    by_cases hw : t.kind.isWord = true
    · simp only [hw, Bool.not_true, Bool.false_eq_true, if_false]
      cases hc : t.span.getContent src with
      | error e => exact ⟨rfl, hi⟩
      | ok w =>
        simp only []
        by_cases ha : accepted (senv.data w) = true
        · simp only [ha, if_true]
          have ih := spellGo_spec senv key hk cap src ts st hi
          refine ⟨?_, ih.2⟩
          rw [ih.1]
          simp only [ruleSpellCheck, perTok]
          cases collectE (spellTok senv src) ts <;> rfl
        · simp only [ha, Bool.false_eq_true, if_false]
          have hcs := cachedSuggest_spec senv key hk cap w st hi
          cases hsg : (senv.data w).suggest with
          | none =>
            rw [hsg] at hcs
            cases hr : cachedSuggest senv key cap w st with
            | mk r st1 =>
              rw [hr] at hcs
              simp only [] at hcs
              obtain ⟨h1, h2⟩ := hcs
              subst h1
              exact ⟨rfl, h2⟩
          | some sg =>
            rw [hsg] at hcs
            cases hr : cachedSuggest senv key cap w st with
            | mk r st1 =>
              rw [hr] at hcs
              simp only [] at hcs
              obtain ⟨h1, h2⟩ := hcs
              subst h1
              have ih := spellGo_spec senv key hk cap src ts st1 h2
              refine ⟨?_, ih.2⟩
              simp only []
              rw [ih.1]
              simp only [ruleSpellCheck, perTok]
              cases collectE (spellTok senv src) ts <;> rfl
    · have hw' : t.kind.isWord = false := by simpa using hw
      simp only [hw', Bool.not_false, if_true]
      have ih := spellGo_spec senv key hk cap src ts st hi
      refine ⟨?_, ih.2⟩
      rw [ih.1]
      simp only [ruleSpellCheck, perTok]
      cases collectE (spellTok senv src) ts <;> rfl

/-- a long-lived instance reports on every document what the cache-less rule reports -/
theorem spellSession_spec (senv : SpellEnv) (key : List Char → List Char) (hk : KeySound senv key) (cap : Nat) :
    ∀ (docs : List (List Char × List Tok)) (st : WordCache), KeyInv senv key st →
      spellSession senv key cap st docs = docs.map fun d => ruleSpellCheck senv d.1 d.2
  | [], _, _ => rfl
  | d :: ds, st, hi => by
    have h := spellGo_spec senv key hk cap d.1 d.2 st hi
    simp only [spellSession, List.map_cons, h.1, spellSession_spec senv key hk cap ds _ h.2]

/-! ## composition with `Model/Spell.lean` (C06) -/

/-- the `WordData` of a word when the dictionary is a `Spell` dictionary -/
def dataOf (f : Spell.Fns) (dict : List Spell.Entry) (sugg : List Char → Option (List (List Char))) (w : List Char) : WordData where
  known := (Spell.lookup f dict w).isSome
  dialectOk := match Spell.lookup f dict w with | some e => e.dialectOk | none => false
  exact := Spell.containsExact f dict w
  exactLower := Spell.containsExact f dict (f.lower w)
  suggest := sugg w

/-- the rule's `continue` condition IS `Spell.accept` (C06's subject) -/
theorem accepted_dataOf (f : Spell.Fns) (dict : List Spell.Entry) (sugg : List Char → Option (List (List Char))) (w : List Char) :
    accepted (dataOf f dict sugg w) = Spell.accept f dict w := by
  simp only [accepted, dataOf, Spell.accept]
  cases Spell.lookup f dict w with
  | none => rfl
  | some e => simp

/-- the rule's post-processing IS `Spell.suggestions` after its dialect filter -/
theorem postProcess_eq_suggestions (senv : SpellEnv) (f : Spell.Fns) (dict : List Spell.Entry) (fuzzy : List (List Char))
    (w : List Char) :
    postProcess senv w (fuzzy.filter fun s => match Spell.lookup f dict s with | some e => e.dialectOk | none => false) =
      Spell.suggestions f dict fuzzy (match w with | c :: _ => senv.isUpper c | [] => false) (capitaliseFirst senv.upperFirst) := by
  cases w with
  | nil =>
    simp only [postProcess, Spell.suggestions, Bool.false_eq_true, if_false]
    congr 1
  | cons c cs =>
    simp only [postProcess, Spell.suggestions]
    split
    · congr 2
    · congr 1


/-! ## w26: the loop reports EXACTLY the word tokens its `continue` condition does not accept (C06 at sentence level)

`SpellCheck::lint` is `for word in document.iter_words() { if accepted { continue }; … lints.push(Lint { span: word.span, .. }) }`:
one lint per word token that is not accepted, on that token's span, in token order, nothing else. -/

/-- the rule's own test for one token lying inside the text: a word token whose characters the `continue` condition rejects -/
def flagged (senv : SpellEnv) (src : List Char) (t : Tok) : Bool :=
  t.kind.isWord && !accepted (senv.data (textOf src t.span))

/-- the lint the loop body pushes for a flagged token (`[]` stands for a search result that is never looked at: the search of a
flagged word that panics ends the run) -/
def lintAt (senv : SpellEnv) (src : List Char) (t : Tok) : RuleLint :=
  spellLintOf senv t.span (textOf src t.span) (((senv.data (textOf src t.span)).suggest).getD [])

theorem lintAt_span (senv : SpellEnv) (src : List Char) (t : Tok) : (lintAt senv src t).span = t.span := rfl

/-- the loop body for a token inside the text, as one equation -/
theorem spellTok_eq (senv : SpellEnv) (src : List Char) (t : Tok) (ht : TokIn src t) :
    spellTok senv src t =
      if flagged senv src t = true then
        (match (senv.data (textOf src t.span)).suggest with
         | none => .error .unwrapNone
         | some _ => .ok [lintAt senv src t])
      else .ok [] := by
  simp only [spellTok, getContent_textOf src t ht, flagged, lintAt]
  by_cases hw : t.kind.isWord = true
  · by_cases ha : accepted (senv.data (textOf src t.span)) = true
    · simp [hw, ha]
    · have ha' : accepted (senv.data (textOf src t.span)) = false := by simpa using ha
      simp only [hw, ha', Bool.not_true, Bool.false_eq_true, if_false, Bool.not_false, Bool.and_self, if_true]
      cases (senv.data (textOf src t.span)).suggest <;> rfl
  · have hw' : t.kind.isWord = false := by simpa using hw
    simp [hw']

/-- **the whole run, without any hypothesis on the dictionary**: on tokens inside the text the rule either returns, in token
order, exactly the lints of the flagged tokens (and then the search of every flagged word returned), or it panics with the
`unwrap` of the search of some flagged word -/
theorem ruleSpellCheck_cases (senv : SpellEnv) (src : List Char) : ∀ (toks : List Tok), InText src toks →
    (ruleSpellCheck senv src toks = .ok ((toks.filter (flagged senv src)).map (lintAt senv src)) ∧
      ∀ t ∈ toks, flagged senv src t = true → (senv.data (textOf src t.span)).suggest ≠ none) ∨
    (ruleSpellCheck senv src toks = .error .unwrapNone ∧
      ∃ t ∈ toks, flagged senv src t = true ∧ (senv.data (textOf src t.span)).suggest = none)
  | [], _ => Or.inl ⟨rfl, fun t ht => by cases ht⟩
  | t :: ts, h => by
    have ht := h t (List.mem_cons_self ..)
    have ih := ruleSpellCheck_cases senv src ts (fun x hx => h x (List.mem_cons_of_mem _ hx))
    simp only [ruleSpellCheck, perTok, collectE] at ih ⊢
    rw [spellTok_eq senv src t ht]
    by_cases hf : flagged senv src t = true
    · simp only [hf, if_true]
      cases hs : (senv.data (textOf src t.span)).suggest with
      | none => exact Or.inr ⟨rfl, t, List.mem_cons_self .., hf, hs⟩
      | some sg =>
        simp only []
        rcases ih with ⟨e, hall⟩ | ⟨e, x, hx, hfx, hsx⟩
        · refine Or.inl ⟨by rw [e]; simp only [List.filter_cons_of_pos hf, List.map_cons, List.singleton_append], ?_⟩
          intro x hx hfx
          rcases List.mem_cons.mp hx with rfl | hx
          · rw [hs]; exact Option.some_ne_none _
          · exact hall x hx hfx
        · exact Or.inr ⟨by rw [e], x, List.mem_cons_of_mem _ hx, hfx, hsx⟩
    · have hf' : flagged senv src t = false := by simpa using hf
      simp only [hf', Bool.false_eq_true, if_false]
      rcases ih with ⟨e, hall⟩ | ⟨e, x, hx, hfx, hsx⟩
      · refine Or.inl ⟨by rw [e]; simp only [List.filter_cons_of_neg hf, List.nil_append], ?_⟩
        intro x hx hfx
        rcases List.mem_cons.mp hx with rfl | hx
        · exact absurd hfx hf
        · exact hall x hx hfx
      · exact Or.inr ⟨by rw [e], x, List.mem_cons_of_mem _ hx, hfx, hsx⟩

/-- when the uncached search never panics on a flagged word: the result, as an equation -/
theorem ruleSpellCheck_eq (senv : SpellEnv) (hs : SuggestOK senv) (src : List Char) (toks : List Tok) (h : InText src toks) :
    ruleSpellCheck senv src toks = .ok ((toks.filter (flagged senv src)).map (lintAt senv src)) := by
  rcases ruleSpellCheck_cases senv src toks h with ⟨e, _⟩ | ⟨_, t, _, hf, hn⟩
  · exact e
  · simp only [flagged, Bool.and_eq_true, Bool.not_eq_true'] at hf
    exact absurd hn (hs _ hf.2)

/-- a run that returned, returned exactly the lints of the flagged tokens -/
theorem ruleSpellCheck_eq_of_ok (senv : SpellEnv) (src : List Char) (toks : List Tok) (h : InText src toks) (ls : List RuleLint)
    (e : ruleSpellCheck senv src toks = .ok ls) : ls = (toks.filter (flagged senv src)).map (lintAt senv src) := by
  rcases ruleSpellCheck_cases senv src toks h with ⟨e', _⟩ | ⟨e', _⟩
  · rw [e'] at e; cases e; rfl
  · rw [e'] at e; cases e

/-! ### counting the lints on one span -/

/-- in a list of tokens with pairwise different spans, the sub-list picked by `p` holds exactly one token with the span of a
member `t` that `p` picks and none with the span of a member it does not pick -/
theorem count_span_filter (p : Tok → Bool) : ∀ (toks : List Tok), toks.Pairwise (fun a b => a.span ≠ b.span) → ∀ t ∈ toks,
    ((toks.filter p).filter (fun x => decide (x.span = t.span))).length = if p t = true then 1 else 0
  | [], _, t, ht => by cases ht
  | a :: r, hp, t, ht => by
    obtain ⟨h1, h2⟩ := List.pairwise_cons.mp hp
    rcases List.mem_cons.mp ht with rfl | ht'
    · have hr : (r.filter p).filter (fun x => decide (x.span = t.span)) = [] := by
        rw [List.filter_eq_nil_iff]
        intro x hx
        have := h1 x (List.mem_filter.mp hx).1
        simpa using fun e => this e.symm
      by_cases hpa : p t = true
      · rw [List.filter_cons_of_pos hpa, List.filter_cons_of_pos (by simp), hr, if_pos hpa]; rfl
      · rw [List.filter_cons_of_neg hpa, hr, if_neg hpa]; rfl
    · have ih := count_span_filter p r h2 t ht'
      have hne : a.span ≠ t.span := h1 t ht'
      by_cases hpa : p a = true
      · rw [List.filter_cons_of_pos hpa, List.filter_cons_of_neg (by simpa using hne)]; exact ih
      · rw [List.filter_cons_of_neg hpa]; exact ih

/-- the lints of the flagged tokens lying on a given span are as many as the flagged tokens with that span -/
theorem count_lints_on_span (senv : SpellEnv) (src : List Char) (toks : List Tok) (sp : Span) :
    (((toks.filter (flagged senv src)).map (lintAt senv src)).filter (fun l => decide (l.span = sp))).length =
      ((toks.filter (flagged senv src)).filter (fun t => decide (t.span = sp))).length := by
  rw [List.filter_map, List.length_map]
  rfl

/-- tokens that tile a stretch of text lie inside it, are not empty and have pairwise different spans -/
theorem tiles_spans_distinct : ∀ (toks : List Tok) (a b : Nat), Tiles toks a b →
    (∀ t ∈ toks, a ≤ t.span.start ∧ t.span.start < t.span.stop ∧ t.span.stop ≤ b) ∧
      toks.Pairwise (fun x y => x.span ≠ y.span)
  | [], _, _, _ => ⟨fun t ht => (by cases ht), List.Pairwise.nil⟩
  | t :: ts, a, b, h => by
    obtain ⟨h1, h2, h3⟩ := h
    obtain ⟨ih1, ih2⟩ := tiles_spans_distinct ts t.span.stop b h3
    have hle : t.span.stop ≤ b := by
      cases ts with
      | nil => exact Nat.le_of_eq h3
      | cons u us => have := ih1 u (List.mem_cons_self ..); omega
    refine ⟨?_, List.pairwise_cons.mpr ⟨?_, ih2⟩⟩
    · intro x hx
      rcases List.mem_cons.mp hx with rfl | hx
      · omega
      · have := ih1 x hx; omega
    · intro x hx e
      have := ih1 x hx
      rw [← e] at this
      omega

theorem inText_of_tiles (src : List Char) (toks : List Tok) (h : Tiles toks 0 src.length) : InText src toks := by
  intro t ht
  have := (tiles_spans_distinct toks 0 src.length h).1 t ht
  exact ⟨by omega, this.2.2⟩

/-! ### a `SpellEnv` whose accept / flag answers are those of a `Spell` dictionary -/

/-- the `continue` condition of `senv` is `Spell.accept` over `dict` for every word (whatever the suggestions are) -/
def FaithfulTo (senv : SpellEnv) (f : Spell.Fns) (dict : List Spell.Entry) : Prop :=
  ∀ w, accepted (senv.data w) = Spell.accept f dict w

/-- the `SpellEnv` built from a `Spell` dictionary (`dataOf`) is faithful to it -/
theorem faithfulTo_dataOf (f : Spell.Fns) (dict : List Spell.Entry) (sugg : List Char → Option (List (List Char)))
    (isUpper : Char → Bool) (up : Char → Char) : FaithfulTo ⟨dataOf f dict sugg, isUpper, up⟩ f dict :=
  fun w => accepted_dataOf f dict sugg w

/-- under `FaithfulTo` the rule's test on a token is `Spell.accept` on the token's characters -/
theorem flagged_faithful (senv : SpellEnv) (f : Spell.Fns) (dict : List Spell.Entry) (hf : FaithfulTo senv f dict)
    (src : List Char) (t : Tok) : flagged senv src t = (t.kind.isWord && !Spell.accept f dict (textOf src t.span)) := by
  simp only [flagged, hf _]

end Harper.SpellRule
