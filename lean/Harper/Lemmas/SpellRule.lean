import Harper.Model.SpellRule
import Harper.Lemmas.Rules
import Harper.Lemmas.LintGroup
import Harper.Lemmas.Leaves
/-!
Lemmas for `Model/SpellRule.lean`: the rule per token (total, local, where its lint lies), the word cache (invariant, transparency
for any key the suggestions factor through), the composition with `Model/Spell.lean`.
-/
namespace Harper.SpellRule
open Harper Harper.Rules Harper.Leaves Harper.LG

/-! ## the rule without a cache -/

/-- the uncached search never panics on a word the rule flags (C15's subject: every fuzzy result is a dictionary word) -/
def SuggestOK (senv : SpellEnv) : Prop := ∀ w, accepted (senv.data w) = false → (senv.data w).suggest ≠ none

theorem postProcess_length (senv : SpellEnv) (w : List Char) (sg : List (List Char)) : (postProcess senv w sg).length ≤ 3 := by
  unfold postProcess
  cases w with
  | nil => simp only [List.length_take]; omega
  | cons c cs =>
    simp only []
    split
    · simp only [List.length_map, List.length_take]; omega
    · simp only [List.length_take]; omega

/-- what one token yields: nothing, or one lint on exactly its span with at most three `ReplaceWith` suggestions -/
theorem spellTok_shape (senv : SpellEnv) (src : List Char) (t : Tok) (ls : List RuleLint) (h : spellTok senv src t = .ok ls) :
    ∀ l ∈ ls, t.kind.isWord = true ∧ l.span = t.span ∧ l.suggs.length ≤ 3 ∧ (∀ s ∈ l.suggs, ∃ cs, s = .replaceWith cs) ∧ l.msg = 60 := by
  simp only [spellTok] at h
  split at h
  · cases h; intro l hl; cases hl
  · rename_i hw
    cases hc : t.span.getContent src with
    | error e => rw [hc] at h; cases h
    | ok w =>
      rw [hc] at h
      simp only [] at h
      split at h
      · cases h; intro l hl; cases hl
      · cases hs : (senv.data w).suggest with
        | none => rw [hs] at h; cases h
        | some sg =>
          rw [hs] at h
          cases h
          intro l hl
          simp only [List.mem_singleton] at hl
          subst hl
          refine ⟨by simpa using hw, rfl, ?_, ?_, rfl⟩
          · simp only [spellLintOf, List.length_map]; exact postProcess_length senv w sg
          · intro s hs'
            simp only [spellLintOf, List.mem_map] at hs'
            obtain ⟨cs, _, rfl⟩ := hs'
            exact ⟨cs, rfl⟩

theorem spellTok_ok (senv : SpellEnv) (hs : SuggestOK senv) (src : List Char) (t : Tok) (ht : TokIn src t) :
    ∃ ls, spellTok senv src t = .ok ls ∧ ∀ l ∈ ls, LintOK src.length l := by
  simp only [spellTok, getContent_textOf src t ht]
  split
  · exact ⟨[], rfl, by simp⟩
  · split
    · exact ⟨[], rfl, by simp⟩
    · rename_i hacc
      cases hsg : (senv.data (textOf src t.span)).suggest with
      | none => exact absurd hsg (hs _ (by simpa using hacc))
      | some sg =>
        refine ⟨_, rfl, ?_⟩
        intro l hl
        simp only [List.mem_singleton] at hl
        subst hl
        exact ht

theorem spellTok_tokLocal (senv : SpellEnv) : TokLocal (spellTok senv) where
  left := by
    intro P D t _ h
    simp only [spellTok, getContent_left' P D t.span h]
  right := by
    intro P D t j _
    simp only [spellTok, shTok_kind, isWord_shiftTwin, shTok_span, getContent_shift']
    split
    · rfl
    · cases t.span.getContent D with
      | error e => rfl
      | ok w =>
        simp only []
        split
        · rfl
        · cases (senv.data w).suggest with
          | none => rfl
          | some sg => rfl

/-! ## the word cache -/

/-- the suggestions are a function of the cache key -/
def KeySound (senv : SpellEnv) (key : List Char → List Char) : Prop :=
  ∀ w w', key w = key w' → (senv.data w).suggest = (senv.data w').suggest

/-- **the cache invariant**: every entry holds what the uncached search returns for every word with that key — i.e. the cache
only holds entries produced by this rule for this dictionary -/
def KeyInv (senv : SpellEnv) (key : List Char → List Char) (st : WordCache) : Prop :=
  ∀ e ∈ st, ∀ w, key w = e.1 → (senv.data w).suggest = some e.2

/-- the code's cache (keyed by the word itself) -/
def CacheInv (senv : SpellEnv) (st : WordCache) : Prop := ∀ e ∈ st, (senv.data e.1).suggest = some e.2

theorem keyInv_id (senv : SpellEnv) (st : WordCache) : KeyInv senv id st ↔ CacheInv senv st :=
  ⟨fun h e he => h e he e.1 rfl, fun h e he w hw => by simp only [id] at hw; subst hw; exact h e he⟩

theorem keySound_id (senv : SpellEnv) : KeySound senv id := fun w w' h => by simp only [id] at h; rw [h]

theorem keyInv_nil (senv : SpellEnv) (key : List Char → List Char) : KeyInv senv key [] := fun e he => by cases he

theorem find_mem {K V} [DecidableEq K] : ∀ (l : Lru K V) (k : K) (v : V), Lru.find k l = some v → (k, v) ∈ l
  | [], _, _, h => by cases h
  | (k', v') :: r, k, v, h => by
    unfold Lru.find at h
    by_cases hk : k = k'
    · subst hk
      simp only [if_true, Option.some.injEq] at h
      subst h
      simp
    · simp only [hk, if_false] at h
      exact List.mem_cons_of_mem _ (find_mem r k v h)

theorem keyInv_sublist {senv : SpellEnv} {key : List Char → List Char} {st st' : WordCache} (hs : st'.Sublist st)
    (h : KeyInv senv key st) : KeyInv senv key st' := fun e he => h e (hs.subset he)

/-- **one memoised call**: the answer is the uncached one, the invariant is kept — for any capacity -/
theorem cachedSuggest_spec (senv : SpellEnv) (key : List Char → List Char) (hk : KeySound senv key) (cap : Nat) (w : List Char)
    (st : WordCache) (hi : KeyInv senv key st) :
    (cachedSuggest senv key cap w st).1 = (match (senv.data w).suggest with | none => .error .unwrapNone | some v => .ok v) ∧
      KeyInv senv key (cachedSuggest senv key cap w st).2 := by
  unfold cachedSuggest Lru.get
  cases hf : Lru.find (key w) st with
  | some v =>
    have hv : (senv.data w).suggest = some v := hi (key w, v) (find_mem st _ v hf) w rfl
    refine ⟨by simp only [hv], ?_⟩
    intro e he w' hw'
    rcases List.mem_cons.mp he with rfl | he
    · rw [← hv]; exact hk w' w hw'
    · exact keyInv_sublist (List.filter_sublist) hi e he w' hw'
  | none =>
    simp only []
    cases hs : (senv.data w).suggest with
    | none => exact ⟨rfl, hi⟩
    | some v =>
      refine ⟨rfl, ?_⟩
      intro e he w' hw'
      rcases List.mem_cons.mp he with rfl | he
      · rw [← hs]; exact hk w' w hw'
      · exact keyInv_sublist ((List.take_sublist _ _).trans List.filter_sublist) hi e he w' hw'

/-- **the word cache is transparent**: whatever state (satisfying the invariant) and capacity the instance has, `lint` returns what
the cache-less rule returns — lints and panics — and leaves a cache that satisfies the invariant -/
theorem spellGo_spec (senv : SpellEnv) (key : List Char → List Char) (hk : KeySound senv key) (cap : Nat) (src : List Char) :
    ∀ (toks : List Tok) (st : WordCache), KeyInv senv key st →
      (spellGo senv key cap src st toks).1 = ruleSpellCheck senv src toks ∧ KeyInv senv key (spellGo senv key cap src st toks).2
  | [], st, hi => ⟨rfl, hi⟩
  | t :: ts, st, hi => by
    simp only [spellGo, ruleSpellCheck, perTok, collectE, spellTok]
    by_cases hw : t.kind.isWord = true
    · simp only [hw, Bool.not_true, Bool.false_eq_true, if_false]
      cases hc : t.span.getContent src with
      | error e => exact ⟨rfl, hi⟩
      | ok w =>
        simp only []
        by_cases ha : accepted (senv.data w) = true
        · simp only [ha, if_true]
          have ih := spellGo_spec senv key hk cap src ts st hi
          refine ⟨?_, ih.2⟩
          rw [ih.1]
          simp only [ruleSpellCheck, perTok]
          cases collectE (spellTok senv src) ts <;> rfl
        · simp only [ha, Bool.false_eq_true, if_false]
          have hcs := cachedSuggest_spec senv key hk cap w st hi
          cases hsg : (senv.data w).suggest with
          | none =>
            rw [hsg] at hcs
            cases hr : cachedSuggest senv key cap w st with
            | mk r st1 =>
              rw [hr] at hcs
              simp only [] at hcs
              obtain ⟨h1, h2⟩ := hcs
              subst h1
              exact ⟨rfl, h2⟩
          | some sg =>
            rw [hsg] at hcs
            cases hr : cachedSuggest senv key cap w st with
            | mk r st1 =>
              rw [hr] at hcs
              simp only [] at hcs
              obtain ⟨h1, h2⟩ := hcs
              subst h1
              have ih := spellGo_spec senv key hk cap src ts st1 h2
              refine ⟨?_, ih.2⟩
              simp only []
              rw [ih.1]
              simp only [ruleSpellCheck, perTok]
              cases collectE (spellTok senv src) ts <;> rfl
    · have hw' : t.kind.isWord = false := by simpa using hw
      simp only [hw', Bool.not_false, if_true]
      have ih := spellGo_spec senv key hk cap src ts st hi
      refine ⟨?_, ih.2⟩
      rw [ih.1]
      simp only [ruleSpellCheck, perTok]
      cases collectE (spellTok senv src) ts <;> rfl

/-- a long-lived instance reports on every document what the cache-less rule reports -/
theorem spellSession_spec (senv : SpellEnv) (key : List Char → List Char) (hk : KeySound senv key) (cap : Nat) :
    ∀ (docs : List (List Char × List Tok)) (st : WordCache), KeyInv senv key st →
      spellSession senv key cap st docs = docs.map fun d => ruleSpellCheck senv d.1 d.2
  | [], _, _ => rfl
  | d :: ds, st, hi => by
    have h := spellGo_spec senv key hk cap d.1 d.2 st hi
    simp only [spellSession, List.map_cons, h.1, spellSession_spec senv key hk cap ds _ h.2]

/-! ## composition with `Model/Spell.lean` (C06) -/

/-- the `WordData` of a word when the dictionary is a `Spell` dictionary -/
def dataOf (f : Spell.Fns) (dict : List Spell.Entry) (sugg : List Char → Option (List (List Char))) (w : List Char) : WordData where
  known := (Spell.lookup f dict w).isSome
  dialectOk := match Spell.lookup f dict w with | some e => e.dialectOk | none => false
  exact := Spell.containsExact f dict w
  exactLower := Spell.containsExact f dict (f.lower w)
  suggest := sugg w

/-- the rule's `continue` condition IS `Spell.accept` (C06's subject) -/
theorem accepted_dataOf (f : Spell.Fns) (dict : List Spell.Entry) (sugg : List Char → Option (List (List Char))) (w : List Char) :
    accepted (dataOf f dict sugg w) = Spell.accept f dict w := by
  simp only [accepted, dataOf, Spell.accept]
  cases Spell.lookup f dict w with
  | none => rfl
  | some e => simp

/-- the rule's post-processing IS `Spell.suggestions` after its dialect filter -/
theorem postProcess_eq_suggestions (senv : SpellEnv) (f : Spell.Fns) (dict : List Spell.Entry) (fuzzy : List (List Char))
    (w : List Char) :
    postProcess senv w (fuzzy.filter fun s => match Spell.lookup f dict s with | some e => e.dialectOk | none => false) =
      Spell.suggestions f dict fuzzy (match w with | c :: _ => senv.isUpper c | [] => false) (capitaliseFirst senv.upperFirst) := by
  cases w with
  | nil =>
    simp only [postProcess, Spell.suggestions, Bool.false_eq_true, if_false]
    congr 1
  | cons c cs =>
    simp only [postProcess, Spell.suggestions]
    split
    · congr 2
    · congr 1

end Harper.SpellRule
