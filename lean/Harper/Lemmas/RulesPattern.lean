import Harper.Lemmas.Rules
/-!
Pattern combinators (`Model/Condense.lean`) and `run_on_chunk` under translation, and their totality:
what the pattern linter `ModalOf` needs on top of `match_to_lint`.
-/
namespace Harper.Rules
open Harper Harper.Chunks

/-- a matcher that looks only at kinds, spans and the characters under its tokens -/
structure MLocal (m : Matcher) : Prop where
  left : ∀ (P D : List Char) (ts : List Tok), (∀ t ∈ ts, t.span.stop ≤ P.length) → m (P ++ D) ts = m P ts
  right : ∀ (P D : List Char) (ts : List Tok) (j : Nat), m (P ++ D) (ts.map (shTok P.length j)) = m D ts

/-- a matcher that returns, with at most as many tokens as it was given, on tokens inside the text -/
def MOK (m : Matcher) : Prop :=
  ∀ (src : List Char) (ts : List Tok), (∀ t ∈ ts, t.span.start < t.span.stop ∧ t.span.stop ≤ src.length) →
    ∃ n, m src ts = .ok n ∧ n ≤ ts.length

theorem kindAtom_local (p : Kind → Bool) (hp : ∀ j k, p (shiftTwin j k) = p k) : MLocal (kindAtom p) where
  left := fun _ _ _ _ => rfl
  right := by
    intro P D ts j
    cases ts with
    | nil => rfl
    | cons t ts => simp only [List.map_cons, kindAtom, shTok_kind, hp]

theorem kindAtom_ok (p : Kind → Bool) : MOK (kindAtom p) := by
  intro src ts _
  cases ts with
  | nil => exact ⟨0, rfl, Nat.le_refl _⟩
  | cons t ts =>
    refine ⟨_, rfl, ?_⟩
    simp only [List.length_cons]
    split <;> omega

theorem whitespaceAtom_local : MLocal whitespaceAtom where
  left := fun _ _ _ _ => rfl
  right := by
    intro P D ts j
    simp only [whitespaceAtom, countWhile_map, shTok_kind, isWhitespace_shiftTwin]

theorem whitespaceAtom_ok : MOK whitespaceAtom := fun _ ts _ => ⟨_, rfl, countWhile_le _ ts⟩

theorem wordSetAtom_local (ws : List (List Char)) : MLocal (wordSetAtom ws) where
  left := by
    intro P D ts h
    cases ts with
    | nil => rfl
    | cons t ts => simp only [wordSetAtom, getContent_left' P D t.span (h t (by simp))]
  right := by
    intro P D ts j
    cases ts with
    | nil => rfl
    | cons t ts => simp only [List.map_cons, wordSetAtom, shTok_kind, isWord_shiftTwin, shTok_span, getContent_shift']

theorem wordSetAtom_ok (ws : List (List Char)) : MOK (wordSetAtom ws) := by
  intro src ts h
  cases ts with
  | nil => exact ⟨0, rfl, Nat.le_refl _⟩
  | cons t ts =>
    have ht := h t (by simp)
    simp only [wordSetAtom]
    split
    · exact ⟨0, rfl, Nat.zero_le _⟩
    · rw [getContent_ok _ _ ht.1 ht.2]
      refine ⟨_, rfl, ?_⟩
      simp only [List.length_cons]
      split <;> omega

theorem anyCapAtom_local (w : List Char) : MLocal (anyCapAtom w) where
  left := by
    intro P D ts h
    cases ts with
    | nil => rfl
    | cons t ts => simp only [anyCapAtom, getContent_left' P D t.span (h t (by simp))]
  right := by
    intro P D ts j
    cases ts with
    | nil => rfl
    | cons t ts =>
      have e1 : ((shTok P.length j t).span.start > (shTok P.length j t).span.stop) = (t.span.start > t.span.stop) := by
        simp only [shTok_span, shiftSpan_start, shiftSpan_stop]; apply propext; omega
      have e2 : (shTok P.length j t).span.len = t.span.len := by
        simp only [Span.len, shTok_span, shiftSpan_start, shiftSpan_stop]; omega
      simp only [List.map_cons, anyCapAtom, shTok_kind, isWord_shiftTwin, e1, e2]
      simp only [shTok_span, getContent_shift']

theorem anyCapAtom_ok (w : List Char) : MOK (anyCapAtom w) := by
  intro src ts h
  cases ts with
  | nil => exact ⟨0, rfl, Nat.le_refl _⟩
  | cons t ts =>
    have ht := h t (by simp)
    simp only [anyCapAtom]
    split
    · exact ⟨0, rfl, Nat.zero_le _⟩
    · rw [if_neg (by omega)]
      split
      · exact ⟨0, rfl, Nat.zero_le _⟩
      · rw [getContent_ok _ _ ht.1 ht.2]
        refine ⟨_, rfl, ?_⟩
        simp only [List.length_cons]
        split <;> omega

theorem seqGo_right (ps : List Matcher) (hps : ∀ p ∈ ps, MLocal p) (P D : List Char) (j : Nat) :
    ∀ (acc : Nat) (ts : List Tok), seqGo (P ++ D) ps acc (ts.map (shTok P.length j)) = seqGo D ps acc ts := by
  induction ps with
  | nil => intro _ _; rfl
  | cons p ps ih =>
    intro acc ts
    simp only [seqGo, (hps p (by simp)).right, List.length_map, ← List.map_drop]
    cases p D ts with
    | error e => rfl
    | ok n =>
      simp only []
      split
      · rfl
      · split
        · rfl
        · exact ih (fun q hq => hps q (List.mem_cons_of_mem _ hq)) _ _

theorem seqGo_left (ps : List Matcher) (hps : ∀ p ∈ ps, MLocal p) (P D : List Char) :
    ∀ (acc : Nat) (ts : List Tok), (∀ t ∈ ts, t.span.stop ≤ P.length) → seqGo (P ++ D) ps acc ts = seqGo P ps acc ts := by
  induction ps with
  | nil => intro _ _ _; rfl
  | cons p ps ih =>
    intro acc ts h
    simp only [seqGo, (hps p (by simp)).left P D ts h]
    cases p P ts with
    | error e => rfl
    | ok n =>
      simp only []
      split
      · rfl
      · split
        · rfl
        · exact ih (fun q hq => hps q (List.mem_cons_of_mem _ hq)) _ _ (fun t ht => h t (List.mem_of_mem_drop ht))

theorem seqPat_local (ps : List Matcher) (hps : ∀ p ∈ ps, MLocal p) : MLocal (seqPat ps) where
  left := fun P D ts h => seqGo_left ps hps P D 0 ts h
  right := fun P D ts j => seqGo_right ps hps P D j 0 ts

theorem seqGo_ok (ps : List Matcher) (hps : ∀ p ∈ ps, MOK p) (src : List Char) :
    ∀ (acc : Nat) (ts : List Tok), (∀ t ∈ ts, t.span.start < t.span.stop ∧ t.span.stop ≤ src.length) →
      ∃ n, seqGo src ps acc ts = .ok n ∧ n ≤ acc + ts.length := by
  induction ps with
  | nil => intro acc ts _; exact ⟨acc, rfl, by omega⟩
  | cons p ps ih =>
    intro acc ts h
    obtain ⟨n, en, hn⟩ := hps p (by simp) src ts h
    simp only [seqGo, en]
    split
    · exact ⟨0, rfl, Nat.zero_le _⟩
    · rw [if_neg (by omega)]
      obtain ⟨k, ek, hk⟩ := ih (fun q hq => hps q (List.mem_cons_of_mem _ hq)) (acc + n) (ts.drop n)
        (fun t ht => h t (List.mem_of_mem_drop ht))
      refine ⟨k, ek, ?_⟩
      simp only [List.length_drop] at hk
      omega

theorem seqPat_ok (ps : List Matcher) (hps : ∀ p ∈ ps, MOK p) : MOK (seqPat ps) := by
  intro src ts h
  obtain ⟨n, en, hn⟩ := seqGo_ok ps hps src 0 ts h
  exact ⟨n, en, by omega⟩

theorem eitherGo_right (ps : List Matcher) (hps : ∀ p ∈ ps, MLocal p) (P D : List Char) (j : Nat) (ts : List Tok) :
    ∀ longest, eitherGo (P ++ D) (ts.map (shTok P.length j)) ps longest = eitherGo D ts ps longest := by
  induction ps with
  | nil => intro _; rfl
  | cons p ps ih =>
    intro longest
    simp only [eitherGo, (hps p (by simp)).right]
    cases p D ts with
    | error e => rfl
    | ok n => exact ih (fun q hq => hps q (List.mem_cons_of_mem _ hq)) _

theorem eitherGo_left (ps : List Matcher) (hps : ∀ p ∈ ps, MLocal p) (P D : List Char) (ts : List Tok)
    (h : ∀ t ∈ ts, t.span.stop ≤ P.length) :
    ∀ longest, eitherGo (P ++ D) ts ps longest = eitherGo P ts ps longest := by
  induction ps with
  | nil => intro _; rfl
  | cons p ps ih =>
    intro longest
    simp only [eitherGo, (hps p (by simp)).left P D ts h]
    cases p P ts with
    | error e => rfl
    | ok n => exact ih (fun q hq => hps q (List.mem_cons_of_mem _ hq)) _

theorem eitherPat_local (ps : List Matcher) (hps : ∀ p ∈ ps, MLocal p) : MLocal (eitherPat ps) where
  left := fun P D ts h => eitherGo_left ps hps P D ts h 0
  right := fun P D ts j => eitherGo_right ps hps P D j ts 0

theorem eitherGo_ok (ps : List Matcher) (hps : ∀ p ∈ ps, MOK p) (src : List Char) (ts : List Tok)
    (h : ∀ t ∈ ts, t.span.start < t.span.stop ∧ t.span.stop ≤ src.length) :
    ∀ longest, longest ≤ ts.length → ∃ n, eitherGo src ts ps longest = .ok n ∧ n ≤ ts.length := by
  induction ps with
  | nil => intro longest hl; exact ⟨longest, rfl, hl⟩
  | cons p ps ih =>
    intro longest hl
    obtain ⟨n, en, hn⟩ := hps p (by simp) src ts h
    simp only [eitherGo, en]
    apply ih (fun q hq => hps q (List.mem_cons_of_mem _ hq))
    split <;> assumption

theorem eitherPat_ok (ps : List Matcher) (hps : ∀ p ∈ ps, MOK p) : MOK (eitherPat ps) :=
  fun src ts h => eitherGo_ok ps hps src ts h 0 (Nat.zero_le _)

/-! ## the pattern of `ModalOf` -/

theorem modalOfPat_local : MLocal modalOfPat := by
  unfold modalOfPat
  refine eitherPat_local _ ?_
  have hw := kindAtom_local Kind.isWord isWord_shiftTwin
  have hws := whitespaceAtom_local
  have hmo : MLocal (seqPat [wordSetAtom modalWords, whitespaceAtom, anyCapAtom ['o', 'f']]) :=
    seqPat_local _ (by
      intro p hp
      simp only [List.mem_cons, List.mem_nil_iff, or_false] at hp
      rcases hp with rfl | rfl | rfl
      · exact wordSetAtom_local _
      · exact hws
      · exact anyCapAtom_local _)
  have hwc : MLocal (seqPat [whitespaceAtom, anyCapAtom ['c', 'o', 'u', 'r', 's', 'e']]) :=
    seqPat_local _ (by
      intro p hp
      simp only [List.mem_cons, List.mem_nil_iff, or_false] at hp
      rcases hp with rfl | rfl
      · exact hws
      · exact anyCapAtom_local _)
  have hamo : MLocal (seqPat [kindAtom Kind.isWord, whitespaceAtom, anyCapAtom ['m', 'i', 'g', 'h', 't'], whitespaceAtom,
      anyCapAtom ['o', 'f']]) :=
    seqPat_local _ (by
      intro p hp
      simp only [List.mem_cons, List.mem_nil_iff, or_false] at hp
      rcases hp with rfl | rfl | rfl | rfl | rfl
      · exact hw
      · exact hws
      · exact anyCapAtom_local _
      · exact hws
      · exact anyCapAtom_local _)
  intro p hp
  simp only [List.mem_cons, List.mem_nil_iff, or_false] at hp
  rcases hp with rfl | rfl | rfl | rfl
  · exact seqPat_local _ (by
      intro q hq
      simp only [List.mem_cons, List.mem_nil_iff, or_false] at hq
      rcases hq with rfl | rfl
      · exact hamo
      · exact hwc)
  · exact seqPat_local _ (by
      intro q hq
      simp only [List.mem_cons, List.mem_nil_iff, or_false] at hq
      rcases hq with rfl | rfl
      · exact hmo
      · exact hwc)
  · exact hamo
  · exact hmo

theorem modalOfPat_ok : MOK modalOfPat := by
  unfold modalOfPat
  refine eitherPat_ok _ ?_
  have hw := kindAtom_ok Kind.isWord
  have hws := whitespaceAtom_ok
  have hmo : MOK (seqPat [wordSetAtom modalWords, whitespaceAtom, anyCapAtom ['o', 'f']]) :=
    seqPat_ok _ (by
      intro p hp
      simp only [List.mem_cons, List.mem_nil_iff, or_false] at hp
      rcases hp with rfl | rfl | rfl
      · exact wordSetAtom_ok _
      · exact hws
      · exact anyCapAtom_ok _)
  have hwc : MOK (seqPat [whitespaceAtom, anyCapAtom ['c', 'o', 'u', 'r', 's', 'e']]) :=
    seqPat_ok _ (by
      intro p hp
      simp only [List.mem_cons, List.mem_nil_iff, or_false] at hp
      rcases hp with rfl | rfl
      · exact hws
      · exact anyCapAtom_ok _)
  have hamo : MOK (seqPat [kindAtom Kind.isWord, whitespaceAtom, anyCapAtom ['m', 'i', 'g', 'h', 't'], whitespaceAtom,
      anyCapAtom ['o', 'f']]) :=
    seqPat_ok _ (by
      intro p hp
      simp only [List.mem_cons, List.mem_nil_iff, or_false] at hp
      rcases hp with rfl | rfl | rfl | rfl | rfl
      · exact hw
      · exact hws
      · exact anyCapAtom_ok _
      · exact hws
      · exact anyCapAtom_ok _)
  intro p hp
  simp only [List.mem_cons, List.mem_nil_iff, or_false] at hp
  rcases hp with rfl | rfl | rfl | rfl
  · exact seqPat_ok _ (by
      intro q hq
      simp only [List.mem_cons, List.mem_nil_iff, or_false] at hq
      rcases hq with rfl | rfl
      · exact hamo
      · exact hwc)
  · exact seqPat_ok _ (by
      intro q hq
      simp only [List.mem_cons, List.mem_nil_iff, or_false] at hq
      rcases hq with rfl | rfl
      · exact hmo
      · exact hwc)
  · exact hamo
  · exact hmo

/-! ## `run_on_chunk` -/

theorem runOnChunkGo_right (m : Matcher) (hm : MLocal m) (f : List Char → List Tok → Except Panic (List RuleLint))
    (P D : List Char) (j : Nat)
    (hf : ∀ l, f (P ++ D) (l.map (shTok P.length j)) = (f D l).map (shiftRLs P.length)) (ts : List Tok) :
    ∀ skip, runOnChunkGo m f (P ++ D) skip (ts.map (shTok P.length j)) =
      (runOnChunkGo m f D skip ts).map (shiftRLs P.length) := by
  induction ts with
  | nil => intro skip; cases skip <;> rfl
  | cons t ts ih =>
    intro skip
    cases skip with
    | succ s => simp only [List.map_cons, runOnChunkGo]; exact ih s
    | zero =>
      simp only [List.map_cons, runOnChunkGo]
      rw [← List.map_cons, hm.right, List.length_map]
      cases m D (t :: ts) with
      | error e => rfl
      | ok n =>
        simp only []
        split
        · exact ih 0
        · split
          · rfl
          · rw [← List.map_take, hf, ih (n - 1)]
            cases f D (List.take n (t :: ts)) with
            | error e => rfl
            | ok l =>
              cases runOnChunkGo m f D (n - 1) ts with
              | error e => rfl
              | ok r => simp [Except.map, shiftRLs_append]

theorem runOnChunkGo_left (m : Matcher) (hm : MLocal m) (f : List Char → List Tok → Except Panic (List RuleLint))
    (P D : List Char) (hf : ∀ l, (∀ t ∈ l, tokOK t = true ∧ t.span.stop ≤ P.length) → f (P ++ D) l = f P l)
    (ts : List Tok) (h : ∀ t ∈ ts, tokOK t = true ∧ t.span.stop ≤ P.length) :
    ∀ skip, runOnChunkGo m f (P ++ D) skip ts = runOnChunkGo m f P skip ts := by
  induction ts with
  | nil => intro skip; cases skip <;> rfl
  | cons t ts ih =>
    have h' : ∀ u ∈ ts, tokOK u = true ∧ u.span.stop ≤ P.length := fun u hu => h u (List.mem_cons_of_mem _ hu)
    intro skip
    cases skip with
    | succ s => simp only [runOnChunkGo]; exact ih h' s
    | zero =>
      simp only [runOnChunkGo]
      rw [hm.left P D (t :: ts) (fun u hu => (h u hu).2)]
      cases m P (t :: ts) with
      | error e => rfl
      | ok n =>
        simp only []
        split
        · exact ih h' 0
        · split
          · rfl
          · rw [hf _ (fun u hu => h u (List.mem_of_mem_take hu)), ih h' (n - 1)]

theorem runOnChunkGo_ok (m : Matcher) (hm : MOK m) (f : List Char → List Tok → Except Panic (List RuleLint))
    (src : List Char) (hf : ∀ l, Ord src.length l → ∃ ls, f src l = .ok ls ∧ ∀ x ∈ ls, LintOK src.length x)
    (ts : List Tok) (ho : Ord src.length ts) :
    ∀ skip, ∃ ls, runOnChunkGo m f src skip ts = .ok ls ∧ ∀ x ∈ ls, LintOK src.length x := by
  induction ts with
  | nil => intro skip; cases skip <;> exact ⟨[], rfl, by simp⟩
  | cons t ts ih =>
    intro skip
    cases skip with
    | succ s => simp only [runOnChunkGo]; exact ih ho.tail s
    | zero =>
      obtain ⟨n, en, hn⟩ := hm src (t :: ts) ho.2
      simp only [runOnChunkGo, en]
      split
      · exact ih ho.tail 0
      · rw [if_neg (by omega)]
        obtain ⟨l, el, hl⟩ := hf _ (ho.sublist (List.take_sublist n (t :: ts)))
        obtain ⟨r, er, hr⟩ := ih ho.tail (n - 1)
        refine ⟨l ++ r, by simp only [el, er], ?_⟩
        intro x hx
        rcases List.mem_append.mp hx with hx | hx
        · exact hl x hx
        · exact hr x hx

/-! ## ModalOf -/

theorem modalIndex_left (env : Env) (P D : List Char) (m : List Tok) (h : ∀ t ∈ m, t.span.stop ≤ P.length) :
    modalIndex env (P ++ D) m = modalIndex env P m := by
  simp only [modalIndex]
  split
  · rfl
  · split
    · cases hl : m.getLast? with
      | none => rfl
      | some w3 =>
        cases hh : m.head? with
        | none => rfl
        | some w1 =>
          have h3 := h w3 (List.mem_of_getLast? hl)
          have h1 := h w1 (List.mem_of_head? hh)
          simp only [getContent_left' P D _ h3, hasFlag_left env P D w1 _ h1]
    · rfl

theorem modalOfMatch_left (env : Env) (P D : List Char) (m : List Tok)
    (h : ∀ t ∈ m, tokOK t = true ∧ t.span.stop ≤ P.length) :
    modalOfMatch env (P ++ D) m = modalOfMatch env P m := by
  simp only [modalOfMatch, modalIndex_left env P D m (fun t ht => (h t ht).2)]
  cases modalIndex env P m with
  | error e => rfl
  | ok oi =>
    cases oi with
    | none => rfl
    | some i =>
      simp only []
      cases hs : sliceE m i (i + 3) with
      | error e => rfl
      | ok sub =>
        simp only []
        cases hsp : spanOf sub with
        | none => rfl
        | some sp =>
          simp only []
          cases hmi : m[i]? with
          | none => rfl
          | some modal =>
            have hsub : ∀ t ∈ sub, t ∈ m := by
              simp only [sliceE] at hs
              split at hs
              · cases hs
              · cases hs; exact fun t ht => List.mem_of_mem_drop (List.mem_of_mem_take ht)
            have hspok := spanOf_ok P.length sub sp hsp (fun t ht => by
              have := h t (hsub t ht)
              have := tokOK_nonempty this.1
              omega)
            simp only [getContent_left' P D _ (h modal (List.mem_of_getElem? hmi)).2, getContent_left' P D sp hspok.2]

theorem modalOf_xlocal (env : Env) : XLocalE (modalOfPiece env) where
  nil := fun _ => rfl
  left := by
    intro P D piece hp
    exact runOnChunkGo_left _ modalOfPat_local _ P D (fun l hl => modalOfMatch_left env P D l hl) piece hp 0
  right := by
    intro P D piece j _
    exact runOnChunkGo_right _ modalOfPat_local _ P D j (fun l => modalOfMatch_shift env P D l j) piece 0

theorem modalOf_ok (env : Env) (src : List Char) (chunk : List Tok) (ho : Ord src.length chunk) :
    ∃ ls, modalOfPiece env src chunk = .ok ls ∧ ∀ l ∈ ls, LintOK src.length l :=
  runOnChunkGo_ok _ modalOfPat_ok _ src (fun l hl => modalOfMatch_ok env src l hl) chunk ho 0

end Harper.Rules
