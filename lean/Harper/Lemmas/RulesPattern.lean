import Harper.Lemmas.Rules
import Harper.Lemmas.Pattern
/-!
Pattern combinators (`Model/Condense.lean`) and `run_on_chunk` under translation, and their totality:
what the pattern linter `ModalOf` needs on top of `match_to_lint`.
-/
namespace Harper.Rules
open Harper Harper.Chunks

/-- a matcher that looks only at kinds, spans and the characters under its tokens -/
structure MLocal (m : Matcher) : Prop where
  left : ∀ (P D : List Char) (ts : List Tok), (∀ t ∈ ts, t.span.stop ≤ P.length) → m (P ++ D) ts = m P ts
  right : ∀ (P D : List Char) (ts : List Tok) (j : Nat), m (P ++ D) (ts.map (shTok P.length j)) = m D ts

/-- a matcher that returns, with at most as many tokens as it was given, on tokens inside the text -/
def MOK (m : Matcher) : Prop :=
  ∀ (src : List Char) (ts : List Tok), (∀ t ∈ ts, t.span.start < t.span.stop ∧ t.span.stop ≤ src.length) →
    ∃ n, m src ts = .ok n ∧ n ≤ ts.length

theorem kindAtom_local (p : Kind → Bool) (hp : ∀ j k, p (shiftTwin j k) = p k) : MLocal (kindAtom p) where
  left := fun _ _ _ _ => rfl
  right := by
    intro P D ts j
    cases ts with
    | nil => rfl
    | cons t ts => simp only [List.map_cons, kindAtom, shTok_kind, hp]

theorem kindAtom_ok (p : Kind → Bool) : MOK (kindAtom p) := by
  intro src ts _
  cases ts with
  | nil => exact ⟨0, rfl, Nat.le_refl _⟩
  | cons t ts =>
    refine ⟨_, rfl, ?_⟩
    simp only [List.length_cons]
    split <;> omega

theorem whitespaceAtom_local : MLocal whitespaceAtom where
  left := fun _ _ _ _ => rfl
  right := by
    intro P D ts j
    simp only [whitespaceAtom, countWhile_map, shTok_kind, isWhitespace_shiftTwin]

theorem whitespaceAtom_ok : MOK whitespaceAtom := fun _ ts _ => ⟨_, rfl, countWhile_le _ ts⟩

theorem wordSetAtom_local (ws : List (List Char)) : MLocal (wordSetAtom ws) where
  left := by
    intro P D ts h
    cases ts with
    | nil => rfl
    | cons t ts => simp only [wordSetAtom, getContent_left' P D t.span (h t (by simp))]
  right := by
    intro P D ts j
    cases ts with
    | nil => rfl
    | cons t ts => simp only [List.map_cons, wordSetAtom, shTok_kind, isWord_shiftTwin, shTok_span, getContent_shift']

theorem wordSetAtom_ok (ws : List (List Char)) : MOK (wordSetAtom ws) := by
  intro src ts h
  cases ts with
  | nil => exact ⟨0, rfl, Nat.le_refl _⟩
  | cons t ts =>
    have ht := h t (by simp)
    simp only [wordSetAtom]
    split
    · exact ⟨0, rfl, Nat.zero_le _⟩
    · rw [getContent_ok _ _ ht.1 ht.2]
      refine ⟨_, rfl, ?_⟩
      simp only [List.length_cons]
      split <;> omega

theorem anyCapAtom_local (w : List Char) : MLocal (anyCapAtom w) where
  left := by
    intro P D ts h
    cases ts with
    | nil => rfl
    | cons t ts => simp only [anyCapAtom, getContent_left' P D t.span (h t (by simp))]
  right := by
    intro P D ts j
    cases ts with
    | nil => rfl
    | cons t ts =>
      have e1 : ((shTok P.length j t).span.start > (shTok P.length j t).span.stop) = (t.span.start > t.span.stop) := by
        simp only [shTok_span, shiftSpan_start, shiftSpan_stop]; apply propext; omega
      have e2 : (shTok P.length j t).span.len = t.span.len := by
        simp only [Span.len, shTok_span, shiftSpan_start, shiftSpan_stop]; omega
      simp only [List.map_cons, anyCapAtom, shTok_kind, isWord_shiftTwin, e1, e2]
      simp only [shTok_span, getContent_shift']

theorem anyCapAtom_ok (w : List Char) : MOK (anyCapAtom w) := by
  intro src ts h
  cases ts with
  | nil => exact ⟨0, rfl, Nat.le_refl _⟩
  | cons t ts =>
    have ht := h t (by simp)
    simp only [anyCapAtom]
    split
    · exact ⟨0, rfl, Nat.zero_le _⟩
    · rw [if_neg (by omega)]
      split
      · exact ⟨0, rfl, Nat.zero_le _⟩
      · rw [getContent_ok _ _ ht.1 ht.2]
        refine ⟨_, rfl, ?_⟩
        simp only [List.length_cons]
        split <;> omega

theorem seqGo_right (ps : List Matcher) (hps : ∀ p ∈ ps, MLocal p) (P D : List Char) (j : Nat) :
    ∀ (acc : Nat) (ts : List Tok), seqGo (P ++ D) ps acc (ts.map (shTok P.length j)) = seqGo D ps acc ts := by
  induction ps with
  | nil => intro _ _; rfl
  | cons p ps ih =>
    intro acc ts
    simp only [seqGo, (hps p (by simp)).right, List.length_map, ← List.map_drop]
    cases p D ts with
    | error e => rfl
    | ok n =>
      simp only []
      split
      · rfl
      · split
        · rfl
        · exact ih (fun q hq => hps q (List.mem_cons_of_mem _ hq)) _ _

theorem seqGo_left (ps : List Matcher) (hps : ∀ p ∈ ps, MLocal p) (P D : List Char) :
    ∀ (acc : Nat) (ts : List Tok), (∀ t ∈ ts, t.span.stop ≤ P.length) → seqGo (P ++ D) ps acc ts = seqGo P ps acc ts := by
  induction ps with
  | nil => intro _ _ _; rfl
  | cons p ps ih =>
    intro acc ts h
    simp only [seqGo, (hps p (by simp)).left P D ts h]
    cases p P ts with
    | error e => rfl
    | ok n =>
      simp only []
      split
      · rfl
      · split
        · rfl
        · exact ih (fun q hq => hps q (List.mem_cons_of_mem _ hq)) _ _ (fun t ht => h t (List.mem_of_mem_drop ht))

theorem seqPat_local (ps : List Matcher) (hps : ∀ p ∈ ps, MLocal p) : MLocal (seqPat ps) where
  left := fun P D ts h => seqGo_left ps hps P D 0 ts h
  right := fun P D ts j => seqGo_right ps hps P D j 0 ts

theorem seqGo_ok (ps : List Matcher) (hps : ∀ p ∈ ps, MOK p) (src : List Char) :
    ∀ (acc : Nat) (ts : List Tok), (∀ t ∈ ts, t.span.start < t.span.stop ∧ t.span.stop ≤ src.length) →
      ∃ n, seqGo src ps acc ts = .ok n ∧ n ≤ acc + ts.length := by
  induction ps with
  | nil => intro acc ts _; exact ⟨acc, rfl, by omega⟩
  | cons p ps ih =>
    intro acc ts h
    obtain ⟨n, en, hn⟩ := hps p (by simp) src ts h
    simp only [seqGo, en]
    split
    · exact ⟨0, rfl, Nat.zero_le _⟩
    · rw [if_neg (by omega)]
      obtain ⟨k, ek, hk⟩ := ih (fun q hq => hps q (List.mem_cons_of_mem _ hq)) (acc + n) (ts.drop n)
        (fun t ht => h t (List.mem_of_mem_drop ht))
      refine ⟨k, ek, ?_⟩
      simp only [List.length_drop] at hk
      omega

theorem seqPat_ok (ps : List Matcher) (hps : ∀ p ∈ ps, MOK p) : MOK (seqPat ps) := by
  intro src ts h
  obtain ⟨n, en, hn⟩ := seqGo_ok ps hps src 0 ts h
  exact ⟨n, en, by omega⟩

theorem eitherGo_right (ps : List Matcher) (hps : ∀ p ∈ ps, MLocal p) (P D : List Char) (j : Nat) (ts : List Tok) :
    ∀ longest, eitherGo (P ++ D) (ts.map (shTok P.length j)) ps longest = eitherGo D ts ps longest := by
  induction ps with
  | nil => intro _; rfl
  | cons p ps ih =>
    intro longest
    simp only [eitherGo, (hps p (by simp)).right]
    cases p D ts with
    | error e => rfl
    | ok n => exact ih (fun q hq => hps q (List.mem_cons_of_mem _ hq)) _

theorem eitherGo_left (ps : List Matcher) (hps : ∀ p ∈ ps, MLocal p) (P D : List Char) (ts : List Tok)
    (h : ∀ t ∈ ts, t.span.stop ≤ P.length) :
    ∀ longest, eitherGo (P ++ D) ts ps longest = eitherGo P ts ps longest := by
  induction ps with
  | nil => intro _; rfl
  | cons p ps ih =>
    intro longest
    simp only [eitherGo, (hps p (by simp)).left P D ts h]
    cases p P ts with
    | error e => rfl
    | ok n => exact ih (fun q hq => hps q (List.mem_cons_of_mem _ hq)) _

theorem eitherPat_local (ps : List Matcher) (hps : ∀ p ∈ ps, MLocal p) : MLocal (eitherPat ps) where
  left := fun P D ts h => eitherGo_left ps hps P D ts h 0
  right := fun P D ts j => eitherGo_right ps hps P D j ts 0

theorem eitherGo_ok (ps : List Matcher) (hps : ∀ p ∈ ps, MOK p) (src : List Char) (ts : List Tok)
    (h : ∀ t ∈ ts, t.span.start < t.span.stop ∧ t.span.stop ≤ src.length) :
    ∀ longest, longest ≤ ts.length → ∃ n, eitherGo src ts ps longest = .ok n ∧ n ≤ ts.length := by
  induction ps with
  | nil => intro longest hl; exact ⟨longest, rfl, hl⟩
  | cons p ps ih =>
    intro longest hl
    obtain ⟨n, en, hn⟩ := hps p (by simp) src ts h
    simp only [eitherGo, en]
    apply ih (fun q hq => hps q (List.mem_cons_of_mem _ hq))
    split <;> assumption

theorem eitherPat_ok (ps : List Matcher) (hps : ∀ p ∈ ps, MOK p) : MOK (eitherPat ps) :=
  fun src ts h => eitherGo_ok ps hps src ts h 0 (Nat.zero_le _)

/-! ## the pattern of `ModalOf` -/

theorem modalOfPat_local : MLocal modalOfPat := by
  unfold modalOfPat
  refine eitherPat_local _ ?_
  have hw := kindAtom_local Kind.isWord isWord_shiftTwin
  have hws := whitespaceAtom_local
  have hmo : MLocal (seqPat [wordSetAtom modalWords, whitespaceAtom, anyCapAtom ['o', 'f']]) :=
    seqPat_local _ (by
      intro p hp
      simp only [List.mem_cons, List.mem_nil_iff, or_false] at hp
      rcases hp with rfl | rfl | rfl
      · exact wordSetAtom_local _
      · exact hws
      · exact anyCapAtom_local _)
  have hwc : MLocal (seqPat [whitespaceAtom, anyCapAtom ['c', 'o', 'u', 'r', 's', 'e']]) :=
    seqPat_local _ (by
      intro p hp
      simp only [List.mem_cons, List.mem_nil_iff, or_false] at hp
      rcases hp with rfl | rfl
      · exact hws
      · exact anyCapAtom_local _)
  have hamo : MLocal (seqPat [kindAtom Kind.isWord, whitespaceAtom, anyCapAtom ['m', 'i', 'g', 'h', 't'], whitespaceAtom,
      anyCapAtom ['o', 'f']]) :=
    seqPat_local _ (by
      intro p hp
      simp only [List.mem_cons, List.mem_nil_iff, or_false] at hp
      rcases hp with rfl | rfl | rfl | rfl | rfl
      · exact hw
      · exact hws
      · exact anyCapAtom_local _
      · exact hws
      · exact anyCapAtom_local _)
  intro p hp
  simp only [List.mem_cons, List.mem_nil_iff, or_false] at hp
  rcases hp with rfl | rfl | rfl | rfl
  · exact seqPat_local _ (by
      intro q hq
      simp only [List.mem_cons, List.mem_nil_iff, or_false] at hq
      rcases hq with rfl | rfl
      · exact hamo
      · exact hwc)
  · exact seqPat_local _ (by
      intro q hq
      simp only [List.mem_cons, List.mem_nil_iff, or_false] at hq
      rcases hq with rfl | rfl
      · exact hmo
      · exact hwc)
  · exact hamo
  · exact hmo

theorem modalOfPat_ok : MOK modalOfPat := by
  unfold modalOfPat
  refine eitherPat_ok _ ?_
  have hw := kindAtom_ok Kind.isWord
  have hws := whitespaceAtom_ok
  have hmo : MOK (seqPat [wordSetAtom modalWords, whitespaceAtom, anyCapAtom ['o', 'f']]) :=
    seqPat_ok _ (by
      intro p hp
      simp only [List.mem_cons, List.mem_nil_iff, or_false] at hp
      rcases hp with rfl | rfl | rfl
      · exact wordSetAtom_ok _
      · exact hws
      · exact anyCapAtom_ok _)
  have hwc : MOK (seqPat [whitespaceAtom, anyCapAtom ['c', 'o', 'u', 'r', 's', 'e']]) :=
    seqPat_ok _ (by
      intro p hp
      simp only [List.mem_cons, List.mem_nil_iff, or_false] at hp
      rcases hp with rfl | rfl
      · exact hws
      · exact anyCapAtom_ok _)
  have hamo : MOK (seqPat [kindAtom Kind.isWord, whitespaceAtom, anyCapAtom ['m', 'i', 'g', 'h', 't'], whitespaceAtom,
      anyCapAtom ['o', 'f']]) :=
    seqPat_ok _ (by
      intro p hp
      simp only [List.mem_cons, List.mem_nil_iff, or_false] at hp
      rcases hp with rfl | rfl | rfl | rfl | rfl
      · exact hw
      · exact hws
      · exact anyCapAtom_ok _
      · exact hws
      · exact anyCapAtom_ok _)
  intro p hp
  simp only [List.mem_cons, List.mem_nil_iff, or_false] at hp
  rcases hp with rfl | rfl | rfl | rfl
  · exact seqPat_ok _ (by
      intro q hq
      simp only [List.mem_cons, List.mem_nil_iff, or_false] at hq
      rcases hq with rfl | rfl
      · exact hamo
      · exact hwc)
  · exact seqPat_ok _ (by
      intro q hq
      simp only [List.mem_cons, List.mem_nil_iff, or_false] at hq
      rcases hq with rfl | rfl
      · exact hmo
      · exact hwc)
  · exact hamo
  · exact hmo

/-! ## `run_on_chunk` -/

theorem runOnChunkGo_right (m : Matcher) (hm : MLocal m) (f : List Char → List Tok → Except Panic (List RuleLint))
    (P D : List Char) (j : Nat)
    (hf : ∀ l, f (P ++ D) (l.map (shTok P.length j)) = (f D l).map (shiftRLs P.length)) (ts : List Tok) :
    ∀ skip, runOnChunkGo m f (P ++ D) skip (ts.map (shTok P.length j)) =
      (runOnChunkGo m f D skip ts).map (shiftRLs P.length) := by
  induction ts with
  | nil => intro skip; cases skip <;> rfl
  | cons t ts ih =>
    intro skip
    cases skip with
    | succ s => simp only [List.map_cons, runOnChunkGo]; exact ih s
    | zero =>
      simp only [List.map_cons, runOnChunkGo]
      rw [← List.map_cons, hm.right, List.length_map]
      cases m D (t :: ts) with
      | error e => rfl
      | ok n =>
        simp only []
        split
        · exact ih 0
        · split
          · rfl
          · rw [← List.map_take, hf, ih (n - 1)]
            cases f D (List.take n (t :: ts)) with
            | error e => rfl
            | ok l =>
              cases runOnChunkGo m f D (n - 1) ts with
              | error e => rfl
              | ok r => simp [Except.map, shiftRLs_append]

theorem runOnChunkGo_left (m : Matcher) (hm : MLocal m) (f : List Char → List Tok → Except Panic (List RuleLint))
    (P D : List Char) (hf : ∀ l, (∀ t ∈ l, tokOK t = true ∧ t.span.stop ≤ P.length) → f (P ++ D) l = f P l)
    (ts : List Tok) (h : ∀ t ∈ ts, tokOK t = true ∧ t.span.stop ≤ P.length) :
    ∀ skip, runOnChunkGo m f (P ++ D) skip ts = runOnChunkGo m f P skip ts := by
  induction ts with
  | nil => intro skip; cases skip <;> rfl
  | cons t ts ih =>
    have h' : ∀ u ∈ ts, tokOK u = true ∧ u.span.stop ≤ P.length := fun u hu => h u (List.mem_cons_of_mem _ hu)
    intro skip
    cases skip with
    | succ s => simp only [runOnChunkGo]; exact ih h' s
    | zero =>
      simp only [runOnChunkGo]
      rw [hm.left P D (t :: ts) (fun u hu => (h u hu).2)]
      cases m P (t :: ts) with
      | error e => rfl
      | ok n =>
        simp only []
        split
        · exact ih h' 0
        · split
          · rfl
          · rw [hf _ (fun u hu => h u (List.mem_of_mem_take hu)), ih h' (n - 1)]

theorem runOnChunkGo_ok (m : Matcher) (hm : MOK m) (f : List Char → List Tok → Except Panic (List RuleLint))
    (src : List Char) (hf : ∀ l, Ord src.length l → ∃ ls, f src l = .ok ls ∧ ∀ x ∈ ls, LintOK src.length x)
    (ts : List Tok) (ho : Ord src.length ts) :
    ∀ skip, ∃ ls, runOnChunkGo m f src skip ts = .ok ls ∧ ∀ x ∈ ls, LintOK src.length x := by
  induction ts with
  | nil => intro skip; cases skip <;> exact ⟨[], rfl, by simp⟩
  | cons t ts ih =>
    intro skip
    cases skip with
    | succ s => simp only [runOnChunkGo]; exact ih ho.tail s
    | zero =>
      obtain ⟨n, en, hn⟩ := hm src (t :: ts) ho.2
      simp only [runOnChunkGo, en]
      split
      · exact ih ho.tail 0
      · rw [if_neg (by omega)]
        obtain ⟨l, el, hl⟩ := hf _ (ho.sublist (List.take_sublist n (t :: ts)))
        obtain ⟨r, er, hr⟩ := ih ho.tail (n - 1)
        refine ⟨l ++ r, by simp only [el, er], ?_⟩
        intro x hx
        rcases List.mem_append.mp hx with hx | hx
        · exact hl x hx
        · exact hr x hx

/-! ## ModalOf -/

theorem modalIndex_left (env : Env) (P D : List Char) (m : List Tok) (h : ∀ t ∈ m, t.span.stop ≤ P.length) :
    modalIndex env (P ++ D) m = modalIndex env P m := by
  simp only [modalIndex]
  split
  · rfl
  · split
    · cases hl : m.getLast? with
      | none => rfl
      | some w3 =>
        cases hh : m.head? with
        | none => rfl
        | some w1 =>
          have h3 := h w3 (List.mem_of_getLast? hl)
          have h1 := h w1 (List.mem_of_head? hh)
          simp only [getContent_left' P D _ h3, hasFlag_left env P D w1 _ h1]
    · rfl

theorem modalOfMatch_left (env : Env) (P D : List Char) (m : List Tok)
    (h : ∀ t ∈ m, tokOK t = true ∧ t.span.stop ≤ P.length) :
    modalOfMatch env (P ++ D) m = modalOfMatch env P m := by
  simp only [modalOfMatch, modalIndex_left env P D m (fun t ht => (h t ht).2)]
  cases modalIndex env P m with
  | error e => rfl
  | ok oi =>
    cases oi with
    | none => rfl
    | some i =>
      simp only []
      cases hs : sliceE m i (i + 3) with
      | error e => rfl
      | ok sub =>
        simp only []
        cases hsp : spanOf sub with
        | none => rfl
        | some sp =>
          simp only []
          cases hmi : m[i]? with
          | none => rfl
          | some modal =>
            have hsub : ∀ t ∈ sub, t ∈ m := by
              simp only [sliceE] at hs
              split at hs
              · cases hs
              · cases hs; exact fun t ht => List.mem_of_mem_drop (List.mem_of_mem_take ht)
            have hspok := spanOf_ok P.length sub sp hsp (fun t ht => by
              have := h t (hsub t ht)
              have := tokOK_nonempty this.1
              omega)
            simp only [getContent_left' P D _ (h modal (List.mem_of_getElem? hmi)).2, getContent_left' P D sp hspok.2]

theorem modalOf_xlocal (env : Env) : XLocalE (modalOfPiece env) where
  nil := fun _ => rfl
  left := by
    intro P D piece hp
    exact runOnChunkGo_left _ modalOfPat_local _ P D (fun l hl => modalOfMatch_left env P D l hl) piece hp 0
  right := by
    intro P D piece j _
    exact runOnChunkGo_right _ modalOfPat_local _ P D j (fun l => modalOfMatch_shift env P D l j) piece 0

theorem modalOf_ok (env : Env) (src : List Char) (chunk : List Tok) (ho : Ord src.length chunk) :
    ∃ ls, modalOfPiece env src chunk = .ok ls ∧ ∀ l ∈ ls, LintOK src.length l :=
  runOnChunkGo_ok _ modalOfPat_ok _ src (fun l hl => modalOfMatch_ok env src l hl) chunk ho 0

end Harper.Rules

namespace Harper.Rules
open Harper Harper.Chunks

/-! ## the kind-code model of the pattern framework (`Model/Pattern.lean`) and the token-level one -/

/-- the kind code of `Model/Pattern.lean`'s table (`harness/src/c01_pattern.rs:code`) -/
def kindCode : Kind → Nat
  | .word => 0
  | .space _ => 1
  | .punct .Period => 2
  | .punct .Comma => 3
  | .newline _ => 4
  | .paragraphBreak => 5
  | .punct .Bang => 7
  | .punct .Question => 7
  | .punct .Colon => 8
  | .quote _ => 8
  | _ => 6

def tokCode (t : Tok) : Nat := kindCode t.kind

theorem isChunkTerminator_code (k : Kind) : isChunkTerminator k = Pat.isChunkTerm (kindCode k) := by
  cases k <;> try rfl
  rename_i p; cases p <;> rfl

theorem isSentenceTerminator_code (k : Kind) : isSentenceTerminator k = Pat.isSentenceTerm (kindCode k) := by
  cases k <;> try rfl
  rename_i p; cases p <;> rfl

theorem isParagraphBreak_code (k : Kind) : k.isParagraphBreak = Pat.isParBreak (kindCode k) := by
  cases k <;> try rfl
  rename_i p; cases p <;> rfl

theorem isWord_code (k : Kind) : k.isWord = (kindCode k == 0) := by
  cases k <;> try rfl
  rename_i p; cases p <;> rfl

theorem isWhitespace_code (k : Kind) : k.isWhitespace = Pat.isWs (kindCode k) := by
  cases k <;> try rfl
  rename_i p; cases p <;> rfl

/-- with no terminator in it, a non-empty slice is one piece -/
theorem chunksTail_noTerm (term : Nat → Bool) (l : List Nat) (h : l.any term = false) (hne : l ≠ []) :
    Pat.chunksTail term l = [l] := by
  induction l with
  | nil => exact absurd rfl hne
  | cons t ts ih =>
    simp only [List.any_cons, Bool.or_eq_false_iff] at h
    unfold Pat.chunksTail
    rw [if_neg (by simp [h.1])]
    cases ts with
    | nil => simp [Pat.chunksTail]
    | cons u us => rw [ih h.2 (by simp)]

/-- `splitGo` with `cur` collected so far, through a coding of the tokens under which the two terminator tests agree:
the pieces `chunksTail` cuts, the first one with `cur` in front -/
theorem splitGo_code (term : Kind → Bool) (term' : Nat → Bool) (code : Tok → Nat)
    (hc : ∀ t, term t.kind = term' (code t)) (toks cur : List Tok) :
    (splitGo term cur toks).map (List.map code) =
      match Pat.chunksTail term' (toks.map code) with
      | [] => if cur.isEmpty then [] else [cur.reverse.map code]
      | c :: cs => (cur.reverse.map code ++ c) :: cs := by
  induction toks generalizing cur with
  | nil =>
    simp only [splitGo, List.map_nil, Pat.chunksTail]
    split <;> simp
  | cons t ts ih =>
    simp only [splitGo, List.map_cons]
    unfold Pat.chunksTail
    by_cases ht : term t.kind = true
    · have ht' : term' (code t) = true := by rw [← hc]; exact ht
      rw [if_pos ht, if_pos ht']
      have := ih []
      simp only [List.reverse_nil, List.map_nil, List.nil_append, List.isEmpty_nil, if_true] at this
      have e : (splitGo term [] ts).map (List.map code) = Pat.chunksTail term' (ts.map code) := by
        rw [this]; split <;> simp_all
      simp [e]
    · have ht' : ¬ term' (code t) = true := by rw [← hc]; exact ht
      rw [if_neg ht, if_neg ht', ih (t :: cur)]
      cases Pat.chunksTail term' (ts.map code) with
      | nil => simp
      | cons c cs => simp

/-- **the two chunk iterators are one function**, seen through any coding of the tokens under which the terminator tests
agree — on EVERY input (the empty one included: one empty piece on both sides) -/
theorem split_code (term : Kind → Bool) (term' : Nat → Bool) (code : Tok → Nat)
    (hc : ∀ t, term t.kind = term' (code t)) (toks : List Tok) :
    (split term toks).map (List.map code) = Pat.iterSplit term' (toks.map code) := by
  unfold split Pat.iterSplit
  cases toks with
  | nil => simp
  | cons t ts =>
    rw [if_neg (by simp)]
    have h := splitGo_code term term' code hc (t :: ts) []
    simp only [List.reverse_nil, List.map_nil, List.nil_append, List.isEmpty_nil, if_true] at h
    split
    · rw [h]
      cases Pat.chunksTail term' ((t :: ts).map code) <;> rfl
    · rename_i hany
      rw [h, chunksTail_noTerm term' _ (by simpa using hany) (by simp)]

/-! ## `run_on_chunk`: `Pat.runLoop` (kind codes, cursor and fuel) and `runOnChunkGo` (tokens, structural) -/

/-- what `runOnChunkGo` does with the matches `Pat.runLoop` lists: `match_to_lint` on `&chunk[s..s + n]`, in order -/
def lintMatches (f : List Char → List Tok → Except Panic (List RuleLint)) (src : List Char) (chunk : List Tok)
    (ms : List (Nat × Nat)) : Except Panic (List RuleLint) :=
  collectE (fun sn => f src ((chunk.drop sn.1).take sn.2)) ms

/-- the matcher and the kind-code pattern answer the same on every non-empty suffix of the chunk -/
def AgreeOn (m : Matcher) (p : Pat) (code : Tok → Nat) (src : List Char) (chunk : List Tok) : Prop :=
  ∀ c, c < chunk.length → m src (chunk.drop c) = Pat.matchLen p ((chunk.drop c).map code)

theorem runOnChunkGo_sim (m : Matcher) (p : Pat) (code : Tok → Nat) (src : List Char) (chunk : List Tok)
    (hag : AgreeOn m p code src chunk) (f : List Char → List Tok → Except Panic (List RuleLint)) :
    ∀ (ts : List Tok) (c skip fuel : Nat), chunk.drop c = ts → chunk.length ≤ c + skip + fuel →
      (∀ ms, Pat.runLoop p (chunk.map code) fuel (c + skip) = .ok ms →
        runOnChunkGo m f src skip ts = lintMatches f src chunk ms) ∧
      (∀ e, Pat.runLoop p (chunk.map code) fuel (c + skip) = .error e →
        ∃ e', runOnChunkGo m f src skip ts = .error e' ∧ ((∀ l, ∃ r, f src l = .ok r) → e' = e)) := by
  intro ts
  induction ts with
  | nil =>
    intro c skip fuel hd hfuel
    have hc : chunk.length ≤ c := by
      have := congrArg List.length hd
      simp at this; omega
    have hr : Pat.runLoop p (chunk.map code) fuel (c + skip) = .ok [] := by
      cases fuel <;> simp only [Pat.runLoop, List.length_map] <;> rw [if_pos (by omega)]
    rw [hr]
    refine ⟨?_, ?_⟩
    · intro ms h; cases h
      cases skip <;> rfl
    · intro e h; cases h
  | cons t ts ih =>
    intro c skip fuel hd hfuel
    have hlen : c + (ts.length + 1) = chunk.length := by
      have := congrArg List.length hd
      simp at this; omega
    have hd' : chunk.drop (c + 1) = ts := by
      rw [← List.drop_drop, hd]; rfl
    cases skip with
    | succ s =>
      simp only [runOnChunkGo]
      have := ih (c + 1) s fuel hd' (by omega)
      rw [show c + 1 + s = c + (s + 1) by omega] at this
      exact this
    | zero =>
      cases fuel with
      | zero => omega
      | succ fuel =>
        simp only [Nat.add_zero, runOnChunkGo, Pat.runLoop, List.length_map]
        rw [if_neg (by omega)]
        have hs : Pat.sliceFrom (chunk.map code) c = .ok ((t :: ts).map code) := by
          unfold Pat.sliceFrom
          rw [if_neg (by simp; omega), ← List.map_drop, hd]
        rw [hs]
        simp only []
        have hm := hag c (by omega)
        rw [hd] at hm
        rw [← hm]
        cases m src (t :: ts) with
        | error e =>
          simp only []
          exact ⟨fun ms h => (by cases h), fun e' h => (by cases h; exact ⟨_, rfl, fun _ => rfl⟩)⟩
        | ok n =>
          simp only []
          by_cases hn : n = 0
          · rw [if_pos hn, if_neg (by simpa using hn)]
            have := ih (c + 1) 0 fuel hd' (by omega)
            exact this
          · rw [if_neg hn, if_pos (by simpa using hn)]
            by_cases hoob : c + n > chunk.length
            · rw [if_pos hoob, if_pos (by simp; omega)]
              exact ⟨fun ms h => (by cases h), fun e' h => (by cases h; exact ⟨_, rfl, fun _ => rfl⟩)⟩
            · rw [if_neg hoob, if_neg (by simp; omega)]
              have ih' := ih (c + 1) (n - 1) fuel hd' (by omega)
              rw [show c + 1 + (n - 1) = c + n by omega] at ih'
              cases hr : Pat.runLoop p (chunk.map code) fuel (c + n) with
              | error e =>
                obtain ⟨e', he', htot⟩ := ih'.2 e hr
                simp only []
                refine ⟨fun ms h => (by cases h), ?_⟩
                intro e2 h2
                cases h2
                cases hf : f src ((t :: ts).take n) with
                | error e1 =>
                  refine ⟨e1, rfl, ?_⟩
                  intro htotal
                  obtain ⟨r, hr'⟩ := htotal ((t :: ts).take n)
                  rw [hf] at hr'; cases hr'
                | ok l =>
                  simp only [he']
                  exact ⟨e', rfl, htot⟩
              | ok ms =>
                have h1 := ih'.1 ms hr
                simp only []
                refine ⟨?_, fun e h => (by cases h)⟩
                intro ms' h
                cases h
                rw [h1]
                simp only [lintMatches, collectE, hd]

/-! ### matchers and kind-code patterns that agree -/

/-- a matcher and a kind-code pattern that answer the same on every token slice -/
def Agree (m : Matcher) (p : Pat) (code : Tok → Nat) (src : List Char) : Prop :=
  ∀ toks, m src toks = Pat.matchLen p (toks.map code)

theorem Agree.agreeOn {m : Matcher} {p : Pat} {code : Tok → Nat} {src : List Char} (h : Agree m p code src)
    (chunk : List Tok) : AgreeOn m p code src chunk := fun c _ => h (chunk.drop c)

/-- the closure `|t, _| t.kind.is_word()` is `leaf 0` -/
theorem kindAtom_isWord_agree (src : List Char) : Agree (kindAtom Kind.isWord) (.leaf 0) tokCode src := by
  intro toks
  cases toks with
  | nil => simp [kindAtom, Pat.matchLen]
  | cons t ts =>
    simp only [kindAtom, List.map_cons, Pat.matchLen, tokCode, isWord_code]
    simp

/-- any closure over the kind that is a test of the kind code -/
theorem kindAtom_agree (q : Kind → Bool) (k : Nat) (hq : ∀ kd, q kd = (kindCode kd == k)) (src : List Char) :
    Agree (kindAtom q) (.leaf k) tokCode src := by
  intro toks
  cases toks with
  | nil => simp [kindAtom, Pat.matchLen]
  | cons t ts =>
    simp only [kindAtom, List.map_cons, Pat.matchLen, tokCode, hq]
    simp

theorem whitespaceAtom_agree (src : List Char) : Agree whitespaceAtom .whitespace tokCode src := by
  intro toks
  simp only [whitespaceAtom, Pat.matchLen]
  congr 1
  induction toks with
  | nil => rfl
  | cons t ts ih =>
    simp only [countWhile, List.map_cons, Pat.wsLen, ih]
    have : t.kind.isWhitespace = Pat.isWs (tokCode t) := isWhitespace_code _
    rw [this]

/-- the matcher never answers more than it was given (the unwritten contract of `Pattern::matches`) -/
def MContract (m : Matcher) (src : List Char) : Prop := ∀ toks n, m src toks = .ok n → n ≤ toks.length

theorem seqGo_agree (code : Tok → Nat) (src : List Char) (prs : List (Matcher × Pat))
    (h : ∀ x ∈ prs, Agree x.1 x.2 code src ∧ MContract x.1 src) :
    ∀ (orig : List Tok) (acc : Nat), acc ≤ orig.length →
      seqGo src (prs.map Prod.fst) acc (orig.drop acc) =
        Pat.seqLoop (PatList.ofList (prs.map Prod.snd)) (orig.map code) acc := by
  induction prs with
  | nil => intro orig acc _; simp [seqGo, PatList.ofList, Pat.seqLoop]
  | cons x prs ih =>
    obtain ⟨m, p⟩ := x
    have hmp : Agree m p code src ∧ MContract m src := h (m, p) List.mem_cons_self
    have ih := ih (fun y hy => h y (List.mem_cons_of_mem _ hy))
    intro orig acc hacc
    simp only [List.map_cons, seqGo, PatList.ofList, Pat.seqLoop, Pat.sliceFrom, List.length_map]
    rw [if_neg (by omega), ← List.map_drop]
    simp only []
    rw [← hmp.1 (orig.drop acc)]
    cases hm : m src (orig.drop acc) with
    | error e => rfl
    | ok n =>
      simp only []
      have hn := hmp.2 _ _ hm
      rw [List.length_drop] at hn
      by_cases h0 : n = 0
      · rw [if_pos h0, if_pos h0]
      · rw [if_neg h0, if_neg h0, if_neg (by rw [List.length_drop]; omega), List.drop_drop]
        exact ih orig (acc + n) (by omega)

/-- **`SequencePattern` in the two models**: children that agree and keep the contract make sequences that agree -/
theorem seqPat_agree (code : Tok → Nat) (src : List Char) (prs : List (Matcher × Pat))
    (h : ∀ x ∈ prs, Agree x.1 x.2 code src ∧ MContract x.1 src) :
    Agree (seqPat (prs.map Prod.fst)) (.seq (PatList.ofList (prs.map Prod.snd))) code src := by
  intro toks
  have := seqGo_agree code src prs h toks 0 (Nat.zero_le _)
  simp only [List.drop_zero] at this
  rw [Pat.matchLen]
  exact this

theorem eitherGo_agree (code : Tok → Nat) (src : List Char) (prs : List (Matcher × Pat))
    (h : ∀ x ∈ prs, Agree x.1 x.2 code src) (toks : List Tok) :
    ∀ longest, eitherGo src toks (prs.map Prod.fst) longest =
      Pat.eitherLoop (PatList.ofList (prs.map Prod.snd)) (toks.map code) longest := by
  induction prs with
  | nil => intro l; simp [eitherGo, PatList.ofList, Pat.eitherLoop]
  | cons x prs ih =>
    obtain ⟨m, p⟩ := x
    have hmp : Agree m p code src := h (m, p) List.mem_cons_self
    have ih := ih (fun y hy => h y (List.mem_cons_of_mem _ hy))
    intro l
    simp only [List.map_cons, eitherGo, PatList.ofList, Pat.eitherLoop]
    rw [← hmp toks]
    cases m src toks with
    | error e => rfl
    | ok n => exact ih _

/-- **`EitherPattern` in the two models** (no slicing: no contract needed) -/
theorem eitherPat_agree (code : Tok → Nat) (src : List Char) (prs : List (Matcher × Pat))
    (h : ∀ x ∈ prs, Agree x.1 x.2 code src) :
    Agree (eitherPat (prs.map Prod.fst)) (.either (PatList.ofList (prs.map Prod.snd))) code src := by
  intro toks
  rw [Pat.matchLen]
  exact eitherGo_agree code src prs h toks 0

theorem kindAtom_contract (q : Kind → Bool) (src : List Char) : MContract (kindAtom q) src := by
  intro toks n h
  cases toks with
  | nil => simp [kindAtom] at h; cases h; simp
  | cons t ts =>
    simp only [kindAtom] at h
    cases h
    simp only [List.length_cons]
    split <;> omega

theorem whitespaceAtom_contract (src : List Char) : MContract whitespaceAtom src := by
  intro toks n h
  simp only [whitespaceAtom] at h
  cases h
  exact countWhile_le _ toks

end Harper.Rules
