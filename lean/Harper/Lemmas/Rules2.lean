import Harper.Model.Rules2
import Harper.Lemmas.Rules
import Harper.Lemmas.RulesPattern
import Harper.Lemmas.Leaves
/-!
Locality and well-formedness lemmas for the rules of `Model/Rules2.lean`.
-/
namespace Harper.Rules2
open Harper Harper.Chunks Harper.Rules Harper.Leaves

/-! ## kinds under `shiftTwin` -/

section kinds
variable (j : Nat) (k : Kind)
@[simp] theorem isHostname_shiftTwin : isHostname (shiftTwin j k) = isHostname k := by
  cases k <;> try rfl
  rename_i t; cases t <;> rfl
@[simp] theorem isComma_shiftTwin : isComma (shiftTwin j k) = isComma k := by
  cases k <;> try rfl
  rename_i t; cases t <;> rfl
end kinds

theorem shiftTwin_number (j r : Nat) (s : Option Suffix) : shiftTwin j (.number r s) = .number r s := rfl

/-- what `LintOK` is for a token's own span -/
theorem lintOK_tok {n : Nat} {t : Tok} (h : t.span.start < t.span.stop ∧ t.span.stop ≤ n) : LintOK n ⟨t.span, sg, m, a⟩ :=
  ⟨Nat.le_of_lt h.1, h.2⟩

theorem mem_singleton_lintOK {n : Nat} {x : RuleLint} (h : LintOK n x) : ∀ l ∈ [x], LintOK n l := by
  intro l hl
  simp only [List.mem_singleton] at hl
  subst hl
  exact h

/-! ## the per-token rules -/

theorem spelledNumbers_tokLocal (env : Env) : TokLocal (spelledNumbersTok env) where
  left := by
    intro P D t _ h
    simp only [spelledNumbersTok, textOf_left P D t.span h]
  right := by
    intro P D t j _
    simp only [spelledNumbersTok, shTok_kind, shTok_span, textOf_shift]
    cases hk : t.kind with
    | number r s =>
      cases s with
      | some s => rfl
      | none =>
        simp only [shiftTwin_number]
        cases env.numVal (textOf D t.span) with
        | nonInt => rfl
        | int n =>
          simp only []
          split
          · cases spellDigit n <;> rfl
          · rfl
    | quote q => cases q <;> rfl
    | _ => rfl

theorem spelledNumbers_ok (env : Env) (n : Nat) (src : List Char) (t : Tok) (h : t.span.start < t.span.stop ∧ t.span.stop ≤ n) :
    ∃ ls, spelledNumbersTok env src t = .ok ls ∧ ∀ l ∈ ls, LintOK n l := by
  simp only [spelledNumbersTok]
  split
  · split
    · rename_i m _
      split
      · rename_i hm
        have : ∃ s, spellDigit m = some s := by
          rcases (by omega : m = 0 ∨ m = 1 ∨ m = 2 ∨ m = 3 ∨ m = 4 ∨ m = 5 ∨ m = 6 ∨ m = 7 ∨ m = 8 ∨ m = 9) with
            rfl | rfl | rfl | rfl | rfl | rfl | rfl | rfl | rfl | rfl <;> exact ⟨_, rfl⟩
        obtain ⟨s, hs⟩ := this
        rw [hs]
        exact ⟨_, rfl, mem_singleton_lintOK (lintOK_tok h)⟩
      · exact ⟨[], rfl, by simp⟩
    · exact ⟨[], rfl, by simp⟩
  · exact ⟨[], rfl, by simp⟩

theorem capitalizePronoun_tokLocal : TokLocal capitalizePronounTok where
  left := by
    intro P D t _ h
    simp only [capitalizePronounTok, getContent_left' P D t.span h]
  right := by
    intro P D t j _
    simp only [capitalizePronounTok, shTok_kind, isWord_shiftTwin, shTok_span, getContent_shift']
    split
    · rfl
    · cases t.span.getContent D with
      | error e => rfl
      | ok cs => simp only []; split <;> rfl

theorem capitalizePronoun_ok (src : List Char) (t : Tok) (h : t.span.start < t.span.stop ∧ t.span.stop ≤ src.length) :
    ∃ ls, capitalizePronounTok src t = .ok ls ∧ ∀ l ∈ ls, LintOK src.length l := by
  simp only [capitalizePronounTok]
  split
  · exact ⟨[], rfl, by simp⟩
  · obtain ⟨cs, e⟩ := getContent_ok' t.span src (Nat.le_of_lt h.1) h.2
    rw [e]
    simp only []
    split
    · exact ⟨_, rfl, mem_singleton_lintOK (lintOK_tok h)⟩
    · exact ⟨[], rfl, by simp⟩

theorem avoidCurses_tokLocal (env : Env) : TokLocal (avoidCursesTok env) where
  left := by
    intro P D t _ h
    simp only [avoidCursesTok, hasFlag_left env P D t 18 h]
  right := by
    intro P D t j _
    simp only [avoidCursesTok, hasFlag_shift, shTok_span]
    split <;> rfl

theorem avoidCurses_ok (env : Env) (n : Nat) (src : List Char) (t : Tok) (h : t.span.start < t.span.stop ∧ t.span.stop ≤ n) :
    ∃ ls, avoidCursesTok env src t = .ok ls ∧ ∀ l ∈ ls, LintOK n l := by
  simp only [avoidCursesTok]
  split
  · exact ⟨_, rfl, mem_singleton_lintOK (lintOK_tok h)⟩
  · exact ⟨[], rfl, by simp⟩

theorem wordPress_tokLocal (env : Env) : TokLocal (wordPressTok env) where
  left := by
    intro P D t _ h
    simp only [wordPressTok, getContent_left' P D t.span h]
  right := by
    intro P D t j _
    simp only [wordPressTok, shTok_kind, isHostname_shiftTwin, shTok_span, getContent_shift']
    split
    · rfl
    · cases t.span.getContent D with
      | error e => rfl
      | ok cs => simp only []; split <;> rfl

theorem wordPress_ok (env : Env) (src : List Char) (t : Tok) (h : t.span.start < t.span.stop ∧ t.span.stop ≤ src.length) :
    ∃ ls, wordPressTok env src t = .ok ls ∧ ∀ l ∈ ls, LintOK src.length l := by
  simp only [wordPressTok]
  split
  · exact ⟨[], rfl, by simp⟩
  · obtain ⟨cs, e⟩ := getContent_ok' t.span src (Nat.le_of_lt h.1) h.2
    rw [e]
    simp only []
    split
    · exact ⟨_, rfl, mem_singleton_lintOK (lintOK_tok h)⟩
    · exact ⟨[], rfl, by simp⟩

/-! ## LinkingVerbs -/

theorem linkingAt_shift (env : Env) (P D : List Char) (prev : Option Tok) (t : Tok) (j : Nat) :
    linkingAt env (P ++ D) (prev.map (shTok P.length j)) (shTok P.length j t) =
      (linkingAt env D prev t).map (shiftRLs P.length) := by
  simp only [linkingAt, hasFlag_shift, shTok_span, getContent_shift']
  split
  · cases prev with
    | none => rfl
    | some p =>
      simp only [Option.map_some, hasFlag_shift]
      split
      · cases t.span.getContent D <;> rfl
      · rfl
  · rfl

theorem linkingAt_left (env : Env) (P D : List Char) (prev : Option Tok) (t : Tok)
    (hp : ∀ p, prev = some p → p.span.stop ≤ P.length) (ht : t.span.stop ≤ P.length) :
    linkingAt env (P ++ D) prev t = linkingAt env P prev t := by
  simp only [linkingAt, hasFlag_left env P D t 11 ht, getContent_left' P D t.span ht]
  cases prev with
  | none => rfl
  | some p => simp only [hasFlag_left env P D p _ (hp p rfl)]

theorem linkingGo_shift (env : Env) (P D : List Char) (j : Nat) (ts : List Tok) (prev : Option Tok) :
    linkingGo env (P ++ D) (prev.map (shTok P.length j)) (ts.map (shTok P.length j)) =
      (linkingGo env D prev ts).map (shiftRLs P.length) := by
  induction ts generalizing prev with
  | nil => rfl
  | cons t ts ih =>
    simp only [List.map_cons, linkingGo, linkingAt_shift, shTok_kind, isWord_shiftTwin]
    have e : (if t.kind.isWord = true then some (shTok P.length j t) else prev.map (shTok P.length j)) =
        (if t.kind.isWord = true then some t else prev).map (shTok P.length j) := by
      split <;> rfl
    rw [e, ih]
    cases linkingAt env D prev t with
    | error e => rfl
    | ok l =>
      cases linkingGo env D (if t.kind.isWord = true then some t else prev) ts with
      | error e => rfl
      | ok r => simp [Except.map, shiftRLs_append]

theorem linkingGo_left (env : Env) (P D : List Char) (ts : List Tok) (prev : Option Tok)
    (hp : ∀ p, prev = some p → p.span.stop ≤ P.length) (h : ∀ t ∈ ts, t.span.stop ≤ P.length) :
    linkingGo env (P ++ D) prev ts = linkingGo env P prev ts := by
  induction ts generalizing prev with
  | nil => rfl
  | cons t ts ih =>
    have ht := h t (by simp)
    simp only [linkingGo, linkingAt_left env P D prev t hp ht]
    rw [ih _ (by
      intro p hpp
      split at hpp
      · cases hpp; exact ht
      · exact hp p hpp) (fun u hu => h u (List.mem_cons_of_mem _ hu))]

theorem linkingVerbs_xlocal (env : Env) : XLocalE (linkingVerbsPiece env) where
  nil := fun _ => rfl
  left := by
    intro P D piece h
    exact linkingGo_left env P D piece none (fun _ hp => by cases hp) (fun t ht => (h t ht).2)
  right := by
    intro P D piece j _
    exact linkingGo_shift env P D j piece none

theorem linkingGo_ok (env : Env) (src : List Char) (ts : List Tok)
    (h : ∀ t ∈ ts, t.span.start < t.span.stop ∧ t.span.stop ≤ src.length) (prev : Option Tok) :
    ∃ ls, linkingGo env src prev ts = .ok ls ∧ ∀ l ∈ ls, LintOK src.length l := by
  induction ts generalizing prev with
  | nil => exact ⟨[], rfl, by simp⟩
  | cons t ts ih =>
    have ht := h t (by simp)
    obtain ⟨r, er, hr⟩ := ih (fun u hu => h u (List.mem_cons_of_mem _ hu)) (if t.kind.isWord = true then some t else prev)
    have hat : ∃ l, linkingAt env src prev t = .ok l ∧ ∀ x ∈ l, LintOK src.length x := by
      simp only [linkingAt]
      split
      · cases prev with
        | none => exact ⟨[], rfl, by simp⟩
        | some p =>
          simp only []
          split
          · obtain ⟨cs, e⟩ := getContent_ok' t.span src (Nat.le_of_lt ht.1) ht.2
            rw [e]
            exact ⟨_, rfl, mem_singleton_lintOK (lintOK_tok ht)⟩
          · exact ⟨[], rfl, by simp⟩
      · exact ⟨[], rfl, by simp⟩
    obtain ⟨l, el, hl⟩ := hat
    refine ⟨l ++ r, by simp only [linkingGo, el, er], ?_⟩
    intro x hx
    rcases List.mem_append.mp hx with hx | hx
    · exact hl x hx
    · exact hr x hx

theorem linkingVerbs_ok (env : Env) (src : List Char) (chunk : List Tok) (ho : Ord src.length chunk) :
    ∃ ls, linkingVerbsPiece env src chunk = .ok ls ∧ ∀ l ∈ ls, LintOK src.length l :=
  linkingGo_ok env src chunk ho.2 none

end Harper.Rules2

namespace Harper.Rules2
open Harper Harper.Chunks Harper.Rules Harper.Leaves

/-! ## never out of fuel: the thirteen struct rules of `Model/Rules2.lean` (w26) -/

theorem spanNew_noFuel (s e : Nat) : Span.new s e ≠ .error .outOfFuel := by
  intro h; unfold Span.new at h; split at h <;> cases h

theorem walkE_nf (f : List Tok → List Tok → Except Panic (List RuleLint)) (hf : ∀ pre suf, f pre suf ≠ .error .outOfFuel) :
    ∀ (ts pre : List Tok), walkE f pre ts ≠ .error .outOfFuel
  | [], _ => by intro h; simp only [walkE] at h; cases h
  | t :: ts, pre => by
    intro h
    simp only [walkE] at h
    split at h
    · rename_i e hc; cases h; exact hf _ _ hc
    · split at h
      · rename_i e hc; cases h; exact walkE_nf f hf ts _ hc
      · cases h

theorem ruleSpelledNumbers_nf (env : Env) (src : List Char) (toks : List Tok) : ruleSpelledNumbers env src toks ≠ .error .outOfFuel :=
  collectE_nf _ _ fun t _ => by
    intro h
    simp only [spelledNumbersTok] at h
    repeat' split at h
    all_goals cases h

theorem ruleCapitalizePersonalPronouns_nf (env : Env) (src : List Char) (toks : List Tok) :
    ruleCapitalizePersonalPronouns env src toks ≠ .error .outOfFuel :=
  collectE_nf _ _ fun t _ => by
    intro h
    simp only [capitalizePronounTok] at h
    split at h
    · cases h
    · split at h
      · rename_i e hc; cases h; exact getContent_nf _ _ hc
      · split at h <;> cases h

theorem ruleAvoidCurses_nf (env : Env) (src : List Char) (toks : List Tok) : ruleAvoidCurses env src toks ≠ .error .outOfFuel :=
  collectE_nf _ _ fun t _ => by
    intro h
    simp only [avoidCursesTok] at h
    split at h <;> cases h

theorem ruleWordPressDotcom_nf (env : Env) (src : List Char) (toks : List Tok) : ruleWordPressDotcom env src toks ≠ .error .outOfFuel :=
  collectE_nf _ _ fun t _ => by
    intro h
    simp only [wordPressTok] at h
    split at h
    · cases h
    · split at h
      · rename_i e hc; cases h; exact getContent_nf _ _ hc
      · split at h <;> cases h

theorem linkingAt_nf (env : Env) (src : List Char) (prev : Option Tok) (t : Tok) : linkingAt env src prev t ≠ .error .outOfFuel := by
  intro h
  simp only [linkingAt] at h
  split at h
  · split at h
    · cases h
    · split at h
      · split at h
        · rename_i e hc; cases h; exact getContent_nf _ _ hc
        · cases h
      · cases h
  · cases h

theorem linkingGo_nf (env : Env) (src : List Char) : ∀ (ts : List Tok) (prev : Option Tok), linkingGo env src prev ts ≠ .error .outOfFuel
  | [], _ => by intro h; simp only [linkingGo] at h; cases h
  | t :: ts, prev => by
    intro h
    simp only [linkingGo] at h
    split at h
    · rename_i e hc; cases h; exact linkingAt_nf _ _ _ _ hc
    · split at h
      · rename_i e hc; cases h; exact linkingGo_nf env src ts _ hc
      · cases h

theorem ruleLinkingVerbs_nf (env : Env) (src : List Char) (toks : List Tok) : ruleLinkingVerbs env src toks ≠ .error .outOfFuel :=
  collectE_nf _ _ fun p _ => linkingGo_nf env src p none

theorem commaAt_nf (src : List Char) (pre suf : List Tok) : commaAt src pre suf ≠ .error .outOfFuel := by
  intro h
  unfold commaAt at h
  split at h
  · cases h
  · split at h
    · cases h
    · split at h
      · rename_i e hc; cases h; exact getContent_nf _ _ hc
      · split at h
        · cases h
        · split at h
          · cases h
          · cases h
          · split at h <;> cases h
          · split at h
            · cases h
            · split at h
              · rename_i e hc; cases h; exact spanNew_noFuel _ _ hc
              · cases h

theorem ruleCommaFixes_nf (env : Env) (src : List Char) (toks : List Tok) : ruleCommaFixes env src toks ≠ .error .outOfFuel :=
  walkE_nf _ (commaAt_nf src) toks []

theorem mergeLint_nf (c : Bool) (a b : Tok) (m : List Char) (code : Nat) : mergeLint c a b m code ≠ .error .outOfFuel := by
  intro h
  simp only [mergeLint] at h
  split at h
  · split at h
    · rename_i e hc; cases h; exact spanNew_noFuel _ _ hc
    · cases h
  · cases h

theorem mergeAt_nf (env : Env) (src : List Char) (pre suf : List Tok) : mergeAt env src pre suf ≠ .error .outOfFuel := by
  intro h
  unfold mergeAt at h
  split at h
  · split at h
    · cases h
    · split at h
      · rename_i e hc; cases h; exact getContent_nf _ _ hc
      · split at h
        · rename_i e hc; cases h; exact getContent_nf _ _ hc
        · split at h
          · cases h
          · split at h
            · cases h
            · dsimp only at h
              split at h
              · rename_i e hc; cases h; exact mergeLint_nf _ _ _ _ _ hc
              · split at h
                · rename_i e hc; cases h; exact mergeLint_nf _ _ _ _ _ hc
                · cases h
  · cases h

theorem ruleMergeWords_nf (env : Env) (src : List Char) (toks : List Tok) : ruleMergeWords env src toks ≠ .error .outOfFuel :=
  walkE_nf _ (mergeAt_nf env src) toks []

theorem adjOfATail_nf (src : List Char) (adj : Tok) (adjc : List Char) (rest : List Tok) :
    adjOfATail src adj adjc rest ≠ .error .outOfFuel := by
  intro h
  unfold adjOfATail at h
  split at h
  · split at h
    · cases h
    · split at h
      · cases h
      · split at h
        · rename_i e hc; cases h; exact getContent_nf _ _ hc
        · split at h
          · cases h
          · split at h
            · cases h
            · split at h
              · cases h
              · split at h
                · rename_i e hc; cases h; exact getContent_nf _ _ hc
                · split at h
                  · cases h
                  · split at h
                    · rename_i e hc; cases h; exact getContent_nf _ _ hc
                    · split at h
                      · rename_i e hc; cases h; exact getContent_nf _ _ hc
                      · split at h
                        · rename_i e hc; cases h; exact spanNew_noFuel _ _ hc
                        · cases h
  · cases h

theorem adjOfAAt_nf (env : Env) (src : List Char) (pre suf : List Tok) : adjOfAAt env src pre suf ≠ .error .outOfFuel := by
  intro h
  unfold adjOfAAt at h
  split at h
  · cases h
  · split at h
    · cases h
    · split at h
      · rename_i e hc; cases h; exact getContent_nf _ _ hc
      · split at h
        · cases h
        · split at h
          · cases h
          · split at h
            · cases h
            · exact adjOfATail_nf _ _ _ _ h

theorem ruleAdjectiveOfA_nf (env : Env) (src : List Char) (toks : List Tok) : ruleAdjectiveOfA env src toks ≠ .error .outOfFuel :=
  walkE_nf _ (adjOfAAt_nf env src) toks []

theorem thenE_nf (a b : Except Panic (List RuleLint)) (ha : a ≠ .error .outOfFuel) (hb : b ≠ .error .outOfFuel) :
    thenE a b ≠ .error .outOfFuel := by
  intro h
  unfold thenE at h
  split at h
  · cases h; exact ha rfl
  · split at h
    · cases h; exact hb rfl
    · cases h

theorem checkStem_nf (env : Env) (ends : Bool) (prep word : Tok) (prepTo stem : List Char) :
    checkStem env ends prep word prepTo stem ≠ .error .outOfFuel := by
  intro h
  simp only [checkStem] at h
  split at h
  · split at h
    · rename_i e hc; cases h; exact spanNew_noFuel _ _ hc
    · cases h
  · cases h

theorem inflectedAt_nf (env : Env) (src : List Char) (pre suf : List Tok) : inflectedAt env src pre suf ≠ .error .outOfFuel := by
  intro h
  unfold inflectedAt at h
  split at h
  · split at h
    · cases h
    · split at h
      · cases h
      · split at h
        · rename_i e hc; cases h; exact getContent_nf _ _ hc
        · split at h
          · cases h
          · split at h
            · rename_i e hc; cases h; exact getContent_nf _ _ hc
            · split at h
              · cases h
              · exact thenE_nf _ _ (thenE_nf _ _ (checkStem_nf _ _ _ _ _ _) (checkStem_nf _ _ _ _ _ _))
                  (thenE_nf _ _ (checkStem_nf _ _ _ _ _ _) (checkStem_nf _ _ _ _ _ _)) h
  · cases h

theorem ruleInflectedVerbAfterTo_nf (env : Env) (src : List Char) (toks : List Tok) :
    ruleInflectedVerbAfterTo env src toks ≠ .error .outOfFuel :=
  walkE_nf _ (inflectedAt_nf env src) toks []

theorem oxfordMatch_nf (env : Env) (src : List Char) (m : List Tok) : oxfordMatch env src m ≠ .error .outOfFuel := by
  intro h
  simp only [oxfordMatch] at h
  split at h
  · cases h
  · split at h
    · cases h
    · split at h <;> cases h

theorem ruleOxfordComma_nf (env : Env) (src : List Char) (toks : List Tok) : ruleOxfordComma env src toks ≠ .error .outOfFuel :=
  collectE_nf _ _ fun sent _ => runOnChunkGo_nf _ (matcher_nf env oxfordPat) _ src (oxfordMatch_nf env src) sent _

theorem noOxfordMatch_nf (env : Env) (src : List Char) (m : List Tok) : noOxfordMatch env src m ≠ .error .outOfFuel := by
  intro h
  simp only [noOxfordMatch] at h
  split at h
  · cases h
  · split at h <;> cases h

theorem ruleNoOxfordComma_nf (env : Env) (src : List Char) (toks : List Tok) : ruleNoOxfordComma env src toks ≠ .error .outOfFuel :=
  collectE_nf _ _ fun sent _ => runOnChunkGo_nf _ (matcher_nf env noOxfordPat) _ src (noOxfordMatch_nf env src) sent _

theorem widelyMatch_nf (env : Env) (src : List Char) (m : List Tok) : widelyMatch env src m ≠ .error .outOfFuel := by
  intro h
  simp only [widelyMatch] at h
  split at h
  · cases h
  · split at h
    · rename_i e hc; cases h; exact getContent_nf _ _ hc
    · cases h

theorem ruleWidelyAccepted_nf (env : Env) (src : List Char) (toks : List Tok) : ruleWidelyAccepted env src toks ≠ .error .outOfFuel :=
  collectE_nf _ _ fun c _ => runOnChunkGo_nf _ (matcher_nf env widelyPat) _ src (widelyMatch_nf env src) c _

theorem theHowWhyMatch_nf (env : Env) (src : List Char) (m : List Tok) : theHowWhyMatch env src m ≠ .error .outOfFuel := by
  intro h
  simp only [theHowWhyMatch] at h
  split at h
  · rename_i e hc; cases h; exact sliceE_nf _ _ _ hc
  · split at h
    · cases h
    · split at h
      · cases h
      · split at h
        · rename_i e hc; cases h; exact getContent_nf _ _ hc
        · cases h

theorem ruleTheHowWhy_nf (env : Env) (src : List Char) (toks : List Tok) : ruleTheHowWhy env src toks ≠ .error .outOfFuel :=
  collectE_nf _ _ fun c _ => runOnChunkGo_nf _ (matcher_nf env theHowWhyPat) _ src (theHowWhyMatch_nf env src) c _

end Harper.Rules2
