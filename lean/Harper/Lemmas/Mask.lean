import Harper.Model.Mask
/-!
Lemmas about the offset glue (`Harper.Model.Mask`), used by `Harper.Props.C04`.
-/
namespace Harper

/-- equality of results is decidable (for the concrete `example`s) -/
instance instDecidableEqExcept {ε α} [DecidableEq ε] [DecidableEq α] : DecidableEq (Except ε α)
  | .ok a, .ok b => if h : a = b then isTrue (by rw [h]) else isFalse (by intro h'; cases h'; exact h rfl)
  | .error a, .error b => if h : a = b then isTrue (by rw [h]) else isFalse (by intro h'; cases h'; exact h rfl)
  | .ok _, .error _ => isFalse (by intro h; cases h)
  | .error _, .ok _ => isFalse (by intro h; cases h)

/-! ## UTF-8 as a list of per-character byte groups -/

/-- a well-formed encoded character: a non-continuation byte followed by continuation bytes -/
def WFGroup (g : List Nat) : Prop :=
  ∃ h t, g = h :: t ∧ isCont h = false ∧ ∀ b ∈ t, isCont b = true

/-- byte offset of character `k` -/
def byteOff (gs : List (List Nat)) (k : Nat) : Nat := ((gs.take k).flatten).length

theorem charCount_append (a b : List Nat) : charCount (a ++ b) = charCount a + charCount b := by
  simp [charCount, List.countP_append]

theorem charCount_group {g : List Nat} (h : WFGroup g) : charCount g = 1 := by
  obtain ⟨x, t, rfl, hx, ht⟩ := h
  have : List.countP (fun b => !isCont b) t = 0 := by
    rw [List.countP_eq_zero]
    intro b hb
    simp [ht b hb]
  simp [charCount, hx, this]

theorem charCount_flatten {gs : List (List Nat)} (h : ∀ g ∈ gs, WFGroup g) :
    charCount gs.flatten = gs.length := by
  induction gs with
  | nil => simp [charCount]
  | cons g gs ih =>
    have h1 := charCount_group (h g (by simp))
    have h2 := ih (fun g' hg' => h g' (by simp [hg']))
    simp [List.flatten_cons, charCount_append, h1, h2]
    omega

theorem byteOff_zero (gs : List (List Nat)) : byteOff gs 0 = 0 := by simp [byteOff]

theorem byteOff_add (gs : List (List Nat)) (a d : Nat) :
    byteOff gs (a + d) = byteOff gs a + (((gs.drop a).take d).flatten).length := by
  simp [byteOff, List.take_add, List.flatten_append]

theorem byteOff_mono (gs : List (List Nat)) {a b : Nat} (h : a ≤ b) : byteOff gs a ≤ byteOff gs b := by
  obtain ⟨d, rfl⟩ := Nat.exists_eq_add_of_le h
  rw [byteOff_add]; omega

theorem byteOff_length (gs : List (List Nat)) : byteOff gs gs.length = gs.flatten.length := by
  simp [byteOff]

theorem byteOff_le (gs : List (List Nat)) {k : Nat} (h : k ≤ gs.length) :
    byteOff gs k ≤ gs.flatten.length := by
  rw [← byteOff_length]; exact byteOff_mono gs h

/-- the bytes between two character offsets are the groups between them -/
theorem flatten_slice (gs : List (List Nat)) (a d : Nat) :
    ((gs.flatten).drop (byteOff gs a)).take (byteOff gs (a + d) - byteOff gs a) =
      ((gs.drop a).take d).flatten := by
  have h1 : gs.flatten = (gs.take a).flatten ++ (gs.drop a).flatten := by
    rw [← List.flatten_append, List.take_append_drop]
  have h2 : (gs.drop a).flatten =
      ((gs.drop a).take d).flatten ++ ((gs.drop a).drop d).flatten := by
    rw [← List.flatten_append, List.take_append_drop]
  rw [byteOff_add]
  have : byteOff gs a = ((gs.take a).flatten).length := rfl
  rw [this, h1, List.drop_left, h2]
  simp

theorem isBoundary_byteOff {gs : List (List Nat)} (h : ∀ g ∈ gs, WFGroup g) {k : Nat}
    (hk : k ≤ gs.length) : isBoundary gs.flatten (byteOff gs k) = true := by
  by_cases hlt : k < gs.length
  · -- the byte at the offset is the leading byte of group k
    have hsplit : gs = gs.take k ++ gs[k] :: gs.drop (k + 1) := by
      simp
    obtain ⟨x, t, hg, hx, _⟩ := h gs[k] (List.getElem_mem hlt)
    have hfl : gs.flatten = (gs.take k).flatten ++ (x :: (t ++ (gs.drop (k + 1)).flatten)) := by
      conv => lhs; rw [hsplit]
      simp [List.flatten_append, hg]
    have hget : gs.flatten[byteOff gs k]? = some x := by
      rw [hfl, List.getElem?_append_right (by simp [byteOff])]
      simp [byteOff]
    simp [isBoundary, hget, hx]
  · have : k = gs.length := by omega
    subst this
    simp [isBoundary, byteOff_length]

theorem sliceCount_groups {gs : List (List Nat)} (h : ∀ g ∈ gs, WFGroup g) {a b : Nat}
    (hab : a ≤ b) (hb : b ≤ gs.length) :
    sliceCount gs.flatten (byteOff gs a) (byteOff gs b) = .ok (b - a) := by
  obtain ⟨d, rfl⟩ := Nat.exists_eq_add_of_le hab
  have h1 := byteOff_mono gs hab
  have h2 := byteOff_le gs hb
  have h3 := isBoundary_byteOff h (k := a) (by omega)
  have h4 := isBoundary_byteOff h hb
  unfold sliceCount
  rw [if_pos ⟨h1, h2, h3, h4⟩, flatten_slice]
  have hw : ∀ g ∈ (gs.drop a).take d, WFGroup g := fun g hg =>
    h g (List.mem_of_mem_drop (List.mem_of_mem_take hg))
  rw [charCount_flatten hw]
  simp
  omega

/-! ## `byte_spans_to_char_spans` on a chain of character ranges -/

/-- character ranges `(a, b)` in increasing order, pairwise disjoint, inside `n` characters -/
def CharChain (n : Nat) : Nat → List (Nat × Nat) → Prop
  | _, [] => True
  | lo, (a, b) :: rest => lo ≤ a ∧ a ≤ b ∧ b ≤ n ∧ CharChain n b rest

def toByteSpan (gs : List (List Nat)) (p : Nat × Nat) : Span := ⟨byteOff gs p.1, byteOff gs p.2⟩
def toCharSpan (p : Nat × Nat) : Span := ⟨p.1, p.2⟩

theorem convLoop_chain {gs : List (List Nat)} (h : ∀ g ∈ gs, WFGroup g) :
    ∀ (cs : List (Nat × Nat)) (lo : Nat), lo ≤ gs.length → CharChain gs.length lo cs →
      convLoop gs.flatten (byteOff gs lo) lo (cs.map (toByteSpan gs)) = .ok (cs.map toCharSpan) := by
  intro cs
  induction cs with
  | nil => intro lo _ _; rfl
  | cons p rest ih =>
    intro lo hlo hc
    obtain ⟨a, b⟩ := p
    obtain ⟨h1, h2, h3, h4⟩ := hc
    have e1 := sliceCount_groups h h1 (by omega : a ≤ gs.length)
    have e2 := sliceCount_groups h h2 h3
    have e3 := ih b h3 h4
    have ha : lo + (a - lo) = a := by omega
    have hb : a + (b - a) = b := by omega
    simp only [List.map_cons, convLoop, toByteSpan, e1, e2, toCharSpan]
    simp only [bind, Except.bind, pure, Except.pure, ha, hb]
    rw [e3]

theorem insertByStart_head (x : Span) (l : List Span) (h : ∀ y ∈ l.head?, x.start ≤ y.start) :
    insertByStart x l = x :: l := by
  cases l with
  | nil => rfl
  | cons y ys => simp [insertByStart, h y (by simp)]

/-- spans whose starts are non-decreasing -/
def SpanStartSorted : List Span → Prop
  | [] => True
  | [_] => True
  | a :: b :: rest => a.start ≤ b.start ∧ SpanStartSorted (b :: rest)

theorem sortByStart_sorted : ∀ (l : List Span), SpanStartSorted l → sortByStart l = l
  | [], _ => rfl
  | [a], _ => rfl
  | a :: b :: rest, h => by
    have ih := sortByStart_sorted (b :: rest) h.2
    simp only [sortByStart] at ih ⊢
    rw [ih]
    exact insertByStart_head a (b :: rest) (by simp [h.1])

/-- consecutive spans do not overlap (`prev.stop ≤ next.start`) -/
def Abutting : List Span → Prop
  | [] => True
  | [_] => True
  | a :: b :: rest => a.stop ≤ b.start ∧ Abutting (b :: rest)

theorem retainAux_abutting : ∀ (prev : Span) (l : List Span), Abutting (prev :: l) → retainAux prev l = l
  | _, [], _ => rfl
  | prev, c :: cs, h => by
    have h1 : c.overlapsWith prev = false := by
      simp [Span.overlapsWith]
      intro hlt
      have := h.1
      omega
    simp [retainAux, h1, retainAux_abutting c cs h.2]

theorem retainStep_abutting (l : List Span) (h : Abutting l) : retainStep l = l := by
  cases l with
  | nil => rfl
  | cons c cs => simp [retainStep, retainAux_abutting c cs h]

theorem chain_spanStartSorted (gs : List (List Nat)) :
    ∀ (cs : List (Nat × Nat)) (lo : Nat), CharChain gs.length lo cs →
      SpanStartSorted (cs.map (toByteSpan gs)) ∧ Abutting (cs.map (toByteSpan gs))
  | [], _, _ => ⟨trivial, trivial⟩
  | [_], _, _ => ⟨trivial, trivial⟩
  | (a, b) :: (c, d) :: rest, lo, h => by
    obtain ⟨_, h2, _, h4⟩ := h
    have ih := chain_spanStartSorted gs ((c, d) :: rest) b h4
    obtain ⟨h5, _, _, _⟩ := h4
    refine ⟨⟨?_, ih.1⟩, ⟨?_, ih.2⟩⟩
    · exact byteOff_mono gs (by omega : a ≤ c)
    · exact byteOff_mono gs h5

theorem chain_pairwise (n : Nat) :
    ∀ (cs : List (Nat × Nat)) (lo : Nat), CharChain n lo cs →
      (∀ p ∈ cs, lo ≤ p.1 ∧ p.1 ≤ p.2 ∧ p.2 ≤ n) ∧
      (cs.map toCharSpan).Pairwise (fun x y => x.stop ≤ y.start)
  | [], _, _ => by simp
  | (a, b) :: rest, lo, h => by
    obtain ⟨h1, h2, h3, h4⟩ := h
    obtain ⟨i1, i2⟩ := chain_pairwise n rest b h4
    refine ⟨?_, ?_⟩
    · intro p hp
      rcases List.mem_cons.mp hp with rfl | hp
      · exact ⟨h1, h2, h3⟩
      · have := i1 p hp; omega
    · simp only [List.map_cons, List.pairwise_cons]
      refine ⟨?_, i2⟩
      intro y hy
      obtain ⟨p, hp, rfl⟩ := List.mem_map.mp hy
      have := i1 p hp
      simp [toCharSpan]; omega

/-! ## `Mask`: the invariant and the operations that maintain it -/

/-- the mask invariant: spans well-formed, inside `n` characters, sorted and pairwise disjoint -/
def MaskOK (n : Nat) (m : List Span) : Prop :=
  (∀ s ∈ m, s.start ≤ s.stop ∧ s.stop ≤ n) ∧ m.Pairwise (fun a b => a.stop ≤ b.start)

theorem MaskOK.nil (n : Nat) : MaskOK n [] := ⟨by simp, List.Pairwise.nil⟩

theorem MaskOK.tail {n : Nat} {a : Span} {m : List Span} (h : MaskOK n (a :: m)) : MaskOK n m :=
  ⟨fun s hs => h.1 s (by simp [hs]), (List.pairwise_cons.mp h.2).2⟩

theorem getContent_eq {α} (s : Span) (l : List α) (h1 : s.start ≤ s.stop) (h2 : s.stop ≤ l.length) :
    s.getContent l = .ok (slice l s) := by
  unfold Span.getContent slice
  rw [if_neg (by omega)]
  by_cases h : s.start ≥ l.length ∨ s.stop > l.length
  · rw [if_pos h]
    have : s.stop = s.start := by omega
    simp [this]
  · rw [if_neg h]

theorem slice_length {α} (s : Span) (l : List α) (h2 : s.stop ≤ l.length) :
    (slice l s).length = s.stop - s.start := by
  simp [slice]; omega

theorem pushAllowed_ok {n : Nat} {m : List Span} {a : Span} (hm : MaskOK n m)
    (ha : a.start ≤ a.stop) (hn : a.stop ≤ n) (hl : ∀ l, m.getLast? = some l → l.stop ≤ a.start) :
    ∃ m', pushAllowed m a = .ok m' ∧ MaskOK n m' ∧ m'.getLast?.map (·.stop) = some a.stop := by
  unfold pushAllowed
  cases hg : m.getLast? with
  | none =>
    refine ⟨[a], rfl, ⟨?_, by simp⟩, by simp⟩
    intro s hs; simp at hs; subst hs; exact ⟨ha, hn⟩
  | some last =>
    obtain ⟨ys, rfl⟩ := List.getLast?_eq_some_iff.mp hg
    have hle := hl last hg
    have hlast := hm.1 last (by simp)
    have hp := List.pairwise_append.mp hm.2
    simp only []
    rw [if_neg (by omega)]
    by_cases he : a.start = last.stop
    · rw [if_pos he]
      refine ⟨_, rfl, ⟨?_, ?_⟩, by simp⟩
      · intro s hs
        simp at hs
        rcases hs with hs | rfl
        · exact hm.1 s (by simp [hs])
        · simp; omega
      · simp only [List.dropLast_concat]
        refine List.pairwise_append.mpr ⟨hp.1, by simp, ?_⟩
        intro x hx y hy
        simp at hy; subst hy
        have := hp.2.2 x hx last (by simp)
        simpa using this
    · rw [if_neg he]
      refine ⟨_, rfl, ⟨?_, ?_⟩, by simp⟩
      · intro s hs
        rcases List.mem_append.mp hs with hs | hs
        · exact hm.1 s hs
        · simp at hs; subst hs; exact ⟨ha, hn⟩
      · refine List.pairwise_append.mpr ⟨hm.2, by simp, ?_⟩
        intro x hx y hy
        simp at hy; subst hy
        simp at hx
        rcases hx with hx | rfl
        · have := hp.2.2 x hx last (by simp)
          omega
        · omega

/-- `push_allowed` panics exactly when the new span starts before the last one ends -/
theorem pushAllowed_panics_iff (m : List Span) (a : Span) :
    pushAllowed m a = .error .assertFail ↔ ∃ l, m.getLast? = some l ∧ a.start < l.stop := by
  unfold pushAllowed
  cases hg : m.getLast? with
  | none => simp
  | some last =>
    simp only []
    by_cases h : a.start < last.stop
    · simp [h]
    · rw [if_neg h]
      constructor
      · intro hc; split at hc <;> cases hc
      · rintro ⟨l, hl, h2⟩; cases hl; omega

theorem wsPass_ok (isWs : Char → Bool) (src : List Char) :
    ∀ (k : Nat) (m : List Span) (lo : Nat), m.length ≤ k → MaskOK src.length m → (∀ s ∈ m, lo ≤ s.start) →
      ∃ m', wsPass isWs src m = .ok m' ∧ MaskOK src.length m' ∧ (∀ s ∈ m', lo ≤ s.start) ∧
        m'.length ≤ m.length := by
  intro k
  induction k with
  | zero =>
    intro m lo hk hm hlo
    have : m = [] := by cases m <;> simp_all
    subst this
    exact ⟨[], rfl, hm, hlo, by simp⟩
  | succ k ih =>
    intro m lo hk hm hlo
    match m, hk, hm, hlo with
    | [], _, hm, hlo => exact ⟨[], rfl, hm, hlo, by simp⟩
    | [a], _, hm, hlo => exact ⟨[a], rfl, hm, hlo, by simp⟩
    | a :: b :: rest, hk, hm, hlo =>
      have hab : a.stop ≤ b.start := (List.pairwise_cons.mp hm.2).1 b (by simp)
      have ha := hm.1 a (by simp)
      have hb := hm.1 b (by simp)
      have hsep : Span.new a.stop b.start = .ok ⟨a.stop, b.start⟩ := by
        simp [Span.new]; omega
      have hcont := getContent_eq (⟨a.stop, b.start⟩ : Span) src (by simpa using hab) (by simp; omega)
      simp only [wsPass, hsep, bind, Except.bind, hcont]
      by_cases hws : (slice src ⟨a.stop, b.start⟩).all isWs = true
      · rw [if_pos hws]
        have hnew : Span.new a.start b.stop = .ok ⟨a.start, b.stop⟩ := by
          simp [Span.new]; omega
        have hrest : MaskOK src.length rest := hm.tail.tail
        have hlo' : ∀ s ∈ rest, b.stop ≤ s.start := fun s hs =>
          (List.pairwise_cons.mp (List.pairwise_cons.mp hm.2).2).1 s hs
        obtain ⟨r, hr, hok, hrlo, hlen⟩ := ih rest b.stop (by simp at hk; omega) hrest hlo'
        simp only [hnew, hr, pure, Except.pure]
        refine ⟨_, rfl, ⟨?_, ?_⟩, ?_, by simp; omega⟩
        · intro s hs
          rcases List.mem_cons.mp hs with rfl | hs
          · simp; omega
          · exact hok.1 s hs
        · exact List.pairwise_cons.mpr ⟨fun s hs => by simpa using hrlo s hs, hok.2⟩
        · intro s hs
          rcases List.mem_cons.mp hs with rfl | hs
          · simpa using hlo a (by simp)
          · have := hrlo s hs; have := hlo b (by simp); omega
      · rw [if_neg hws]
        have hlo' : ∀ s ∈ b :: rest, a.stop ≤ s.start := fun s hs =>
          (List.pairwise_cons.mp hm.2).1 s hs
        obtain ⟨r, hr, hok, hrlo, hlen⟩ := ih (b :: rest) a.stop (by simp at hk ⊢; omega) hm.tail hlo'
        simp only [hr, pure, Except.pure]
        refine ⟨_, rfl, ⟨?_, ?_⟩, ?_, by simp at hlen ⊢; omega⟩
        · intro s hs
          rcases List.mem_cons.mp hs with rfl | hs
          · exact ha
          · exact hok.1 s hs
        · exact List.pairwise_cons.mpr ⟨fun s hs => hrlo s hs, hok.2⟩
        · intro s hs
          rcases List.mem_cons.mp hs with rfl | hs
          · exact hlo s (by simp)
          · have := hrlo s hs; have := hlo a (by simp); omega

theorem mergeWhitespaceSep_ok (isWs : Char → Bool) (src : List Char) :
    ∀ (fuel : Nat) (m : List Span), m.length < fuel → MaskOK src.length m →
      ∃ m', mergeWhitespaceSep isWs src fuel m = .ok m' ∧ MaskOK src.length m' := by
  intro fuel
  induction fuel with
  | zero => intro m h; omega
  | succ fuel ih =>
    intro m hf hm
    obtain ⟨after, ha, hok, _, hlen⟩ := wsPass_ok isWs src m.length m 0 (Nat.le_refl _) hm (by simp)
    simp only [mergeWhitespaceSep, ha, bind, Except.bind]
    by_cases hne : after.length ≠ m.length
    · rw [if_pos hne]
      exact ih after (by omega) hok
    · rw [if_neg hne]
      exact ⟨after, rfl, hok⟩

/-! ## `parsers::Mask::parse` -/

/-- tokens the glue itself inserts between chunks -/
def IsGlue (t : Tok) : Prop := t.kind = .paragraphBreak ∨ t.kind = .newline 1

/-- `Faithful inner src toks`: every token is either a structural break inserted by the glue, or
the image `t.shift off` of a token `t` the inner parser produced on a chunk that *is* the text of
the file at offset `off` — so the text of the file under the token is the text the inner parser saw
under it (`faithful_text`). -/
def Faithful (inner : List Char → List Tok) (src : List Char) (toks : List Tok) : Prop :=
  ∀ tok ∈ toks, IsGlue tok ∨
    ∃ off chunk t, chunk = (src.drop off).take chunk.length ∧ off + chunk.length ≤ src.length ∧
      t ∈ inner chunk ∧ tok = t.shift off

/-- the text under a shifted token is the text the inner parser saw under the original -/
theorem faithful_text {src chunk : List Char} {off : Nat} (t : Tok)
    (hc : chunk = (src.drop off).take chunk.length) (hb : t.span.stop ≤ chunk.length) :
    slice src (t.shift off).span = slice chunk t.span := by
  conv => rhs; rw [hc]
  simp only [slice, Tok.shift, Span.pushBy, List.drop_take, List.drop_drop, List.take_take]
  congr 1
  · omega
  · congr 1; omega

theorem Faithful.nil {inner src} : Faithful inner src [] := by
  intro t ht; cases ht

theorem Faithful.append {inner src a b} (ha : Faithful inner src a) (hb : Faithful inner src b) :
    Faithful inner src (a ++ b) := by
  intro t ht
  rcases List.mem_append.mp ht with h | h
  · exact ha t h
  · exact hb t h

theorem gapBreak_ok (src : List Char) (last : Option Span) (s : Span) (lo : Nat)
    (hl : ∀ l, last = some l → l.stop = lo) (h1 : lo ≤ s.start) (h2 : s.start ≤ src.length) :
    ∃ brk, gapBreak src last s = .ok brk ∧ brk.length ≤ 1 ∧
      ∀ t ∈ brk, t.kind = .paragraphBreak ∧ t.span = ⟨lo, s.start⟩ := by
  cases last with
  | none => exact ⟨[], rfl, by simp, by simp⟩
  | some l =>
    have := hl l rfl
    subst this
    have hsep : Span.new l.stop s.start = .ok ⟨l.stop, s.start⟩ := by
      simp [Span.new]; omega
    have hcont := getContent_eq (⟨l.stop, s.start⟩ : Span) src (by simpa using h1) (by simpa using h2)
    simp only [gapBreak, hsep, bind, Except.bind, hcont, pure, Except.pure]
    refine ⟨_, rfl, ?_, ?_⟩
    · split <;> simp
    · intro t ht
      split at ht
      · simp at ht; subst ht; simp
      · simp at ht

/-- the inner parser keeps its tokens inside the chunk it is given, in order -/
def InnerOK (inner : List Char → List Tok) : Prop :=
  ∀ c, (∀ t ∈ inner c, t.span.start ≤ t.span.stop ∧ t.span.stop ≤ c.length) ∧
    (inner c).Pairwise (fun a b => a.span.stop ≤ b.span.start)

theorem maskLoop_ok (src : List Char) (inner : List Char → List Tok) (hin : InnerOK inner) :
    ∀ (mask : List Span) (last : Option Span) (lo : Nat), MaskOK src.length mask →
      (∀ s ∈ mask, lo ≤ s.start) → (∀ l, last = some l → l.stop = lo) →
      ∃ toks, maskLoop src inner last mask = .ok toks ∧
        (∀ t ∈ toks, lo ≤ t.span.start ∧ t.span.start ≤ t.span.stop ∧ t.span.stop ≤ src.length) ∧
        toks.Pairwise (fun a b => a.span.stop ≤ b.span.start) ∧ Faithful inner src toks := by
  intro mask
  induction mask with
  | nil => intro last lo _ _ _; exact ⟨[], rfl, by simp, List.Pairwise.nil, by intro t ht; cases ht⟩
  | cons s rest ih =>
    intro last lo hm hlo hl
    have hs := hm.1 s (by simp)
    have hslo := hlo s (by simp)
    have hcont := getContent_eq s src hs.1 hs.2
    have hlen := slice_length s src hs.2
    obtain ⟨brk, hbrk, hbrk1, hbrkP⟩ := gapBreak_ok src last s lo hl hslo (by omega)
    have hlo' : ∀ x ∈ rest, s.stop ≤ x.start := (List.pairwise_cons.mp hm.2).1
    obtain ⟨r, hr, hrB, hrP, hrF⟩ := ih (some s) s.stop hm.tail hlo' (by intro l h; cases h; rfl)
    obtain ⟨hinB, hinP⟩ := hin (slice src s)
    simp only [maskLoop, hcont, hbrk, hr, bind, Except.bind, pure, Except.pure]
    refine ⟨_, rfl, ?_, ?_, ?_⟩
    · intro t ht
      simp only [List.mem_append, List.mem_map] at ht
      rcases ht with (ht | ⟨t0, ht0, rfl⟩) | ht
      · obtain ⟨_, hsp⟩ := hbrkP t ht
        rw [hsp]; simp; omega
      · have := hinB t0 ht0
        simp [Tok.shift, Span.pushBy]; omega
      · have := hrB t ht; omega
    · refine List.pairwise_append.mpr ⟨List.pairwise_append.mpr ⟨?_, ?_, ?_⟩, hrP, ?_⟩
      · -- at most one break token
        match brk, hbrk1 with
        | [], _ => exact List.Pairwise.nil
        | [_], _ => simp
      · exact List.Pairwise.map _ (fun a b h => by simp [Tok.shift, Span.pushBy]; omega) hinP
      · intro a ha b hb
        obtain ⟨t0, ht0, rfl⟩ := List.mem_map.mp hb
        have := (hbrkP a ha).2
        rw [this]; simp [Tok.shift, Span.pushBy]
      · intro a ha b hb
        have hb' := hrB b hb
        rcases List.mem_append.mp ha with ha | ha
        · have := (hbrkP a ha).2
          rw [this]; simp; omega
        · obtain ⟨t0, ht0, rfl⟩ := List.mem_map.mp ha
          have := hinB t0 ht0
          simp [Tok.shift, Span.pushBy]; omega
    · refine Faithful.append (Faithful.append ?_ ?_) hrF
      · intro t ht; exact Or.inl (Or.inl (hbrkP t ht).1)
      · intro t ht
        obtain ⟨t0, ht0, rfl⟩ := List.mem_map.mp ht
        refine Or.inr ⟨s.start, slice src s, t0, ?_, ?_, ht0, rfl⟩
        · rw [hlen]; rfl
        · rw [hlen]; omega

/-! ## comment leaders -/

theorem withoutInitiators_ok (isWs : Char → Bool) (src : List Char) :
    ∃ s, withoutInitiators isWs src = .ok s ∧ s.start ≤ s.stop ∧ s.stop ≤ src.length := by
  unfold withoutInitiators
  generalize hkeep : (fun c => !isCommentChar c && !isWs c) = keep
  by_cases hany : src.reverse.any keep = true
  · simp only [hany, if_true]
    have hlt : src.reverse.findIdx keep < src.reverse.length :=
      List.findIdx_lt_length.mpr (List.any_eq_true.mp hany)
    have hk : keep (src.reverse[src.reverse.findIdx keep]) = true := List.findIdx_getElem
    rw [List.getElem_reverse] at hk
    have hlen : src.reverse.length = src.length := List.length_reverse
    have hle : src.findIdx keep ≤ src.length - 1 - src.reverse.findIdx keep := by
      apply Nat.le_of_not_lt
      intro hc
      have := List.not_of_lt_findIdx hc
      rw [this] at hk
      cases hk
    have : ¬ (src.findIdx keep > src.length - src.reverse.findIdx keep) := by omega
    simp only [Span.new, this, if_false]
    exact ⟨_, rfl, by simp; omega, by simp⟩
  · simp only [hany, Bool.false_eq_true, if_false]
    have hall : ∀ x ∈ src, keep x = false := by
      intro x hx
      cases hkx : keep x with
      | false => rfl
      | true =>
        exact absurd (List.any_eq_true.mpr ⟨x, List.mem_reverse.mpr hx, hkx⟩) hany
    have hs : src.findIdx keep = src.length := List.findIdx_eq_length.mpr hall
    simp only [Span.new, hs, Nat.sub_zero, gt_iff_lt, Nat.lt_irrefl, if_false]
    exact ⟨_, rfl, by simp, by simp⟩

/-! ## JSDoc inline tags -/

theorem inlineTagLoop_ok (ks : List Kind) :
    ∀ (fuel cursor : Nat), cursor ≤ ks.length → ks.length < fuel + cursor →
      ∃ r, inlineTagLoop ks fuel cursor = .ok r ∧ ∀ p, r = some p → cursor < p ∧ p ≤ ks.length := by
  intro fuel
  induction fuel with
  | zero => intro cursor h1 h; omega
  | succ fuel ih =>
    intro cursor h1 h
    unfold inlineTagLoop
    cases hget : ks[cursor]? with
    | none => exact ⟨none, rfl, by simp⟩
    | some k =>
      have hlt : cursor < ks.length := by
        rcases List.getElem?_eq_some_iff.mp hget with ⟨h', _⟩; exact h'
      split
      · exact ⟨some (cursor + 1), rfl, by intro p hp; cases hp; omega⟩
      · obtain ⟨r, hr, hp⟩ := ih (cursor + 1) (by omega) (by omega)
        exact ⟨r, hr, fun p hp' => by have := hp p hp'; omega⟩
      · exact ⟨none, rfl, by simp⟩

theorem parseInlineTag_ok (ks : List Kind) (fuel : Nat) (hf : ks.length < fuel) :
    ∃ r, parseInlineTag fuel ks = .ok r ∧ ∀ p, r = some p → 3 < p ∧ p ≤ ks.length := by
  unfold parseInlineTag
  split
  · next rest =>
    exact inlineTagLoop_ok _ fuel 3 (by simp) (by omega)
  · exact ⟨none, rfl, by simp⟩

theorem markUnlintable_length (toks : List Tok) (a b : Nat) :
    (markUnlintable toks a b).length = toks.length := by
  simp [markUnlintable]

theorem nextOpenCurly_bounds {toks : List Tok} {cursor c : Nat}
    (h : nextOpenCurly toks cursor = some c) : cursor ≤ c ∧ c < toks.length := by
  unfold nextOpenCurly at h
  cases hf : (toks.drop cursor).findIdx? (fun t => t.kind == .punct .OpenCurly) with
  | none => simp [hf] at h
  | some i =>
    have := (List.findIdx?_eq_some_iff_findIdx_eq.mp hf).1
    simp [hf] at h
    simp at this
    omega

theorem markInlineTags_ok :
    ∀ (fuel : Nat) (toks : List Tok) (cursor : Nat), cursor ≤ toks.length →
      toks.length < fuel + cursor →
      ∃ r, markInlineTags fuel toks cursor = .ok r ∧ r.length = toks.length := by
  intro fuel
  induction fuel with
  | zero => intro toks cursor h1 h; omega
  | succ fuel ih =>
    intro toks cursor h1 h
    unfold markInlineTags
    by_cases hc : cursor ≥ toks.length
    · rw [if_pos hc]; exact ⟨toks, rfl, rfl⟩
    · rw [if_neg hc]
      cases hn : nextOpenCurly toks cursor with
      | none => exact ⟨toks, rfl, rfl⟩
      | some c =>
        obtain ⟨hcge, hclt⟩ := nextOpenCurly_bounds hn
        obtain ⟨r, hr, hp⟩ := parseInlineTag_ok ((toks.drop c).map (·.kind)) (toks.length + 1)
          (by simp; omega)
        simp only [hr, bind, Except.bind]
        cases r with
        | none => exact ih toks (c + 1) (by omega) (by omega)
        | some p =>
          have := hp p rfl
          simp at this
          obtain ⟨r', hr', hl'⟩ := ih (markUnlintable toks c (c + p)) (c + p)
            (by rw [markUnlintable_length]; omega) (by rw [markUnlintable_length]; omega)
          exact ⟨r', hr', by rw [hl', markUnlintable_length]⟩

/-! ## `Unit::parse`: lines, leaders, offsets -/

/-- inverse of `splitNl` -/
def joinNl : List (List Char) → List Char
  | [] => []
  | [l] => l
  | l :: ls => l ++ '\n' :: joinNl ls

theorem splitNl_ne_nil (s : List Char) : splitNl s ≠ [] := by
  induction s with
  | nil => simp [splitNl]
  | cons c cs ih =>
    unfold splitNl
    split
    · simp
    · split <;> simp

theorem joinNl_splitNl (s : List Char) : joinNl (splitNl s) = s := by
  induction s with
  | nil => rfl
  | cons c cs ih =>
    unfold splitNl
    by_cases hc : c = '\n'
    · rw [if_pos hc]
      cases hs : splitNl cs with
      | nil => exact absurd hs (splitNl_ne_nil cs)
      | cons l ls => rw [hs] at ih; simp [joinNl, ih, hc]
    · rw [if_neg hc]
      cases hs : splitNl cs with
      | nil => exact absurd hs (splitNl_ne_nil cs)
      | cons l ls =>
        rw [hs] at ih
        cases ls with
        | nil => simp [joinNl] at ih ⊢; exact ih
        | cons l2 ls2 => simp [joinNl] at ih ⊢; exact ih

/-- offset of line `i` inside the text: `Σ_{j<i} (len_j + 1)` -/
def lineStart (lines : List (List Char)) (i : Nat) : Nat :=
  ((lines.take i).map (fun l => l.length + 1)).sum

theorem lineStart_zero (lines : List (List Char)) : lineStart lines 0 = 0 := by simp [lineStart]

theorem lineStart_succ (l : List Char) (ls : List (List Char)) (i : Nat) :
    lineStart (l :: ls) (i + 1) = l.length + 1 + lineStart ls i := by
  simp [lineStart]

/-- where a token of `Unit::parse` sits: on the line break after line `j`, or it is the image of an
inner token of line `j` at `Σ_{j'<j}(len_j'+1) + leader_j + column` -/
def UnitTokAt (isWs : Char → Bool) (inner : List Char → List Tok) (lines : List (List Char))
    (base : Nat) (tok : Tok) : Prop :=
  (∃ j line, lines[j]? = some line ∧ j + 1 < lines.length ∧
      tok = ⟨⟨base + lineStart lines j + line.length, base + lineStart lines j + line.length + 1⟩, .newline 1⟩) ∨
  (∃ j line a t, lines[j]? = some line ∧ withoutInitiators isWs line = .ok a ∧
      t ∈ inner (slice line a) ∧ tok = t.shift (base + lineStart lines j + a.start))

theorem UnitTokAt.cons {isWs inner} {l : List Char} {ls : List (List Char)} {base : Nat} {tok : Tok}
    (h : UnitTokAt isWs inner ls (base + l.length + 1) tok) : UnitTokAt isWs inner (l :: ls) base tok := by
  rcases h with ⟨j, line, h1, h2, h3⟩ | ⟨j, line, a, t, h1, h2, h3, h4⟩
  · refine Or.inl ⟨j + 1, line, by simpa using h1, by simp; omega, ?_⟩
    rw [h3, lineStart_succ]
    congr 2 <;> omega
  · refine Or.inr ⟨j + 1, line, a, t, by simpa using h1, h2, h3, ?_⟩
    rw [h4, lineStart_succ]
    congr 1; omega

theorem shift_shift (t : Tok) (a b : Nat) : (t.shift a).shift b = t.shift (b + a) := by
  simp [Tok.shift, Span.pushBy]; omega

theorem parseLine_ok (isWs : Char → Bool) (inner : List Char → List Tok) (line : List Char) :
    ∃ a nt, withoutInitiators isWs line = .ok a ∧ a.start ≤ a.stop ∧ a.stop ≤ line.length ∧
      parseLine isWs inner line = .ok nt ∧
      ∀ x ∈ nt, ∃ t ∈ inner (slice line a), x = t.shift a.start := by
  obtain ⟨a, ha, h1, h2⟩ := withoutInitiators_ok isWs line
  simp only [parseLine, ha, bind, Except.bind]
  by_cases he : a.isEmpty = true
  · rw [if_pos he]; exact ⟨a, [], rfl, h1, h2, rfl, by simp⟩
  · rw [if_neg he, getContent_eq a line h1 h2]
    exact ⟨a, _, rfl, h1, h2, rfl, fun x hx => by
      obtain ⟨t, ht, rfl⟩ := List.mem_map.mp hx; exact ⟨t, ht, rfl⟩⟩

theorem lineIsCodeFence_ok (isWs : Char → Bool) (line : List Char) :
    ∃ b, lineIsCodeFence isWs line = .ok b := by
  obtain ⟨a, ha, h1, h2⟩ := withoutInitiators_ok isWs line
  simp only [lineIsCodeFence, ha, bind, Except.bind, getContent_eq a line h1 h2]
  exact ⟨_, rfl⟩

/-- the chunk `slice line a` of a line at `pre.length` is the text of the file there -/
theorem chunk_located (pre line tail : List Char) (a : Span) (h1 : a.start ≤ a.stop)
    (h2 : a.stop ≤ line.length) :
    slice line a = ((pre ++ line ++ tail).drop (pre.length + a.start)).take (slice line a).length := by
  rw [slice_length a line h2]
  simp only [slice, List.append_assoc]
  rw [← List.drop_drop, List.drop_left, List.drop_append_of_le_length (by omega),
    List.take_append_of_le_length (by simp; omega)]

theorem unitLoop_ok (isWs : Char → Bool) (inner : List Char → List Tok) (src : List Char) :
    ∀ (lines : List (List Char)) (pre : List Char) (fence : Bool), lines ≠ [] →
      src = pre ++ joinNl lines →
      ∃ toks, unitLoop isWs src.length inner pre.length fence lines = .ok toks ∧
        Faithful inner src toks ∧ ∀ tok ∈ toks, UnitTokAt isWs inner lines pre.length tok := by
  intro lines
  induction lines with
  | nil => intro _ _ h; exact absurd rfl h
  | cons line rest ih =>
    intro pre fence _ hsrc
    obtain ⟨isF, hF⟩ := lineIsCodeFence_ok isWs line
    obtain ⟨a, nt, ha, ha1, ha2, hnt, hntP⟩ := parseLine_ok isWs inner line
    -- the recursive call (on `rest`, if any)
    have hrec : ∀ fence', ∃ r, unitLoop isWs src.length inner (pre.length + line.length + 1) fence' rest = .ok r ∧
        Faithful inner src r ∧ ∀ tok ∈ r, UnitTokAt isWs inner (line :: rest) pre.length tok := by
      intro fence'
      cases hr : rest with
      | nil => exact ⟨[], rfl, Faithful.nil, by simp⟩
      | cons l2 ls2 =>
        have hsrc' : src = (pre ++ line ++ ['\n']) ++ joinNl (l2 :: ls2) := by
          rw [hsrc, hr]; simp [joinNl]
        obtain ⟨r, h1, h2, h3⟩ := ih (pre ++ line ++ ['\n']) fence' (by rw [hr]; simp) (by rw [← hr] at hsrc'; exact hsrc')
        have hl : (pre ++ line ++ ['\n']).length = pre.length + line.length + 1 := by simp; omega
        rw [hl, hr] at h1
        refine ⟨r, h1, h2, fun tok ht => UnitTokAt.cons ?_⟩
        have := h3 tok ht
        rw [hl, hr] at this
        exact this
    simp only [unitLoop, hF, bind, Except.bind]
    by_cases hfen : (if isF = true then !fence else fence) = true
    · rw [if_pos hfen]
      exact hrec _
    · rw [if_neg hfen]
      obtain ⟨r, hr, hrF, hrU⟩ := hrec (if isF = true then !fence else fence)
      simp only [hnt, hr, pure, Except.pure]
      -- the tail of the file after this line
      obtain ⟨tail, htail, hnl⟩ : ∃ tail, src = pre ++ line ++ tail ∧
          (pre.length + line.length < src.length → 0 + 1 < (line :: rest).length) := by
        cases hr' : rest with
        | nil => exact ⟨[], by rw [hsrc, hr']; simp [joinNl], by rw [hsrc, hr']; simp [joinNl]⟩
        | cons l2 ls2 => exact ⟨'\n' :: joinNl (l2 :: ls2), by rw [hsrc, hr']; simp [joinNl], by simp⟩
      refine ⟨_, rfl, Faithful.append ?_ hrF, ?_⟩
      · intro tok ht
        obtain ⟨x, hx, rfl⟩ := List.mem_map.mp ht
        rcases List.mem_append.mp hx with hx | hx
        · obtain ⟨t, ht', rfl⟩ := hntP x hx
          refine Or.inr ⟨pre.length + a.start, slice line a, t, ?_, ?_, ht', shift_shift t _ _⟩
          · rw [htail]; exact chunk_located pre line tail a ha1 ha2
          · rw [slice_length a line ha2, htail]; simp; omega
        · simp only [lineBreakTok] at hx
          split at hx
          · simp at hx; subst hx; exact Or.inl (Or.inr rfl)
          · cases hx
      · intro tok ht
        rcases List.mem_append.mp ht with ht | ht
        · obtain ⟨x, hx, rfl⟩ := List.mem_map.mp ht
          rcases List.mem_append.mp hx with hx | hx
          · obtain ⟨t, ht', rfl⟩ := hntP x hx
            refine Or.inr ⟨0, line, a, t, by simp, ha, ht', ?_⟩
            rw [shift_shift, lineStart_zero]; simp
          · simp only [lineBreakTok] at hx
            split at hx
            · next hlt =>
              simp at hx; subst hx
              refine Or.inl ⟨0, line, by simp, hnl hlt, ?_⟩
              simp [Tok.shift, Span.pushBy, lineStart_zero]; omega
            · cases hx
        · exact hrU tok ht

/-! ## Literate Haskell -/

theorem pushAllowed_gap (m : List Span) (a : Span)
    (h : ∀ l, m.getLast? = some l → l.stop < a.start) : pushAllowed m a = .ok (m ++ [a]) := by
  unfold pushAllowed
  cases hg : m.getLast? with
  | none =>
    have : m = [] := List.getLast?_eq_none_iff.mp hg
    subst this; rfl
  | some last =>
    have := h last hg
    simp only []
    rw [if_neg (by omega), if_neg (by omega)]

theorem lhsStep_props (isWs : Char → Bool) (text code : Bool) (st : LhsSt) (line : List Char) :
    (lhsStep isWs text code st line).1.loc = st.loc + line.length + 1 ∧
    ∀ a b, (lhsStep isWs text code st line).2 = some (a, b) →
      b = st.loc + line.length ∧
      (a = st.loc ∨ (line.head? = some '>' ∧ a = min (st.loc + 2) b)) := by
  unfold lhsStep
  simp only []
  split
  · exact ⟨rfl, by simp⟩
  · split
    · exact ⟨rfl, by simp⟩
    · refine ⟨rfl, ?_⟩
      intro a b h
      simp only [Option.ite_none_right_eq_some, Option.some.injEq, Prod.mk.injEq] at h
      obtain ⟨_, h2a, h2b⟩ := h
      subst h2b
      refine ⟨rfl, ?_⟩
      by_cases hb : (line.head? == some '>') = true
      · rw [if_pos hb] at h2a
        right; exact ⟨by simpa using hb, h2a.symm⟩
      · rw [if_neg hb] at h2a
        left; exact h2a.symm

/-- the lines the state machine selects, with their spans (no panics, no offsets to get wrong) -/
def lhsSelected (isWs : Char → Bool) (text code : Bool) : LhsSt → List (List Char) → List (Nat × Nat)
  | _, [] => []
  | st, line :: rest =>
    match lhsStep isWs text code st line with
    | (st', none) => lhsSelected isWs text code st' rest
    | (st', some p) => p :: lhsSelected isWs text code st' rest

theorem lhsSelected_lower (isWs : Char → Bool) (text code : Bool) :
    ∀ (lines : List (List Char)) (st : LhsSt), ∀ p ∈ lhsSelected isWs text code st lines, st.loc ≤ p.1 := by
  intro lines
  induction lines with
  | nil => intro st p hp; cases hp
  | cons line rest ih =>
    intro st p hp
    have hs := lhsStep_props isWs text code st line
    unfold lhsSelected at hp
    cases hstep : lhsStep isWs text code st line with
    | mk st' r =>
      rw [hstep] at hp hs
      cases r with
      | none => have := ih st' p hp; simp at hs; omega
      | some q =>
        rcases List.mem_cons.mp hp with rfl | hp
        · obtain ⟨a, b⟩ := p
          have := hs.2 a b rfl
          simp; omega
        · have := ih st' p hp; simp at hs; omega

theorem lhsLoop_eq (isWs : Char → Bool) (text code : Bool) :
    ∀ (lines : List (List Char)) (st : LhsSt) (m : List Span), (∀ s ∈ m, s.stop < st.loc) →
      lhsLoop isWs text code st m lines =
        .ok (m ++ (lhsSelected isWs text code st lines).map (fun p => ⟨p.1, p.2⟩)) := by
  intro lines
  induction lines with
  | nil => intro st m _; simp [lhsLoop, lhsSelected]
  | cons line rest ih =>
    intro st m hm
    have hs := lhsStep_props isWs text code st line
    unfold lhsLoop lhsSelected
    cases hstep : lhsStep isWs text code st line with
    | mk st' r =>
      rw [hstep] at hs
      simp only [] at hs
      cases r with
      | none =>
        simp only []
        exact ih st' m (fun s h => by have := hm s h; omega)
      | some q =>
        obtain ⟨a, b⟩ := q
        obtain ⟨hb, ha⟩ := hs.2 a b rfl
        have hab : a ≤ b := by rcases ha with rfl | ⟨_, rfl⟩ <;> omega
        have hla : st.loc ≤ a := by rcases ha with rfl | ⟨_, rfl⟩ <;> omega
        have hnew : Span.new a b = .ok ⟨a, b⟩ := by simp [Span.new]; omega
        have hpush : pushAllowed m ⟨a, b⟩ = .ok (m ++ [⟨a, b⟩]) :=
          pushAllowed_gap m ⟨a, b⟩ (fun l hl => by
            have := hm l (List.mem_of_getLast? hl); simp; omega)
        simp only [hnew, hpush, bind, Except.bind]
        have := ih st' (m ++ [(⟨a, b⟩ : Span)]) (fun s h => by
          rcases List.mem_append.mp h with h | h
          · have := hm s h; omega
          · simp at h; subst h; simp; omega)
        rw [this]
        simp

theorem lhsSelected_ok (isWs : Char → Bool) (text code : Bool) (src : List Char) :
    ∀ (lines : List (List Char)) (pre : List Char) (st : LhsSt), lines ≠ [] →
      src = pre ++ joinNl lines → st.loc = pre.length →
      MaskOK src.length ((lhsSelected isWs text code st lines).map (fun p => ⟨p.1, p.2⟩)) := by
  intro lines
  induction lines with
  | nil => intro _ _ h; exact absurd rfl h
  | cons line rest ih =>
    intro pre st _ hsrc hloc
    have hs := lhsStep_props isWs text code st line
    have hlen : st.loc + line.length ≤ src.length := by rw [hsrc, hloc]; cases rest <;> simp [joinNl] <;> omega
    have hrest : ∀ st', st'.loc = st.loc + line.length + 1 →
        MaskOK src.length ((lhsSelected isWs text code st' rest).map (fun p => ⟨p.1, p.2⟩)) := by
      intro st' hst'
      cases hr : rest with
      | nil => simp [lhsSelected]; exact MaskOK.nil _
      | cons l2 ls2 =>
        have := ih (pre ++ line ++ ['\n']) st' (by rw [hr]; simp)
          (by rw [hsrc, hr]; simp [joinNl]) (by rw [hst', hloc]; simp; omega)
        rw [hr] at this; exact this
    unfold lhsSelected
    cases hstep : lhsStep isWs text code st line with
    | mk st' r =>
      rw [hstep] at hs
      simp only [] at hs
      cases r with
      | none => exact hrest st' hs.1
      | some q =>
        obtain ⟨a, b⟩ := q
        obtain ⟨hb, ha⟩ := hs.2 a b rfl
        have hab : a ≤ b := by rcases ha with rfl | ⟨_, rfl⟩ <;> omega
        have ih' := hrest st' hs.1
        simp only [List.map_cons]
        refine ⟨?_, List.pairwise_cons.mpr ⟨?_, ih'.2⟩⟩
        · intro s hs'
          rcases List.mem_cons.mp hs' with rfl | hs'
          · simp; omega
          · exact ih'.1 s hs'
        · intro y hy
          obtain ⟨p, hp, rfl⟩ := List.mem_map.mp hy
          have := lhsSelected_lower isWs text code rest st' p hp
          simp; omega


/-! ## JavaDoc block tags -/

/-- the block-tag loop as a left-to-right scan of the current list: the window slides by one
token; after a match the next three windows start with an Unlintable token -/
def jdScan : List Tok → List Tok
  | a :: b :: c :: d :: tl =>
    if tagWindow a b c d then unl a :: jdScan (unl b :: unl c :: unl d :: tl)
    else a :: jdScan (b :: c :: d :: tl)
  | l => l
termination_by l => l.length

theorem jdScan_short {l : List Tok} (h : l.length < 4) : jdScan l = l := by
  match l, h with
  | [], _ => simp [jdScan]
  | [_], _ => simp [jdScan]
  | [_, _], _ => simp [jdScan]
  | [_, _, _], _ => simp [jdScan]

/-- the index loop of the model is that scan; in particular it never indexes out of bounds -/
theorem jdLoop_eq : ∀ (n : Nat) (pre rest : List Tok), rest.length - 3 = n →
    jdLoop n pre.length (pre ++ rest) = .ok (pre ++ jdScan rest) := by
  intro n
  induction n with
  | zero =>
    intro pre rest h
    rw [jdScan_short (by omega)]
    rfl
  | succ n ih =>
    intro pre rest h
    match rest, h with
    | a :: b :: c :: d :: tl, h =>
      have h0 : (pre ++ a :: b :: c :: d :: tl)[pre.length]? = some a := by
        rw [List.getElem?_append_right (Nat.le_refl _)]; simp
      have h1 : (pre ++ a :: b :: c :: d :: tl)[pre.length + 1]? = some b := by
        rw [List.getElem?_append_right (by omega)]; simp
      have h2 : (pre ++ a :: b :: c :: d :: tl)[pre.length + 2]? = some c := by
        rw [List.getElem?_append_right (by omega)]; simp
      have h3 : (pre ++ a :: b :: c :: d :: tl)[pre.length + 3]? = some d := by
        rw [List.getElem?_append_right (by omega)]; simp
      simp only [jdLoop, h0, h1, h2, h3]
      have hlen : tl.length = n := by simp at h; omega
      by_cases hw : tagWindow a b c d = true
      · rw [if_pos hw]
        have hcur : (pre ++ a :: b :: c :: d :: tl).take pre.length ++ [unl a, unl b, unl c, unl d] ++
            (pre ++ a :: b :: c :: d :: tl).drop (pre.length + 4) =
            (pre ++ [unl a]) ++ (unl b :: unl c :: unl d :: tl) := by
          rw [List.take_left]
          have : (pre ++ a :: b :: c :: d :: tl).drop (pre.length + 4) = tl := by
            rw [← List.drop_drop, List.drop_left]; rfl
          rw [this]; simp
        rw [hcur]
        have := ih (pre ++ [unl a]) (unl b :: unl c :: unl d :: tl) (by simp; omega)
        simp only [List.length_append, List.length_cons, List.length_nil] at this
        rw [this, jdScan, if_pos hw]
        simp
      · rw [if_neg hw]
        have : pre ++ a :: b :: c :: d :: tl = (pre ++ [a]) ++ (b :: c :: d :: tl) := by simp
        rw [this]
        have := ih (pre ++ [a]) (b :: c :: d :: tl) (by simp; omega)
        simp only [List.length_append, List.length_cons, List.length_nil] at this
        rw [this]
        conv => rhs; rw [jdScan, if_neg hw]
        simp

theorem javadocMark_eq (toks : List Tok) : javadocMark toks = .ok (jdScan toks) := by
  have := jdLoop_eq (toks.length - 3) [] toks rfl
  simpa [javadocMark] using this

theorem unl_unl (t : Tok) : unl (unl t) = unl t := rfl

theorem tagWindow_not_unl (a b c d : Tok) : tagWindow (unl a) b c d = false := by
  simp [tagWindow, unl, isAtKind]

/-- a `@tag argument` window starts at index `j` of `l` -/
def WindowAt (l : List Tok) (j : Nat) : Prop :=
  ∃ a b c d tl, l.drop j = a :: b :: c :: d :: tl ∧ tagWindow a b c d = true

/-- every token is kept or made Unlintable; nothing is added, dropped or moved -/
theorem jdScan_get : ∀ (n : Nat) (l : List Tok), l.length = n → ∀ (k : Nat),
    (jdScan l)[k]? = l[k]? ∨ (jdScan l)[k]? = (l[k]?).map unl := by
  intro n
  induction n using Nat.strongRecOn with
  | _ n ih =>
    intro l hl k
    match l, hl with
    | a :: b :: c :: d :: tl, hl =>
      rw [jdScan]
      by_cases hw : tagWindow a b c d = true
      · rw [if_pos hw]
        cases k with
        | zero => right; simp
        | succ k =>
          have := ih (tl.length + 3) (by simp at hl; omega) (unl b :: unl c :: unl d :: tl) (by simp) k
          simp only [List.getElem?_cons_succ]
          match k with
          | 0 => right; rcases this with h | h <;> simpa [unl_unl] using h
          | 1 => right; rcases this with h | h <;> simpa [unl_unl] using h
          | 2 => right; rcases this with h | h <;> simpa [unl_unl] using h
          | k + 3 => simpa using this
      · rw [if_neg hw]
        cases k with
        | zero => left; simp
        | succ k =>
          have := ih (tl.length + 3) (by simp at hl; omega) (b :: c :: d :: tl) (by simp) k
          simpa using this
    | [], _ => left; rw [jdScan_short (by simp)]
    | [_], _ => left; rw [jdScan_short (by simp)]
    | [_, _], _ => left; rw [jdScan_short (by simp)]
    | [_, _, _], _ => left; rw [jdScan_short (by simp)]

theorem jdScan_length (l : List Tok) : (jdScan l).length = l.length := by
  -- from `jdScan_get`: both lists are defined at exactly the same indices
  apply Nat.le_antisymm
  · apply Nat.le_of_not_lt
    intro h
    rcases jdScan_get l.length l rfl l.length with h' | h'
    · rw [List.getElem?_eq_none (Nat.le_refl _)] at h'
      exact absurd (List.getElem?_eq_none_iff.mp h') (by omega)
    · rw [List.getElem?_eq_none (Nat.le_refl _)] at h'
      exact absurd (List.getElem?_eq_none_iff.mp h') (by simp; omega)
  · apply Nat.le_of_not_lt
    intro h
    rcases jdScan_get l.length l rfl (jdScan l).length with h' | h'
    · rw [List.getElem?_eq_none (Nat.le_refl _)] at h'
      exact absurd (List.getElem?_eq_none_iff.mp h'.symm) (by omega)
    · rw [List.getElem?_eq_none (Nat.le_refl _)] at h'
      have := h'.symm
      simp at this
      omega


theorem not_at_of_word {k : Kind} (h : k.isWord = true) : isAtKind k = false := by
  cases k <;> simp_all [Kind.isWord, isAtKind]

theorem not_at_of_space {k : Kind} (h : k.isSpace = true) : isAtKind k = false := by
  cases k <;> simp_all [Kind.isSpace, isAtKind]

theorem tagWindow_parts {a b c d : Tok} (h : tagWindow a b c d = true) :
    isAtKind a.kind = true ∧ b.kind.isWord = true ∧ c.kind.isSpace = true ∧ d.kind.isWord = true := by
  simpa [tagWindow, Bool.and_eq_true, and_assoc] using h

theorem tagWindow_first {a b c d : Tok} (h : tagWindow a b c d = true) : isAtKind a.kind = true :=
  (tagWindow_parts h).1

theorem WindowAt.length_le {l : List Tok} {j : Nat} (h : WindowAt l j) : j + 4 ≤ l.length := by
  obtain ⟨a, b, c, d, tl, hd, _⟩ := h
  have := congrArg List.length hd
  simp at this
  omega

/-- every window of the ORIGINAL list — the last one included — ends up Unlintable -/
theorem jdScan_window : ∀ (n : Nat) (l : List Tok), l.length = n → ∀ (j : Nat), WindowAt l j →
    ∀ (k : Nat), k < 4 → (jdScan l)[j + k]? = (l[j + k]?).map unl := by
  intro n
  induction n using Nat.strongRecOn with
  | _ n ih =>
    intro l hl j hj k hk
    have hjl := hj.length_le
    match l, hl, hj, hjl with
    | a :: b :: c :: d :: tl, hl, hj, _ =>
      rw [jdScan]
      by_cases hw : tagWindow a b c d = true
      · rw [if_pos hw]
        obtain ⟨_, hb, hc, hd⟩ := tagWindow_parts hw
        obtain ⟨a', b', c', d', tl', hdrop, hw'⟩ := hj
        have hfirst := tagWindow_first hw'
        match j, hdrop with
        | 0, _ =>
          have hget := jdScan_get _ (unl b :: unl c :: unl d :: tl) rfl
          match k, hk with
          | 0, _ => simp
          | 1, _ => rcases hget 0 with h | h <;> simpa [unl_unl] using h
          | 2, _ => rcases hget 1 with h | h <;> simpa [unl_unl] using h
          | 3, _ => rcases hget 2 with h | h <;> simpa [unl_unl] using h
        | 1, hdrop =>
          simp at hdrop
          rw [← hdrop.1, not_at_of_word hb] at hfirst; cases hfirst
        | 2, hdrop =>
          simp at hdrop
          rw [← hdrop.1, not_at_of_space hc] at hfirst; cases hfirst
        | 3, hdrop =>
          simp at hdrop
          rw [← hdrop.1, not_at_of_word hd] at hfirst; cases hfirst
        | j' + 4, hdrop =>
          have hw2 : WindowAt (unl b :: unl c :: unl d :: tl) (j' + 3) :=
            ⟨a', b', c', d', tl', by simpa using hdrop, hw'⟩
          have := ih (tl.length + 3) (by simp at hl; omega) (unl b :: unl c :: unl d :: tl) (by simp)
            (j' + 3) hw2 k hk
          have e1 : j' + 4 + k = (j' + 3 + k) + 1 := by omega
          rw [e1, List.getElem?_cons_succ, this]
          have e2 : j' + 3 + k = (j' + k) + 3 := by omega
          simp [e2]
      · rw [if_neg hw]
        obtain ⟨a', b', c', d', tl', hdrop, hw'⟩ := hj
        match j, hdrop with
        | 0, hdrop =>
          simp at hdrop
          obtain ⟨rfl, rfl, rfl, rfl, _⟩ := hdrop
          exact absurd hw' hw
        | j' + 1, hdrop =>
          have hw2 : WindowAt (b :: c :: d :: tl) j' := ⟨a', b', c', d', tl', by simpa using hdrop, hw'⟩
          have := ih (tl.length + 3) (by simp at hl; omega) (b :: c :: d :: tl) (by simp) j' hw2 k hk
          have e1 : j' + 1 + k = (j' + k) + 1 := by omega
          rw [e1, List.getElem?_cons_succ, this]
          simp
    | [], _, _, h => simp at h
    | [_], _, _, h => simp at h
    | [_, _], _, _, h => simp at h
    | [_, _, _], _, _, h => simp at h

/-- … and nothing else changes: a token that differs from the original lies in such a window -/
theorem jdScan_unchanged : ∀ (n : Nat) (l : List Tok), l.length = n → ∀ (k : Nat),
    (jdScan l)[k]? ≠ l[k]? → ∃ j, j ≤ k ∧ k < j + 4 ∧ WindowAt l j := by
  intro n
  induction n using Nat.strongRecOn with
  | _ n ih =>
    intro l hl k hne
    match l, hl with
    | a :: b :: c :: d :: tl, hl =>
      rw [jdScan] at hne
      by_cases hw : tagWindow a b c d = true
      · rw [if_pos hw] at hne
        have h0 : WindowAt (a :: b :: c :: d :: tl) 0 := ⟨a, b, c, d, tl, rfl, hw⟩
        by_cases hk : k < 4
        · exact ⟨0, Nat.zero_le _, by omega, h0⟩
        · obtain ⟨k', rfl⟩ : ∃ k', k = k' + 4 := ⟨k - 4, by omega⟩
          have hne' : (jdScan (unl b :: unl c :: unl d :: tl))[k' + 3]? ≠
              (unl b :: unl c :: unl d :: tl)[k' + 3]? := by
            simpa using hne
          obtain ⟨j', hj1, hj2, hj3⟩ := ih (tl.length + 3) (by simp at hl; omega)
            (unl b :: unl c :: unl d :: tl) (by simp) (k' + 3) hne'
          obtain ⟨a', b', c', d', tl', hdrop, hw'⟩ := hj3
          have hfirst := tagWindow_first hw'
          match j', hdrop with
          | 0, hdrop => simp at hdrop; rw [← hdrop.1] at hfirst; simp [unl, isAtKind] at hfirst
          | 1, hdrop => simp at hdrop; rw [← hdrop.1] at hfirst; simp [unl, isAtKind] at hfirst
          | 2, hdrop => simp at hdrop; rw [← hdrop.1] at hfirst; simp [unl, isAtKind] at hfirst
          | j'' + 3, hdrop =>
            exact ⟨j'' + 4, by omega, by omega, a', b', c', d', tl', by simpa using hdrop, hw'⟩
      · rw [if_neg hw] at hne
        match k, hne with
        | 0, hne => simp at hne
        | k' + 1, hne =>
          obtain ⟨j', hj1, hj2, a', b', c', d', tl', hdrop, hw'⟩ :=
            ih (tl.length + 3) (by simp at hl; omega) (b :: c :: d :: tl) (by simp) k' (by simpa using hne)
          exact ⟨j' + 1, by omega, by omega, a', b', c', d', tl', by simpa using hdrop, hw'⟩
    | [], _ => rw [jdScan_short (by simp)] at hne; exact absurd rfl hne
    | [_], _ => rw [jdScan_short (by simp)] at hne; exact absurd rfl hne
    | [_, _], _ => rw [jdScan_short (by simp)] at hne; exact absurd rfl hne
    | [_, _, _], _ => rw [jdScan_short (by simp)] at hne; exact absurd rfl hne

/-! ## `CommentMasker`: the ignore-marker filter and `Mask::from_iter` -/

/-- `str::contains`: the pattern occurs as a contiguous run -/
theorem containsSub_iff (pat : List Char) :
    ∀ (l : List Char), containsSub pat l = true ↔ ∃ pre post, l = pre ++ pat ++ post
  | [] => by
    simp only [containsSub, List.isEmpty_iff]
    constructor
    · rintro rfl; exact ⟨[], [], rfl⟩
    · rintro ⟨pre, post, h⟩
      have := congrArg List.length h
      simp at this
      exact List.eq_nil_of_length_eq_zero (by omega)
  | c :: cs => by
    simp only [containsSub, Bool.or_eq_true, List.isPrefixOf_iff_prefix, containsSub_iff pat cs]
    constructor
    · rintro (⟨t, ht⟩ | ⟨pre, post, h⟩)
      · exact ⟨[], t, by simpa using ht.symm⟩
      · exact ⟨c :: pre, post, by simp [h]⟩
    · rintro ⟨pre, post, h⟩
      cases pre with
      | nil => exact Or.inl ⟨post, by simpa using h.symm⟩
      | cons p pre =>
        simp only [List.cons_append, List.cons.injEq] at h
        exact Or.inr ⟨pre, post, h.2⟩

/-- the default ignore condition, read as a statement about the text of the allowed span -/
theorem ignoreCondition_iff (text : List Char) :
    ignoreCondition text = true ↔
      (∃ mk ∈ ignoreMarkers, ∃ pre post, text = pre ++ mk ++ post) ∨ ∃ rest, text = '#' :: '!' :: rest := by
  simp only [ignoreCondition, Bool.or_eq_true, List.any_eq_true, containsSub_iff,
    List.isPrefixOf_iff_prefix]
  constructor
  · rintro (h | ⟨t, ht⟩)
    · exact Or.inl h
    · exact Or.inr ⟨t, by simpa using ht.symm⟩
  · rintro (h | ⟨t, ht⟩)
    · exact Or.inl h
    · exact Or.inr ⟨t, by simp [ht]⟩

/-- on well-formed, in-bounds spans the filter chain never panics and is `List.filter` -/
theorem ignoreFilter_eq (ign : List Char → Bool) (src : List Char) :
    ∀ (m : List Span), (∀ s ∈ m, s.start ≤ s.stop ∧ s.stop ≤ src.length) →
      ignoreFilter ign src m = .ok (m.filter fun s => !ign (slice src s))
  | [], _ => rfl
  | s :: rest, h => by
    have hs := h s (by simp)
    have ih := ignoreFilter_eq ign src rest (fun x hx => h x (by simp [hx]))
    simp only [ignoreFilter, getContent_eq s src hs.1 hs.2, ih, bind, Except.bind, pure, Except.pure,
      List.filter_cons]
    cases ign (slice src s) <;> simp

theorem spanStartSorted_of_maskOK {n : Nat} : ∀ {m : List Span}, MaskOK n m → SpanStartSorted m
  | [], _ => trivial
  | [_], _ => trivial
  | a :: b :: rest, h => by
    have hab : a.stop ≤ b.start := (List.pairwise_cons.mp h.2).1 b (by simp)
    have ha := h.1 a (by simp)
    exact ⟨by omega, spanStartSorted_of_maskOK h.tail⟩

theorem adjacentDisjoint_of_pairwise : ∀ {m : List Span},
    m.Pairwise (fun a b => a.stop ≤ b.start) → adjacentDisjoint m = true
  | [], _ => rfl
  | [_], _ => rfl
  | a :: b :: rest, h => by
    have hab : a.stop ≤ b.start := (List.pairwise_cons.mp h).1 b (by simp)
    simp [adjacentDisjoint, hab, adjacentDisjoint_of_pairwise (List.pairwise_cons.mp h).2]

/-- `Mask::from_iter` on a list that satisfies the mask invariant: the sort is the identity and the
assertion holds -/
theorem maskFromIter_ok {n : Nat} {m : List Span} (h : MaskOK n m) : maskFromIter m = .ok m := by
  simp [maskFromIter, sortByStart_sorted m (spanStartSorted_of_maskOK h),
    adjacentDisjoint_of_pairwise h.2]

/-- `Mask::from_iter` asserts exactly that consecutive sorted spans do not overlap -/
theorem maskFromIter_panics_iff (spans : List Span) :
    maskFromIter spans = .error .assertFail ↔ adjacentDisjoint (sortByStart spans) = false := by
  unfold maskFromIter
  simp only []
  cases h : adjacentDisjoint (sortByStart spans) <;> simp

theorem maskOK_filter' {n : Nat} {m : List Span} (p : Span → Bool) (h : MaskOK n m) :
    MaskOK n (m.filter p) :=
  ⟨fun s hs => h.1 s (List.mem_filter.mp hs).1, h.2.sublist List.filter_sublist⟩

/-- what `CommentMasker::create_mask` does with a mask that satisfies the invariant: exactly the
spans whose text does not satisfy the ignore condition, in order; no panic -/
theorem commentFilter_eq (ign : List Char → Bool) (src : List Char) (m : List Span)
    (h : MaskOK src.length m) :
    commentFilter ign src m = .ok (m.filter fun s => !ign (slice src s)) := by
  simp only [commentFilter, ignoreFilter_eq ign src m h.1, bind, Except.bind]
  exact maskFromIter_ok (maskOK_filter' _ h)

/-! ## span-only faithfulness: kinds may be re-marked `Unlintable`, spans never move -/

/-- `b` is `a`, possibly with its kind replaced by `Unlintable` -/
def Remark (a b : Tok) : Prop := b.span = a.span ∧ (b.kind = a.kind ∨ b.kind = .unlintable)

theorem Remark.refl (a : Tok) : Remark a a := ⟨rfl, Or.inl rfl⟩

theorem Remark.trans {a b c : Tok} (h1 : Remark a b) (h2 : Remark b c) : Remark a c := by
  refine ⟨h2.1.trans h1.1, ?_⟩
  rcases h2.2 with h | h
  · rcases h1.2 with h' | h'
    · exact Or.inl (h.trans h')
    · exact Or.inr (h.trans h')
  · exact Or.inr h

theorem Remark.unl (a : Tok) : Remark a (unl a) := ⟨rfl, Or.inr rfl⟩

theorem Remark.shift {a b : Tok} (h : Remark a b) (n : Nat) : Remark (a.shift n) (b.shift n) := by
  obtain ⟨h1, h2⟩ := h
  exact ⟨by simp [Tok.shift, h1], by simpa [Tok.shift] using h2⟩

/-- a token that was not marked is the original token -/
theorem Remark.eq_of_not_unlintable {a b : Tok} (h : Remark a b) (hk : b.kind ≠ .unlintable) : b = a := by
  obtain ⟨h1, h2⟩ := h
  rcases h2 with h2 | h2
  · cases a; cases b; simp_all
  · exact absurd h2 hk

/-- `r` is `t` with some kinds replaced by `Unlintable`: same number of tokens, the same spans in
the same order -/
def Remarked (t r : List Tok) : Prop :=
  r.length = t.length ∧ ∀ (k : Nat) (x y : Tok), t[k]? = some x → r[k]? = some y → Remark x y

theorem Remarked.refl (t : List Tok) : Remarked t t :=
  ⟨rfl, fun _ x y hx hy => by rw [hx] at hy; cases hy; exact Remark.refl x⟩

theorem Remarked.trans {a b c : List Tok} (h1 : Remarked a b) (h2 : Remarked b c) : Remarked a c := by
  refine ⟨h2.1.trans h1.1, ?_⟩
  intro k x z hx hz
  have hk : k < a.length := (List.getElem?_eq_some_iff.mp hx).1
  have hb : b[k]? = some (b[k]'(by rw [h1.1]; exact hk)) := List.getElem?_eq_getElem _
  exact (h1.2 k x _ hx hb).trans (h2.2 k _ z hb hz)

theorem Remarked.nil_iff {r : List Tok} : Remarked [] r ↔ r = [] := by
  constructor
  · intro h; exact List.eq_nil_of_length_eq_zero (by simpa using h.1)
  · rintro rfl; exact Remarked.refl _

theorem Remarked.map_shift {t r : List Tok} (h : Remarked t r) (n : Nat) :
    Remarked (t.map (·.shift n)) (r.map (·.shift n)) := by
  refine ⟨by simp [h.1], ?_⟩
  intro k x y hx hy
  simp only [List.getElem?_map, Option.map_eq_some_iff] at hx hy
  obtain ⟨x0, hx0, rfl⟩ := hx
  obtain ⟨y0, hy0, rfl⟩ := hy
  exact (h.2 k x0 y0 hx0 hy0).shift n

/-- the list of spans is unchanged -/
theorem Remarked.spans {t r : List Tok} (h : Remarked t r) : r.map (·.span) = t.map (·.span) := by
  apply List.ext_getElem?
  intro k
  simp only [List.getElem?_map]
  by_cases hk : k < t.length
  · have hr : k < r.length := by rw [h.1]; exact hk
    rw [List.getElem?_eq_getElem hk, List.getElem?_eq_getElem hr]
    have := h.2 k _ _ (List.getElem?_eq_getElem hk) (List.getElem?_eq_getElem hr)
    simp [this.1]
  · have h1 := h.1
    rw [List.getElem?_eq_none (by omega), List.getElem?_eq_none (by omega)]

/-- every token of `r` is the re-marked image of a token of `t` -/
theorem Remarked.mem {t r : List Tok} (h : Remarked t r) {y : Tok} (hy : y ∈ r) :
    ∃ x ∈ t, Remark x y := by
  obtain ⟨k, hk, rfl⟩ := List.mem_iff_getElem.mp hy
  have hk' : k < t.length := by rw [← h.1]; exact hk
  exact ⟨t[k], List.getElem_mem hk',
    h.2 k _ _ (List.getElem?_eq_getElem hk') (List.getElem?_eq_getElem hk)⟩

/-- a relation between spans that holds pairwise in `t` holds pairwise in `r` -/
theorem Remarked.pairwise {t r : List Tok} (h : Remarked t r) {R : Span → Span → Prop}
    (ht : t.Pairwise (fun a b => R a.span b.span)) : r.Pairwise (fun a b => R a.span b.span) := by
  have h1 : (t.map (·.span)).Pairwise R := List.pairwise_map.mpr ht
  rw [← h.spans] at h1
  exact List.pairwise_map.mp h1

theorem markUnlintable_remarked (toks : List Tok) (a b : Nat) :
    Remarked toks (markUnlintable toks a b) := by
  refine ⟨markUnlintable_length toks a b, ?_⟩
  intro k x y hx hy
  simp only [markUnlintable, List.getElem?_mapIdx, hx, Option.map_some, Option.some.injEq] at hy
  subst hy
  split
  · exact ⟨rfl, Or.inr rfl⟩
  · exact Remark.refl x

theorem markInlineTags_remarked : ∀ (fuel : Nat) (toks : List Tok) (cursor : Nat) (r : List Tok),
    markInlineTags fuel toks cursor = .ok r → Remarked toks r := by
  intro fuel
  induction fuel with
  | zero => intro toks cursor r h; simp [markInlineTags] at h
  | succ fuel ih =>
    intro toks cursor r h
    unfold markInlineTags at h
    split at h
    · cases h; exact Remarked.refl _
    · split at h
      · cases h; exact Remarked.refl _
      · next c _ =>
        simp only [bind, Except.bind] at h
        cases hp : parseInlineTag (toks.length + 1) ((toks.drop c).map (·.kind)) with
        | error e => rw [hp] at h; cases h
        | ok p =>
          rw [hp] at h
          simp only [] at h
          cases p with
          | none => exact ih _ _ _ h
          | some p => exact (markUnlintable_remarked toks c (c + p)).trans (ih _ _ _ h)

theorem jdScan_remarked (l : List Tok) : Remarked l (jdScan l) := by
  refine ⟨jdScan_length l, ?_⟩
  intro k x y hx hy
  rcases jdScan_get l.length l rfl k with h | h
  · rw [h, hx] at hy; cases hy; exact Remark.refl x
  · rw [h, hx] at hy; cases hy; exact Remark.unl x

/-- `Faithful` on spans only: the token's SPAN is the shifted span of a token the inner parser produced
on a chunk that is the text of the file at that offset; its kind is the inner token's or `Unlintable` -/
def SpanFaithful (inner : List Char → List Tok) (src : List Char) (toks : List Tok) : Prop :=
  ∀ tok ∈ toks, IsGlue tok ∨
    ∃ off chunk t, chunk = (src.drop off).take chunk.length ∧ off + chunk.length ≤ src.length ∧
      t ∈ inner chunk ∧ Remark (t.shift off) tok

theorem Faithful.spanFaithful {inner src toks} (h : Faithful inner src toks) :
    SpanFaithful inner src toks := by
  intro tok ht
  rcases h tok ht with hg | ⟨off, chunk, t, h1, h2, h3, rfl⟩
  · exact Or.inl hg
  · exact Or.inr ⟨off, chunk, t, h1, h2, h3, Remark.refl _⟩

theorem SpanFaithful.nil {inner src} : SpanFaithful inner src [] := by
  intro t ht; cases ht

theorem SpanFaithful.append {inner src a b} (ha : SpanFaithful inner src a)
    (hb : SpanFaithful inner src b) : SpanFaithful inner src (a ++ b) := by
  intro t ht
  rcases List.mem_append.mp ht with h | h
  · exact ha t h
  · exact hb t h

/-- the text of the file under a re-marked token is the text the inner parser saw under the original -/
theorem spanFaithful_text {src chunk : List Char} {off : Nat} {t tok : Tok}
    (hr : Remark (t.shift off) tok) (hc : chunk = (src.drop off).take chunk.length)
    (hb : t.span.stop ≤ chunk.length) : slice src tok.span = slice chunk t.span := by
  rw [hr.1]; exact faithful_text t hc hb

/-! ### JSDoc -/

/-- the line break `JsDoc::parse` pushes after every line but the last -/
def nlTok (p : Nat) : Tok := ⟨⟨p, p + 1⟩, .newline 1⟩

/-- `jsdoc.rs:parse_line`: the inner parser's tokens on the stripped line, re-marked, shifted by the
length of the leader -/
theorem jsdocLine_spec (isWs : Char → Bool) (inner : List Char → List Tok) (line : List Char) :
    ∃ a m, withoutInitiators isWs line = .ok a ∧ a.start ≤ a.stop ∧ a.stop ≤ line.length ∧
      jsdocLine isWs inner line = .ok (m.map (·.shift a.start)) ∧
      Remarked (if a.isEmpty then [] else inner (slice line a)) m := by
  obtain ⟨a, ha, h1, h2⟩ := withoutInitiators_ok isWs line
  simp only [jsdocLine, ha, bind, Except.bind]
  by_cases he : a.isEmpty = true
  · rw [if_pos he]
    exact ⟨a, [], rfl, h1, h2, rfl, by simp [he, Remarked.refl]⟩
  · rw [if_neg he, getContent_eq a line h1 h2]
    obtain ⟨t1, ht1, _⟩ := markInlineTags_ok ((inner (slice line a)).length + 1)
      (inner (slice line a)) 0 (Nat.zero_le _) (by omega)
    have hr1 := markInlineTags_remarked _ _ _ _ ht1
    simp only [ht1, pure, Except.pure]
    refine ⟨a, _, rfl, h1, h2, rfl, ?_⟩
    simp only [he, Bool.false_eq_true, if_false]
    split
    · exact hr1.trans (markUnlintable_remarked _ _ _)
    · exact hr1

/-- **What `JsDoc::parse` returns, line by line** (`base` = offset of the first line in the file):
for every line, in order, the inner parser's tokens on the stripped line — same spans, same order,
kinds kept or replaced by `Unlintable` — shifted by `base + leader`, then (unless it is the last
line) the line break at `base + len`; the next line starts at `base + len + 1`. -/
def JsDocLines (isWs : Char → Bool) (inner : List Char → List Tok) :
    List (List Char) → Nat → List Tok → Prop
  | [], _, toks => toks = []
  | line :: rest, base, toks =>
    ∃ a m r, withoutInitiators isWs line = .ok a ∧
      Remarked (if a.isEmpty then [] else inner (slice line a)) m ∧
      JsDocLines isWs inner rest (base + line.length + 1) r ∧
      toks = m.map (·.shift (base + a.start)) ++
        (if rest.isEmpty then [] else [nlTok (base + line.length)]) ++ r

theorem jsdocLoop_spec (isWs : Char → Bool) (inner : List Char → List Tok) (src : List Char) :
    ∀ (lines : List (List Char)) (pre : List Char), lines ≠ [] → src = pre ++ joinNl lines →
      ∃ toks, jsdocLoop isWs src.length inner pre.length lines = .ok toks ∧
        JsDocLines isWs inner lines pre.length toks := by
  intro lines
  induction lines with
  | nil => intro _ h; exact absurd rfl h
  | cons line rest ih =>
    intro pre _ hsrc
    obtain ⟨a, m, ha, _, _, hline, hrem⟩ := jsdocLine_spec isWs inner line
    have hrec : ∃ r, jsdocLoop isWs src.length inner (pre.length + line.length + 1) rest = .ok r ∧
        JsDocLines isWs inner rest (pre.length + line.length + 1) r := by
      cases hr : rest with
      | nil => exact ⟨[], rfl, rfl⟩
      | cons l2 ls2 =>
        have hsrc' : src = (pre ++ line ++ ['\n']) ++ joinNl (l2 :: ls2) := by
          rw [hsrc, hr]; simp [joinNl]
        obtain ⟨r, h1, h2⟩ := ih (pre ++ line ++ ['\n']) (by rw [hr]; simp) (by rw [← hr] at hsrc'; exact hsrc')
        have hl : (pre ++ line ++ ['\n']).length = pre.length + line.length + 1 := by simp; omega
        rw [hl, hr] at h1 h2
        exact ⟨r, h1, h2⟩
    obtain ⟨r, hr, hrJ⟩ := hrec
    have hbrk : (lineBreakTok src.length pre.length line).map (·.shift pre.length) =
        (if rest.isEmpty then [] else [nlTok (pre.length + line.length)]) := by
      cases hr' : rest with
      | nil =>
        have : src.length = pre.length + line.length := by rw [hsrc, hr']; simp [joinNl]
        simp [lineBreakTok, this]
      | cons l2 ls2 =>
        have : pre.length + line.length < src.length := by rw [hsrc, hr']; simp [joinNl]
        simp [lineBreakTok, this, nlTok, Tok.shift, Span.pushBy]; omega
    refine ⟨_, by simp only [jsdocLoop, hline, hr, bind, Except.bind, pure, Except.pure]; rfl, ?_⟩
    refine ⟨a, m, r, ha, hrem, hrJ, ?_⟩
    rw [List.map_append, hbrk, List.map_map]
    congr 2
    apply List.map_congr_left
    intro t _
    simp [shift_shift]

/-- the token-level reading of `JsDocLines` on a file `src = pre ++ lines` -/
theorem JsDocLines.spanFaithful (isWs : Char → Bool) (inner : List Char → List Tok) (src : List Char) :
    ∀ (lines : List (List Char)) (pre : List Char) (toks : List Tok), lines ≠ [] →
      src = pre ++ joinNl lines → JsDocLines isWs inner lines pre.length toks →
      SpanFaithful inner src toks := by
  intro lines
  induction lines with
  | nil => intro _ _ h; exact absurd rfl h
  | cons line rest ih =>
    intro pre toks _ hsrc h
    obtain ⟨a, m, r, ha, hrem, hrJ, rfl⟩ := h
    obtain ⟨a', ha', ha1, ha2⟩ := withoutInitiators_ok isWs line
    rw [ha] at ha'; cases ha'
    obtain ⟨tail, htail⟩ : ∃ tail, src = pre ++ line ++ tail := by
      cases hr' : rest with
      | nil => exact ⟨[], by rw [hsrc, hr']; simp [joinNl]⟩
      | cons l2 ls2 => exact ⟨'\n' :: joinNl (l2 :: ls2), by rw [hsrc, hr']; simp [joinNl]⟩
    have hrF : SpanFaithful inner src r := by
      cases hr' : rest with
      | nil => rw [hr'] at hrJ; cases hrJ; exact SpanFaithful.nil
      | cons l2 ls2 =>
        have hl : (pre ++ line ++ ['\n']).length = pre.length + line.length + 1 := by simp; omega
        refine ih (pre ++ line ++ ['\n']) r (by rw [hr']; simp) (by rw [hsrc, hr']; simp [joinNl]) ?_
        rw [hl]; exact hrJ
    refine SpanFaithful.append (SpanFaithful.append ?_ ?_) hrF
    · intro tok ht
      obtain ⟨y, hy, rfl⟩ := List.mem_map.mp ht
      obtain ⟨x, hx, hxy⟩ := hrem.mem hy
      by_cases he : a.isEmpty = true
      · simp [he] at hx
      · simp only [he, Bool.false_eq_true, if_false] at hx
        refine Or.inr ⟨pre.length + a.start, slice line a, x, ?_, ?_, hx, hxy.shift _⟩
        · rw [htail]; exact chunk_located pre line tail a ha1 ha2
        · rw [slice_length a line ha2, htail]; simp; omega
    · intro tok ht
      split at ht
      · cases ht
      · simp at ht; subst ht; exact Or.inl (Or.inr rfl)

/-- … and its bounds: under `InnerOK` every token lies inside `[base, base + |lines|]`, in order -/
theorem JsDocLines.inbounds (isWs : Char → Bool) (inner : List Char → List Tok) (hin : InnerOK inner) :
    ∀ (lines : List (List Char)) (base : Nat) (toks : List Tok),
      JsDocLines isWs inner lines base toks →
      (∀ t ∈ toks, base ≤ t.span.start ∧ t.span.start ≤ t.span.stop ∧
        t.span.stop ≤ base + (joinNl lines).length) ∧
      toks.Pairwise (fun a b => a.span.stop ≤ b.span.start) := by
  intro lines
  induction lines with
  | nil => intro base toks h; cases h; exact ⟨by simp, List.Pairwise.nil⟩
  | cons line rest ih =>
    intro base toks h
    obtain ⟨a, m, r, ha, hrem, hrJ, rfl⟩ := h
    obtain ⟨a', ha', ha1, ha2⟩ := withoutInitiators_ok isWs line
    rw [ha] at ha'; cases ha'
    obtain ⟨hrB, hrP⟩ := ih _ _ hrJ
    -- the re-marked inner tokens of this line
    have hmB : ∀ y ∈ m, y.span.start ≤ y.span.stop ∧ y.span.stop ≤ a.stop - a.start := by
      intro y hy
      obtain ⟨x, hx, hxy⟩ := hrem.mem hy
      by_cases he : a.isEmpty = true
      · simp [he] at hx
      · simp only [he, Bool.false_eq_true, if_false] at hx
        have := (hin (slice line a)).1 x hx
        rw [slice_length a line ha2] at this
        rw [hxy.1]; exact this
    have hmP : m.Pairwise (fun x y => x.span.stop ≤ y.span.start) := by
      apply hrem.pairwise (R := fun x y => x.stop ≤ y.start)
      by_cases he : a.isEmpty = true
      · simp [he]
      · simp only [he, Bool.false_eq_true, if_false]; exact (hin (slice line a)).2
    have hlen : (joinNl (line :: rest)).length =
        line.length + (if rest.isEmpty then 0 else 1 + (joinNl rest).length) := by
      cases rest with
      | nil => simp [joinNl]
      | cons l2 ls2 => simp [joinNl]; omega
    rw [hlen]
    refine ⟨?_, ?_⟩
    · intro t ht
      simp only [List.mem_append, List.mem_map] at ht
      rcases ht with (⟨y, hy, rfl⟩ | ht) | ht
      · have := hmB y hy
        simp [Tok.shift, Span.pushBy]; omega
      · cases hr' : rest with
        | nil => simp [hr'] at ht
        | cons l2 ls2 =>
          simp [hr'] at ht; subst ht
          simp [nlTok]; omega
      · have := hrB t ht
        cases hr' : rest with
        | nil => rw [hr'] at hrJ; cases hrJ; cases ht
        | cons l2 ls2 => simp; rw [hr'] at this; omega
    · refine List.pairwise_append.mpr ⟨List.pairwise_append.mpr ⟨?_, ?_, ?_⟩, hrP, ?_⟩
      · exact List.Pairwise.map _ (fun x y h => by simp [Tok.shift, Span.pushBy]; omega) hmP
      · split <;> simp
      · intro x hx y hy
        obtain ⟨x0, hx0, rfl⟩ := List.mem_map.mp hx
        have := hmB x0 hx0
        split at hy
        · cases hy
        · simp at hy; subst hy
          simp [nlTok, Tok.shift, Span.pushBy]; omega
      · intro x hx y hy
        have hy' := hrB y hy
        rcases List.mem_append.mp hx with hx | hx
        · obtain ⟨x0, hx0, rfl⟩ := List.mem_map.mp hx
          have := hmB x0 hx0
          simp [Tok.shift, Span.pushBy]; omega
        · split at hx
          · cases hx
          · simp at hx; subst hx
            simp [nlTok]; omega

/-! ### JavaDoc -/

/-- leader removal only drops tokens -/
theorem jdStrip_sublist : ∀ (b : Bool) (l : List Tok), (jdStrip b l).Sublist l
  | _, [] => List.Sublist.slnil
  | b, t :: ts => by
    unfold jdStrip
    split
    · exact (jdStrip_sublist true ts).cons t
    · exact (jdStrip_sublist _ ts).cons_cons t

/-- … and only `*` and space tokens (those that follow a line break) -/
theorem jdStrip_keeps : ∀ (b : Bool) (l : List Tok) (t : Tok), t ∈ l →
    isStarKind t.kind = false → t.kind.isSpace = false → t ∈ jdStrip b l
  | _, [], _, h, _, _ => by cases h
  | b, x :: xs, t, h, h1, h2 => by
    unfold jdStrip
    rcases List.mem_cons.mp h with rfl | h
    · simp [h1, h2]
    · split
      · exact jdStrip_keeps true xs t h h1 h2
      · exact List.mem_cons_of_mem _ (jdStrip_keeps _ xs t h h1 h2)

/-- `JavaDoc::parse`: the HTML parser's tokens on the comment without its delimiters, leaders dropped,
shifted by the length of the opening delimiter, re-marked -/
theorem javadocParse_spec (isWs : Char → Bool) (src : List Char) (inner : List Char → List Tok) :
    ∃ a r, withoutInitiators isWs src = .ok a ∧ a.start ≤ a.stop ∧ a.stop ≤ src.length ∧
      javadocParse isWs src inner = .ok r ∧
      Remarked ((jdStrip false (inner (slice src a))).map (·.shift a.start)) r := by
  obtain ⟨a, ha, h1, h2⟩ := withoutInitiators_ok isWs src
  obtain ⟨t2, ht2, _⟩ := markInlineTags_ok
    (((jdStrip false (inner (slice src a))).map (·.shift a.start)).length + 1)
    ((jdStrip false (inner (slice src a))).map (·.shift a.start)) 0 (Nat.zero_le _) (by omega)
  refine ⟨a, jdScan t2, ha, h1, h2, ?_, ?_⟩
  · simp only [javadocParse, ha, bind, Except.bind, getContent_eq a src h1 h2, ht2, javadocMark_eq]
  · exact (markInlineTags_remarked _ _ _ _ ht2).trans (jdScan_remarked t2)

/-! ## `Unit::parse` and code fences: the exact output -/

/-- the value of the model's own fence-line test `lineIsCodeFence` (which never fails:
`lineIsCodeFence_eq`) — the `isF` of `unitLoop` -/
def isFenceLine (isWs : Char → Bool) (line : List Char) : Bool :=
  match lineIsCodeFence isWs line with
  | .ok b => b
  | .error _ => false

theorem lineIsCodeFence_eq (isWs : Char → Bool) (line : List Char) :
    lineIsCodeFence isWs line = .ok (isFenceLine isWs line) := by
  obtain ⟨b, hb⟩ := lineIsCodeFence_ok isWs line
  simp [isFenceLine, hb]

/-- the value of `without_initiators` on a line (it never fails: `withoutInitiators_eq`) -/
def leaderSpan (isWs : Char → Bool) (line : List Char) : Span :=
  match withoutInitiators isWs line with
  | .ok a => a
  | .error _ => ⟨0, 0⟩

theorem withoutInitiators_eq (isWs : Char → Bool) (line : List Char) :
    withoutInitiators isWs line = .ok (leaderSpan isWs line) ∧
      (leaderSpan isWs line).start ≤ (leaderSpan isWs line).stop ∧
      (leaderSpan isWs line).stop ≤ line.length := by
  obtain ⟨a, ha, h1, h2⟩ := withoutInitiators_ok isWs line
  simp [leaderSpan, ha, h1, h2]

/-- the fence test, spelled out: the stripped line begins with three backticks -/
theorem isFenceLine_eq (isWs : Char → Bool) (line : List Char) :
    isFenceLine isWs line = ((slice line (leaderSpan isWs line)).take 3 == ['`', '`', '`']) := by
  obtain ⟨ha, h1, h2⟩ := withoutInitiators_eq isWs line
  simp only [isFenceLine, lineIsCodeFence, ha, bind, Except.bind, getContent_eq _ line h1 h2, pure, Except.pure]

/-- what `unit.rs:parse_line` returns for a line -/
def parsedLine (isWs : Char → Bool) (inner : List Char → List Tok) (line : List Char) : List Tok :=
  if (leaderSpan isWs line).isEmpty then []
  else (inner (slice line (leaderSpan isWs line))).map (·.shift (leaderSpan isWs line).start)

theorem parseLine_eq (isWs : Char → Bool) (inner : List Char → List Tok) (line : List Char) :
    parseLine isWs inner line = .ok (parsedLine isWs inner line) := by
  obtain ⟨ha, h1, h2⟩ := withoutInitiators_eq isWs line
  simp only [parseLine, parsedLine, ha, bind, Except.bind]
  by_cases he : (leaderSpan isWs line).isEmpty = true
  · rw [if_pos he, if_pos he]; rfl
  · rw [if_neg he, if_neg he, getContent_eq _ line h1 h2]; rfl

/-- everything `Unit::parse` appends for one line that is NOT skipped, the line starting at offset
`off`: the inner parser's tokens on the stripped line, then the line-break token, all pushed by `off` -/
def unitLineToks (isWs : Char → Bool) (total : Nat) (inner : List Char → List Tok) (off : Nat)
    (line : List Char) : List Tok :=
  (parsedLine isWs inner line ++ lineBreakTok total off line).map (·.shift off)

/-- `in_code_fence` AFTER the toggle, for every line in turn (`fence` = the flag before the first
line); the toggle test is the model's own `lineIsCodeFence` -/
def fenceStates (isWs : Char → Bool) : Bool → List (List Char) → List Bool
  | _, [] => []
  | fence, line :: rest =>
    (if isFenceLine isWs line then !fence else fence) ::
      fenceStates isWs (if isFenceLine isWs line then !fence else fence) rest

/-- concatenation of `unitLineToks` over the lines whose state is `false`; nothing for the others -/
def unitOut (isWs : Char → Bool) (total : Nat) (inner : List Char → List Tok) :
    Nat → List (List Char) → List Bool → List Tok
  | off, line :: rest, st :: sts =>
    (if st then [] else unitLineToks isWs total inner off line) ++
      unitOut isWs total inner (off + line.length + 1) rest sts
  | _, _, _ => []

theorem fenceStates_length (isWs : Char → Bool) : ∀ (fence : Bool) (lines : List (List Char)),
    (fenceStates isWs fence lines).length = lines.length
  | _, [] => rfl
  | fence, l :: ls => by simp [fenceStates, fenceStates_length isWs _ ls]

/-- **exact output of the `Unit::parse` loop** -/
theorem unitLoop_eq (isWs : Char → Bool) (total : Nat) (inner : List Char → List Tok) :
    ∀ (lines : List (List Char)) (trav : Nat) (fence : Bool),
      unitLoop isWs total inner trav fence lines =
        .ok (unitOut isWs total inner trav lines (fenceStates isWs fence lines)) := by
  intro lines
  induction lines with
  | nil => intro _ _; rfl
  | cons line rest ih =>
    intro trav fence
    simp only [unitLoop, lineIsCodeFence_eq, bind, Except.bind, fenceStates, unitOut, ih, parseLine_eq,
      pure, Except.pure]
    by_cases h : (if isFenceLine isWs line = true then !fence else fence) = true
    · rw [if_pos h, if_pos h]; rfl
    · rw [if_neg h, if_neg h]; rfl

/-- the state after line `j`: the initial flag, flipped once per fence line among lines `0..=j` -/
theorem fenceStates_getElem? (isWs : Char → Bool) : ∀ (lines : List (List Char)) (fence : Bool) (j : Nat),
    j < lines.length →
    (fenceStates isWs fence lines)[j]? =
      some (fence != (((lines.take (j + 1)).countP (isFenceLine isWs)) % 2 == 1))
  | [], _, _, h => by simp at h
  | l :: ls, fence, 0, _ => by
    cases hf : isFenceLine isWs l <;> cases fence <;> simp [fenceStates, hf]
  | l :: ls, fence, j + 1, h => by
    have := fenceStates_getElem? isWs ls (if isFenceLine isWs l then !fence else fence) j (by simpa using h)
    simp only [fenceStates, List.getElem?_cons_succ, this, List.take_succ_cons, List.countP_cons]
    cases hf : isFenceLine isWs l <;> cases fence <;> simp
    all_goals
      generalize List.countP _ _ = n
      rcases Nat.mod_two_eq_zero_or_one n with h0 | h0
      · have h1 : (n + 1) % 2 = 1 := by omega
        simp [h0, h1]
      · have h1 : (n + 1) % 2 = 0 := by omega
        simp [h0, h1]

theorem mem_unitOut (isWs : Char → Bool) (total : Nat) (inner : List Char → List Tok) (tok : Tok) :
    ∀ (lines : List (List Char)) (sts : List Bool) (base : Nat),
      tok ∈ unitOut isWs total inner base lines sts ↔
        ∃ j line, lines[j]? = some line ∧ sts[j]? = some false ∧
          tok ∈ unitLineToks isWs total inner (base + lineStart lines j) line
  | [], _, _ => by simp [unitOut]
  | _ :: _, [], _ => by simp [unitOut]
  | l :: ls, st :: sts, base => by
    simp only [unitOut, List.mem_append, mem_unitOut isWs total inner tok ls sts]
    constructor
    · rintro (h | ⟨j, line, h1, h2, h3⟩)
      · cases st
        · exact ⟨0, l, by simp, by simp, by simpa [lineStart_zero] using h⟩
        · simp at h
      · refine ⟨j + 1, line, by simpa using h1, by simpa using h2, ?_⟩
        rw [lineStart_succ]
        have : base + (l.length + 1 + lineStart ls j) = base + l.length + 1 + lineStart ls j := by omega
        rw [this]; exact h3
    · rintro ⟨j, line, h1, h2, h3⟩
      cases j with
      | zero =>
        simp at h1 h2; subst h1; subst h2
        left; simpa [lineStart_zero] using h3
      | succ j =>
        right
        refine ⟨j, line, by simpa using h1, by simpa using h2, ?_⟩
        rw [lineStart_succ] at h3
        have : base + (l.length + 1 + lineStart ls j) = base + l.length + 1 + lineStart ls j := by omega
        rw [this] at h3; exact h3

/-- membership in one line's contribution, spelled out -/
theorem mem_unitLineToks (isWs : Char → Bool) (total : Nat) (inner : List Char → List Tok) (off : Nat)
    (line : List Char) (tok : Tok) :
    tok ∈ unitLineToks isWs total inner off line ↔
      (off + line.length < total ∧
        tok = ⟨⟨off + line.length, off + line.length + 1⟩, .newline 1⟩) ∨
      ((leaderSpan isWs line).isEmpty = false ∧ ∃ t ∈ inner (slice line (leaderSpan isWs line)),
        tok = t.shift (off + (leaderSpan isWs line).start)) := by
  simp only [unitLineToks, List.mem_map, List.mem_append]
  constructor
  · rintro ⟨x, hx | hx, rfl⟩
    · right
      unfold parsedLine at hx
      split at hx
      · cases hx
      · next he =>
        obtain ⟨t, ht, rfl⟩ := List.mem_map.mp hx
        exact ⟨by simpa using he, t, ht, shift_shift t _ _⟩
    · left
      unfold lineBreakTok at hx
      split at hx
      · next hlt =>
        simp at hx; subst hx
        refine ⟨hlt, ?_⟩
        simp [Tok.shift, Span.pushBy]; omega
      · cases hx
  · rintro (⟨hlt, rfl⟩ | ⟨he, t, ht, rfl⟩)
    · refine ⟨⟨⟨line.length, line.length + 1⟩, .newline 1⟩, Or.inr ?_, ?_⟩
      · simp [lineBreakTok, hlt]
      · simp [Tok.shift, Span.pushBy]; omega
    · refine ⟨t.shift (leaderSpan isWs line).start, Or.inl ?_, shift_shift t _ _⟩
      unfold parsedLine
      rw [if_neg (by simp [he])]
      exact List.mem_map.mpr ⟨t, ht, rfl⟩

/-- with a well-behaved inner parser, a line's tokens stay inside the line and its line break -/
theorem unitLineToks_bounds {inner : List Char → List Tok} (hin : InnerOK inner) (isWs : Char → Bool)
    (total off : Nat) (line : List Char) (tok : Tok) (h : tok ∈ unitLineToks isWs total inner off line) :
    off ≤ tok.span.start ∧ tok.span.start ≤ tok.span.stop ∧ tok.span.stop ≤ off + line.length + 1 := by
  obtain ⟨_, h1, h2⟩ := withoutInitiators_eq isWs line
  rcases (mem_unitLineToks isWs total inner off line tok).mp h with ⟨_, rfl⟩ | ⟨_, t, ht, rfl⟩
  · simp
  · have := (hin _).1 t ht
    rw [slice_length _ line h2] at this
    simp only [Tok.shift, Span.pushBy]
    omega

/-- the lines (with their line breaks) occupy disjoint, increasing stretches of the text -/
theorem lineStart_lt : ∀ (lines : List (List Char)) (j k : Nat) (l : List Char),
    lines[j]? = some l → j < k → lineStart lines j + l.length + 1 ≤ lineStart lines k
  | [], _, _, _, h, _ => by simp at h
  | x :: xs, 0, k + 1, l, h, _ => by
    simp at h; subst h
    rw [lineStart_zero, lineStart_succ]; omega
  | x :: xs, j + 1, k + 1, l, h, hjk => by
    have := lineStart_lt xs j k l (by simpa using h) (by omega)
    rw [lineStart_succ, lineStart_succ]; omega

/-- no fence line anywhere: the flag never changes -/
theorem fenceStates_no_fence (isWs : Char → Bool) : ∀ (lines : List (List Char)) (fence : Bool),
    (∀ l ∈ lines, isFenceLine isWs l = false) →
    fenceStates isWs fence lines = List.replicate lines.length fence
  | [], _, _ => rfl
  | l :: ls, fence, h => by
    have hl : isFenceLine isWs l = false := h l (by simp)
    simp [fenceStates, hl, List.replicate_succ,
      fenceStates_no_fence isWs ls fence (fun x hx => h x (List.mem_cons_of_mem _ hx))]

/-- a fence line is never blank after stripping: the inner parser is really called on it, on a
chunk that begins with the three backticks -/
theorem parsedLine_fence (isWs : Char → Bool) (inner : List Char → List Tok) (line : List Char)
    (hf : isFenceLine isWs line = true) :
    (slice line (leaderSpan isWs line)).take 3 = ['`', '`', '`'] ∧
    parsedLine isWs inner line =
      (inner (slice line (leaderSpan isWs line))).map (·.shift (leaderSpan isWs line).start) := by
  obtain ⟨_, h1, h2⟩ := withoutInitiators_eq isWs line
  rw [isFenceLine_eq] at hf
  have ht : (slice line (leaderSpan isWs line)).take 3 = ['`', '`', '`'] := by simpa using hf
  refine ⟨ht, ?_⟩
  unfold parsedLine
  rw [if_neg]
  intro he
  have hl := slice_length _ line h2
  have : (slice line (leaderSpan isWs line)).length = 0 := by
    simp [Span.isEmpty, Span.len] at he; omega
  have : slice line (leaderSpan isWs line) = [] := List.eq_nil_of_length_eq_zero this
  rw [this] at ht; cases ht

/-- **the closing fence line**: inside a fence (`fence = true`), a fence line flips the flag to
`false` BEFORE it is tested, so that very line is parsed like a prose line -/
theorem unitLoop_closing_fence (isWs : Char → Bool) (total : Nat) (inner : List Char → List Tok)
    (trav : Nat) (line : List Char) (rest : List (List Char)) (hf : isFenceLine isWs line = true) :
    unitLoop isWs total inner trav true (line :: rest) =
      .ok (unitLineToks isWs total inner trav line ++
        unitOut isWs total inner (trav + line.length + 1) rest (fenceStates isWs false rest)) := by
  rw [unitLoop_eq]; simp [fenceStates, unitOut, hf]

/-- the opening fence line (flag `false` before it) and every non-fence line while the flag is
`true` are skipped: nothing is emitted for them, not even the line-break token -/
theorem unitLoop_opening_fence (isWs : Char → Bool) (total : Nat) (inner : List Char → List Tok)
    (trav : Nat) (line : List Char) (rest : List (List Char)) (hf : isFenceLine isWs line = true) :
    unitLoop isWs total inner trav false (line :: rest) =
      unitLoop isWs total inner (trav + line.length + 1) true rest := by
  rw [unitLoop_eq, unitLoop_eq]; simp [fenceStates, unitOut, hf]

theorem unitLoop_inside_fence (isWs : Char → Bool) (total : Nat) (inner : List Char → List Tok)
    (trav : Nat) (line : List Char) (rest : List (List Char)) (hf : isFenceLine isWs line = false) :
    unitLoop isWs total inner trav true (line :: rest) =
      unitLoop isWs total inner (trav + line.length + 1) true rest := by
  rw [unitLoop_eq, unitLoop_eq]; simp [fenceStates, unitOut, hf]

theorem leaderSpan_fence_nonempty (isWs : Char → Bool) (line : List Char)
    (hf : isFenceLine isWs line = true) : (leaderSpan isWs line).isEmpty = false := by
  have h := (parsedLine_fence isWs (fun _ => [⟨⟨0, 0⟩, .word⟩]) line hf).2
  unfold parsedLine at h
  cases he : (leaderSpan isWs line).isEmpty
  · rfl
  · rw [he] at h; simp at h

end Harper
