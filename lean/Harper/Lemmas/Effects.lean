import Harper.Model.Effects
/-! # Lemmas for C10: `file_dict_name` is one path component; what a trace can contain -/
namespace Harper.Effects

theorem splitSlash_ne_nil (l : List Char) : splitSlash l ≠ [] := by
  cases l with
  | nil => simp [splitSlash]
  | cons c cs =>
    simp only [splitSlash]
    split
    · simp
    · split <;> simp

theorem splitSlash_no_slash (l : List Char) : ∀ g ∈ splitSlash l, '/' ∉ g := by
  induction l with
  | nil => simp [splitSlash]
  | cons c cs ih =>
    simp only [splitSlash]
    split
    · rename_i h; exact absurd h (splitSlash_ne_nil cs)
    · rename_i g gs h
      rw [h] at ih
      split
      · intro x hx
        simp only [List.mem_cons] at hx
        rcases hx with rfl | rfl | hx
        · simp
        · exact ih _ (by simp)
        · exact ih _ (by simp [hx])
      · rename_i hc
        intro x hx
        simp only [List.mem_cons] at hx
        rcases hx with rfl | hx
        · have := ih g (by simp)
          simp only [List.mem_cons, not_or]
          exact ⟨fun h => hc h.symm, this⟩
        · exact ih _ (by simp [hx])

theorem components_no_slash (p : List Char) : ∀ g ∈ components p, '/' ∉ g := by
  intro g hg
  exact splitSlash_no_slash p g (List.mem_filter.mp hg).1

theorem flat_no_slash (cs : List (List Char)) (h : ∀ g ∈ cs, '/' ∉ g) :
    '/' ∉ cs.flatMap (fun c => c ++ ['%']) := by
  intro hm
  simp only [List.mem_flatMap, List.mem_append, List.mem_singleton] at hm
  obtain ⟨g, hg, h1 | h1⟩ := hm
  · exact h g hg h1
  · exact absurd h1 (by decide)

theorem flat_last (cs : List (List Char)) :
    cs.flatMap (fun c => c ++ ['%']) = [] ∨ (cs.flatMap (fun c => c ++ ['%'])).getLast? = some '%' := by
  induction cs with
  | nil => left; rfl
  | cons c cs ih =>
    right
    simp only [List.flatMap_cons]
    rcases ih with h | h
    · rw [h]; simp
    · rw [List.getLast?_append]
      simp [h]

/-- **`file_dict_name` yields one path component.** Whatever the document path — `..` segments,
percent-decoded slashes, any Unicode, any length — the rewritten name contains no `/`, is neither
`.` nor `..`, and is empty or ends in `%`. -/
theorem fileDictName_single_component (p : List Char) :
    '/' ∉ fileDictName p ∧ fileDictName p ≠ ['.', '.'] ∧ fileDictName p ≠ ['.'] ∧
    (fileDictName p = [] ∨ (fileDictName p).getLast? = some '%') := by
  have h1 := flat_no_slash (components p) (components_no_slash p)
  have h2 := flat_last (components p)
  refine ⟨h1, ?_, ?_, h2⟩
  · intro h; unfold fileDictName at h; rw [h] at h2; simp at h2
  · intro h; unfold fileDictName at h; rw [h] at h2; simp at h2

theorem splitSlash_of_no_slash (l : List Char) (h : '/' ∉ l) : splitSlash l = [l] := by
  induction l with
  | nil => rfl
  | cons c cs ih =>
    simp only [List.mem_cons, not_or] at h
    simp only [splitSlash, ih h.2]
    have : c ≠ '/' := fun e => h.1 e.symm
    simp [this]

/-- so `file_dict_path.join(name)` is the directory itself (empty name) or a direct child of it -/
theorem fileDictPath_inside (P : Paths) (doc : List Char) :
    fileDictPath P doc = P.fileDir ∨
    ∃ n, n ≠ [] ∧ '/' ∉ n ∧ n ≠ ['.', '.'] ∧ n ≠ ['.'] ∧ fileDictPath P doc = P.fileDir ++ [n] := by
  obtain ⟨h1, h2, h3, _⟩ := fileDictName_single_component doc
  unfold fileDictPath joinName
  have hhead : (fileDictName doc).head? ≠ some '/' := by
    intro h
    cases hn : fileDictName doc with
    | nil => rw [hn] at h; simp at h
    | cons a as => rw [hn] at h h1; simp at h; subst h; simp at h1
  simp only [hhead, if_false]
  unfold components
  rw [splitSlash_of_no_slash _ h1]
  by_cases he : fileDictName doc = []
  · left; simp [he]
  · right
    exact ⟨fileDictName doc, he, h1, h2, h3, by simp [he, h3]⟩

/-- the name is empty exactly for the root path (no normal component: `/`, `//`, `/./.`) -/
theorem fileDictName_eq_nil_iff (p : List Char) : fileDictName p = [] ↔ components p = [] := by
  unfold fileDictName
  cases components p with
  | nil => simp
  | cons c cs => simp

theorem mem_mkParent {q : Path} {x : Eff} : x ∈ mkParent q ↔ x = .mkdirs (parent q) ∧ q ≠ [] := by
  cases q with
  | nil => simp [mkParent, parent?]
  | cons c cs => simp [mkParent, parent?]

theorem mem_saveDictEff {q : Path} {x : Eff} :
    x ∈ saveDictEff q ↔ (x = .mkdirs (parent q) ∧ q ≠ []) ∨ x = .createFile q := by
  simp [saveDictEff, mem_mkParent]

theorem mem_saveStatsEff {q : Path} {x : Eff} :
    x ∈ saveStatsEff q ↔ (x = .mkdirs (parent q) ∧ q ≠ []) ∨ x = .appendFile q := by
  simp [saveStatsEff, mem_mkParent]

/-- the root path: no `mkdir`, only the (failing) attempt to create `/` as a file -/
theorem saveDictEff_root : saveDictEff [] = [.createFile []] := rfl

theorem mem_nonRootPrefixes {p q : Path} : q ∈ nonRootPrefixes p ↔ q ≠ [] ∧ q <+: p := by
  induction p generalizing q with
  | nil => simp [nonRootPrefixes]
  | cons c cs ih =>
    simp only [nonRootPrefixes, List.mem_cons, List.mem_map]
    constructor
    · rintro (rfl | ⟨r, hr, rfl⟩)
      · exact ⟨by simp, by simp [List.prefix_cons_iff]⟩
      · exact ⟨by simp, by simpa [List.cons_prefix_cons] using (ih.mp hr).2⟩
    · rintro ⟨hne, hpre⟩
      cases q with
      | nil => exact absurd rfl hne
      | cons a as =>
        obtain ⟨rfl, has⟩ := List.cons_prefix_cons.mp hpre
        by_cases h0 : as = []
        · left; rw [h0]
        · right; exact ⟨as, ih.mpr ⟨h0, has⟩, rfl⟩

/-- `p` itself is among what `mkdirs p` can create (unless `p` is the root, which exists) -/
theorem self_mem_nonRootPrefixes {p : Path} (h : p ≠ []) : p ∈ nonRootPrefixes p :=
  mem_nonRootPrefixes.mpr ⟨h, List.prefix_refl p⟩

/-- what the driver reports as created directories is, up to `..` resolution, among what the
`mkdirs` effects may create, and was not there before -/
theorem mem_dirsCreated {existing : List Path} {es : List Eff} {q : Path}
    (h : q ∈ dirsCreated existing es) :
    (∃ d, Eff.mkdirs d ∈ es ∧ ∃ r ∈ (Eff.mkdirs d).created, q = normDots [] r) ∧
    q ≠ [] ∧ ∀ x ∈ existing, ¬ q <+: x := by
  unfold dirsCreated at h
  simp only [List.mem_filter, List.mem_map, List.mem_flatMap, Bool.and_eq_true, Bool.not_eq_true',
    List.any_eq_false, List.isEmpty_eq_false_iff] at h
  obtain ⟨⟨r, ⟨e, ⟨he, hk⟩, hr⟩, rfl⟩, hne, hex⟩ := h
  refine ⟨?_, hne, ?_⟩
  · cases e <;> simp at hk
    exact ⟨_, he, r, hr, rfl⟩
  · intro x hx hpre
    have := hex x hx
    rw [List.isPrefixOf_iff_prefix.mpr hpre] at this
    exact absurd this (by simp)


theorem mem_updateEff {P : Paths} {doc : List Char} {t : Bool} {x : Eff}
    (h : x ∈ updateEff P doc t) : x = .readFile P.userDict ∨ x = .readFile (fileDictPath P doc) := by
  unfold updateEff loadDicts at h
  cases t
  · simp only [Bool.false_eq_true, if_false, List.append_nil, List.mem_cons, List.not_mem_nil, or_false] at h
    exact h
  · simp only [if_true, List.mem_append, List.mem_cons, List.not_mem_nil, or_false] at h
    rcases h with h | h <;> exact h

theorem mem_rereadEff {P : Paths} {doc : List Char} {e t : Bool} {x : Eff}
    (h : x ∈ rereadEff P doc e t) :
    x = .readFile (components doc) ∨ x = .readFile P.userDict ∨ x = .readFile (fileDictPath P doc) := by
  unfold rereadEff at h
  rcases List.mem_cons.mp h with h | h
  · exact Or.inl h
  · cases e
    · simp at h
    · exact Or.inr (mem_updateEff h)

theorem mem_trace {P : Paths} {en : Entry} {x : Eff} (h : x ∈ trace P en) :
    (∃ p, x = .readFile p) ∨
    (x = .mkdirs (parent P.userDict) ∧ P.userDict ≠ []) ∨ x = .createFile P.userDict ∨
    (∃ doc, (x = .mkdirs (parent (fileDictPath P doc)) ∧ fileDictPath P doc ≠ []) ∨
      x = .createFile (fileDictPath P doc)) ∨
    (x = .mkdirs (parent P.stats) ∧ P.stats ≠ []) ∨ x = .appendFile P.stats ∨
    (x = .listen [127, 0, 0, 1] 4000 ∧ en.isTcp = true) ∨ (x = .accept ∧ en.isTcp = true) ∨
    (∃ url, x = .spawnOpener url) := by
  cases en with
  | library => simp [trace] at h
  | wasm => simp [trace] at h
  | startStdio => simp [trace] at h
  | startTcp => simp [trace] at h; rcases h with h | h <;> simp [h, Entry.isTcp]
  | startTcpTaken => simp [trace] at h
  | update doc twice =>
    left
    rcases mem_updateEff h with h | h <;> exact ⟨_, h⟩
  | save doc e t => left; rcases mem_rereadEff h with h | h | h <;> exact ⟨_, h⟩
  | close => simp [trace] at h
  | deleted => simp [trace] at h
  | configuration docs =>
    left
    simp only [trace, List.mem_flatMap] at h
    obtain ⟨d, _, hd⟩ := h
    rcases mem_rereadEff hd with h | h | h <;> exact ⟨_, h⟩
  | addUser doc e t =>
    simp only [trace, List.mem_append, List.mem_cons, List.not_mem_nil, or_false, mem_saveDictEff] at h
    rcases h with (h | h | h) | h
    · left; exact ⟨_, h⟩
    · right; left; exact h
    · right; right; left; exact h
    · left; rcases mem_rereadEff h with h | h | h <;> exact ⟨_, h⟩
  | addFile doc e t =>
    simp only [trace, List.mem_append, List.mem_cons, List.not_mem_nil, or_false, mem_saveDictEff] at h
    rcases h with (h | h | h) | h
    · left; exact ⟨_, h⟩
    · right; right; right; left; exact ⟨doc, Or.inl h⟩
    · right; right; right; left; exact ⟨doc, Or.inr h⟩
    · left; rcases mem_rereadEff h with h | h | h <;> exact ⟨_, h⟩
  | ignoreLint => simp [trace] at h
  | recordLint => simp [trace] at h
  | codeAction => simp [trace] at h
  | openUrl url => simp [trace] at h; exact Or.inr (Or.inr (Or.inr (Or.inr (Or.inr (Or.inr (Or.inr (Or.inr ⟨url, h⟩)))))))
  | shutdown =>
    simp only [trace, mem_saveStatsEff] at h
    rcases h with h | h
    · right; right; right; right; left; exact h
    · right; right; right; right; right; left; exact h

end Harper.Effects
