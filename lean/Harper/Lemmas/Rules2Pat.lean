import Harper.Lemmas.Rules2
/-!
The rules of `Model/Rules2.lean` built around a pattern tree: OxfordComma and NoOxfordComma (their own
loop over a sentence), WidelyAccepted and TheHowWhy (`run_on_chunk`).
-/
namespace Harper.Rules2
open Harper Harper.Chunks Harper.Rules Harper.Leaves

/-! ## `lastIndexWhere`, `firstIndexWhere` -/

theorem lastIndexWhere_map (p q : Tok → Bool) (g : Tok → Tok) (h : ∀ t, p (g t) = q t) :
    ∀ l : List Tok, lastIndexWhere p (l.map g) = lastIndexWhere q l
  | [] => rfl
  | t :: ts => by simp only [List.map_cons, lastIndexWhere, lastIndexWhere_map p q g h ts, h]

theorem lastIndexWhere_congr (p q : Tok → Bool) : ∀ l : List Tok, (∀ t ∈ l, p t = q t) → lastIndexWhere p l = lastIndexWhere q l
  | [], _ => rfl
  | t :: ts, h => by
    simp only [lastIndexWhere, lastIndexWhere_congr p q ts (fun u hu => h u (List.mem_cons_of_mem _ hu)), h t (by simp)]

theorem firstIndexWhere_map (p q : Tok → Bool) (g : Tok → Tok) (h : ∀ t, p (g t) = q t) :
    ∀ l : List Tok, firstIndexWhere p (l.map g) = firstIndexWhere q l
  | [] => rfl
  | t :: ts => by simp only [List.map_cons, firstIndexWhere, firstIndexWhere_map p q g h ts, h]

/-- what it returns is an index of the list -/
theorem lastIndexWhere_lt (p : Tok → Bool) : ∀ (l : List Tok) (i : Nat), lastIndexWhere p l = some i → i < l.length
  | [], _, h => by cases h
  | t :: ts, i, h => by
    simp only [lastIndexWhere] at h
    cases hr : lastIndexWhere p ts with
    | some k =>
      rw [hr] at h
      cases h
      have := lastIndexWhere_lt p ts k hr
      simp only [List.length_cons]
      omega
    | none =>
      rw [hr] at h
      simp only [] at h
      split at h
      · cases h; simp
      · cases h

/-- … at or after every index whose token satisfies `p` -/
theorem lastIndexWhere_ge (p : Tok → Bool) : ∀ (l : List Tok) (i : Nat) (t : Tok), l[i]? = some t → p t = true →
    ∃ k, lastIndexWhere p l = some k ∧ i ≤ k
  | [], _, _, h, _ => by simp at h
  | x :: xs, 0, t, h, hp => by
    simp only [List.getElem?_cons_zero, Option.some.injEq] at h
    subst h
    simp only [lastIndexWhere]
    cases lastIndexWhere p xs with
    | some k => exact ⟨k + 1, rfl, Nat.zero_le _⟩
    | none => exact ⟨0, by simp [hp], Nat.le_refl _⟩
  | x :: xs, i + 1, t, h, hp => by
    simp only [List.getElem?_cons_succ] at h
    obtain ⟨k, ek, hk⟩ := lastIndexWhere_ge p xs i t h hp
    exact ⟨k + 1, by simp only [lastIndexWhere, ek], by omega⟩

/-! ## `SequencePattern` / `EitherPattern`: what a non-zero answer tells -/

/-- a sequence answers 0 or at least one token per element -/
theorem seqGo_ge_len (src : List Char) : ∀ (ps : List Matcher) (acc : Nat) (ts : List Tok) (n : Nat),
    seqGo src ps acc ts = .ok n → n = 0 ∨ acc + ps.length ≤ n
  | [], acc, _, n, h => by simp only [seqGo, Except.ok.injEq] at h; subst h; exact .inr (by simp)
  | p :: ps, acc, ts, n, h => by
    simp only [seqGo] at h
    cases hp : p src ts with
    | error e => rw [hp] at h; cases h
    | ok k =>
      rw [hp] at h
      simp only [] at h
      split at h
      · cases h; exact .inl rfl
      · split at h
        · cases h
        · rcases seqGo_ge_len src ps (acc + k) (ts.drop k) n h with h0 | h1
          · exact .inl h0
          · exact .inr (by simp only [List.length_cons]; omega)

/-- where the element after `ps1` matched, in the coordinates of the slice `T` the sequence was started on -/
theorem seqGo_elem (src : List Char) (q : Matcher) (ps2 : List Matcher) (T : List Tok) (n : Nat) (hn : n ≠ 0) :
    ∀ (ps1 : List Matcher) (acc : Nat), seqGo src (ps1 ++ q :: ps2) acc (T.drop acc) = .ok n →
      ∃ i k, acc + ps1.length ≤ i ∧ q src (T.drop i) = .ok k ∧ k ≠ 0 ∧ i + k ≤ n
  | [], acc, h => by
    simp only [List.nil_append, seqGo] at h
    cases hq : q src (T.drop acc) with
    | error e => rw [hq] at h; cases h
    | ok k =>
      rw [hq] at h
      simp only [] at h
      split at h
      · cases h; exact absurd rfl hn
      · split at h
        · cases h
        · rename_i hk0 _
          rcases seqGo_ge_len src ps2 (acc + k) _ n h with h0 | h1
          · exact absurd h0 hn
          · exact ⟨acc, k, by simp, hq, hk0, by omega⟩
  | p :: ps1, acc, h => by
    simp only [List.cons_append, seqGo] at h
    cases hp : p src (T.drop acc) with
    | error e => rw [hp] at h; cases h
    | ok k =>
      rw [hp] at h
      simp only [] at h
      split at h
      · cases h; exact absurd rfl hn
      · split at h
        · cases h
        · rename_i hk0 _
          rw [List.drop_drop] at h
          obtain ⟨i, k', hi, hq, hk', hik⟩ := seqGo_elem src q ps2 T n hn ps1 (acc + k) h
          exact ⟨i, k', by simp only [List.length_cons]; omega, hq, hk', hik⟩

/-- an `EitherPattern` that answers `n` beyond its starting value got `n` from one of its alternatives -/
theorem eitherGo_from (src : List Char) (ts : List Tok) : ∀ (ps : List Matcher) (longest n : Nat),
    eitherGo src ts ps longest = .ok n → n = longest ∨ ∃ p ∈ ps, p src ts = .ok n
  | [], longest, n, h => by simp only [eitherGo, Except.ok.injEq] at h; exact .inl h.symm
  | p :: ps, longest, n, h => by
    simp only [eitherGo] at h
    cases hp : p src ts with
    | error e => rw [hp] at h; cases h
    | ok k =>
      rw [hp] at h
      simp only [] at h
      rcases eitherGo_from src ts ps _ n h with h0 | ⟨q, hq, hqn⟩
      · split at h0
        · subst h0; exact .inr ⟨p, by simp, hp⟩
        · exact .inl h0
      · exact .inr ⟨q, List.mem_cons_of_mem _ hq, hqn⟩

/-! ## `run_on_chunk` when `match_to_lint` is total only on what the pattern can match -/

theorem runOnChunkGo_okm {H : List Char → List Tok → Prop} (hH : SliceHyp H) (m : Matcher) (hm : MOKh H m)
    (f : List Char → List Tok → Except Panic (List RuleLint)) (src : List Char)
    (hf : ∀ ts n, H src ts → m src ts = .ok n → n ≠ 0 → ∃ ls, f src (ts.take n) = .ok ls ∧ ∀ x ∈ ls, LintOK src.length x)
    (ts : List Tok) (ho : H src ts) :
    ∀ skip, ∃ ls, runOnChunkGo m f src skip ts = .ok ls ∧ ∀ x ∈ ls, LintOK src.length x := by
  induction ts with
  | nil => intro skip; cases skip <;> exact ⟨[], rfl, by simp⟩
  | cons t ts ih =>
    have hot : H src ts := hH.sub src _ _ (List.sublist_cons_self _ _) ho
    intro skip
    cases skip with
    | succ s => simp only [runOnChunkGo]; exact ih hot s
    | zero =>
      obtain ⟨n, en, hn⟩ := hm src (t :: ts) ho
      simp only [runOnChunkGo, en]
      split
      · exact ih hot 0
      · rename_i hn0
        rw [if_neg (by omega)]
        obtain ⟨l, el, hl⟩ := hf (t :: ts) n ho en hn0
        obtain ⟨r, er, hr⟩ := ih hot (n - 1)
        refine ⟨l ++ r, by simp only [el, er], ?_⟩
        intro x hx
        rcases List.mem_append.mp hx with hx | hx
        · exact hl x hx
        · exact hr x hx

/-- a piece rule that is `run_on_chunk` of a tree of real leaves with a translation-invariant `match_to_lint` -/
theorem patPiece_xlocalE (env : Env) (p : RPat) (hp : p.Loc) (f : Env → List Char → List Tok → Except Panic (List RuleLint))
    (hshift : ∀ (P D : List Char) (l : List Tok) (j : Nat), f env (P ++ D) (l.map (shTok P.length j)) = (f env D l).map (shiftRLs P.length))
    (hleft : ∀ (P D : List Char) (l : List Tok), (∀ t ∈ l, tokOK t = true ∧ t.span.stop ≤ P.length) → f env (P ++ D) l = f env P l) :
    XLocalE (fun src chunk => runOnChunkGo (p.matcher env) (f env) src 0 chunk) where
  nil := fun _ => rfl
  left := by
    intro P D piece h
    exact runOnChunkGo_leftL _ (matcher_loc env p hp) _ P D (fun l hl => hleft P D l hl) piece h 0
  right := by
    intro P D piece j _
    exact runOnChunkGo_rightL _ (matcher_loc env p hp) _ P D j (fun l => hshift P D l j) piece 0

/-! ## the four trees are built from translation-invariant, undemanding leaves -/

theorem oxfordPat_loc : oxfordPat.Loc := by
  simp [oxfordPat, oxfordItem, sq, kp, ws, wset, oneOrMore, RPats.ofList, RPat.Loc, RPats.Loc, Leaf.Loc]
theorem noOxfordPat_loc : noOxfordPat.Loc := by
  simp [noOxfordPat, sq, kp, ws, wset, RPats.ofList, RPat.Loc, RPats.Loc, Leaf.Loc]
theorem widelyPat_loc : widelyPat.Loc := by
  simp [widelyPat, sq, aco, ws, wset, RPats.ofList, RPat.Loc, RPats.Loc, Leaf.Loc]
theorem theHowWhyPat_loc : theHowWhyPat.Loc := by
  simp [theHowWhyPat, theW, sq, aco, ws, RPats.ofList, RPat.Loc, RPats.Loc, Leaf.Loc]

theorem oxfordPat_plain : oxfordPat.plain = true := by decide
theorem noOxfordPat_plain : noOxfordPat.plain = true := by decide
theorem widelyPat_plain : widelyPat.plain = true := by decide
theorem theHowWhyPat_plain : theHowWhyPat.plain = true := by decide

/-! ## OxfordComma -/

theorem oxfordMatch_shift (env : Env) (P D : List Char) (m : List Tok) (j : Nat) :
    oxfordMatch env (P ++ D) (m.map (shTok P.length j)) = (oxfordMatch env D m).map (shiftRLs P.length) := by
  simp only [oxfordMatch]
  rw [lastIndexWhere_map _ (fun t => hasFlag env D t 1) _ (fun t => hasFlag_shift env P D t j 1)]
  cases lastIndexWhere (fun t => hasFlag env D t 1) m with
  | none => rfl
  | some ci =>
    simp only []
    split
    · rfl
    · simp only [List.getElem?_map]
      cases m[ci - 2]? <;> rfl

theorem oxfordMatch_left (env : Env) (P D : List Char) (m : List Tok) (h : ∀ t ∈ m, tokOK t = true ∧ t.span.stop ≤ P.length) :
    oxfordMatch env (P ++ D) m = oxfordMatch env P m := by
  simp only [oxfordMatch]
  rw [lastIndexWhere_congr _ (fun t => hasFlag env P t 1) m (fun t ht => hasFlag_left env P D t 1 (h t ht).2)]

theorem knownWords_shift (env : Env) (P D : List Char) (j : Nat) : ∀ sent : List Tok,
    knownWords env (P ++ D) (sent.map (shTok P.length j)) = (knownWords env D sent).map (shTok P.length j)
  | [] => rfl
  | t :: ts => by
    have ih := knownWords_shift env P D j ts
    simp only [knownWords] at ih ⊢
    simp only [List.map_cons, List.filter_cons, hasFlag_shift, ih]
    split <;> rfl

theorem knownWords_left (env : Env) (P D : List Char) (sent : List Tok) (h : ∀ t ∈ sent, t.span.stop ≤ P.length) :
    knownWords env (P ++ D) sent = knownWords env P sent := by
  simp only [knownWords]
  apply List.filter_congr
  intro t ht
  exact hasFlag_left env P D t 15 (h t ht)

theorem oxfordStart_shift (env : Env) (P D : List Char) (sent : List Tok) (j : Nat) :
    oxfordStart env (P ++ D) (sent.map (shTok P.length j)) = oxfordStart env D sent := by
  simp only [oxfordStart, knownWords_shift]
  rw [firstIndexWhere_map _ (fun t => isComma t.kind) _ (fun t => by simp only [shTok_kind, isComma_shiftTwin])]
  cases knownWords env D sent with
  | nil => rfl
  | cons a l =>
    cases l with
    | nil => rfl
    | cons b l => simp only [List.map_cons, hasFlag_shift, List.length_map]

theorem oxfordStart_left (env : Env) (P D : List Char) (sent : List Tok) (h : ∀ t ∈ sent, t.span.stop ≤ P.length) :
    oxfordStart env (P ++ D) sent = oxfordStart env P sent := by
  simp only [oxfordStart, knownWords_left env P D sent h]
  cases hk : knownWords env P sent with
  | nil => rfl
  | cons a l =>
    cases l with
    | nil => rfl
    | cons b l =>
      have hm : ∀ t ∈ knownWords env P sent, t ∈ sent := fun t ht => (List.mem_filter.mp ht).1
      have ha := h a (hm a (by rw [hk]; simp))
      have hb := h b (hm b (by rw [hk]; simp))
      simp only [hasFlag_left env P D a 0 ha, hasFlag_left env P D b 2 hb]

theorem oxford_xlocal (env : Env) : XLocalE (oxfordPiece env) where
  nil := by intro src; simp only [oxfordPiece]; cases oxfordStart env src [] <;> rfl
  left := by
    intro P D piece h
    simp only [oxfordPiece, oxfordStart_left env P D piece (fun t ht => (h t ht).2)]
    exact runOnChunkGo_leftL _ (matcher_loc env _ oxfordPat_loc) _ P D (fun l hl => oxfordMatch_left env P D l hl) piece h _
  right := by
    intro P D piece j _
    simp only [oxfordPiece, shiftDoc_eq_map, oxfordStart_shift]
    exact runOnChunkGo_rightL _ (matcher_loc env _ oxfordPat_loc) _ P D j (fun l => oxfordMatch_shift env P D l j) piece _

/-- the premise of `OxfordComma::match_to_lint`'s subtraction: every word token that `WordSet[and, or, nor]`
accepts is a conjunction for the dictionary -/
def ConjOK (env : Env) (src : List Char) (ts : List Tok) : Prop :=
  ∀ t ∈ ts, wordSetAtom andOrNor src [t] = .ok 1 → hasFlag env src t 1 = true

def InTextConj (env : Env) (src : List Char) (ts : List Tok) : Prop := InText src ts ∧ ConjOK env src ts

theorem inTextConj_hyp (env : Env) : SliceHyp (InTextConj env) :=
  and_hyp inText_hyp (ConjOK env) (fun _ _ _ hs h t ht => h t (hs.subset ht))

theorem oxfordPat_matcher (env : Env) : oxfordPat.matcher env =
    seqPat ([(oneOrMore (sq [oxfordItem, kp .comma, ws])).matcher env, oxfordItem.matcher env, whitespaceAtom] ++
      wordSetAtom andOrNor :: [whitespaceAtom, oxfordItem.matcher env]) := by
  simp only [oxfordPat, sq, RPat.matcher, matchers_ofList, List.map_cons, List.map_nil, ws, wset, Leaf.matcher, List.cons_append,
    List.nil_append]

/-- `WordSet` looks at the first token only -/
theorem wordSetAtom_head (wsl : List (List Char)) (src : List Char) (t : Tok) (r : List Tok) :
    wordSetAtom wsl src (t :: r) = wordSetAtom wsl src [t] := rfl

theorem wordSetAtom_le_one (wsl : List (List Char)) (src : List Char) (ts : List Tok) (k : Nat)
    (h : wordSetAtom wsl src ts = .ok k) (hk : k ≠ 0) : k = 1 ∧ ∃ t r, ts = t :: r := by
  cases ts with
  | nil => simp only [wordSetAtom, Except.ok.injEq] at h; exact absurd h.symm hk
  | cons t r =>
    refine ⟨?_, t, r, rfl⟩
    simp only [wordSetAtom] at h
    split at h
    · cases h; exact absurd rfl hk
    · cases hc : t.span.getContent src with
      | error e => rw [hc] at h; cases h
      | ok cs =>
        rw [hc] at h
        simp only [Except.ok.injEq] at h
        split at h
        · exact h.symm
        · exact absurd h.symm hk

/-- **on what its pattern matched, `match_to_lint` finds its conjunction at index ≥ 2** -/
theorem oxfordMatch_ok_matched (env : Env) (src : List Char) (ts : List Tok) (n : Nat) (h : InTextConj env src ts)
    (hm : oxfordPat.matcher env src ts = .ok n) (hn : n ≠ 0) :
    ∃ ls, oxfordMatch env src (ts.take n) = .ok ls ∧ ∀ x ∈ ls, LintOK src.length x := by
  rw [oxfordPat_matcher] at hm
  obtain ⟨i, k, hi, hq, hk, hik⟩ := seqGo_elem src (wordSetAtom andOrNor) _ ts n hn _ 0 hm
  simp only [List.length_cons, List.length_nil] at hi
  obtain ⟨hk1, t, r, htr⟩ := wordSetAtom_le_one _ _ _ _ hq hk
  subst hk1
  have hti : ts[i]? = some t := by
    have := congrArg List.head? htr
    simpa [List.head?_drop] using this
  have htm : t ∈ ts := List.mem_of_getElem? hti
  have hconj : hasFlag env src t 1 = true := h.2 t htm (by rw [← wordSetAtom_head _ _ t r, ← htr]; exact hq)
  have htake : (ts.take n)[i]? = some t := by rw [List.getElem?_take_of_lt (by omega)]; exact hti
  obtain ⟨ci, eci, hci⟩ := lastIndexWhere_ge (fun t => hasFlag env src t 1) (ts.take n) i t htake hconj
  have hlt := lastIndexWhere_lt _ _ _ eci
  simp only [oxfordMatch, eci]
  rw [if_neg (by omega)]
  have : ci - 2 < (ts.take n).length := by omega
  rw [List.getElem?_eq_getElem this]
  refine ⟨_, rfl, mem_singleton_lintOK ?_⟩
  have hmem : (ts.take n)[ci - 2] ∈ ts := List.mem_of_mem_take (List.getElem_mem this)
  exact h.1 _ hmem

theorem oxford_ok (env : Env) (src : List Char) (sent : List Tok) (h : InTextConj env src sent) :
    ∃ ls, oxfordPiece env src sent = .ok ls ∧ ∀ l ∈ ls, LintOK src.length l :=
  runOnChunkGo_okm (inTextConj_hyp env) _ (matcher_okh (inTextConj_hyp env) env _ (side_of_plain env _ _ oxfordPat_plain)) _ src
    (fun ts n hts hm hn => oxfordMatch_ok_matched env src ts n hts hm hn) sent h _

/-! ## NoOxfordComma -/

theorem noOxfordMatch_shift (env : Env) (P D : List Char) (m : List Tok) (j : Nat) :
    noOxfordMatch env (P ++ D) (m.map (shTok P.length j)) = (noOxfordMatch env D m).map (shiftRLs P.length) := by
  simp only [noOxfordMatch]
  rw [lastIndexWhere_map _ (fun t => isComma t.kind) _ (fun t => by simp only [shTok_kind, isComma_shiftTwin])]
  cases lastIndexWhere (fun t => isComma t.kind) m with
  | none => rfl
  | some ci =>
    simp only [List.getElem?_map]
    cases m[ci]? <;> rfl

theorem noOxford_xlocal (env : Env) : XLocalE (noOxfordPiece env) :=
  patPiece_xlocalE env noOxfordPat noOxfordPat_loc noOxfordMatch (fun P D l j => noOxfordMatch_shift env P D l j)
    (fun _ _ _ _ => rfl)

theorem noOxfordMatch_ok (env : Env) (src : List Char) (m : List Tok) (h : InText src m) :
    ∃ ls, noOxfordMatch env src m = .ok ls ∧ ∀ l ∈ ls, LintOK src.length l := by
  simp only [noOxfordMatch]
  cases hl : lastIndexWhere (fun t => isComma t.kind) m with
  | none => exact ⟨[], rfl, by simp⟩
  | some ci =>
    have hlt := lastIndexWhere_lt _ _ _ hl
    simp only []
    rw [List.getElem?_eq_getElem hlt]
    exact ⟨_, rfl, mem_singleton_lintOK (h _ (List.getElem_mem hlt))⟩

theorem noOxford_ok (env : Env) (src : List Char) (sent : List Tok) (h : InText src sent) :
    ∃ ls, noOxfordPiece env src sent = .ok ls ∧ ∀ l ∈ ls, LintOK src.length l :=
  runOnChunkGo_okh inText_hyp _ (matcher_okh inText_hyp env _ (side_of_plain env _ _ noOxfordPat_plain)) _ src
    (fun l _ hl => noOxfordMatch_ok env src l hl) sent h 0

/-! ## WidelyAccepted -/

theorem widelyMatch_shift (env : Env) (P D : List Char) (m : List Tok) (j : Nat) :
    widelyMatch env (P ++ D) (m.map (shTok P.length j)) = (widelyMatch env D m).map (shiftRLs P.length) := by
  cases m with
  | nil => rfl
  | cons w r =>
    simp only [List.map_cons, widelyMatch, List.head?_cons, shTok_span, getContent_shift']
    cases w.span.getContent D <;> rfl

theorem widelyMatch_left (env : Env) (P D : List Char) (m : List Tok) (h : ∀ t ∈ m, tokOK t = true ∧ t.span.stop ≤ P.length) :
    widelyMatch env (P ++ D) m = widelyMatch env P m := by
  cases m with
  | nil => rfl
  | cons w r => simp only [widelyMatch, List.head?_cons, getContent_left' P D w.span (h w (by simp)).2]

theorem widely_xlocal (env : Env) : XLocalE (widelyPiece env) :=
  patPiece_xlocalE env widelyPat widelyPat_loc widelyMatch (fun P D l j => widelyMatch_shift env P D l j)
    (fun P D l hl => widelyMatch_left env P D l hl)

theorem widelyMatch_ok (env : Env) (src : List Char) (m : List Tok) (h : InText src m) :
    ∃ ls, widelyMatch env src m = .ok ls ∧ ∀ l ∈ ls, LintOK src.length l := by
  cases m with
  | nil => exact ⟨[], rfl, by simp⟩
  | cons w r =>
    have hw := h w (by simp)
    simp only [widelyMatch, List.head?_cons, getContent_textOf src w hw]
    exact ⟨_, rfl, mem_singleton_lintOK hw⟩

theorem widely_ok (env : Env) (src : List Char) (chunk : List Tok) (h : InText src chunk) :
    ∃ ls, widelyPiece env src chunk = .ok ls ∧ ∀ l ∈ ls, LintOK src.length l :=
  runOnChunkGo_okh inText_hyp _ (matcher_okh inText_hyp env _ (side_of_plain env _ _ widelyPat_plain)) _ src
    (fun l _ hl => widelyMatch_ok env src l hl) chunk h 0

/-! ## TheHowWhy -/

theorem theHowWhyMatch_shift (env : Env) (P D : List Char) (m : List Tok) (j : Nat) :
    theHowWhyMatch env (P ++ D) (m.map (shTok P.length j)) = (theHowWhyMatch env D m).map (shiftRLs P.length) := by
  simp only [theHowWhyMatch, sliceE_map]
  cases sliceE m 0 2 with
  | error e => rfl
  | ok two =>
    simp only [Except.map, spanOf_shTok]
    cases spanOf two with
    | none => rfl
    | some sp =>
      simp only [Option.map_some, List.getElem?_map]
      cases m[2]? with
      | none => rfl
      | some q =>
        simp only [Option.map_some, shTok_span, getContent_shift']
        cases q.span.getContent D <;> rfl

theorem theHowWhyMatch_left (env : Env) (P D : List Char) (m : List Tok) (h : ∀ t ∈ m, tokOK t = true ∧ t.span.stop ≤ P.length) :
    theHowWhyMatch env (P ++ D) m = theHowWhyMatch env P m := by
  simp only [theHowWhyMatch]
  cases sliceE m 0 2 with
  | error e => rfl
  | ok two =>
    simp only []
    cases spanOf two with
    | none => rfl
    | some sp =>
      simp only []
      cases hq : m[2]? with
      | none => rfl
      | some q => simp only [getContent_left' P D q.span (h q (List.mem_of_getElem? hq)).2]

theorem theHowWhy_xlocal (env : Env) : XLocalE (theHowWhyPiece env) :=
  patPiece_xlocalE env theHowWhyPat theHowWhyPat_loc theHowWhyMatch (fun P D l j => theHowWhyMatch_shift env P D l j)
    (fun P D l hl => theHowWhyMatch_left env P D l hl)

/-- every alternative of the pattern is a sequence of at least three elements: what matched has ≥ 3 tokens -/
theorem theHowWhyPat_three (env : Env) (src : List Char) (ts : List Tok) (n : Nat)
    (hm : theHowWhyPat.matcher env src ts = .ok n) (hn : n ≠ 0) : 3 ≤ n := by
  simp only [theHowWhyPat, RPat.matcher, matchers_ofList, eitherPat] at hm
  rcases eitherGo_from src ts _ 0 n hm with h0 | ⟨p, hp, hpn⟩
  · exact absurd h0 hn
  · simp only [List.map_cons, List.map_nil, List.mem_cons, List.mem_nil_iff, or_false] at hp
    rcases hp with rfl | rfl | rfl | rfl | rfl <;>
      (simp only [sq, RPat.matcher, matchers_ofList, seqPat] at hpn
       rcases seqGo_ge_len src _ 0 ts n hpn with h0 | h1
       · exact absurd h0 hn
       · simp only [theW, List.map_cons, List.map_nil, List.cons_append, List.nil_append, List.length_cons, List.length_nil] at h1
         omega)

theorem theHowWhyMatch_ok_matched (env : Env) (src : List Char) (ts : List Tok) (n : Nat) (h : InText src ts)
    (hm : theHowWhyPat.matcher env src ts = .ok n) (hn : n ≠ 0) :
    ∃ ls, theHowWhyMatch env src (ts.take n) = .ok ls ∧ ∀ x ∈ ls, LintOK src.length x := by
  have h3 := theHowWhyPat_three env src ts n hm hn
  obtain ⟨n', en', hn'⟩ := matcher_okh inText_hyp env theHowWhyPat (side_of_plain env _ _ theHowWhyPat_plain) src ts h
  rw [hm] at en'
  cases en'
  have hlen : (ts.take n).length = n := by simp only [List.length_take]; omega
  have hin : InText src (ts.take n) := fun t ht => h t (List.mem_of_mem_take ht)
  simp only [theHowWhyMatch, sliceE]
  rw [if_neg (by omega)]
  simp only [List.drop_zero, Nat.sub_zero]
  cases hsp : spanOf ((ts.take n).take 2) with
  | none => exact ⟨[], rfl, by simp⟩
  | some sp =>
    have hspok := spanOf_ok src.length _ sp hsp (fun t ht => by
      have := hin t (List.mem_of_mem_take ht)
      exact ⟨by have h1 := this.1; have h2 := this.2; omega, this.2⟩)
    simp only []
    have h2 : 2 < (ts.take n).length := by omega
    rw [List.getElem?_eq_getElem h2]
    simp only [getContent_textOf src _ (hin _ (List.getElem_mem h2))]
    exact ⟨_, rfl, mem_singleton_lintOK hspok⟩

theorem theHowWhy_ok (env : Env) (src : List Char) (chunk : List Tok) (h : InText src chunk) :
    ∃ ls, theHowWhyPiece env src chunk = .ok ls ∧ ∀ l ∈ ls, LintOK src.length l :=
  runOnChunkGo_okm inText_hyp _ (matcher_okh inText_hyp env _ (side_of_plain env _ _ theHowWhyPat_plain)) _ src
    (fun ts n hts hm hn => theHowWhyMatch_ok_matched env src ts n hts hm hn) chunk h 0

end Harper.Rules2
