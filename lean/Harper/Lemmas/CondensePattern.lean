import Harper.Lemmas.Condense
namespace Harper

/-! ## `condense_pattern`: the loop over disjoint, increasing, in-bounds matches -/

def shSpan (k : Nat) (m : Span) : Span := ⟨m.start + k, m.stop + k⟩

theorem sliceE_append_right {α} (pre l : List α) (x y : Nat) :
    sliceE (pre ++ l) (x + pre.length) (y + pre.length) = sliceE l x y := by
  induction pre with
  | nil => simp
  | cons a pre ih =>
    simp only [List.cons_append, List.length_cons]
    rw [show x + (pre.length + 1) = (x + pre.length) + 1 by omega,
      show y + (pre.length + 1) = (y + pre.length) + 1 by omega, sliceE_cons, ih]

theorem rangeFrom_shift (a k n : Nat) : rangeFrom (a + k) n = (rangeFrom a n).map (· + k) := by
  induction n generalizing a with
  | zero => rfl
  | succ n ih =>
    simp only [rangeFrom, List.map_cons]
    rw [show a + k + 1 = (a + 1) + k by omega, ih]

theorem condLoop_prefix (edit : Kind → Kind) (pre : List Tok) (ms : List Span) (l : List Tok)
    (rem0 rem : List Nat) :
    condLoop edit (ms.map (shSpan pre.length)) (pre ++ l) (rem0 ++ rem.map (· + pre.length)) =
      (condLoop edit ms l rem).map (fun r => (pre ++ r.1, rem0 ++ r.2.map (· + pre.length))) := by
  induction ms generalizing l rem with
  | nil => simp [condLoop, Except.map]
  | cons m ms ih =>
    simp only [List.map_cons, condLoop, shSpan]
    rw [sliceE_append_right]
    cases hs : sliceE l m.start m.stop with
    | error e => simp [Except.map]
    | ok slice =>
      simp only
      split
      · exact ih l rem
      · cases spanOf slice with
        | none => simp [Except.map]
        | some sp =>
          simp only
          rw [List.getElem?_append_right (by omega), show m.start + pre.length - pre.length = m.start by omega]
          cases hg : l[m.start]? with
          | none => simp [Except.map]
          | some t =>
            simp only
            rw [List.set_append_right _ _ (by omega),
              show m.start + pre.length - pre.length = m.start by omega]
            have := ih (l.set m.start ⟨sp, edit t.kind⟩) (rem ++ rangeFrom (m.start + 1) (m.stop - (m.start + 1)))
            rw [← this]
            congr 1
            rw [List.map_append, ← List.append_assoc]
            congr 1
            rw [show m.start + pre.length + 1 = (m.start + 1) + pre.length by omega, rangeFrom_shift]
            congr 2
            omega

theorem removeIndices_shift {α} (k i : Nat) (q : List Nat) (xs : List α) :
    removeIndices (i + k) (q.map (· + k)) xs = removeIndices i q xs := by
  induction xs generalizing i q with
  | nil => cases q <;> simp [removeIndices]
  | cons x xs ih =>
    cases q with
    | nil =>
      simp only [List.map_nil, removeIndices]
      have := ih (i + 1) []
      simp only [List.map_nil] at this
      rw [show i + k + 1 = i + 1 + k by omega, this]
    | cons r q =>
      simp only [List.map_cons, removeIndices]
      by_cases h : i = r
      · subst h
        rw [if_pos rfl, if_pos rfl, show i + k + 1 = i + 1 + k by omega, ih]
      · rw [if_neg (by omega), if_neg h, show i + k + 1 = i + 1 + k by omega]
        have := ih (i + 1) (r :: q)
        simp only [List.map_cons] at this
        rw [this]

theorem removeIndices_prefix_keep {α} (pre xs : List α) (i : Nat) (q : List Nat)
    (h : ∀ j ∈ q, i + pre.length ≤ j) :
    removeIndices i q (pre ++ xs) = pre ++ removeIndices (i + pre.length) q xs := by
  induction pre generalizing i with
  | nil => simp
  | cons a pre ih =>
    simp only [List.cons_append, List.length_cons] at h ⊢
    cases q with
    | nil =>
      cases hx : pre ++ xs with
      | nil =>
        simp only [removeIndices]
        have := ih (i + 1) (by simp)
        rw [hx] at this
        rw [show i + (pre.length + 1) = i + 1 + pre.length by omega, ← this]
        simp [removeIndices]
      | cons y ys =>
        simp only [removeIndices]
        have := ih (i + 1) (by simp)
        rw [hx] at this
        rw [show i + (pre.length + 1) = i + 1 + pre.length by omega, ← this]
        simp [removeIndices]
    | cons r q =>
      have hr := h r (by simp)
      simp only [removeIndices]
      rw [if_neg (by omega), ih (i + 1) (fun j hj => by have := h j hj; omega),
        show i + (pre.length + 1) = i + 1 + pre.length by omega]

theorem removeIndices_range {α} (del ys : List α) (i : Nat) (q : List Nat) :
    removeIndices i (rangeFrom i del.length ++ q) (del ++ ys) = removeIndices (i + del.length) q ys := by
  induction del generalizing i with
  | nil => simp [rangeFrom]
  | cons d del ih =>
    simp only [List.length_cons, rangeFrom, List.cons_append, removeIndices, if_true]
    rw [ih, show i + 1 + del.length = i + (del.length + 1) by omega]

theorem contiguous_tiles {seg : List Tok} {p q : Nat} (h : Tiles seg p q) : contiguous seg = true := by
  induction seg generalizing p with
  | nil => rfl
  | cons a t ih =>
    cases t with
    | nil => rfl
    | cons b r =>
      obtain ⟨a1, a2, hb⟩ := h
      have := ih hb
      obtain ⟨b1, _, _⟩ := hb
      simp [contiguous, this, b1]

theorem foldl_min_tiles (ts : List Tok) (m p q : Nat) (h : Tiles ts p q) (hm : m ≤ p) :
    ts.foldl (fun m x => min (min m x.span.start) x.span.stop) m = m := by
  induction ts generalizing p m with
  | nil => rfl
  | cons t ts ih =>
    obtain ⟨t1, t2, ht⟩ := h
    simp only [List.foldl_cons]
    rw [show min (min m t.span.start) t.span.stop = m by omega]
    exact ih m _ ht (by omega)

theorem foldl_max_tiles (ts : List Tok) (p q : Nat) (h : Tiles ts p q) :
    ts.foldl (fun m x => max (max m x.span.start) x.span.stop) p = q := by
  induction ts generalizing p with
  | nil => simp only [Tiles] at h; subst h; rfl
  | cons t ts ih =>
    obtain ⟨t1, t2, ht⟩ := h
    simp only [List.foldl_cons]
    rw [show max (max p t.span.start) t.span.stop = t.span.stop by omega]
    exact ih _ ht

theorem spanOf_tiles {seg : List Tok} {p q : Nat} (h : Tiles seg p q) (hne : seg ≠ []) :
    spanOf seg = some ⟨p, q⟩ := by
  cases seg with
  | nil => exact absurd rfl hne
  | cons t ts =>
    obtain ⟨t1, t2, ht⟩ := h
    simp only [spanOf]
    rw [foldl_min_tiles ts _ _ _ ht (by omega),
      show max t.span.start t.span.stop = t.span.stop by omega, foldl_max_tiles ts _ _ ht]
    congr 2; omega

end Harper

namespace Harper

/-- matches are non-empty, increasing, pairwise disjoint and inside a vector of `n` tokens -/
def GoodMs : Nat → List Span → Nat → Prop
  | _, [], _ => True
  | off, m :: rest, n => off ≤ m.start ∧ m.start < m.stop ∧ m.stop ≤ n ∧ GoodMs m.stop rest n

def unshSpan (k : Nat) (m : Span) : Span := ⟨m.start - k, m.stop - k⟩

theorem GoodMs.unshift {off : Nat} {ms : List Span} {n : Nat} (k : Nat) (h : GoodMs off ms n) (hk : k ≤ off) :
    ms = (ms.map (unshSpan k)).map (shSpan k) ∧ GoodMs (off - k) (ms.map (unshSpan k)) (n - k) := by
  induction ms generalizing off with
  | nil => exact ⟨rfl, trivial⟩
  | cons m ms ih =>
    obtain ⟨h1, h2, h3, h4⟩ := h
    obtain ⟨e, g⟩ := ih h4 (by omega)
    refine ⟨?_, ?_⟩
    · simp only [List.map_cons]
      rw [← e]
      congr 1
      obtain ⟨s, e⟩ := m
      simp only [shSpan, unshSpan] at *
      congr 1 <;> omega
    · simp only [List.map_cons, GoodMs, unshSpan]
      refine ⟨by omega, by omega, by omega, ?_⟩
      have : m.stop - k = m.stop - k := rfl
      exact g

theorem GoodMs.mono {off off' : Nat} {ms : List Span} {n : Nat} (h : GoodMs off ms n) (ho : off' ≤ off) :
    GoodMs off' ms n := by
  cases ms with
  | nil => trivial
  | cons m ms => obtain ⟨h1, h2, h3, h4⟩ := h; exact ⟨by omega, h2, h3, h4⟩

theorem split3 {α} (toks : List α) (a b : Nat) (hab : a ≤ b) (hb : b ≤ toks.length) :
    ∃ pre seg l, toks = pre ++ (seg ++ l) ∧ pre.length = a ∧ seg.length = b - a := by
  refine ⟨toks.take a, (toks.drop a).take (b - a), (toks.drop a).drop (b - a), ?_, ?_, ?_⟩
  · rw [List.take_append_drop, List.take_append_drop]
  · simp; omega
  · simp; omega

theorem removeIndices_nil_q {α} (i : Nat) (xs : List α) : removeIndices i [] xs = xs := by
  induction xs generalizing i with
  | nil => rfl
  | cons x xs ih => simp [removeIndices, ih]

theorem condLoop_tiles (edit : Kind → Kind) : ∀ (len : Nat) (ms : List Span), ms.length = len →
    ∀ (toks : List Tok) (p q : Nat), Tiles toks p q → GoodMs 0 ms toks.length →
    ∃ ts r, condLoop edit ms toks [] = .ok (ts, r) ∧ Tiles (removeIndices 0 r ts) p q := by
  intro len
  induction len with
  | zero =>
    intro ms hl toks p q h _
    have : ms = [] := by cases ms <;> simp_all
    subst this
    exact ⟨toks, [], rfl, by rw [removeIndices_nil_q]; exact h⟩
  | succ len ih =>
    intro ms hl toks p q h hg
    match ms, hl with
    | m :: ms', hl =>
      obtain ⟨g1, g2, g3, g4⟩ := hg
      obtain ⟨pre, seg, l, rfl, hpre, hseg⟩ := split3 toks m.start m.stop (by omega) g3
      -- the remaining matches, relative to `seg ++ l` and to `l`
      obtain ⟨e1, gg1⟩ := g4.unshift m.start (by omega)
      obtain ⟨e2, gg2⟩ := gg1.unshift (m.stop - m.start) (Nat.le_refl _)
      generalize hms1 : ms'.map (unshSpan m.start) = ms1 at e1 e2 gg1 gg2
      generalize hms2 : ms1.map (unshSpan (m.stop - m.start)) = ms2 at e2 gg2
      have hl2 : ms2.length = len := by rw [← hms2, ← hms1]; simpa using hl
      obtain ⟨p1, hP, hrest⟩ := h.of_append
      obtain ⟨p2, hS, hL⟩ := hrest.of_append
      have hlen : (pre ++ (seg ++ l)).length = pre.length + seg.length + l.length := by simp; omega
      rw [hlen] at gg2 gg1 g3
      have hll : pre.length + seg.length + l.length - m.start - (m.stop - m.start) = l.length := by omega
      rw [hll, Nat.sub_self] at gg2
      obtain ⟨ts2, r2, hc2, ht2⟩ := ih ms2 hl2 l p2 q hL gg2
      -- `seg` is not empty
      obtain ⟨first, tl, rfl⟩ : ∃ first tl, seg = first :: tl := by
        cases seg with
        | nil => simp at hseg; omega
        | cons a b => exact ⟨a, b, rfl⟩
      let first' : Tok := ⟨⟨p1, p2⟩, edit first.kind⟩
      have hk : m.stop - m.start = (first' :: tl).length := by simp at hseg ⊢; omega
      -- the loop
      have step1 : condLoop edit (⟨0, m.stop - m.start⟩ :: ms1) ((first :: tl) ++ l) [] =
          condLoop edit ms1 ((first' :: tl) ++ l) (rangeFrom 1 tl.length) := by
        simp only [condLoop]
        have hs : sliceE (first :: tl ++ l) 0 (m.stop - m.start) = .ok (first :: tl) := by
          unfold sliceE
          rw [if_neg (by simp at hseg ⊢; omega)]
          simp only [List.drop_zero, Nat.sub_zero]
          rw [hseg.symm, List.take_left']
          rfl
        rw [hs]
        simp only [contiguous_tiles hS, Bool.not_true, Bool.false_eq_true, if_false,
          spanOf_tiles hS (by simp)]
        simp only [List.cons_append, List.getElem?_cons_zero, List.set_cons_zero, List.nil_append]
        congr 2
        simp at hseg; omega
      have step2 := condLoop_prefix edit (first' :: tl) ms2 l (rangeFrom 1 tl.length) []
      rw [← hk, ← e2, List.map_nil, List.append_nil, hc2] at step2
      have step0 := condLoop_prefix edit pre (⟨0, m.stop - m.start⟩ :: ms1) ((first :: tl) ++ l) [] []
      rw [List.map_cons, hpre, ← e1] at step0
      have hm : shSpan m.start ⟨0, m.stop - m.start⟩ = m := by
        obtain ⟨s, e⟩ := m; simp only [shSpan] at *; congr 1 <;> omega
      rw [hm, List.map_nil, List.append_nil, step1, step2] at step0
      refine ⟨_, _, step0, ?_⟩
      simp only [Except.map, List.nil_append]
      rw [removeIndices_prefix_keep pre _ 0 _ (by
        intro j hj
        simp only [List.mem_map] at hj
        obtain ⟨x, _, rfl⟩ := hj
        omega)]
      rw [show 0 + pre.length = 0 + m.start by omega, removeIndices_shift]
      have hkeep := removeIndices_prefix_keep [first'] (tl ++ ts2) 0
        (rangeFrom 1 tl.length ++ r2.map (· + (m.stop - m.start))) (by
          intro j hj
          simp only [List.mem_append, List.mem_map] at hj
          rcases hj with hj | ⟨x, _, rfl⟩
          · have : ∀ a n j, j ∈ rangeFrom a n → a ≤ j := by
              intro a n
              induction n generalizing a with
              | zero => intro j hj; simp [rangeFrom] at hj
              | succ n ihn =>
                intro j hj
                simp only [rangeFrom, List.mem_cons] at hj
                rcases hj with rfl | hj
                · omega
                · have := ihn _ _ hj; omega
            have := this _ _ _ hj
            simpa using this
          · simp; omega)
      simp only [List.cons_append, List.nil_append, List.length_singleton] at hkeep ⊢
      rw [hkeep, removeIndices_range]
      rw [show 0 + 1 + tl.length = 0 + (m.stop - m.start) by simp at hk; omega, removeIndices_shift]
      obtain ⟨s1, s2, s3⟩ := hS
      have s4 := s3.le
      have hlt : p1 < p2 := by omega
      exact hP.append ⟨rfl, hlt, ht2⟩

theorem rangeFrom_ge (a n j : Nat) (h : j ∈ rangeFrom a n) : a ≤ j := by
  induction n generalizing a with
  | zero => simp [rangeFrom] at h
  | succ n ihn =>
    simp only [rangeFrom, List.mem_cons] at h
    rcases h with rfl | h
    · omega
    · have := ihn _ h; omega

/-- `remove_indices` over `pre ++ f :: tl ++ W` with the queue "`tl`, then `r` relative to `W`" -/
theorem removeIndices_chain (pre tl W : List Tok) (f : Tok) (r : List Nat) :
    removeIndices 0 ((rangeFrom 1 tl.length ++ r.map (· + (tl.length + 1))).map (· + pre.length))
        (pre ++ (f :: tl ++ W)) = pre ++ f :: removeIndices 0 r W := by
  rw [removeIndices_prefix_keep pre _ 0 _ (by
    intro j hj
    simp only [List.mem_map] at hj
    obtain ⟨x, _, rfl⟩ := hj
    omega)]
  rw [removeIndices_shift]
  have hkeep := removeIndices_prefix_keep [f] (tl ++ W) 0
    (rangeFrom 1 tl.length ++ r.map (· + (tl.length + 1))) (by
      intro j hj
      simp only [List.mem_append, List.mem_map] at hj
      rcases hj with hj | ⟨x, _, rfl⟩
      · have := rangeFrom_ge _ _ _ hj
        simpa using this
      · simp; omega)
  simp only [List.cons_append, List.nil_append, List.length_singleton] at hkeep ⊢
  rw [hkeep, removeIndices_range]
  rw [show 0 + 1 + tl.length = 0 + (tl.length + 1) by omega, removeIndices_shift]

theorem condLoop_consume (edit : Kind → Kind) : ∀ (len : Nat) (ms : List Span), ms.length = len →
    ∀ (toks : List Tok) (p q : Nat), Tiles toks p q → GoodMs 0 ms toks.length →
    ∃ ts r, condLoop edit ms toks [] = .ok (ts, r) ∧ ts.length = toks.length ∧
      ∀ (Z : List Tok) (q2 : List Nat),
        removeIndices 0 (r ++ q2.map (· + toks.length)) (ts ++ Z) =
          removeIndices 0 r ts ++ removeIndices 0 q2 Z := by
  intro len
  induction len with
  | zero =>
    intro ms hl toks p q h _
    have : ms = [] := by cases ms <;> simp_all
    subst this
    refine ⟨toks, [], rfl, rfl, ?_⟩
    intro Z q2
    rw [List.nil_append, removeIndices_nil_q]
    have := removeIndices_prefix_keep toks Z 0 (q2.map (· + toks.length)) (by
      intro j hj; simp only [List.mem_map] at hj; obtain ⟨x, _, rfl⟩ := hj; omega)
    rw [this, removeIndices_shift]
  | succ len ih =>
    intro ms hl toks p q h hg
    match ms, hl with
    | m :: ms', hl =>
      obtain ⟨g1, g2, g3, g4⟩ := hg
      obtain ⟨pre, seg, l, rfl, hpre, hseg⟩ := split3 toks m.start m.stop (by omega) g3
      -- the remaining matches, relative to `seg ++ l` and to `l`
      obtain ⟨e1, gg1⟩ := g4.unshift m.start (by omega)
      obtain ⟨e2, gg2⟩ := gg1.unshift (m.stop - m.start) (Nat.le_refl _)
      generalize hms1 : ms'.map (unshSpan m.start) = ms1 at e1 e2 gg1 gg2
      generalize hms2 : ms1.map (unshSpan (m.stop - m.start)) = ms2 at e2 gg2
      have hl2 : ms2.length = len := by rw [← hms2, ← hms1]; simpa using hl
      obtain ⟨p1, hP, hrest⟩ := h.of_append
      obtain ⟨p2, hS, hL⟩ := hrest.of_append
      have hlen : (pre ++ (seg ++ l)).length = pre.length + seg.length + l.length := by simp; omega
      rw [hlen] at gg2 gg1 g3
      have hll : pre.length + seg.length + l.length - m.start - (m.stop - m.start) = l.length := by omega
      rw [hll, Nat.sub_self] at gg2
      obtain ⟨ts2, r2, hc2, hlen2, hcons2⟩ := ih ms2 hl2 l p2 q hL gg2
      -- `seg` is not empty
      obtain ⟨first, tl, rfl⟩ : ∃ first tl, seg = first :: tl := by
        cases seg with
        | nil => simp at hseg; omega
        | cons a b => exact ⟨a, b, rfl⟩
      let first' : Tok := ⟨⟨p1, p2⟩, edit first.kind⟩
      have hk : m.stop - m.start = (first' :: tl).length := by simp at hseg ⊢; omega
      -- the loop
      have step1 : condLoop edit (⟨0, m.stop - m.start⟩ :: ms1) ((first :: tl) ++ l) [] =
          condLoop edit ms1 ((first' :: tl) ++ l) (rangeFrom 1 tl.length) := by
        simp only [condLoop]
        have hs : sliceE (first :: tl ++ l) 0 (m.stop - m.start) = .ok (first :: tl) := by
          unfold sliceE
          rw [if_neg (by simp at hseg ⊢; omega)]
          simp only [List.drop_zero, Nat.sub_zero]
          rw [hseg.symm, List.take_left']
          rfl
        rw [hs]
        simp only [contiguous_tiles hS, Bool.not_true, Bool.false_eq_true, if_false,
          spanOf_tiles hS (by simp)]
        simp only [List.cons_append, List.getElem?_cons_zero, List.set_cons_zero, List.nil_append]
        congr 2
        simp at hseg; omega
      have step2 := condLoop_prefix edit (first' :: tl) ms2 l (rangeFrom 1 tl.length) []
      rw [← hk, ← e2, List.map_nil, List.append_nil, hc2] at step2
      have step0 := condLoop_prefix edit pre (⟨0, m.stop - m.start⟩ :: ms1) ((first :: tl) ++ l) [] []
      rw [List.map_cons, hpre, ← e1] at step0
      have hm : shSpan m.start ⟨0, m.stop - m.start⟩ = m := by
        obtain ⟨s, e⟩ := m; simp only [shSpan] at *; congr 1 <;> omega
      rw [hm, List.map_nil, List.append_nil, step1, step2] at step0
      have hk' : m.stop - m.start = tl.length + 1 := by simp at hk; omega
      refine ⟨_, _, step0, ?_, ?_⟩
      · simp [hlen2]
      · intro Z q2
        simp only [Except.map, List.nil_append]
        have hq : q2.map (· + (pre ++ (first :: tl ++ l)).length) =
            ((q2.map (· + l.length)).map (· + (tl.length + 1))).map (· + pre.length) := by
          simp only [List.map_map]
          apply List.map_congr_left
          intro x _
          simp
          omega
        rw [hq, hk', ← hpre, ← List.map_append, List.append_assoc, ← List.map_append,
          show pre ++ (first' :: tl ++ ts2) ++ Z = pre ++ (first' :: tl ++ (ts2 ++ Z)) by simp,
          removeIndices_chain, removeIndices_chain, hcons2]
        simp

end Harper

namespace Harper

/-! ## `find_all_matches`: the adjacent-pair overlap filter -/

/-- the raw `found` list: non-empty in-bounds spans, starts increasing, stops non-decreasing -/
def IncMs (n : Nat) : List Span → Prop
  | [] => True
  | [a] => a.start < a.stop ∧ a.stop ≤ n
  | a :: b :: r => a.start < a.stop ∧ a.stop ≤ n ∧ a.start < b.start ∧ a.stop ≤ b.stop ∧ IncMs n (b :: r)

/-- what the filter keeps after `prev` -/
def keepNon (prev : Span) : List Span → List Span
  | [] => []
  | b :: r => if prev.overlapsWith b then keepNon b r else b :: keepNon b r

theorem overlapNext_ge (j : Nat) (l : List Span) : ∀ x ∈ overlapNext j l, j ≤ x := by
  induction l generalizing j with
  | nil => simp [overlapNext]
  | cons a t ih =>
    cases t with
    | nil => simp [overlapNext]
    | cons b r =>
      intro x hx
      simp only [overlapNext] at hx
      split at hx
      · rcases List.mem_cons.mp hx with rfl | hx
        · omega
        · have := ih (j + 1) x hx; omega
      · have := ih (j + 1) x hx; omega

theorem filter_eq_keepNon (a : Span) (rest : List Span) (i : Nat) :
    removeIndices i (overlapNext (i + 1) (a :: rest)) (a :: rest) = a :: keepNon a rest := by
  induction rest generalizing a i with
  | nil => simp [overlapNext, removeIndices, keepNon]
  | cons b r ih =>
    have hge := overlapNext_ge (i + 1) (a :: b :: r)
    have hk := removeIndices_prefix_keep [a] (b :: r) i (overlapNext (i + 1) (a :: b :: r)) (by simpa using hge)
    simp only [List.cons_append, List.nil_append, List.length_singleton] at hk
    rw [hk]
    congr 1
    have ih' := ih b (i + 1)
    have hge2 := overlapNext_ge (i + 1 + 1) (b :: r)
    have hk2 := removeIndices_prefix_keep [b] r (i + 1) (overlapNext (i + 1 + 1) (b :: r)) (by simpa using hge2)
    simp only [List.cons_append, List.nil_append, List.length_singleton] at hk2
    rw [hk2] at ih'
    have ih'' : removeIndices (i + 1 + 1) (overlapNext (i + 1 + 1) (b :: r)) r = keepNon b r := by
      injection ih'
    simp only [overlapNext, keepNon]
    split
    · simp only [removeIndices, if_true]
      exact ih''
    · rw [hk2, ih'']

theorem keepNon_good (n : Nat) (rest : List Span) (a : Span) (bound : Nat) (h : IncMs n (a :: rest))
    (hb : bound ≤ a.stop) : GoodMs bound (keepNon a rest) n := by
  induction rest generalizing a bound with
  | nil => trivial
  | cons b r ih =>
    obtain ⟨a1, a2, a3, a4, hbr⟩ := h
    have hb1 : b.start < b.stop ∧ b.stop ≤ n := by
      cases r with
      | nil => exact hbr
      | cons c r' => exact ⟨hbr.1, hbr.2.1⟩
    simp only [keepNon]
    split
    · exact ih b bound hbr (by omega)
    · rename_i hov
      simp only [Span.overlapsWith, Bool.and_eq_true, decide_eq_true_eq, not_and] at hov
      refine ⟨?_, hb1.1, hb1.2, ih b b.stop hbr (Nat.le_refl _)⟩
      have := hov (by omega)
      omega

theorem filter_good (n : Nat) (found : List Span) (h : IncMs n found) :
    GoodMs 0 (if found.length < 2 then found else removeIndices 0 (overlapNext 1 found) found) n := by
  match found, h with
  | [], _ => simp [GoodMs]
  | [a], h => rw [if_pos (by simp)]; exact ⟨by omega, h.1, h.2, trivial⟩
  | a :: b :: r, h =>
    rw [if_neg (by simp)]
    have := filter_eq_keepNon a (b :: r) 0
    rw [this]
    exact ⟨by omega, h.1, h.2.1, keepNon_good n (b :: r) a a.stop h (Nat.le_refl _)⟩

/-! ## `foundFrom` under a pattern that is total, bounded and whose match ends are monotone -/

structure PatOK (m : Matcher) (src : List Char) (P : List Tok → Prop) : Prop where
  tail : ∀ t ts, P (t :: ts) → P ts
  ok : ∀ v, P v → ∃ n, m src v = .ok n ∧ n ≤ v.length
  mono : ∀ u v n n', u ≠ [] → P (u ++ v) → m src (u ++ v) = .ok n → n > 0 → m src v = .ok n' → n' > 0 →
    n ≤ u.length + n'

theorem foundFrom_inc {m : Matcher} {src : List Char} {P : List Tok → Prop} (hp : PatOK m src P)
    (toks : List Tok) (i : Nat) (hP : P toks) :
    ∃ found, foundFrom m src i toks = .ok found ∧ IncMs (i + toks.length) found ∧
      ∀ b ∈ found, ∃ u v n', toks = u ++ v ∧ m src v = .ok n' ∧ n' > 0 ∧
        b = ⟨i + u.length, i + u.length + n'⟩ := by
  induction toks generalizing i with
  | nil => exact ⟨[], rfl, trivial, by simp⟩
  | cons t ts ih =>
    obtain ⟨n, hn, hle⟩ := hp.ok _ hP
    obtain ⟨rest, hr, hinc, hmem⟩ := ih (i + 1) (hp.tail _ _ hP)
    have hlen : i + 1 + ts.length = i + (t :: ts).length := by simp; omega
    rw [hlen] at hinc
    have hmem' : ∀ b ∈ rest, ∃ u v n', t :: ts = u ++ v ∧ m src v = .ok n' ∧ n' > 0 ∧
        b = ⟨i + u.length, i + u.length + n'⟩ ∧ u ≠ [] := by
      intro b hb
      obtain ⟨u, v, n', e, hm, hpos, rfl⟩ := hmem b hb
      refine ⟨t :: u, v, n', by rw [e]; rfl, hm, hpos, ?_, by simp⟩
      simp; omega
    simp only [foundFrom, hn, hr]
    by_cases hpos : n > 0
    · rw [if_pos hpos]
      refine ⟨_, rfl, ?_, ?_⟩
      · cases rest with
        | nil => exact ⟨by simp; omega, by simp at hle ⊢; omega⟩
        | cons b r =>
          obtain ⟨u, v, n', e, hm, hpos', rfl, hu⟩ := hmem' b (by simp)
          have hmono := hp.mono u v n n' hu (e ▸ hP) (e ▸ hn) hpos hm hpos'
          have hul : 0 < u.length := by cases u <;> simp_all
          exact ⟨by simp; omega, by simp at hle ⊢; omega, by simp; omega, by simp; omega, hinc⟩
      · intro b hb
        rcases List.mem_cons.mp hb with rfl | hb
        · exact ⟨[], t :: ts, n, rfl, hn, hpos, by simp⟩
        · obtain ⟨u, v, n', e, hm, hpos', hb', _⟩ := hmem' b hb
          exact ⟨u, v, n', e, hm, hpos', hb'⟩
    · rw [if_neg hpos]
      refine ⟨_, rfl, hinc, ?_⟩
      intro b hb
      obtain ⟨u, v, n', e, hm, hpos', hb', _⟩ := hmem' b hb
      exact ⟨u, v, n', e, hm, hpos', hb'⟩

theorem condensePattern_tiles_of (m : Matcher) (edit : Kind → Kind) (src : List Char) (P : List Tok → Prop)
    (hp : PatOK m src P) (toks : List Tok) (p q : Nat) (hP : P toks) (h : Tiles toks p q) :
    ∃ out, condensePattern m edit src toks = .ok out ∧ Tiles out p q := by
  obtain ⟨found, hf, hinc, _⟩ := foundFrom_inc hp toks 0 hP
  rw [Nat.zero_add] at hinc
  have hg := filter_good _ found hinc
  unfold condensePattern findAllMatches
  rw [hf]
  simp only
  generalize hms : (if found.length < 2 then found else removeIndices 0 (overlapNext 1 found) found) = ms at hg
  obtain ⟨ts, r, hc, ht⟩ := condLoop_tiles edit ms.length ms rfl toks p q h hg
  have : (if found.length < 2 then (Except.ok found : Except Panic (List Span))
      else .ok (removeIndices 0 (overlapNext 1 found) found)) = .ok ms := by
    rw [← hms]; split <;> rfl
  rw [this]
  simp only [hc]
  exact ⟨_, rfl, ht⟩

end Harper

namespace Harper

/-! ### `condense_pattern`: whatever comes out -/

theorem mem_of_mem_removeIndices {α} (xs : List α) : ∀ (i : Nat) (q : List Nat), ∀ x ∈ removeIndices i q xs, x ∈ xs := by
  induction xs with
  | nil => intro i q x hx; cases q <;> simp [removeIndices] at hx
  | cons y ys ih =>
    intro i q x hx
    cases q with
    | nil =>
      simp only [removeIndices, List.mem_cons] at hx
      rcases hx with rfl | hx
      · simp
      · exact List.mem_cons_of_mem _ (ih _ _ x hx)
    | cons r q =>
      simp only [removeIndices] at hx
      split at hx
      · exact List.mem_cons_of_mem _ (ih _ _ x hx)
      · rcases List.mem_cons.mp hx with rfl | hx
        · simp
        · exact List.mem_cons_of_mem _ (ih _ _ x hx)

theorem spanOf_foldl_min_le (ts : List Tok) (m : Nat) :
    ts.foldl (fun m x => min (min m x.span.start) x.span.stop) m ≤ m := by
  induction ts generalizing m with
  | nil => exact Nat.le_refl _
  | cons t ts ih => simp only [List.foldl_cons]; have := ih (min (min m t.span.start) t.span.stop); omega

theorem spanOf_le_foldl_max (ts : List Tok) (m : Nat) :
    m ≤ ts.foldl (fun m x => max (max m x.span.start) x.span.stop) m := by
  induction ts generalizing m with
  | nil => exact Nat.le_refl _
  | cons t ts ih => simp only [List.foldl_cons]; have := ih (max (max m t.span.start) t.span.stop); omega

theorem spanOf_foldl_max_le (ts : List Tok) (m n : Nat) (hm : m ≤ n) (h : ∀ t ∈ ts, t.span.start ≤ n ∧ t.span.stop ≤ n) :
    ts.foldl (fun m x => max (max m x.span.start) x.span.stop) m ≤ n := by
  induction ts generalizing m with
  | nil => exact hm
  | cons t ts ih =>
    simp only [List.foldl_cons]
    have := h t (by simp)
    exact ih _ (by omega) (fun x hx => h x (List.mem_cons_of_mem _ hx))

theorem spanOf_le_foldl_min (ts : List Tok) (m p : Nat) (hm : p ≤ m) (h : ∀ t ∈ ts, p ≤ t.span.start ∧ p ≤ t.span.stop) :
    p ≤ ts.foldl (fun m x => min (min m x.span.start) x.span.stop) m := by
  induction ts generalizing m with
  | nil => exact hm
  | cons t ts ih =>
    simp only [List.foldl_cons]
    have := h t (by simp)
    exact ih _ (by omega) (fun x hx => h x (List.mem_cons_of_mem _ hx))

/-- `TokenStringExt::span` takes minimum and maximum: the result is never reversed, and lies where all the
endpoints lie -/
theorem spanOf_bounds {slice : List Tok} {sp : Span} (h : spanOf slice = some sp) (p n : Nat)
    (hb : ∀ t ∈ slice, (p ≤ t.span.start ∧ p ≤ t.span.stop) ∧ t.span.start ≤ n ∧ t.span.stop ≤ n) :
    p ≤ sp.start ∧ sp.start ≤ sp.stop ∧ sp.stop ≤ n := by
  cases slice with
  | nil => simp [spanOf] at h
  | cons t ts =>
    simp only [spanOf, Option.some.injEq] at h
    subst h
    have ht := hb t (by simp)
    have hts : ∀ x ∈ ts, _ := fun x hx => hb x (List.mem_cons_of_mem _ hx)
    have h1 := spanOf_foldl_min_le ts (min t.span.start t.span.stop)
    have h2 := spanOf_le_foldl_max ts (max t.span.start t.span.stop)
    have h3 := spanOf_foldl_max_le ts (max t.span.start t.span.stop) n (by omega) (fun x hx => (hts x hx).2)
    have h4 := spanOf_le_foldl_min ts (min t.span.start t.span.stop) p (by omega) (fun x hx => (hts x hx).1)
    simp only
    omega

theorem condLoop_all (edit : Kind → Kind) (P : Span → Prop)
    (hspan : ∀ slice sp, (∀ t ∈ slice, P t.span) → spanOf slice = some sp → P sp) :
    ∀ (ms : List Span) (toks : List Tok) (rem : List Nat) (ts : List Tok) (r : List Nat),
      condLoop edit ms toks rem = .ok (ts, r) → (∀ t ∈ toks, P t.span) → ∀ t ∈ ts, P t.span := by
  intro ms
  induction ms with
  | nil => intro toks rem ts r h hin; simp only [condLoop] at h; cases h; exact hin
  | cons m ms ih =>
    intro toks rem ts r h hin
    simp only [condLoop] at h
    split at h
    · cases h
    · rename_i slice hs
      split at h
      · exact ih _ _ _ _ h hin
      · split at h
        · cases h
        · rename_i sp hsp
          split at h
          · cases h
          · refine ih _ _ _ _ h ?_
            intro t ht
            rcases List.mem_or_eq_of_mem_set ht with ht | rfl
            · exact hin t ht
            · exact hspan slice sp (fun x hx => hin x (sliceE_mem hs x hx)) hsp

theorem condensePattern_all (m : Matcher) (edit : Kind → Kind) (P : Span → Prop)
    (hspan : ∀ slice sp, (∀ t ∈ slice, P t.span) → spanOf slice = some sp → P sp)
    (src : List Char) (toks out : List Tok) (h : condensePattern m edit src toks = .ok out)
    (hin : ∀ t ∈ toks, P t.span) : ∀ t ∈ out, P t.span := by
  unfold condensePattern at h
  split at h
  · cases h
  · split at h
    · cases h
    · rename_i ts r hc
      cases h
      intro t ht
      exact condLoop_all edit P hspan _ _ _ _ _ hc hin t (mem_of_mem_removeIndices _ _ _ t ht)

theorem hspan_ends (n : Nat) : ∀ (slice : List Tok) (sp : Span),
    (∀ t ∈ slice, t.span.start ≤ n ∧ t.span.stop ≤ n) → spanOf slice = some sp → sp.start ≤ n ∧ sp.stop ≤ n := by
  intro slice sp h hsp
  have := spanOf_bounds hsp 0 n (fun t ht => ⟨⟨Nat.zero_le _, Nat.zero_le _⟩, h t ht⟩)
  omega

theorem hspan_inb (n : Nat) : ∀ (slice : List Tok) (sp : Span),
    (∀ t ∈ slice, t.span.start ≤ t.span.stop ∧ t.span.stop ≤ n) → spanOf slice = some sp →
      sp.start ≤ sp.stop ∧ sp.stop ≤ n := by
  intro slice sp h hsp
  have := spanOf_bounds hsp 0 n (fun t ht => ⟨⟨Nat.zero_le _, Nat.zero_le _⟩, by have := h t ht; omega⟩)
  omega


/-! ### `condense_pattern` never panics, whatever the tokens, once the matches are in range -/

theorem GoodMs.all {off : Nat} {ms : List Span} {n : Nat} (h : GoodMs off ms n) :
    ∀ m ∈ ms, m.start < m.stop ∧ m.stop ≤ n := by
  induction ms generalizing off with
  | nil => intro m hm; cases hm
  | cons a ms ih =>
    obtain ⟨_, h2, h3, h4⟩ := h
    intro m hm
    rcases List.mem_cons.mp hm with rfl | hm
    · exact ⟨h2, h3⟩
    · exact ih h4 m hm

theorem condLoop_total (edit : Kind → Kind) : ∀ (ms : List Span) (toks : List Tok) (rem : List Nat),
    (∀ m ∈ ms, m.start < m.stop ∧ m.stop ≤ toks.length) → ∃ r, condLoop edit ms toks rem = .ok r := by
  intro ms
  induction ms with
  | nil => intro toks rem _; exact ⟨_, rfl⟩
  | cons m ms ih =>
    intro toks rem h
    obtain ⟨h1, h2⟩ := h m (by simp)
    have hms : ∀ x ∈ ms, x.start < x.stop ∧ x.stop ≤ toks.length := fun x hx => h x (List.mem_cons_of_mem _ hx)
    simp only [condLoop]
    have hs : sliceE toks m.start m.stop = .ok ((toks.drop m.start).take (m.stop - m.start)) := by
      unfold sliceE; rw [if_neg (by omega)]
    rw [hs]
    simp only
    split
    · exact ih toks rem hms
    · cases hsp : spanOf ((toks.drop m.start).take (m.stop - m.start)) with
      | none =>
        exfalso
        have hl : ((toks.drop m.start).take (m.stop - m.start)).length = m.stop - m.start := by
          simp; omega
        cases hd : (toks.drop m.start).take (m.stop - m.start) with
        | nil => rw [hd] at hl; simp at hl; omega
        | cons a b => rw [hd] at hsp; simp [spanOf] at hsp
      | some sp =>
        simp only
        have hg : toks[m.start]? = some (toks[m.start]'(by omega)) := List.getElem?_eq_getElem (by omega)
        rw [hg]
        simp only
        exact ih _ _ (by simpa using hms)

theorem condensePattern_total_of (m : Matcher) (edit : Kind → Kind) (src : List Char) (P : List Tok → Prop)
    (hp : PatOK m src P) (toks : List Tok) (hP : P toks) : ∃ out, condensePattern m edit src toks = .ok out := by
  obtain ⟨found, hf, hinc, _⟩ := foundFrom_inc hp toks 0 hP
  rw [Nat.zero_add] at hinc
  have hg := filter_good _ found hinc
  unfold condensePattern findAllMatches
  rw [hf]
  simp only
  generalize hms : (if found.length < 2 then found else removeIndices 0 (overlapNext 1 found) found) = ms at hg
  obtain ⟨⟨ts, r⟩, hc⟩ := condLoop_total edit ms toks [] hg.all
  have : (if found.length < 2 then (Except.ok found : Except Panic (List Span))
      else .ok (removeIndices 0 (overlapNext 1 found) found)) = .ok ms := by
    rw [← hms]; split <;> rfl
  rw [this]
  simp only [hc]
  exact ⟨_, rfl⟩

/-! ### `condense_pattern` on ordered input with gaps and zero-width tokens -/

theorem spanOf_gap {seg : List Tok} {p q : Nat} (h : Gap seg p q) (hne : seg ≠ []) :
    ∃ sp, spanOf seg = some sp ∧ p ≤ sp.start ∧ sp.start ≤ sp.stop ∧ sp.stop ≤ q := by
  cases hsp : spanOf seg with
  | none => cases seg with
    | nil => exact absurd rfl hne
    | cons a b => simp [spanOf] at hsp
  | some sp =>
    exact ⟨sp, rfl, spanOf_bounds hsp p q (fun t ht => by have := h.mem t ht; omega)⟩

theorem removeIndices_two_prefix (pre seg W : List Tok) (r : List Nat) :
    removeIndices 0 ((r.map (· + seg.length)).map (· + pre.length)) (pre ++ (seg ++ W)) =
      pre ++ (seg ++ removeIndices 0 r W) := by
  rw [removeIndices_prefix_keep pre _ 0 _ (by
    intro j hj
    simp only [List.mem_map] at hj
    obtain ⟨x, _, rfl⟩ := hj
    omega)]
  rw [removeIndices_shift]
  rw [removeIndices_prefix_keep seg _ 0 _ (by
    intro j hj
    simp only [List.mem_map] at hj
    obtain ⟨x, _, rfl⟩ := hj
    omega)]
  rw [removeIndices_shift]

theorem condLoop_gap (edit : Kind → Kind) : ∀ (len : Nat) (ms : List Span), ms.length = len →
    ∀ (toks : List Tok) (p q : Nat), Gap toks p q → GoodMs 0 ms toks.length →
    ∃ ts r, condLoop edit ms toks [] = .ok (ts, r) ∧ Gap (removeIndices 0 r ts) p q := by
  intro len
  induction len with
  | zero =>
    intro ms hl toks p q h _
    have : ms = [] := by cases ms <;> simp_all
    subst this
    exact ⟨toks, [], rfl, by rw [removeIndices_nil_q]; exact h⟩
  | succ len ih =>
    intro ms hl toks p q h hg
    match ms, hl with
    | m :: ms', hl =>
      obtain ⟨g1, g2, g3, g4⟩ := hg
      obtain ⟨pre, seg, l, rfl, hpre, hseg⟩ := split3 toks m.start m.stop (by omega) g3
      obtain ⟨e1, gg1⟩ := g4.unshift m.start (by omega)
      obtain ⟨e2, gg2⟩ := gg1.unshift (m.stop - m.start) (Nat.le_refl _)
      generalize hms1 : ms'.map (unshSpan m.start) = ms1 at e1 e2 gg1 gg2
      generalize hms2 : ms1.map (unshSpan (m.stop - m.start)) = ms2 at e2 gg2
      have hl2 : ms2.length = len := by rw [← hms2, ← hms1]; simpa using hl
      obtain ⟨p1, hP, hrest⟩ := h.of_append
      obtain ⟨p2, hS, hL⟩ := hrest.of_append
      have hlen : (pre ++ (seg ++ l)).length = pre.length + seg.length + l.length := by simp; omega
      rw [hlen] at gg2 gg1 g3
      have hll : pre.length + seg.length + l.length - m.start - (m.stop - m.start) = l.length := by omega
      rw [hll, Nat.sub_self] at gg2
      obtain ⟨ts2, r2, hc2, ht2⟩ := ih ms2 hl2 l p2 q hL gg2
      obtain ⟨first, tl, rfl⟩ : ∃ first tl, seg = first :: tl := by
        cases seg with
        | nil => simp at hseg; omega
        | cons a b => exact ⟨a, b, rfl⟩
      have hs : sliceE (first :: tl ++ l) 0 (m.stop - m.start) = .ok (first :: tl) := by
        unfold sliceE
        rw [if_neg (by simp at hseg ⊢; omega)]
        simp only [List.drop_zero, Nat.sub_zero]
        rw [hseg.symm, List.take_left']
        rfl
      have hm : shSpan m.start ⟨0, m.stop - m.start⟩ = m := by
        obtain ⟨s, e⟩ := m; simp only [shSpan] at *; congr 1 <;> omega
      have step0 := condLoop_prefix edit pre (⟨0, m.stop - m.start⟩ :: ms1) ((first :: tl) ++ l) [] []
      rw [List.map_cons, hpre, ← e1, hm, List.map_nil, List.append_nil] at step0
      by_cases hcont : contiguous (first :: tl) = true
      · obtain ⟨sp, hsp, b1, b2, b3⟩ := spanOf_gap hS (by simp)
        let first' : Tok := ⟨sp, edit first.kind⟩
        have hk : m.stop - m.start = (first' :: tl).length := by simp at hseg ⊢; omega
        have step1 : condLoop edit (⟨0, m.stop - m.start⟩ :: ms1) ((first :: tl) ++ l) [] =
            condLoop edit ms1 ((first' :: tl) ++ l) (rangeFrom 1 tl.length) := by
          simp only [condLoop]
          rw [hs]
          simp only [hcont, Bool.not_true, Bool.false_eq_true, if_false, hsp]
          simp only [List.cons_append, List.getElem?_cons_zero, List.set_cons_zero, List.nil_append]
          congr 2
          simp at hseg; omega
        have step2 := condLoop_prefix edit (first' :: tl) ms2 l (rangeFrom 1 tl.length) []
        rw [← hk, ← e2, List.map_nil, List.append_nil, hc2] at step2
        rw [step1, step2] at step0
        refine ⟨_, _, step0, ?_⟩
        simp only [List.nil_append]
        rw [removeIndices_prefix_keep pre _ 0 _ (by
          intro j hj
          simp only [List.mem_map] at hj
          obtain ⟨x, _, rfl⟩ := hj
          omega)]
        rw [show 0 + pre.length = 0 + m.start by omega, removeIndices_shift]
        have hkeep := removeIndices_prefix_keep [first'] (tl ++ ts2) 0
          (rangeFrom 1 tl.length ++ r2.map (· + (m.stop - m.start))) (by
            intro j hj
            simp only [List.mem_append, List.mem_map] at hj
            rcases hj with hj | ⟨x, _, rfl⟩
            · have := rangeFrom_ge _ _ _ hj
              simpa using this
            · simp; omega)
        simp only [List.cons_append, List.nil_append, List.length_singleton] at hkeep ⊢
        rw [hkeep, removeIndices_range]
        rw [show 0 + 1 + tl.length = 0 + (m.stop - m.start) by simp at hk; omega, removeIndices_shift]
        exact hP.append ⟨b1, b2, ht2.mono b3 (Nat.le_refl _)⟩
      · have hk : m.stop - m.start = (first :: tl).length := by simp at hseg ⊢; omega
        have step1 : condLoop edit (⟨0, m.stop - m.start⟩ :: ms1) ((first :: tl) ++ l) [] =
            condLoop edit ms1 ((first :: tl) ++ l) [] := by
          simp only [condLoop]
          rw [hs]
          simp [hcont]
        have step2 := condLoop_prefix edit (first :: tl) ms2 l [] []
        rw [← hk, ← e2, List.map_nil, List.append_nil, hc2] at step2
        rw [step1, step2] at step0
        refine ⟨_, _, step0, ?_⟩
        simp only [List.nil_append]
        rw [hk, ← hpre, removeIndices_two_prefix]
        exact hP.append (hS.append ht2)


theorem condensePattern_gap_of (m : Matcher) (edit : Kind → Kind) (src : List Char) (P : List Tok → Prop)
    (hp : PatOK m src P) (toks : List Tok) (p q : Nat) (hP : P toks) (h : Gap toks p q) :
    ∃ out, condensePattern m edit src toks = .ok out ∧ Gap out p q := by
  obtain ⟨found, hf, hinc, _⟩ := foundFrom_inc hp toks 0 hP
  rw [Nat.zero_add] at hinc
  have hg := filter_good _ found hinc
  unfold condensePattern findAllMatches
  rw [hf]
  simp only
  generalize hms : (if found.length < 2 then found else removeIndices 0 (overlapNext 1 found) found) = ms at hg
  obtain ⟨ts, r, hc, ht⟩ := condLoop_gap edit ms.length ms rfl toks p q h hg
  have : (if found.length < 2 then (Except.ok found : Except Panic (List Span))
      else .ok (removeIndices 0 (overlapNext 1 found) found)) = .ok ms := by
    rw [← hms]; split <;> rfl
  rw [this]
  simp only [hc]
  exact ⟨_, rfl, ht⟩

end Harper
