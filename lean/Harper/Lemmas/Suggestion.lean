import Harper.Model.Suggestion
/-! Helper lemmas for C03 (and `fix_all_back_to_front` of C13). -/
namespace Harper

/-! ### the primitives -/

theorem Vec.setAt_length {α} {src src' : List α} {i : Nat} {c : α}
    (h : Vec.setAt src i c = .ok src') : src'.length = src.length := by
  unfold Vec.setAt at h
  split at h
  · cases h; simp
  · cases h

/-! ### the in-place overwrite loop -/

theorem overwriteLoop_ok {α} (start : Nat) (cs : List α) :
    ∀ (idx : Nat) (src : List α), idx + start + cs.length ≤ src.length →
      overwriteLoop start idx cs src
        = .ok (src.take (idx + start) ++ cs ++ src.drop (idx + start + cs.length)) := by
  induction cs with
  | nil => intro idx src _; simp [overwriteLoop]
  | cons c cs ih =>
    intro idx src h
    simp only [List.length_cons] at h
    have hlt : idx + start < src.length := by omega
    simp only [overwriteLoop, Vec.setAt, hlt, if_true]
    rw [ih (idx + 1) (src.set (idx + start) c) (by simp; omega)]
    congr 1
    apply List.ext_getElem?
    intro p
    simp only [List.getElem?_append, List.getElem?_take, List.getElem?_drop, List.getElem?_set,
      List.length_take, List.length_set, List.length_cons, List.length_append, List.getElem?_cons]
    grind

theorem overwriteLoop_err {α} (start : Nat) (cs : List α) :
    ∀ (idx : Nat) (src : List α), cs ≠ [] → idx + start + cs.length > src.length →
      ∃ p, overwriteLoop start idx cs src = .error p := by
  induction cs with
  | nil => intro _ _ h; exact absurd rfl h
  | cons c cs ih =>
    intro idx src _ h
    simp only [List.length_cons] at h
    by_cases hlt : idx + start < src.length
    · simp only [overwriteLoop, Vec.setAt, hlt, if_true]
      have hne : cs ≠ [] := by
        intro hc; subst hc; simp at h; omega
      exact ih (idx + 1) _ hne (by simp; omega)
    · exact ⟨.sliceOOB, by simp [overwriteLoop, Vec.setAt, hlt]⟩

/-! ### the shifting loop of `Remove` -/

theorem shiftLoop_ok {α} (span : Span) (hwf : span.start ≤ span.stop) (k : Nat) :
    ∀ (i : Nat) (src : List α), span.stop ≤ i → i + k ≤ src.length →
      shiftLoop span k i src
        = .ok (src.take (i - (span.stop - span.start)) ++ (src.drop i).take k
                ++ src.drop (i - (span.stop - span.start) + k)) := by
  induction k with
  | zero => intro i src _ _; simp [shiftLoop]
  | succ k ih =>
    intro i src hi hk
    have hlt : i < src.length := by omega
    have hnot : ¬ span.start > span.stop := by omega
    have hsub : ¬ span.stop - span.start > i := by omega
    have hj : i - (span.stop - span.start) < src.length := by omega
    simp only [shiftLoop, Span.lenChecked, hnot, if_false, Vec.checkedSub, hsub, Vec.getAt,
      List.getElem?_eq_getElem hlt, Vec.setAt, hj, if_true]
    rw [ih (i + 1) _ (by omega) (by simp; omega)]
    congr 1
    have hl : span.stop - span.start ≤ i := by omega
    generalize span.stop - span.start = l at hl ⊢
    obtain ⟨j, rfl⟩ : ∃ j, i = j + l := ⟨i - l, by omega⟩
    have e1 : j + l + 1 - l = j + 1 := by omega
    have e2 : j + l - l = j := by omega
    rw [e1, e2]
    apply List.ext_getElem?
    intro p
    simp only [List.getElem?_append, List.getElem?_take, List.getElem?_drop, List.getElem?_set,
      List.length_take, List.length_set, List.length_drop, List.length_append]
    grind

/-- when `start > end` the body of the shifting loop panics in `span.len()` as soon as it runs -/
theorem shiftLoop_err {α} (span : Span) (hbad : span.start > span.stop) (k i : Nat) (src : List α) :
    shiftLoop span (k + 1) i src = .error .underflow := by
  simp [shiftLoop, Span.lenChecked, hbad]

/-- for a span with `start ≤ end` the shifting loop of `Remove` never panics and keeps the length -/
theorem shiftLoop_total {α} (span : Span) (hwf : span.start ≤ span.stop) (src : List α) :
    ∃ r, shiftLoop span (src.length - span.stop) span.stop src = .ok r
      ∧ r.length = src.length := by
  by_cases he : span.stop ≤ src.length
  · refine ⟨_, shiftLoop_ok span hwf _ span.stop src (Nat.le_refl _) (by omega), ?_⟩
    simp only [List.length_append, List.length_take, List.length_drop]; omega
  · have hk : src.length - span.stop = 0 := by omega
    exact ⟨src, by simp [hk, shiftLoop], rfl⟩

/-! ### list facts used by the property theorems -/

theorem take_append_flagged {α} (src : List α) {s e : Nat} (h : s ≤ e) :
    src.take s ++ (src.drop s).take (e - s) = src.take e := by
  have : e = s + (e - s) := by omega
  conv => rhs; rw [this, List.take_add]

/-! ### minimum / maximum of the endpoints (`Itertools::minmax`) -/

theorem foldl_min_spec (xs : List Nat) : ∀ x : Nat,
    xs.foldl min x ∈ x :: xs ∧ ∀ y ∈ x :: xs, xs.foldl min x ≤ y := by
  induction xs with
  | nil => intro x; simp
  | cons a xs ih =>
    intro x
    obtain ⟨hm, hle⟩ := ih (min x a)
    simp only [List.foldl_cons]
    refine ⟨?_, ?_⟩
    · rcases List.mem_cons.mp hm with h | h
      · rw [h]
        rcases Nat.le_total x a with hxa | hxa
        · rw [Nat.min_eq_left hxa]; exact List.mem_cons_self
        · rw [Nat.min_eq_right hxa]; exact List.mem_cons_of_mem _ List.mem_cons_self
      · exact List.mem_cons_of_mem _ (List.mem_cons_of_mem _ h)
    · intro y hy
      have h0 := hle (min x a) List.mem_cons_self
      rcases List.mem_cons.mp hy with rfl | hy
      · exact Nat.le_trans h0 (Nat.min_le_left _ _)
      · rcases List.mem_cons.mp hy with rfl | hy
        · exact Nat.le_trans h0 (Nat.min_le_right _ _)
        · exact hle y (List.mem_cons_of_mem _ hy)

theorem foldl_max_spec (xs : List Nat) : ∀ x : Nat,
    xs.foldl max x ∈ x :: xs ∧ ∀ y ∈ x :: xs, y ≤ xs.foldl max x := by
  induction xs with
  | nil => intro x; simp
  | cons a xs ih =>
    intro x
    obtain ⟨hm, hle⟩ := ih (max x a)
    simp only [List.foldl_cons]
    refine ⟨?_, ?_⟩
    · rcases List.mem_cons.mp hm with h | h
      · rw [h]
        rcases Nat.le_total x a with hxa | hxa
        · rw [Nat.max_eq_right hxa]; exact List.mem_cons_of_mem _ List.mem_cons_self
        · rw [Nat.max_eq_left hxa]; exact List.mem_cons_self
      · exact List.mem_cons_of_mem _ (List.mem_cons_of_mem _ h)
    · intro y hy
      have h0 := hle (max x a) List.mem_cons_self
      rcases List.mem_cons.mp hy with rfl | hy
      · exact Nat.le_trans (Nat.le_max_left _ _) h0
      · rcases List.mem_cons.mp hy with rfl | hy
        · exact Nat.le_trans (Nat.le_max_right _ _) h0
        · exact hle y (List.mem_cons_of_mem _ hy)

/-- the endpoints of a token list -/
def endpoints (toks : List Span) : List Nat := toks.flatMap (fun t => [t.start, t.stop])

theorem mem_endpoints {toks : List Span} {x : Nat} :
    x ∈ endpoints toks ↔ ∃ t ∈ toks, x = t.start ∨ x = t.stop := by
  simp [endpoints, List.mem_flatMap]

/-- `tokenSpan` returns the least and the greatest endpoint; `None` exactly for no tokens. -/
theorem tokenSpan_spec (toks : List Span) :
    (toks = [] ∧ tokenSpan toks = none) ∨
    (toks ≠ [] ∧ ∃ sp, tokenSpan toks = some sp ∧
      sp.start ∈ endpoints toks ∧ sp.stop ∈ endpoints toks ∧
      ∀ x ∈ endpoints toks, sp.start ≤ x ∧ x ≤ sp.stop) := by
  cases toks with
  | nil => left; simp [tokenSpan]
  | cons t ts =>
    right
    refine ⟨by simp, ?_⟩
    have he : endpoints (t :: ts) = t.start :: (t.stop :: endpoints ts) := by
      simp [endpoints]
    have hts : tokenSpan (t :: ts)
        = some ⟨(t.stop :: endpoints ts).foldl min t.start,
                (t.stop :: endpoints ts).foldl max t.start⟩ := by
      simp [tokenSpan, endpoints]
    obtain ⟨hmin1, hmin2⟩ := foldl_min_spec (t.stop :: endpoints ts) t.start
    obtain ⟨hmax1, hmax2⟩ := foldl_max_spec (t.stop :: endpoints ts) t.start
    refine ⟨_, hts, ?_, ?_, ?_⟩
    · rw [he]; exact hmin1
    · rw [he]; exact hmax1
    · rw [he]; intro x hx; exact ⟨hmin2 x hx, hmax2 x hx⟩

theorem tokenSpan_some {toks : List Span} {sp : Span} (h : tokenSpan toks = some sp) :
    toks ≠ [] ∧ sp.start ∈ endpoints toks ∧ sp.stop ∈ endpoints toks ∧
      ∀ x ∈ endpoints toks, sp.start ≤ x ∧ x ≤ sp.stop := by
  rcases tokenSpan_spec toks with ⟨_, hn⟩ | ⟨hne, sp', hs, h1, h2, h3⟩
  · rw [hn] at h; cases h
  · rw [hs] at h; cases h; exact ⟨hne, h1, h2, h3⟩

end Harper
