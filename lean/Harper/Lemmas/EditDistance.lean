import Harper.Model.EditDistance
import Harper.Model.Dict
/-!
# Lemmas for C15: Levenshtein distance, the Wagner–Fischer rows, fuzzy search, merged dictionaries

`lev` is the textbook three-way recursion (the specification); everything else is about the
executable model in `Harper/Model/{EditDistance,Dict}.lean`.
-/
namespace Harper

section Lev
variable {α : Type} [DecidableEq α]

/-- Levenshtein distance, textbook recursion on the heads: delete / insert / substitute-or-keep. -/
def lev : List α → List α → Nat
  | [], t => t.length
  | a :: s, [] => (a :: s).length
  | a :: s, b :: t => min (min (lev (a :: s) t + 1) (lev s (b :: t) + 1)) (lev s t + edCost a b)
termination_by s t => s.length + t.length

@[simp] theorem lev_nil_left (t : List α) : lev [] t = t.length := by rw [lev]

@[simp] theorem lev_nil_right (s : List α) : lev s [] = s.length := by
  cases s <;> rw [lev]

theorem lev_cons_cons (a b : α) (s t : List α) :
    lev (a :: s) (b :: t) = min (min (lev (a :: s) t + 1) (lev s (b :: t) + 1)) (lev s t + edCost a b) := by
  rw [lev]

theorem edCost_le_one (a b : α) : edCost a b ≤ 1 := by
  unfold edCost; split <;> omega

theorem lev_le_max (s t : List α) : lev s t ≤ max s.length t.length := by
  fun_induction lev s t with
  | case1 t => simp
  | case2 a s => simp
  | case3 a s b t ih1 ih2 ih3 =>
    have := edCost_le_one a b
    simp only [List.length_cons] at *
    omega

/-- the distance is at least the difference of the lengths (justifies the length window of
`fuzzy_match`) -/
theorem lev_length_bounds (s t : List α) :
    s.length ≤ t.length + lev s t ∧ t.length ≤ s.length + lev s t := by
  fun_induction lev s t with
  | case1 t => simp
  | case2 a s => simp
  | case3 a s b t ih1 ih2 ih3 =>
    simp only [List.length_cons] at *
    omega

theorem lev_self (s : List α) : lev s s = 0 := by
  induction s with
  | nil => simp
  | cons a s ih => rw [lev_cons_cons]; simp [ih, edCost]

end Lev

/-! ## The rows of `edit_distance_min_alloc` -/
section Rows
variable {α : Type} [DecidableEq α]

theorem Arith.add_ok (m : Arith) (a b : Nat) (h : m = .nat ∨ a + b ≤ 255) :
    m.add a b = .ok (a + b) := by
  cases m with
  | nat => rfl
  | checked =>
    have h' : a + b ≤ 255 := by rcases h with h | h; cases h; exact h
    simp [Arith.add, h']
  | wrapping =>
    have h' : a + b ≤ 255 := by rcases h with h | h; cases h; exact h
    simp only [Arith.add]
    congr 1
    omega

theorem Arith.cast_ok (m : Arith) (n : Nat) (h : m = .nat ∨ n ≤ 255) : m.cast n = n := by
  cases m with
  | nat => rfl
  | checked =>
    have h' : n ≤ 255 := by rcases h with h | h; cases h; exact h
    simp only [Arith.cast]; omega
  | wrapping =>
    have h' : n ≤ 255 := by rcases h with h | h; cases h; exact h
    simp only [Arith.cast]; omega

theorem Arith.lenOk_ok (m : Arith) (n : Nat) (h : m = .nat ∨ n ≤ 255) : m.lenOk n = true := by
  cases m with
  | nat => rfl
  | checked =>
    have h' : n ≤ 255 := by rcases h with h | h; cases h; exact h
    simp [Arith.lenOk, h']
  | wrapping => rfl

/-- The row of the table as a specification. `sp` and `tp` are the *reversed* prefixes of source
and target already processed (the Rust loops run over prefixes), `s` the rest of the source:
the cells `D[i][j]` for `i = |sp|+1 ..`, `j = |tp|`. -/
def rowFrom (sp : List α) : List α → List α → List Nat
  | [], _ => []
  | a :: s, tp => lev (a :: sp) tp :: rowFrom (a :: sp) s tp

/-- Inner-loop invariant: fed with row `j-1` (as specified) the loop produces row `j`. -/
theorem nextRowAux_spec (m : Arith) (b : α) (tp s sp : List α)
    (hm : m = .nat ∨ (sp.length + s.length ≤ 254 ∧ tp.length + 1 ≤ 254)) :
    nextRowAux m b (lev sp (b :: tp)) (lev sp tp) s (rowFrom sp s tp)
      = .ok (rowFrom sp s (b :: tp)) := by
  induction s generalizing sp with
  | nil => simp [nextRowAux, rowFrom]
  | cons a s ih =>
    have h1 := lev_le_max (a :: sp) tp
    have h2 := lev_le_max sp (b :: tp)
    have h3 := lev_le_max sp tp
    have hc := edCost_le_one a b
    simp only [List.length_cons] at h1 h2 hm
    have e1 : m.add (lev (a :: sp) tp) 1 = .ok (lev (a :: sp) tp + 1) :=
      Arith.add_ok _ _ _ (by rcases hm with h | h; exact .inl h; right; omega)
    have e2 : m.add (lev sp (b :: tp)) 1 = .ok (lev sp (b :: tp) + 1) :=
      Arith.add_ok _ _ _ (by rcases hm with h | h; exact .inl h; right; omega)
    have e3 : m.add (lev sp tp) (edCost a b) = .ok (lev sp tp + edCost a b) :=
      Arith.add_ok _ _ _ (by rcases hm with h | h; exact .inl h; right; omega)
    have ih' := ih (a :: sp) (by
      rcases hm with h | h
      · exact .inl h
      · right; simp only [List.length_cons]; omega)
    simp only [rowFrom, nextRowAux, e1, e2, e3]
    rw [← lev_cons_cons, ih']

theorem rowFrom_nil (sp s : List α) :
    rowFrom sp s ([] : List α) = List.range' (sp.length + 1) s.length := by
  induction s generalizing sp with
  | nil => simp [rowFrom]
  | cons a s ih => simp [rowFrom, ih, List.range'_succ]

theorem getElem?_rowFrom (sp s tp : List α) :
    (lev sp tp :: rowFrom sp s tp)[s.length]? = some (lev (s.reverse ++ sp) tp) := by
  induction s generalizing sp with
  | nil => simp [rowFrom]
  | cons a s ih =>
    simp only [rowFrom, List.length_cons, List.getElem?_cons_succ, List.reverse_cons,
      List.append_assoc, List.singleton_append]
    exact ih (a :: sp)

/-- Outer-loop invariant: started on row `|tp|` (as specified) with `j = |tp| + 1`, the loop over
the rest `t` of the target ends with the distance of the reversed strings. -/
theorem edRows_spec (m : Arith) (s t tp : List α)
    (hm : m = .nat ∨ (s.length ≤ 254 ∧ tp.length + t.length ≤ 254)) :
    edRows m s (tp.length + 1) t (tp.length :: rowFrom [] s tp)
      = .ok (lev s.reverse (t.reverse ++ tp)) := by
  induction t generalizing tp with
  | nil =>
    have := getElem?_rowFrom [] s tp
    simp only [lev_nil_left, List.append_nil] at this
    simp [edRows, this]
  | cons b t ih =>
    simp only [List.length_cons] at hm
    have hc : m.cast (tp.length + 1) = tp.length + 1 :=
      Arith.cast_ok _ _ (by rcases hm with h | h; exact .inl h; right; omega)
    have hrow := nextRowAux_spec m b tp s [] (by
      rcases hm with h | h
      · exact .inl h
      · right; simp only [List.length_nil]; omega)
    simp only [lev_nil_left, List.length_cons] at hrow
    have ih' := ih (b :: tp) (by
      rcases hm with h | h
      · exact .inl h
      · right; simp only [List.length_cons]; omega)
    simp only [List.length_cons] at ih'
    simp only [edRows, hc, List.headD_cons, List.tail_cons, hrow, ih', List.reverse_cons,
      List.append_assoc, List.singleton_append]

/-- The model of `edit_distance_min_alloc` computes the Levenshtein distance of the reversed
strings — with unbounded cells always, with `u8` cells (either profile) up to length 254. -/
theorem editDistance_eq_lev_reverse (m : Arith) (s t : List α)
    (hm : m = .nat ∨ (s.length ≤ 254 ∧ t.length ≤ 254)) :
    editDistance m s t = .ok (lev s.reverse t.reverse) := by
  have hl1 : m.lenOk s.length = true :=
    Arith.lenOk_ok _ _ (by rcases hm with h | h; exact .inl h; right; omega)
  have hl2 : m.lenOk t.length = true :=
    Arith.lenOk_ok _ _ (by rcases hm with h | h; exact .inl h; right; omega)
  have hc : m.cast s.length = s.length :=
    Arith.cast_ok _ _ (by rcases hm with h | h; exact .inl h; right; omega)
  have hr : List.range (s.length + 1) = ([] : List α).length :: rowFrom [] s ([] : List α) := by
    rw [rowFrom_nil, List.range_eq_range', List.range'_succ]
    simp
  have := edRows_spec m s t [] (by
    rcases hm with h | h
    · exact .inl h
    · right; simp only [List.length_nil]; omega)
  simp only [List.length_nil, List.append_nil, Nat.zero_add] at this hr
  simp [editDistance, hl1, hl2, hc, hr, this]


/-! ### Where the `u8` cells stop being enough (dev profile: overflow checks on) -/

theorem editDistance_nil_right (m : Arith) (s : List α) (hm : m = .nat ∨ s.length ≤ 255) :
    editDistance m s [] = .ok s.length := by
  have hl1 : m.lenOk s.length = true := Arith.lenOk_ok _ _ hm
  have hl2 : m.lenOk 0 = true := Arith.lenOk_ok _ _ (.inr (by omega))
  have hc : m.cast s.length = s.length := Arith.cast_ok _ _ hm
  simp [editDistance, hl1, hl2, hc, edRows]

theorem nextRowAux_nil (m : Arith) (b : α) (l d : Nat) (ps : List Nat) :
    nextRowAux m b l d [] ps = .ok [] := by
  cases ps <;> simp [nextRowAux]

theorem edRows_nil_source (m : Arith) (t : List α) (j : Nat) (prev : List Nat) (v : Nat)
    (hm : m = .nat ∨ j + t.length ≤ 256) (hp : prev[0]? = some v) :
    edRows m ([] : List α) j t prev = .ok (if t = [] then v else j + t.length - 1) := by
  induction t generalizing j prev v with
  | nil => simp [edRows, hp]
  | cons b t ih =>
    simp only [List.length_cons] at hm
    have hc : m.cast j = j := Arith.cast_ok _ _ (by rcases hm with h | h; exact .inl h; right; omega)
    have := ih (j + 1) [j] j (by rcases hm with h | h; exact .inl h; right; omega) (by simp)
    simp only [edRows, nextRowAux_nil, hc, this]
    cases t <;> simp <;> omega

theorem editDistance_nil_left (m : Arith) (t : List α) (hm : m = .nat ∨ t.length ≤ 255) :
    editDistance m [] t = .ok t.length := by
  have hl1 : m.lenOk t.length = true := Arith.lenOk_ok _ _ hm
  have hl2 : m.lenOk 0 = true := Arith.lenOk_ok _ _ (.inr (by omega))
  have hc : m.cast 0 = 0 := Arith.cast_ok _ _ (.inr (by omega))
  have := edRows_nil_source m t 1 [0] 0 (by rcases hm with h | h; exact .inl h; right; omega) (by simp)
  simp only [editDistance, List.length_nil, hl1, hl2, hc, Bool.and_self, if_true]
  rw [show List.range (0 + 1) = [0] from rfl, this]
  cases t <;> simp

/-- a source of 255 characters: cell `previous_row[255] = 255`, and `previous_row[i] + 1`
overflows in the first row -/
theorem nextRowAux_overflow_source (b : α) (s sp : List α) (hs : s ≠ [])
    (hlen : sp.length + s.length = 255) :
    nextRowAux .checked b (lev sp [b]) (lev sp []) s (rowFrom sp s []) = .error .overflow := by
  induction s generalizing sp with
  | nil => exact absurd rfl hs
  | cons a s ih =>
    simp only [List.length_cons] at hlen
    by_cases hs' : s = []
    · subst hs'
      simp only [List.length_nil] at hlen
      have : ¬ (sp.length + 1 + 1 ≤ 255) := by omega
      simp [rowFrom, nextRowAux, Arith.add, this]
    · have hpos : 0 < s.length := List.length_pos_iff.mpr hs'
      have h2 := lev_le_max sp [b]
      simp only [List.length_cons, List.length_nil] at h2
      have hc := edCost_le_one a b
      have e1 : Arith.checked.add (lev (a :: sp) ([] : List α)) 1 = .ok (lev (a :: sp) [] + 1) :=
        Arith.add_ok _ _ _ (by right; rw [lev_nil_right]; simp only [List.length_cons]; omega)
      have e2 : Arith.checked.add (lev sp [b]) 1 = .ok (lev sp [b] + 1) :=
        Arith.add_ok _ _ _ (by right; omega)
      have e3 : Arith.checked.add (lev sp ([] : List α)) (edCost a b) = .ok (lev sp [] + edCost a b) :=
        Arith.add_ok _ _ _ (by right; rw [lev_nil_right]; omega)
      have ih' := ih (a :: sp) hs' (by simp only [List.length_cons]; omega)
      simp only [rowFrom, nextRowAux, e1, e2, e3]
      rw [← lev_cons_cons, ih']

theorem editDistance_overflow_source (s t : List α) (hs : s.length = 255) (ht : t ≠ [])
    (ht' : t.length ≤ 255) : editDistance .checked s t = .error .overflow := by
  obtain ⟨b, t, rfl⟩ := List.exists_cons_of_ne_nil ht
  have hs' : s ≠ [] := by intro h; simp [h] at hs
  have hrow := nextRowAux_overflow_source b s [] hs' (by simp [hs])
  have hr : List.range (255 + 1) = 0 :: rowFrom [] s ([] : List α) := by
    rw [rowFrom_nil, List.range_eq_range', List.range'_succ, hs]
    simp
  simp only [lev_nil_left, List.length_cons, List.length_nil] at hrow
  have hl : t.length + 1 ≤ 255 := by simpa using ht'
  simp [editDistance, Arith.lenOk, Arith.cast, hs, hl, hr, edRows, hrow]

theorem edRows_prefix (m : Arith) (s t1 t2 tp : List α)
    (hm : m = .nat ∨ (s.length ≤ 254 ∧ tp.length + t1.length ≤ 254)) :
    edRows m s (tp.length + 1) (t1 ++ t2) (tp.length :: rowFrom [] s tp)
      = edRows m s ((t1.reverse ++ tp).length + 1) t2
          ((t1.reverse ++ tp).length :: rowFrom [] s (t1.reverse ++ tp)) := by
  induction t1 generalizing tp with
  | nil => simp
  | cons b t ih =>
    simp only [List.length_cons] at hm
    have hc : m.cast (tp.length + 1) = tp.length + 1 :=
      Arith.cast_ok _ _ (by rcases hm with h | h; exact .inl h; right; omega)
    have hrow := nextRowAux_spec m b tp s [] (by
      rcases hm with h | h
      · exact .inl h
      · right; simp only [List.length_nil]; omega)
    simp only [lev_nil_left, List.length_cons] at hrow
    have ih' := ih (b :: tp) (by
      rcases hm with h | h
      · exact .inl h
      · right; simp only [List.length_cons]; omega)
    simp only [List.length_cons] at ih'
    simp only [List.cons_append, edRows, hc, List.headD_cons, List.tail_cons, hrow, ih',
      List.reverse_cons, List.append_assoc, List.nil_append]

/-- a target of 255 characters: `current_row[0] = 255`, and `current_row[i-1] + 1` overflows in
the last row -/
theorem editDistance_overflow_target (s t : List α) (hs : s ≠ []) (hs' : s.length ≤ 254)
    (ht : t.length = 255) : editDistance .checked s t = .error .overflow := by
  obtain ⟨a, s, rfl⟩ := List.exists_cons_of_ne_nil hs
  simp only [List.length_cons] at hs'
  rcases List.eq_nil_or_concat t with rfl | ⟨t1, b, rfl⟩
  · simp at ht
  · simp only [List.concat_eq_append, List.length_append, List.length_cons, List.length_nil] at ht
    have hpre := edRows_prefix .checked (a :: s) t1 [b] [] (by right; simp; omega)
    simp only [List.length_nil, List.append_nil, Nat.zero_add, List.length_reverse] at hpre
    have hr : List.range ((a :: s).length + 1) = 0 :: rowFrom [] (a :: s) ([] : List α) := by
      rw [rowFrom_nil, List.range_eq_range', List.range'_succ]
      simp
    have h1 := lev_le_max [a] t1.reverse
    simp only [List.length_cons, List.length_nil, List.length_reverse] at h1
    have ht1 : t1.length = 254 := by omega
    have hl1 : decide (s.length + 1 ≤ 255) = true := by simp; omega
    have hle : lev [a] t1.reverse ≤ 254 := by omega
    simp only [editDistance, Arith.lenOk, List.length_cons, List.concat_eq_append,
      List.length_append, List.length_nil, ht1, hl1, Arith.cast]
    have hmod : (s.length + 1) % 256 = s.length + 1 := by omega
    simp only [List.length_cons] at hr
    rw [hmod, hr]
    simp only [Nat.reduceAdd, Nat.reduceLeDiff, decide_true, Bool.and_self, if_true]
    rw [hpre, ht1]
    simp [edRows, Arith.cast, rowFrom, nextRowAux, Arith.add, hle]

theorem editDistance_assert (s t : List α) (h : 255 < s.length ∨ 255 < t.length) :
    editDistance .checked s t = .error .assertFail := by
  have : ¬ (s.length ≤ 255 ∧ t.length ≤ 255) := by omega
  simp [editDistance, Arith.lenOk, this]

end Rows

/-! ## `lev` is invariant under reversing both strings

Edit scripts: `Align s t n` — `s` can be turned into `t` by a script of cost `n`. `lev` is the
least cost of a script; scripts can be extended at the far end, hence reversed. -/
section Reverse
variable {α : Type} [DecidableEq α]

inductive Align : List α → List α → Nat → Prop
  | nil : Align [] [] 0
  | del (a : α) {s t n} : Align s t n → Align (a :: s) t (n + 1)
  | ins (b : α) {s t n} : Align s t n → Align s (b :: t) (n + 1)
  | sub (a b : α) {s t n} : Align s t n → Align (a :: s) (b :: t) (n + edCost a b)

theorem Align.cast {s t : List α} {n m : Nat} (h : Align s t n) (e : n = m) : Align s t m := e ▸ h

theorem Align.insAll (t : List α) : Align ([] : List α) t t.length := by
  induction t with
  | nil => exact .nil
  | cons b t ih => exact .ins b ih

theorem Align.delAll (s : List α) : Align s ([] : List α) s.length := by
  induction s with
  | nil => exact .nil
  | cons a s ih => exact .del a ih

/-- `lev s t` is the cost of some script -/
theorem Align.of_lev (s t : List α) : Align s t (lev s t) := by
  fun_induction lev s t with
  | case1 t => exact Align.insAll t
  | case2 a s => exact Align.delAll (a :: s)
  | case3 a s b t ih1 ih2 ih3 =>
    rcases Nat.le_total (lev (a :: s) t + 1) (lev s (b :: t) + 1) with h12 | h12
    · rcases Nat.le_total (lev (a :: s) t + 1) (lev s t + edCost a b) with h13 | h13
      · exact (Align.ins b ih1).cast (by omega)
      · exact (Align.sub a b ih3).cast (by omega)
    · rcases Nat.le_total (lev s (b :: t) + 1) (lev s t + edCost a b) with h23 | h23
      · exact (Align.del a ih2).cast (by omega)
      · exact (Align.sub a b ih3).cast (by omega)

/-- no script is cheaper than `lev` -/
theorem Align.lev_le {s t : List α} {n : Nat} (h : Align s t n) : lev s t ≤ n := by
  induction h with
  | nil => simp
  | @del a s t n _ ih =>
    cases t with
    | nil => simp at *; omega
    | cons b t => rw [lev_cons_cons]; omega
  | @ins b s t n _ ih =>
    cases s with
    | nil => simp at *; omega
    | cons a s => rw [lev_cons_cons]; omega
  | @sub a b s t n _ ih => rw [lev_cons_cons]; omega

theorem Align.snocDel (a : α) {s t : List α} {n : Nat} (h : Align s t n) :
    Align (s ++ [a]) t (n + 1) := by
  induction h with
  | nil => exact .del a .nil
  | del a' _ ih => exact .del a' ih
  | ins b' _ ih => exact .ins b' ih
  | sub a' b' _ ih => exact (Align.sub a' b' ih).cast (by omega)

theorem Align.snocIns (b : α) {s t : List α} {n : Nat} (h : Align s t n) :
    Align s (t ++ [b]) (n + 1) := by
  induction h with
  | nil => exact .ins b .nil
  | del a' _ ih => exact .del a' ih
  | ins b' _ ih => exact .ins b' ih
  | sub a' b' _ ih => exact (Align.sub a' b' ih).cast (by omega)

theorem Align.snocSub (a b : α) {s t : List α} {n : Nat} (h : Align s t n) :
    Align (s ++ [a]) (t ++ [b]) (n + edCost a b) := by
  induction h with
  | nil => exact (Align.sub a b .nil)
  | del a' _ ih => exact (Align.del a' ih).cast (by omega)
  | ins b' _ ih => exact (Align.ins b' ih).cast (by omega)
  | sub a' b' _ ih => exact (Align.sub a' b' ih).cast (by omega)

theorem Align.reverse {s t : List α} {n : Nat} (h : Align s t n) :
    Align s.reverse t.reverse n := by
  induction h with
  | nil => exact .nil
  | del a _ ih => simpa using Align.snocDel a ih
  | ins b _ ih => simpa using Align.snocIns b ih
  | sub a b _ ih => simpa using Align.snocSub a b ih

theorem lev_reverse_le (s t : List α) : lev s.reverse t.reverse ≤ lev s t :=
  (Align.of_lev s t).reverse.lev_le

/-- Levenshtein distance computed from the last character backwards is the same number. -/
theorem lev_reverse (s t : List α) : lev s.reverse t.reverse = lev s t := by
  apply Nat.le_antisymm (lev_reverse_le s t)
  have := lev_reverse_le s.reverse t.reverse
  simpa using this

/-- `lev` is the least script cost -/
theorem lev_le_iff (s t : List α) (n : Nat) : lev s t ≤ n ↔ ∃ k, k ≤ n ∧ Align s t k :=
  ⟨fun h => ⟨_, h, Align.of_lev s t⟩, fun ⟨_, hk, ha⟩ => Nat.le_trans ha.lev_le hk⟩

theorem Align.symm {s t : List α} {n : Nat} (h : Align s t n) : Align t s n := by
  induction h with
  | nil => exact .nil
  | del a _ ih => exact .ins a ih
  | ins b _ ih => exact .del b ih
  | sub a b _ ih =>
    have : edCost a b = edCost b a := by unfold edCost; split <;> split <;> simp_all
    exact (Align.sub b a ih).cast (by omega)

theorem lev_comm (s t : List α) : lev s t = lev t s :=
  Nat.le_antisymm (Align.of_lev t s).symm.lev_le (Align.of_lev s t).symm.lev_le

end Reverse

deriving instance DecidableEq for Except

section Corollaries
variable {α : Type} [DecidableEq α]

/-- the model computes `lev` (head-recursive form) -/
theorem editDistance_eq_lev (m : Arith) (s t : List α)
    (hm : m = .nat ∨ (s.length ≤ 254 ∧ t.length ≤ 254)) :
    editDistance m s t = .ok (lev s t) := by
  rw [editDistance_eq_lev_reverse m s t hm, lev_reverse]

/-- evaluate `lev` on concrete strings by running the (structurally recursive) model -/
theorem lev_of_editDistance {s t : List α} {n : Nat} (h : editDistance .nat s t = .ok n) :
    lev s t = n := by
  rw [editDistance_eq_lev .nat s t (.inl rfl)] at h
  exact Except.ok.inj h

end Corollaries

/-! ## Fuzzy search of the mutable dictionary -/
section Fuzzy
variable {β : Type}

theorem inWindow_iff (ql b wl : Nat) :
    inWindow ql b wl = true ↔ (if ql ≤ b then 1 else ql - b) ≤ wl ∧ wl ≤ ql + b := by
  simp [inWindow]

/-- what `fuzzy_match` decides for one candidate word, as a specification -/
def fuzzyPick (bound : Nat) (q ql : List Char) (xw : β × List Char) : Option (β × Nat) :=
  if inWindow q.length bound xw.2.length = true ∧ min (lev q xw.2) (lev ql xw.2) ≤ bound
  then some (xw.1, min (lev q xw.2) (lev ql xw.2)) else none

/-- the scan never panics when the query (and its lower-case form) is short enough for every
candidate in the length window to have at most 254 characters, and then it is `filterMap` of the
specification -/
theorem fuzzyScan_eq (m : Arith) (bound : Nat) (q ql : List Char) (ws : List (β × List Char))
    (hq : m = .nat ∨ (q.length + bound ≤ 254 ∧ ql.length ≤ 254)) :
    fuzzyScan m bound q ql ws = .ok (ws.filterMap (fuzzyPick bound q ql)) := by
  induction ws with
  | nil => simp [fuzzyScan]
  | cons xw ws ih =>
    obtain ⟨x, w⟩ := xw
    by_cases hw : inWindow q.length bound w.length = true
    · have hwl : m = .nat ∨ w.length ≤ 254 := by
        rcases hq with h | h
        · exact .inl h
        · right; have := (inWindow_iff _ _ _).mp hw; omega
      have e1 : editDistance m q w = .ok (lev q w) :=
        editDistance_eq_lev m q w (by
          rcases hq with h | h
          · exact .inl h
          · rcases hwl with h' | h'
            · exact .inl h'
            · right; omega)
      have e2 : editDistance m ql w = .ok (lev ql w) :=
        editDistance_eq_lev m ql w (by
          rcases hq with h | h
          · exact .inl h
          · rcases hwl with h' | h'
            · exact .inl h'
            · right; omega)
      simp only [fuzzyScan, hw, if_true, e1, e2, ih, List.filterMap_cons, fuzzyPick, true_and]
      by_cases hb : min (lev q w) (lev ql w) ≤ bound <;> simp [hb]
    · simp only [fuzzyScan, hw, ih, List.filterMap_cons, fuzzyPick]
      simp

theorem insertByDist_perm (x : β × Nat) (l : List (β × Nat)) :
    (insertByDist x l).Perm (x :: l) := by
  induction l with
  | nil => simp [insertByDist]
  | cons y ys ih =>
    unfold insertByDist
    split
    · exact List.Perm.refl _
    · exact (List.Perm.cons y ih).trans (List.Perm.swap x y ys)

theorem sortByDist_perm (l : List (β × Nat)) : (sortByDist l).Perm l := by
  induction l with
  | nil => simp [sortByDist]
  | cons x xs ih =>
    unfold sortByDist
    exact (insertByDist_perm x _).trans (List.Perm.cons x ih)

theorem insertByDist_sorted (x : β × Nat) (l : List (β × Nat))
    (h : l.Pairwise (fun a b => a.2 ≤ b.2)) :
    (insertByDist x l).Pairwise (fun a b => a.2 ≤ b.2) := by
  induction l with
  | nil => simp [insertByDist]
  | cons y ys ih =>
    have ⟨hy, hys⟩ := List.pairwise_cons.mp h
    unfold insertByDist
    split
    · rename_i hxy
      refine List.pairwise_cons.mpr ⟨?_, h⟩
      intro z hz
      rcases List.mem_cons.mp hz with rfl | hz
      · exact hxy
      · exact Nat.le_trans hxy (hy z hz)
    · rename_i hxy
      refine List.pairwise_cons.mpr ⟨?_, ih hys⟩
      intro z hz
      have := (insertByDist_perm x ys).mem_iff.mp hz
      rcases List.mem_cons.mp this with rfl | hz
      · omega
      · exact hy z hz

theorem sortByDist_sorted (l : List (β × Nat)) :
    (sortByDist l).Pairwise (fun a b => a.2 ≤ b.2) := by
  induction l with
  | nil => simp [sortByDist]
  | cons x xs ih => unfold sortByDist; exact insertByDist_sorted x _ ih

/-- stability: elements of equal distance keep their input order — stated as: the sort does not
move anything when the input is already sorted -/
theorem sortByDist_of_sorted (l : List (β × Nat)) (h : l.Pairwise (fun a b => a.2 ≤ b.2)) :
    sortByDist l = l := by
  induction l with
  | nil => simp [sortByDist]
  | cons x xs ih =>
    have ⟨hx, hxs⟩ := List.pairwise_cons.mp h
    unfold sortByDist
    rw [ih hxs]
    cases xs with
    | nil => simp [insertByDist]
    | cons y ys => simp [insertByDist, hx y List.mem_cons_self]

theorem fuzzyPick_some {bound : Nat} {q ql : List Char} {xw : β × List Char} {r : β × Nat}
    (h : fuzzyPick bound q ql xw = some r) :
    r.1 = xw.1 ∧ r.2 = min (lev q xw.2) (lev ql xw.2) ∧ r.2 ≤ bound ∧
      inWindow q.length bound xw.2.length = true := by
  unfold fuzzyPick at h
  split at h
  · rename_i hc
    cases h
    exact ⟨rfl, rfl, hc.2, hc.1⟩
  · cases h

theorem filterMap_fuzzyPick_fst_sublist (bound : Nat) (q ql : List Char) (ws : List (β × List Char)) :
    ((ws.filterMap (fuzzyPick bound q ql)).map (·.1)).Sublist (ws.map (·.1)) := by
  induction ws with
  | nil => simp
  | cons xw ws ih =>
    simp only [List.filterMap_cons, List.map_cons]
    cases h : fuzzyPick bound q ql xw with
    | none => exact ih.cons _
    | some r =>
      have := (fuzzyPick_some h).1
      simp only [List.map_cons, this]
      exact ih.cons_cons _

theorem length_filterMap_fuzzyPick_le (bound : Nat) (q ql : List Char) (ws : List (β × List Char)) :
    (ws.filterMap (fuzzyPick bound q ql)).length ≤
      (ws.filter (fun xw => decide (min (lev q xw.2) (lev ql xw.2) ≤ bound))).length := by
  induction ws with
  | nil => simp
  | cons xw ws ih =>
    simp only [List.filterMap_cons, List.filter_cons]
    cases h : fuzzyPick bound q ql xw with
    | none =>
      by_cases hb : min (lev q xw.2) (lev ql xw.2) ≤ bound
      · simp only [hb, decide_true, if_true, List.length_cons]; omega
      · simp only [hb, decide_false]; exact ih
    | some r =>
      have h' := fuzzyPick_some h
      have : min (lev q xw.2) (lev ql xw.2) ≤ bound := by omega
      simp [this, ih]

/-- a word within the bound of the query is never cut off by the length window (empty words are) -/
theorem inWindow_of_lev_le (q w : List Char) (bound : Nat) (hw : w ≠ []) (h : lev q w ≤ bound) :
    inWindow q.length bound w.length = true := by
  have := lev_length_bounds q w
  have : 0 < w.length := List.length_pos_iff.mpr hw
  rw [inWindow_iff]
  split <;> omega

end Fuzzy

/-! ## The FST back-end's positional merge -/
section Fst

theorem zipPick_mem (us ls : List (Nat × Nat)) : ∀ r ∈ zipPick us ls, r ∈ us ∨ r ∈ ls := by
  induction us generalizing ls with
  | nil => simp [zipPick]
  | cons u us ih =>
    cases ls with
    | nil => simp [zipPick]
    | cons l ls =>
      intro r hr
      simp only [zipPick, List.mem_cons] at hr
      rcases hr with rfl | hr
      · split <;> simp
      · rcases ih ls r hr with h | h
        · exact .inl (List.mem_cons_of_mem _ h)
        · exact .inr (List.mem_cons_of_mem _ h)

theorem zipPick_self (us : List (Nat × Nat)) : zipPick us us = us := by
  induction us with
  | nil => rfl
  | cons u us ih => simp [zipPick, ih]

theorem sortByIdx_perm (l : List (Nat × Nat)) : (sortByIdx l).Perm l := by
  unfold sortByIdx
  have := ((sortByDist_perm (l.map Prod.swap)).map Prod.swap)
  simpa [Function.comp_def] using this

theorem sortByIdx_sorted (l : List (Nat × Nat)) : (sortByIdx l).Pairwise (fun a b => a.1 ≤ b.1) := by
  unfold sortByIdx
  have := sortByDist_sorted (l.map Prod.swap)
  rw [List.pairwise_map]
  exact this.imp (fun h => by simpa using h)

theorem sortByIdx_of_sorted (l : List (Nat × Nat)) (h : l.Pairwise (fun a b => a.1 ≤ b.1)) :
    sortByIdx l = l := by
  unfold sortByIdx
  rw [sortByDist_of_sorted]
  · simp [Function.comp_def]
  · rw [List.pairwise_map]
    exact h.imp (fun h => by simpa using h)

theorem dedupAux_sub (p : Nat) (l : List (Nat × Nat)) : (dedupAux p l).Sublist l := by
  induction l generalizing p with
  | nil => simp [dedupAux]
  | cons y r ih =>
    unfold dedupAux
    split
    · exact (ih p).cons _
    · exact (ih y.1).cons_cons _

theorem dedupIdx_sub (l : List (Nat × Nat)) : (dedupIdx l).Sublist l := by
  cases l with
  | nil => simp [dedupIdx]
  | cons x r => exact (dedupAux_sub x.1 r).cons_cons _

theorem dedupAux_strict (p : Nat) (l : List (Nat × Nat))
    (h : l.Pairwise (fun a b => a.1 ≤ b.1)) (hp : ∀ y ∈ l, p ≤ y.1) :
    (dedupAux p l).Pairwise (fun a b => a.1 < b.1) ∧ ∀ y ∈ dedupAux p l, p < y.1 := by
  induction l generalizing p with
  | nil => simp [dedupAux]
  | cons y r ih =>
    have ⟨hy, hr⟩ := List.pairwise_cons.mp h
    unfold dedupAux
    split
    · rename_i he
      exact ih p hr (fun z hz => hp z (List.mem_cons_of_mem _ hz))
    · rename_i hne
      have hpy := hp y List.mem_cons_self
      have ⟨h1, h2⟩ := ih y.1 hr hy
      refine ⟨List.pairwise_cons.mpr ⟨h2, h1⟩, ?_⟩
      intro z hz
      rcases List.mem_cons.mp hz with rfl | hz
      · omega
      · have := h2 z hz; omega

theorem dedupIdx_strict (l : List (Nat × Nat)) (h : l.Pairwise (fun a b => a.1 ≤ b.1)) :
    (dedupIdx l).Pairwise (fun a b => a.1 < b.1) := by
  cases l with
  | nil => simp [dedupIdx]
  | cons x r =>
    have ⟨hx, hr⟩ := List.pairwise_cons.mp h
    have ⟨h1, h2⟩ := dedupAux_strict x.1 r hr hx
    exact List.pairwise_cons.mpr ⟨h2, h1⟩

theorem dedupAux_of_strict (p : Nat) (l : List (Nat × Nat)) (hp : ∀ y ∈ l, p < y.1)
    (h : l.Pairwise (fun a b => a.1 < b.1)) : dedupAux p l = l := by
  induction l generalizing p with
  | nil => simp [dedupAux]
  | cons y r ih =>
    have ⟨hy, hr⟩ := List.pairwise_cons.mp h
    have := hp y List.mem_cons_self
    unfold dedupAux
    rw [if_neg (by omega), ih y.1 hy hr]

theorem dedupIdx_of_strict (l : List (Nat × Nat)) (h : l.Pairwise (fun a b => a.1 < b.1)) :
    dedupIdx l = l := by
  cases l with
  | nil => rfl
  | cons x r =>
    have ⟨hx, hr⟩ := List.pairwise_cons.mp h
    simp [dedupIdx, dedupAux_of_strict x.1 r hx hr]

theorem mem_fstStream (bound : Nat) (q : List Char) (ws : List (Nat × List Char)) (r : Nat × Nat) :
    r ∈ fstStream bound q ws ↔ ∃ w, (r.1, w) ∈ ws ∧ r.2 = lev q w ∧ r.2 ≤ bound := by
  unfold fstStream
  rw [List.mem_filterMap]
  constructor
  · rintro ⟨⟨i, w⟩, hiw, h⟩
    rw [editDistance_eq_lev .nat q w (.inl rfl)] at h
    simp only at h
    split at h
    · cases h; exact ⟨w, hiw, rfl, by assumption⟩
    · cases h
  · rintro ⟨w, hw, hd, hb⟩
    refine ⟨(r.1, w), hw, ?_⟩
    rw [editDistance_eq_lev .nat q w (.inl rfl)]
    simp only
    rw [if_pos (by omega)]
    cases r; simp_all

theorem fstStream_fst_sublist (bound : Nat) (q : List Char) (ws : List (Nat × List Char)) :
    ((fstStream bound q ws).map (·.1)).Sublist (ws.map (·.1)) := by
  induction ws with
  | nil => simp [fstStream]
  | cons iw ws ih =>
    simp only [fstStream, List.filterMap_cons, List.map_cons] at ih ⊢
    split
    · exact ih.cons _
    · rename_i r hr
      have : r.1 = iw.1 := by
        split at hr
        · split at hr
          · cases hr; rfl
          · cases hr
        · cases hr
      simp only [List.map_cons, this]
      exact ih.cons_cons _

theorem fstStream_eq (bound : Nat) (q : List Char) (ws : List (Nat × List Char)) :
    fstStream bound q ws
      = (ws.filter (fun iw => decide (lev q iw.2 ≤ bound))).map (fun iw => (iw.1, lev q iw.2)) := by
  induction ws with
  | nil => simp [fstStream]
  | cons iw ws ih =>
    simp only [fstStream, List.filterMap_cons, List.filter_cons] at ih ⊢
    rw [editDistance_eq_lev .nat q iw.2 (.inl rfl)]
    by_cases h : lev q iw.2 ≤ bound <;> simp [h, ih]

theorem zipMergeAll_nodup (us ls : List (Nat × Nat)) :
    ((zipMergeAll us ls).map (·.1)).Nodup := by
  unfold zipMergeAll
  have hs := dedupIdx_strict _ (sortByIdx_sorted (zipPick us ls))
  have hn : ((dedupIdx (sortByIdx (zipPick us ls))).map (·.1)).Nodup := by
    rw [List.Nodup, List.pairwise_map]
    exact hs.imp (fun h => by omega)
  exact ((sortByDist_perm _).map _).nodup_iff.mpr hn

end Fst

/-! ## Dictionaries -/
section Dicts

theorem Dict.lookup_insert (e : DictEntry) (d : Dict) (k : List Char) :
    (Dict.insert e d).lookup k = if e.key = k then some e else d.lookup k := by
  induction d with
  | nil => simp [Dict.insert, Dict.lookup, List.find?]
  | cons x xs ih =>
    simp only [Dict.lookup] at ih ⊢
    unfold Dict.insert
    split
    · rename_i hx
      by_cases hk : e.key = k
      · simp [hk, List.find?]
      · have : ¬ x.key = k := by rw [hx]; exact hk
        simp [hk, this, List.find?]
    · rename_i hx
      by_cases hxk : x.key = k
      · have : ¬ e.key = k := by rw [← hxk]; exact fun h => hx h.symm
        simp [hxk, this, List.find?]
      · simp [hxk, List.find?, ih]

theorem Dict.lookup_key {d : Dict} {k : List Char} {e : DictEntry} (h : d.lookup k = some e) :
    e.key = k ∧ e ∈ d := by
  unfold Dict.lookup at h
  have h1 := List.find?_some h
  have h2 := List.mem_of_find?_eq_some h
  exact ⟨by simpa using h1, h2⟩

theorem Merged.lookup_eq_flatten (ds : Merged) (k : List Char) :
    Merged.lookup ds k = Dict.lookup ds.flatten k := by
  induction ds with
  | nil => simp [Merged.lookup, Dict.lookup]
  | cons d ds ih =>
    simp only [Merged.lookup, Dict.lookup, List.findSome?_cons, List.flatten_cons,
      List.find?_append] at ih ⊢
    cases h : List.find? (fun e => decide (e.key = k)) d with
    | none => rw [ih]; rfl
    | some e => rfl

theorem Merged.lookup_first (pre : List Dict) (d : Dict) (post : List Dict) (k : List Char)
    (hpre : ∀ p ∈ pre, p.lookup k = none) (hd : (d.lookup k).isSome) :
    Merged.lookup (pre ++ d :: post) k = d.lookup k := by
  induction pre with
  | nil =>
    simp only [Merged.lookup, List.nil_append, List.findSome?_cons]
    cases h : d.lookup k with
    | none => simp [h] at hd
    | some e => rfl
  | cons p pre ih =>
    have hp := hpre p List.mem_cons_self
    simp only [Merged.lookup, List.cons_append, List.findSome?_cons, hp] at ih ⊢
    exact ih (fun p' hp' => hpre p' (List.mem_cons_of_mem _ hp'))

theorem Merged.lookup_none (ds : Merged) (k : List Char) :
    Merged.lookup ds k = none ↔ ∀ d ∈ ds, d.lookup k = none := by
  simp [Merged.lookup]

end Dicts
end Harper
