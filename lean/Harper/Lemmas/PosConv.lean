import Harper.Model.PosConv
/-!
Helper lemmas for C08. The recurring view of a text around an index `i` is
`src = pre ++ tail ++ rest` with `pre` the complete lines before `i`'s line (`LineStart pre`:
empty or ending in `'\n'`), `tail` the part of `i`'s line before `i` (no `'\n'`), and
`i = pre.length + tail.length`.
-/
namespace Harper.PosConv
open Harper

/-! ### Vocabulary of the property statements -/

/-- number of `'\n'` in the text -/
def newlines (src : List Char) : Nat := src.count '\n'

/-- number of `'\n'` before index `i`: the (server) line of `i` -/
def lineOf (src : List Char) (i : Nat) : Nat := (src.take i).count '\n'

/-- every `'\r'` is immediately followed by `'\n'` -/
def NoLoneCR (src : List Char) : Prop :=
  ∀ j, j < src.length → src[j]? = some '\r' → src[j + 1]? = some '\n'

instance (src : List Char) : Decidable (NoLoneCR src) :=
  inferInstanceAs (Decidable (∀ j, j < src.length → _))

/-- index `i` is between the `'\r'` and the `'\n'` of one line terminator -/
def InsideCRLF (src : List Char) (i : Nat) : Prop :=
  0 < i ∧ src[i - 1]? = some '\r' ∧ src[i]? = some '\n'

instance (src : List Char) (i : Nat) : Decidable (InsideCRLF src i) :=
  inferInstanceAs (Decidable (_ ∧ _ ∧ _))

/-- `pre` consists of complete lines -/
def LineStart (pre : List Char) : Prop := pre = [] ∨ pre.getLast? = some '\n'

/-- results of modelled operations can be compared by `decide` in concrete examples -/
instance {α} [DecidableEq α] : DecidableEq (Except Panic α) := fun a b =>
  match a, b with
  | .ok x, .ok y => if h : x = y then isTrue (h ▸ rfl) else isFalse (fun e => by cases e; exact h rfl)
  | .error x, .error y =>
    if h : x = y then isTrue (h ▸ rfl) else isFalse (fun e => by cases e; exact h rfl)
  | .ok _, .error _ => isFalse (fun e => by cases e)
  | .error _, .ok _ => isFalse (fun e => by cases e)

/-- `char::len_utf16` on the characters used in the examples -/
def len16Ex (c : Char) : Nat := if c = '😀' then 2 else 1

/-- the text of the pinned-style witness: `"First line.\nSecnd line"` -/
def firstSecnd : List Char :=
  ['F','i','r','s','t',' ','l','i','n','e','.','\n','S','e','c','n','d',' ','l','i','n','e']

/-! ### `nlIdx`, `sum16`, `slice` -/

theorem nlIdx_append (k : Nat) (xs ys : List Char) :
    nlIdx k (xs ++ ys) = nlIdx k xs ++ nlIdx (k + xs.length) ys := by
  induction xs generalizing k with
  | nil => simp [nlIdx]
  | cons c cs ih =>
    simp only [List.cons_append, nlIdx, List.length_cons]
    split <;> simp [ih, Nat.add_assoc, Nat.add_comm 1]

theorem nlIdx_of_not_mem (k : Nat) (xs : List Char) (h : '\n' ∉ xs) : nlIdx k xs = [] := by
  induction xs generalizing k with
  | nil => rfl
  | cons c cs ih =>
    have hc : c ≠ '\n' := fun e => h (e ▸ List.mem_cons_self)
    have hcs : '\n' ∉ cs := fun m => h (List.mem_cons_of_mem _ m)
    simp [nlIdx, hc, ih _ hcs]

theorem nlIdx_length (k : Nat) (xs : List Char) : (nlIdx k xs).length = xs.count '\n' := by
  induction xs generalizing k with
  | nil => rfl
  | cons c cs ih =>
    simp only [nlIdx]
    by_cases hc : c = '\n'
    · subst hc; simp [ih]
    · simp [hc, ih]

theorem nlIdx_last_of_lineStart (pre : List Char) (h : LineStart pre) :
    (nlIdx 0 pre).getLast?.getD 0 = pre.length := by
  rcases h with rfl | h
  · rfl
  · obtain ⟨ys, rfl⟩ : ∃ ys, pre = ys ++ ['\n'] := by
      rcases List.eq_nil_or_concat pre with rfl | ⟨ys, y, rfl⟩
      · simp at h
      · simp at h; exact ⟨ys, by simp [h]⟩
    simp [nlIdx_append, nlIdx]

theorem sum16_append (len16 : Char → Nat) (xs ys : List Char) :
    sum16 len16 (xs ++ ys) = sum16 len16 xs + sum16 len16 ys := by
  induction xs with
  | nil => simp [sum16]
  | cons c cs ih => simp [sum16, ih, Nat.add_assoc]

theorem slice_mid (pre mid rest : List Char) :
    slice (pre ++ mid ++ rest) pre.length (pre.length + mid.length) = .ok mid := by
  unfold slice
  have : ¬ (pre.length > pre.length + mid.length ∨
      pre.length + mid.length > (pre ++ mid ++ rest).length) := by
    simp only [List.length_append]; omega
  rw [if_neg this]
  simp

theorem slice_zero (xs rest : List Char) : slice (xs ++ rest) 0 xs.length = .ok xs := by
  simpa using slice_mid [] xs rest

/-- every list splits at its last `'\n'` -/
theorem split_last_nl (xs : List Char) :
    ∃ pre tail, xs = pre ++ tail ∧ LineStart pre ∧ '\n' ∉ tail := by
  induction xs with
  | nil => exact ⟨[], [], rfl, Or.inl rfl, by simp⟩
  | cons c cs ih =>
    obtain ⟨pre, tail, rfl, hp, ht⟩ := ih
    rcases hp with rfl | hp
    · by_cases hc : c = '\n'
      · exact ⟨[c], tail, rfl, Or.inr (by simp [hc]), ht⟩
      · refine ⟨[], c :: tail, rfl, Or.inl rfl, ?_⟩
        simp only [List.mem_cons, not_or]
        exact ⟨fun e => hc e.symm, ht⟩
    · have hne : pre ≠ [] := by intro e; simp [e] at hp
      exact ⟨c :: pre, tail, rfl, Or.inr (by rw [List.getLast?_cons_of_ne_nil hne]; exact hp), ht⟩

/-! ### `index_to_position` on the decomposed text -/

theorem indexToPosition_decomp (len16 : Char → Nat) (pre tail rest : List Char)
    (hp : LineStart pre) (ht : '\n' ∉ tail) :
    indexToPosition len16 (pre ++ tail ++ rest) (pre.length + tail.length) =
      .ok ⟨pre.count '\n', sum16 len16 tail⟩ := by
  unfold indexToPosition
  have h0 : slice (pre ++ tail ++ rest) 0 (pre.length + tail.length) = .ok (pre ++ tail) := by
    have := slice_zero (pre ++ tail) rest
    simpa using this
  simp only [h0]
  have hnl : nlIdx 0 (pre ++ tail) = nlIdx 0 pre := by
    rw [nlIdx_append, nlIdx_of_not_mem _ tail ht]; simp
  simp only [hnl, nlIdx_last_of_lineStart pre hp, slice_mid, nlIdx_length]

/-- a list containing `'\n'` splits at its first `'\n'` -/
theorem split_first_nl (xs : List Char) (h : '\n' ∈ xs) :
    ∃ mid post, xs = mid ++ '\n' :: post ∧ '\n' ∉ mid := by
  induction xs with
  | nil => simp at h
  | cons c cs ih =>
    by_cases hc : c = '\n'
    · exact ⟨[], cs, by simp [hc], by simp⟩
    · have : '\n' ∈ cs := by
        rcases List.mem_cons.mp h with e | m
        · exact absurd e.symm hc
        · exact m
      obtain ⟨mid, post, rfl, hm⟩ := ih this
      refine ⟨c :: mid, post, rfl, ?_⟩
      simp only [List.mem_cons, not_or]
      exact ⟨fun e => hc e.symm, hm⟩

/-! ### `position_to_index` on the decomposed text -/

/-- a position on a line that is followed by a `'\n'`: the scan runs over exactly that line
(terminator included) -/
theorem positionToIndex_mid (len16 : Char → Nat) (pre line post : List Char)
    (hp : LineStart pre) (hl : '\n' ∉ line) (col : Nat) :
    positionToIndex len16 (pre ++ (line ++ ['\n']) ++ post) ⟨pre.count '\n', col⟩ =
      match scanLoop len16 col 0 0 (line ++ ['\n']) with
      | .inl k => .ok (pre.length + k)
      | .inr trav => if trav > 0 then .ok (pre.length + (line ++ ['\n']).length) else .ok pre.length := by
  unfold positionToIndex
  have hnl : nlIdx 0 (pre ++ (line ++ ['\n']) ++ post) =
      nlIdx 0 pre ++ (pre.length + (line ++ ['\n']).length) ::
        nlIdx (pre.length + (line ++ ['\n']).length) post := by
    rw [nlIdx_append, nlIdx_append, nlIdx_append, nlIdx_of_not_mem _ line hl]
    simp [nlIdx, Nat.add_assoc]
  have htake : (nlIdx 0 (pre ++ (line ++ ['\n']) ++ post)).take (pre.count '\n' + 1) =
      nlIdx 0 pre ++ [pre.length + (line ++ ['\n']).length] := by
    rw [hnl, List.take_append, nlIdx_length]
    simp [List.take_of_length_le, nlIdx_length]
  simp only [htake]
  simp only [List.getLast?_append, List.getLast?_singleton, List.dropLast_concat,
    Option.some_or, Option.getD_some, nlIdx_last_of_lineStart pre hp, slice_mid]
  rfl

/-- a text without `'\n'`: whatever the line number, the scan runs over the whole text -/
theorem positionToIndex_noNewline (len16 : Char → Nat) (src : List Char) (h : '\n' ∉ src)
    (line col : Nat) :
    positionToIndex len16 src ⟨line, col⟩ =
      match scanLoop len16 col 0 0 src with
      | .inl k => .ok (0 + k)
      | .inr trav => if trav > 0 then .ok src.length else .ok 0 := by
  unfold positionToIndex
  have hs : slice src 0 src.length = .ok src := by simpa using slice_zero src []
  simp only [nlIdx_of_not_mem 0 src h, List.take_nil, List.getLast?_nil, List.dropLast_nil,
    Option.getD_none, hs]
  rfl

/-- the scan stops exactly after `tail` when asked for `tail`'s width and something follows -/
theorem scanLoop_prefix (len16 : Char → Nat) (h16 : ∀ c, 1 ≤ len16 c) (tail : List Char)
    (x : Char) (more : List Char) (t0 k : Nat) :
    scanLoop len16 (t0 + sum16 len16 tail) t0 k (tail ++ x :: more) = .inl (k + tail.length) := by
  induction tail generalizing t0 k with
  | nil => simp [scanLoop, sum16]
  | cons c cs ih =>
    have := h16 c
    have hne : ¬ t0 = t0 + sum16 len16 (c :: cs) := by simp only [sum16]; omega
    simp only [List.cons_append, scanLoop, if_neg hne]
    have e : t0 + sum16 len16 (c :: cs) = (t0 + len16 c) + sum16 len16 cs := by
      simp only [sum16]; omega
    rw [e, ih]
    simp only [List.length_cons]; congr 1; omega

/-- … and runs to the end when nothing follows -/
theorem scanLoop_all (len16 : Char → Nat) (h16 : ∀ c, 1 ≤ len16 c) (tail : List Char)
    (t0 k : Nat) :
    scanLoop len16 (t0 + sum16 len16 tail) t0 k tail =
      if tail = [] then .inr t0 else .inr (t0 + sum16 len16 tail) := by
  induction tail generalizing t0 k with
  | nil => simp [scanLoop]
  | cons c cs ih =>
    have := h16 c
    have hne : ¬ t0 = t0 + sum16 len16 (c :: cs) := by simp only [sum16]; omega
    simp only [scanLoop, if_neg hne]
    have e : t0 + sum16 len16 (c :: cs) = (t0 + len16 c) + sum16 len16 cs := by
      simp only [sum16]; omega
    rw [e, ih]
    by_cases hcs : cs = []
    · subst hcs; simp [sum16]
    · simp [hcs]

theorem sum16_pos (len16 : Char → Nat) (h16 : ∀ c, 1 ≤ len16 c) (xs : List Char) (hx : xs ≠ []) :
    0 < sum16 len16 xs := by
  cases xs with
  | nil => exact absurd rfl hx
  | cons c cs => have := h16 c; simp only [sum16]; omega

theorem scanLoop_prefix' (len16 : Char → Nat) (h16 : ∀ c, 1 ≤ len16 c) (tail ys : List Char)
    (hy : ys ≠ []) (t0 k : Nat) :
    scanLoop len16 (t0 + sum16 len16 tail) t0 k (tail ++ ys) = .inl (k + tail.length) := by
  cases ys with
  | nil => exact absurd rfl hy
  | cons x more => exact scanLoop_prefix len16 h16 tail x more t0 k

theorem take_pre_tail (pre tail rest : List Char) :
    (pre ++ tail ++ rest).take (pre.length + tail.length) = pre ++ tail := by
  rw [← List.length_append]; exact List.take_left' rfl

theorem drop_pre_tail (pre tail rest : List Char) :
    (pre ++ tail ++ rest).drop (pre.length + tail.length) = rest := by
  rw [← List.length_append]; exact List.drop_left' rfl

/-- the view of a text around an index -/
theorem decomp_at (src : List Char) (i : Nat) (hi : i ≤ src.length) :
    ∃ pre tail rest, src = pre ++ tail ++ rest ∧ i = pre.length + tail.length ∧
      LineStart pre ∧ '\n' ∉ tail := by
  obtain ⟨pre, tail, h, hp, ht⟩ := split_last_nl (src.take i)
  refine ⟨pre, tail, src.drop i, ?_, ?_, hp, ht⟩
  · rw [← h, List.take_append_drop]
  · have := congrArg List.length h
    simp only [List.length_take, List.length_append] at this
    omega

theorem lineStart_no_nl (pre : List Char) (hp : LineStart pre) (h : '\n' ∉ pre) : pre = [] := by
  rcases hp with rfl | hp
  · rfl
  · exact absurd (List.mem_of_getLast? hp) h

theorem count_nl_zero (xs : List Char) (h : '\n' ∉ xs) : xs.count '\n' = 0 :=
  List.count_eq_zero.mpr h

theorem lineOf_decomp (pre tail rest : List Char) (ht : '\n' ∉ tail) :
    lineOf (pre ++ tail ++ rest) (pre.length + tail.length) = pre.count '\n' := by
  rw [lineOf, take_pre_tail, List.count_append, count_nl_zero tail ht, Nat.add_zero]

theorem newlines_decomp (pre tail rest : List Char) (ht : '\n' ∉ tail) :
    newlines (pre ++ tail ++ rest) = pre.count '\n' + rest.count '\n' := by
  rw [newlines, List.count_append, List.count_append, count_nl_zero tail ht, Nat.add_zero]

/-! ### The client on the decomposed text -/

theorem clientCol_zero (len16 : Char → Nat) (h16 : ∀ c, 1 ≤ len16 c) (xs : List Char) :
    clientCol len16 0 xs = 0 := by
  cases xs with
  | nil => rfl
  | cons c cs =>
    have := h16 c
    simp only [clientCol]
    split
    · rfl
    · rw [if_pos (by omega)]

theorem clientOffsetLC_zero (len16 : Char → Nat) (xs : List Char) (col : Nat) :
    clientOffsetLC len16 xs 0 col = clientCol len16 col xs := by
  cases xs <;> simp [clientOffsetLC, clientCol]

/-- inside a line without terminators the client advances exactly over `tail` -/
theorem clientCol_tail (len16 : Char → Nat) (h16 : ∀ c, 1 ≤ len16 c) (tail rest : List Char)
    (hn : '\n' ∉ tail) (hr : '\r' ∉ tail) :
    clientCol len16 (sum16 len16 tail) (tail ++ rest) = tail.length := by
  induction tail with
  | nil => simpa [sum16] using clientCol_zero len16 h16 rest
  | cons c cs ih =>
    have hc1 : c ≠ '\n' := fun e => hn (e ▸ List.mem_cons_self)
    have hc2 : c ≠ '\r' := fun e => hr (e ▸ List.mem_cons_self)
    have hn' : '\n' ∉ cs := fun m => hn (List.mem_cons_of_mem _ m)
    have hr' : '\r' ∉ cs := fun m => hr (List.mem_cons_of_mem _ m)
    have : ¬ (c = '\n' ∨ c = '\r') := by simp [hc1, hc2]
    simp only [List.cons_append, clientCol, sum16, if_neg this]
    rw [if_neg (by omega), Nat.add_sub_cancel_left, ih hn' hr', List.length_cons]
    omega

theorem NoLoneCR_tail (c : Char) (cs : List Char) (h : NoLoneCR (c :: cs)) : NoLoneCR cs := by
  intro j hj hc
  have := h (j + 1) (by simp; omega) (by simpa using hc)
  simpa using this

theorem NoLoneCR_head (cs : List Char) (h : NoLoneCR ('\r' :: cs)) : cs.head? = some '\n' := by
  have := h 0 (by simp) (by simp)
  simpa [List.head?_eq_getElem?] using this

/-- over complete lines in which every `'\r'` is followed by `'\n'`, the client's line count is the
number of `'\n'` -/
theorem clientOffsetLC_lines (len16 : Char → Nat) (pre rest : List Char) (col : Nat)
    (hp : LineStart pre) (hcr : NoLoneCR pre) :
    clientOffsetLC len16 (pre ++ rest) (pre.count '\n') col =
      pre.length + clientOffsetLC len16 rest 0 col := by
  induction pre with
  | nil => simp
  | cons c cs ih =>
    have hcr' := NoLoneCR_tail c cs hcr
    by_cases hcs : cs = []
    · subst hcs
      have hc : c = '\n' := by
        rcases hp with h | h
        · cases h
        · simpa using h
      subst hc
      simp [clientOffsetLC]
    · have hp' : LineStart cs := by
        rcases hp with h | h
        · cases h
        · exact Or.inr (by rwa [List.getLast?_cons_of_ne_nil hcs] at h)
      have hmem : '\n' ∈ cs := by
        rcases hp' with h | h
        · exact absurd h hcs
        · exact List.mem_of_getLast? h
      obtain ⟨m, hm⟩ : ∃ m, cs.count '\n' = m + 1 :=
        ⟨cs.count '\n' - 1, by have := List.count_pos_iff.mpr hmem; omega⟩
      have ih' := ih hp' hcr'
      rw [hm] at ih'
      by_cases hc : c = '\n'
      · subst hc
        simp only [List.cons_append, List.count_cons_self, hm, clientOffsetLC, if_true, ih',
          List.length_cons]
        omega
      · have hcount : (c :: cs).count '\n' = m + 1 := by
          rw [List.count_cons_of_ne hc, hm]
        have hcond : ¬ (c = '\r' ∧ (cs ++ rest).head? ≠ some '\n') := by
          rintro ⟨rfl, hh⟩
          apply hh
          have := NoLoneCR_head cs hcr
          cases cs with
          | nil => exact absurd rfl hcs
          | cons d ds => simpa using this
        simp only [List.cons_append, hcount, clientOffsetLC, if_neg hc, if_neg hcond, ih',
          List.length_cons]
        omega

theorem getElem?_pre_tail (pre tail : List Char) (j : Nat) :
    (pre ++ tail)[pre.length + j]? = tail[j]? := by
  rw [List.getElem?_append_right (by omega)]
  congr 1; omega

/-- complete lines of a text without lone `'\r'` have no lone `'\r'` themselves -/
theorem NoLoneCR_pre (pre tail : List Char) (hp : LineStart pre) (h : NoLoneCR (pre ++ tail)) :
    NoLoneCR pre := by
  intro j hj hc
  have h1 := h j (by simp; omega) (by rw [List.getElem?_append_left hj]; exact hc)
  by_cases hlt : j + 1 < pre.length
  · rwa [List.getElem?_append_left hlt] at h1
  · exfalso
    rcases hp with rfl | hp
    · simp at hj
    · rw [List.getLast?_eq_getElem?] at hp
      have : pre.length - 1 = j := by omega
      rw [this, hc] at hp
      exact absurd hp (by decide)

/-- … and the unfinished line before the index has no `'\r'` at all -/
theorem tail_no_cr (pre tail : List Char) (ht : '\n' ∉ tail) (h : NoLoneCR (pre ++ tail)) :
    '\r' ∉ tail := by
  intro hm
  obtain ⟨j, hj, hjc⟩ := List.getElem_of_mem hm
  have hc : (pre ++ tail)[pre.length + j]? = some '\r' := by
    rw [getElem?_pre_tail, List.getElem?_eq_getElem hj, hjc]
  have h1 := h (pre.length + j) (by simp; omega) hc
  rw [Nat.add_assoc, getElem?_pre_tail] at h1
  exact ht (List.mem_of_getElem? h1)

/-! ### `position_to_index` never panics; the last line -/

theorem nlIdx_bounds (k : Nat) (xs : List Char) : ∀ x ∈ nlIdx k xs, k < x ∧ x ≤ k + xs.length := by
  induction xs generalizing k with
  | nil => simp [nlIdx]
  | cons c cs ih =>
    intro x hx
    simp only [nlIdx] at hx
    have hrec : ∀ x ∈ nlIdx (k + 1) cs, k < x ∧ x ≤ k + (c :: cs).length := by
      intro x hx
      have := ih (k + 1) x hx
      simp only [List.length_cons]; omega
    split at hx
    · rcases List.mem_cons.mp hx with rfl | hx
      · simp only [List.length_cons]; omega
      · exact hrec x hx
    · exact hrec x hx

theorem nlIdx_pairwise (k : Nat) (xs : List Char) : (nlIdx k xs).Pairwise (· < ·) := by
  induction xs generalizing k with
  | nil => simp [nlIdx]
  | cons c cs ih =>
    simp only [nlIdx]
    split
    · refine List.pairwise_cons.mpr ⟨?_, ih (k + 1)⟩
      intro y hy
      exact (nlIdx_bounds (k + 1) cs y hy).1
    · exact ih (k + 1)

/-- the two `pop`s of an increasing list bounded by `n` are ordered and bounded -/
theorem two_pops_le (L : List Nat) (n : Nat) (hp : L.Pairwise (· < ·)) (hb : ∀ x ∈ L, x ≤ n) :
    L.dropLast.getLast?.getD 0 ≤ L.getLast?.getD n ∧ L.getLast?.getD n ≤ n := by
  rcases List.eq_nil_or_concat L with rfl | ⟨A, x, hL⟩
  · simp
  · rw [List.concat_eq_append] at hL
    subst hL
    have hx : x ≤ n := hb x (by simp)
    rcases List.eq_nil_or_concat A with rfl | ⟨B, y, hA⟩
    · simp [hx]
    · rw [List.concat_eq_append] at hA
      subst hA
      have hyx : y < x := (List.pairwise_append.mp hp).2.2 y (by simp) x (by simp)
      simp only [List.dropLast_concat, List.getLast?_append, List.getLast?_singleton,
        Option.some_or, Option.getD_some]
      omega

theorem scanLoop_inl_lt (len16 : Char → Nat) (col : Nat) (xs : List Char) (t k0 k : Nat)
    (h : scanLoop len16 col t k0 xs = .inl k) : k0 ≤ k ∧ k < k0 + xs.length := by
  induction xs generalizing t k0 with
  | nil => simp [scanLoop] at h
  | cons c cs ih =>
    simp only [scanLoop] at h
    split at h
    · cases h; simp
    · have := ih _ _ h
      simp only [List.length_cons]; omega

/-- a position at or beyond the last line of a multi-line text: the scan runs over the line
*before* the last one (`pre ++ line ++ "\n"` are the lines before the last, `last` the last) -/
theorem positionToIndex_lastline (len16 : Char → Nat) (pre line last : List Char)
    (hp : LineStart pre) (hl : '\n' ∉ line) (hlast : '\n' ∉ last) (l col : Nat)
    (hge : pre.count '\n' ≤ l) :
    positionToIndex len16 (pre ++ (line ++ ['\n']) ++ last) ⟨l, col⟩ =
      match scanLoop len16 col 0 0 (line ++ ['\n']) with
      | .inl k => .ok (pre.length + k)
      | .inr trav => if trav > 0 then .ok (pre.length + (line ++ ['\n']).length) else .ok pre.length := by
  unfold positionToIndex
  have hnl : nlIdx 0 (pre ++ (line ++ ['\n']) ++ last) =
      nlIdx 0 pre ++ [pre.length + (line ++ ['\n']).length] := by
    rw [nlIdx_append, nlIdx_append, nlIdx_append, nlIdx_of_not_mem _ line hl,
      nlIdx_of_not_mem _ last hlast]
    simp [nlIdx, Nat.add_assoc]
  have htake : (nlIdx 0 (pre ++ (line ++ ['\n']) ++ last)).take (l + 1) =
      nlIdx 0 pre ++ [pre.length + (line ++ ['\n']).length] := by
    rw [hnl]
    apply List.take_of_length_le
    simp only [List.length_append, nlIdx_length, List.length_singleton]; omega
  simp only [htake]
  simp only [List.getLast?_append, List.getLast?_singleton, List.dropLast_concat,
    Option.some_or, Option.getD_some, nlIdx_last_of_lineStart pre hp, slice_mid]
  rfl

/-! ### w26: the quick-fix edits of a whole code-action request

`generate_code_actions` (`document_state.rs`) = `range_to_span(..).with_len(1)` once, the `overlaps_with` filter, then
`flat_map(lint_to_code_actions)`; `lint_to_code_actions` (`diagnostics.rs`) builds one `TextEdit` per suggestion
(`Model.editOf`, in the order of `lint.suggestions`). The two definitions below only COMPOSE the model's `rangeToSpan`,
`Span.overlapsWith`, `Span.withLen` and `editOf` in that order (no driver op of its own: `selects` and `editOf` are the
driven pieces); the commands appended after the edits (`HarperIgnoreLint`, dictionary commands, `Open URL`) carry no range
and are left out. -/

/-- the `TextEdit`s of `lint_to_code_actions` for one lint (`span`, `suggestions`), in order; a panic of any
`span_to_range` / `get_content_string` is a panic of the whole call -/
def lintEdits (len16 : Char → Nat) (src : List Char) (sp : Span) : List Sugg → Except Panic (List TextEdit)
  | [] => .ok []
  | s :: ss =>
    match editOf len16 src s sp with
    | .error e => .error e
    | .ok e =>
      match lintEdits len16 src sp ss with
      | .error e => .error e
      | .ok es => .ok (e :: es)

/-- `.flat_map(|lint| lint_to_code_actions(..))` over the lints that passed the filter -/
def flatEdits (len16 : Char → Nat) (src : List Char) : List (Span × List Sugg) → Except Panic (List TextEdit)
  | [] => .ok []
  | l :: ls =>
    match lintEdits len16 src l.1 l.2 with
    | .error e => .error e
    | .ok es =>
      match flatEdits len16 src ls with
      | .error e => .error e
      | .ok rest => .ok (es ++ rest)

/-- the quick-fix edits `generate_code_actions` answers a request with, for the lints `lints` of the document -/
def codeActionEdits (len16 : Char → Nat) (src : List Char) (request : Range) (lints : List (Span × List Sugg)) :
    Except Panic (List TextEdit) :=
  match rangeToSpan len16 src request with
  | .error e => .error e
  | .ok sp => flatEdits len16 src (lints.filter fun l => l.1.overlapsWith (sp.withLen 1))

/-- if every suggestion's `editOf` succeeds (with value `f s`), `lintEdits` is the list of those edits in order -/
theorem lintEdits_ok (len16 : Char → Nat) (src : List Char) (sp : Span) (f : Sugg → TextEdit) (suggs : List Sugg)
    (h : ∀ s ∈ suggs, editOf len16 src s sp = .ok (f s)) :
    lintEdits len16 src sp suggs = .ok (suggs.map f) := by
  induction suggs with
  | nil => rfl
  | cons s ss ih =>
    have he := h s (by simp)
    have hes := ih (fun s' hs' => h s' (by simp [hs']))
    simp [lintEdits, he, hes]

/-- if every suggestion of every lint gets its edit (`f span s`), `flatEdits` is their concatenation in lint order -/
theorem flatEdits_ok (len16 : Char → Nat) (src : List Char) (f : Span → Sugg → TextEdit) (ls : List (Span × List Sugg))
    (h : ∀ l ∈ ls, ∀ s ∈ l.2, editOf len16 src s l.1 = .ok (f l.1 s)) :
    flatEdits len16 src ls = .ok (ls.flatMap fun l => l.2.map (f l.1)) := by
  induction ls with
  | nil => rfl
  | cons l ls ih =>
    have hes := lintEdits_ok len16 src l.1 (f l.1) l.2 (h l (by simp))
    have hrest := ih (fun l' hl' => h l' (by simp [hl']))
    simp [flatEdits, hes, hrest]

/-- the edit of a suggestion when `editOf` succeeds (a total reading of `editOf`, used only to NAME the edits in
statements; where `editOf` panics the value is irrelevant) -/
def editOr (len16 : Char → Nat) (src : List Char) (sp : Span) (s : Sugg) : TextEdit :=
  match editOf len16 src s sp with
  | .ok e => e
  | .error _ => default

theorem editOr_of_ok {len16 : Char → Nat} {src : List Char} {sp : Span} {s : Sugg} {e : TextEdit}
    (h : editOf len16 src s sp = .ok e) : editOr len16 src sp s = e := by
  simp [editOr, h]

end Harper.PosConv
