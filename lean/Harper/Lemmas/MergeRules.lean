import Harper.Model.MergeRules
import Harper.Lemmas.PatternRules
/-!
# `merge_linters!`: `collect ++ remove_overlaps` over several local children

1. `remove_overlaps` on `RuleLint`s without indices: `removeOverlapsRL ls = sweepRL 0 (isortRL ls)` — the stable insertion sort
   by `(start, longest first)` and the sweep, directly on the lints (`removeOverlapsRL` itself tags every lint with its
   position, runs `Harper.removeOverlaps` = sort + `sweepIdx` + `remove_indices` as coded, and looks the survivors up again).
2. **The interleaving lemma** (`removeOverlapsRL_split`, `removeOverlapsRL_interleave`, `…_interleave_shift`): when the candidates
   fall into two classes such that every lint of the first starts strictly before and ends at or before the start of every lint of
   the second, `remove_overlaps` of ANY interleaving of the two classes is `remove_overlaps` of the first class followed by
   `remove_overlaps` of the second — the stable sort sends every `a` before every `b` and keeps the order inside each class; the
   sweep's running end never reaches from the `a` side into the `b` side. STRICTLY before: a zero-width lint of the first class AT
   the boundary sorts after a longer lint of the second class that starts there (longest first) and is then swallowed by it
   (`Props/C12f.lean` has the witness).
3. `mergeLinters_join`: if every child `r` satisfies `r(whole) = joinE k (r(left)) (r(right))` and reports on the left part only
   lints that start before `k` and end at or before it, then the merged rule does too — up to WHICH panic is reported when
   several children panic (the whole runs child 1 on both parts before child 2; the parts run all children on the left first).
4. `FineE env r`: what the generic theorems need of a child when its own computations are total only for the dictionary at hand
   (`DictOK env`: `get_merged_word`'s `unwrap`) or only on what the pattern matched (ShouldContract's `panic!`); `Fine r → FineE env r`.
5. The nine children are `FineE`.
-/
namespace Harper.MergeRules
open Harper Harper.Chunks Harper.Rules Harper.Leaves Harper.PatternRules

/-! ## 1. `remove_overlaps` on the lints themselves -/

/-- the sort key order `(start, !0 - end)` on `RuleLint`s -/
def leRL (a b : RuleLint) : Bool :=
  a.span.start < b.span.start || (a.span.start == b.span.start && b.span.stop ≤ a.span.stop)

def insertSortedRL (x : RuleLint) : List RuleLint → List RuleLint
  | [] => [x]
  | y :: ys => if leRL x y then x :: y :: ys else y :: insertSortedRL x ys

def isortRL : List RuleLint → List RuleLint
  | [] => []
  | x :: xs => insertSortedRL x (isortRL xs)

/-- the sweep: what is kept -/
def sweepRL (cur : Nat) : List RuleLint → List RuleLint
  | [] => []
  | l :: ls => if l.span.start < cur then sweepRL cur ls else l :: sweepRL l.span.stop ls

/-- `u` finds, for every tagged lint of `T`, a `RuleLint` with the same span -/
def Untags (u : Lint → Option RuleLint) (T : List Lint) : Prop :=
  ∀ l ∈ T, ∃ c, u l = some c ∧ c.span.start = l.s ∧ c.span.stop = l.e

theorem le_of_untag {u : Lint → Option RuleLint} {x y : Lint} {cx cy : RuleLint}
    (hx : u x = some cx ∧ cx.span.start = x.s ∧ cx.span.stop = x.e) (hy : u y = some cy ∧ cy.span.start = y.s ∧ cy.span.stop = y.e) :
    leRL cx cy = Lint.le x y := by
  simp only [leRL, Lint.le, hx.2.1, hx.2.2, hy.2.1, hy.2.2]

theorem insertSorted_filterMap (u : Lint → Option RuleLint) (x : Lint) (cx : RuleLint)
    (hx : u x = some cx ∧ cx.span.start = x.s ∧ cx.span.stop = x.e) :
    ∀ ys : List Lint, Untags u ys → (insertSorted x ys).filterMap u = insertSortedRL cx (ys.filterMap u)
  | [], _ => by simp [insertSorted, insertSortedRL, hx.1]
  | y :: ys, h => by
    obtain ⟨cy, hy⟩ := h y (by simp)
    have ih := insertSorted_filterMap u x cx hx ys (fun l hl => h l (List.mem_cons_of_mem _ hl))
    simp only [insertSorted, List.filterMap_cons, hy.1, insertSortedRL, le_of_untag hx hy]
    split
    · simp only [List.filterMap_cons, hx.1, hy.1]
    · simp only [List.filterMap_cons, hy.1, ih]

theorem isort_filterMap (u : Lint → Option RuleLint) : ∀ T : List Lint, Untags u T → (isort T).filterMap u = isortRL (T.filterMap u)
  | [], _ => rfl
  | x :: xs, h => by
    obtain ⟨cx, hx⟩ := h x (by simp)
    have hxs : Untags u xs := fun l hl => h l (List.mem_cons_of_mem _ hl)
    have hs : Untags u (isort xs) := fun l hl => hxs l ((isort_perm xs).mem_iff.mp hl)
    simp only [isort, List.filterMap_cons, hx.1, isortRL]
    rw [insertSorted_filterMap u x cx hx _ hs, isort_filterMap u xs hxs]

theorem sweep_filterMap (u : Lint → Option RuleLint) : ∀ (T : List Lint), Untags u T → ∀ cur,
    (sweep cur T).1.filterMap u = sweepRL cur (T.filterMap u)
  | [], _, _ => rfl
  | x :: xs, h, cur => by
    obtain ⟨cx, hx⟩ := h x (by simp)
    have hxs : Untags u xs := fun l hl => h l (List.mem_cons_of_mem _ hl)
    simp only [sweep, List.filterMap_cons, hx.1, sweepRL, hx.2.1, hx.2.2]
    split
    · exact sweep_filterMap u xs hxs cur
    · simp only [List.filterMap_cons, hx.1, sweep_filterMap u xs hxs x.e]

theorem tagLints_filterMap (pre : List RuleLint) : ∀ (ls : List RuleLint) (i : Nat), i = pre.length →
    ∀ post, (tagLints i ls).filterMap (fun l => (pre ++ ls ++ post)[l.id]?) = ls := by
  intro ls
  induction ls generalizing pre with
  | nil => intro i _ post; rfl
  | cons c ls ih =>
    intro i hi post
    simp only [tagLints, List.filterMap_cons]
    have e : (pre ++ c :: ls ++ post)[i]? = some c := by
      rw [List.append_assoc, List.getElem?_append_right (by omega)]
      simp [hi]
    simp only [e]
    have := ih (pre ++ [c]) (i + 1) (by simp [hi]) post
    simp only [List.append_assoc, List.singleton_append] at this
    simp only [List.append_assoc, List.cons_append] at *
    rw [this]

/-- **`remove_overlaps` on rule lints is: stable sort by (start, longest first), then the sweep** -/
theorem removeOverlapsRL_eq_sweepRL (ls : List RuleLint) : removeOverlapsRL ls = sweepRL 0 (isortRL ls) := by
  have hu : Untags (fun l => ls[l.id]?) (tagLints 0 ls) := by
    intro l hl
    obtain ⟨_, _, c, hc, h1, h2⟩ := tagLints_mem 0 ls l hl
    exact ⟨c, by simpa using hc, h1, h2⟩
  have hs : Untags (fun l => ls[l.id]?) (isort (tagLints 0 ls)) := fun l hl => hu l ((isort_perm _).mem_iff.mp hl)
  unfold removeOverlapsRL
  rw [removeOverlaps_eq_sweep, sweep_filterMap _ _ hs, isort_filterMap _ _ hu]
  have := tagLints_filterMap [] ls 0 rfl []
  simp only [List.nil_append, List.append_nil] at this
  rw [this]

/-! ## 2. the interleaving lemma -/

theorem insertSortedRL_perm (x : RuleLint) (ys : List RuleLint) : (insertSortedRL x ys).Perm (x :: ys) := by
  induction ys with
  | nil => simp [insertSortedRL]
  | cons y ys ih =>
    unfold insertSortedRL; split
    · exact List.Perm.refl _
    · exact (List.Perm.cons y ih).trans (List.Perm.swap x y ys)

theorem isortRL_perm (ls : List RuleLint) : (isortRL ls).Perm ls := by
  induction ls with
  | nil => simp [isortRL]
  | cons x xs ih => exact (insertSortedRL_perm x (isortRL xs)).trans (List.Perm.cons x ih)

/-- `a` sorts before everything in `Y`: it is inserted into the part before `Y` -/
theorem insertSortedRL_append_left (a : RuleLint) (X Y : List RuleLint) (h : ∀ y ∈ Y, leRL a y = true) :
    insertSortedRL a (X ++ Y) = insertSortedRL a X ++ Y := by
  induction X with
  | nil =>
    cases Y with
    | nil => rfl
    | cons y Y => simp [insertSortedRL, h y (by simp)]
  | cons x X ih =>
    simp only [List.cons_append, insertSortedRL]
    split
    · rfl
    · rw [ih]; rfl

/-- `b` sorts after everything in `X` (strictly: not even an equal key): it travels through `X` -/
theorem insertSortedRL_append_right (b : RuleLint) (X Y : List RuleLint) (h : ∀ x ∈ X, leRL b x = false) :
    insertSortedRL b (X ++ Y) = X ++ insertSortedRL b Y := by
  induction X with
  | nil => rfl
  | cons x X ih =>
    simp only [List.cons_append, insertSortedRL, h x (by simp)]
    rw [ih (fun z hz => h z (List.mem_cons_of_mem _ hz))]
    rfl

/-- the stable sort of any interleaving of two classes, the first strictly before the second, is the sorted first class
followed by the sorted second class -/
theorem isortRL_split (p : RuleLint → Bool) : ∀ (L : List RuleLint),
    (∀ a ∈ L, ∀ b ∈ L, p a = true → p b = false → a.span.start < b.span.start) →
    isortRL L = isortRL (L.filter p) ++ isortRL (L.filter fun x => !p x)
  | [], _ => rfl
  | x :: xs, h => by
    have ih := isortRL_split p xs (fun a ha b hb => h a (List.mem_cons_of_mem _ ha) b (List.mem_cons_of_mem _ hb))
    simp only [isortRL, ih]
    cases hp : p x with
    | true =>
      simp only [List.filter_cons, hp, Bool.not_true, if_true, isortRL]
      rw [insertSortedRL_append_left]
      · rfl
      · intro y hy
        have hy' := List.mem_filter.mp ((isortRL_perm _).mem_iff.mp hy)
        have := h x (by simp) y (List.mem_cons_of_mem _ hy'.1) hp (by simpa using hy'.2)
        simp only [leRL, Bool.or_eq_true, decide_eq_true_eq]
        exact Or.inl this
    | false =>
      simp only [List.filter_cons, hp, Bool.not_false, if_true, isortRL]
      rw [insertSortedRL_append_right]
      · rfl
      · intro a ha
        have ha' := List.mem_filter.mp ((isortRL_perm _).mem_iff.mp ha)
        have := h a (List.mem_cons_of_mem _ ha'.1) x (by simp) ha'.2 hp
        simp only [leRL, Bool.or_eq_false_iff, decide_eq_false_iff_not, Bool.and_eq_false_imp, beq_iff_eq]
        exact ⟨by omega, fun he => by omega⟩

theorem sweepRL_cur (Y : List RuleLint) (cur : Nat) (h : ∀ y ∈ Y, cur ≤ y.span.start) : sweepRL cur Y = sweepRL 0 Y := by
  cases Y with
  | nil => rfl
  | cons y Y =>
    have := h y (by simp)
    simp only [sweepRL]
    rw [if_neg (by omega), if_neg (by omega)]

/-- the sweep over a list whose first part ends before its second part starts: the running end never reaches across -/
theorem sweepRL_append_sep (X Y : List RuleLint) (h : ∀ x ∈ X, ∀ y ∈ Y, x.span.stop ≤ y.span.start) :
    ∀ cur, (∀ y ∈ Y, cur ≤ y.span.start) → sweepRL cur (X ++ Y) = sweepRL cur X ++ sweepRL 0 Y := by
  induction X with
  | nil => intro cur hc; exact sweepRL_cur Y cur hc
  | cons x X ih =>
    intro cur hc
    have ih' := ih (fun z hz => h z (List.mem_cons_of_mem _ hz))
    simp only [List.cons_append, sweepRL]
    split
    · exact ih' cur hc
    · simp only [List.cons_append, List.cons.injEq, true_and]
      exact ih' x.span.stop (h x (by simp))

/-- **the interleaving lemma.** `L` = any interleaving of the lints with `p` and the lints without; every lint with `p` starts
strictly before, and ends at or before, the start of every lint without. Then `remove_overlaps` treats the two classes apart. -/
theorem removeOverlapsRL_split (p : RuleLint → Bool) (L : List RuleLint)
    (h : ∀ a ∈ L, ∀ b ∈ L, p a = true → p b = false → a.span.start < b.span.start ∧ a.span.stop ≤ b.span.start) :
    removeOverlapsRL L = removeOverlapsRL (L.filter p) ++ removeOverlapsRL (L.filter fun x => !p x) := by
  simp only [removeOverlapsRL_eq_sweepRL]
  rw [isortRL_split p L (fun a ha b hb ha' hb' => (h a ha b hb ha' hb').1)]
  apply sweepRL_append_sep
  · intro x hx y hy
    have hx' := List.mem_filter.mp ((isortRL_perm _).mem_iff.mp hx)
    have hy' := List.mem_filter.mp ((isortRL_perm _).mem_iff.mp hy)
    exact (h x hx'.1 y hy'.1 hx'.2 (by simpa using hy'.2)).2
  · intro y _; exact Nat.zero_le _

/-- the lints of child `i` on the left part (`p.1`) and on the right part (`p.2`), child after child -/
def interleave (ps : List (List RuleLint × List RuleLint)) : List RuleLint := ps.flatMap fun p => p.1 ++ p.2

theorem filter_interleave (q : RuleLint → Bool) : ∀ (ps : List (List RuleLint × List RuleLint)),
    (∀ p ∈ ps, ∀ a ∈ p.1, q a = true) → (∀ p ∈ ps, ∀ b ∈ p.2, q b = false) →
    (interleave ps).filter q = ps.flatMap (·.1) ∧ (interleave ps).filter (fun x => !q x) = ps.flatMap (·.2)
  | [], _, _ => ⟨rfl, rfl⟩
  | p :: ps, hA, hB => by
    have ih := filter_interleave q ps (fun r hr => hA r (List.mem_cons_of_mem _ hr)) (fun r hr => hB r (List.mem_cons_of_mem _ hr))
    have h1 : p.1.filter q = p.1 := List.filter_eq_self.mpr (hA p (by simp))
    have h2 : p.2.filter q = [] := List.filter_eq_nil_iff.mpr (fun b hb => by simp [hB p (by simp) b hb])
    have h3 : p.1.filter (fun x => !q x) = [] := List.filter_eq_nil_iff.mpr (fun a ha => by simp [hA p (by simp) a ha])
    have h4 : p.2.filter (fun x => !q x) = p.2 := List.filter_eq_self.mpr (fun b hb => by simp [hB p (by simp) b hb])
    simp only [interleave, List.flatMap_cons, List.filter_append, h1, h2, h3, h4, List.append_nil, List.nil_append] at ih ⊢
    exact ⟨by rw [ih.1], by rw [ih.2]⟩

/-- **`remove_overlaps (a₁ ++ b₁ ++ … ++ aₙ ++ bₙ) = remove_overlaps (a₁ ++ … ++ aₙ) ++ remove_overlaps (b₁ ++ … ++ bₙ)`** when every
`a` starts before `k` and ends at or before it, and every `b` starts at or after `k` -/
theorem removeOverlapsRL_interleave (k : Nat) (ps : List (List RuleLint × List RuleLint))
    (hA : ∀ p ∈ ps, ∀ a ∈ p.1, a.span.start < k ∧ a.span.stop ≤ k) (hB : ∀ p ∈ ps, ∀ b ∈ p.2, k ≤ b.span.start) :
    removeOverlapsRL (interleave ps) = removeOverlapsRL (ps.flatMap (·.1)) ++ removeOverlapsRL (ps.flatMap (·.2)) := by
  have hf := filter_interleave (fun l => decide (l.span.start < k)) ps
    (fun p hp a ha => by simpa using (hA p hp a ha).1) (fun p hp b hb => by have := hB p hp b hb; simp; omega)
  rw [removeOverlapsRL_split (fun l => decide (l.span.start < k)) (interleave ps), hf.1, hf.2]
  intro a ha b hb pa pb
  simp only [decide_eq_true_eq, decide_eq_false_iff_not] at pa pb
  -- `a` is one of the left lints (it starts before `k`), `b` one of the right ones
  simp only [interleave, List.mem_flatMap, List.mem_append] at ha hb
  obtain ⟨p, hp, ha⟩ := ha
  obtain ⟨q, hq, hb⟩ := hb
  have hae : a.span.stop ≤ k := by
    rcases ha with ha | ha
    · exact (hA p hp a ha).2
    · have := hB p hp a ha; omega
  omega

theorem flatMap_shiftRLs (k : Nat) (ps : List (List RuleLint × List RuleLint)) :
    (ps.map fun p => (p.1, shiftRLs k p.2)).flatMap (·.2) = shiftRLs k (ps.flatMap (·.2)) := by
  induction ps with
  | nil => rfl
  | cons p ps ih => simp only [List.map_cons, List.flatMap_cons, ih, shiftRLs_append]

theorem flatMap_fst_map (k : Nat) (ps : List (List RuleLint × List RuleLint)) :
    (ps.map fun p => (p.1, shiftRLs k p.2)).flatMap (·.1) = ps.flatMap (·.1) := by
  induction ps with
  | nil => rfl
  | cons p ps ih => simp only [List.map_cons, List.flatMap_cons, ih]

theorem removeOverlapsRL_shift (k : Nat) (B : List RuleLint) : removeOverlapsRL (shiftRLs k B) = shiftRLs k (removeOverlapsRL B) := by
  have := removeOverlapsRL_append k [] B (by intro a ha; cases ha)
  simpa [removeOverlapsRL, tagLints, removeOverlaps, isort] using this

/-- the form `merge_linters!` needs: the right-hand lints are those of the second text moved by `k` -/
theorem removeOverlapsRL_interleave_shift (k : Nat) (ps : List (List RuleLint × List RuleLint))
    (hA : ∀ p ∈ ps, ∀ a ∈ p.1, a.span.start < k ∧ a.span.stop ≤ k) :
    removeOverlapsRL (ps.flatMap fun p => p.1 ++ shiftRLs k p.2) =
      removeOverlapsRL (ps.flatMap (·.1)) ++ shiftRLs k (removeOverlapsRL (ps.flatMap (·.2))) := by
  have e : (ps.flatMap fun p => p.1 ++ shiftRLs k p.2) = interleave (ps.map fun p => (p.1, shiftRLs k p.2)) := by
    simp only [interleave, List.flatMap_map]
  rw [e, removeOverlapsRL_interleave k, flatMap_fst_map, flatMap_shiftRLs, removeOverlapsRL_shift]
  · intro p hp a ha
    obtain ⟨q, hq, rfl⟩ := List.mem_map.mp hp
    exact hA q hq a ha
  · intro p hp b hb
    obtain ⟨q, hq, rfl⟩ := List.mem_map.mp hp
    simp only [shiftRLs, List.mem_map] at hb
    obtain ⟨b0, _, rfl⟩ := hb
    simp [shiftRL]

/-! ## 3. `merge_linters!` over two joined texts -/

/-- equal — or both panic (possibly with a different panic) -/
def SameOrBothPanic {α} (x y : Except Panic α) : Prop := x = y ∨ ∃ e e', x = .error e ∧ y = .error e'

theorem SameOrBothPanic.rfl' {α} (x : Except Panic α) : SameOrBothPanic x x := Or.inl rfl

theorem SameOrBothPanic.eq_of_ok {α} {x y : Except Panic α} (h : SameOrBothPanic x y) {b : α} (hy : y = .ok b) : x = .ok b := by
  rcases h with h | ⟨e, e', _, h2⟩
  · rw [h, hy]
  · rw [hy] at h2; cases h2

/-- the candidates of the whole, child after child, when every child's run on the whole is the join of its runs on the parts:
if both parts return, the whole returns the interleaving; if a part panics, so does the whole -/
theorem collectE_interleave (k : Nat) (f g h : PieceRule → Except Panic (List RuleLint)) : ∀ (rs : List PieceRule),
    (∀ r ∈ rs, f r = joinE k (g r) (h r)) →
    (∀ A B, collectE g rs = .ok A → collectE h rs = .ok B →
      ∃ ps : List (List RuleLint × List RuleLint), collectE f rs = .ok (ps.flatMap fun p => p.1 ++ shiftRLs k p.2) ∧
        A = ps.flatMap (·.1) ∧ B = ps.flatMap (·.2) ∧ ∀ p ∈ ps, ∃ r ∈ rs, g r = .ok p.1) ∧
    ((∃ e, collectE g rs = .error e) ∨ (∃ e, collectE h rs = .error e) → ∃ e, collectE f rs = .error e)
  | [], _ => ⟨fun A B hA hB => ⟨[], rfl, by cases hA; rfl, by cases hB; rfl, by simp⟩, fun hx => by
      rcases hx with ⟨e, he⟩ | ⟨e, he⟩ <;> cases he⟩
  | r :: rs, hj => by
    have ih := collectE_interleave k f g h rs (fun x hx => hj x (List.mem_cons_of_mem _ hx))
    have hr := hj r (by simp)
    simp only [collectE, hr]
    cases hg : g r with
    | error e =>
      simp only [joinE]
      exact ⟨fun A B hA _ => (by cases hA), fun _ => ⟨e, rfl⟩⟩
    | ok a =>
      cases hh : h r with
      | error e =>
        simp only [joinE]
        exact ⟨fun A B _ hB => (by cases hB), fun _ => ⟨e, rfl⟩⟩
      | ok b =>
        simp only [joinE]
        cases hgs : collectE g rs with
        | error e =>
          obtain ⟨e', he'⟩ := ih.2 (Or.inl ⟨e, hgs⟩)
          simp only [he']
          exact ⟨fun A B hA _ => (by cases hA), fun _ => ⟨e', rfl⟩⟩
        | ok A' =>
          cases hhs : collectE h rs with
          | error e =>
            obtain ⟨e', he'⟩ := ih.2 (Or.inr ⟨e, hhs⟩)
            simp only [he']
            exact ⟨fun A B _ hB => (by cases hB), fun _ => ⟨e', rfl⟩⟩
          | ok B' =>
            obtain ⟨ps, e1, e2, e3, e4⟩ := ih.1 A' B' hgs hhs
            simp only [e1]
            refine ⟨fun A B hA hB => ?_, fun hx => (by rcases hx with ⟨e, he⟩ | ⟨e, he⟩ <;> cases he)⟩
            cases hA; cases hB
            refine ⟨(a, b) :: ps, by simp, by simp [e2], by simp [e3], ?_⟩
            intro p hp
            rcases List.mem_cons.mp hp with rfl | hp
            · exact ⟨r, by simp, hg⟩
            · obtain ⟨r', hr', hgr⟩ := e4 p hp
              exact ⟨r', List.mem_cons_of_mem _ hr', hgr⟩

/-- **`merge_linters!` on a joined text.** Every child satisfies `r(whole) = joinE k (r(left)) (r(right))` and reports on the left
part only lints that start before `k` and end at or before it. Then the merged rule on the whole returns its lints on the left
part followed by its lints on the right part moved by `k`; it panics iff it panics on one of the parts (which panic is reported
may differ: the whole runs the first child on BOTH parts before the second child runs at all). -/
theorem mergeLinters_join (k : Nat) (rs : List PieceRule) (srcW srcL srcR : List Char) (W L R : List Tok)
    (hj : ∀ r ∈ rs, r srcW W = joinE k (r srcL L) (r srcR R))
    (hl : ∀ r ∈ rs, ∀ ls, r srcL L = .ok ls → ∀ l ∈ ls, l.span.start < k ∧ l.span.stop ≤ k) :
    SameOrBothPanic (mergeLinters rs srcW W) (joinE k (mergeLinters rs srcL L) (mergeLinters rs srcR R)) := by
  have hc := collectE_interleave k (fun r => r srcW W) (fun r => r srcL L) (fun r => r srcR R) rs hj
  simp only [mergeLinters]
  cases hA : collectE (fun (r : PieceRule) => r srcL L) rs with
  | error e =>
    obtain ⟨e', he'⟩ := hc.2 (Or.inl ⟨e, hA⟩)
    exact Or.inr ⟨e', e, by simp [he', Except.map], by simp [Except.map, joinE]⟩
  | ok A =>
    cases hB : collectE (fun (r : PieceRule) => r srcR R) rs with
    | error e =>
      obtain ⟨e', he'⟩ := hc.2 (Or.inr ⟨e, hB⟩)
      exact Or.inr ⟨e', e, by simp [he', Except.map], by simp [Except.map, joinE]⟩
    | ok B =>
      obtain ⟨ps, e1, e2, e3, e4⟩ := hc.1 A B hA hB
      left
      simp only [e1, Except.map, joinE, e2, e3]
      rw [removeOverlapsRL_interleave_shift k ps]
      intro p hp a ha
      obtain ⟨r, hr, hgr⟩ := e4 p hp
      exact hl r hr p.1 hgr a ha

/-- when the parts return (e.g. total children), the statement is an equation -/
theorem mergeLinters_join_ok (k : Nat) (rs : List PieceRule) (srcW srcL srcR : List Char) (W L R : List Tok)
    (hj : ∀ r ∈ rs, r srcW W = joinE k (r srcL L) (r srcR R))
    (hl : ∀ r ∈ rs, ∀ ls, r srcL L = .ok ls → ∀ l ∈ ls, l.span.start < k ∧ l.span.stop ≤ k)
    (hokL : ∀ r ∈ rs, ∃ ls, r srcL L = .ok ls) (hokR : ∀ r ∈ rs, ∃ ls, r srcR R = .ok ls) :
    mergeLinters rs srcW W = joinE k (mergeLinters rs srcL L) (mergeLinters rs srcR R) := by
  rcases mergeLinters_join k rs srcW srcL srcR W L R hj hl with h | ⟨e, e', _, h2⟩
  · exact h
  · exfalso
    obtain ⟨a, ea, _⟩ := collectE_ok (fun _ => True) (fun (r : PieceRule) => r srcL L) rs
      (fun r hr => (hokL r hr).imp fun ls h => ⟨h, fun _ _ => trivial⟩)
    obtain ⟨b, eb, _⟩ := collectE_ok (fun _ => True) (fun (r : PieceRule) => r srcR R) rs
      (fun r hr => (hokR r hr).imp fun ls h => ⟨h, fun _ _ => trivial⟩)
    simp only [mergeLinters, ea, eb, Except.map, joinE] at h2
    cases h2

/-! ## 4. rules whose own computations are total only for the dictionary at hand, or only on what the pattern matched -/

/-- the two locality laws of `CustomGood`, without totality -/
structure CustomLoc (f : CustomFn) : Prop where
  shift : ∀ env (P D : List Char) (l : List Tok) (j : Nat), f env (P ++ D) (l.map (shTok P.length j)) = f env D l
  left : ∀ env (P D : List Char) (l : List Tok), InP P.length l → f env (P ++ D) l = f env P l

def StepLoc : Step → Prop
  | .custom _ f => CustomLoc f
  | _ => True

def SpecLoc (s : Spec) : Prop := (∀ x ∈ s.before, StepLoc x) ∧ (∀ x ∈ s.after, StepLoc x)

theorem stepLoc_of_good (x : Step) (h : x.Good) : StepLoc x := by
  cases x with
  | custom need f => exact ⟨(show CustomGood need f from h).shift, (show CustomGood need f from h).left⟩
  | _ => trivial

theorem specLoc_of_good (s : Spec) (h : s.Good) : SpecLoc s :=
  ⟨fun x hx => stepLoc_of_good x (h.1 x hx), fun x hx => stepLoc_of_good x (h.2 x hx)⟩

theorem stepLoc_of_noCustom (ss : List Step) (h : ss.all (fun s => !Step.isCustom s) = true) : ∀ x ∈ ss, StepLoc x :=
  fun x hx => stepLoc_of_good x (good_of_noCustom ss h x hx)

theorem Step.run_shiftL (env : Env) (P D : List Char) (l : List Tok) (j : Nat) (vars : List (List Char)) (s : Step) (hg : StepLoc s) :
    s.run env (P ++ D) (l.map (shTok P.length j)) vars = s.run env D l vars := by
  cases s with
  | custom need f => simp only [Step.run, (show CustomLoc f from hg).shift]
  | get i => exact Step.run_shift env P D l j vars _ trivial
  | numberAt i => exact Step.run_shift env P D l j vars _ trivial
  | bind t => exact Step.run_shift env P D l j vars _ trivial

theorem runSteps_shiftL (env : Env) (P D : List Char) (l : List Tok) (j : Nat) : ∀ (ss : List Step), (∀ s ∈ ss, StepLoc s) →
    ∀ vars, runSteps env (P ++ D) (l.map (shTok P.length j)) ss vars = runSteps env D l ss vars
  | [], _, _ => rfl
  | s :: ss, hg, vars => by
    simp only [runSteps, Step.run_shiftL env P D l j vars s (hg s (by simp))]
    cases s.run env D l vars with
    | error e => rfl
    | ok o =>
      cases o with
      | none => rfl
      | some v => exact runSteps_shiftL env P D l j ss (fun x hx => hg x (List.mem_cons_of_mem _ hx)) v

/-- `Spec.run_shift` under the locality laws alone -/
theorem Spec.run_shiftL (env : Env) (s : Spec) (hg : SpecLoc s) (P D : List Char) (l : List Tok) (j : Nat) :
    s.run env (P ++ D) (l.map (shTok P.length j)) = (s.run env D l).map (shiftRLs P.length) := by
  simp only [Spec.run, runSteps_shiftL env P D l j s.before hg.1, Sel.eval_shift, List.length_map, evalSuggs_shift,
    ArgSpec.eval_shift]
  cases runSteps env D l s.before [] with
  | error e => rfl
  | ok o =>
    cases o with
    | none => rfl
    | some vars =>
      simp only []
      cases s.span.eval l with
      | error e => rfl
      | ok o2 =>
        cases o2 with
        | none => rfl
        | some sp =>
          simp only [Except.map, Option.map_some, runSteps_shiftL env P D l j s.after hg.2]
          cases runSteps env D l s.after vars with
          | error e => rfl
          | ok o3 =>
            cases o3 with
            | none => rfl
            | some vars' =>
              simp only []
              cases evalSuggs env D l vars' (s.suggs l.length) with
              | error e => rfl
              | ok o4 =>
                cases o4 with
                | none => rfl
                | some sg =>
                  simp only []
                  cases s.arg.eval l with
                  | error e => rfl
                  | ok a => rfl

theorem Step.run_leftL (env : Env) (P D : List Char) (l : List Tok) (h : InP P.length l) (vars : List (List Char)) (s : Step) (hg : StepLoc s) :
    s.run env (P ++ D) l vars = s.run env P l vars := by
  cases s with
  | custom need f => simp only [Step.run, (show CustomLoc f from hg).left env P D l h]
  | get i => rfl
  | numberAt i => rfl
  | bind t => exact Step.run_left env P D l h vars _ trivial

theorem runSteps_leftL (env : Env) (P D : List Char) (l : List Tok) (h : InP P.length l) : ∀ (ss : List Step), (∀ s ∈ ss, StepLoc s) →
    ∀ vars, runSteps env (P ++ D) l ss vars = runSteps env P l ss vars
  | [], _, _ => rfl
  | s :: ss, hg, vars => by
    simp only [runSteps, Step.run_leftL env P D l h vars s (hg s (by simp))]
    cases s.run env P l vars with
    | error e => rfl
    | ok o =>
      cases o with
      | none => rfl
      | some v => exact runSteps_leftL env P D l h ss (fun x hx => hg x (List.mem_cons_of_mem _ hx)) v

/-- `Spec.run_left` under the locality laws alone -/
theorem Spec.run_leftL (env : Env) (s : Spec) (hg : SpecLoc s) (P D : List Char) (l : List Tok)
    (h : ∀ t ∈ l, tokOK t = true ∧ t.span.stop ≤ P.length) : s.run env (P ++ D) l = s.run env P l := by
  have hp : InP P.length l := fun t ht => ⟨Nat.le_of_lt (tokOK_nonempty (h t ht).1), (h t ht).2⟩
  simp only [Spec.run, runSteps_leftL env P D l hp s.before hg.1]
  cases runSteps env P l s.before [] with
  | error e => rfl
  | ok o =>
    cases o with
    | none => rfl
    | some vars =>
      simp only []
      cases s.span.eval l with
      | error e => rfl
      | ok o2 =>
        cases o2 with
        | none => rfl
        | some sp => simp only [runSteps_leftL env P D l hp s.after hg.2, evalSuggs_left env P D l hp]

/-- the rule's own computation returns on these tokens -/
def StepOk (env : Env) (src : List Char) (l : List Tok) : Step → Prop
  | .custom _ f => ∃ o, f env src l = .ok o
  | _ => True

theorem Step.run_okL (env : Env) (src : List Char) (l : List Tok) (h : InText src l) (vars : List (List Char)) (v : Nat) (s : Step)
    (hk : StepOk env src l s) (hf : s.Fits l.length v) : ∃ o, s.run env src l vars = .ok o := by
  cases s with
  | custom need f =>
    obtain ⟨o, eo⟩ := (show ∃ o, f env src l = .ok o from hk)
    simp only [Step.run, eo]
    cases o <;> exact ⟨_, rfl⟩
  | get i => exact Step.run_ok env src l h vars v _ trivial hf
  | numberAt i => exact Step.run_ok env src l h vars v _ trivial hf
  | bind t => exact Step.run_ok env src l h vars v _ trivial hf

theorem runSteps_okL (env : Env) (src : List Char) (l : List Tok) (h : InText src l) : ∀ (ss : List Step), (∀ s ∈ ss, StepOk env src l s) →
    ∀ (vars : List (List Char)) (K : Nat → Prop), StepsFit l.length ss vars.length K →
      ∃ o, runSteps env src l ss vars = .ok o ∧ ∀ vars', o = some vars' → K vars'.length
  | [], _, vars, K, hf => ⟨_, rfl, fun vars' e => by cases e; exact hf⟩
  | s :: ss, hg, vars, K, ⟨hf, k, hb, hr⟩ => by
    obtain ⟨o, eo⟩ := Step.run_okL env src l h vars vars.length s (hg s (by simp)) hf
    simp only [runSteps, eo]
    cases o with
    | none => exact ⟨_, rfl, fun _ e => by cases e⟩
    | some v =>
      have hl := Step.run_length env src l vars v s k hb eo
      exact runSteps_okL env src l h ss (fun x hx => hg x (List.mem_cons_of_mem _ hx)) v K (hl ▸ hr)

/-- `Spec.run_ok` when the own computations are known to return on these very tokens -/
theorem Spec.run_okL (env : Env) (s : Spec) (src : List Char) (l : List Tok) (h : InText src l) (hf : s.Fits l.length)
    (hk : (∀ x ∈ s.before, StepOk env src l x) ∧ (∀ x ∈ s.after, StepOk env src l x)) :
    ∃ ls, s.run env src l = .ok ls ∧ ∀ x ∈ ls, LintOK src.length x := by
  obtain ⟨o1, e1, k1⟩ := runSteps_okL env src l h s.before hk.1 [] _ hf.steps
  simp only [Spec.run, e1]
  cases o1 with
  | none => exact ⟨[], rfl, by simp⟩
  | some vars =>
    obtain ⟨o2, e2⟩ := Sel.eval_ok s.span l hf.span
    simp only [e2]
    cases o2 with
    | none => exact ⟨[], rfl, by simp⟩
    | some sp =>
      obtain ⟨o3, e3, k3⟩ := runSteps_okL env src l h s.after hk.2 vars _ (k1 vars rfl)
      simp only [e3]
      cases o3 with
      | none => exact ⟨[], rfl, by simp⟩
      | some vars' =>
        obtain ⟨o4, e4⟩ := evalSuggs_ok env src l h vars' vars'.length (s.suggs l.length) (k3 vars' rfl)
        simp only [e4]
        cases o4 with
        | none => exact ⟨[], rfl, by simp⟩
        | some sg =>
          obtain ⟨a, ea⟩ := ArgSpec.eval_ok l s.arg hf.arg
          simp only [ea]
          refine ⟨_, rfl, ?_⟩
          intro x hx
          simp only [List.mem_singleton] at hx
          subst hx
          exact Sel.eval_in s.span src.length l h sp e2

/-- what the generic theorems ask of a child, relative to the `Env` at hand: the tree's side conditions (`DictOK env` for a
`SplitCompoundWord`) on in-text tokens; tree and spec local; and `match_to_lint` returns an in-range lint on every real match -/
structure FineE (env : Env) (r : PRule) : Prop where
  side : r.pat.Side env InText
  loc : r.pat.Loc
  sloc : SpecLoc r.spec
  total : ∀ src full n, InText src full → r.pat.matcher env src full = .ok n → n ≠ 0 → n ≤ full.length →
    ∃ ls, r.spec.run env src (full.take n) = .ok ls ∧ ∀ x ∈ ls, LintOK src.length x

/-- every `Fine` rule is `FineE` for every `Env` -/
theorem FineE.of_fine (env : Env) (r : PRule) (hr : Fine r) : FineE env r where
  side := side_of_plain env _ _ hr.plain
  loc := hr.loc
  sloc := specLoc_of_good _ hr.good
  total := by
    intro src full n hfull hm hn hnl
    have hin : InText src (full.take n) := inText_hyp.sub src _ _ (List.take_sublist n full) hfull
    have hlen : (full.take n).length = n := by simp only [List.length_take]; omega
    have hfit : r.spec.Fits (full.take n).length := by
      rw [hlen]
      exact hr.fits n (matcher_lb env r.pat src full n hm hn) (fun k hk => matcher_ub env r.pat k hk src full n hm)
    obtain ⟨ls, e, hls⟩ := Spec.run_ok env r.spec hr.good src _ hin hfit
    exact ⟨ls, e, fun x hx => (hls x hx).1⟩

/-- how the children below are shown `FineE`: the index expressions fit every length the tree can match, and the own
computations return on every real match -/
theorem fineE_of (env : Env) (r : PRule) (side : r.pat.Side env InText) (loc : r.pat.Loc) (sloc : SpecLoc r.spec)
    (fits : ∀ n, r.pat.minLen ≤ n → (∀ k, r.pat.maxLen = some k → n ≤ k) → r.spec.Fits n)
    (stepok : ∀ src full n, InText src full → r.pat.matcher env src full = .ok n → n ≠ 0 → n ≤ full.length → r.pat.minLen ≤ n →
      (∀ x ∈ r.spec.before, StepOk env src (full.take n) x) ∧ (∀ x ∈ r.spec.after, StepOk env src (full.take n) x)) : FineE env r where
  side := side
  loc := loc
  sloc := sloc
  total := by
    intro src full n hfull hm hn hnl
    have hin : InText src (full.take n) := inText_hyp.sub src _ _ (List.take_sublist n full) hfull
    have hlen : (full.take n).length = n := by simp only [List.length_take]; omega
    have hmin := matcher_lb env r.pat src full n hm hn
    have hfit : r.spec.Fits (full.take n).length := by
      rw [hlen]
      exact fits n hmin (fun k hk => matcher_ub env r.pat k hk src full n hm)
    exact Spec.run_okL env r.spec src _ hin hfit (stepok src full n hfull hm hn hnl hmin)

/-- `run_on_chunk` of a `FineE` child on in-text tokens (any order, zero-width ones included): no panic, every lint in the text -/
theorem PRule.piece_okE (env : Env) (r : PRule) (hr : FineE env r) (src : List Char) (chunk : List Tok) (h : InText src chunk) :
    ∃ ls, r.piece env src chunk = .ok ls ∧ ∀ l ∈ ls, LintOK src.length l :=
  runOnChunkGo_okh' inText_hyp _ (matcher_okh inText_hyp env _ hr.side) _ src
    (fun full n hfull hm hn hnl => hr.total src full n hfull hm hn hnl) chunk h 0

/-- the child alone over a document: no panic, every lint in the text -/
theorem PRule.rule_okE (env : Env) (r : PRule) (hr : FineE env r) (src : List Char) (toks : List Tok) (h : InText src toks) :
    ∃ ls, r.rule env src toks = .ok ls ∧ ∀ l ∈ ls, LintOK src.length l :=
  overPieces_okh inText_hyp _ _ src toks h (fun piece hpc => PRule.piece_okE env r hr src piece hpc)

/-- `run_on_chunk` of a child whose tree and spec are local is chunk-local -/
theorem PRule.xlocalEL (env : Env) (r : PRule) (hloc : r.pat.Loc) (hs : SpecLoc r.spec) : XLocalE (r.piece env) where
  nil := fun _ => rfl
  left := by
    intro P D piece h
    exact runOnChunkGo_leftL _ (matcher_loc env _ hloc) _ P D (fun l hl => Spec.run_leftL env r.spec hs P D l hl) piece h 0
  right := by
    intro P D piece j _
    exact runOnChunkGo_rightL _ (matcher_loc env _ hloc) _ P D j (fun l => Spec.run_shiftL env r.spec hs P D l j) piece 0

/-! ### where a lint of a pattern rule lies: not beyond its tokens, and it starts where one of them starts or before -/

theorem Sel.eval_start (s : Sel) (l : List Tok) (sp : Span) (e : s.eval l = .ok (some sp)) : ∃ t ∈ l, sp.start ≤ t.span.start := by
  have hspan : ∀ sub : List Tok, (∀ t ∈ sub, t ∈ l) → spanOf sub = some sp → ∃ t ∈ l, sp.start ≤ t.span.start := by
    intro sub hsub hsp
    cases sub with
    | nil => cases hsp
    | cons t rest =>
      exact ⟨t, hsub t (by simp), (spanOf_covers _ sp hsp t (by simp)).1⟩
  cases s with
  | whole =>
    simp only [Sel.eval, Except.ok.injEq] at e
    exact hspan l (fun _ h => h) e
  | tok i =>
    simp only [Sel.eval] at e
    cases hi : l[i]? with
    | none => rw [hi] at e; cases e
    | some t =>
      rw [hi] at e
      simp only [Except.ok.injEq, Option.some.injEq] at e
      subst e
      exact ⟨t, List.mem_of_getElem? hi, Nat.le_refl _⟩
  | first =>
    simp only [Sel.eval, Except.ok.injEq] at e
    cases hh : l.head? with
    | none => rw [hh] at e; cases e
    | some t =>
      rw [hh] at e
      simp only [Option.map_some, Option.some.injEq] at e
      subst e
      exact ⟨t, mem_of_head? hh, Nat.le_refl _⟩
  | last =>
    simp only [Sel.eval, Except.ok.injEq] at e
    cases hh : l.getLast? with
    | none => rw [hh] at e; cases e
    | some t =>
      rw [hh] at e
      simp only [Option.map_some, Option.some.injEq] at e
      subst e
      exact ⟨t, List.mem_of_getLast? hh, Nat.le_refl _⟩
  | slice a b =>
    simp only [Sel.eval] at e
    cases hs : sliceE l a b with
    | error e' => rw [hs] at e; cases e
    | ok sub =>
      rw [hs] at e
      simp only [Except.ok.injEq] at e
      have hsub : ∀ t ∈ sub, t ∈ l := by
        simp only [sliceE] at hs
        split at hs
        · cases hs
        · cases hs; exact fun t ht => List.mem_of_mem_drop (List.mem_of_mem_take ht)
      exact hspan sub hsub e
  | fromEnd k =>
    simp only [Sel.eval] at e
    split at e
    · cases e
    · cases hi : l[l.length - k]? with
      | none => rw [hi] at e; cases e
      | some t =>
        rw [hi] at e
        simp only [Except.ok.injEq, Option.some.injEq] at e
        subst e
        exact ⟨t, List.mem_of_getElem? hi, Nat.le_refl _⟩
  | drop a =>
    simp only [Sel.eval] at e
    cases hs : sliceE l a l.length with
    | error e' => rw [hs] at e; cases e
    | ok sub =>
      rw [hs] at e
      simp only [Except.ok.injEq] at e
      have hsub : ∀ t ∈ sub, t ∈ l := by
        simp only [sliceE] at hs
        split at hs
        · cases hs
        · cases hs; exact fun t ht => List.mem_of_mem_drop (List.mem_of_mem_take ht)
      exact hspan sub hsub e

/-- every lint of `run_on_chunk` comes from `match_to_lint` on some tokens of the chunk -/
theorem runOnChunkGo_mem (m : Matcher) (f : List Char → List Tok → Except Panic (List RuleLint)) (src : List Char) :
    ∀ (ts : List Tok) (skip : Nat) (ls : List RuleLint), runOnChunkGo m f src skip ts = .ok ls → ∀ x ∈ ls,
      ∃ sub a, (∀ t ∈ sub, t ∈ ts) ∧ f src sub = .ok a ∧ x ∈ a
  | [], skip, ls, h, x, hx => by
    cases skip <;> (simp only [runOnChunkGo] at h; cases h; cases hx)
  | t :: ts, skip + 1, ls, h, x, hx => by
    simp only [runOnChunkGo] at h
    obtain ⟨sub, a, h1, h2, h3⟩ := runOnChunkGo_mem m f src ts skip ls h x hx
    exact ⟨sub, a, fun u hu => List.mem_cons_of_mem _ (h1 u hu), h2, h3⟩
  | t :: ts, 0, ls, h, x, hx => by
    simp only [runOnChunkGo] at h
    cases hm : m src (t :: ts) with
    | error e => rw [hm] at h; cases h
    | ok n =>
      rw [hm] at h
      simp only [] at h
      split at h
      · obtain ⟨sub, a, h1, h2, h3⟩ := runOnChunkGo_mem m f src ts 0 ls h x hx
        exact ⟨sub, a, fun u hu => List.mem_cons_of_mem _ (h1 u hu), h2, h3⟩
      · split at h
        · cases h
        · cases hf : f src ((t :: ts).take n) with
          | error e => rw [hf] at h; cases h
          | ok l =>
            rw [hf] at h
            simp only [] at h
            cases hr : runOnChunkGo m f src (n - 1) ts with
            | error e => rw [hr] at h; cases h
            | ok r =>
              rw [hr] at h
              simp only [Except.ok.injEq] at h
              subst h
              rcases List.mem_append.mp hx with hx | hx
              · exact ⟨_, l, fun u hu => List.mem_of_mem_take hu, hf, hx⟩
              · obtain ⟨sub, a, h1, h2, h3⟩ := runOnChunkGo_mem m f src ts (n - 1) r hr x hx
                exact ⟨sub, a, fun u hu => List.mem_cons_of_mem _ (h1 u hu), h2, h3⟩

/-- **a pattern rule's lints on a text whose tokens are non-empty and end at or before `k` start strictly before `k` and end at
or before it** — whatever the tree and the spec are: the span is a selection of matched tokens -/
theorem PRule.rule_leftIn (env : Env) (r : PRule) (src : List Char) (toks : List Tok) (k : Nat)
    (hin : ∀ t ∈ toks, tokOK t = true ∧ t.span.stop ≤ k) (ls : List RuleLint) (h : r.rule env src toks = .ok ls) :
    ∀ l ∈ ls, l.span.start < k ∧ l.span.stop ≤ k := by
  intro x hx
  obtain ⟨chunk, hch, a, ha, hxa⟩ := collectE_mem _ _ _ h x hx
  obtain ⟨sub, b, hsub, hb, hxb⟩ := runOnChunkGo_mem _ _ src chunk 0 a ha x hxa
  have hsel := Spec.run_span env r.spec src sub b hb x hxb
  have hmem : ∀ t ∈ sub, t ∈ toks := fun t ht => split_mem _ _ chunk hch t (hsub t ht)
  have hp : InP k sub := fun t ht => ⟨Nat.le_of_lt (tokOK_nonempty (hin t (hmem t ht)).1), (hin t (hmem t ht)).2⟩
  have h2 := Sel.eval_in r.spec.span k sub hp x.span hsel
  obtain ⟨t, ht, hst⟩ := Sel.eval_start r.spec.span sub x.span hsel
  have h3 := hin t (hmem t ht)
  have := tokOK_nonempty h3.1
  exact ⟨by omega, h2.2⟩

/-! ## 5. the nine children -/

/-! ### their own computations -/

theorem toHopCorrect_good : CustomGood 1 toHopCorrect where
  shift := by
    intro env P D l j
    simp only [toHopCorrect, List.getElem?_map]
    cases l[0]? with
    | none => rfl
    | some t => simp only [Option.map_some, shTok_span, getContent_shift']
  left := by
    intro env P D l h
    simp only [toHopCorrect]
    cases h0 : l[0]? with
    | none => rfl
    | some t => simp only [getContent_left' P D t.span (h t (List.mem_of_getElem? h0)).2]
  ok := by
    intro env src l h hn
    have h0 : 0 < l.length := by omega
    simp only [toHopCorrect, List.getElem?_eq_getElem h0, getContent_textOf src _ (h _ (List.getElem_mem h0))]
    split <;> exact ⟨_, rfl⟩

theorem letsGuard_good : CustomGood 1 letsGuard where
  shift := by
    intro env P D l j
    simp only [letsGuard, List.getElem?_map]
    cases l[0]? with
    | none => rfl
    | some t => simp only [Option.map_some, shTok_span, getContent_shift']
  left := by
    intro env P D l h
    simp only [letsGuard]
    cases h0 : l[0]? with
    | none => rfl
    | some t => simp only [getContent_left' P D t.span (h t (List.mem_of_getElem? h0)).2]
  ok := by
    intro env src l h hn
    have h0 : 0 < l.length := by omega
    simp only [letsGuard, List.getElem?_eq_getElem h0, getContent_textOf src _ (h _ (List.getElem_mem h0))]
    exact ⟨_, rfl⟩

theorem contractForms_loc : CustomLoc contractForms where
  shift := by
    intro env P D l j
    simp only [contractForms, List.getElem?_map]
    cases l[0]? with
    | none => rfl
    | some t => simp only [Option.map_some, shTok_span, getContent_shift']
  left := by
    intro env P D l h
    simp only [contractForms]
    cases h0 : l[0]? with
    | none => rfl
    | some t => simp only [getContent_left' P D t.span (h t (List.mem_of_getElem? h0)).2]

theorem mergedWord_loc (i j bit : Nat) : CustomLoc (mergedWord i j bit) where
  shift := by
    intro env P D l k
    simp only [mergedWord, List.getElem?_map]
    cases l[i]? with
    | none => rfl
    | some a =>
      cases l[j]? with
      | none => rfl
      | some b => simp only [Option.map_some, shTok_span, getContent_shift']
  left := by
    intro env P D l h
    simp only [mergedWord]
    cases hi : l[i]? with
    | none => rfl
    | some a =>
      cases hj : l[j]? with
      | none => rfl
      | some b =>
        simp only [getContent_left' P D a.span (h a (List.mem_of_getElem? hi)).2,
          getContent_left' P D b.span (h b (List.mem_of_getElem? hj)).2]

/-- `get_merged_word` returns when the dictionary has a canonical capitalisation of every word it knows -/
theorem mergedWord_ok (env : Env) (hd : DictOK env) (i j bit : Nat) (src : List Char) (l : List Tok) (h : InText src l)
    (hi : i < l.length) (hj : j < l.length) : ∃ o, mergedWord i j bit env src l = .ok o := by
  simp only [mergedWord, List.getElem?_eq_getElem hi, List.getElem?_eq_getElem hj,
    getContent_textOf src _ (h _ (List.getElem_mem hi)), getContent_textOf src _ (h _ (List.getElem_mem hj))]
  split
  · rename_i hf
    simp only [Bool.and_eq_true] at hf
    cases hc : env.canonical (textOf src l[i].span ++ textOf src l[j].span) with
    | none => exact absurd hc (hd _ hf.1)
    | some c => exact ⟨_, rfl⟩
  · exact ⟨_, rfl⟩

/-! ### how many texts they hand on -/

theorem toHopCorrect_yields (n : Nat) : CustomYields n 1 toHopCorrect := by
  intro env src l vs _ h
  simp only [toHopCorrect] at h
  repeat' split at h
  all_goals first | (cases h; rfl) | cases h

/-- the two forms of `mistake_to_correct` -/
theorem contractForms_yields (n : Nat) : CustomYields n 2 contractForms := by
  intro env src l vs _ h
  simp only [contractForms] at h
  split at h
  · cases h
  · split at h
    · cases h
    · cases hk : contractTable.lookup (toLower env (toLowerCow env ‹List Char›)) with
      | none => rw [hk] at h; cases h
      | some forms =>
        rw [hk] at h
        cases h
        simp only [contractTable, List.lookup] at hk
        repeat' split at hk
        all_goals first | (cases hk; rfl) | cases hk

theorem mergedWord_yields (i j bit n : Nat) : CustomYields n 1 (mergedWord i j bit) := by
  intro env src l vs _ h
  simp only [mergedWord] at h
  repeat' split at h
  all_goals first | (cases h; rfl) | cases h

theorem letsGuard_yields (n : Nat) : CustomYields n 0 letsGuard := by
  intro env src l vs _ h
  simp only [letsGuard] at h
  repeat' split at h
  all_goals first | (cases h; rfl) | cases h | (simp only [Except.ok.injEq] at h; split at h <;> cases h; rfl)

/-! ### ShouldContract's `panic!` arm is unreachable -/

/-- `char::to_lowercase` of every character whose ASCII lower case is one of `y o u r w e` (those six letters and their
capitals) is that one letter. True of Unicode; the harness monitors it for every ASCII letter of every text. -/
def ContractLowerOK (env : Env) : Prop := ∀ c, lowerAscii c ∈ c!"yourwe" → env.lower c = [lowerAscii c]

theorem eqIgnoreAsciiCase_map : ∀ (cs w : List Char), cs.length = w.length → eqIgnoreAsciiCase cs w = true →
    cs.map lowerAscii = w.map lowerAscii
  | [], [], _, _ => rfl
  | a :: as, b :: bs, hl, h => by
    simp only [eqIgnoreAsciiCase, Bool.and_eq_true, beq_iff_eq] at h
    simp only [List.map_cons, h.1, eqIgnoreAsciiCase_map as bs (by simpa using hl) h.2]
  | [], _ :: _, hl, _ => by simp at hl
  | _ :: _, [], hl, _ => by simp at hl

theorem toLower_eq_map (env : Env) : ∀ cs : List Char, (∀ c ∈ cs, env.lower c = [lowerAscii c]) → toLower env cs = cs.map lowerAscii
  | [], _ => rfl
  | c :: cs, h => by
    have ih := toLower_eq_map env cs (fun d hd => h d (List.mem_cons_of_mem _ hd))
    simp only [toLower] at ih ⊢
    simp only [List.flatMap_cons, h c (by simp), ih, List.map_cons, List.singleton_append]

/-- what `mistake.to_lower().to_string()` followed by `.to_lowercase()` yields for a word that is `your` / `were` up to ASCII case -/
theorem contractKey (env : Env) (hl : ContractLowerOK env) (cs W : List Char) (hW : W = c!"your" ∨ W = c!"were")
    (hm : cs.map lowerAscii = W) : toLower env (toLowerCow env cs) = W := by
  have hsub : ∀ d ∈ W, d ∈ c!"yourwe" := by rcases hW with rfl | rfl <;> decide
  have hself : ∀ d ∈ W, lowerAscii d ∈ c!"yourwe" := by rcases hW with rfl | rfl <;> decide
  have hfix : W.map lowerAscii = W := by rcases hW with rfl | rfl <;> decide
  have h1 : ∀ c ∈ cs, env.lower c = [lowerAscii c] := by
    intro c hc
    apply hl c
    apply hsub
    rw [← hm]
    exact List.mem_map_of_mem hc
  have h2 : toLower env cs = W := by rw [toLower_eq_map env cs h1, hm]
  have h3 : toLower env W = W := by rw [toLower_eq_map env W (fun d hd => hl d (hself d hd)), hfix]
  unfold toLowerCow
  split
  · exact h2
  · have : cs.flatMap env.lower = W := h2
    rw [this, h3]

theorem seqPat_head (p : Matcher) (ps : List Matcher) (src : List Char) (full : List Tok) (n : Nat)
    (h : seqPat (p :: ps) src full = .ok n) (hn : n ≠ 0) : ∃ k, p src full = .ok k ∧ k ≠ 0 := by
  simp only [seqPat, seqGo] at h
  cases hp : p src full with
  | error e => rw [hp] at h; cases h
  | ok k =>
    rw [hp] at h
    simp only [] at h
    split at h
    · simp only [Except.ok.injEq] at h; exact absurd h.symm hn
    · exact ⟨k, rfl, by assumption⟩

theorem wordSet_first (ws : List (List Char)) (src : List Char) (t : Tok) (rest : List Tok) (k : Nat)
    (h : wordSetAtom ws src (t :: rest) = .ok k) (hk : k ≠ 0) (ht : TokIn src t) :
    ∃ w ∈ ws, (textOf src t.span).length = w.length ∧ eqIgnoreAsciiCase (textOf src t.span) w = true := by
  simp only [wordSetAtom, getContent_textOf src t ht] at h
  split at h
  · simp only [Except.ok.injEq] at h; exact absurd h.symm hk
  · simp only [Except.ok.injEq] at h
    split at h
    · rename_i hany
      obtain ⟨w, hw, hb⟩ := List.any_eq_true.mp hany
      simp only [Bool.and_eq_true, beq_iff_eq] at hb
      exact ⟨w, hw, hb.1, hb.2⟩
    · exact absurd h.symm hk

/-- **on everything the pattern of ShouldContract matches, `mistake_to_correct` does not fall through** -/
theorem contractForms_ok_on_match (env : Env) (hl : ContractLowerOK env) (src : List Char) (full : List Tok) (n : Nat)
    (hin : InText src full) (hm : patShouldContract.matcher env src full = .ok n) (hn : n ≠ 0) (hnl : n ≤ full.length) :
    ∃ forms, contractForms env src (full.take n) = .ok (some forms) := by
  have hm' : seqPat (wordSetAtom [c!"your", c!"were"] ::
      [whitespaceAtom, (Leaf.kind .determiner false).matcher env, whitespaceAtom, (Leaf.kind .adjective false).matcher env]) src full = .ok n := hm
  obtain ⟨k, hk, hk0⟩ := seqPat_head _ _ src full n hm' hn
  cases full with
  | nil => simp at hnl; exact absurd hnl hn
  | cons t rest =>
    have ht := hin t (by simp)
    obtain ⟨w, hw, hlen, heq⟩ := wordSet_first _ src t rest k hk hk0 ht
    have hmap := eqIgnoreAsciiCase_map _ w hlen heq
    have hW : w.map lowerAscii = c!"your" ∨ w.map lowerAscii = c!"were" := by
      simp only [List.mem_cons, List.mem_nil_iff, or_false] at hw
      rcases hw with rfl | rfl
      · left; decide
      · right; decide
    have hkey := contractKey env hl (textOf src t.span) (w.map lowerAscii) hW hmap
    have h0 : ((t :: rest).take n)[0]? = some t := by
      cases n with
      | zero => exact absurd rfl hn
      | succ m => simp
    simp only [contractForms, h0, getContent_textOf src t ht, hkey]
    rcases hW with e | e <;> rw [e] <;> exact ⟨_, rfl⟩

/-! ### `Fine` / `FineE` -/

theorem fineToHop : Fine toHop where
  plain := by decide
  loc := by unfold toHop patToHop; loc_tac
  good := ⟨good_single _ _ toHopCorrect_good, good_of_noCustom _ rfl⟩
  fits := by
    intro n hmin _
    have e : toHop.pat.minLen = 7 := by decide
    rw [e] at hmin
    unfold toHop specToHop
    fits_custom 1 (toHopCorrect_yields n)

theorem fineToHope : Fine toHope where
  plain := by decide
  loc := by unfold toHope patToHope; loc_tac
  good := ⟨good_of_noCustom _ rfl, good_of_noCustom _ rfl⟩
  fits := by
    intro n hmin _
    have e : toHope.pat.minLen = 5 := by decide
    rw [e] at hmin
    unfold toHope specToHope
    fits_tac

theorem fineAvoidContraction : Fine avoidContraction where
  plain := by decide
  loc := by unfold avoidContraction patAvoidContraction; loc_tac
  good := ⟨good_of_noCustom _ rfl, good_of_noCustom _ rfl⟩
  fits := by
    intro n hmin _
    have e : avoidContraction.pat.minLen = 3 := by decide
    rw [e] at hmin
    unfold avoidContraction specAvoidContraction
    fits_tac

theorem fineLetUsRedundancy : Fine letUsRedundancy where
  plain := by decide
  loc := by unfold letUsRedundancy patLetUsRedundancy; loc_tac
  good := ⟨good_of_noCustom _ rfl, good_of_noCustom _ rfl⟩
  fits := by
    intro n hmin _
    have e : letUsRedundancy.pat.minLen = 3 := by decide
    rw [e] at hmin
    unfold letUsRedundancy specLetUsRedundancy
    fits_tac

theorem fineNoContractionWithVerb : Fine noContractionWithVerb where
  plain := by decide
  loc := by unfold noContractionWithVerb patNoContractionWithVerb; loc_tac
  good := ⟨good_of_noCustom _ rfl, good_of_noCustom _ rfl⟩
  fits := by
    intro n hmin _
    have e : noContractionWithVerb.pat.minLen = 3 := by decide
    rw [e] at hmin
    unfold noContractionWithVerb specNoContractionWithVerb
    fits_tac

/-! the index expressions and the variables of the four children whose own computations are total only relative to the `Env`
(`Spec.Fits` needs no hypothesis on it) -/

/-- `.var 0`, `.var 1`: the two forms `mistake_to_correct` hands on -/
theorem shouldContract_fits (n : Nat) (hmin : shouldContract.pat.minLen ≤ n) : shouldContract.spec.Fits n := by
  have e : shouldContract.pat.minLen = 5 := by decide
  rw [e] at hmin
  unfold shouldContract specShouldContract
  fits_custom 2 (contractForms_yields n)

/-- `orig` (`.var 0`) is bound by the `.bind`, `word` (`.var 1`) by `get_merged_word` -/
theorem generalCompoundNouns_fits (n : Nat) (hmin : generalCompoundNouns.pat.minLen ≤ n) : generalCompoundNouns.spec.Fits n := by
  have e : generalCompoundNouns.pat.minLen = 5 := by decide
  rw [e] at hmin
  unfold generalCompoundNouns specGeneralCompoundNouns
  refine ⟨?_, ?_, stepsFit_bind _ _ _ _ _ ?_ (stepsFit_custom _ 1 _ _ _ _ _ ?_ (mergedWord_yields 2 4 20 n) ?_)⟩ <;> fits_simp

theorem impliedInstantiatedCompoundNouns_fits (n : Nat) (hmin : impliedInstantiatedCompoundNouns.pat.minLen ≤ n) :
    impliedInstantiatedCompoundNouns.spec.Fits n := by
  have e : impliedInstantiatedCompoundNouns.pat.minLen = 5 := by decide
  rw [e] at hmin
  unfold impliedInstantiatedCompoundNouns specImpliedInstantiatedCompoundNouns
  refine ⟨?_, ?_, stepsFit_bind _ _ _ _ _ ?_ (stepsFit_custom _ 1 _ _ _ _ _ ?_ (mergedWord_yields 0 2 21 n)
    (stepsFit_bind _ _ _ _ _ ?_ ?_))⟩ <;> fits_simp

/-- `letsGuard` binds nothing, so `get_merged_word`'s text is `.var 0` -/
theorem impliedOwnershipCompoundNouns_fits (n : Nat) (hmin : impliedOwnershipCompoundNouns.pat.minLen ≤ n) :
    impliedOwnershipCompoundNouns.spec.Fits n := by
  have e : impliedOwnershipCompoundNouns.pat.minLen = 5 := by decide
  rw [e] at hmin
  unfold impliedOwnershipCompoundNouns specImpliedOwnershipCompoundNouns
  refine ⟨?_, ?_, stepsFit_custom _ 0 _ _ _ _ _ ?_ (letsGuard_yields n) (stepsFit_custom _ 1 _ _ _ _ _ ?_ (mergedWord_yields 2 4 8 n) ?_)⟩ <;>
    fits_simp

/-- ShouldContract, for an `Env` whose `to_lowercase` is right on the twelve letters: the `panic!` is never reached -/
theorem fineE_shouldContract (env : Env) (hl : ContractLowerOK env) : FineE env shouldContract := by
  apply fineE_of env shouldContract (side_of_plain env _ _ (by decide)) (by unfold shouldContract patShouldContract; loc_tac)
  · refine ⟨?_, stepLoc_of_noCustom _ rfl⟩
    intro x hx
    simp only [shouldContract, specShouldContract, List.mem_singleton] at hx
    subst hx
    exact contractForms_loc
  · exact fun n hmin _ => shouldContract_fits n hmin
  · intro src full n hin hm hn hnl _
    refine ⟨?_, fun x hx => by simp [shouldContract, specShouldContract] at hx⟩
    intro x hx
    simp only [shouldContract, specShouldContract, List.mem_singleton] at hx
    subst hx
    obtain ⟨forms, e⟩ := contractForms_ok_on_match env hl src full n hin hm hn hnl
    exact ⟨_, e⟩

theorem fineE_generalCompoundNouns (env : Env) (hd : DictOK env) : FineE env generalCompoundNouns := by
  apply fineE_of env generalCompoundNouns
  · simp [generalCompoundNouns, patGeneralCompoundNouns, allOf, seqOf, ws, RPats.ofList, RPat.Side, RPats.Side, Leaf.Side, hd]
  · unfold generalCompoundNouns patGeneralCompoundNouns; loc_tac
  · refine ⟨fun x hx => by simp [generalCompoundNouns, specGeneralCompoundNouns] at hx, ?_⟩
    intro x hx
    simp only [generalCompoundNouns, specGeneralCompoundNouns, List.mem_cons, List.mem_nil_iff, or_false] at hx
    rcases hx with rfl | rfl
    · trivial
    · exact mergedWord_loc 2 4 20
  · exact fun n hmin _ => generalCompoundNouns_fits n hmin
  · intro src full n hin hm hn hnl hmin
    have e : generalCompoundNouns.pat.minLen = 5 := by decide
    rw [e] at hmin
    have hlen : (full.take n).length = n := by simp only [List.length_take]; omega
    have hin' : InText src (full.take n) := inText_hyp.sub src _ _ (List.take_sublist n full) hin
    refine ⟨fun x hx => by simp [generalCompoundNouns, specGeneralCompoundNouns] at hx, ?_⟩
    intro x hx
    simp only [generalCompoundNouns, specGeneralCompoundNouns, List.mem_cons, List.mem_nil_iff, or_false] at hx
    rcases hx with rfl | rfl
    · trivial
    · exact mergedWord_ok env hd 2 4 20 src _ hin' (by omega) (by omega)

theorem fineE_impliedInstantiatedCompoundNouns (env : Env) (hd : DictOK env) : FineE env impliedInstantiatedCompoundNouns := by
  apply fineE_of env impliedInstantiatedCompoundNouns
  · simp [impliedInstantiatedCompoundNouns, patImpliedInstantiatedCompoundNouns, seqOf, ws, RPats.ofList, RPat.Side, RPats.Side, Leaf.Side, hd]
  · unfold impliedInstantiatedCompoundNouns patImpliedInstantiatedCompoundNouns; loc_tac
  · refine ⟨fun x hx => by simp [impliedInstantiatedCompoundNouns, specImpliedInstantiatedCompoundNouns] at hx, ?_⟩
    intro x hx
    simp only [impliedInstantiatedCompoundNouns, specImpliedInstantiatedCompoundNouns, List.mem_cons, List.mem_nil_iff, or_false] at hx
    rcases hx with rfl | rfl | rfl
    · trivial
    · exact mergedWord_loc 0 2 21
    · trivial
  · exact fun n hmin _ => impliedInstantiatedCompoundNouns_fits n hmin
  · intro src full n hin hm hn hnl hmin
    have e : impliedInstantiatedCompoundNouns.pat.minLen = 5 := by decide
    rw [e] at hmin
    have hlen : (full.take n).length = n := by simp only [List.length_take]; omega
    have hin' : InText src (full.take n) := inText_hyp.sub src _ _ (List.take_sublist n full) hin
    refine ⟨fun x hx => by simp [impliedInstantiatedCompoundNouns, specImpliedInstantiatedCompoundNouns] at hx, ?_⟩
    intro x hx
    simp only [impliedInstantiatedCompoundNouns, specImpliedInstantiatedCompoundNouns, List.mem_cons, List.mem_nil_iff, or_false] at hx
    rcases hx with rfl | rfl | rfl
    · trivial
    · exact mergedWord_ok env hd 0 2 21 src _ hin' (by omega) (by omega)
    · trivial

theorem fineE_impliedOwnershipCompoundNouns (env : Env) (hd : DictOK env) : FineE env impliedOwnershipCompoundNouns := by
  apply fineE_of env impliedOwnershipCompoundNouns
  · simp [impliedOwnershipCompoundNouns, patImpliedOwnershipCompoundNouns, seqOf, ws, kp, RPats.ofList, RPat.Side, RPats.Side, Leaf.Side, hd]
  · unfold impliedOwnershipCompoundNouns patImpliedOwnershipCompoundNouns; loc_tac
  · constructor
    · intro x hx
      simp only [impliedOwnershipCompoundNouns, specImpliedOwnershipCompoundNouns, List.mem_singleton] at hx
      subst hx
      exact ⟨letsGuard_good.shift, letsGuard_good.left⟩
    · intro x hx
      simp only [impliedOwnershipCompoundNouns, specImpliedOwnershipCompoundNouns, List.mem_singleton] at hx
      subst hx
      exact mergedWord_loc 2 4 8
  · exact fun n hmin _ => impliedOwnershipCompoundNouns_fits n hmin
  · intro src full n hin hm hn hnl hmin
    have e : impliedOwnershipCompoundNouns.pat.minLen = 5 := by decide
    rw [e] at hmin
    have hlen : (full.take n).length = n := by simp only [List.length_take]; omega
    have hin' : InText src (full.take n) := inText_hyp.sub src _ _ (List.take_sublist n full) hin
    constructor
    · intro x hx
      simp only [impliedOwnershipCompoundNouns, specImpliedOwnershipCompoundNouns, List.mem_singleton] at hx
      subst hx
      exact letsGuard_good.ok env src _ hin' (by omega)
    · intro x hx
      simp only [impliedOwnershipCompoundNouns, specImpliedOwnershipCompoundNouns, List.mem_singleton] at hx
      subst hx
      exact mergedWord_ok env hd 2 4 8 src _ hin' (by omega) (by omega)

/-! ### the children of each merged rule -/

theorem hopHope_children (env : Env) : ∀ c ∈ hopHopeChildren, FineE env c := by
  intro c hc
  simp only [hopHopeChildren, List.mem_cons, List.mem_nil_iff, or_false] at hc
  rcases hc with rfl | rfl
  · exact FineE.of_fine env _ fineToHop
  · exact FineE.of_fine env _ fineToHope

theorem letsConfusion_children (env : Env) : ∀ c ∈ letsConfusionChildren, FineE env c := by
  intro c hc
  simp only [letsConfusionChildren, List.mem_cons, List.mem_nil_iff, or_false] at hc
  rcases hc with rfl | rfl
  · exact FineE.of_fine env _ fineLetUsRedundancy
  · exact FineE.of_fine env _ fineNoContractionWithVerb

theorem pronounContraction_children (env : Env) (hl : ContractLowerOK env) : ∀ c ∈ pronounContractionChildren, FineE env c := by
  intro c hc
  simp only [pronounContractionChildren, List.mem_cons, List.mem_nil_iff, or_false] at hc
  rcases hc with rfl | rfl
  · exact fineE_shouldContract env hl
  · exact FineE.of_fine env _ fineAvoidContraction

theorem compoundNouns_children (env : Env) (hd : DictOK env) : ∀ c ∈ compoundNounsChildren, FineE env c := by
  intro c hc
  simp only [compoundNounsChildren, List.mem_cons, List.mem_nil_iff, or_false] at hc
  rcases hc with rfl | rfl | rfl
  · exact fineE_generalCompoundNouns env hd
  · exact fineE_impliedInstantiatedCompoundNouns env hd
  · exact fineE_impliedOwnershipCompoundNouns env hd

theorem shouldContract_local : shouldContract.pat.Loc ∧ SpecLoc shouldContract.spec := by
  refine ⟨by unfold shouldContract patShouldContract; loc_tac, ?_, stepLoc_of_noCustom _ rfl⟩
  intro x hx
  simp only [shouldContract, specShouldContract, List.mem_singleton] at hx
  subst hx
  exact contractForms_loc

theorem generalCompoundNouns_local : generalCompoundNouns.pat.Loc ∧ SpecLoc generalCompoundNouns.spec := by
  refine ⟨by unfold generalCompoundNouns patGeneralCompoundNouns; loc_tac,
    fun x hx => by simp [generalCompoundNouns, specGeneralCompoundNouns] at hx, ?_⟩
  intro x hx
  simp only [generalCompoundNouns, specGeneralCompoundNouns, List.mem_cons, List.mem_nil_iff, or_false] at hx
  rcases hx with rfl | rfl
  · trivial
  · exact mergedWord_loc 2 4 20

theorem impliedInstantiatedCompoundNouns_local :
    impliedInstantiatedCompoundNouns.pat.Loc ∧ SpecLoc impliedInstantiatedCompoundNouns.spec := by
  refine ⟨by unfold impliedInstantiatedCompoundNouns patImpliedInstantiatedCompoundNouns; loc_tac,
    fun x hx => by simp [impliedInstantiatedCompoundNouns, specImpliedInstantiatedCompoundNouns] at hx, ?_⟩
  intro x hx
  simp only [impliedInstantiatedCompoundNouns, specImpliedInstantiatedCompoundNouns, List.mem_cons, List.mem_nil_iff, or_false] at hx
  rcases hx with rfl | rfl | rfl
  · trivial
  · exact mergedWord_loc 0 2 21
  · trivial

theorem impliedOwnershipCompoundNouns_local : impliedOwnershipCompoundNouns.pat.Loc ∧ SpecLoc impliedOwnershipCompoundNouns.spec := by
  refine ⟨by unfold impliedOwnershipCompoundNouns patImpliedOwnershipCompoundNouns; loc_tac, ?_, ?_⟩
  · intro x hx
    simp only [impliedOwnershipCompoundNouns, specImpliedOwnershipCompoundNouns, List.mem_singleton] at hx
    subst hx
    exact ⟨letsGuard_good.shift, letsGuard_good.left⟩
  · intro x hx
    simp only [impliedOwnershipCompoundNouns, specImpliedOwnershipCompoundNouns, List.mem_singleton] at hx
    subst hx
    exact mergedWord_loc 2 4 8

/-- every child is local (tree `Loc`, spec `SpecLoc`) — for every `Env`, no hypothesis -/
theorem allChildren_local : ∀ x ∈ allChildren, x.2.pat.Loc ∧ SpecLoc x.2.spec := by
  intro x hx
  simp only [allChildren, List.mem_cons, List.mem_nil_iff, or_false] at hx
  rcases hx with rfl | rfl | rfl | rfl | rfl | rfl | rfl | rfl | rfl
  · exact ⟨fineToHop.loc, specLoc_of_good _ fineToHop.good⟩
  · exact ⟨fineToHope.loc, specLoc_of_good _ fineToHope.good⟩
  · exact shouldContract_local
  · exact ⟨fineAvoidContraction.loc, specLoc_of_good _ fineAvoidContraction.good⟩
  · exact ⟨fineLetUsRedundancy.loc, specLoc_of_good _ fineLetUsRedundancy.good⟩
  · exact ⟨fineNoContractionWithVerb.loc, specLoc_of_good _ fineNoContractionWithVerb.good⟩
  · exact generalCompoundNouns_local
  · exact impliedInstantiatedCompoundNouns_local
  · exact impliedOwnershipCompoundNouns_local

/-- every child's spec fits every length its tree can match: index expressions in range, every `.var` bound — for every `Env`,
no hypothesis -/
theorem allChildren_fits : ∀ x ∈ allChildren, ∀ n, x.2.pat.minLen ≤ n → (∀ k, x.2.pat.maxLen = some k → n ≤ k) → x.2.spec.Fits n := by
  intro x hx n hmin hmax
  simp only [allChildren, List.mem_cons, List.mem_nil_iff, or_false] at hx
  rcases hx with rfl | rfl | rfl | rfl | rfl | rfl | rfl | rfl | rfl
  · exact fineToHop.fits n hmin hmax
  · exact fineToHope.fits n hmin hmax
  · exact shouldContract_fits n hmin
  · exact fineAvoidContraction.fits n hmin hmax
  · exact fineLetUsRedundancy.fits n hmin hmax
  · exact fineNoContractionWithVerb.fits n hmin hmax
  · exact generalCompoundNouns_fits n hmin
  · exact impliedInstantiatedCompoundNouns_fits n hmin
  · exact impliedOwnershipCompoundNouns_fits n hmin

end Harper.MergeRules

/-! ## w26: the kind-code model and the token-level model, document level and the remaining combinators -/
namespace Harper.Rules
open Harper Harper.Chunks Harper.Leaves

/-- every match `run_on_chunk`'s loop lists is inside the chunk — for ANY pattern (the loop itself checks
`&chunk[c..c + n]`) -/
theorem runLoop_inRange (p : Pat) (chunk : List Nat) :
    ∀ (fuel c : Nat) (ms : List (Nat × Nat)), Pat.runLoop p chunk fuel c = .ok ms →
      ∀ x ∈ ms, x.1 + x.2 ≤ chunk.length := by
  intro fuel
  induction fuel with
  | zero =>
    intro c ms h
    simp only [Pat.runLoop] at h
    split at h
    · cases h; simp
    · cases h
  | succ fuel ih =>
    intro c ms h
    simp only [Pat.runLoop] at h
    split at h
    · cases h; simp
    · cases hs : Pat.sliceFrom chunk c with
      | error e => rw [hs] at h; cases h
      | ok s =>
        rw [hs] at h
        simp only [] at h
        cases hm : Pat.matchLen p s with
        | error e => rw [hm] at h; cases h
        | ok n =>
          rw [hm] at h
          simp only [] at h
          split at h
          · split at h
            · cases h
            · rename_i hin
              cases hr : Pat.runLoop p chunk fuel (c + n) with
              | error e => rw [hr] at h; cases h
              | ok rest =>
                rw [hr] at h
                cases h
                intro x hx
                rcases List.mem_cons.mp hx with rfl | hx
                · simp only; omega
                · exact ih _ _ hr x hx
          · exact ih _ _ h

theorem lintMatches_append (f : List Char → List Tok → Except Panic (List RuleLint)) (src : List Char) (toks : List Tok)
    (a b : List (Nat × Nat)) :
    lintMatches f src toks (a ++ b) =
      (match lintMatches f src toks a with
       | .error e => .error e
       | .ok x =>
         match lintMatches f src toks b with
         | .error e => .error e
         | .ok y => .ok (x ++ y)) := collectE_append _ a b

theorem lintMatches_total (f : List Char → List Tok → Except Panic (List RuleLint)) (src : List Char) (toks : List Tok)
    (hf : ∀ l, ∃ r, f src l = .ok r) : ∀ ms, ∃ r, lintMatches f src toks ms = .ok r := by
  intro ms
  induction ms with
  | nil => exact ⟨[], rfl⟩
  | cons x ms ih =>
    obtain ⟨a, ha⟩ := hf ((toks.drop x.1).take x.2)
    obtain ⟨b, hb⟩ := ih
    unfold lintMatches at hb ⊢
    exact ⟨a ++ b, by simp only [collectE, ha, hb]⟩

/-- `&chunk[s..s + n]` is `&document[off + s..off + s + n]` when the chunk sits at token offset `off` -/
theorem slice_in_doc (pre c tail : List Tok) (s n : Nat) (h : s + n ≤ c.length) :
    ((pre ++ c ++ tail).drop (s + pre.length)).take n = (c.drop s).take n := by
  rw [List.append_assoc, show s + pre.length = pre.length + s by omega, ← List.drop_drop, List.drop_left,
    List.drop_append_of_le_length (by omega), List.take_append_of_le_length (by rw [List.length_drop]; omega)]

/-- the lints of a chunk's matches, taken from the document at the chunk's offset -/
theorem lintMatches_shift (f : List Char → List Tok → Except Panic (List RuleLint)) (src : List Char)
    (pre c tail : List Tok) (ms : List (Nat × Nat)) (h : ∀ x ∈ ms, x.1 + x.2 ≤ c.length) :
    lintMatches f src (pre ++ c ++ tail) (ms.map (fun x => (x.1 + pre.length, x.2))) = lintMatches f src c ms := by
  unfold lintMatches
  rw [collectE_map]
  apply collectE_congr
  intro x hx
  rw [slice_in_doc pre c tail x.1 x.2 (h x hx)]

/-- **the chunk loop of the blanket `Linter::lint`**: `Pat.lintChunks` (kind codes; matches at document offsets) and
`collectE` of `runOnChunkGo` over the chunks (tokens; what `overPieces` runs), for chunks that sit one after the other in
`whole` behind `pre` -/
theorem lintChunks_sim (m : Matcher) (p : Pat) (code : Tok → Nat) (src : List Char)
    (f : List Char → List Tok → Except Panic (List RuleLint)) :
    ∀ (cs : List (List Tok)) (pre : List Tok), (∀ c ∈ cs, AgreeOn m p code src c) →
      (∀ ms, Pat.lintChunks p pre.length (cs.map (List.map code)) = .ok ms →
        collectE (fun c => runOnChunkGo m f src 0 c) cs = lintMatches f src (pre ++ cs.flatten) ms) ∧
      (∀ e, Pat.lintChunks p pre.length (cs.map (List.map code)) = .error e →
        ∃ e', collectE (fun c => runOnChunkGo m f src 0 c) cs = .error e' ∧ ((∀ l, ∃ r, f src l = .ok r) → e' = e)) := by
  intro cs
  induction cs with
  | nil =>
    intro pre _
    simp only [List.map_nil, Pat.lintChunks]
    exact ⟨fun ms h => (by cases h; rfl), fun e h => (by cases h)⟩
  | cons c cs ih =>
    intro pre hag
    have hagc := hag c List.mem_cons_self
    have ih := ih (pre ++ c) (fun c' hc' => hag c' (List.mem_cons_of_mem _ hc'))
    simp only [List.map_cons, Pat.lintChunks, collectE, List.length_map]
    have hsim := runOnChunkGo_sim m p code src c hagc f c 0 0 c.length rfl (by omega)
    have hrun : Pat.runOnChunk p (c.map code) = Pat.runLoop p (c.map code) c.length 0 := by
      unfold Pat.runOnChunk; rw [List.length_map]
    rw [hrun]
    simp only [Nat.add_zero] at hsim
    cases hr : Pat.runLoop p (c.map code) c.length 0 with
    | error e =>
      obtain ⟨e', he', htot⟩ := hsim.2 e hr
      simp only [he']
      exact ⟨fun ms h => (by cases h), fun e2 h => (by cases h; exact ⟨e', rfl, htot⟩)⟩
    | ok ms1 =>
      have h1 := hsim.1 ms1 hr
      have hin : ∀ x ∈ ms1, x.1 + x.2 ≤ c.length := by
        intro x hx
        have := runLoop_inRange p (c.map code) _ _ _ hr x hx
        rwa [List.length_map] at this
      rw [List.length_append] at ih
      simp only [h1]
      cases hl : Pat.lintChunks p (pre.length + c.length) (cs.map (List.map code)) with
      | error e =>
        obtain ⟨e', he', htot⟩ := ih.2 e hl
        simp only []
        refine ⟨fun ms h => (by cases h), ?_⟩
        intro e2 h2
        cases h2
        cases ha : lintMatches f src c ms1 with
        | error e1 =>
          refine ⟨e1, rfl, ?_⟩
          intro hf
          obtain ⟨r, hr'⟩ := lintMatches_total f src c hf ms1
          rw [ha] at hr'; cases hr'
        | ok a =>
          simp only [he']
          exact ⟨e', rfl, htot⟩
      | ok rest =>
        have h2 := ih.1 rest hl
        simp only []
        refine ⟨?_, fun e h => (by cases h)⟩
        intro ms h
        cases h
        rw [h2, lintMatches_append]
        have e1 : pre ++ (c :: cs).flatten = pre ++ c ++ cs.flatten := by simp
        rw [e1, lintMatches_shift f src pre c cs.flatten ms1 hin]
        cases lintMatches f src c ms1 with
        | error e => rfl
        | ok a => cases lintMatches f src (pre ++ c ++ cs.flatten) rest <;> rfl

/-! ### `RepeatingPattern`, `All`, `Invert`, `ConsumesRemainingPattern`, `AnyPattern` in the two models -/

/-- the two loops of `RepeatingPattern::matches` — `repGo` drops the matched tokens and refuses an over-long answer at once,
`Pat.repLoop` keeps a cursor and runs into `&tokens[cursor..]` one iteration later — give the same result whenever each
has fuel for the remaining slice (`repGo`: more than its length; `repLoop`: one more, for that extra iteration): NO contract
on the child is needed -/
theorem repGo_agree (inner : Matcher) (p : Pat) (code : Tok → Nat) (src : List Char) (h : Agree inner p code src)
    (req : Nat) (orig : List Tok) :
    ∀ (fuelG fuelL c r : Nat), c ≤ orig.length → orig.length - c < fuelG → orig.length - c + 1 < fuelL →
      repGo inner req src fuelG c r (orig.drop c) =
        Pat.repLoop (Pat.matchLen p) req (orig.map code) fuelL c r := by
  intro fuelG
  induction fuelG with
  | zero => intro _ _ _ _ h1; omega
  | succ fuelG ih =>
    intro fuelL c r hc hg hl
    cases fuelL with
    | zero => omega
    | succ fuelL =>
      simp only [repGo, Pat.repLoop]
      rw [Pat.sliceFrom_ok (by rw [List.length_map]; exact hc), ← List.map_drop]
      simp only []
      rw [← h (orig.drop c)]
      cases inner src (orig.drop c) with
      | error e => rfl
      | ok n =>
        simp only []
        by_cases h0 : n = 0
        · rw [if_pos h0, if_pos h0]; split <;> rfl
        · rw [if_neg h0, if_neg h0, List.length_drop]
          by_cases hov : n > orig.length - c
          · rw [if_pos hov]
            cases fuelL with
            | zero => omega
            | succ fuelL =>
              simp only [Pat.repLoop]
              rw [Pat.sliceFrom_oob (by rw [List.length_map]; omega)]
          · rw [if_neg hov, List.drop_drop]
            exact ih fuelL (c + n) (r + 1) (by omega) (by omega) (by omega)

/-- **`RepeatingPattern` in the two models** (fuel `len + 1` there, `len + 2` here) -/
theorem repPat_agree (inner : Matcher) (p : Pat) (code : Tok → Nat) (src : List Char) (h : Agree inner p code src)
    (req : Nat) : Agree (repPat inner req) (.rep p req) code src := by
  intro toks
  rw [Pat.matchLen]
  have := repGo_agree inner p code src h req toks (toks.length + 1) ((toks.map code).length + 2) 0 0 (Nat.zero_le _)
    (by omega) (by rw [List.length_map]; omega)
  simpa [repPat] using this

theorem allGo_agree (code : Tok → Nat) (src : List Char) (prs : List (Matcher × Pat))
    (h : ∀ x ∈ prs, Agree x.1 x.2 code src) (toks : List Tok) :
    ∀ mx, allGo src toks (prs.map Prod.fst) mx =
      Pat.allLoop (PatList.ofList (prs.map Prod.snd)) (toks.map code) mx := by
  induction prs with
  | nil => intro l; simp [allGo, PatList.ofList, Pat.allLoop]
  | cons x prs ih =>
    obtain ⟨m, p⟩ := x
    have hmp : Agree m p code src := h (m, p) List.mem_cons_self
    have ih := ih (fun y hy => h y (List.mem_cons_of_mem _ hy))
    intro l
    simp only [List.map_cons, allGo, PatList.ofList, Pat.allLoop]
    rw [← hmp toks]
    cases m src toks with
    | error e => rfl
    | ok n =>
      simp only []
      split
      · rfl
      · exact ih _

/-- **`All` in the two models** -/
theorem allPat_agree (code : Tok → Nat) (src : List Char) (prs : List (Matcher × Pat))
    (h : ∀ x ∈ prs, Agree x.1 x.2 code src) :
    Agree (allPat (prs.map Prod.fst)) (.all (PatList.ofList (prs.map Prod.snd))) code src := by
  intro toks
  rw [Pat.matchLen]
  exact allGo_agree code src prs h toks 0

/-- **`Invert` in the two models** (as repaired: 0 on the empty slice) -/
theorem invertPat_agree (inner : Matcher) (p : Pat) (code : Tok → Nat) (src : List Char) (h : Agree inner p code src) :
    Agree (invertPat inner) (.invert p) code src := by
  intro toks
  rw [Pat.matchLen]
  simp only [invertPat, ← h toks, List.isEmpty_map]
  split
  · rfl
  · cases inner src toks with
    | error e => rfl
    | ok n => simp

/-- **`ConsumesRemainingPattern` in the two models** -/
theorem consumesPat_agree (inner : Matcher) (p : Pat) (code : Tok → Nat) (src : List Char) (h : Agree inner p code src) :
    Agree (consumesPat inner) (.consumes p) code src := by
  intro toks
  rw [Pat.matchLen]
  simp only [consumesPat, ← h toks, List.length_map]
  cases inner src toks <;> rfl

/-- **`AnyPattern` in the two models** -/
theorem anyAtom_agree (code : Tok → Nat) (src : List Char) : Agree anyAtom .any code src := by
  intro toks
  rw [Pat.matchLen]
  simp only [anyAtom, List.isEmpty_map]

end Harper.Rules
