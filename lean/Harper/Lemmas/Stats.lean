import Harper.Model.Stats
/-! Helper lemmas for C19 (escaping, line framing, summary counters). -/
namespace Harper.Stats

/-! ### escaping -/

theorem hexDigit_ne_linebreak : ∀ n < 16, hexDigit n ≠ '\n' ∧ hexDigit n ≠ '\r' := by decide

theorem escapeChar_no_linebreak (c : Char) : '\n' ∉ escapeChar c ∧ '\r' ∉ escapeChar c := by
  unfold escapeChar
  split
  · decide
  split
  · decide
  split
  · decide
  split
  · decide
  split
  · decide
  split
  · decide
  split
  · decide
  split
  · rename_i h
    have h1 := hexDigit_ne_linebreak (c.toNat / 16) (by omega)
    have h2 := hexDigit_ne_linebreak (c.toNat % 16) (by omega)
    simp only [List.mem_cons, List.not_mem_nil, or_false, not_or]
    exact ⟨⟨by decide, by decide, by decide, by decide, h1.1.symm, h2.1.symm⟩,
           ⟨by decide, by decide, by decide, by decide, h1.2.symm, h2.2.symm⟩⟩
  · rename_i hn hr _ _
    simp only [List.mem_cons, List.not_mem_nil, or_false]
    exact ⟨fun h => hn h.symm, fun h => hr h.symm⟩

theorem escapeChar_ne_nil (c : Char) : escapeChar c ≠ [] := by
  unfold escapeChar
  repeat' split
  all_goals simp

theorem escape_append (a b : List Char) : escape (a ++ b) = escape a ++ escape b := by
  induction a with
  | nil => rfl
  | cons c cs ih => simp [escape, ih]

/-! ### un-escaping -/

theorem step_simple (e x : Char) (t : List Char) (hu : e ≠ 'u') (hs : simpleEscape e = some x) :
    unescapeStep ('\\' :: e :: t) = some (x, t) := by
  simp [unescapeStep, hu, hs]

theorem step_hex (a b c d : Char) (n : Nat) (t : List Char) (hh : hex4 a b c d = some n)
    (hn : n < 0xD800) : unescapeStep ('\\' :: 'u' :: a :: b :: c :: d :: t) = some (Char.ofNat n, t) := by
  have h1 : ¬ (0xDC00 ≤ n ∧ n ≤ 0xDFFF) := by omega
  have h2 : ¬ (0xD800 ≤ n ∧ n ≤ 0xDBFF) := by omega
  simp only [unescapeStep, if_true, hh, h1, h2, if_false]

/-- what `escapeChar` produces for a control character is one of the two escape shapes, and that
shape decodes to the character (checked for all 32 control characters) -/
def ctrlShapeOk (n : Nat) : Bool :=
  match escapeChar (Char.ofNat n) with
  | ['\\', e] => e ≠ 'u' ∧ simpleEscape e = some (Char.ofNat n)
  | ['\\', 'u', a, b, c, d] => hex4 a b c d = some n
  | _ => false

theorem ctrlShapeOk_all : ∀ n < 32, ctrlShapeOk n = true := by decide

theorem step_escapeChar (c : Char) (t : List Char) :
    unescapeStep (escapeChar c ++ t) = some (c, t) := by
  by_cases hc : c.toNat < 32
  · have hok := ctrlShapeOk_all c.toNat hc
    unfold ctrlShapeOk at hok
    rw [Char.ofNat_toNat] at hok
    split at hok
    · rename_i e he
      simp only [decide_eq_true_eq] at hok
      rw [he]
      exact step_simple e c t hok.1 hok.2
    · rename_i a b c' d he
      simp only [decide_eq_true_eq] at hok
      rw [he]
      have := step_hex a b c' d c.toNat t hok (by omega)
      rw [Char.ofNat_toNat] at this
      exact this
    · exact absurd hok (by simp)
  · by_cases hq : c = '"'
    · subst hq; rfl
    by_cases hb : c = '\\'
    · subst hb; rfl
    have h1 : c ≠ '\x08' := fun h => hc (by subst h; decide)
    have h2 : c ≠ '\x0c' := fun h => hc (by subst h; decide)
    have h3 : c ≠ '\n' := fun h => hc (by subst h; decide)
    have h4 : c ≠ '\r' := fun h => hc (by subst h; decide)
    have h5 : c ≠ '\t' := fun h => hc (by subst h; decide)
    have he : escapeChar c = [c] := by
      simp only [escapeChar, hq, hb, h1, h2, h3, h4, h5, hc, if_false]
    have hc' : ¬ c.toNat < 0x20 := hc
    rw [he]
    simp only [List.singleton_append, unescapeStep, hb, hq, hc', if_false, false_or]

theorem unescapeFuel_escape (s : List Char) :
    ∀ fuel, (escape s).length ≤ fuel → unescapeFuel fuel (escape s) = some s := by
  induction s with
  | nil => intro fuel _; cases fuel <;> rfl
  | cons c cs ih =>
    intro fuel hf
    have hstep := step_escapeChar c (escape cs)
    simp only [escape] at hf ⊢
    match hx : escapeChar c, escapeChar_ne_nil c with
    | x :: xs, _ =>
      rw [hx] at hstep hf
      match fuel, hf with
      | f + 1, hf =>
        simp only [List.cons_append] at hstep ⊢
        have hlen : (escape cs).length ≤ f := by
          simp only [List.cons_append, List.length_cons, List.length_append] at hf; omega
        simp only [unescapeFuel, hstep, ih f hlen]

theorem unescape_escape' (s : List Char) : unescape (escape s) = some s :=
  unescapeFuel_escape s _ (Nat.le_refl _)

/-! ### line framing -/

theorem linesGo_line (l t : List Char) (hl : '\n' ∉ l) :
    ∀ acc, linesGo acc (l ++ '\n' :: t) = finishLine (l.reverse ++ acc) :: linesGo [] t := by
  induction l with
  | nil => intro acc; simp [linesGo]
  | cons c cs ih =>
    intro acc
    have hc : c ≠ '\n' := fun h => hl (by simp [h])
    have hcs : '\n' ∉ cs := fun h => hl (by simp [h])
    simp only [List.cons_append, linesGo, hc, if_false, ih hcs, List.reverse_cons,
      List.append_assoc, List.nil_append]

theorem finishLine_reverse (l : List Char) (h : l.getLast? ≠ some '\r') :
    finishLine l.reverse = l := by
  unfold finishLine
  split
  · rename_i r hr
    have : l = r.reverse ++ ['\r'] := by
      have := congrArg List.reverse hr
      simpa using this
    exact absurd (by simp [this]) h
  · simp

theorem writeLog_eq_flatten (ls : List (List Char)) :
    writeLog ls = (ls.map (· ++ ['\n'])).flatten := by
  induction ls with
  | nil => rfl
  | cons l ls ih => simp [writeLog, ih]

theorem writeLog_append (a b : List (List Char)) :
    writeLog (a ++ b) = writeLog a ++ writeLog b := by
  induction a with
  | nil => rfl
  | cons l ls ih => simp [writeLog, ih]

theorem lines_writeLog (ls : List (List Char))
    (h : ∀ l ∈ ls, '\n' ∉ l ∧ l.getLast? ≠ some '\r') : lines (writeLog ls) = ls := by
  induction ls with
  | nil => rfl
  | cons l ls ih =>
    have hl := h l (by simp)
    have ih' := ih (fun l' hl' => h l' (by simp [hl']))
    unfold lines at ih' ⊢
    simp only [writeLog]
    rw [linesGo_line l _ hl.1 [], List.append_nil, finishLine_reverse l hl.2, ih']

theorem parseAll_map {ρ} (ser : ρ → List Char) (parse : List Char → Option ρ)
    (h : ∀ r, parse (ser r) = some r) (rs : List ρ) : parseAll parse (rs.map ser) = some rs := by
  induction rs with
  | nil => rfl
  | cons r rs ih => simp [parseAll, h, ih]

/-! ### the concrete JSON-string record -/

theorem jsonString_no_linebreak (s : List Char) :
    '\n' ∉ jsonString s ∧ '\r' ∉ jsonString s := by
  have hesc : ∀ s, '\n' ∉ escape s ∧ '\r' ∉ escape s := by
    intro s
    induction s with
    | nil => simp [escape]
    | cons c cs ih =>
      have := escapeChar_no_linebreak c
      simp only [escape, List.mem_append, not_or]
      exact ⟨⟨this.1, ih.1⟩, ⟨this.2, ih.2⟩⟩
  have := hesc s
  simp only [jsonString, List.mem_cons, List.mem_append, List.not_mem_nil, or_false, not_or]
  exact ⟨⟨by decide, this.1, by decide⟩, ⟨by decide, this.2, by decide⟩⟩

theorem jsonString_getLast (s : List Char) : (jsonString s).getLast? = some '"' := by
  show (('"' :: escape s) ++ ['"']).getLast? = some '"'
  rw [List.getLast?_append]
  rfl

theorem dropWhile_ws_eq (l : List Char) (h : ∀ c, l.head? = some c → isJsonWs c = false) :
    l.dropWhile isJsonWs = l := by
  cases l with
  | nil => rfl
  | cons c cs => simp [h c rfl]

theorem trimJsonWs_eq (l : List Char) (h1 : ∀ c, l.head? = some c → isJsonWs c = false)
    (h2 : ∀ c, l.getLast? = some c → isJsonWs c = false) : trimJsonWs l = l := by
  unfold trimJsonWs
  rw [dropWhile_ws_eq l h1, dropWhile_ws_eq l.reverse (by simpa using h2), List.reverse_reverse]

theorem parseQuoted_jsonString (s : List Char) : parseQuoted (jsonString s) = some s := by
  simp only [jsonString, parseQuoted, List.reverse_append, List.reverse_cons, List.reverse_nil,
    List.nil_append, List.singleton_append, List.reverse_reverse]
  exact unescape_escape' s

theorem parseJsonString_jsonString (s : List Char) : parseJsonString (jsonString s) = some s := by
  unfold parseJsonString
  rw [trimJsonWs_eq _ (by intro c h; simp [jsonString] at h; subst h; decide)
    (by intro c h; rw [jsonString_getLast] at h; cases h; decide)]
  exact parseQuoted_jsonString s

theorem not_getLast_of_not_mem (l : List Char) (c : Char) (h : c ∉ l) : l.getLast? ≠ some c :=
  fun e => h (List.mem_of_getLast? e)

/-! ### a record that is a fixed skeleton around one string -/

theorem stripPrefix_append (p l : List Char) : stripPrefix p (p ++ l) = some l := by
  induction p with
  | nil => cases l <;> rfl
  | cons c cs ih => simp [stripPrefix, ih]

theorem stripSuffix_append (suf l : List Char) : stripSuffix suf (l ++ suf) = some l := by
  simp [stripSuffix, List.reverse_append, stripPrefix_append]

theorem frameSer_head (pre suf s : List Char) (c : Char)
    (hpre : ∀ c, pre.head? = some c → isJsonWs c = false)
    (h : (frameSer pre suf s).head? = some c) : isJsonWs c = false := by
  cases pre with
  | nil => simp [frameSer, jsonString] at h; subst h; decide
  | cons p ps => simp [frameSer] at h; subst h; exact hpre _ rfl

theorem frameSer_getLast (pre suf s : List Char) (c : Char)
    (hsuf : ∀ c, suf.getLast? = some c → isJsonWs c = false)
    (h : (frameSer pre suf s).getLast? = some c) : isJsonWs c = false := by
  have hrev : (frameSer pre suf s).reverse
      = suf.reverse ++ ('"' :: ((escape s).reverse ++ '"' :: pre.reverse)) := by
    simp [frameSer, jsonString]
  rw [← List.head?_reverse, hrev] at h
  cases hs : suf.reverse with
  | nil => rw [hs] at h; simp at h; subst h; decide
  | cons x xs =>
    rw [hs] at h; simp at h; subst h
    apply hsuf
    rw [← List.head?_reverse, hs]; rfl

theorem frameParse_frameSer (pre suf s : List Char)
    (hpre : ∀ c, pre.head? = some c → isJsonWs c = false)
    (hsuf : ∀ c, suf.getLast? = some c → isJsonWs c = false) :
    frameParse pre suf (frameSer pre suf s) = some s := by
  unfold frameParse
  rw [trimJsonWs_eq _ (fun c h => frameSer_head pre suf s c hpre h)
    (fun c h => frameSer_getLast pre suf s c hsuf h)]
  simp only [frameSer, stripPrefix_append, stripSuffix_append]
  exact parseQuoted_jsonString s

theorem frameSer_no_linebreak (pre suf s : List Char) (c : Char) (hc : c = '\n' ∨ c = '\r')
    (hpre : c ∉ pre) (hsuf : c ∉ suf) : c ∉ frameSer pre suf s := by
  have := jsonString_no_linebreak s
  have hj : c ∉ jsonString s := by rcases hc with rfl | rfl; exact this.1; exact this.2
  simp only [frameSer, List.mem_append, not_or]
  exact ⟨hpre, hj, hsuf⟩

/-! ### summary counters -/

section
variable {κ : Type} [DecidableEq κ]

theorem getCount_bump (k k' : κ) (m : List (κ × Nat)) :
    getCount k (bump k' m) = getCount k m + (if k' = k then 1 else 0) := by
  induction m with
  | nil => simp [bump, getCount]
  | cons p m ih =>
    obtain ⟨a, n⟩ := p
    by_cases h : a = k'
    · subst h
      by_cases h2 : a = k <;> simp [bump, getCount, h2]
    · by_cases h2 : a = k
      · subst h2
        have : ¬ k' = a := fun e => h e.symm
        simp [bump, getCount, h, this]
      · simp [bump, getCount, h, h2, ih]

/-- sum of all counters -/
def total (m : List (κ × Nat)) : Nat := (m.map (·.2)).sum

theorem total_bump (k : κ) (m : List (κ × Nat)) : total (bump k m) = total m + 1 := by
  induction m with
  | nil => simp [bump, total]
  | cons p m ih =>
    obtain ⟨a, n⟩ := p
    by_cases h : a = k
    · simp [bump, total, h]; omega
    · simp only [bump, h, if_false]
      simp only [total, List.map_cons, List.sum_cons] at ih ⊢
      omega

theorem keys_bump (k : κ) (m : List (κ × Nat)) :
    (bump k m).map (·.1) = if k ∈ m.map (·.1) then m.map (·.1) else m.map (·.1) ++ [k] := by
  induction m with
  | nil => simp [bump]
  | cons p m ih =>
    obtain ⟨a, n⟩ := p
    by_cases h : a = k
    · subst h; simp [bump]
    · have h' : ¬ k = a := fun e => h e.symm
      simp only [bump, h, if_false, List.map_cons, ih, List.mem_cons, h', false_or]
      split <;> simp

theorem nodup_bump (k : κ) (m : List (κ × Nat)) (h : (m.map (·.1)).Nodup) :
    ((bump k m).map (·.1)).Nodup := by
  rw [keys_bump]
  split
  · exact h
  · rename_i hk
    rw [List.nodup_append]
    refine ⟨h, by simp, ?_⟩
    intro a ha b hb
    simp only [List.mem_singleton] at hb
    subst hb
    exact fun e => hk (e ▸ ha)

theorem pos_bump (k : κ) (m : List (κ × Nat)) (h : ∀ p ∈ m, 0 < p.2) :
    ∀ p ∈ bump k m, 0 < p.2 := by
  induction m with
  | nil => simp [bump]
  | cons q m ih =>
    obtain ⟨a, n⟩ := q
    by_cases ha : a = k
    · intro p hp
      simp only [bump, ha, if_true, List.mem_cons] at hp
      rcases hp with rfl | hp
      · simp
      · exact h p (by simp [hp])
    · intro p hp
      simp only [bump, ha, if_false, List.mem_cons] at hp
      rcases hp with rfl | hp
      · exact h _ (by simp)
      · exact ih (fun p hp => h p (by simp [hp])) p hp

end

theorem getCount_bumpAll (w : List Char) (ws : List (List Char)) (m : List (List Char × Nat)) :
    getCount w (bumpAll ws m) = getCount w m + ws.count w := by
  induction ws generalizing m with
  | nil => simp [bumpAll]
  | cons x xs ih =>
    have := ih (bump x m)
    unfold bumpAll at this ⊢
    simp only [List.foldl_cons, this, getCount_bump, List.count_cons, beq_iff_eq]
    split <;> omega

theorem nodup_bumpAll (ws : List (List Char)) (m : List (List Char × Nat))
    (h : (m.map (·.1)).Nodup) : ((bumpAll ws m).map (·.1)).Nodup := by
  induction ws generalizing m with
  | nil => simpa [bumpAll] using h
  | cons x xs ih =>
    have := ih (bump x m) (nodup_bump x m h)
    unfold bumpAll at this ⊢
    simpa using this

/-- the lint records of kind `k` -/
def isLintOf (k : Nat) : Rec → Bool
  | .lint k' _ => k' = k
  | .configUpdate _ => false

def isLint : Rec → Bool
  | .lint _ _ => true
  | .configUpdate _ => false

/-- occurrences of `w` among the unknown-word context tokens of a record -/
def unknownOcc (w : List Char) : Rec → Nat
  | .lint _ ws => ws.count w
  | .configUpdate _ => 0

theorem summarizeFrom_append (s : Summary) (a b : List Rec) :
    summarizeFrom s (a ++ b) = summarizeFrom (summarizeFrom s a) b := by
  simp [summarizeFrom, List.foldl_append]

theorem summarizeFrom_total (rs : List Rec) : ∀ s : Summary,
    (summarizeFrom s rs).totalApplied = s.totalApplied + rs.countP isLint := by
  induction rs with
  | nil => intro s; simp [summarizeFrom]
  | cons r rs ih =>
    intro s
    have := ih (s.step r)
    simp only [summarizeFrom, List.foldl_cons] at this ⊢
    rw [this]
    cases r <;> simp [Summary.step, isLint, List.countP_cons] <;> omega

theorem summarizeFrom_count (k : Nat) (rs : List Rec) : ∀ s : Summary,
    getCount k (summarizeFrom s rs).lintCounts = getCount k s.lintCounts + rs.countP (isLintOf k) := by
  induction rs with
  | nil => intro s; simp [summarizeFrom]
  | cons r rs ih =>
    intro s
    have := ih (s.step r)
    simp only [summarizeFrom, List.foldl_cons] at this ⊢
    rw [this]
    cases r with
    | lint k' ws =>
      simp only [Summary.step, getCount_bump, isLintOf, List.countP_cons, decide_eq_true_eq]
      split <;> omega
    | configUpdate c => simp [Summary.step, isLintOf]

theorem summarizeFrom_sum (rs : List Rec) : ∀ s : Summary,
    total (summarizeFrom s rs).lintCounts = total s.lintCounts + rs.countP isLint := by
  induction rs with
  | nil => intro s; simp [summarizeFrom]
  | cons r rs ih =>
    intro s
    have := ih (s.step r)
    simp only [summarizeFrom, List.foldl_cons] at this ⊢
    rw [this]
    cases r with
    | lint k' ws => simp only [Summary.step, total_bump, isLint, List.countP_cons]; simp; omega
    | configUpdate c => simp [Summary.step, isLint]

theorem summarizeFrom_nodup (rs : List Rec) : ∀ s : Summary,
    (s.lintCounts.map (·.1)).Nodup → (s.misspelled.map (·.1)).Nodup →
    ((summarizeFrom s rs).lintCounts.map (·.1)).Nodup ∧
    ((summarizeFrom s rs).misspelled.map (·.1)).Nodup := by
  induction rs with
  | nil => intro s h1 h2; exact ⟨h1, h2⟩
  | cons r rs ih =>
    intro s h1 h2
    simp only [summarizeFrom, List.foldl_cons]
    apply ih (s.step r)
    · cases r with
      | lint k ws => exact nodup_bump k _ h1
      | configUpdate c => exact h1
    · cases r with
      | lint k ws => exact nodup_bumpAll ws _ h2
      | configUpdate c => exact h2

theorem summarizeFrom_misspelled (w : List Char) (rs : List Rec) : ∀ s : Summary,
    getCount w (summarizeFrom s rs).misspelled
      = getCount w s.misspelled + (rs.map (unknownOcc w)).sum := by
  induction rs with
  | nil => intro s; simp [summarizeFrom]
  | cons r rs ih =>
    intro s
    have := ih (s.step r)
    simp only [summarizeFrom, List.foldl_cons] at this ⊢
    rw [this]
    cases r with
    | lint k' ws =>
      simp only [Summary.step, getCount_bumpAll, unknownOcc, List.map_cons, List.sum_cons]; omega
    | configUpdate c => simp [Summary.step, unknownOcc]

/-- the last configuration update, or the start value -/
def lastConfig (d : Nat) : List Rec → Nat
  | [] => d
  | .configUpdate c :: rs => lastConfig c rs
  | .lint _ _ :: rs => lastConfig d rs

theorem summarizeFrom_config (rs : List Rec) : ∀ s : Summary,
    (summarizeFrom s rs).finalConfig = lastConfig s.finalConfig rs := by
  induction rs with
  | nil => intro s; rfl
  | cons r rs ih =>
    intro s
    have := ih (s.step r)
    simp only [summarizeFrom, List.foldl_cons] at this ⊢
    rw [this]
    cases r <;> simp [Summary.step, lastConfig]

end Harper.Stats
