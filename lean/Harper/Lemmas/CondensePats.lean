import Harper.Lemmas.Condense
import Harper.Lemmas.CondensePattern
/-! The three condense patterns (contraction, ellipsis, latin) are total, bounded and have monotone
match ends (`PatOK`), hence `condense_pattern` preserves tiling for them; `match_quotes`;
composition: `Document::parse` preserves tiling. -/
namespace Harper

/-! ## the concrete patterns -/

theorem contractionPat_eq (src : List Char) (toks : List Tok) :
    contractionPat src toks = .ok (match toks with
      | a :: b :: c :: _ => if a.kind.isWord && b.kind.isApostrophe && c.kind.isWord then 3 else 0
      | _ => 0) := by
  unfold contractionPat seqPat
  match toks with
  | [] => simp [seqGo, kindAtom]
  | [a] => cases h : a.kind.isWord <;> simp [seqGo, kindAtom, h]
  | [a, b] =>
    cases h : a.kind.isWord <;> cases h2 : b.kind.isApostrophe <;> simp [seqGo, kindAtom, h, h2]
  | a :: b :: c :: r =>
    cases h : a.kind.isWord <;> cases h2 : b.kind.isApostrophe <;> cases h3 : c.kind.isWord <;>
      simp [seqGo, kindAtom, h, h2, h3]

theorem contraction_patOK (src : List Char) : PatOK contractionPat src (fun _ => True) where
  tail := fun _ _ _ => trivial
  ok := by
    intro v _
    refine ⟨_, contractionPat_eq src v, ?_⟩
    match v with
    | [] => simp
    | [a] => simp
    | [a, b] => simp
    | a :: b :: c :: r => simp only []; split <;> simp
  mono := by
    intro u v n n' hu _ hn hpos hn' hpos'
    rw [contractionPat_eq] at hn hn'
    have h3 : ∀ (l : List Tok) (k : Nat), (Except.ok (match l with
      | a :: b :: c :: _ => if a.kind.isWord && b.kind.isApostrophe && c.kind.isWord then 3 else 0
      | _ => 0) : Except Panic Nat) = .ok k → k > 0 → k = 3 := by
      intro l k h hk
      injection h with h
      subst h
      split at hk
      · split at hk <;> simp_all
      · simp at hk
    have := h3 _ _ hn hpos
    have := h3 _ _ hn' hpos'
    omega


/-- number of leading period tokens -/
def periods (toks : List Tok) : Nat := countWhile (fun t => t.kind.isPeriod) toks

theorem periods_cons (t : Tok) (ts : List Tok) :
    periods (t :: ts) = if t.kind.isPeriod then periods ts + 1 else 0 := rfl

theorem periodSeq_eq (src : List Char) (toks : List Tok) :
    seqPat [kindAtom Kind.isPeriod] src toks = .ok (match toks with
      | t :: _ => if t.kind.isPeriod then 1 else 0
      | [] => 0) := by
  unfold seqPat
  match toks with
  | [] => simp [seqGo, kindAtom]
  | t :: r => cases h : t.kind.isPeriod <;> simp [seqGo, kindAtom, h]

theorem repGo_periods (src : List Char) (toks : List Tok) : ∀ (fuel cursor rep : Nat), toks.length < fuel →
    repGo (seqPat [kindAtom Kind.isPeriod]) 2 src fuel cursor rep toks =
      .ok (if rep + periods toks ≥ 2 then cursor + periods toks else 0) := by
  induction toks with
  | nil =>
    intro fuel cursor rep hf
    cases fuel with
    | zero => omega
    | succ fuel => simp [repGo, periodSeq_eq, periods, countWhile]
  | cons t ts ih =>
    intro fuel cursor rep hf
    cases fuel with
    | zero => omega
    | succ fuel =>
      simp only [repGo, periodSeq_eq]
      cases h : t.kind.isPeriod
      · simp [periods_cons, h]
      · simp only [if_true, if_neg (show ¬ (1 = 0) by omega), List.length_cons]
        rw [if_neg (by omega)]
        simp only [List.drop_succ_cons, List.drop_zero]
        rw [ih fuel (cursor + 1) (rep + 1) (by simp at hf; omega)]
        rw [periods_cons, h, if_pos rfl]
        congr 1
        by_cases hc : rep + 1 + periods ts ≥ 2
        · rw [if_pos hc, if_pos (by omega)]; omega
        · rw [if_neg hc, if_neg (by omega)]

theorem ellipsisPat_eq (src : List Char) (toks : List Tok) :
    ellipsisPat src toks = .ok (if periods toks ≥ 2 then periods toks else 0) := by
  unfold ellipsisPat repPat
  rw [repGo_periods src toks _ 0 0 (by omega)]
  simp

theorem countWhile_append_le {α} (p : α → Bool) (u v : List α) :
    countWhile p (u ++ v) ≤ u.length + countWhile p v := by
  induction u with
  | nil => simp
  | cons a u ih => simp only [List.cons_append, countWhile, List.length_cons]; split <;> omega

theorem ellipsis_patOK (src : List Char) : PatOK ellipsisPat src (fun _ => True) where
  tail := fun _ _ _ => trivial
  ok := by
    intro v _
    refine ⟨_, ellipsisPat_eq src v, ?_⟩
    have := countWhile_le (fun t : Tok => t.kind.isPeriod) v
    unfold periods
    split <;> omega
  mono := by
    intro u v n n' hu _ hn hpos hn' hpos'
    rw [ellipsisPat_eq] at hn hn'
    injection hn with hn
    injection hn' with hn'
    have := countWhile_append_le (fun t : Tok => t.kind.isPeriod) u v
    unfold periods at hn hn'
    split at hn <;> split at hn' <;> omega

end Harper

namespace Harper

/-- every token covers at least one character of the text -/
def InB (src : List Char) (toks : List Tok) : Prop :=
  ∀ t ∈ toks, t.span.start < t.span.stop ∧ t.span.stop ≤ src.length

def txt (src : List Char) (t : Tok) : List Char := (src.drop t.span.start).take (t.span.stop - t.span.start)

def inWordSet (ws : List (List Char)) (cs : List Char) : Bool :=
  ws.any (fun w => cs.length == w.length && eqIgnoreAsciiCase cs w)

def isEtc (src : List Char) (t : Tok) : Bool :=
  t.kind.isWord && inWordSet [['e', 't', 'c'], ['v', 's']] (txt src t)

def isCap (src : List Char) (w : List Char) (t : Tok) : Bool :=
  t.kind.isWord && (t.span.len == w.length && eqIgnoreAsciiCase (txt src t) w)

theorem seqGo_step_bool (src : List Char) (p : Matcher) (ps : List Matcher) (acc : Nat) (t : Tok)
    (r : List Tok) (b : Bool) (h : p src (t :: r) = .ok (if b then 1 else 0)) :
    seqGo src (p :: ps) acc (t :: r) = if b then seqGo src ps (acc + 1) r else .ok 0 := by
  simp only [seqGo, h]
  cases b
  · simp
  · simp only [if_true, List.length_cons]
    rw [if_neg (by omega), if_neg (by omega)]
    rfl

theorem seqGo_step (src : List Char) (p : Matcher) (ps : List Matcher) (acc : Nat) (toks : List Tok)
    (n : Nat) (h : p src toks = .ok n) :
    seqGo src (p :: ps) acc toks = if n = 0 then .ok 0 else if n > toks.length then .error .sliceOOB
      else seqGo src ps (acc + n) (toks.drop n) := by
  simp only [seqGo, h]

theorem wordSetAtom_eq (src : List Char) (ws : List (List Char)) (t : Tok) (r : List Tok)
    (h1 : t.span.start < t.span.stop) (h2 : t.span.stop ≤ src.length) :
    wordSetAtom ws src (t :: r) = .ok (if t.kind.isWord && inWordSet ws (txt src t) then 1 else 0) := by
  simp only [wordSetAtom]
  cases hw : t.kind.isWord
  · simp
  · simp only [Bool.not_true, Bool.false_eq_true, if_false, Bool.true_and]
    rw [getContent_ok _ _ h1 h2]
    rfl

theorem anyCapAtom_eq (src : List Char) (w : List Char) (t : Tok) (r : List Tok)
    (h1 : t.span.start < t.span.stop) (h2 : t.span.stop ≤ src.length) :
    anyCapAtom w src (t :: r) = .ok (if isCap src w t then 1 else 0) := by
  simp only [anyCapAtom, isCap]
  by_cases hw : t.kind.isWord = true
  · simp only [hw, Bool.not_true, Bool.false_eq_true, if_false, Bool.true_and]
    rw [if_neg (by omega)]
    by_cases hl : t.span.len = w.length
    · rw [if_neg (by simpa using hl), getContent_ok _ _ h1 h2]
      simp [hl, txt]
    · rw [if_pos (by simpa using hl)]
      simp [hl]
  · simp [hw]

theorem kindAtom_eq (src : List Char) (p : Kind → Bool) (t : Tok) (r : List Tok) :
    kindAtom p src (t :: r) = .ok (if p t.kind then 1 else 0) := rfl

def latinA : Matcher := seqPat [wordSetAtom [['e', 't', 'c'], ['v', 's']], kindAtom Kind.isPeriod]
def latinB : Matcher :=
  seqPat [anyCapAtom ['e', 't'], whitespaceAtom, anyCapAtom ['a', 'l'], kindAtom Kind.isPeriod]

def headPeriod : List Tok → Bool
  | c :: _ => c.kind.isPeriod
  | [] => false

theorem seqGo_period (src : List Char) (acc : Nat) (r : List Tok) :
    seqGo src [kindAtom Kind.isPeriod] acc r = .ok (if headPeriod r then acc + 1 else 0) := by
  cases r with
  | nil => simp [seqGo, kindAtom, headPeriod]
  | cons c r' =>
    rw [seqGo_step_bool src _ _ acc c r' c.kind.isPeriod (kindAtom_eq _ _ _ _)]
    cases h : c.kind.isPeriod <;> simp [headPeriod, h, seqGo]

theorem latinA_eq (src : List Char) (t : Tok) (r : List Tok) (h1 : t.span.start < t.span.stop)
    (h2 : t.span.stop ≤ src.length) :
    latinA src (t :: r) = .ok (if isEtc src t && headPeriod r then 2 else 0) := by
  unfold latinA seqPat
  rw [seqGo_step_bool src _ _ 0 t r _ (wordSetAtom_eq src _ t r h1 h2), seqGo_period]
  unfold isEtc
  cases (t.kind.isWord && inWordSet [['e', 't', 'c'], ['v', 's']] (txt src t)) <;> simp

/-- `al` and the period after the whitespace -/
def alPeriod (src : List Char) : List Tok → Bool
  | a :: p :: _ => isCap src ['a', 'l'] a && p.kind.isPeriod
  | _ => false

abbrev wsCount (r : List Tok) : Nat := countWhile (fun t => t.kind.isWhitespace) r

theorem latinB_eq (src : List Char) (t : Tok) (r : List Tok) (hin : InB src (t :: r)) :
    latinB src (t :: r) =
      .ok (if isCap src ['e', 't'] t && (decide (wsCount r ≥ 1) && alPeriod src (r.drop (wsCount r)))
        then wsCount r + 3 else 0) := by
  have ht := hin t (by simp)
  unfold latinB seqPat
  rw [seqGo_step_bool src _ _ 0 t r _ (anyCapAtom_eq src _ t r ht.1 ht.2)]
  cases he : isCap src ['e', 't'] t
  · simp
  · simp only [if_true, Bool.true_and]
    rw [seqGo_step src whitespaceAtom _ _ r (wsCount r) rfl]
    by_cases hw : wsCount r = 0
    · rw [if_pos hw]; simp [hw]
    · rw [if_neg hw, if_neg (by have : wsCount r ≤ r.length := countWhile_le _ r; omega)]
      have hge : wsCount r ≥ 1 := by omega
      simp only [hge, decide_true, Bool.true_and]
      cases hd : r.drop (wsCount r) with
      | nil => simp [seqGo, anyCapAtom, alPeriod, hd]
      | cons a rest =>
        have ha := hin a (by
          have : a ∈ r.drop (wsCount r) := by rw [hd]; simp
          exact List.mem_cons_of_mem _ (List.mem_of_mem_drop this))
        rw [seqGo_step_bool src _ _ _ a rest _ (anyCapAtom_eq src _ a rest ha.1 ha.2), seqGo_period]
        cases rest with
        | nil => cases hc : isCap src ['a', 'l'] a <;> simp [alPeriod, headPeriod, hc]
        | cons p rest' =>
          cases hc : isCap src ['a', 'l'] a <;> cases hp : p.kind.isPeriod <;>
            simp [alPeriod, headPeriod, hp, hc]
          omega


/-- the length `latinPat` reports -/
def latinLen (src : List Char) : List Tok → Nat
  | [] => 0
  | t :: r =>
    let a := if isEtc src t && headPeriod r then 2 else 0
    let b := if isCap src ['e', 't'] t && (decide (wsCount r ≥ 1) && alPeriod src (r.drop (wsCount r)))
      then wsCount r + 3 else 0
    if b > a then b else a

theorem latinPat_eq (src : List Char) (toks : List Tok) (hin : InB src toks) :
    latinPat src toks = .ok (latinLen src toks) := by
  have hdef : latinPat = eitherPat [latinA, latinB] := rfl
  rw [hdef]
  cases toks with
  | nil => simp [eitherPat, eitherGo, latinA, latinB, seqPat, seqGo, wordSetAtom, anyCapAtom, latinLen]
  | cons t r =>
    have ht := hin t (by simp)
    simp only [eitherPat, eitherGo, latinA_eq src t r ht.1 ht.2, latinB_eq src t r hin, latinLen]
    congr 1
    cases (isEtc src t && headPeriod r) <;> simp

theorem InB.tail {src : List Char} {t : Tok} {ts : List Tok} (h : InB src (t :: ts)) : InB src ts :=
  fun x hx => h x (List.mem_cons_of_mem _ hx)

theorem txt_length (src : List Char) (t : Tok) (h1 : t.span.start < t.span.stop)
    (h2 : t.span.stop ≤ src.length) : (txt src t).length = t.span.stop - t.span.start := by
  simp [txt]; omega

theorem countWhile_drop {α} (p : α → Bool) (l : List α) (k : Nat) (h : k < countWhile p l) :
    ∃ x rest, l.drop k = x :: rest ∧ p x = true := by
  induction l generalizing k with
  | nil => simp [countWhile] at h
  | cons a l ih =>
    simp only [countWhile] at h
    split at h
    · cases k with
      | zero => exact ⟨a, l, rfl, by assumption⟩
      | succ k => simpa using ih k (by omega)
    · omega

theorem latinLen_pos {src : List Char} {l : List Tok} (h : latinLen src l > 0) :
    ∃ t r, l = t :: r ∧ t.kind.isWord = true ∧ latinLen src l ≥ 2 ∧
      (isEtc src t = true ∨ isCap src ['e', 't'] t = true) := by
  cases l with
  | nil => simp [latinLen] at h
  | cons t r =>
    refine ⟨t, r, rfl, ?_⟩
    simp only [latinLen] at h ⊢
    by_cases hb : (isCap src ['e', 't'] t && (decide (wsCount r ≥ 1) && alPeriod src (r.drop (wsCount r)))) = true
    · have hc : isCap src ['e', 't'] t = true := by simp at hb; exact hb.1
      refine ⟨by simp [isCap] at hc; exact hc.1, ?_, Or.inr hc⟩
      rw [if_pos hb]
      split <;> split <;> omega
    · rw [if_neg hb] at h ⊢
      by_cases ha : (isEtc src t && headPeriod r) = true
      · have hc : isEtc src t = true := by simp at ha; exact ha.1
        refine ⟨by simp [isEtc] at hc; exact hc.1, ?_, Or.inl hc⟩
        rw [if_pos ha]; simp
      · rw [if_neg ha] at h; simp at h

theorem al_not_start (src : List Char) (a : Tok) (h1 : a.span.start < a.span.stop)
    (h2 : a.span.stop ≤ src.length) (hal : isCap src ['a', 'l'] a = true) :
    isEtc src a = false ∧ isCap src ['e', 't'] a = false := by
  have hlen := txt_length src a h1 h2
  simp only [isCap, Bool.and_eq_true, beq_iff_eq, Span.len] at hal
  obtain ⟨hw, hl, he⟩ := hal
  simp only [List.length_cons, List.length_nil] at hl
  match htx : txt src a, hlen with
  | [c0, c1], _ =>
    rw [htx] at he
    simp only [eqIgnoreAsciiCase, Bool.and_eq_true, beq_iff_eq] at he
    have nv : lowerAscii 'a' ≠ lowerAscii 'v' := by decide
    have ne : lowerAscii 'a' ≠ lowerAscii 'e' := by decide
    constructor
    · simp only [isEtc, inWordSet, htx, List.any_cons, List.any_nil, eqIgnoreAsciiCase]
      simp [he.1, nv]
    · simp only [isCap, htx, eqIgnoreAsciiCase]
      simp [he.1, ne]
  | [], hlen => simp at hlen; omega
  | [_], hlen => simp at hlen; omega
  | _ :: _ :: _ :: _, hlen => simp at hlen; omega

theorem isWord_not_ws {k : Kind} (h : k.isWord = true) : k.isWhitespace = false := by
  cases k <;> simp_all [Kind.isWord, Kind.isWhitespace]

theorem latin_patOK (src : List Char) : PatOK latinPat src (InB src) where
  tail := fun _ _ h => h.tail
  ok := by
    intro v hv
    refine ⟨_, latinPat_eq src v hv, ?_⟩
    cases v with
    | nil => simp [latinLen]
    | cons t r =>
      simp only [latinLen, List.length_cons]
      have hA : (if (isEtc src t && headPeriod r) = true then 2 else 0) ≤ r.length + 1 := by
        split
        · rename_i h
          cases r with
          | nil => simp [headPeriod] at h
          | cons c r' => simp
        · omega
      have hB : (if (isCap src ['e', 't'] t && (decide (wsCount r ≥ 1) &&
          alPeriod src (r.drop (wsCount r)))) = true then wsCount r + 3 else 0) ≤ r.length + 1 := by
        split
        · rename_i h
          simp only [Bool.and_eq_true] at h
          have hal := h.2.2
          match hd : r.drop (wsCount r), hal with
          | a :: p :: rest, _ =>
            have := congrArg List.length hd
            simp at this
            omega
          | [], hal => simp [alPeriod] at hal
          | [_], hal => simp [alPeriod] at hal
        · omega
      generalize (if (isEtc src t && headPeriod r) = true then 2 else 0) = A at hA ⊢
      generalize (if (isCap src ['e', 't'] t && (decide (wsCount r ≥ 1) &&
          alPeriod src (r.drop (wsCount r)))) = true then wsCount r + 3 else 0) = B at hB ⊢
      split <;> omega
  mono := by
    intro u v n n' hu hP hn hpos hn' hpos'
    rw [latinPat_eq src _ hP] at hn
    have hPv : InB src v := fun x hx => hP x (List.mem_append_right _ hx)
    rw [latinPat_eq src _ hPv] at hn'
    injection hn with hn
    injection hn' with hn'
    subst hn; subst hn'
    obtain ⟨tv, rv, hv, hwv, hge2, hstart⟩ := latinLen_pos hpos'
    cases u with
    | nil => exact absurd rfl hu
    | cons t u' =>
      generalize hN' : latinLen src v = N' at hge2 hpos' ⊢
      simp only [List.cons_append, latinLen, List.length_cons] at hpos ⊢
      by_cases hb : (isCap src ['e', 't'] t && (decide (wsCount (u' ++ v) ≥ 1) &&
          alPeriod src ((u' ++ v).drop (wsCount (u' ++ v))))) = true
      · rw [if_pos hb]
        simp only [Bool.and_eq_true, decide_eq_true_eq] at hb
        obtain ⟨_, hw1, hal⟩ := hb
        by_cases hlen : u'.length ≥ wsCount (u' ++ v) + 1
        · have hA : (if (isEtc src t && headPeriod (u' ++ v)) = true then 2 else 0) ≤ 2 := by split <;> omega
          generalize (if (isEtc src t && headPeriod (u' ++ v)) = true then 2 else 0) = A at hA ⊢
          split <;> omega
        · exfalso
          have hdrop : (u' ++ v).drop u'.length = v := by simp
          by_cases hlt : u'.length < wsCount (u' ++ v)
          · obtain ⟨x, rest, hx, hws⟩ := countWhile_drop (fun t : Tok => t.kind.isWhitespace) (u' ++ v) _ hlt
            rw [hdrop, hv] at hx
            injection hx with hx _
            subst hx
            rw [isWord_not_ws hwv] at hws
            cases hws
          · have heq : u'.length = wsCount (u' ++ v) := by omega
            rw [← heq, hdrop, hv] at hal
            match rv, hal with
            | p :: rest, hal =>
              simp only [alPeriod, Bool.and_eq_true] at hal
              have htv := hPv tv (by rw [hv]; simp)
              have := al_not_start src tv htv.1 htv.2 hal.1
              rcases hstart with h | h
              · rw [this.1] at h; cases h
              · rw [this.2] at h; cases h
            | [], hal => simp [alPeriod] at hal
      · rw [if_neg hb] at hpos ⊢
        have hA : (if (isEtc src t && headPeriod (u' ++ v)) = true then 2 else 0) ≤ 2 := by split <;> omega
        generalize (if (isEtc src t && headPeriod (u' ++ v)) = true then 2 else 0) = A at hA hpos ⊢
        split <;> omega

end Harper

namespace Harper

theorem Tiles.inB {src : List Char} {toks : List Tok} {p q : Nat} (h : Tiles toks p q) (hq : q ≤ src.length) :
    InB src toks := by
  induction toks generalizing p with
  | nil => intro t ht; cases ht
  | cons a ts ih =>
    obtain ⟨a1, a2, hr⟩ := h
    intro t ht
    rcases List.mem_cons.mp ht with rfl | ht
    · have := hr.le; exact ⟨by omega, by omega⟩
    · exact ih hr t ht

theorem condenseContractions_tiles' (src : List Char) (toks : List Tok) (p q : Nat) (h : Tiles toks p q) :
    ∃ out, condenseContractions src toks = .ok out ∧ Tiles out p q :=
  condensePattern_tiles_of _ _ src _ (contraction_patOK src) toks p q trivial h

theorem condenseEllipsis_tiles' (src : List Char) (toks : List Tok) (p q : Nat) (h : Tiles toks p q) :
    ∃ out, condenseEllipsis src toks = .ok out ∧ Tiles out p q :=
  condensePattern_tiles_of _ _ src _ (ellipsis_patOK src) toks p q trivial h

theorem condenseLatin_tiles' (src : List Char) (toks : List Tok) (p q : Nat) (h : Tiles toks p q)
    (hq : q ≤ src.length) : ∃ out, condenseLatin src toks = .ok out ∧ Tiles out p q :=
  condensePattern_tiles_of _ _ src _ (latin_patOK src) toks p q (h.inB hq) h

/-! ## `match_quotes` -/

theorem setTwins_span (tab : List (Nat × Nat)) (i : Nat) (toks : List Tok) :
    (setTwins tab i toks).map (·.span) = toks.map (·.span) := by
  induction toks generalizing i with
  | nil => rfl
  | cons t ts ih =>
    simp only [setTwins, List.map_cons, ih]
    congr 1
    split <;> rfl

theorem tiles_of_spans {l1 l2 : List Tok} (h : l1.map (·.span) = l2.map (·.span)) {p q : Nat}
    (ht : Tiles l2 p q) : Tiles l1 p q := by
  induction l1 generalizing l2 p with
  | nil => cases l2 <;> simp_all
  | cons a l1 ih =>
    cases l2 with
    | nil => simp at h
    | cons b l2 =>
      simp only [List.map_cons, List.cons.injEq] at h
      obtain ⟨b1, b2, hr⟩ := ht
      rw [← h.1] at b1 b2 hr
      exact ⟨b1, b2, ih h.2 hr⟩

theorem matchQuotes_tiles' (toks : List Tok) (p q : Nat) (h : Tiles toks p q) : Tiles (matchQuotes toks) p q :=
  tiles_of_spans (setTwins_span _ _ _) h

/-! ## all passes -/

theorem condenseAll_tiles (src : List Char) (t0 : List Tok) (q : Nat) (h : Tiles t0 0 q) (hq : q ≤ src.length) :
    ∃ out, condenseAll src t0 = .ok out ∧ Tiles out 0 q := by
  unfold condenseAll
  have h3 := newlinesToBreaks_tiles' _ _ _ (condenseNewlines_tiles' _ _ _ (condenseSpaces_tiles' _ _ _ h))
  obtain ⟨t4, e4, h4⟩ := condenseContractions_tiles' src _ _ _ h3
  obtain ⟨t6, e6, h6⟩ := numberSuffixes_tiles' src _ _ _ (dottedInitialisms_tiles' _ _ _ h4) hq
  obtain ⟨t7, e7, h7⟩ := condenseEllipsis_tiles' src _ _ _ h6
  obtain ⟨t8, e8, h8⟩ := condenseLatin_tiles' src _ _ _ h7 hq
  simp only [e4, e6, e7, e8]
  exact ⟨_, rfl, matchQuotes_tiles' _ _ _ h8⟩

end Harper

namespace Harper

/-- `condense_contractions` and `condense_ellipsis` look at token kinds only: no token vector makes them panic -/
theorem condenseContractions_total' (src : List Char) (toks : List Tok) : ∃ out, condenseContractions src toks = .ok out :=
  condensePattern_total_of _ _ src _ (contraction_patOK src) toks trivial

theorem condenseEllipsis_total' (src : List Char) (toks : List Tok) : ∃ out, condenseEllipsis src toks = .ok out :=
  condensePattern_total_of _ _ src _ (ellipsis_patOK src) toks trivial


theorem matchQuotes_span (toks : List Tok) : (matchQuotes toks).map (·.span) = toks.map (·.span) :=
  setTwins_span _ _ _

/-! ### the Latin pattern on tokens that may be zero-width (`start ≤ stop`): copies of the lemmas above with `≤` -/

theorem wordSetAtom_eq_le (src : List Char) (ws : List (List Char)) (t : Tok) (r : List Tok)
    (h1 : t.span.start ≤ t.span.stop) (h2 : t.span.stop ≤ src.length) :
    wordSetAtom ws src (t :: r) = .ok (if t.kind.isWord && inWordSet ws (txt src t) then 1 else 0) := by
  simp only [wordSetAtom]
  cases hw : t.kind.isWord
  · simp
  · simp only [Bool.not_true, Bool.false_eq_true, if_false, Bool.true_and]
    rw [getContent_ok_le _ _ h1 h2]
    rfl

theorem anyCapAtom_eq_le (src : List Char) (w : List Char) (t : Tok) (r : List Tok)
    (h1 : t.span.start ≤ t.span.stop) (h2 : t.span.stop ≤ src.length) :
    anyCapAtom w src (t :: r) = .ok (if isCap src w t then 1 else 0) := by
  simp only [anyCapAtom, isCap]
  by_cases hw : t.kind.isWord = true
  · simp only [hw, Bool.not_true, Bool.false_eq_true, if_false, Bool.true_and]
    rw [if_neg (by omega)]
    by_cases hl : t.span.len = w.length
    · rw [if_neg (by simpa using hl), getContent_ok_le _ _ h1 h2]
      simp [hl, txt]
    · rw [if_pos (by simpa using hl)]
      simp [hl]
  · simp [hw]

theorem latinA_eq_le (src : List Char) (t : Tok) (r : List Tok) (h1 : t.span.start ≤ t.span.stop)
    (h2 : t.span.stop ≤ src.length) :
    latinA src (t :: r) = .ok (if isEtc src t && headPeriod r then 2 else 0) := by
  unfold latinA seqPat
  rw [seqGo_step_bool src _ _ 0 t r _ (wordSetAtom_eq_le src _ t r h1 h2), seqGo_period]
  unfold isEtc
  cases (t.kind.isWord && inWordSet [['e', 't', 'c'], ['v', 's']] (txt src t)) <;> simp

theorem latinB_eq_le (src : List Char) (t : Tok) (r : List Tok) (hin : InBounds src.length (t :: r)) :
    latinB src (t :: r) =
      .ok (if isCap src ['e', 't'] t && (decide (wsCount r ≥ 1) && alPeriod src (r.drop (wsCount r)))
        then wsCount r + 3 else 0) := by
  have ht := hin t (by simp)
  unfold latinB seqPat
  rw [seqGo_step_bool src _ _ 0 t r _ (anyCapAtom_eq_le src _ t r ht.1 ht.2)]
  cases he : isCap src ['e', 't'] t
  · simp
  · simp only [if_true, Bool.true_and]
    rw [seqGo_step src whitespaceAtom _ _ r (wsCount r) rfl]
    by_cases hw : wsCount r = 0
    · rw [if_pos hw]; simp [hw]
    · rw [if_neg hw, if_neg (by have : wsCount r ≤ r.length := countWhile_le _ r; omega)]
      have hge : wsCount r ≥ 1 := by omega
      simp only [hge, decide_true, Bool.true_and]
      cases hd : r.drop (wsCount r) with
      | nil => simp [seqGo, anyCapAtom, alPeriod]
      | cons a rest =>
        have ha := hin a (by
          have : a ∈ r.drop (wsCount r) := by rw [hd]; simp
          exact List.mem_cons_of_mem _ (List.mem_of_mem_drop this))
        rw [seqGo_step_bool src _ _ _ a rest _ (anyCapAtom_eq_le src _ a rest ha.1 ha.2), seqGo_period]
        cases rest with
        | nil => cases hc : isCap src ['a', 'l'] a <;> simp [alPeriod, headPeriod, hc]
        | cons p rest' =>
          cases hc : isCap src ['a', 'l'] a <;> cases hp : p.kind.isPeriod <;>
            simp [alPeriod, headPeriod, hp, hc]
          omega

theorem latinPat_eq_le (src : List Char) (toks : List Tok) (hin : InBounds src.length toks) :
    latinPat src toks = .ok (latinLen src toks) := by
  have hdef : latinPat = eitherPat [latinA, latinB] := rfl
  rw [hdef]
  cases toks with
  | nil => simp [eitherPat, eitherGo, latinA, latinB, seqPat, seqGo, wordSetAtom, anyCapAtom, latinLen]
  | cons t r =>
    have ht := hin t (by simp)
    simp only [eitherPat, eitherGo, latinA_eq_le src t r ht.1 ht.2, latinB_eq_le src t r hin, latinLen]
    congr 1
    cases (isEtc src t && headPeriod r) <;> simp

theorem txt_length_le (src : List Char) (t : Tok) (h1 : t.span.start ≤ t.span.stop)
    (h2 : t.span.stop ≤ src.length) : (txt src t).length = t.span.stop - t.span.start := by
  simp [txt]; omega

theorem al_not_start_le (src : List Char) (a : Tok) (h1 : a.span.start ≤ a.span.stop)
    (h2 : a.span.stop ≤ src.length) (hal : isCap src ['a', 'l'] a = true) :
    isEtc src a = false ∧ isCap src ['e', 't'] a = false := by
  have hlen := txt_length_le src a h1 h2
  simp only [isCap, Bool.and_eq_true, beq_iff_eq, Span.len] at hal
  obtain ⟨hw, hl, he⟩ := hal
  simp only [List.length_cons, List.length_nil] at hl
  match htx : txt src a, hlen with
  | [c0, c1], _ =>
    rw [htx] at he
    simp only [eqIgnoreAsciiCase, Bool.and_eq_true, beq_iff_eq] at he
    have nv : lowerAscii 'a' ≠ lowerAscii 'v' := by decide
    have ne : lowerAscii 'a' ≠ lowerAscii 'e' := by decide
    constructor
    · simp only [isEtc, inWordSet, htx, List.any_cons, List.any_nil, eqIgnoreAsciiCase]
      simp [he.1, nv]
    · simp only [isCap, htx, eqIgnoreAsciiCase]
      simp [he.1, ne]
  | [], hlen => simp at hlen; omega
  | [_], hlen => simp at hlen; omega
  | _ :: _ :: _ :: _, hlen => simp at hlen; omega

theorem latin_patOK_le (src : List Char) : PatOK latinPat src (InBounds src.length) where
  tail := fun _ _ h x hx => h x (List.mem_cons_of_mem _ hx)
  ok := by
    intro v hv
    refine ⟨_, latinPat_eq_le src v hv, ?_⟩
    cases v with
    | nil => simp [latinLen]
    | cons t r =>
      simp only [latinLen, List.length_cons]
      have hA : (if (isEtc src t && headPeriod r) = true then 2 else 0) ≤ r.length + 1 := by
        split
        · rename_i h
          cases r with
          | nil => simp [headPeriod] at h
          | cons c r' => simp
        · omega
      have hB : (if (isCap src ['e', 't'] t && (decide (wsCount r ≥ 1) &&
          alPeriod src (r.drop (wsCount r)))) = true then wsCount r + 3 else 0) ≤ r.length + 1 := by
        split
        · rename_i h
          simp only [Bool.and_eq_true] at h
          have hal := h.2.2
          match hd : r.drop (wsCount r), hal with
          | a :: p :: rest, _ =>
            have := congrArg List.length hd
            simp at this
            omega
          | [], hal => simp [alPeriod] at hal
          | [_], hal => simp [alPeriod] at hal
        · omega
      generalize (if (isEtc src t && headPeriod r) = true then 2 else 0) = A at hA ⊢
      generalize (if (isCap src ['e', 't'] t && (decide (wsCount r ≥ 1) &&
          alPeriod src (r.drop (wsCount r)))) = true then wsCount r + 3 else 0) = B at hB ⊢
      split <;> omega
  mono := by
    intro u v n n' hu hP hn hpos hn' hpos'
    rw [latinPat_eq_le src _ hP] at hn
    have hPv : InBounds src.length v := fun x hx => hP x (List.mem_append_right _ hx)
    rw [latinPat_eq_le src _ hPv] at hn'
    injection hn with hn
    injection hn' with hn'
    subst hn; subst hn'
    obtain ⟨tv, rv, hv, hwv, hge2, hstart⟩ := latinLen_pos hpos'
    cases u with
    | nil => exact absurd rfl hu
    | cons t u' =>
      generalize hN' : latinLen src v = N' at hge2 hpos' ⊢
      simp only [List.cons_append, latinLen, List.length_cons] at hpos ⊢
      by_cases hb : (isCap src ['e', 't'] t && (decide (wsCount (u' ++ v) ≥ 1) &&
          alPeriod src ((u' ++ v).drop (wsCount (u' ++ v))))) = true
      · rw [if_pos hb]
        simp only [Bool.and_eq_true, decide_eq_true_eq] at hb
        obtain ⟨_, hw1, hal⟩ := hb
        by_cases hlen : u'.length ≥ wsCount (u' ++ v) + 1
        · have hA : (if (isEtc src t && headPeriod (u' ++ v)) = true then 2 else 0) ≤ 2 := by split <;> omega
          generalize (if (isEtc src t && headPeriod (u' ++ v)) = true then 2 else 0) = A at hA ⊢
          split <;> omega
        · exfalso
          have hdrop : (u' ++ v).drop u'.length = v := by simp
          by_cases hlt : u'.length < wsCount (u' ++ v)
          · obtain ⟨x, rest, hx, hws⟩ := countWhile_drop (fun t : Tok => t.kind.isWhitespace) (u' ++ v) _ hlt
            rw [hdrop, hv] at hx
            injection hx with hx _
            subst hx
            rw [isWord_not_ws hwv] at hws
            cases hws
          · have heq : u'.length = wsCount (u' ++ v) := by omega
            rw [← heq, hdrop, hv] at hal
            match rv, hal with
            | p :: rest, hal =>
              simp only [alPeriod, Bool.and_eq_true] at hal
              have htv := hPv tv (by rw [hv]; simp)
              have := al_not_start_le src tv htv.1 htv.2 hal.1
              rcases hstart with h | h
              · rw [this.1] at h; cases h
              · rw [this.2] at h; cases h
            | [], hal => simp [alPeriod] at hal
      · rw [if_neg hb] at hpos ⊢
        have hA : (if (isEtc src t && headPeriod (u' ++ v)) = true then 2 else 0) ≤ 2 := by split <;> omega
        generalize (if (isEtc src t && headPeriod (u' ++ v)) = true then 2 else 0) = A at hA hpos ⊢
        split <;> omega


/-! ### the passes on ordered input with gaps and zero-width tokens; all passes -/

theorem Gap.inBounds {toks : List Tok} {p q n : Nat} (h : Gap toks p q) (hq : q ≤ n) : InBounds n toks :=
  fun t ht => by have := h.mem t ht; omega

theorem condenseLatin_total' (src : List Char) (toks : List Tok) (hin : InBounds src.length toks) :
    ∃ out, condenseLatin src toks = .ok out :=
  condensePattern_total_of _ _ src _ (latin_patOK_le src) toks hin

theorem condenseContractions_gap' (src : List Char) (toks : List Tok) (p q : Nat) (h : Gap toks p q) :
    ∃ out, condenseContractions src toks = .ok out ∧ Gap out p q :=
  condensePattern_gap_of _ _ src _ (contraction_patOK src) toks p q trivial h

theorem condenseEllipsis_gap' (src : List Char) (toks : List Tok) (p q : Nat) (h : Gap toks p q) :
    ∃ out, condenseEllipsis src toks = .ok out ∧ Gap out p q :=
  condensePattern_gap_of _ _ src _ (ellipsis_patOK src) toks p q trivial h

theorem condenseLatin_gap' (src : List Char) (toks : List Tok) (p q : Nat) (h : Gap toks p q)
    (hq : q ≤ src.length) : ∃ out, condenseLatin src toks = .ok out ∧ Gap out p q :=
  condensePattern_gap_of _ _ src _ (latin_patOK_le src) toks p q (h.inBounds hq) h

theorem condenseAll_gap' (src : List Char) (t0 : List Tok) (p q : Nat) (h : Gap t0 p q) (hq : q ≤ src.length) :
    ∃ out, condenseAll src t0 = .ok out ∧ Gap out p q := by
  unfold condenseAll
  have h3 : Gap (newlinesToBreaks (condenseNewlines (condenseSpaces t0))) p q :=
    gap_of_spans (newlinesToBreaks_span _) (condenseNewlines_gap' _ _ _ (condenseSpaces_gap' _ _ _ h))
  obtain ⟨t4, e4, h4⟩ := condenseContractions_gap' src _ _ _ h3
  have h5 := dottedInitialisms_gap' _ _ _ h4
  obtain ⟨t6, e6, h6⟩ := numberSuffixes_gap' src _ (h5.inBounds hq)
  obtain ⟨t7, e7, h7⟩ := condenseEllipsis_gap' src _ _ _ (h6 _ _ h5)
  obtain ⟨t8, e8, h8⟩ := condenseLatin_gap' src _ _ _ h7 hq
  simp only [e4, e6, e7, e8]
  exact ⟨_, rfl, gap_of_spans (matchQuotes_span _) h8⟩

/-- a property of spans that survives "start of one, end of another" and "minimum and maximum of a slice" holds of
everything `Document::parse` returns, if it returns -/
theorem condenseAll_all (P : Span → Prop) (hmerge : ∀ s c : Span, P s → P c → P ⟨s.start, c.stop⟩)
    (hspan : ∀ slice sp, (∀ t ∈ slice, P t.span) → spanOf slice = some sp → P sp)
    (src : List Char) (t0 out : List Tok) (h : condenseAll src t0 = .ok out) (hin : ∀ t ∈ t0, P t.span) :
    ∀ t ∈ out, P t.span := by
  unfold condenseAll at h
  have h1 := condenseRun_all spacesCfg P (fun s c hs hc _ => hmerge s c hs hc) t0 hin
  have h2 := condenseRun_all newlinesCfg P (fun s c hs hc _ => hmerge s c hs hc) _ h1
  have h3 := all_of_spans (newlinesToBreaks_span (dropFlagged (runGo newlinesCfg .scan (dropFlagged (runGo spacesCfg .scan t0))))) P h2
  simp only [condenseSpaces, condenseNewlines] at h
  split at h
  · cases h
  · rename_i t4 e4
    have h4 := condensePattern_all _ _ P hspan src _ t4 e4 h3
    have h5 := dottedInitialisms_all P hmerge t4 h4
    split at h
    · cases h
    · rename_i t6 e6
      have h6 := numberSuffixes_all P hmerge src _ t6 e6 h5
      split at h
      · cases h
      · rename_i t7 e7
        have h7 := condensePattern_all _ _ P hspan src _ t7 e7 h6
        split at h
        · cases h
        · rename_i t8 e8
          have h8 := condensePattern_all _ _ P hspan src _ t8 e8 h7
          cases h
          exact all_of_spans (matchQuotes_span _) P h8

end Harper
